"""C04 — selecting, replicating, joining, generating views equal their reference result."""
import hashlib, itertools, os, re, struct
from harness import gen_c04
from collections import Counter

ID = "C04"
MODEL_MODULES = ["Base", "Index", "Broadcast", "Select"]
HANDLERS = ["h_c04.ml"]

PROVED = ["C04_tile_shape", "C04_tile_element", "C04_repeat_flat", "C04_repeat_axis", "C04_roll_axis", "C04_roll_flat",
          "C04_pad", "C04_take_axis", "C04_take_flat", "C04_compress_axis", "C04_resize", "C04_resize_exact_monotone", "C04_resize_index_monotone", "C04_concatenate_axis",
          "C04_concatenate_flat", "C04_tril_triu", "C04_tril_triu_1d", "C04_tri_eye", "C04_diagflat",
          "C04_sliding_window_axis", "C04_expand_axis", "C04_arange_count", "C04_linspace_element", "C04_join_elements_on_domain"]
PARTIAL = ["C04_diagonal_matrix_partial"]
REFUTED = ["C04_roll_repeated_axis_refuted", "C04_int_float32_common_type_refuted"]
CORRESPONDENCE_ONLY = ["roll with a tuple of axes", "repeat with per-element counts", "compress with axis=None", "expand with several axes", "stack", "hstack",
                       "vstack", "dstack", "column_stack", "split", "sliding_window with several axes or axis=None",
                       "diagonal of arrays of dim > 2 or axes other than (0,1)", "where", "arange / linspace element values in floating point",
                       "full/zeros/ones(_like)", "identity"]

CLAIM = dict(
    text=("Kernel-checked for every dimension and every positive extent (Model Select.v = Spec, and the designated source index of every "
          "non-fill element is in bounds): tile (shape for all arguments; element i = a[i mod shape]); repeat with a scalar count (axis=None "
          "and every valid axis -dim <= axis < dim); roll with one axis (negative axes, any shift sign and magnitude) and axis=None; pad "
          "(documented widths [before.., after..], constant fill); take (every valid axis or axis=None, every valid entry incl. negative ones "
          "counted from the end); compress along every valid axis; resize (nearest neighbour as exact integer floor division, in bounds and "
          "monotone for every extent); concatenate (every valid axis and axis=None); "
          "tril / triu (dim >= 2 and the 1-d form), tri, eye, diagflat; sliding_window and expand along one axis (negative axes included); the "
          "element count of arange (empty ranges included) and the elements of linspace as exact rationals (num = 1 included); PARTIAL: "
          "diagonal for matrices with axes (0,1) and ANY offset (negative, beyond the extent). These statements describe the tree WITH the "
          "fix: commits wrap_axis (repeat / take / compress / concatenate), negative take entries, diagonal offset, arange empty range, "
          "arange negative integer step with a floating dtype, arange signed 64-bit difference of integer (run-time or constant) start / stop, linspace element 0; the former findings are regression Examples. ELEMENT TYPES: an element of an operand of type a joined "
          "(concatenate / stack family / where) with an operand of type b is copied exactly under C++'s common type whenever that agrees with "
          "NumPy's result type or the value is float32-representable (C04_join_elements_on_domain, types int8/int32/int64/float/double); "
          "REFUTED with Coq witnesses and listed as known findings: roll with an "
          "axis listed twice (last shift wins, NumPy adds); int32/int64 joined with float32 has element type float (NumPy float64: integers "
          "above 2^24 are rounded). "
          "CORRESPONDENCE-ONLY (modelled + specified + compared with the C++ on the grid, no element theorem): " + ", ".join(CORRESPONDENCE_ONLY) +
          ". Tied to the C++ by running view::X and array::X on run-time shaped operands (arguments as std::vector / std::array / run-time "
          "tuple / compile-time constants) and index::shape_X / index::X on vector / array / static_vector containers, two flavours "
          "(NDEBUG; asserts + ASan/UBSan), comparing shape and every element."),
    ref="5.4",
    technique="Coq proof (induction on shape lists) + differential correspondence with the extracted model", extra="")
RULE = ("per routine: small-scope box (source dim 1..3, extents 1..3; thorough dim 1..4, extents 1..4; plus a high_dim stream of "
        "dimension 6..7, extents 1..2, for roll / repeat / tile) crossed with the "
        "argument grid of the property (reps/repeats 1..3, shifts in [-2n-1,2n+1], pad widths 0..2 per side, index lists "
        "with repeated and negative entries, every axis incl. negative and None), sampled with a seeded rng where the box "
        "is larger than the per-routine budget; view level on run-time shaped operands with the argument passed as "
        "std::vector / std::array / run-time tuple / compile-time constants, eager level (array::X), index level "
        "(index::shape_X / index::X on vector / array / static_vector containers). Element types: every joining view on all ordered pairs of "
        "int8/int32/int64/float/double operands (fractional and extreme values, printed with %.17g and compared exactly), take / compress "
        "with int8/int32/int64/size_t/uint8/bool index and condition containers, conditions with non-0/1 truthy entries at view and index "
        "level, fill values of another type, generators with every dtype. Argument FORMS (generated TU, harness/gen_c04.py, ~220 table "
        "entries): every scalar argument of the generators (tri, eye, identity, arange, linspace, full/zeros/ones, diagflat, tril/triu) "
        "and of roll, repeat, tile, take, pad, concatenate, split, expand, sliding_window, resize as run-time int, run-time size_t, "
        "meta::ct_v<k>, k_ct, None or omitted, list arguments as vector / array / run-time tuple / tuple of constants, crossed so that both-"
        "constant, constant+run-time, run-time+constant and constant+None arms are instantiated with N != M and k != 0; the Model ignores "
        "the form, shape and every element are compared. LARGER EXTENTS: resize on 40 seeded extent pairs from 5..200 at view level and 300 "
        "pairs at index level (index::resize of every output position; multiples, coprime pairs, pairs with a common factor, "
        "neighbours, src > dst and src < dst, 1-d and one long axis of a 2-d shape), repeat with counts up to 64, tile, roll with shifts "
        "of many extents, sliding_window / expand / pad / diagonal on long axes, arange up to 150 elements, linspace up to 100, all "
        "against the Model's exact integer arithmetic (C04_resize, C04_resize_exact_monotone hold for every extent). non-trivial = source of dim >= 2 with an "
        "extent > 1; distinct = distinct case lines")
THEOREM_STATUS = {"proved": PROVED, "partial": PARTIAL, "refuted": REFUTED}
ASSUMPTIONS = ["extents are positive; repeats/reps >= 1; arithmetic in Z (extents far below 2^31 in every generated case)"]

_here = os.path.dirname(os.path.abspath(__file__))
def _sha(name):
    p = os.path.join(_here, "..", "..", "drivers", name)
    try: return hashlib.sha256(open(p, "rb").read()).hexdigest()[:12]
    except OSError: return "missing"


def drivers(tier):
    dep = "-DVD_DEP_SHA=\"%s%s%s\"" % (_sha("c04_common.hpp"), _sha("show.hpp"), _sha("c04_typed.hpp"))
    return {"c04a": [("c04_a.cpp", "ndebug", (dep,)), ("c04_a.cpp", "asan", ("-DVD_LIGHT", dep))],
            "c04b": [("c04_b.cpp", "ndebug", (dep,)), ("c04_b.cpp", "asan", ("-DVD_LIGHT", dep))],
            # the generated argument-form TU shares the key (and hence the build slot) of the typed TU: each of the two
            # binaries answers "unsupported" to the other's case lines; constants are compile-time dispatch, so no asan build
            "c04c": [("c04_c.cpp", "ndebug", (dep,)), ("c04_c.cpp", "asan", ("-DVD_LIGHT", dep)),
                     (gen_c04.write_driver(), "ndebug", (dep,))]}


# ---------------------------------------------------------------- helpers
def L(v): return "L:" + ",".join(str(x) for x in v)
def A(shape):
    n = 1
    for x in shape: n *= x
    return "A:%s:%s" % (",".join(map(str, shape)), ",".join(map(str, range(n))))
def AX(a): return "N" if a is None else "I:%d" % a
def A1(shape, base=1):
    n = 1
    for x in shape: n *= x
    return "A:%s:%s" % (",".join(map(str, shape)), ",".join(map(str, range(base, base + n))))
def AD(shape, data): return "A:%s:%s" % (",".join(map(str, shape)), ",".join(map(str, data)))
def size(shape):
    n = 1
    for x in shape: n *= x
    return n

# ---- typed operands:  T:<dtype>:<shape>:<data>  (integer data; for f32 / f64 an entry x is the value x/4)
DTYPES = ["i8", "i32", "i64", "f32", "f64"]
TYPED_PAIRS = [("i32", "f32"), ("f32", "i32"), ("i64", "f64"), ("f64", "i64"), ("i8", "i64"), ("i64", "f32"), ("f32", "f64")]   # with_typed_pair
def f32_exact(v): return struct.unpack("f", struct.pack("f", float(v)))[0] == float(v)
def typed_values(rng, dt, n, partner=None):
    """n entries of dtype dt: fractional for the floating types, extreme / large for the integer types; an integer operand
    joined with a float32 operand stays float32-representable here (the other case is the int_float32 stream)"""
    if dt == "i8": pool = [-128, 127, -1, 0, 5, 100, -77]
    elif dt == "i32": pool = [-2147483648, 2147483647, 16777217, -16777219, 65537, -3, 0, 12] if partner != "f32" else [16777216, -16777216, 65537, -3, 0, 12, 8388607]
    elif dt == "i64": pool = [1099511627777, -1099511627779, 4503599627370497, 2147483648, -5, 0, 3] if partner != "f32" else [16777216, -8388609, 65537, -5, 0, 3]
    elif dt == "f32": pool = [1, -9, 2, 7, -5, 4194305, -33, 0, 10, 3]           # 0.25, -2.25, ..., 2^20 + 0.25
    else: pool = [1, -9, 2, 7, -5, 4398046511105, -33, 0, 10, 3]                   # ..., 2^40 + 0.25
    return [rng.choice(pool) for _ in range(n)]
def T(rng, dt, shape, partner=None): return "T:%s:%s:%s" % (dt, ",".join(map(str, shape)), ",".join(map(str, typed_values(rng, dt, size(shape), partner))))
def TD(dt, shape, data): return "T:%s:%s:%s" % (dt, ",".join(map(str, shape)), ",".join(map(str, data)))
def truthy(rng, n, lo=-3, hi=9):
    """a condition with non-0/1 truthy entries (and at least one true, one false where possible)"""
    c = [rng.choice([0, 0, 1, 2, hi, lo, 5]) for _ in range(n)]
    if all(x == 0 for x in c): c[rng.randrange(n)] = 2
    return c

CT_LISTS_POS = [(2,), (3,), (1, 2), (2, 1), (2, 2), (2, 1, 2)]
CT_LISTS_AXES = [(0,), (0, 1), (1, 0), (-1, 0), (0, 2)]
CT_LISTS_PAD = [(1, 2), (0, 1), (1, 0, 2, 1), (0, 2, 1, 0), (1, 0, 1, 0, 1, 2)]
CT_LISTS_TAKE = [(0,), (1, 0), (0, 0, 1), (1, 1)]
CT_LISTS_RESIZE = [(4,), (2, 5), (3, 1), (1, 2, 4)]
CT_LISTS_WIN = [(2,), (1, 2), (2, 2), (2, 1, 2)]
CT_INTS_OFF = [0, 1, -1, 2]
CT_INTS_POS = [1, 2, 3]
CT_INTS_AXIS = [0, 1, 2, -1]


def all_shapes(maxd, maxe, mind=1):
    out = []
    for d in range(mind, maxd + 1): out += list(itertools.product(range(1, maxe + 1), repeat=d))
    return out


def take(rng, seq, n):
    seq = list(seq)
    return seq if len(seq) <= n else rng.sample(seq, n)


def rand_index(rng, shape): return [rng.randrange(e) for e in shape]


def gen_cases(rng, tier):
    out = []
    def add(stream, line, key="c04a"): out.append((stream, line, key))
    q = tier == "quick"
    maxd, maxe = (3, 3) if q else (4, 4)
    shapes = all_shapes(maxd, maxe)
    big = [(5, 2), (2, 7), (6,), (2, 1, 5), (1, 4, 1, 3), (2, 2, 2, 2)]
    B = 1 if q else 6            # budget multiplier

    # ---------------- tile
    repss = all_shapes(3, 3)
    pairs = take(rng, itertools.product(shapes, repss), 260 * B)
    for n, (s, r) in enumerate(pairs):
        add("tile", "tile S:%s %s %s" % (["vec", "arr", "tup"][n % 3], A(s), L(r)))
        if n % 4 == 0: add("tile", "tile_e %s %s" % (A(s), L(r)))
        dst = None
        d = max(len(s), len(r)); sp = (1,) * (d - len(s)) + s; rp = (1,) * (d - len(r)) + r
        dst = [a * b for a, b in zip(sp, rp)]
        add("tile", "tile_ix S:%s %s %s %s" % (["vec", "arr", "sv"][n % 3], L(s), L(r), L(rand_index(rng, dst))))
    for r in CT_LISTS_POS:
        for s in take(rng, shapes, 6): add("tile", "tile S:ct %s %s" % (A(s), L(r)))
    for s in big + [(2, 2, 2, 2), (2, 1, 2, 3), (3, 2, 1, 2)]:
        for r in take(rng, repss, 3): add("tile", "tile S:vec %s %s" % (A(s), L(r)))

    # ---------------- repeat
    for n, s in enumerate(take(rng, shapes, 30 * B) + big):
        for r in (1, 2, 3):
            for a in [None] + list(range(-len(s), len(s))):
                k = ["vec", "u"][n % 2] if (a is None or a >= 0) else "vec"
                if rng.random() < 0.5 or len(s) >= 3:
                    add("repeat", "repeat S:%s %s I:%d %s" % (k, A(s), r, AX(a)))
                if rng.random() < 0.15: add("repeat", "repeat_e %s I:%d %s" % (A(s), r, AX(a)))
                if a is not None and rng.random() < 0.3:
                    dst = list(s); dst[a] *= r
                    add("repeat", "repeat_ix S:%s %s %s I:%d I:%d" % (["vec", "arr", "sv"][n % 3], L(s), L(rand_index(rng, dst)), r, a))
    for s in take(rng, shapes, 8):
        for r in CT_INTS_POS: add("repeat", "repeat S:ct %s I:%d N" % (A(s), r))
        for a in CT_INTS_AXIS:
            if -len(s) <= a < len(s): add("repeat", "repeat S:ct %s I:%d I:%d" % (A(s), rng.randint(1, 3), a))
    for n, s in enumerate(take(rng, shapes, 40 * B)):
        a = rng.randrange(-len(s), len(s))
        reps = [rng.choice([0, 1, 1, 2, 3]) for _ in range(s[a])]
        if sum(reps) == 0: reps[0] = 1
        add("repeat", "repeat_l S:%s %s %s I:%d" % (["vec", "arr", "tup"][n % 3], A(s), L(reps), a))

    # ---------------- roll
    for n, s in enumerate(take(rng, shapes, 30 * B) + big):
        for a in [None] + list(range(-len(s), len(s))):
            ext = (lambda p: p)(1)
            for x in s: ext *= x
            nn = ext if a is None else s[a]
            shifts = sorted(set([-2 * nn - 1, -2 * nn, -nn - 1, -nn, -1, 0, 1, nn - 1, nn, nn + 1, 2 * nn, 2 * nn + 1]))
            for sh in take(rng, shifts, 4):
                add("roll", "roll S:vec %s I:%d %s" % (A(s), sh, AX(a)))
            if rng.random() < 0.3: add("roll", "roll_e %s I:%d %s" % (A(s), rng.choice(shifts), AX(a)))
            if a is not None and rng.random() < 0.5:
                add("roll", "roll_ix S:%s %s %s I:%d I:%d" % (["vec", "arr", "sv"][n % 3], L(s), L(rand_index(rng, s)), rng.choice(shifts), a))
    for s in take(rng, shapes, 8):
        for a in CT_INTS_AXIS:
            if -len(s) <= a < len(s): add("roll", "roll S:ct %s I:%d I:%d" % (A(s), rng.randint(-7, 7), a))
    for n, s in enumerate(take(rng, [t for t in shapes if len(t) >= 2], 50 * B) + big[3:]):
        d = len(s)
        m = rng.randint(1, d)
        axes = rng.sample(range(d), m)
        axes = [a - d if rng.random() < 0.3 else a for a in axes]
        shifts = [rng.randint(-2 * s[a] - 1, 2 * s[a] + 1) for a in axes]
        k = ["vec", "arr", "tup"][n % 3]
        add("roll", "roll_m S:%s %s %s %s" % (k, A(s), L(shifts), L(axes)))
        if n % 3 == 0: add("roll", "roll_ms S:%s %s I:%d %s" % (k, A(s), shifts[0], L(axes)))
    for axes in CT_LISTS_AXES:
        for s in take(rng, [t for t in shapes if len(t) > max(max(axes), 1)], 4):
            add("roll", "roll_m S:ct %s %s %s" % (A(s), L([rng.randint(-5, 5) for _ in axes]), L(axes)))
    # NumPy adds the shifts of a repeated axis
    for s in take(rng, [t for t in shapes if len(t) >= 2 and max(t) > 1], 6 * B):
        a = rng.randrange(len(s))
        add("roll_repeated_axis", "roll_m S:vec %s %s %s" % (A(s), L([1, 1]), L([a, a - len(s) if rng.random() < 0.5 else a])))

    # ---------------- pad
    for n, s in enumerate(take(rng, shapes, 60 * B) + big):
        d = len(s)
        for _ in range(2):
            w = [rng.randint(0, 2) for _ in range(2 * d)]
            add("pad", "pad S:%s %s %s" % (["vec", "arr", "tup"][n % 3] if d <= 2 else "vec", A(s), L(w)))
            if rng.random() < 0.25: add("pad", "pad_e %s %s" % (A(s), L(w)))
            dst = [s[k] + w[k] + w[d + k] for k in range(d)]
            if d <= 3: add("pad", "pad_ix S:%s %s %s %s" % (["vec", "arr", "sv"][n % 3], L(s), L(w), L(rand_index(rng, dst))))
    for w in CT_LISTS_PAD:
        for s in take(rng, [t for t in shapes if 2 * len(t) == len(w)], 4): add("pad", "pad S:ct %s %s" % (A(s), L(w)))
    # malformed (outside the quantifier: judged "unspecified")
    add("malformed", "pad S:vec %s %s" % (A((2, 3)), L([1, 0, 2])))
    add("malformed", "roll S:vec %s I:1 I:2" % A((2, 3)))

    # ---------------- take
    for n, s in enumerate(take(rng, shapes, 40 * B) + big):
        d = len(s)
        for a in [None] + list(range(-d, d)):
            if a is not None and a < 0 and rng.random() < 0.6: continue
            nn = size(s) if a is None else s[a]
            m = rng.randint(1, 4)
            ind = [rng.randrange(nn) for _ in range(m)]
            if m >= 2 and rng.random() < 0.5: ind[1] = ind[0]                 # repeated entry
            k = ["vec", "arr", "tup"][n % 3]
            add("take", "take S:%s %s %s %s" % (k, A(s), L(ind), AX(a)))
            if rng.random() < 0.2: add("take", "take_e %s %s %s" % (A(s), L(ind), AX(a)))
            if a is not None and d <= 4 and rng.random() < 0.4:
                dst = list(s); dst[a] = m
                add("take", "take_ix S:%s %s %s %s I:%d" % (["vec", "arr", "sv"][n % 3], L(s), L(ind), L(rand_index(rng, dst)), a))
            if rng.random() < 0.25:                                           # negative entries (NumPy: from the end)
                neg = [x - nn if rng.random() < 0.5 else x for x in ind]
                if min(neg) >= 0: neg[0] -= nn
                add("take", "take S:vec %s %s %s" % (A(s), L(neg), AX(a if a is None or a >= 0 else a + d)))
    for ind in CT_LISTS_TAKE:
        for s in take(rng, [t for t in shapes if len(t) >= 2 and t[1] > max(ind)], 3): add("take", "take S:ct %s %s I:1" % (A(s), L(ind)))
    for a in CT_INTS_AXIS:
        for s in take(rng, [t for t in shapes if -len(t) <= a < len(t)], 3):
            add("take", "take S:ctax %s %s I:%d" % (A(s), L([rng.randrange(s[a]) for _ in range(2)]), a))

    # ---------------- compress
    for n, s in enumerate(take(rng, shapes, 40 * B) + big):
        d = len(s)
        for a in [None] + list(range(-d, d)):
            if a is not None and a < 0 and rng.random() < 0.6: continue
            nn = size(s) if a is None else s[a]
            m = rng.randint(1, nn)
            c = truthy(rng, m, lo=-1, hi=3) if rng.random() < 0.6 else [rng.randint(0, 1) for _ in range(m)]
            if all(x == 0 for x in c): c[rng.randrange(m)] = 1
            add("compress", "compress S:%s %s %s %s" % (["vec", "arr", "tup"][n % 3], L(c), A(s), AX(a)))
            if rng.random() < 0.2: add("compress", "compress_e %s %s %s" % (L(c), A(s), AX(a)))

    # ---------------- resize
    for n, s in enumerate(take(rng, shapes, 50 * B) + big):
        d = len(s)
        for _ in range(2):
            dst = [rng.randint(1, 5) for _ in range(d)]
            add("resize", "resize S:%s %s %s" % (["vec", "arr", "tup"][n % 3], A(s), L(dst)))
            if rng.random() < 0.2: add("resize", "resize_e %s %s" % (A(s), L(dst)))
            add("resize", "resize_ix S:%s %s %s %s" % (["vec", "arr", "sv"][n % 3], L(s), L(dst), L(rand_index(rng, dst))))
    for dst in CT_LISTS_RESIZE:
        for s in take(rng, [t for t in shapes if len(t) == len(dst)], 3): add("resize", "resize S:ct %s %s" % (A(s), L(dst)))
    add("malformed", "resize S:vec %s %s" % (A((2, 3)), L([6])))
    add("malformed", "resize S:vec %s %s" % (A((2, 3)), L([0, 2])))

    # ---------------- expand
    for n, s in enumerate(take(rng, shapes, 40 * B) + big):
        d = len(s)
        for a in range(-d, d):
            sp_ = rng.randint(0, 2)
            add("expand", "expand S:vec %s I:%d I:%d" % (A(s), a, sp_))
            if rng.random() < 0.15: add("expand", "expand_e %s I:%d I:%d" % (A(s), a, sp_))
        if d >= 2:
            m = rng.randint(1, d); axes = rng.sample(range(d), m)
            axes = [x - d if rng.random() < 0.3 else x for x in axes]
            add("expand", "expand_m S:%s %s %s %s" % (["vec", "arr", "tup"][n % 3], A(s), L(axes), L([rng.randint(0, 2) for _ in axes])))
    for a in CT_INTS_AXIS:
        for s in take(rng, [t for t in shapes if -len(t) <= a < len(t)], 3): add("expand", "expand S:ct %s I:%d I:%d" % (A(s), a, rng.randint(0, 2)))
    for axes in CT_LISTS_AXES:
        for s in take(rng, [t for t in shapes if len(t) > max(max(axes), 1)], 2):
            add("expand", "expand_m S:ct %s %s %s" % (A(s), L(axes), L([rng.randint(0, 2) for _ in axes])))

    # ---------------- concatenate
    def B_(shape): return A1(shape, 100)
    for n, s in enumerate(take(rng, shapes, 50 * B) + big):
        d = len(s)
        for a in [None] + list(range(-d, d)):
            if a is not None and a < 0 and rng.random() < 0.6: continue
            if a is None:
                t = rng.choice(shapes)
            else:
                t = list(s); t[a] = rng.randint(1, 3); t = tuple(t)
            k = "vec" if (a is None or a < 0) else ["vec", "u"][n % 2]
            add("concat", "concat S:%s %s %s %s" % (k, A(s), B_(t), AX(a)), "c04b")
            if rng.random() < 0.2: add("concat", "concat_e %s %s %s" % (A(s), B_(t), AX(a)), "c04a")
            if a is not None and rng.random() < 0.5:
                dst = list(s); dst[a] += t[a]
                add("concat", "concat_ix S:%s %s %s %s I:%d" % (["vec", "arr", "sv"][n % 3], L(s), L(t), L(rand_index(rng, dst)), a), "c04b")
    for a in CT_INTS_AXIS:
        for s in take(rng, [t for t in shapes if -len(t) <= a < len(t)], 3):
            t = list(s); t[a] = rng.randint(1, 3)
            add("concat", "concat S:ct %s %s I:%d" % (A(s), B_(t), a), "c04b")
    add("malformed", "concat S:vec %s %s I:0" % (A((2, 3)), B_((2, 2))), "c04b")
    # stack family
    for n, s in enumerate(take(rng, shapes, 40 * B) + big[:4]):
        d = len(s)
        for a in range(-d - 1, d + 1):
            if a < 0 and rng.random() < 0.6: continue
            add("stack", "stack S:vec %s %s I:%d" % (A(s), B_(s), a), "c04b")
            if rng.random() < 0.15: add("stack", "stack_e %s %s I:%d" % (A(s), B_(s), a), "c04b")
        ax = 0 if d == 1 else 1
        t = list(s); t[ax] = rng.randint(1, 3)
        add("stack", "hstack %s %s" % (A(s), B_(t)), "c04b")
        if d == 1: add("stack", "vstack %s %s" % (A(s), B_(s)), "c04b")
        else:
            t = list(s); t[0] = rng.randint(1, 3); add("stack", "vstack %s %s" % (A(s), B_(t)), "c04b")
        if d <= 2: add("stack", "dstack %s %s" % (A(s), B_(s)), "c04b")
        else:
            t = list(s); t[2] = rng.randint(1, 3); add("stack", "dstack %s %s" % (A(s), B_(t)), "c04b")
        if d == 1: add("stack", "column_stack %s %s" % (A(s), B_(s)), "c04b")
        else:
            t = list(s); t[1] = rng.randint(1, 3); add("stack", "column_stack %s %s" % (A(s), B_(t)), "c04b")
            if d == 2: add("stack", "column_stack %s %s" % (A(s), B_((s[0],))), "c04b")
    for a in (0, 1, 2):
        for s in take(rng, [t for t in shapes if len(t) >= a], 2): add("stack", "stack S:ct %s %s I:%d" % (A(s), B_(s), a), "c04b")

    # ---------------- split
    for n, s in enumerate(take(rng, all_shapes(maxd, 4), 50 * B) + [(6, 2), (2, 8), (4, 1, 6)]):
        d = len(s)
        a = rng.randrange(-d, d)
        divs = [k for k in range(1, s[a] + 1) if s[a] % k == 0]
        add("split", "split %s I:%d I:%d" % (A(s), rng.choice(divs), a), "c04b")
        if s[a] >= 2:
            m = rng.randint(1, min(3, s[a] - 1))
            idx = sorted(rng.sample(range(1, s[a]), m))
            add("split", "split_l S:%s %s %s I:%d" % (["vec", "arr", "tup"][n % 3], A(s), L(idx), a), "c04b")

    # ---------------- sliding_window
    for n, s in enumerate(take(rng, all_shapes(maxd, 4), 60 * B) + big):
        d = len(s)
        win = [rng.randint(1, e) for e in s]
        add("sliding_window", "sw S:%s %s %s N" % (["vec", "arr", "tup"][n % 3], A(s), L(win)), "c04b")
        m = rng.randint(1, d); axes = rng.sample(range(d), m)
        w = [rng.randint(1, s[a]) for a in axes]
        axes = [x - d if rng.random() < 0.3 else x for x in axes]
        k = ["vec", "arr", "tup"][n % 3]
        add("sliding_window", "sw S:%s %s %s %s" % (k, A(s), L(w), L(axes)), "c04b")
        if rng.random() < 0.2: add("sliding_window", "sw_e %s %s %s" % (A(s), L(w), L(axes)), "c04b")
        dst = [s[j] - sum(w[t] - 1 for t in range(m) if axes[t] % d == j) for j in range(d)] + w
        if rng.random() < 0.5: add("sliding_window", "sw_ix S:%s %s %s %s %s" % (["vec", "arr", "sv"][n % 3], L(s), L(w), L(axes), L(rand_index(rng, dst))), "c04b")
        a = rng.randrange(-d, d)
        add("sliding_window", "sw1 S:vec %s I:%d I:%d" % (A(s), rng.randint(1, s[a]), a), "c04b")
        if d == 1: add("sliding_window", "sw1 S:vec %s I:%d N" % (A(s), rng.randint(1, s[0])), "c04b")
        # the same axis listed twice: both windows apply (NumPy does the same)
        if rng.random() < 0.15 and s[a] >= 3:
            add("sliding_window", "sw S:vec %s %s %s" % (A(s), L([2, 2]), L([a, a])), "c04b")
    for w in CT_LISTS_WIN:
        for s in take(rng, [t for t in all_shapes(maxd, 4) if len(t) == len(w) and all(x >= y for x, y in zip(t, w))], 3):
            add("sliding_window", "sw S:ct %s %s N" % (A(s), L(w)), "c04b")
    for axes in CT_LISTS_AXES:
        for s in take(rng, [t for t in all_shapes(maxd, 4) if len(t) > max(max(axes), 1) and min(t) >= 2], 2):
            add("sliding_window", "sw S:ct %s %s %s" % (A(s), L([2] * len(axes)), L(axes)), "c04b")
    for a in CT_INTS_AXIS:
        for s in take(rng, [t for t in shapes if -len(t) <= a < len(t)], 2): add("sliding_window", "sw1 S:ct %s I:%d I:%d" % (A(s), rng.randint(1, s[a]), a), "c04b")

    # ---------------- diagonal / diagflat / tril / triu
    for n, s in enumerate(take(rng, [t for t in all_shapes(maxd, 4) if len(t) >= 2], 60 * B) + big[:2] + big[3:]):
        d = len(s)
        a1, a2 = rng.sample(range(d), 2)
        if n % 3 == 0: a1, a2 = 0, 1
        for off in range(0, s[a2]):
            if s[a1] >= 1 and off < s[a2]:
                b1, b2 = (a1 - d if rng.random() < 0.25 else a1), (a2 - d if rng.random() < 0.25 else a2)
                add("diagonal", "diagonal S:vec %s I:%d I:%d I:%d" % (A(s), off, b1, b2), "c04b")
        if rng.random() < 0.2: add("diagonal", "diagonal_e %s I:%d I:%d I:%d" % (A(s), rng.randrange(s[a2]), a1, a2), "c04b")
        if rng.random() < 0.3:
            for off in (s[a2], s[a2] + 1, -s[a1], -s[a1] - 2):
                add("diagonal_empty", "diagonal S:vec %s I:%d I:%d I:%d" % (A(s), off, a1, a2), "c04b")
        if rng.random() < 0.3:
            add("diagonal", "diagonal S:vec %s I:%d I:%d I:%d" % (A(s), -rng.randint(1, s[a1] - 1) if s[a1] > 1 else -1, a1, a2), "c04b")
    for off in CT_INTS_OFF:
        if off >= 0:
            for s in take(rng, [t for t in all_shapes(3, 4) if len(t) >= 2 and t[1] > off], 3): add("diagonal", "diagonal S:ct %s I:%d I:0 I:1" % (A(s), off), "c04b")
    for n, s in enumerate(take(rng, shapes, 30 * B) + big):
        d = len(s)
        for k in take(rng, range(-3, 4), 3):
            add("tril_triu", "tril S:vec %s I:%d" % (A1(s), k), "c04b")
            add("tril_triu", "triu S:vec %s I:%d" % (A1(s), k), "c04b")
        if rng.random() < 0.3:
            add("tril_triu", "tril_e %s I:%d" % (A1(s), rng.randint(-2, 2)), "c04b")
            add("tril_triu", "triu_e %s I:%d" % (A1(s), rng.randint(-2, 2)), "c04b")
        if size(s) <= 6: add("diagflat", "diagflat %s I:%d" % (A1(s), rng.randint(-2, 2)), "c04b")
    for k in CT_INTS_OFF:
        for s in take(rng, shapes, 2):
            add("tril_triu", "tril S:ct %s I:%d" % (A1(s), k), "c04b"); add("tril_triu", "triu S:ct %s I:%d" % (A1(s), k), "c04b")

    # ---------------- where
    def stretch(t):
        r = [1 if rng.random() < 0.35 else e for e in t]
        return tuple(r[rng.randint(0, len(r) - 1):])
    for n in range(60 * B):
        t = rng.choice(shapes)
        c, x, y = (stretch(t), stretch(t), stretch(t)) if rng.random() < 0.7 else (t, t, t)
        cd = [rng.choice([0, 0, 1, 2, -3, 7]) for _ in range(size(c))]
        add("where", "%s %s %s %s" % ("where" if n % 4 else "where_e", AD(c, cd), A(x), A1(y, 100)), "c04b")

    # ---------------- generators
    for n_ in range(1, 5):
        add("generators", "identity I:%d" % n_, "c04b")
        for m_ in [None] + list(range(1, 5)):
            for k in range(-4, 5):
                if rng.random() < (0.35 if q else 1.0):
                    add("generators", "tri I:%d %s I:%d" % (n_, AX(m_), k), "c04b")
                    add("generators", "eye I:%d %s I:%d" % (n_, AX(m_), k), "c04b")
                    if m_ is not None and rng.random() < 0.2: add("generators", "eye_e I:%d I:%d I:%d" % (n_, m_, k), "c04b")
    for n, s in enumerate(take(rng, shapes, 20 * B) + big):
        k = ["vec", "arr", "tup"][n % 3]
        add("generators", "full S:%s %s I:%d" % (k, L(s), rng.randint(-9, 9)), "c04b")
        add("generators", "zeros S:%s %s" % (k, L(s)), "c04b"); add("generators", "ones S:%s %s" % (k, L(s)), "c04b")
        add("generators", "full_like %s I:%d" % (A(s), rng.randint(-9, 9)), "c04b")
        add("generators", "zeros_like %s" % A(s), "c04b"); add("generators", "ones_like %s" % A(s), "c04b")
    for s in CT_LISTS_RESIZE:
        add("generators", "full S:ct %s I:7" % L(s), "c04b"); add("generators", "zeros S:ct %s" % L(s), "c04b"); add("generators", "ones S:ct %s" % L(s), "c04b")
    # arange: integer start/stop, step p/q with q in {1,2,4} (exact in binary floating point)
    for start in range(-3, 4):
        for stop in range(-3, 8):
            for (p, qq) in [(1, 1), (2, 1), (3, 1), (-1, 1), (-2, 1), (1, 2), (3, 2), (-1, 2), (3, 4), (5, 4)]:
                if rng.random() < ((0.12 if (stop - start) * p > 0 else 0.03) if q else 0.6): add("generators", "arange I:%d I:%d I:%d I:%d" % (start, stop, p, qq), "c04b")
    for stop in range(1, 6): add("generators", "arange1 I:%d" % stop, "c04b")
    for _ in range(8): a_ = rng.randint(-3, 3); add("generators", "arange2 I:%d I:%d" % (a_, a_ + rng.randint(1, 5)), "c04b")
    for _ in range(6): a_ = rng.randint(-3, 3); add("generators", "arange_e I:%d I:%d I:%d" % (a_, a_ + rng.randint(1, 6), rng.randint(1, 3)), "c04b")
    add("generators", "arange I:2 I:2 I:1 I:1", "c04b")                   # empty, count 0
    for (a_, b_, p) in [(3, 0, 1), (0, 3, -1), (2, 1, 2)]: add("generators", "arange I:%d I:%d I:%d I:1" % (a_, b_, p), "c04b")
    for start in range(-2, 3):
        for stop in range(-2, 6):
            for num in (1, 2, 3, 4, 5, 8):
                for e in (0, 1):
                    if num == 1 and e == 1: continue
                    if rng.random() < (0.1 if q else 0.5): add("generators", "linspace I:%d I:%d I:%d I:%d" % (start, stop, num, e), "c04b")
    for (a_, b_) in [(2, 5), (0, 0), (-1, 3)]: add("generators", "linspace I:%d I:%d I:1 I:1" % (a_, b_), "c04b")
    # ================= element types (c04_c.cpp): operands of different element types, other index / condition / fill types
    small = [(2,), (3,), (1, 2), (2, 2), (2, 3), (2, 1, 2)]
    for ta in DTYPES:
        for tb in DTYPES:
            for _ in range(2 if q else 6):
                s = rng.choice(small); d = len(s)
                a = rng.choice([None] + list(range(-d, d)))
                t = rng.choice(small) if a is None else tuple(rng.randint(1, 3) if k == a % d else e for k, e in enumerate(s))
                add("dtype_join", "tconcat %s %s %s" % (T(rng, ta, s, tb), T(rng, tb, t, ta), AX(a)), "c04c")
    for (ta, tb) in TYPED_PAIRS:
        for _ in range(2 if q else 6):
            s = rng.choice(small); d = len(s)
            a = rng.randrange(-d - 1, d + 1)
            add("dtype_join", "tstack %s %s I:%d" % (T(rng, ta, s, tb), T(rng, tb, s, ta), a), "c04c")
            add("dtype_join", "tstack_e %s %s I:%d" % (T(rng, ta, s, tb), T(rng, tb, s, ta), a % (d + 1)), "c04c")
            for opn in ("thstack", "thstack_e", "tvstack", "tdstack", "tcolumn_stack"):
                add("dtype_join", "%s %s %s" % (opn, T(rng, ta, s, tb), T(rng, tb, s, ta)), "c04c")
            a = rng.choice([None] + list(range(-d, d)))
            t = rng.choice(small) if a is None else tuple(rng.randint(1, 3) if k == a % d else e for k, e in enumerate(s))
            add("dtype_join", "tconcat_e %s %s %s" % (T(rng, ta, s, tb), T(rng, tb, t, ta), AX(a)), "c04a")
        for tc in ("u8", "i32", "i64", "i8"):
            s = rng.choice(small)
            cshape = rng.choice([s, s[-1:], (1,) * len(s)])
            cond = truthy(rng, size(cshape), lo=(200 if tc == "u8" else -3), hi=(255 if tc == "u8" else 127))
            yshape = rng.choice([s, s[:-1] + (1,), s])
            add("dtype_where", "%s %s %s %s" % (rng.choice(["twhere", "twhere", "twhere_e"]), TD(tc, cshape, cond), T(rng, ta, s, tb), T(rng, tb, yshape, ta)), "c04c")
    # an integer above 2^24 joined with a float32 operand: NumPy's result type is float64
    for (ta, tb, big) in [("i32", "f32", 16777217), ("f32", "i32", 2147483647), ("i64", "f32", 1099511627777), ("f32", "i64", -16777219)]:
        ia = TD(ta if ta != "f32" else tb, (2,), [big, 3]); fa = TD("f32", (2,), [1, -9])
        l, r = (ia, fa) if ta != "f32" else (fa, ia)
        add("int_float32", "tconcat %s %s I:0" % (l, r), "c04c")
        if (ta, tb) in TYPED_PAIRS: add("int_float32", "thstack %s %s" % (l, r), "c04c")
    # index lists of take in other integer containers (repeated, unsorted, negative where the type allows)
    for k in ("i8", "i32", "i64", "u64"):
        for ts in DTYPES:
            s = rng.choice([t for t in small if len(t) >= 1]); d = len(s)
            a = rng.choice([None] + list(range(-d, d)))
            nn = size(s) if a is None else s[a]
            ind = [rng.randrange(nn) for _ in range(rng.randint(2, 4))]; ind[1] = ind[0]
            if k != "u64": ind = [x - nn if rng.random() < 0.4 else x for x in ind]
            add("index_containers", "ttake S:%s %s %s %s" % (k, T(rng, ts, s), L(ind), AX(a)), "c04c")
    # conditions of compress: integer containers with non-0/1 truthy entries, bool container; the shape function and the
    # index map see the same condition (view level and index level)
    for k in ("i32", "u8", "i64", "i8", "bool"):
        for ts in ("f64", "i8", "f32"):
            for _ in range(2 if q else 5):
                s = rng.choice([(4, 3), (3,), (2, 4), (3, 2, 2)]); d = len(s)
                a = rng.choice([None] + list(range(-d, d)))
                nn = size(s) if a is None else s[a]
                m = rng.randint(1, min(nn, 4) if k == "bool" else nn)
                cond = truthy(rng, m, lo=(200 if k == "u8" else -2), hi=(255 if k == "u8" else 7))
                add("conditions", "tcompress S:%s %s %s %s" % (k, L(cond), T(rng, ts, s), AX(a)), "c04c")
        for _ in range(4 if q else 12):
            s = rng.choice([(4, 3), (3,), (2, 4), (3, 2, 2)]); d = len(s); a = rng.randrange(-d, d)
            m = rng.randint(1, min(s[a], 4) if k == "bool" else s[a])
            cond = truthy(rng, m, lo=(200 if k == "u8" else -2), hi=(255 if k == "u8" else 7))
            cnt = sum(1 for x in cond if x != 0)
            dst = list(s); dst[a] = cnt
            add("conditions", "compress_ix S:%s %s %s %s I:%d" % (k, L(cond), L(s), L(rand_index(rng, dst)), a), "c04c")
    # fill values of another type than the source (in range of the source type)
    for ts in DTYPES:
        for vt in ("i", "d"):
            s = rng.choice(small); d = len(s)
            w = [rng.randint(0, 2) for _ in range(2 * d)]; w[0] = max(w[0], 1)
            v = rng.choice([-6, 7, 10, -3]) if vt == "d" else rng.choice([7, -100, 0, 100])
            add("fill_types", "%s %s %s S:%s I:%d" % (rng.choice(["tpad", "tpad", "tpad_e"]), T(rng, ts, s), L(w), vt, v), "c04c")
    for ts in ("f64", "i8", "f32"):
        for vt in ("i", "d"):
            s = rng.choice(small); a = rng.randrange(-len(s), len(s))
            add("fill_types", "texpand %s I:%d I:%d S:%s I:%d" % (T(rng, ts, s), a, rng.randint(1, 2), vt, rng.choice([-6, 7, -3])), "c04c")
    # one typed operand through the selecting views: elements are copies in the source type
    for ts in ("f64", "i8", "f32"):
        for _ in range(1 if q else 4):
            s = rng.choice([t for t in small if len(t) >= 2]); d = len(s)
            add("dtype_select", "tsel S:tile %s %s" % (T(rng, ts, s), L([rng.randint(1, 2) for _ in range(rng.randint(1, 3))])), "c04c")
            add("dtype_select", "tsel S:repeat %s I:%d %s" % (T(rng, ts, s), rng.randint(1, 3), AX(rng.choice([None] + list(range(-d, d))))), "c04c")
            add("dtype_select", "tsel S:roll %s I:%d %s" % (T(rng, ts, s), rng.randint(-5, 5), AX(rng.choice([None] + list(range(-d, d))))), "c04c")
            add("dtype_select", "tsel S:resize %s %s" % (T(rng, ts, s), L([rng.randint(1, 4) for _ in s])), "c04c")
            a = rng.randrange(-d, d)
            add("dtype_select", "tsel S:sw %s %s %s" % (T(rng, ts, s), L([rng.randint(1, s[a])]), L([a])), "c04c")
            add("dtype_select", "tsel S:diagonal %s I:%d I:0 I:1" % (T(rng, ts, s), rng.randint(-1, 1)), "c04c")
            add("dtype_select", "tsel S:diagflat %s I:%d" % (T(rng, ts, (2,)), rng.randint(-1, 1)), "c04c")
            add("dtype_select", "tsel S:tril %s I:%d" % (T(rng, ts, s), rng.randint(-1, 1)), "c04c")
            add("dtype_select", "tsel S:triu %s I:%d" % (T(rng, ts, s), rng.randint(-1, 1)), "c04c")
    # generators with every dtype
    for dt in DTYPES:
        big_ = {"i8": [-128, 127], "i32": [2147483647, -7], "i64": [1099511627777, -9], "f32": [-7, 4194305], "f64": [4398046511105, 5]}[dt]
        for v in big_:
            add("dtype_generators", "%s S:%s %s I:%d" % (rng.choice(["tfull", "tfull_e"]), dt, L(rng.choice(small)), v), "c04c")
        add("dtype_generators", "tzeros S:%s %s" % (dt, L(rng.choice(small))), "c04c")
        add("dtype_generators", "tones S:%s %s" % (dt, L(rng.choice(small))), "c04c")
        add("dtype_generators", "ttri S:%s I:%d I:%d I:%d" % (dt, rng.randint(1, 3), rng.randint(1, 4), rng.randint(-2, 2)), "c04c")
        add("dtype_generators", "teye S:%s I:%d I:%d I:%d" % (dt, rng.randint(1, 3), rng.randint(1, 4), rng.randint(-2, 2)), "c04c")
        for (a_, b_, p) in [(0, 5, 2), (3, -4, -2), (-2, 2, 1), (2, 2, 1)]:
            add("dtype_generators", "tarange S:%s I:%d I:%d I:%d I:1" % (dt, a_, b_, p), "c04c")
        if dt in ("f32", "f64"):
            for (a_, b_, p, qq) in [(0, 2, 1, 2), (3, 0, -3, 4), (-1, 1, 1, 4)]:
                add("dtype_generators", "tarange S:%s I:%d I:%d I:%d I:%d" % (dt, a_, b_, p, qq), "c04c")
            for (a_, b_, n_, e) in [(2, 10, 5, 1), (-2, 9, 4, 0), (3, 9, 1, 1), (3, 9, 1, 0), (7, -9, 3, 1), (1, 1, 2, 1)]:
                add("dtype_generators", "tlinspace S:%s I:%d I:%d I:%d I:%d" % (dt, a_, b_, n_, e), "c04c")
    # ================= larger extents: every view whose source index is an ARITHMETIC function of the extents, on a band of
    # extents 5..200 (1-d and one long axis of a 2-d array), every element against the Model's exact integer arithmetic
    import math
    def extent_pair():
        """(src, dst) in 5..200: multiples, coprime pairs, pairs with a common factor (many exact quotients src*i/dst),
        neighbours; both src > dst and src < dst"""
        kind = rng.choice(["common", "common", "common", "multiple", "coprime", "near", "any"])
        for _ in range(200):
            if kind == "common":
                g = rng.randint(2, 25); a_, b_ = rng.randint(1, 200 // g), rng.randint(1, 200 // g)
                n, m = g * a_, g * b_
            elif kind == "multiple":
                n = rng.randint(5, 50); m = n * rng.randint(2, 200 // n)
                if rng.random() < 0.5: n, m = m, n
            elif kind == "near":
                n = rng.randint(6, 199); m = n + rng.choice([-1, 1])
            else:
                n, m = rng.randint(5, 200), rng.randint(5, 200)
                if kind == "coprime" and math.gcd(n, m) != 1: continue
            if 5 <= n <= 200 and 5 <= m <= 200 and n != m: return n, m
        return 26, 22
    nv, ni = (40, 300) if q else (120, 1500)
    for n_ in range(nv):                                   # view level: every element of the resized array
        n, m = extent_pair()
        if n_ % 4 == 3:
            k = rng.randint(2, 3)
            s, d = ((n, k), (m, rng.randint(1, 4))) if rng.random() < 0.5 else ((k, n), (rng.randint(1, 4), m))
        else: s, d = (n,), (m,)
        add("large_extents", "%s %s %s" % ("resize S:vec" if n_ % 5 else "resize_e", A(s), L(d)))
    for n_ in range(ni):                                   # index level: index::resize of every output position, no array
        n, m = extent_pair()
        if n_ % 6 == 5:
            k, k2 = rng.randint(2, 3), rng.randint(1, 4)
            s, d = ((n, k), (m, k2)) if rng.random() < 0.5 else ((k, n), (k2, m))
        else: s, d = (n,), (m,)
        add("large_extents", "resize_ixall S:%s %s %s" % (["vec", "arr", "sv"][n_ % 3], L(s), L(d)))
    for _ in range(8 if q else 30):
        n = rng.randint(5, 60); r = rng.choice([7, 16, 33, 50, rng.randint(4, 64)])
        if rng.random() < 0.5: add("large_extents", "repeat S:vec %s I:%d %s" % (A((n,)), r, AX(rng.choice([None, 0, -1]))))
        else: add("large_extents", "repeat S:vec %s I:%d I:%d" % (A((n, 2)), r, rng.choice([0, -2])))
        n = rng.randint(5, 80); reps = rng.randint(2, 12)
        if rng.random() < 0.5: add("large_extents", "tile S:vec %s %s" % (A((n,)), L([reps])))
        else: add("large_extents", "tile S:vec %s %s" % (A((2, n)), L([rng.randint(1, 2), reps])))
        n = rng.randint(5, 200); sh = rng.choice([-1, 1]) * (rng.randint(0, 12) * n + rng.randint(0, n))
        if rng.random() < 0.5: add("large_extents", "roll S:vec %s I:%d %s" % (A((n,)), sh, AX(rng.choice([None, 0, -1]))))
        else: add("large_extents", "roll S:vec %s I:%d %s" % (A((3, n)), sh, AX(rng.choice([None, 1, -1]))))
    for _ in range(5 if q else 20):
        n = rng.randint(20, 120); w = rng.randint(2, n // 2)
        add("large_extents", "sw1 S:vec %s I:%d I:0" % (A((n,)), w), "c04b")
        n = rng.randint(10, 60); w = rng.randint(2, n // 2)
        add("large_extents", "sw S:vec %s %s %s" % (A((2, n)), L([w]), L([-1])), "c04b")
        n = rng.randint(10, 80); sp_ = rng.randint(3, 9)
        add("large_extents", "expand S:vec %s I:%d I:%d" % (A((n,)) if rng.random() < 0.5 else A((n, 2)), 0, sp_))
        n = rng.randint(5, 60); w = [rng.randint(0, 30), rng.randint(0, 30)]
        add("large_extents", "pad S:vec %s %s" % (A((n,)), L(w)))
        n1, n2 = rng.randint(5, 60), rng.randint(5, 60)
        add("large_extents", "diagonal S:vec %s I:%d I:0 I:1" % (A((n1, n2)), rng.randint(-n1 - 1, n2 + 1)), "c04b")
    for _ in range(8 if q else 30):
        p_ = rng.choice([7, 13, -7, -13, 3, -1]); a_ = rng.randint(-50, 50); cnt = rng.randint(20, 150)
        add("large_extents", "arange I:%d I:%d I:%d I:1" % (a_, a_ + p_ * cnt + rng.choice([-1, 0, 1]) * rng.randint(0, abs(p_) - 1), p_), "c04b")
        pq = rng.choice([(3, 4), (-5, 4), (1, 2), (-3, 2)]); cnt = rng.randint(20, 120)
        add("large_extents", "arange I:%d I:%d I:%d I:%d" % (a_, a_ + (pq[0] * cnt) // pq[1] + (1 if pq[0] > 0 else -1), pq[0], pq[1]), "c04b")
        add("large_extents", "linspace I:%d I:%d I:%d I:%d" % (rng.randint(-20, 20), rng.randint(-20, 60), rng.choice([17, 33, 64, 97, rng.randint(10, 100)]), rng.randint(0, 1)), "c04b")
    # ================= high dimensions (6..7, extents 1..2): the theorems quantify over every dimension; this ties the model to
    # the code above the small-scope box too (fixed-size scratch arrays, unrolled arms)
    for _ in range(60 if q else 600):
        d = rng.randint(6, 7)
        s = tuple(rng.choice([1, 2, 2]) for _ in range(d))
        a = rng.randint(-d, d - 1)
        add("high_dim", "roll S:vec %s I:%d %s" % (A(s), rng.randint(-3, 3), AX(rng.choice([None, a]))))
        add("high_dim", "repeat S:vec %s I:%d %s" % (A(s), rng.randint(1, 2), AX(rng.choice([None, a]))))
        r = [1] * d; r[rng.randrange(d)] = 2
        add("high_dim", "tile S:vec %s %s" % (A(s), L(r)))
    # ================= argument forms (generated TU, harness/gen_c04.py): the Model ignores the form
    for line, _eid in gen_c04.lines(rng): add("argument_forms", line, "c04c")
    return out


def _ints(tok):
    body = tok.split(":", 1)[1] if ":" in tok else ""
    return [int(x) for x in body.split(",") if x]


def nontrivial(line):
    for m in re.findall(r"A:([0-9,]*):", line) + re.findall(r"^\S+_ix S:\S+ L:([0-9,]*)", line):
        sh = [int(x) for x in m.split(",") if x]
        if len(sh) >= 2 and any(x > 1 for x in sh): return True
    return False


def distribution(streams):
    ops = Counter(); dims = Counter(); kinds = Counter()
    for _, line, _ in streams:
        t = line.split(" ")
        ops[t[0]] += 1
        if len(t) > 1 and t[1].startswith("S:"): kinds[t[1][2:]] += 1
        for m in re.findall(r"A:([0-9,]*):", line): dims[str(len([x for x in m.split(",") if x]))] += 1
    return {"ops": dict(ops), "source_dims": dict(dims), "argument_kinds": dict(kinds)}


def _src_dim(t):
    for x in t:
        if x.startswith("A:"): return len(_ints("L:" + x.split(":")[1]))
    return None


def classify(line, impl, spec, model):
    t = line.split(" ")
    op = t[0]
    if op in ("tconcat", "tconcat_e", "tstack", "tstack_e", "thstack", "thstack_e", "tvstack", "tdstack", "tcolumn_stack", "twhere", "twhere_e"):
        ops_ = [x for x in t[1:] if x.startswith("T:")]
        if op.startswith("twhere"): ops_ = ops_[1:]
        dts = [x.split(":")[1] for x in ops_]
        if "f32" in dts and "f64" not in dts:
            for x in ops_:
                dt = x.split(":")[1]
                if dt in ("i32", "i64") and any(not f32_exact(int(v)) for v in x.split(":")[3].split(",") if v):
                    return "int_float32_common_type"
    if op in ("roll_m", "roll_ms"):
        d = _src_dim(t); axes = [a + d if a < 0 else a for a in _ints(t[-1])]
        if len(set(axes)) < len(axes): return "roll_repeated_axis"
    return None


def _num(x):
    try: return float(x)
    except ValueError: return None


def equal(a, b):
    """whitespace-insensitive equality.  Results marked "ok~" (linspace: index::linspace_step computes (float)stop - (float)start
    even for double arguments, linspace.hpp:17) are compared element-wise at float32 resolution (relative 2e-6);
    everything else, real-valued elements included ("%.17g"), must agree exactly"""
    a = " ".join(a.split()); b = " ".join(b.split())
    if a == b: return True
    if not (a.startswith("ok~ ") and b.startswith("ok~ ")): return False
    ha, _, ea = a.partition(";"); hb, _, eb = b.partition(";")
    if ha.strip() != hb.strip(): return False
    xa = [x for x in ea.strip().split(",") if x]; xb = [x for x in eb.strip().split(",") if x]
    if len(xa) != len(xb): return False
    for u, v in zip(xa, xb):
        fu, fv = _num(u), _num(v)
        if fu is None or fv is None or fu != fu or fv != fv: return False
        if abs(fu - fv) > 2e-6 * max(1.0, abs(fu), abs(fv)): return False
    return True
