"""C10 — eager evaluation returns exactly the lazy view; composition is unobservable."""
import itertools, re, sys
from collections import Counter
from harness.props import c11

ID = "C10"
MODEL_MODULES = ["Base", "Index", "Eval"]
HANDLERS = ["h_c10.ml"]
TWO_STAGE = True
NPART = 4
CLAIM = dict(
    text=("Kernel-checked for ANY view (a shape and an element function), every dimension and all positive extents: evaluating "
          "into an output of the view's shape (freshly resized result or caller-supplied), row- or column-major, leaves the "
          "shape equal to the view's shape and every element equal to the view's element (each cell written, none clobbered: "
          "uses the C01 bijection); the row-major buffer is the nested-loop list of the view's elements; the evaluator writes "
          "nothing exactly when the supplied output has another shape; evaluating inner views to concrete arrays (either layout) "
          "first and applying an n-ary outer operation that reads its operands through in-bounds element access gives pointwise "
          "the same result as the composed lazy view. Tied to the C++ by 22 two-level view compositions (indexing views, ufuncs, "
          "reductions, accumulate, matmul) over all small shapes: array::eval with RowMajorResolver / ColumnMajorResolver (raw "
          "buffers compared), supplied output, inner-first evaluation through both layouts, against element-wise reads of the "
          "lazy view and against the extracted evaluator model; and, for operands of all 19 ndarray kinds (fixed, bounded and clipped buffers "
          "and shapes) in kind pairs under one- and two-sided broadcasting and 3-operand where, by C11's kind-pair driver whose rt= / new= / "
          "old= fields state C10 directly; 3 compositions with EMPTY results (extent 0); a supplied output of the same element count but another shape must stay untouched; supplied outputs of other container kinds (nested std::vector, flat std::vector) are filled like the library's own;  (shape and all elements of eval(view) with the default resolver of array::fn and with the "
          "legacy resolver of eval(view) equal the lazy view's)."),
    ref="5.10", technique="Coq proof (write-fold invariant + C01 injectivity) + two-stage differential correspondence",
    extra="Result kinds other than the run-time shaped ndarray_t (fixed / hybrid / clipped result objects whose resize can be refused) are C11's subject; here the resize is assumed to succeed (theorem hypothesis ashape out = vshape v).")
RULE = ("every composition id x every operand shape of its admissible dimensions (dim 1..3, extents 1..3; thorough: extents 1..4 and dim 4 "
        "for the dimension-generic compositions) x 1-2 seeded data fillings; non-trivial = result has >= 2 elements and dim >= 2; "
        "distinct = distinct case lines; plus every case of C11's kind-pair (19 x 6 kinds x 6 broadcasting views) and where streams")
THEOREM_STATUS = {"proved": ["C10_eval_elements", "C10_eval_default_dynamic", "C10_row_major_buffer", "C10_skips_iff_shape_differs",
                             "C10_composition_unobservable", "C10_eval_empty_result"], "partial": [], "refuted": []}
ASSUMPTIONS = ["the lazy view's own elements are taken as observed from the implementation (their correctness is C03-C08/C16/C17)",
               "result object accepts the view's shape (run-time shaped result kind); refused resizes are examined under C11"]

ANY = list(range(1, 17)) + [40, 41, 42]      # 40..42: empty results (extent 0 through an empty slice)
DIM2P = [20, 21, 22, 23]
DIM2 = [30, 31]


def drivers(tier):
    specs = []
    for p in range(NPART):
        specs.append(("c10.cpp", "ndebug", ("-DPART=%d" % p, "-DNPART=%d" % NPART)))
    specs.append(("c10.cpp", "asan", ("-DPART=0", "-DNPART=2")))
    specs.append(("c10.cpp", "asan", ("-DPART=1", "-DNPART=2")))
    # operands of every ndarray kind (fixed / bounded / clipped buffers and shapes): C11's kind-pair and where driver, whose
    # "rt= | new= | old=" fields are exactly C10's statement (shape and every element of eval(view) equal the lazy view's)
    return {"c10": specs, "c11b": c11.drivers(tier)["c11b"]}


def model_for(dkey):
    return c11 if dkey.startswith("c11") else sys.modules[__name__]


def _f(s):
    return [" ".join(x.split()) for x in s.split("|")]


def equal(impl, spec):
    if "| new=" in spec or "| new=" in impl:
        fi, fs = _f(impl), _f(spec)
        return len(fi) == len(fs) and fi[3:] == fs[3:]       # rt= (the lazy view), new= and old= (the two eager evaluations)
    return "".join(impl.split()) == "".join(spec.split())


def A(shape, data):
    return "A:%s:%s" % (",".join(map(str, shape)), ",".join(map(str, data)))


def gen_cases(rng, tier):
    out = []
    maxe = 3 if tier == "quick" else 4
    shapes = []
    for d in (1, 2, 3): shapes += list(itertools.product(range(1, maxe + 1), repeat=d))
    if tier == "thorough": shapes += [tuple(rng.randint(1, 3) for _ in range(4)) for _ in range(40)]
    for s in shapes:
        n = 1
        for e in s: n *= e
        ids = list(ANY)
        if len(s) >= 2: ids += DIM2P
        if len(s) == 2: ids += DIM2
        for cid in ids:
            for rep in range(1 if tier == "quick" else 2):
                a = [rng.randint(-9, 9) for _ in range(n)]
                b = [rng.randint(-9, 9) for _ in range(n)]
                out.append(("compositions", "ev I:%d %s %s" % (cid, A(s, a), A(s, b)), "c10"))
    for stream, line, key in c11.gen_cases(rng, tier):
        if key == "c11b": out.append(("kinds/" + stream, line, key))
    return out


def nontrivial(line):
    if not line.startswith("ev "): return True
    m = re.search(r"A:([0-9,]*):", line)
    sh = [int(x) for x in m.group(1).split(",") if x]
    return len(sh) >= 2 and sum(1 for x in sh if x > 1) >= 1


def distribution(streams):
    comp = Counter(); dims = Counter()
    for _, line, _ in streams:
        if not line.startswith("ev "): comp[line.split(" ")[0]] += 1; continue
        comp[line.split(" ")[1]] += 1
        m = re.search(r"A:([0-9,]*):", line)
        dims[str(len(m.group(1).split(",")))] += 1
    return {"composition": dict(comp), "operand_dim": dict(dims)}


def classify(line, impl, spec, model):
    if line.startswith("ev "): return None
    fi, fs = _f(impl), _f(spec)
    # the legacy resolver of array::eval(view) (no resolver argument): everything but the old= field is right
    if len(fi) == len(fs) and fi[3:-1] == fs[3:-1] and fi[-1].startswith("old="):
        return "legacy-eval_t-no-room:%s" % line.split(" ")[1][2:]
    return None
