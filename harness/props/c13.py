"""C13 — the per-thread device kernel body reproduces host evaluation for any launch geometry."""
import itertools, re
from collections import Counter

ID = "C13"
MODEL_MODULES = ["Base", "Index", "Kernel"]
HANDLERS = ["h_c13.ml"]
CLAIM = dict(
    text=("Kernel-checked for every result, every block size >= 1 and EVERY schedule (list of (thread id, block id) pairs: any "
          "order, duplicated threads, over-provisioned grids, any initial buffer): if the schedule covers [0,size) the buffer "
          "after the launch is the flattened result of functional::apply(f, operands); in general each cell is final once a "
          "thread owning it ran and untouched otherwise; a thread with global id >= size writes nothing; every (grid, block) "
          "launch with grid*block >= size covers, in any execution order; the launch sizes computed by the CUDA/HIP/SYCL/OpenCL "
          "contexts cover (exact arithmetic, n < 2^24); create_array over a raw (pointer, shape, dim) triple is the original array. "
          "Tied to the C++ by a host simulation performing exactly the kernel's steps with the real functions "
          "(get_function_composition, get_function_operands, device_array / create_array from raw triples, create_mutable_array, "
          "functional::apply, assign_result with simulated ids) for 9 view compositions of depth 1..3 under generated schedules; "
          "compared: final buffer, per-thread write set, guard cells behind the buffer, host view. "
          "PARTIAL: device runtimes are absent from the sandbox - real device memory models, warp scheduling, vendor launch "
          "code (the geometry arithmetic sits in headers that need the CUDA/HIP/SYCL/OpenCL toolkits) are neither modelled nor "
          "corresponded. That result == host evaluation is C14's extraction theorem; its finding (non-leaf operand at position >= 1) is inherited."),
    ref="5.13", technique="Coq proof (invariant over an arbitrary schedule) + differential correspondence of a host simulation", extra="")
RULE = ("9 fixed view compositions (depth 1..3) x operand shapes dim 1..4 x operand styles (device_array DIM=0, fixed DIM, "
        "create_array views) x block sizes 1..33 x grids exact..2x x orders (ascending, descending, interleaved, seeded "
        "permutations, with duplicates, incomplete); rebuild round trips on all shapes dim 1..4 extents 1..3; compute_offset box. "
        "non-trivial = kern case with output size >= 4; distinct = distinct case lines")
THEOREM_STATUS = {"proved": ["C13_kernel_schedule_independent", "C13_cell_final_or_untouched",
                             "C13_out_of_range_threads_write_nothing", "C13_grid_launch_any_order", "C13_rebuild_roundtrip"],
                  "partial": ["C13_geometry_covers"], "refuted": ["C13_host_equivalence_refuted"]}
ASSUMPTIONS = ["thread/block ids are exact non-negative integers (64-bit wrap of bid*bsz+tid not modelled)",
               "launch geometry: exact arithmetic stands for size_t(ceil(float(n)/w)) (n < 2^24); proof only, the contexts are not compilable here",
               "device memory model / real concurrency not modelled: threads are independent single-cell writers, executed one after another",
               "result == host evaluation of the view only on C14's class wf (finding extraction-nonleaf-operand-at-position>=1 is inherited; "
               "the dangling sub-operand of the extraction was repaired in /repo by a fix: commit)"]

SENT = -999


def drivers(tier):
    return {"c13": [("c13.cpp", "ndebug", ()), ("c13.cpp", "asan", ("-DVD_LIGHT",))]}


# ---------------------------------------------------------------- tiny reference evaluator (independent of nmtools)
def size(sh):
    n = 1
    for e in sh: n *= e
    return n
def unravel(k, sh):
    idx = []
    for e in reversed(sh): idx.append(k % e); k //= e
    return tuple(reversed(idx))
def ravel(idx, sh):
    k = 0
    for i, e in zip(idx, sh): k = k * e + i
    return k
def gen(sh, f): return (tuple(sh), [f(unravel(k, sh)) for k in range(size(sh))])
def at(a, idx): return a[1][ravel(idx, a[0])]
def transpose(a): sh = tuple(reversed(a[0])); return gen(sh, lambda i: at(a, tuple(reversed(i))))
def flip0(a): return gen(a[0], lambda i: at(a, (a[0][0] - 1 - i[0],) + tuple(i[1:])))
def ew(f, a, b): assert a[0] == b[0]; return (a[0], [f(x, y) for x, y in zip(a[1], b[1])])
def neg(a): return (a[0], [-x for x in a[1]])
def sum_axis(a, ax):
    sh = a[0][:ax] + a[0][ax + 1:]
    return gen(sh, lambda i: sum(at(a, i[:ax] + (j,) + i[ax:]) for j in range(a[0][ax])))
def matmul(a, b):
    (m, k), (k2, n) = a[0], b[0]; assert k == k2
    return gen((m, n), lambda i: sum(at(a, (i[0], j)) * at(b, (j, i[1])) for j in range(k)))

COMPS = {
    "add":        lambda a, b: ew(lambda x, y: x + y, a, b),
    "tr":         lambda a, b: transpose(a),
    "sum_mul":    lambda a, b: sum_axis(ew(lambda x, y: x * y, a, b), 0),
    "flip_tr":    lambda a, b: flip0(transpose(a)),
    "mm_tr_l":    lambda a, b: matmul(transpose(a), b),
    "neg_tr_add": lambda a, b: neg(transpose(ew(lambda x, y: x + y, a, b))),
    "sum_tr_mul": lambda a, b: sum_axis(transpose(ew(lambda x, y: x * y, a, b)), 1),
    "mm_tr_r":    lambda a, b: matmul(a, transpose(b)),          # outside wf
    "sub_tr_l":   lambda a, b: ew(lambda x, y: x - y, transpose(a), b),   # binary ufunc over a non-leaf at position 0 (wf)
}
NONWF = {"mm_tr_r": "extraction-nonleaf-operand-at-position>=1"}


def A(a): return "A:%s:%s" % (",".join(map(str, a[0])), ",".join(map(str, a[1])))
def L(v): return "L:" + ",".join(str(x) for x in v)


def rand_arr(rng, sh): return (tuple(sh), [rng.randint(-5, 20) for _ in range(size(sh))])


def shapes_for(rng, comp):
    """operand shapes valid for the composition (b unused for unary ones)"""
    if comp in ("mm_tr_l",):
        k, m, n = rng.randint(1, 4), rng.randint(1, 4), rng.randint(1, 4); return (k, m), (k, n)
    if comp == "mm_tr_r":
        m = rng.randint(1, 3); k = rng.randint(m, 4); return (m, k), (m, k)
    if comp == "sub_tr_l":
        m, n = rng.randint(1, 4), rng.randint(1, 4); return (m, n), (n, m)
    lo = 2 if comp in ("sum_mul", "sum_tr_mul") else 1
    d = rng.randint(lo, 4)
    while True:
        sh = tuple(rng.randint(1, 4) for _ in range(d))
        if size(sh) <= 48: return sh, sh


def schedule(rng, n, kind):
    """-> (bsz, [(tid, bid)...]) for an output of n cells"""
    bsz = rng.randint(1, 33)
    gmin = -(-n // bsz)
    grid = rng.randint(gmin, max(gmin, -(-2 * n // bsz)))
    th = [(t, b) for b in range(grid) for t in range(bsz)]
    if kind == "ascending": pass
    elif kind == "descending": th.reverse()
    elif kind == "interleaved":
        s = rng.choice([2, 3, 5]); th = [x for o in range(s) for x in th[o::s]]
    elif kind == "permuted": rng.shuffle(th)
    elif kind == "duplicates":
        rng.shuffle(th); th = th + [rng.choice(th) for _ in range(rng.randint(1, max(1, len(th) // 2)))]; rng.shuffle(th)
    elif kind == "incomplete":
        rng.shuffle(th)
        live = [x for x in th if x[1] * bsz + x[0] < n]
        drop = set(rng.sample(live, rng.randint(1, max(1, len(live) // 2))))
        th = [x for x in th if x not in drop]
    elif kind == "beyond":   # only threads at and beyond the end, and far beyond
        th = [(t, b) for b in range(gmin, gmin + 2) for t in range(bsz)] + [(n - (n // bsz) * bsz, n // bsz)]
        th = [x for x in th if x[1] * bsz + x[0] >= n][:40]
    return bsz, th


KINDS = ["ascending", "descending", "interleaved", "permuted", "duplicates", "incomplete", "beyond"]


def gen_cases(rng, tier):
    out = []
    def add(stream, line): out.append((stream, line, "c13"))
    per = 8 if tier == "quick" else 60
    for comp in COMPS:
        reps = per if comp not in NONWF else max(2, per // 4)
        for kind in KINDS:
            for _ in range(reps):
                sa, sb = shapes_for(rng, comp)
                a, b = rand_arr(rng, sa), rand_arr(rng, sb)
                r = COMPS[comp](a, b)
                n = size(r[0])
                bsz, th = schedule(rng, n, kind)
                if not th: continue
                style = rng.choice(["cuda", "cuda", "ocl", "cudaN"])
                if style == "cudaN" and len(r[0]) > 2: style = "cuda"
                add("schedules-" + kind if comp not in NONWF else "inherited-findings",
                    "kern S:%s S:%s %s %s %s I:%d %s %s" % (comp, style, A(a), A(b), A(r), bsz, L([t for t, _ in th]), L([b_ for _, b_ in th])))
    # boundary: size exactly a multiple of the block, block larger than the output, block size 1
    for comp in ("add", "tr", "neg_tr_add"):
        for n, bsz in ((4, 4), (4, 2), (6, 33), (6, 1), (9, 3), (1, 1), (1, 7)):
            sh = {1: (1,), 4: (2, 2), 6: (2, 3), 9: (3, 3)}[n]
            a, b = rand_arr(rng, sh), rand_arr(rng, sh); r = COMPS[comp](a, b)
            grid = -(-n // bsz)
            for g in (grid, grid + 1):
                th = [(t, b_) for b_ in range(g) for t in range(bsz)]
                for order in (th, th[::-1]):
                    add("boundary", "kern S:%s S:cuda %s %s %s I:%d %s %s" % (comp, A(a), A(b), A(r), bsz, L([t for t, _ in order]), L([b_ for _, b_ in order])))
    maxe = 3 if tier == "quick" else 4
    for d in range(1, 5):
        for sh in itertools.product(range(1, maxe + 1), repeat=d):
            add("rebuild", "rebuild %s" % A(rand_arr(rng, sh)))
    for tid in range(0, 5):
        for bid in range(0, 4):
            for bsz in (1, 2, 3, 7, 32, 33):
                add("offset", "offset I:%d I:%d I:%d" % (tid, bid, bsz))
    return out


def _kern(line):
    p = line.split(" ")
    return p[1][2:] if p[0] == "kern" else None


def nontrivial(line):
    if not line.startswith("kern"): return False
    m = re.findall(r"A:([0-9,]*):", line)
    return size([int(x) for x in m[2].split(",") if x]) >= 4


def distribution(streams):
    comps = Counter(); styles = Counter(); bsz = Counter(); outdims = Counter()
    for _, line, _ in streams:
        p = line.split(" ")
        if p[0] != "kern": comps[p[0]] += 1; continue
        comps[p[1][2:]] += 1; styles[p[2][2:]] += 1
        bsz["1" if p[6] == "I:1" else ("2-8" if int(p[6][2:]) <= 8 else "9-33")] += 1
        outdims[str(len(p[5].split(":")[1].split(",")))] += 1
    return {"compositions": dict(comps), "operand_styles": dict(styles), "block_sizes": dict(bsz), "output_dims": dict(outdims)}


def classify(line, impl, spec, model):
    comp = _kern(line)
    if comp in NONWF:
        # the host view itself is right; what the kernel's extraction + apply produced is not
        hs = spec.split(" | ")[0]
        if impl.split(" | ")[0] == hs: return NONWF[comp]
    return None
