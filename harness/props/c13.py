"""C13 — the per-thread device kernel body reproduces host evaluation for any launch geometry."""
import itertools, os, re
from collections import Counter

ID = "C13"
MODEL_MODULES = ["Base", "Index", "Kernel"]
HANDLERS = ["h_c13.ml"]
CLAIM = dict(
    text=("Kernel-checked for every result, every block size >= 1 and EVERY schedule (list of (thread id, block id) pairs: any "
          "order, duplicated threads, over-provisioned grids, any initial buffer): if the schedule covers [0,size) the buffer "
          "after the launch is the flattened result of functional::apply(f, operands); in general each cell is final once a "
          "thread owning it ran and untouched otherwise; a thread with global id >= size writes nothing; every (grid, block) "
          "launch with grid*block >= size covers, in any execution order; the launch sizes computed by the CUDA/HIP/SYCL/OpenCL "
          "contexts cover (exact arithmetic, n < 2^24); create_array over a raw (pointer, shape, dim) triple is the original array. "
          "Tied to the C++ by a host simulation performing exactly the kernel's steps with the real functions "
          "(get_function_composition, get_function_operands, device_array / create_array from raw triples, create_mutable_array, "
          "functional::apply, assign_result with simulated ids) for 26 view compositions of depth 1..3 under generated schedules - "
          "among them parameterised unary ufuncs (leaky_relu / hardtanh / hardshrink / softshrink with NON-default run-time "
          "parameters taken from the case line, as single node and as inner / outer node of depth-2/3 compositions), a reduction with "
          "run-time axis and initial value, and expand_dims / reshape / broadcast_to / tile raising operand ranks 1..4 to OUTPUT "
          "ranks 5..8 (the capacity of the kernel's shape vector), and views of rank >= 3 whose attributes have as_static_t "
          "specialisations (transpose with non-reversal permutations, repeat, roll, cumsum, sum with keepdims, tile, reshape, "
          "broadcast_to); every composition also on the HIP/SYCL ROUTE: the extracted function is first mapped with the mirrored "
          "context_t::map_to_device, which calls the real array::as_static on every functor attribute (CUDA passes the function "
          "as it is; OpenCL has no such mapping); "
          "compared: final buffer, per-thread write set, guard cells behind the buffer, host view. "
          "PARTIAL: device runtimes are absent from the sandbox - real device memory models, warp scheduling, vendor launch "
          "code (the geometry arithmetic sits in headers that need the CUDA/HIP/SYCL/OpenCL toolkits) are neither modelled nor "
          "corresponded. That result == host evaluation is C14's extraction theorem; its finding (non-leaf operand at position >= 1) is inherited."),
    ref="5.13", technique="Coq proof (invariant over an arbitrary schedule) + differential correspondence of a host simulation", extra="")
RULE = ("element types x values: every composition runs with int64 (values beyond 2^24 and 2^53 with odd low bits), with a narrow "
        "int type (int16 or int32 up to the range ends, kept where the host result is still exact) and with float64 values NOT "
        "representable in binary32 (0.1-like fractions, 1+2^-40, > 2^24 odd, subnormal, near-max); float64 travels as 64-bit "
        "patterns and is compared bit for bit. 36 fixed view compositions x routes {cuda (device_array), ocl (create_array views), cudaN (fixed DIM), hip (attributes "
        "through array::as_static)}; 26 fixed view compositions (depth 1..3; 11 with run-time attributes: activation parameters in {-1.5,-0.25,0.25,0.5,0.75,2.5,"
        "7.5,10}, clamp pairs, shrink thresholds, reduction axis/initial, on data with negatives and out-of-clamp values; 6 "
        "rank-raising views with output rank 5..8 and distinct extents) x operand shapes dim 1..4 x operand styles (device_array DIM=0, fixed DIM, "
        "create_array views) x block sizes 1..33 x grids exact..2x x orders (ascending, descending, interleaved, seeded "
        "permutations, with duplicates, incomplete); rebuild round trips on all shapes dim 1..4 extents 1..3; compute_offset box. "
        "non-trivial = kern case with output size >= 4; distinct = distinct case lines")
THEOREM_STATUS = {"proved": ["C13_kernel_schedule_independent", "C13_cell_final_or_untouched",
                             "C13_out_of_range_threads_write_nothing", "C13_grid_launch_any_order", "C13_rebuild_roundtrip"],
                  "partial": ["C13_geometry_covers"], "refuted": ["C13_host_equivalence_refuted"]}
ASSUMPTIONS = ["thread/block ids are exact non-negative integers (64-bit wrap of bid*bsz+tid not modelled)",
               "launch geometry: exact arithmetic stands for size_t(ceil(float(n)/w)) (n < 2^24); proof only, the contexts are not compilable here",
               "device memory model / real concurrency not modelled: threads are independent single-cell writers, executed one after another",
               "result == host evaluation of the view only on C14's class wf (finding extraction-nonleaf-operand-at-position>=1 is inherited; "
               "the dangling sub-operand of the extraction was repaired in /repo by a fix: commit)"]

SENT = -999


def drivers(tier):
    # c13.cpp is built four times (2 groups of 2 compile jobs): part 1 = first table, styles cuda/ocl/cudaN (ndebug, asan);
    # part 2 = views with run-time attributes / high-rank outputs / rank>=3 attribute views, styles cuda/ocl (debug flavour);
    # part 3 (c13h.cpp = #include "c13.cpp") = ALL compositions on the hip/sycl route (attributes through array::as_static)
    import hashlib
    h = hashlib.sha256(open(os.path.join(os.path.dirname(__file__), "..", "..", "drivers", "c13.cpp"), "rb").read()).hexdigest()[:10]
    # element type of the leaves per build (C13_ELEM: 1 = int64, 2 = int32, 3 = int16, 4 = float64); a case line is answered by
    # the builds of its dtype tag only
    return {"c13": [("c13.cpp", "ndebug", ()), ("c13.cpp", "asan", ("-DVD_LIGHT", "-DC13_ELEM=3"))],
            "c13b": [("c13.cpp", "debug", ("-DC13_PART=2", "-DC13_ELEM=2")), ("c13h.cpp", "ndebug", ("-DC13_ELEM=4", "-DC13_SRC_HASH=0x" + h))]}


# ---------------------------------------------------------------- tiny reference evaluator (independent of nmtools)
def size(sh):
    n = 1
    for e in sh: n *= e
    return n
def unravel(k, sh):
    idx = []
    for e in reversed(sh): idx.append(k % e); k //= e
    return tuple(reversed(idx))
def ravel(idx, sh):
    k = 0
    for i, e in zip(idx, sh): k = k * e + i
    return k
def gen(sh, f): return (tuple(sh), [f(unravel(k, sh)) for k in range(size(sh))])
def at(a, idx): return a[1][ravel(idx, a[0])]
def transpose(a): sh = tuple(reversed(a[0])); return gen(sh, lambda i: at(a, tuple(reversed(i))))
def flip0(a): return gen(a[0], lambda i: at(a, (a[0][0] - 1 - i[0],) + tuple(i[1:])))
def ew(f, a, b): assert a[0] == b[0]; return (a[0], [f(x, y) for x, y in zip(a[1], b[1])])
def neg(a): return (a[0], [-x for x in a[1]])
def sum_axis(a, ax):
    sh = a[0][:ax] + a[0][ax + 1:]
    return gen(sh, lambda i: sum(at(a, i[:ax] + (j,) + i[ax:]) for j in range(a[0][ax])))
def matmul(a, b):
    (m, k), (k2, n) = a[0], b[0]; assert k == k2
    return gen((m, n), lambda i: sum(at(a, (i[0], j)) * at(b, (j, i[1])) for j in range(k)))

COMPS = {
    "add":        lambda a, b: ew(lambda x, y: x + y, a, b),
    "tr":         lambda a, b: transpose(a),
    "sum_mul":    lambda a, b: sum_axis(ew(lambda x, y: x * y, a, b), 0),
    "flip_tr":    lambda a, b: flip0(transpose(a)),
    "mm_tr_l":    lambda a, b: matmul(transpose(a), b),
    "neg_tr_add": lambda a, b: neg(transpose(ew(lambda x, y: x + y, a, b))),
    "sum_tr_mul": lambda a, b: sum_axis(transpose(ew(lambda x, y: x * y, a, b)), 1),
    "mm_tr_r":    lambda a, b: matmul(a, transpose(b)),          # outside wf
    "sub_tr_l":   lambda a, b: ew(lambda x, y: x - y, transpose(a), b),   # binary ufunc over a non-leaf at position 0 (wf)
}
# ---- part 2: views whose attributes carry run-time values (parameters from the CASE LINE, in quarters), rank-raising views
def lrelu(a, s): return (a[0], [x if x >= 0 else s * x for x in a[1]])
def htanh(a, lo, hi): return (a[0], [lo if x < lo else (hi if x > hi else x) for x in a[1]])
def hshrink(a, l): return (a[0], [0 if -l <= x <= l else x for x in a[1]])
def sshrink(a, l): return (a[0], [x - l if x > l else (x + l if x < -l else 0) for x in a[1]])
def expand_dims(a, axes):
    n = len(a[0]) + len(axes); it = iter(a[0])
    return (tuple(1 if k in axes else next(it) for k in range(n)), list(a[1]))
def reshape(a, sh): assert size(sh) == size(a[0]); return (tuple(sh), list(a[1]))
def broadcast_to(a, sh):
    pad = (1,) * (len(sh) - len(a[0])) + tuple(a[0])
    return gen(sh, lambda i: a[1][ravel(tuple(0 if e == 1 else x for x, e in zip(i, pad)), pad)])
def tile(a, reps):
    n = max(len(reps), len(a[0])); pad = (1,) * (n - len(a[0])) + tuple(a[0]); r = (1,) * (n - len(reps)) + tuple(reps)
    return gen(tuple(x * y for x, y in zip(pad, r)), lambda i: a[1][ravel(tuple(x % e for x, e in zip(i, pad)), pad)])
def transpose_ax(a, axes):
    sh = tuple(a[0][k] for k in axes)
    def src(i):
        j = [0] * len(axes)
        for pos, k in enumerate(axes): j[k] = i[pos]
        return tuple(j)
    return gen(sh, lambda i: at(a, src(i)))
def repeat_ax(a, r, ax):
    sh = a[0][:ax] + (a[0][ax] * r,) + a[0][ax + 1:]
    return gen(sh, lambda i: at(a, i[:ax] + (i[ax] // r,) + i[ax + 1:]))
def roll_ax(a, shift, ax):
    n = a[0][ax]
    return gen(a[0], lambda i: at(a, i[:ax] + ((i[ax] - shift) % n,) + i[ax + 1:]))
def cumsum_ax(a, ax): return gen(a[0], lambda i: sum(at(a, i[:ax] + (j,) + i[ax + 1:]) for j in range(i[ax] + 1)))
def sum_axis_init(a, ax, init):          # reducer_t: initial op x0 op x1 ... (left fold; matters for float64)
    sh = a[0][:ax] + a[0][ax + 1:]
    return gen(sh, lambda i: sum((at(a, i[:ax] + (j,) + i[ax:]) for j in range(a[0][ax])), init))
def sum_keep(a, ax, init):
    r = sum_axis_init(a, ax, init); return (a[0][:ax] + (1,) + a[0][ax + 1:], r[1])
def Q(p): return p / 4.0
def ints(a): return a        # (results are compared bit for bit as float64 now)
COMPS2 = {   # comp -> (reference(a, b, params), parameter kind)
    "lrelu":         lambda a, b, P: ints(lrelu(a, Q(P[0]))),
    "htanh":         lambda a, b, P: ints(htanh(a, Q(P[0]), Q(P[1]))),
    "hshrink":       lambda a, b, P: ints(hshrink(a, Q(P[0]))),
    "sshrink":       lambda a, b, P: ints(sshrink(a, Q(P[0]))),
    "lrelu_add":     lambda a, b, P: ints(lrelu(ew(lambda x, y: x + y, a, b), Q(P[0]))),
    "add_lrelu":     lambda a, b, P: ints(ew(lambda x, y: x + y, lrelu(a, Q(P[0])), b)),
    "sum_htanh":     lambda a, b, P: ints(sum_axis(htanh(a, Q(P[0]), Q(P[1])), 0)),
    "neg_tr_lrelu":  lambda a, b, P: ints(neg(transpose(lrelu(a, Q(P[0]))))),
    "htanh_tr_add":  lambda a, b, P: ints(htanh(transpose(ew(lambda x, y: x + y, a, b)), Q(P[0]), Q(P[1]))),
    "sshrink_lrelu": lambda a, b, P: ints(sshrink(lrelu(a, Q(P[0])), Q(P[1]))),
    "sum_ax_init":   lambda a, b, P: sum_axis_init(a, P[0], P[1]),
    "expd":          lambda a, b, P: expand_dims(a, P),
    "neg_expd":      lambda a, b, P: neg(expand_dims(a, P)),
    "expd_tr":       lambda a, b, P: expand_dims(transpose(a), P),
    "reshape_hi":    lambda a, b, P: reshape(a, P),
    "bto_hi":        lambda a, b, P: broadcast_to(a, tuple(P)),
    "tile_hi":       lambda a, b, P: tile(a, tuple(P)),
    # as_static_t<...> attribute views, rank >= 3 operands, non-default attributes
    "tr_ax":         lambda a, b, P: transpose_ax(a, P),
    "neg_tr_ax":     lambda a, b, P: neg(transpose_ax(a, P)),
    "sum_tr_ax":     lambda a, b, P: sum_axis(transpose_ax(a, P), 0),
    "repeat_p":      lambda a, b, P: repeat_ax(a, P[0], P[1]),
    "roll_p":        lambda a, b, P: roll_ax(a, P[0], P[1]),
    "cumsum_p":      lambda a, b, P: cumsum_ax(a, P[0]),
    "sum_keep":      lambda a, b, P: sum_keep(a, P[0], P[1]),
    "tile_p":        lambda a, b, P: tile(a, tuple(P)),
    "reshape_p":     lambda a, b, P: reshape(a, P),
    "bto_p":         lambda a, b, P: broadcast_to(a, tuple(P)),
}
RANK3 = {"tr_ax", "neg_tr_ax", "sum_tr_ax", "repeat_p", "roll_p", "cumsum_p", "sum_keep", "tile_p", "reshape_p", "bto_p"}
ACT = {"lrelu": 1, "hshrink": 1, "lrelu_add": 1, "add_lrelu": 1, "neg_tr_lrelu": 1,           # slope / lambda: any quarter
       "htanh": 2, "sum_htanh": 2, "htanh_tr_add": 2, "sshrink": 3, "sshrink_lrelu": 4}         # clamp pair / integral lambda


def case2(rng, comp, dt):
    """-> (a, b, params) for a part-2 composition"""
    def act_arr(sh): return (tuple(sh), rand_vals(rng, size(sh), "f64", comp))     # negatives, values inside and far outside every clamp range
    def shape(lo, hi, cap=36):
        while True:
            sh = tuple(rng.randint(2, 5) if rng.random() < 0.8 else 1 for _ in range(rng.randint(lo, hi)))
            if size(sh) <= cap: return sh
    slopes = [-6, -1, 1, 2, 10, 40]
    if comp in ACT:
        sh = shape(2 if comp == "sum_htanh" else 1, 4)
        a, b = act_arr(sh), act_arr(sh)
        k = ACT[comp]
        if k == 1: P = [rng.choice(slopes + [3, 30])]
        elif k == 2:
            lo = 4 * rng.choice([-12, -5, -2, 1]); P = [lo, lo + 4 * rng.choice([1, 3, 7, 15])]
        elif k == 3: P = [4 * rng.choice([1, 2, 4, 9])]
        else: P = [rng.choice(slopes), 4 * rng.choice([1, 2, 6])]
        return a, b, P
    if comp in RANK3:
        import itertools as it
        sh = tuple(rng.sample([2, 3, 4, 5], 3)) if rng.random() < 0.7 else tuple(rng.sample([1, 2, 3, 2], 4))
        while size(sh) > 40: sh = tuple(max(1, e - 1) for e in sh)
        a = rand_arr(rng, sh, dt, comp); d = len(sh)
        if comp in ("tr_ax", "neg_tr_ax", "sum_tr_ax"):      # a permutation that is neither the identity nor the full reversal
            perms = [p for p in it.permutations(range(d)) if list(p) != list(range(d)) and list(p) != list(range(d))[::-1]]
            P = list(rng.choice(perms))
        elif comp == "repeat_p": P = [rng.randint(2, 3), rng.randrange(d)]
        elif comp == "roll_p": P = [rng.choice([-3, -1, 1, 2, 4]), rng.randrange(d)]
        elif comp == "cumsum_p": P = [rng.randrange(d)]
        elif comp == "sum_keep": P = [rng.randrange(d), rng.choice([-7, 3, 100])]
        elif comp == "tile_p":
            P = [rng.choice([1, 2, 2, 3]) for _ in range(d)]
            while size(P) * size(sh) > 72: P[rng.randrange(d)] = 1
        elif comp == "reshape_p":
            f = []
            for e in sh:
                for q in (2, 3, 5):
                    while e % q == 0 and e > 1: f.append(q); e //= q
            rng.shuffle(f); f = f or [1]
            while len(f) > 3: x = f.pop(); f[rng.randrange(len(f))] *= x
            while len(f) < 3: f.insert(rng.randint(0, len(f)), 1)
            P = f
        else:   # bto_p
            src = tuple(e if rng.random() < 0.5 else 1 for e in sh); a = rand_arr(rng, src, dt, comp)
            P = list(sh) if rng.random() < 0.5 else [2] + list(sh)
            while size(P) > 64: P[0] = 1
        return a, a, P
    if comp == "sum_ax_init":
        sh = shape(2, 4); a = rand_arr(rng, sh, dt, comp)
        return a, a, [rng.randrange(len(sh)), rng.choice([-7, 0, 3, 100])]
    # rank-raising views: operand rank 1..4, output rank mostly 5..8 (the static_vector capacity of create_vector)
    if comp in ("expd", "neg_expd", "expd_tr"):
        sh = shape(1, 4); k = rng.randint(max(1, 5 - len(sh)), 8 - len(sh)) if rng.random() < 0.85 else 1
        return rand_arr(rng, sh, dt, comp), rand_arr(rng, sh, dt, comp), sorted(rng.sample(range(len(sh) + k), k))
    if comp == "reshape_hi":
        sh = rng.choice([(2, 3, 4), (6, 5), (24,), (2, 3, 5), (4, 3, 2, 2), (30,), (2, 2, 7)])
        f = []
        for e in sh:
            for q in (2, 3, 5, 7):
                while e % q == 0 and e > 1: f.append(q); e //= q
        rng.shuffle(f)
        while len(f) > 2 and rng.random() < 0.4: x = f.pop(); f[rng.randrange(len(f))] *= x
        n = rng.randint(max(5, len(f)), 8)
        while len(f) < n: f.insert(rng.randint(0, len(f)), 1)
        return rand_arr(rng, sh, dt, comp), rand_arr(rng, sh, dt, comp), f
    if comp == "bto_hi":
        sh = tuple(rng.choice([1, 1, 2, 3]) for _ in range(rng.randint(1, 4)))
        tgt = [e if e > 1 else rng.choice([1, 2, 3]) for e in sh]
        n = rng.randint(5, 8)
        while len(tgt) < n: tgt.insert(0, rng.choice([1, 2, 2, 3]))
        while size(tgt) > 64: tgt[rng.randrange(len(tgt))] = 1
        tgt[len(tgt) - len(sh):] = [t if s == 1 else s for s, t in zip(sh, tgt[len(tgt) - len(sh):])]
        return rand_arr(rng, sh, dt, comp), rand_arr(rng, sh, dt, comp), tgt
    if comp == "tile_hi":
        sh = tuple(rng.randint(1, 3) for _ in range(rng.randint(1, 4)))
        while size(sh) > 12: sh = sh[1:]
        reps = [rng.choice([1, 1, 2, 3]) for _ in range(rng.randint(5, 8))]
        while size(reps) * size(sh) > 72: reps[rng.randrange(len(reps))] = 1
        return rand_arr(rng, sh, dt, comp), rand_arr(rng, sh, dt, comp), reps
    raise KeyError(comp)


NONWF = {"mm_tr_r": "extraction-nonleaf-operand-at-position>=1"}


def A(a): return "A:%s:%s" % (",".join(map(str, a[0])), ",".join(map(str, a[1])))
def L(v): return "L:" + ",".join(str(x) for x in v)


import struct
def f2b(x): return struct.unpack("<q", struct.pack("<d", float(x)))[0]
def Aw(a, dt): return A((a[0], [f2b(x) for x in a[1]])) if dt == "f64" else A(a)

MUL = {"sum_mul", "mm_tr_l", "sum_tr_mul", "mm_tr_r"}
ADD = {"add", "neg_tr_add", "sub_tr_l"}
SUMS = {"cumsum_p", "sum_keep", "sum_ax_init", "sum_tr_ax"}
NEG = {"neg_expd", "neg_tr_ax"}
F64_POOL = [0.1, 0.2, 0.3, -0.7, 1.0 / 3.0, -2.0 / 3.0, 1.0 + 2.0 ** -40, -(1.0 + 2.0 ** -45), 16777217.0, -16777219.0, 33554433.0,
            1e-3, 123456789.123, 25000000001.0, 1e15 + 1.0, 2.0 ** 53 - 1.0, 5e-324 * 3, 1.7976931348623157e308 / 4]
def rand_vals(rng, n, dt, comp):
    """element values that are NOT exactly representable in binary32 and whose host result is still exact in the element type"""
    def pick(pool): return [rng.choice(pool) * rng.choice([1, -1]) for _ in range(n)]
    if dt == "f64":
        pool = F64_POOL[:12] if comp in MUL or comp in SUMS or comp in ADD else F64_POOL
        return [rng.choice(pool) if rng.random() < 0.6 else rng.choice([k for k in range(-50, 51) if k]) * 0.1 + rng.choice([0, 16777216.0]) for _ in range(n)]
    if dt == "i64":
        if comp in MUL: return [rng.choice([-1, 1]) * rng.randint(3000, 6000) | 1 for _ in range(n)]
        top = 2 ** 62 if not (comp in ADD or comp in SUMS) else (2 ** 61 if comp in ADD else 2 ** 56)
        return pick([2 ** 53 + 1, 2 ** 53 + 3, top - 1, top - 3, 2 ** 24 + 1, 2 ** 31 + 1, 9007199254740993, 2 ** 40 + 7, 123456789012345679])
    if dt == "i32":
        if comp in SUMS: return pick([2 ** 24 + 1, 2 ** 25 + 3, 16777219, 33554435, 2 ** 24 + 7])
        if comp in ADD: return pick([2 ** 30 - 1, 2 ** 24 + 1, 2 ** 29 + 3, 16777217])
        return pick([2 ** 31 - 1, 2 ** 31 - 3, 2 ** 24 + 1, 16777219, 2 ** 30 + 1]) if comp in NEG else \
               [rng.choice([2 ** 31 - 1, -2 ** 31, 2 ** 24 + 1, -16777219, 2 ** 30 + 1, -(2 ** 31 - 3)]) for _ in range(n)]
    if dt == "i16":
        # products and their sums stay int16 in nmtools (matmul / reduce keep the element type): keep them inside the range
        if comp in MUL: return [rng.choice([-1, 1]) * rng.randint(30, 50) for _ in range(n)]
        return [rng.choice([32767, -32768, 32765, -32767, 255, -129, 16385]) for _ in range(n)]
    raise KeyError(dt)
def rand_arr(rng, sh, dt="i64", comp=""):
    if dt == "i64" and comp == "": return (tuple(sh), [rng.randint(-5, 20) for _ in range(size(sh))])
    return (tuple(sh), rand_vals(rng, size(sh), dt, comp))


def shapes_for(rng, comp):
    """operand shapes valid for the composition (b unused for unary ones)"""
    if comp in ("mm_tr_l",):
        k, m, n = rng.randint(1, 4), rng.randint(1, 4), rng.randint(1, 4); return (k, m), (k, n)
    if comp == "mm_tr_r":
        m = rng.randint(1, 3); k = rng.randint(m, 4); return (m, k), (m, k)
    if comp == "sub_tr_l":
        m, n = rng.randint(1, 4), rng.randint(1, 4); return (m, n), (n, m)
    lo = 2 if comp in ("sum_mul", "sum_tr_mul") else 1
    d = rng.randint(lo, 4)
    while True:
        sh = tuple(rng.randint(1, 4) for _ in range(d))
        if size(sh) <= 48: return sh, sh


def schedule(rng, n, kind):
    """-> (bsz, [(tid, bid)...]) for an output of n cells"""
    bsz = rng.randint(1, 33)
    gmin = -(-n // bsz)
    grid = rng.randint(gmin, max(gmin, -(-2 * n // bsz)))
    th = [(t, b) for b in range(grid) for t in range(bsz)]
    if kind == "ascending": pass
    elif kind == "descending": th.reverse()
    elif kind == "interleaved":
        s = rng.choice([2, 3, 5]); th = [x for o in range(s) for x in th[o::s]]
    elif kind == "permuted": rng.shuffle(th)
    elif kind == "duplicates":
        rng.shuffle(th); th = th + [rng.choice(th) for _ in range(rng.randint(1, max(1, len(th) // 2)))]; rng.shuffle(th)
    elif kind == "incomplete":
        rng.shuffle(th)
        live = [x for x in th if x[1] * bsz + x[0] < n]
        drop = set(rng.sample(live, rng.randint(1, max(1, len(live) // 2))))
        th = [x for x in th if x not in drop]
    elif kind == "beyond":   # only threads at and beyond the end, and far beyond
        th = [(t, b) for b in range(gmin, gmin + 2) for t in range(bsz)] + [(n - (n // bsz) * bsz, n // bsz)]
        th = [x for x in th if x[1] * bsz + x[0] >= n][:40]
    return bsz, th


KINDS = ["ascending", "descending", "interleaved", "permuted", "duplicates", "incomplete", "beyond"]


def _gen_cases_all(rng, tier):
    out = []
    def add(stream, line, key="c13"): out.append((stream, line, key))
    per = 8 if tier == "quick" else 60
    for comp in COMPS:
        reps = per if comp not in NONWF else max(2, per // 4)
        for kind in KINDS:
            for _ in range(reps):
                sa, sb = shapes_for(rng, comp)
                style = rng.choice(["cuda", "cuda", "ocl", "cudaN", "hip", "hip"])      # hip = the hip/sycl route (part 3)
                dt = "f64" if style == "hip" else rng.choice(["i64", "i64", "i16"])       # element type: see drivers()
                a, b = rand_arr(rng, sa, dt, comp), rand_arr(rng, sb, dt, comp)
                r = COMPS[comp](a, b)
                n = size(r[0])
                bsz, th = schedule(rng, n, kind)
                if not th: continue
                if style == "cudaN" and (len(r[0]) > 2 or dt == "i16"): style = "cuda"
                add("schedules-" + kind if comp not in NONWF else "inherited-findings",
                    "kern S:%s S:%s %s %s %s I:%d %s %s L: S:%s" % (comp, style, Aw(a, dt), Aw(b, dt), Aw(r, dt), bsz,
                                                                 L([t for t, _ in th]), L([b_ for _, b_ in th]), dt),
                    "c13b" if style == "hip" else "c13")
    # part 2: run-time attributes and high-rank outputs, same schedule sweeps
    per2 = 2 if tier == "quick" else 12
    for comp in COMPS2:
        for kind in KINDS:
            for _ in range(per2):
                style = rng.choice(["cuda", "ocl", "hip"])
                dt = "f64" if (style == "hip" or comp in ACT) else "i32"
                a, b, P = case2(rng, comp, dt)
                r = COMPS2[comp](a, b, P)
                n = size(r[0])
                bsz, th = schedule(rng, n, kind)
                if not th: continue
                stream = ("attributes-" if comp in ACT or comp == "sum_ax_init" or comp in RANK3 else "rank-%d-" % len(r[0]) if len(r[0]) >= 5 else "rank-low-") + kind
                add(stream + ("-hip" if style == "hip" else ""),
                    "kern S:%s S:%s %s %s %s I:%d %s %s %s S:%s" % (comp, style, Aw(a, dt), Aw(b, dt), Aw(r, dt), bsz,
                                                                  L([t for t, _ in th]), L([b_ for _, b_ in th]), L(P), dt), "c13b")
    # boundary: size exactly a multiple of the block, block larger than the output, block size 1
    for comp in ("add", "tr", "neg_tr_add"):
        for n, bsz in ((4, 4), (4, 2), (6, 33), (6, 1), (9, 3), (1, 1), (1, 7)):
            sh = {1: (1,), 4: (2, 2), 6: (2, 3), 9: (3, 3)}[n]
            a, b = rand_arr(rng, sh, "i64", comp), rand_arr(rng, sh, "i64", comp); r = COMPS[comp](a, b)
            grid = -(-n // bsz)
            for g in (grid, grid + 1):
                th = [(t, b_) for b_ in range(g) for t in range(bsz)]
                for order in (th, th[::-1]):
                    add("boundary", "kern S:%s S:cuda %s %s %s I:%d %s %s L: S:i64" % (comp, A(a), A(b), A(r), bsz, L([t for t, _ in order]), L([b_ for _, b_ in order])))
    maxe = 3 if tier == "quick" else 4
    for d in range(1, 5):
        for sh in itertools.product(range(1, maxe + 1), repeat=d):
            add("rebuild", "rebuild %s" % A(rand_arr(rng, sh)))
    for tid in range(0, 5):
        for bid in range(0, 4):
            for bsz in (1, 2, 3, 7, 32, 33):
                add("offset", "offset I:%d I:%d I:%d" % (tid, bid, bsz))
    return out


def _kern(line):
    p = line.split(" ")
    return p[1][2:] if p[0] == "kern" else None


def nontrivial(line):
    if not line.startswith("kern"): return False
    m = re.findall(r"A:([0-9,]*):", line)
    return size([int(x) for x in m[2].split(",") if x]) >= 4


def distribution(streams):
    comps = Counter(); styles = Counter(); bsz = Counter(); outdims = Counter()
    for _, line, _ in streams:
        p = line.split(" ")
        if p[0] != "kern": comps[p[0]] += 1; continue
        comps[p[1][2:]] += 1; styles[p[2][2:]] += 1
        bsz["1" if p[6] == "I:1" else ("2-8" if int(p[6][2:]) <= 8 else "9-33")] += 1
        outdims[str(len(p[5].split(":")[1].split(",")))] += 1
    return {"compositions": dict(comps), "operand_styles": dict(styles), "block_sizes": dict(bsz), "output_dims": dict(outdims)}


def classify(line, impl, spec, model):
    comp = _kern(line)
    if comp in NONWF:
        # the host view itself is right; what the kernel's extraction + apply produced is not
        hs = spec.split(" | ")[0]
        if impl.split(" | ")[0] == hs: return NONWF[comp]
    return None


_SENT_TOKENS = {str(SENT), str(struct.unpack("<q", struct.pack("<d", float(SENT)))[0])}


def gen_cases(rng, tier):
    """the generated cases, minus the (rare) ones whose EXPECTED result contains the sentinel value the output buffer is pre-filled
    with: a thread writing exactly that value cannot be told from a thread that did not write"""
    out = []
    for stream, line, key in _gen_cases_all(rng, tier):
        arrays = re.findall(r"A:[0-9,]*:([-0-9,]*)", line)
        if arrays and any(v in _SENT_TOKENS for v in arrays[-1].split(",")): continue
        out.append((stream, line, key))
    return out
