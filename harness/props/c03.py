"""C03 — rearranging views (reshape, flatten, transpose, moveaxis, swapaxes, expand_dims, squeeze,
atleast_nd, flip) equal NumPy's result."""
import itertools, re
from collections import Counter

ID = "C03"
MODEL_MODULES = ["Base", "Index", "Views"]
HANDLERS = ["h_c03.ml"]
CLAIM = dict(
    text=("Kernel-checked for every dimension and all positive extents (element counts below 2^64 where the C++ multiplies in "
          "size_t): shape_reshape accepts exactly the targets NumPy accepts (one inferred -1 included; rejection included) and "
          "yields NumPy's shape; reshape/flatten and the reshape-based expand_dims (axis or axis list, negative allowed), squeeze, "
          "atleast_nd produce NumPy's shape, keep the row-major order of the elements and enumerate the source in C order; "
          "transpose (default, explicit, negative axes) produces NumPy's shape and reads at every index the element NumPy reads, "
          "is a bijection of the index sets (Permutation of the index enumerations), transposing by p and then by the inverse of "
          "p and default-transposing twice restore shape and every index; swapaxes is NumPy's swap and a transpose by a "
          "permutation; flip (None, one axis, an axis list; negative axes normalised as in NumPy) reads NumPy's element and flipping twice is the identity; squeeze after "
          "expand_dims restores a unit-free shape and every index; every index map stays inside the source. "
          "moveaxis with one source and one destination axis (moveaxis(a, s, d) or one-element lists, negative spellings included) is proved for "
          "EVERY dimension: the library's order is NumPy's, a permutation, shape / element / in-bounds follow. "
          "index::argsort (the insertion sort moveaxis orders the destinations with) returns, for EVERY key list, a permutation of the "
          "positions along which the keys ascend (the order of equal keys is not part of C03: moveaxis sorts distinct destinations; only distinct key lists are judged). "
          "PARTIAL: moveaxis with axis LISTS is proved for sources of dimension <= 5 (any extents) by a kernel "
          "sweep of the finite argument space; above that lists are corresponded only. "
          "REFUTED (listed finding): a 0-d result (squeeze of an all-ones shape, reshape to ()) comes back as Nothing. "
          "(flip with a negative axis used to be a no-op; repaired by the fix: commit 'flip normalises a negative axis', "
          "model and theorem follow the repaired code.) "
          "Tied to the C++ by running the index functions on 6 container kinds, the views on run-time shaped arrays with run-time "
          "and compile-time-constant arguments and the eager array:: versions, comparing shape and every element; axis-list "
          "arguments (flip, transpose, moveaxis, expand_dims) are exercised in every order and sign spelling in 8 container kinds "
          "on operands with all-distinct extents (the Spec, like NumPy, does not depend on the order of a flip / expand_dims list)."),
    ref="5.3", technique="Coq proof (list induction, nth-extensionality, C01 round trips, one finite vm_compute sweep for moveaxis) + differential correspondence with the extracted model",
    extra="")
RULE = ("all source shapes dim 1..4 extents 1..3 (quick; thorough: extents 1..4): every equal-count target of dim 1..3 (dim 4 sampled) "
        "with every single -1 position, every permutation (plus negative-axis spellings), every signed axis / axis pair for "
        "moveaxis, swapaxes, expand_dims, flip, nd 0..5 for atleast_nd, squeeze of every shape; index-level functions on rotating "
        "container kinds; compile-time-constant argument variants; compositions (transpose∘transpose, flip∘flip, squeeze∘expand_dims); "
        "axis LISTS (flip, transpose, moveaxis source x destination, expand_dims) on operands with all-distinct extents >= 2 "
        "((2,3),(2,3,4),(2,3,4,5) in every arrangement): every ordered sub-list (ascending, descending, shuffled), written "
        "non-negatively / all-negatively / with mixed signs, lengths 1..dim, held in std::vector<int|size_t>, static_vector, "
        "std::array<int|size_t>, int[N], run-time tuple and tuple of constants (drivers/c03_lists.cpp); "
        "sampled larger shapes (dim <= 5, extents <= 7); argsort: key lists of length 1..9 (80% distinct = judged; ties are run but not judged), negative keys, 3 container kinds; high_dim: sources of dimension 6..8 (extents 1..3) under moveaxis (single axes and lists, view and index level), swapaxes, transpose, flip; a malformed stream (spec 'unspecified', only crashes are looked at by C15). "
        "non-trivial = source of dim >= 2 with some extent > 1; distinct = distinct case lines")
THEOREM_STATUS = {
    "proved": ["C03_reshape_shape", "C03_reshape_C_order", "C03_flatten", "C03_transpose_shape", "C03_transpose_element",
               "C03_transpose_bijection", "C03_transpose_inverse", "C03_transpose_default_involutive", "C03_swapaxes",
               "C03_expand_dims", "C03_squeeze", "C03_atleast_nd", "C03_flip", "C03_flip_flip",
               "C03_squeeze_expand_dims", "C03_index_maps_in_bounds", "C03_moveaxis_single_axis", "C03_argsort"],
    "partial": ["C03_moveaxis_upto_dim5_partial"],
    "refuted": ["C03_zero_dim_result_refuted"]}
ASSUMPTIONS = ["extents are positive and element counts stay below 2^64 (size_t products in shape_reshape)",
               "0-d sources cannot be built as run-time shaped ndarray_t and are not explored",
               "atleast_nd is compared with numpy.array(a, ndmin=nd) (= atleast_1d / atleast_2d for nd <= 2); NumPy has no atleast_nd",
               "flip's slice arithmetic is modelled only for the (None,None,+-1) slices flip builds (general slices: C05)"]


def drivers(tier):
    return {"c03": [("c03.cpp", "ndebug", ()), ("c03.cpp", "asan", ("-DVD_LIGHT",))],
            # axis-list arguments in every container kind (vector / static_vector / std::array / int[N] / run-time tuple /
            # tuple of constants); the sanitizer build keeps the run-time sized kinds
            "c03l": [("c03_lists.cpp", "ndebug", ()), ("c03_lists.cpp", "asan", ("-DVD_LIGHT",))]}


def L(v): return "L:" + ",".join(str(x) for x in v)
def count(shape):
    n = 1
    for x in shape: n *= x
    return n
def A(shape): return "A:%s:%s" % (",".join(map(str, shape)), ",".join(map(str, range(count(shape)))))

SKINDS = ["vec", "veci", "sv", "arr", "arri"]          # shape kinds
AKINDS = ["veci", "sv", "arri"]                        # signed kinds (axes, targets)
CT_RESHAPE = {6: ["6", "2x3", "3x2", "-1x2", "3x-1"], 12: ["12", "3x4", "2x3x2", "2x2x3x1", "-1x2", "3x-1", "2x-1x2"], 4: ["-1x2", "2x-1x2"],
              2: ["-1x2"], 3: ["3x-1"], 9: ["3x-1"], 8: ["-1x2", "2x-1x2"], 18: ["-1x2", "3x-1"], 24: ["-1x2", "3x-1", "2x-1x2"]}
CT_TRANSPOSE = {2: ["10", "01"], 3: ["021", "120", "201", "210"], 4: ["2031", "3102", "1230"]}


CT_LISTS = ["1", "-1", "1x0", "0x1", "-1x0", "0x-1", "-1x-2", "2x0", "0x2", "2x1", "-1x-3", "2x-3", "-3x2",
            "2x1x0", "0x2x1", "1x2x0", "-1x0x1", "-1x-2x-3", "2x-2x0", "3x1", "-1x1", "2x0x3", "3x2x1x0", "1x3x0x2", "-1x-3x0x2"]
CT_PAIRS = ["1x0_0x1", "0x1_1x0", "2x0_0x1", "-1x0_0x2", "2x1_-3x-1", "2x1x0_0x1x2", "1x2x0_2x0x1", "3x1_0x2", "-1x-3x0_2x0x1"]


def ct_ints(name): return [int(t) for t in name.split("x")]


def valid_axes(ax, n):
    """the list as NumPy normalises it, or None when NumPy rejects it (out of range / repeated)"""
    if any(a < -n or a >= n for a in ax): return None
    q = [a + n if a < 0 else a for a in ax]
    return q if len(set(q)) == len(q) else None


def spellings(ax, n, rng):
    """the same ordered axis list written non-negatively, all-negatively and with mixed signs"""
    ax = tuple(ax); neg = tuple(a - n for a in ax)
    out = [ax, neg]
    if len(ax) >= 2:
        while True:
            m = tuple(a - n if rng.random() < 0.5 else a for a in ax)
            if min(m) < 0 <= max(m): break
        out.append(m)
    return out


def factorizations(n, k):
    """ordered k-tuples of positive integers with product n"""
    if k == 1: return [(n,)]
    out = []
    for d in range(1, n + 1):
        if n % d == 0:
            out += [(d,) + r for r in factorizations(n // d, k - 1)]
    return out


def signed(axes, n, rng):
    """a spelling of the same axes with some of them written negatively"""
    return tuple(a - n if rng.random() < 0.5 else a for a in axes)


def gen_cases(rng, tier):
    out = []
    def add(stream, line): out.append((stream, line, "c03"))
    quick = tier == "quick"
    maxe = 3 if quick else 4
    shapes = []
    for d in range(1, 5): shapes += list(itertools.product(range(1, maxe + 1), repeat=d))
    cap = (lambda l, n: l if len(l) <= n else rng.sample(l, n))
    kctr = itertools.count()
    def sk(): return SKINDS[next(kctr) % len(SKINDS)]
    def ak(): return AKINDS[next(kctr) % len(AKINDS)]

    # ---------------- reshape / flatten
    rs = []
    for s in shapes:
        c = count(s)
        for k in (1, 2, 3, 4):
            for t in factorizations(c, k):
                rs.append((s, t))
                for pos in range(k):
                    rs.append((s, t[:pos] + (-1,) + t[pos + 1:]))
    for s, t in cap(rs, 4000 if quick else 40000):
        add("reshape", "reshape_shape S:%s S:%s %s %s" % (sk(), ak(), L(s), L(t)))
    for s, t in cap([x for x in rs if len(x[1]) <= 3], 2500 if quick else 25000) + cap([x for x in rs if len(x[1]) == 4], 500 if quick else 5000):
        k = ak() if -1 in t or rng.random() < 0.7 else "vec"
        add("reshape", "reshape S:%s %s %s" % (k, A(s), L(t)))
        if rng.random() < 0.1: add("reshape", "reshape_eval %s %s" % (A(s), L(t)))
    for s in shapes:
        add("reshape", "flatten %s" % A(s))
        if rng.random() < 0.2: add("reshape", "flatten_eval %s" % A(s))
        for name in CT_RESHAPE.get(count(s), []):
            add("ct", "reshape_ct S:%s %s" % (name, A(s)))
        if count(s) == 1: add("zero_dim", "reshape S:veci %s L:" % A(s))
    # ---------------- transpose
    for s in shapes:
        n = len(s)
        add("transpose", "transpose S:veci %s N" % A(s))
        add("transpose", "transpose_shape S:%s S:veci %s N" % (sk(), L(s)))
        if rng.random() < 0.3: add("laws", "transpose2d %s" % A(s))
        perms = list(itertools.permutations(range(n)))
        for p in perms:
            add("transpose", "transpose S:%s %s %s" % (ak(), A(s), L(p)))
            if n > 1: add("transpose", "transpose S:%s %s %s" % (ak(), A(s), L(signed(p, n, rng))))
            if rng.random() < 0.25:
                k = rng.choice(["vec", "veci", "sv", "arr", "arri", "tup"])
                add("transpose", "transpose_shape S:%s S:%s %s %s" % (k, "tup" if k == "tup" else ak(), L(s), L(signed(p, n, rng))))
                add("transpose", "scatter S:%s %s %s" % (rng.choice(["vec", "veci", "sv", "arr", "tup"]), L([rng.randint(0, 9) for _ in s]), L(p)))
            if rng.random() < 0.05: add("transpose", "transpose_eval %s %s" % (A(s), L(p)))
            if rng.random() < 0.15:
                inv = [p.index(i) for i in range(n)]
                add("laws", "transpose2 %s %s %s" % (A(s), L(p), L(inv)))
                add("laws", "transpose2 %s %s %s" % (A(s), L(signed(p, n, rng)), L(rng.choice(perms))))
        for name in CT_TRANSPOSE.get(n, []):
            if rng.random() < 0.5: add("ct", "transpose_ct S:%s %s" % (name, A(s)))
        for k in ("vec", "sv", "arr", "tup"):       # run-time loop arm and the unrolled fixed-size arm, every shape
            add("transpose", "reverse S:%s %s" % (k, L([e + j for j, e in enumerate(s)])))
    # ---------------- moveaxis / swapaxes
    mv = []; sw = []
    for s in shapes:
        n = len(s)
        for a in range(-n, n):
            for b in range(-n, n):
                mv.append((s, a, b)); sw.append((s, a, b))
    for s, a, b in cap(mv, 2500 if quick else 20000):
        add("moveaxis", "moveaxis %s I:%d I:%d" % (A(s), a, b))
        r = rng.random()
        if r < 0.1: add("moveaxis", "moveaxis_order S:%s %s I:%d I:%d" % (sk(), L(s), a, b))
        elif r < 0.13: add("moveaxis", "moveaxis_eval %s I:%d I:%d" % (A(s), a, b))
        elif r < 0.2 and -5 <= a <= 4 and -5 <= b <= 4: add("ct", "moveaxis_ct %s I:%d I:%d" % (A(s), a, b))
    for _ in range(1200 if quick else 10000):
        s = rng.choice(shapes); n = len(s)
        k = rng.randint(1, n)
        src = signed(rng.sample(range(n), k), n, rng); dst = signed(rng.sample(range(n), k), n, rng)
        add("moveaxis_lists", "moveaxis %s %s %s" % (A(s), L(src), L(dst)))
        if rng.random() < 0.3: add("moveaxis_lists", "moveaxis_order S:%s %s %s %s" % (sk(), L(s), L(src), L(dst)))
    for s, a, b in cap(sw, 2000 if quick else 15000):
        add("swapaxes", "swapaxes %s I:%d I:%d" % (A(s), a, b))
        r = rng.random()
        if r < 0.1: add("swapaxes", "swapaxes_order I:%d I:%d I:%d" % (len(s), a, b))
        elif r < 0.13: add("swapaxes", "swapaxes_eval %s I:%d I:%d" % (A(s), a, b))
    # ---------------- expand_dims / squeeze / atleast_nd
    for s in shapes:
        n = len(s)
        for a in range(-(n + 1), n + 1):
            add("expand_dims", "expand_dims %s I:%d" % (A(s), a))
            r = rng.random()
            if r < 0.15: add("expand_dims", "expand_dims_shape S:%s %s I:%d" % (sk(), L(s), a))
            elif r < 0.2: add("expand_dims", "expand_dims_eval %s I:%d" % (A(s), a))
            elif r < 0.3: add("ct", "expand_dims_ct %s I:%d" % (A(s), a))
            if rng.random() < 0.3: add("laws", "squeeze_expand %s I:%d" % (A(s), a))
        for k in (2, 3):
            if rng.random() < 0.5:
                ax = signed(rng.sample(range(n + k), k), n + k, rng)
                add("expand_dims", "expand_dims %s %s" % (A(s), L(ax)))
                add("expand_dims", "expand_dims_shape S:%s %s %s" % (sk(), L(s), L(ax)))
        stream = "zero_dim" if all(e == 1 for e in s) else "squeeze"
        add(stream, "squeeze %s" % A(s))
        add("squeeze", "squeeze_shape S:%s %s" % (sk(), L(s)))
        add("squeeze", "remove_single_dims S:%s %s" % (sk(), L(s)))
        if rng.random() < 0.2: add(stream, "squeeze_eval %s" % A(s))
        for nd in range(0, 6):
            if rng.random() < 0.5: add("atleast", "atleast %s I:%d" % (A(s), nd))
            if nd >= 1 and rng.random() < 0.3: add("ct", "atleast_ct %s I:%d" % (A(s), nd))
            if rng.random() < 0.2: add("atleast", "atleast_shape S:%s %s I:%d" % (sk(), L(s), nd))
    # ---------------- flip
    for s in shapes:
        n = len(s)
        add("flip", "flip %s N" % A(s))
        if rng.random() < 0.3: add("laws", "flip2 %s N" % A(s))
        for a in range(-n, n):
            st = "flip" if a >= 0 else "flip_negative_axis"
            add(st, "flip %s I:%d" % (A(s), a))
            r = rng.random()
            if r < 0.15: add(st, "flip_eval %s I:%d" % (A(s), a))
            elif r < 0.35: add("ct" if a >= 0 else st, "flip_ct %s I:%d" % (A(s), a))
            elif r < 0.5: add(st, "flip_slices I:%d I:%d" % (n, a))
            if rng.random() < 0.2: add("laws", "flip2 %s I:%d" % (A(s), a))
        for k in range(1, n + 1):
            for ax in itertools.permutations(range(n), k):      # every order: NumPy accepts the axes in any order
                if rng.random() < (0.5 if k == 1 or n < 4 else 0.2):
                    add("flip", "flip %s %s" % (A(s), L(ax)))
                    if rng.random() < 0.2: add("flip", "flip_slices I:%d %s" % (n, L(ax)))
                    if rng.random() < 0.15: add("laws", "flip2 %s %s" % (A(s), L(ax)))
                if rng.random() < 0.3:
                    sg = signed(ax, n, rng)
                    st = "flip" if min(sg) >= 0 else "flip_negative_axis"
                    add(st, "flip %s %s" % (A(s), L(sg)))
                    if rng.random() < 0.3: add(st, "flip_slices I:%d %s" % (n, L(sg)))
                    if rng.random() < 0.2: add("laws", "flip2 %s %s" % (A(s), L(sg)))
    # ---------------- axis LISTS in every order / sign spelling / container kind, on operands whose extents are all
    # distinct and >= 2 (so a missing reversal / a misplaced axis changes both shape and elements)
    dshapes = list(itertools.permutations((2, 3))) + list(itertools.permutations((2, 3, 4)))
    d4 = list(itertools.permutations((2, 3, 4, 5)))
    dshapes += (rng.sample(d4, 6) if quick else d4)
    SIGNED_K = ["veci", "sv", "arri", "carr", "tup"]; UNSIGNED_K = ["vecu", "arru"]
    def addl(stream, line): out.append((stream, line, "c03l"))
    rot = itertools.count()
    def kinds_for(ax, allk, pool):
        ks = list(pool) + (UNSIGNED_K if min(ax) >= 0 else [])
        ks = [k for k in ks if k in allk]
        if len(ks) <= 2: return ks
        i = next(rot)
        return [ks[i % len(ks)], ks[(i + 1) % len(ks)]]
    for s in dshapes:
        n = len(s)
        # --- flip: every ordered sub-list of the axes
        for k in range(1, n + 1):
            for ax0 in itertools.permutations(range(n), k):
                for ax in spellings(ax0, n, rng):
                    allk = SIGNED_K + UNSIGNED_K
                    ks = (allk if min(ax) >= 0 else SIGNED_K) if n <= 3 else kinds_for(ax, allk, SIGNED_K)
                    for kd in ks: addl("flip_lists", "flipk S:%s %s %s" % (kd, A(s), L(ax)))
                    r = rng.random()
                    if r < 0.3: addl("flip_lists", "flip_slicesk S:%s I:%d %s" % (rng.choice(["veci", "sv", "arri"]), n, L(ax)))
                    elif r < 0.4: addl("flip_lists", "flipk_eval S:%s %s %s" % (rng.choice(["veci", "arri"]), A(s), L(ax)))
                    if k >= 2 and rng.random() < 0.3:
                        again = list(ax0); rng.shuffle(again)
                        addl("laws", "flip2p %s %s %s" % (A(s), L(ax), L(rng.choice(spellings(again, n, rng)))))
        for name in CT_LISTS:
            if valid_axes(ct_ints(name), n) is not None: addl("ct_lists", "flipct S:%s %s" % (name, A(s)))
        # --- transpose: every permutation, every spelling
        for p in itertools.permutations(range(n)):
            for ax in spellings(p, n, rng):
                for kd in kinds_for(ax, SIGNED_K + UNSIGNED_K, ["veci", "sv", "arri", "tup"]):
                    addl("transpose_lists", "transposek S:%s %s %s" % (kd, A(s), L(ax)))
        for name in CT_LISTS:
            q = valid_axes(ct_ints(name), n)
            if q is not None and len(q) == n: addl("ct_lists", "transposect S:%s %s" % (name, A(s)))
        # --- moveaxis: ordered source list x ordered destination list
        pairs = []
        for k in range(1, n + 1):
            pairs += list(itertools.product(itertools.permutations(range(n), k), repeat=2))
        for src0, dst0 in cap(pairs, 120 if quick else 600):
            for src, dst in ((src0, dst0), (rng.choice(spellings(src0, n, rng)), rng.choice(spellings(dst0, n, rng)))):
                kd = kinds_for(tuple(src) + tuple(dst), ["veci", "sv", "arri", "vecu", "arru"], ["veci", "sv", "arri"])[0]
                addl("moveaxis_lists", "moveaxisk S:%s %s %s %s" % (kd, A(s), L(src), L(dst)))
                r = rng.random()
                if r < 0.15: addl("moveaxis_lists", "moveaxis_orderk S:%s %s %s %s" % (kd, L(s), L(src), L(dst)))
                elif r < 0.2: addl("moveaxis_lists", "moveaxisk_eval S:%s %s %s %s" % (rng.choice(["veci", "arri"]), A(s), L(src), L(dst)))
        for name in CT_PAIRS:
            a, b = name.split("_")
            if valid_axes(ct_ints(a), n) is not None and valid_axes(ct_ints(b), n) is not None:
                addl("ct_lists", "moveaxisct S:%s %s" % (name, A(s)))
        # --- expand_dims: ordered lists of new positions
        for k in (1, 2, 3):
            lists = list(itertools.permutations(range(n + k), k))
            for ax0 in cap(lists, 30 if quick else 120):
                for ax in spellings(ax0, n + k, rng):
                    kd = kinds_for(ax, ["veci", "sv", "arri", "vecu", "arru"], ["veci", "sv", "arri"])[0]
                    addl("expand_dims_lists", "expandk S:%s %s %s" % (kd, A(s), L(ax)))
                    r = rng.random()
                    if r < 0.15: addl("expand_dims_lists", "expand_shapek S:%s %s %s" % (kd, L(s), L(ax)))
                    elif r < 0.2: addl("expand_dims_lists", "expandk_eval S:%s %s %s" % (rng.choice(["veci", "arri"]), A(s), L(ax)))
        for name in CT_LISTS:
            ax = ct_ints(name)
            if valid_axes(ax, n + len(ax)) is not None: addl("ct_lists", "expandct S:%s %s" % (name, A(s)))
    # ---------------- normalize_axis
    for n in range(1, 6):
        for a in range(-n - 2, n + 2):
            add("normalize_axis" if -n <= a < n else "malformed", "normalize_axis I:%d I:%d" % (a, n))
        for _ in range(6):
            ax = [rng.randint(-n, n - 1) for _ in range(rng.randint(1, 4))]
            add("normalize_axis", "normalize_axis S:%s %s I:%d" % (ak(), L(ax), n))
    # ---------------- index::argsort (moveaxis orders the destinations with it): keys with ties, negative keys, lengths 0..9
    for _ in range(400 if quick else 4000):
        n = rng.randint(1, 9)
        lo = rng.choice([0, 0, -3]); hi = rng.choice([2, 4, 9])
        keys = [rng.randint(lo, hi) for _ in range(n)]        # with ties: outside the judged domain (stability is not C03's)
        if rng.random() < 0.8: keys = rng.sample(range(lo, lo + 12), n)   # distinct keys: the sorting permutation is unique
        add("argsort", "argsort S:%s %s" % (rng.choice(["veci", "sv"] if lo < 0 else ["vec", "veci", "sv"]), L(keys)))
    # ---------------- larger shapes (boundary of the small scope)
    for _ in range(250 if quick else 2500):
        d = rng.randint(1, 5)
        s = tuple(rng.choice([1, 2, 3, 4, 5, 7]) for _ in range(d))
        if count(s) > 3000: continue
        c = count(s); k = rng.randint(1, 4)
        t = rng.choice(factorizations(c, k))
        if rng.random() < 0.5: pos = rng.randrange(k); t = t[:pos] + (-1,) + t[pos + 1:]
        add("large", "reshape S:veci %s %s" % (A(s), L(t)))
        p = list(range(d)); rng.shuffle(p)
        add("large", "transpose S:veci %s %s" % (A(s), L(signed(p, d, rng))))
        add("large", "transpose S:veci %s N" % A(s))
        a, b = rng.randint(-d, d - 1), rng.randint(-d, d - 1)
        add("large", "moveaxis %s I:%d I:%d" % (A(s), a, b))
        add("large", "swapaxes %s I:%d I:%d" % (A(s), a, b))
        add("large", "expand_dims %s I:%d" % (A(s), rng.randint(-d - 1, d)))
        add("large", "flip %s I:%d" % (A(s), rng.randint(-d, d - 1)))
        add("large", "flip %s N" % A(s))
        if any(e > 1 for e in s): add("large", "squeeze %s" % A(s))
        add("large", "atleast %s I:%d" % (A(s), rng.randint(0, 6)))
    # ---------------- high dimensions (6..8): beyond the dimension the moveaxis sweep covers, so that the model the
    # all-dimension theorems speak about is tied to the code there too (extents 1..2 keep the element count small)
    for _ in range(150 if quick else 1500):
        d = rng.randint(6, 8)
        s = tuple(rng.choice([1, 2, 2, 3]) for _ in range(d))
        if count(s) > 1500: continue
        a, b = rng.randint(-d, d - 1), rng.randint(-d, d - 1)
        add("high_dim", "moveaxis %s I:%d I:%d" % (A(s), a, b))
        add("high_dim", "moveaxis_order S:%s %s I:%d I:%d" % (rng.choice(["vec", "veci"]), L(s), a, b))
        add("high_dim", "swapaxes %s I:%d I:%d" % (A(s), a, b))
        k = rng.randint(1, d)
        src = signed(rng.sample(range(d), k), d, rng); dst = signed(rng.sample(range(d), k), d, rng)
        add("high_dim", "moveaxis %s %s %s" % (A(s), L(src), L(dst)))
        add("high_dim", "moveaxis_order S:%s %s %s %s" % (rng.choice(["vec", "veci"]), L(s), L(src), L(dst)))
        p = list(range(d)); rng.shuffle(p)
        add("high_dim", "transpose S:veci %s %s" % (A(s), L(signed(p, d, rng))))
        add("high_dim", "flip %s I:%d" % (A(s), rng.randint(-d, d - 1)))
    # ---------------- malformed (outside the quantifier: spec 'unspecified'; kept so that the model's accept is exercised)
    for _ in range(120 if quick else 600):
        s = rng.choice(shapes); n = len(s); c = count(s)
        add("malformed", "reshape S:veci %s %s" % (A(s), L([c + 1])))
        add("malformed", "reshape_shape S:vec S:veci %s %s" % (L(s), L([-1, -1])))
        add("malformed", "reshape_shape S:vec S:veci %s %s" % (L(s), L([0, -1])))
        add("malformed", "reshape_shape S:vec S:veci %s %s" % (L(s), L([-2, c])))
        add("malformed", "moveaxis %s I:%d I:%d" % (A(s), n, 0))
        add("malformed", "moveaxis %s %s %s" % (A(s), L([0]), L([0, 0])))
        add("malformed", "flip %s I:%d" % (A(s), n + 1))
    return out


def _src_shape(line):
    m = re.search(r"A:([0-9,]*):", line)
    if m: return [int(x) for x in m.group(1).split(",") if x]
    m = re.findall(r"L:(-?[0-9,\-]*)", line)
    if m: return [int(x) for x in m[0].split(",") if x]
    return []


def nontrivial(line):
    sh = _src_shape(line)
    return len(sh) >= 2 and any(x > 1 for x in sh)


def distribution(streams):
    ops = Counter(); dims = Counter()
    for _, line, _ in streams:
        ops[line.split(" ")[0]] += 1
        dims[str(len(_src_shape(line)))] += 1
    return {"ops": dict(ops), "source_dims": dict(dims)}


def classify(line, impl, spec, model):
    op = line.split(" ")[0]
    same_as_model = " ".join(impl.split()) == " ".join(model.split())
    if op in ("squeeze", "squeeze_eval", "squeeze_expand", "reshape", "reshape_eval") and impl == "nothing" and same_as_model:
        m = re.match(r"ok\s*;", spec)     # expected result has the empty shape
        if m: return "zero_dim_result_is_nothing"
    return None
