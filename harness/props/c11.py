"""C11 — statically inferred shape, size and bounds agree with every run-time instance."""
import re
from collections import Counter

ID = "C11"
MODEL_MODULES = ["Base", "Kinds"]
HANDLERS = ["h_c11.ml"]
TWO_STAGE = True
NKPART = 6
KINDS = ["nested_arr", "fixed", "hybrid", "dynamic",
         "ndarray_cs_fb", "ndarray_cs_hb", "ndarray_cs_db", "ndarray_fs_fb", "ndarray_fs_hb", "ndarray_fs_db",
         "ndarray_hs_fb", "ndarray_hs_hb", "ndarray_hs_db", "ndarray_ds_fb", "ndarray_ds_hb", "ndarray_ds_db",
         "ndarray_ls_fb", "ndarray_ls_hb", "ndarray_ls_db"]
OPS = list(range(1, 28))
OPNAME = {1: "transpose", 2: "transpose_ct102", 3: "reshape_ct", 4: "reshape_rt", 5: "sum0", 6: "sum1", 7: "expand_dims",
          8: "flip", 9: "cumsum", 10: "add", 11: "repeat", 12: "tile", 13: "pad", 14: "concatenate", 15: "relu",
          16: "multiply_scalar", 17: "roll", 18: "sum_keepdims", 19: "transpose_of_sum", 20: "flip_of_repeat",
          21: "atleast_nd_ct4", 22: "atleast_nd_ct5", 23: "broadcast_to_4d", 24: "moveaxis", 25: "take", 26: "squeeze_of_sum_keepdims", 27: "flatten"}
CLAIM = dict(
    text=("Kernel-checked abstract-interpretation soundness: the knowledge (fixed shape / dim / size, bounded dim / size, clip bounds) "
          "of every array kind (5 shape kinds x 3 buffer kinds) holds for EVERY run-time shape the kind admits; the rules by which 14 "
          "modelled view types derive their knowledge from the operand's (transpose default / compile-time axes, reshape compile-time / "
          "run-time target, sum over an axis, expand_dims, flip, cumsum, same-shape ufunc, repeat, tile, pad, concatenate) are sound for "
          "every admitted shape and valid argument, and so is any composition of any depth; the result type the default resolver "
          "(eval.hpp:706-880) picks from sound knowledge always accepts the resize to the run-time shape (nothing refused or clipped). "
          "Refuted with witnesses: a result type inheriting the operand's capacity (legacy resolver eval_t) has no room for a "
          "size-changing view; broadcast_shape's rule for a clipped operand. Tied to the C++ by printing, for 19 operand kinds x 20 view "
          "types x up to 4 admitted run-time shapes, the reported knowledge of operand and view types, the run-time shape/dim/size, and "
          "the same for broadcasting binary views over 19 x 6 PAIRS of operand kinds (second kind: the same kind or one of five families; both operand orders; one-sided (1,3)x(4,3) and two-sided (3,1)x(1,3) broadcasting, where the result has more elements than either operand, and a view over two such views) and 3-operand where views with a scalar operand; the evaluated result (shape + all elements) under both resolvers; the extracted checker gammab decides soundness of every "
          "report, the extracted rules must predict the reported knowledge on the modelled views."),
    ref="5.11", technique="Coq proof (abstract interpretation soundness, composition by induction) + two-stage differential correspondence",
    extra="Partial: only the 14 modelled view rules are proved sound for all shapes; other view types (6 here) are checked by the direct "
          "run-time relation on the explored shapes only. Template machinery selecting the traits is observed, not proved.")
RULE = ("every (operand kind of 19, view type of 27, run-time shape variant of 4: (2,3,4),(4,3,2),(1,2,3),(3,2,4)) for which the kind admits "
        "the shape (others are skipped by the driver); non-trivial = the kind has some run-time freedom or the view changes shape; "
        "distinct = distinct case lines")
THEOREM_STATUS = {"proved": ["C11_checker_is_gamma", "C11_array_kinds_sound", "C11_view_rules_sound", "C11_compositions_sound",
                             "C11_resolver_has_room", "C11_evaluated_composition_has_room"], "partial": [],
                  "refuted": ["C11_inherited_capacity_refuted", "C11_broadcast_clipped"]}
ASSUMPTIONS = ["un-modelled view types are covered by the run-time soundness relation on the explored shapes only",
               "the legacy resolver (array::eval(view) without a resolver argument) is a known finding, see known_findings"]


K2 = ["same", "fixed", "ndarray_fs_db", "ndarray_hs_hb", "ndarray_ds_db", "ndarray_ls_fb"]
BINOP = {0: "add_ab", 1: "add_ba", 2: "multiply_ab", 3: "add_c31_d13", 4: "add_d13_c31", 5: "multiply_of_two_sided_adds", 6: "outer_add_c_d", 7: "outer_add_d_c", 8: "outer_add_c_dshrunk", 9: "outer_add_dshrunk_c",
         10: "concat_a23_d13", 11: "concat_d13_a23", 12: "concat_c22_dshrunk12", 13: "concat_dshrunk12_c22"}
WHERE = {0: "where_c3_scalar_y53", 1: "where_c3_y53_scalar", 2: "where_c53_x3_scalar", 3: "where_c3_x3_y53"}


def drivers(tier):
    return {"c11": [("c11.cpp", "debug", ("-O0", "-DKPART=%d" % p, "-DNKPART=%d" % NKPART)) for p in range(NKPART)],
            "c11b": [("c11_bin.cpp", "debug", ("-O0", "-DKPART=%d" % p, "-DNKPART=%d" % NKPART)) for p in range(NKPART)]}


def gen_cases(rng, tier):
    out = []
    for k in KINDS:
        for op in OPS:
            for v in (0, 1, 2, 3):
                out.append(("kinds", "kn S:%s I:%d I:%d" % (k, op, v), "c11"))
    # views over two operand kinds (a: shape (1,3) with a broadcast axis, b: shape (4,3)) and 3-operand where with a scalar
    for k in KINDS:
        for k2 in K2:
            for op in BINOP: out.append(("kind-pairs", "kb S:%s S:%s I:%d" % (k, k2, op), "c11b"))
        for k2 in ("ndarray_ls_db", "ndarray_cs_fb"):          # concatenate: also a clipped shape that can shrink, and a constant shape
            for op in (10, 11, 12, 13): out.append(("kind-pairs", "kb S:%s S:%s I:%d" % (k, k2, op), "c11b"))
        for v in WHERE: out.append(("where", "kw S:%s I:%d" % (k, v), "c11b"))
    return out


def nontrivial(line):
    return not line.startswith("kn S:nested_arr I:9 ") and not line.startswith("kn S:fixed I:9 ")


def distribution(streams):
    kinds = Counter(); ops = Counter()
    for _, line, _ in streams:
        t = line.split(" ")
        kinds[t[1][2:]] += 1
        ops[OPNAME[int(t[2][2:])] if t[0] == "kn" else (BINOP[int(t[3][2:])] if t[0] == "kb" else WHERE[int(t[2][2:])])] += 1
    return {"operand_kind": dict(kinds), "view": dict(ops)}


def _fields(s):
    return [f.strip() for f in s.split("|")]


def classify(line, impl, spec, model):
    """legacy-resolver finding: everything but the 'old=' field agrees with the spec"""
    fi, fs = _fields(impl), _fields(spec)
    if len(fi) != len(fs) or len(fi) < 6: return None
    diff = [i for i in range(len(fi)) if " ".join(fi[i].split()) != " ".join(fs[i].split())]
    t = line.split(" ")
    if 1 in diff and t[1] == "S:nested_arr":
        m = re.match(r"art=(\d+)(?:,[\d,]*)? dim=\d+ size=(\d+)$", " ".join(fi[1].split()))
        if m and m.group(1) == m.group(2):        # nmtools::size() returned the OUTER extent of the nested std::array
            if diff == [1]: return "size-accessor-nested-std-array"
            diff = [i for i in diff if i != 1]    # ... together with the legacy-resolver finding below (two listed defects on one line)
    if diff == [len(fi) - 1] and fi[-1].startswith("old="):
        t = line.split(" ")
        # views over TWO or three operands (kind pairs, where): one class per kind of the FIRST operand (the legacy resolver derives the
        # result type from it); the condition above is the tight part: every other field, the default resolver's result included, is right
        if t[0] in ("kb", "kw"): return "legacy-eval_t-no-room:%s:multi-operand-view" % t[1][2:]
        return "legacy-eval_t-no-room:%s:%s" % (t[1][2:], OPNAME[int(t[2][2:])])
    return None
