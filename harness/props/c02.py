"""C02 — element access through arrays and views never leaves the operands' storage.

The index-map theorems (in-bounds halves of C01/C03/C04/C06, closure under composition, the
evaluator's accesses, room of inferred result containers) are Properties_C02.v.  The correspondence
re-runs the case streams of C03, C04, C05, C06, C10, C12 (SIMD evaluators), C16 and C19 (container histories, thinned) through the SANITIZER builds (ASan + UBSan,
asserts on; std::vector buffers are read through .at(), so an out-of-range index is also caught as
std::out_of_range) and flags exactly the memory events: an accepted argument (spec is a value) whose
evaluation traps (signal, sanitizer report, std::out_of_range, bad_alloc).  Wrong VALUES are not C02's
business (they are C03/C04/C16's)."""
import re, zlib
from collections import Counter
from harness.props import c03, c04, c05, c06, c10, c12, c16, c19

ID = "C02"
MODEL_MODULES = ["Base", "Index"]          # own runner unused: every case borrows its source property's runner
HANDLERS = ["h_c01.ml"]
SOURCES = {"c03": c03, "c04": c04, "c05": c05, "c06": c06, "c10": c10, "c12": c12, "c16": c16, "c19": c19}
CLAIM = dict(
    text=("Kernel-checked for every dimension and extent: an in-bounds multi-index addresses a buffer position below the buffer length "
          "in either layout; every source index produced by reshape / flatten / expand_dims / squeeze / atleast_nd / transpose / "
          "swapaxes / flip / tile / repeat (axis >= 0) / roll (any shift and axis sign) / pad / take (valid entries) / resize / "
          "concatenate (axis >= 0) / broadcast_to for an index of the reported shape lies inside the source shape; in-bounds is closed "
          "under view composition of any depth; every step of the evaluator reads an index of the view's shape and writes below the "
          "buffer length; result containers inferred from sound static knowledge have room (C11). Refuted: repeat with a negative "
          "axis. Tied to the C++ by re-running the C03, C04, C05 (slicing), C06, C10 (evaluation, both resolvers, supplied outputs) and C16 case streams through "
          "and the C12 (SIMD evaluator loads/stores incl. tails) and C19 (utl containers: copy / grow / shrink histories) streams through ASan+UBSan builds with asserts on and .at()-checked buffers: an accepted argument must never trap."),
    ref="5.2", technique="Coq proof (in-bounds index maps, composition by induction) + sanitizer-build differential runs",
    extra="Partial: real memory safety of the C++ objects (lifetimes, pointer arithmetic inside utl::*, SIMD loads: see C12/C19) is "
          "observed by the sanitizers on the explored cases, not proved; hooks in the library are not used (ASan + .at() give the events).")
RULE = ("the quick/thorough case streams of C03, C04, C05, C06, C10, C12, C16 and every 6th case of C19 (their rules apply), sanitizer flavour only; a case counts when its "
        "arguments are accepted (spec is a value); non-trivial as defined by the source property")
THEOREM_STATUS = {"proved": ["C02_offsets_inside_buffer", "C02_rearranging_views_in_bounds", "C02_tile_in_bounds",
                             "C02_repeat_in_bounds_on_domain", "C02_roll_in_bounds", "C02_pad_in_bounds", "C02_take_in_bounds_on_domain",
                             "C02_resize_in_bounds", "C02_concatenate_in_bounds_on_domain", "C02_broadcast_to_in_bounds",
                             "C02_composition_in_bounds", "C02_eval_accesses_inside", "C02_bounded_results_have_room"],
                  "partial": [], "refuted": ["C02_repeat_negative_axis_refuted"]}
ASSUMPTIONS = ["memory events are observed with ASan/UBSan and .at() on the explored cases only"]

_src_of = {}


def model_for(dkey):
    return SOURCES[dkey.split(":")[0]]


def drivers(tier):
    c06.SKIP_GENERATED = True      # only sanitizer flavours are borrowed; C06's generated kind-pair units have none
    out = {}
    for name, mod in SOURCES.items():
        for k, specs in mod.drivers(tier).items():
            asan = [s for s in specs if s[1] == "asan"]
            if asan: out["%s:%s" % (name, k)] = asan
    return out


def gen_cases(rng, tier):
    c06.SKIP_GENERATED = True
    out = []
    have = set(drivers(tier))
    for name, mod in SOURCES.items():
        for stream, line, k in mod.gen_cases(rng, tier):
            key = "%s:%s" % (name, k)
            if key not in have: continue
            if name == "c19" and zlib.crc32(line.encode()) % 6: continue      # C19's history stream is large: every 6th case
            _src_of[line] = name
            out.append((name + "/" + stream, line, key))
    return out


def equal(impl, spec):
    """C02 only judges memory events: the ACCEPTED case (the reference is a value) must not trap; what happens for arguments the
    reference rejects ("nothing") is C15's / the lending property's subject"""
    if " ".join(spec.split()) == "nothing": return True
    return not (impl.startswith("trap") or " trap " in impl or "| trap" in impl)


def nontrivial(line):
    m = SOURCES.get(_src_of.get(line, ""), None)
    return m.nontrivial(line) if m and hasattr(m, "nontrivial") else True


def distribution(streams):
    c = Counter(); ops = Counter()
    for s, line, _ in streams:
        c[s.split("/")[0]] += 1; ops[s.split("/")[0] + ":" + line.split(" ")[0]] += 1
    return {"source_property": dict(c), "ops": dict(ops)}


def classify(line, impl, spec, model):
    name = _src_of.get(line)
    if not name: return None
    cls = SOURCES[name].classify(line, impl, spec, model)
    return ("%s:%s" % (name, cls)) if cls else None
