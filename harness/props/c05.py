"""C05 — slicing follows Python / NumPy basic-indexing semantics."""
import itertools, os, re, random
from collections import Counter
from harness import gen_c05

ID = "C05"
MODEL_MODULES = ["Base", "Index", "Slice"]
HANDLERS = ["h_c05.ml"]
CLAIM = dict(
    text=("Model = index/slice.hpp after the repair 'fix: slice arithmetic follows python's slice.indices' (normalize_slice = "
          "PySlice_AdjustIndices in int64_t, integer ceiling for the length; the pinned size_t/int/binary32 arithmetic was wrong on "
          "5 127 of the 7 588 inputs of the per-axis box). Kernel-checked for EVERY input of the argument types - extent below 2^62, "
          "bounds of any integer type (int, int64_t, size_t) with magnitude below 2^62 (None, negative, out of range) and non-zero "
          "step of magnitude below 2^62: (1) C05_normalize_is_slice_indices - the normalised "
          "(start, stop, step) are Python's and no int64_t/size_t operation of the model wraps; (2) C05_slice_python - the length is "
          "Python's len(range(*slice.indices(n))) and element k is source element start' + k*step; (3) C05_index_in_bounds - every "
          "source index lies in [0,n); (4) C05_multi_axis - any rank: integers drop their axis, one ellipsis stands for the "
          "remaining (possibly zero) axes, shape and every source multi-index are Python's; (5) C05_python_on_box - independent "
          "vm_compute sweep of the 10 388 box inputs. Correspondence: the real C++ against the extracted model and against Python on "
          "the whole per-axis box in five encodings (typed tuple through apply_*; direct variadic call with std::array shape; "
          "run-time list of either; list of std::array<int,K>; compile-time-constant parts incl. negative ones), length AND every "
          "source index; extents around 2^24, 2^31, 2^32, 2^40 and 2^62-1 with int, int64_t and size_t typed bounds and steps up to 2^61 "
          "(index math only: length, first two and last source index); seeded 1..3-axis combinations with integers and an ellipsis in every "
          "position (also standing for no axis) at index and at view level, both encodings, every part as run-time value / compile-time "
          "constant / Last / None crossed with four kinds of source shape and of source array (shape, dim(), size(), every element); "
          "view::slice with a single slice."),
    ref="5.5", technique="Coq proof for all inputs of the argument types + differential correspondence with the extracted model", extra="")
RULE = ("stream box: every n in 1..6, start/stop in [-(n+2), n+2] or None, step in {-3..-1,1..3}, None or omitted (2-part slice) "
        "= 12 type patterns, through 4 encodings (var/tup/dyn/arr; quick tier rotates the encoding per case but covers every "
        "(pattern, encoding) pair, thorough runs all) + a table of 48 compile-time-constant slices (size_t constants) x n in 1..6; stream edge: extents near 2^24 and 2^31 with bounds near 0, +-n, index math only; "
        "stream multi: seeded 1..3-axis type combinations (quick 124, thorough 400) fixing the TYPE of every part - integer index as "
        "run-time int / size_t / k_ct / ct_v<k> / Last, range fields as run-time int / constant / None / Last mixed in one tuple, an "
        "ellipsis in every position - crossed with the kind of the source shape (std::vector, std::array, static_vector, tuple of "
        "constants) and of the source array (dynamic, fixed-dim, raw C array, fixed_ndarray); shape, dim(), size() and every element;"
        " formerly: (quick 120 type combinations, thorough 400) x value draws, index level (shape + every source multi-index) and view level (shape + every "
        "element); stream single: view::slice(a, one slice) on 1-d arrays. "
        "non-trivial = a case with at least one integer bound or step; distinct = distinct case lines")
THEOREM_STATUS = {"proved": ["C05_slice_python", "C05_normalize_is_slice_indices", "C05_index_in_bounds", "C05_multi_axis",
                             "C05_python_on_box", "C05_zero_step_undefined"],
                  "partial": [], "refuted": []}
ASSUMPTIONS = [
    "arguments have the C++ types the theorems name: bounds/steps are integers of any type with magnitude below 2^62 (a size_t bound "
    ">= 2^63 would wrap in static_cast<int64_t>), extents are size_t below 2^62, indices are size_t; integer (non-slice) parts are int",
    "step = 0 (Python raises ValueError) and integer parts outside [-n,n) (Python raises IndexError) are outside the quantifier: "
    "spec = unspecified; the code divides by zero / returns an out-of-range index there",
    "well-formed indices only: the parts account for every axis (the header has no error handling for other calls)",
    "the typed-tuple and the run-time-list encodings are ONE Gallina function (their C++ differences do not change a value); "
    "their agreement is corresponded on every case, not proved",
]


def drivers(tier):
    """at most 3 compile jobs run at once (the specs of one key are built concurrently, keys one after the other).
    A binary answers `unsupported` to the cases of the other TUs, so several TUs can share a key."""
    p = gen_c05.write_drivers(tier)
    nt = gen_c05.n_tus(tier)
    out = {"a": [(p["ax"], "ndebug", ()), (p["ax"], "asan", ()), (p["edge"], "ndebug", ())],
           "d": [(p["dyn"], "ndebug", ()), (p["dyn"], "asan", ())]}
    if tier != "quick": out["d"].append((p["edge"], "asan", ()))
    for g in range(0, nt, 2):
        out[mkey(g)] = [(p["mx%d" % t], "ndebug", ()) for t in range(g, min(nt, g + 2))] + [(p["mx%d" % g], "asan", ())]
    return out


def mkey(tu): return "m%d" % (tu // 2)


def P(v): return "N" if v is None else ("O" if v == "O" else "I:%d" % v)

ENCS = ["var", "tup", "dyn", "arr"]


def pattern(a, b, c):
    return ("N" if a is None else "i") + ("N" if b is None else "i") + ("N" if c is None else "O" if c == "O" else "i")


def gen_cases(rng, tier):
    out = []
    def add(stream, line, key): out.append((stream, line, key))
    n_enc = Counter()
    for n in range(1, 7):
        bounds = [None] + list(range(-(n + 2), n + 3))
        steps = [None, "O", -3, -2, -1, 1, 2, 3]
        for a in bounds:
            for b in bounds:
                for c in steps:
                    pat = pattern(a, b, c)
                    encs = ENCS if pat in ("iii", "iiO") else ENCS[:3]
                    if tier == "quick":
                        # rotate so that every (pattern, encoding) pair is hit many times
                        n_enc[pat] += 1
                        encs = [encs[n_enc[pat] % len(encs)]]
                    for e in encs:
                        add("box", "ax S:%s I:%d %s %s %s" % (e, n, P(a), P(b), P(c)), "a")
    # ---- compile-time-constant parts (fixed table instantiated in the driver, negative constants included)
    for n in range(1, 7):
        for a in (None, -2, 0, 2):
            for b in (None, -1, 1, 5):
                for c in ("O", -1, 2):
                    add("box", "ax S:ct I:%d %s %s %s" % (n, P(a), P(b), P(c)), "a")
    # ---- large extents, index math only (the length goes through binary32 above 2^24)
    big = [2**24 - 1, 2**24, 2**24 + 1, 2**24 + 3, 2**25 + 7, 2**27 + 11, 2**31 - 200, 2**31 - 65, 2**31 - 64, 2**31 - 2, 2**31 - 1,
           2**31, 2**31 + 1, 2**32 - 1, 2**32, 2**32 + 1, 2**40, 2**62 - 1]
    for n in big:
        near = [0, 1, 2, 5, n - 2, n - 1, n, n + 1, -1, -2, -n, -n + 1, -n - 1]
        cands = [(None, None), (0, None), (1, None), (n - 1, None), (n, None), (None, n), (None, n - 1), (None, -1), (None, 5), (0, n), (1, n - 1), (-5, n + 3), (3, -2)]
        cands += [(rng.choice(near), rng.choice(near)) for _ in range(12 if tier == "quick" else 60)]
        for (a, b) in cands:
            if (a is not None and abs(a) >= 2**31) or (b is not None and abs(b) >= 2**31): continue
            for c in [None, "O", 1, 2, 3, -1, -2]:
                if tier == "quick" and rng.random() < 0.5: continue
                pat = pattern(a, b, c)
                e = rng.choice(ENCS if pat in ("iii", "iiO") else ENCS[:3])
                add("edge", "ax S:%s I:%d %s %s %s" % (e, n, P(a), P(b), P(c)), "a")
    # ---- the whole range the theorem claims: extents up to 2^62-1, parts of 64-bit types (int64_t J:, size_t U:)
    wide = [2**31 - 2, 2**31 - 1, 2**31, 2**31 + 1, 2**31 + 2, 2**32 - 1, 2**32, 2**32 + 1, 2**40, 2**62 - 1]
    def typed(v):
        if v is None or v == "O": return P(v)
        return ("U:%d" % v) if (v >= 0 and rng.random() < 0.5) else ("J:%d" % v)
    for n in wide:
        vals = [0, 1, 2, -1, -2, n, -n, n - 1, n + 1, n - 2, n + 2, -(n - 1), -(n + 1), -(n - 2), -(n + 2),
                2**31, -2**31, 2**31 - 1, 2**32, -2**32, 2**32 + 1, n // 2, -(n // 3)]
        vals = [v for v in vals if abs(v) < 2**63]
        steps = [None, "O", 1, 2, 3, -1, -2, -3, 2**31, -2**31, 2**32 + 1, -(2**33 + 5), 2**40, 2**61]
        fixed = [(None, None), (0, n), (0, n + 2), (n + 2, None), (n + 1, None), (None, n + 1), (-1, None), (None, -1), (1, n - 1), (n - 1, 0),
                 (-(n + 2), n + 2), (2**31, None), (None, 2**31), (0, 2**32)]
        draws = fixed + [(rng.choice([None] + vals), rng.choice([None] + vals)) for _ in range(20 if tier == "quick" else 250)]
        for k, (a, b) in enumerate(draws):
            cs = steps if (tier != "quick" and k < len(fixed)) else [None, 1, -1] + rng.sample(steps, 2 if tier == "quick" else 4)
            for c in cs:
                for e in (("var", "dyn") if (tier != "quick" or k < len(fixed)) else (rng.choice(["var", "dyn"]),)):
                    line = "ex S:%s I:%d %s %s %s" % (e, n, typed(a), typed(b), typed(c))
                    add("wide", line, "a")
                    if tier != "quick" and rng.random() < 0.1: add("wide", line, "d")     # the sanitizer build of the edge driver
    # ---- the public variadic view::slice with exactly one slice on a 1-d array
    for n in (3, 5):
        for (a, b) in [(0, n), (1, 3), (0, 2), (-2, n), (2, 2)]:
            add("single", "v1 I:%d I:%d I:%d" % (n, a, b), "d")
            add("single", "v1 I:%d I:%d I:%d I:1" % (n, a, b), "d")
    # ---- several axes
    def draw_part(t, n):
        if t == "e": return "S:e"
        if t == "i":
            v = rng.randint(-n, n - 1) if rng.random() < 0.95 else rng.choice([n, -n - 1])
            return "S:i,%d" % v
        ordered = rng.random() < 0.6
        if ordered:
            a1 = rng.randint(0, n); b1 = rng.randint(a1, n)
            a = a1 - n if (a1 < n and rng.random() < 0.4) else a1
            b = b1 - n if (b1 < n and rng.random() < 0.4) else (b1 + rng.randint(0, 2) if b1 == n else b1)
            c = rng.choice([1, 1, 2, 3])
            if rng.random() < 0.1: c = -rng.choice([1, 2, 3])
        else:
            a = rng.randint(-(n + 2), n + 2); b = rng.randint(-(n + 2), n + 2); c = rng.choice([-3, -2, -1, 1, 2, 3])
        f = lambda ch, v: "N" if ch == "N" else "O" if ch == "O" else str(v)
        return "S:r,%s,%s,%s" % (f(t[0], a), f(t[1], b), f(t[2], c))
    def draw_shape(dim): return [rng.randint(1, 5) for _ in range(dim)]
    def parts_line(shape, parts):
        nf = len(shape) - sum(1 for x in parts if x != "e")
        toks = []; ax = 0
        for t in parts:
            if t == "e": toks.append("S:e"); ax += nf
            else: toks.append(draw_part(t, shape[ax])); ax += 1
        return "L:%s %s" % (",".join(map(str, shape)), " ".join(toks))
    # typed-tuple encodings: the TYPE of every part (run-time int / size_t, constant, Last, None), the kind of the source shape
    # (index level) and of the source array (view level) are fixed by the generated combination; constants keep their value
    def draw_typed(t, n):
        if t[0] == "e": return "S:e"
        if t[0] == "i":
            if t[2] is not None: return "S:i,%d" % t[2]
            if t[1] == "rtu": return "S:i,%d" % rng.randint(0, n - 1)
            v = rng.randint(-n, n - 1) if rng.random() < 0.95 else rng.choice([n, -n - 1])
            return "S:i,%d" % v
        toks = draw_part("iii", n).split(",")[1:]            # joint draw of (a, b, c), then the fixed fields override
        for j, f in enumerate(t[1]):
            if f[0] in ("N", "O"): toks[j] = f[0]
            elif f[0] == "last": toks[j] = "-1"
            elif f[0] in ("ct", "sct"): toks[j] = str(f[1])
        return "S:r," + ",".join(toks)
    combos = gen_c05.static_combos(tier)
    nt = gen_c05.n_tus(tier)
    ndraw = 6 if tier == "quick" else 12
    for cid, cmb in enumerate(combos):
        key = mkey(cid % nt)
        dim, parts = cmb["dim"], cmb["parts"]
        nf = dim - sum(1 for x in parts if x[0] != "e")
        def body_for(shape):
            toks = []; ax = 0
            for t in parts:
                if t[0] == "e": toks.append("S:e"); ax += nf
                else: toks.append(draw_typed(t, shape[ax])); ax += 1
            return "L:%s %s" % (",".join(map(str, shape)), " ".join(toks))
        for d in range(ndraw):
            free = [rng.randint(m, max(m, 5)) for m in cmb["minext"]]
            shp_i = list(cmb["shape"]) if cmb["skind"] == "cst" else free           # constant shapes are part of the combination
            shp_v = list(cmb["shape"]) if cmb["akind"] in ("raw", "fixed") else free
            add("multi", "mx S:%s S:c%d %s" % ("var" if d % 2 == 0 else "tup", cid, body_for(shp_i)), key)
            add("multi", "vw S:%s S:c%d %s" % ("tup" if d % 2 == 0 else "var", cid, body_for(shp_v)), key)
    # run-time list encoding: any sequence of integers / ellipsis / ranges of ONE tuple pattern (+ all-int 3-part ranges as arrays)
    nseq = 40 if tier == "quick" else 150
    for pat in gen_c05.PATS:
        for _ in range(nseq):
            dim = rng.choice([1, 2, 2, 3, 3, 3])
            has_e = rng.random() < 0.5
            nf = rng.randint(0, dim) if has_e else 0
            parts = [("i" if rng.random() < 0.25 else (pat if rng.random() < 0.75 else "iii")) for _ in range(dim - nf)]
            if has_e: parts.insert(rng.randint(0, len(parts)), "e")
            if nf + sum(1 for x in parts if x not in ("i", "e")) == 0: continue
            body = parts_line(draw_shape(dim), parts)
            add("multi", "mx S:dyn S:%s %s" % (pat, body), "d")
            add("multi", "vw S:dyn S:%s %s" % (pat, body), "d")
    return out


def nontrivial(line):
    return bool(re.search(r"I:-?\d+ .*I:-?\d+", line)) or ",-" in line or bool(re.search(r"r,[^ ]*\d", line))


def distribution(streams):
    ops = Counter(); encs = Counter(); pats = Counter()
    for _, line, _ in streams:
        t = line.split(" ")
        ops[t[0]] += 1; encs[t[1][2:] if t[1].startswith("S:") else "-"] += 1
        if t[0] in ("ax", "ex"):
            pats["".join("N" if x == "N" else "O" if x == "O" else "i" for x in t[3:6])] += 1
    return {"ops": dict(ops), "encodings": dict(encs), "axis_patterns": dict(pats)}


def case_pattern(line):
    t = line.split(" ")
    if t[0] == "ax":
        return "".join("N" if x == "N" else "O" if x == "O" else "i" for x in t[3:6])
    return "multi"


def classify(line, impl, spec, model):
    """no known finding is left for C05: every disagreement with Python is a violation"""
    return None
