"""C12 — SIMD evaluation equals scalar evaluation for every size, shape and layout."""
import hashlib, itertools, os, re
from collections import Counter

ID = "C12"
MODEL_MODULES = ["Base", "Simd"]
HANDLERS = ["h_c12.ml"]
CLAIM = dict(
    text=("Kernel-checked for EVERY lane count N >= 1, element type and scalar operation f (the lane operation of a context is "
          "modelled as the N-lane map of f): eval_unary and the same-shape eval_binary (packed loop + scalar tail) return exactly "
          "map f / map2 f and no packed load or store leaves its buffer; the 2-d broadcast enumerator binary_2d_simd(_shape) visits "
          "every output cell exactly once, in row-major order, with the operand cells NumPy's rule designates, all in bounds, for "
          "every valid 2-d broadcast pattern ((1,1) operands included since the fix), so eval_binary's BROADCASTED_2D arm equals the "
          "broadcast spec; the full reduction (accumulator started from the op's identity since the fix) equals the left fold for "
          "every associative-commutative f with identity; the 2-d vertical reduction core accumulates input row i element-wise into "
          "output row i/K in order (no law needed) and the horizontal core equals the per-row fold for associative-commutative f with "
          "identity (identity padding included); an `initial` value is folded into every result (fold seeded by it); operand patterns the "
          "simd path refuses (different rank, broadcasts that are not 2-d) are evaluated by the default evaluator, i.e. equal it by "
          "construction; so are views whose output or an operand is not row-major (layout guard at the head of every eval_* arm). "
          "Tied to the C++ on every run: the index enumerators (binary_2d_simd, reduction_2d, outer_simd; N in 4/8/16, every "
          "column count 1..4N+1, all 2-d broadcast patterns) and array::fn(args, ctx) bit for bit against the extracted model for "
          "x86 SSE, x86 AVX, vector extensions 128/256/512 and SIMDe AVX-512, float and double, sizes 1..4N+1, every axis "
          "(negative ones included), plus ASan/UBSan builds."),
    ref="5.12", technique="Coq proof (loop invariant 'first i results final'; cover-once of the enumerator; fold permutation) + "
                          "differential correspondence of the extracted model with the real evaluators, per context",
    extra="partial: intrinsics are modelled as N-lane maps of f, not verified; n-d reduction reshape and outer are corresponded, "
          "not proved; matmul is not covered. Six defects found by this check were repaired in /repo (fix: commits: identity "
          "start of the full reduction, negative reduction axis, (1,1) operand offset, fallback for refused views, initial value, "
          "layout guard for column-major operands); their inputs stay in the generated streams. Open finding: relu/relu6 lanes on -0.0 / NaN")
RULE = ("index level: every column count 1..4N+1 x rows 1..3 x all 16 (lhs,rhs) 2-d broadcast patterns for N in {4,8,16}; reduction "
        "enumerators over 2-d/3-d shapes, every axis; outer enumerators. End to end, per context and dtype (lanes N): unary / binary "
        "same-shape for every element count 1..4N+1 (1-d and folded 2-d/3-d shapes), every 2-d broadcast pattern with cols 1..2N+1, "
        "outer, add/multiply reductions over every axis / None / keepdims (ct and run time) with integer-valued data so that "
        "re-association is exact; streams aimed at past and present defects: (1,1) operands, multiply with a one-element result, "
        "negative axes, rank mismatch / n-d broadcast, initial, column-major (all six repaired), special values. non-trivial = more than N elements or a 2-d+ shape; distinct = distinct case lines")
THEOREM_STATUS = {"proved": ["C12_unary_eq_map", "C12_binary_same_eq", "C12_binary_2d_covers_once", "C12_binary_2d_eq_on_domain",
                             "C12_no_UB", "C12_reduce_full_on_domain", "C12_reduce_horizontal_core", "C12_reduce_vertical_core",
                             "C12_binary_refused_falls_back", "C12_not_row_major_falls_back"],
                  "partial": ["reduction_nd_reshape (n-d -> 2-d; the 2-d cores are proved) and eval_outer: modelled and corresponded on every run, "
                              "not proved", "lane operations of the six contexts: modelled as N-lane maps of f, not verified"],
                  "refuted": []}
ASSUMPTIONS = ["the lane operation of every context is the N-lane map of the scalar operation (intrinsics / vector extensions / SIMDe "
               "are not verified; compared bit for bit on the explored inputs only)",
               "reductions: 'equal up to re-association' is made precise as equality for associative-commutative f with identity; the "
               "differential runs use integer-valued data whose partial results are exact, so any association gives the same bits"]
TRUSTED_EXTRA = ["OCaml float arithmetic as the reference scalar operation (binary32 emulated by rounding binary64 results; exact for "
                 "+ - * / sqrt), checked on every run against the default scalar evaluator (context 'none')"]

VERIF = os.path.dirname(os.path.dirname(os.path.dirname(os.path.abspath(__file__))))
CTX_FLAGS = {
    "none": ("c12_none.cpp", ()),
    "sse": ("c12_sse.cpp", ("-msse4.2",)),
    "avx": ("c12.cpp", ("-mavx2", "-mfma")),
    "v128": ("c12_v128.cpp", ("-msse4.2",)),
    "v256": ("c12_v256.cpp", ("-mavx2",)),
    "v512": ("c12_v512.cpp", ("-mavx512f",)),
    "simde": ("c12_simde.cpp", ("-mavx512f", "-mavx512dq")),
}
BITS = {"sse": 128, "v128": 128, "avx": 256, "v256": 256, "v512": 512, "simde": 512}
def lanes(ctx, dt): return BITS[ctx] // (32 if dt == "f32" else 64)


def _body_hash():
    h = hashlib.sha256()
    for f in ("c12.cpp", "show.hpp"):
        try: h.update(open(os.path.join(VERIF, "drivers", f), "rb").read())
        except OSError: pass
    return h.hexdigest()[:12]


def _spec(ctx, flavour):
    src, fl = CTX_FLAGS[ctx]
    extra = tuple(fl) + (("-DVD_LIGHT",) if flavour == "asan" else ())
    if src != "c12.cpp": extra += ("-DVD_BODY=" + _body_hash(),)   # wrappers: key the cache by the shared body too
    return (src, flavour, extra)


# driver groups: at most 4 translation units are compiled concurrently
def _groups(tier):
    g = {"c12_a": [("avx", "ndebug"), ("avx", "asan"), ("ix", "ndebug"), ("ix", "asan")],
         "c12_b": [("sse", "ndebug"), ("v128", "ndebug"), ("v256", "ndebug"), ("v512", "ndebug")],
         "c12_c": [("simde", "ndebug"), ("none", "ndebug")]}
    if tier == "thorough":
        g["c12_c"] += [("sse", "asan"), ("v512", "asan")]
        g["c12_d"] = [("simde", "asan"), ("v128", "asan"), ("v256", "asan")]
    return g


def drivers(tier):
    out = {}
    for k, members in _groups(tier).items():
        out[k] = [(("c12_ix.cpp", fl, ("-DVD_LIGHT",) if fl == "asan" else ()) if c == "ix" else _spec(c, fl)) for c, fl in members]
    return out


def A(shape, data): return "A:%s:%s" % (",".join(map(str, shape)), ",".join(map(str, data)))
def L(v): return "L:" + ",".join(str(x) for x in v)
def prod(s):
    n = 1
    for x in s: n *= x
    return n


def fold_shapes(n):
    """a few shapes with n elements: 1-d, and 2-d / 3-d factorizations"""
    out = [(n,)]
    for a in (2, 3, 5):
        if n % a == 0 and n > a: out.append((a, n // a)); out.append((n // a, a))
    if n % 4 == 0 and n > 4: out.append((2, 2, n // 4))
    return out


def bc_patterns(R, C):
    """all (lhs, rhs) 2-d broadcast patterns producing (R, C)"""
    cand = {(R, C), (1, C), (R, 1), (1, 1)}
    out = []
    for l in sorted(cand):
        for r in sorted(cand):
            if (max(l[0], r[0]), max(l[1], r[1])) == (R, C): out.append((l, r))
    return out


def gen_cases(rng, tier):
    out = []
    groups = _groups(tier)
    where = {}   # context -> driver keys holding a build of it
    for k, members in groups.items():
        for c, _ in members: where.setdefault(c, []).append(k)
    def add(stream, line, ctx):
        for k in where.get(ctx, []): out.append((stream, line, k))
    quick = tier == "quick"

    # ---------------- (a) index level
    for N in (4, 8, 16):
        for C in range(1, 4 * N + 2):
            for R in (1, 2, 3):
                for (l, r) in bc_patterns(R, C):
                    add("ix_binary_2d", "ix_b2dc I:%d %s %s %s" % (N, L((R, C)), L(l), L(r)), "ix")
                    if R <= 2: add("ix_binary_2d", "ix_b2d I:%d %s %s %s" % (N, L((R, C)), L(l), L(r)), "ix")
    for N in (2, 4, 8):
        for C in range(1, 2 * N + 2):
            shapes = [(C,), (1, C), (2, C), (3, C), (C, 2), (C, 3), (2, 3, C), (2, C, 2), (C, 1, 3), (1, 2, C), (2, 2, 2, C)]
            for shp in shapes:
                for ax in range(len(shp)):
                    kind = "H" if ax == len(shp) - 1 else "V"
                    add("ix_reduction", "ix_red I:%d S:%s %s I:%d" % (N, kind, L(shp), ax), "ix")
            for lhs in ((1,), (2,), (3,), (2, 2), (1, 3), (2, 1, 2)):
                for rhs in ((C,), (2, C), (1, C), (2, 1, C), (1, 2, C)):
                    add("ix_outer", "ix_outer I:%d %s %s" % (N, L(lhs), L(rhs)), "ix")

    # ---------------- (b) end to end, per context
    ctxs = ["avx", "sse", "v128", "v256", "v512", "simde"]
    UN = ["sqrt", "ceil", "floor", "relu", "relu6"]
    BIN = ["add", "subtract", "multiply", "divide"]
    def vals(n, lo=-20, hi=40): return [rng.randint(lo, hi) for _ in range(n)]
    def nz(n): return [rng.choice([-7, -3, -1, 1, 2, 3, 5, 9]) for _ in range(n)]
    def mulvals(n):
        v = [1] * n
        for i in rng.sample(range(n), min(n, rng.randint(0, 12))): v[i] = rng.choice([2, 2, -1, 3]) if rng.random() < 0.8 else 1
        # keep |product| <= 2^20
        while prod([abs(x) for x in v]) > (1 << 20): v[v.index(max(v, key=abs))] = 1
        return v
    cnt = 0
    for ctx in ctxs + ["none"]:
        for dt in ("f32", "f64"):
            N = lanes(ctx, dt) if ctx != "none" else 4
            top = 4 * N + 1
            sizes = list(range(1, top + 1))
            if quick and N >= 8: sizes = sorted(set(list(range(1, N + 3)) + [2 * N - 1, 2 * N, 2 * N + 1, 3 * N, 3 * N + 1, 4 * N - 1, 4 * N, 4 * N + 1]))
            if ctx == "none": sizes = [1, 3, 4, 5, 9, 17]
            for n in sizes:
                cnt += 1
                shapes = fold_shapes(n)
                shp = shapes[cnt % len(shapes)]
                op = UN[cnt % len(UN)]
                den = 8 if op == "sqrt" else (4 if op in ("ceil", "floor") else 2)
                data = vals(n, 0, 200) if op == "sqrt" else vals(n, -30, 30)
                add("unary", "unary S:%s S:%s S:%s I:%d %s" % (ctx, dt, op, den, A(shp, data)), ctx)
                add("unary", "unary S:%s S:%s S:sqrt I:8 %s" % (ctx, dt, A((n,), vals(n, 0, 500))), ctx)
                bop = BIN[cnt % len(BIN)]
                shp2 = shapes[(cnt // 2) % len(shapes)]
                add("binary_same", "binary S:%s S:%s S:%s I:%d %s %s" % (ctx, dt, bop, 4, A(shp2, vals(n)), A(shp2, nz(n))), ctx)
                # reductions, 1-d: axis None and axis 0 (both take the out_size == 1 arm)
                kd = ["kT", "kF", "kt", "kf"][cnt % 4]
                add("reduce_full", "reduce S:%s S:%s S:add I:1 %s N S:%s N" % (ctx, dt, A(shp, vals(n)), kd), ctx)
                add("reduce_full", "reduce S:%s S:%s S:add I:1 %s I:0 S:%s N" % (ctx, dt, A((n,), vals(n)), kd), ctx)
                add("reduce_full_multiply", "reduce S:%s S:%s S:multiply I:1 %s N S:%s N" % (ctx, dt, A(shp, mulvals(n)), kd), ctx)
            # 2-d broadcast patterns
            cols = range(1, 2 * N + 2) if not quick or N <= 4 else sorted(set([1, 2, N - 1, N, N + 1, 2 * N - 1, 2 * N, 2 * N + 1]))
            if ctx == "none": cols = [1, 3, 5]
            for C in cols:
                for R in (1, 2, 3):
                    for (l, r) in bc_patterns(R, C):
                        if l == r: continue
                        cnt += 1
                        bop = BIN[cnt % len(BIN)]
                        bad = ((l == (1, 1)) or (r == (1, 1))) and R > 1
                        stream = "binary_2d_1x1" if bad else "binary_2d"
                        add(stream, "binary S:%s S:%s S:%s I:2 %s %s" % (ctx, dt, bop, A(l, vals(prod(l))), A(r, nz(prod(r)))), ctx)
                # reductions over each axis of (R, C) and (2, R, C)-like shapes
                for shp in ((2, C), (3, C), (C, 3), (2, 3, C), (2, C, 2), (C, 2, 2)):
                    for ax in list(range(len(shp))) + [-1]:
                        cnt += 1
                        kd = ["kT", "kF", "kt", "kf"][cnt % 4]
                        rop = "add" if cnt % 3 else "multiply"
                        data = vals(prod(shp)) if rop == "add" else mulvals(prod(shp))
                        out_size = prod(shp) // shp[ax]
                        stream = "reduce_axis" if (out_size > 1 or rop == "add") else "reduce_full_multiply"
                        add(stream, "reduce S:%s S:%s S:%s I:1 %s I:%d S:%s N" % (ctx, dt, rop, A(shp, data), ax, kd), ctx)
                # outer
                for lhs in ((1,), (3,), (2, 2)):
                    for rhs in ((C,), (2, C)):
                        cnt += 1
                        oop = ["add", "multiply", "subtract"][cnt % 3]
                        add("outer", "outer S:%s S:%s S:%s I:2 %s %s" % (ctx, dt, oop, A(lhs, vals(prod(lhs))), A(rhs, vals(prod(rhs)))), ctx)
            if ctx == "none": continue
            # ---- streams aimed at the known defects (each must stay a tight class)
            for (R, C) in ((2, 3), (3, N + 1), (2, 2 * N)):
                d = vals(R * C, 1, 60)
                add("column_major", "unary S:%s S:%s S:sqrt I:1 %s S:col" % (ctx, dt, A((R, C), d)), ctx)
                add("column_major", "binary S:%s S:%s S:add I:1 %s %s S:col" % (ctx, dt, A((R, C), d), A((R, C), vals(R * C))), ctx)
                add("column_major", "binary S:%s S:%s S:add I:1 %s %s S:col" % (ctx, dt, A((R, C), d), A((1, C), vals(C))), ctx)
            for (l, r) in (((2, 3, N + 1), (3, N + 1)), ((2, 1, 3), (1, N, 3)), ((5,), (1, 5)), ((2, 2, 2, 3), (3,)), ((3,), (1,))):
                add("binary_refused", "binary S:%s S:%s S:add I:1 %s %s" % (ctx, dt, A(l, vals(prod(l), 1, 9)), A(r, vals(prod(r), 1, 9))), ctx)
            for shp, ax in (((2, N + 1), 1), ((3, N), 0), ((2 * N + 1,), 0), ((2, 2, 3), 1)):
                add("reduce_initial", "reduce S:%s S:%s S:add I:1 %s I:%d S:kT I:100" % (ctx, dt, A(shp, vals(prod(shp))), ax), ctx)
                add("reduce_initial", "reduce S:%s S:%s S:add I:1 %s N S:kF I:7" % (ctx, dt, A(shp, vals(prod(shp))), ), ctx)
            for shp, ax in (((2, 3, 2), -2), ((2, 3, N + 1), -3), ((3, N), -2)):
                add("reduce_negative_axis", "reduce S:%s S:%s S:add I:1 %s I:%d S:kT N" % (ctx, dt, A(shp, vals(prod(shp))), ax), ctx)
            sp = [900001, 900004, -1, 7, 3, 900002, 900003, 0] * (N // 2 + 1)
            add("special_values", "unary S:%s S:%s S:relu6 I:1 %s" % (ctx, dt, A((N + 2,), sp[:N + 2])), ctx)
            add("special_values", "unary S:%s S:%s S:relu I:1 %s" % (ctx, dt, A((N + 2,), sp[:N + 2])), ctx)
            add("special_values", "unary S:%s S:%s S:floor I:1 %s" % (ctx, dt, A((N + 2,), sp[:N + 2])), ctx)
            add("special_values", "binary S:%s S:%s S:multiply I:1 %s %s" % (ctx, dt, A((N + 2,), sp[:N + 2]), A((N + 2,), sp[1:N + 3])), ctx)
    return out


def _arrs(line): return [tuple(int(x) for x in m.split(",")) for m in re.findall(r"A:([0-9,]*):", line)]


def nontrivial(line):
    if line.startswith("ix_"):
        return any(len([x for x in m.split(",") if x]) >= 2 for m in re.findall(r"L:([0-9,]*)", line))
    shp = _arrs(line)
    return any(len(s) >= 2 and prod(s) > 1 for s in shp) or any(prod(s) > 4 for s in shp)


def distribution(streams):
    ops = Counter(); ctx = Counter(); st = Counter()
    for s, line, _ in streams:
        t = line.split(" ")
        ops[t[0] + (":" + t[3][2:] if not t[0].startswith("ix_") else "")] += 1
        ctx[t[1][2:] if not t[0].startswith("ix_") else "index(N=%s)" % t[1][2:]] += 1
        st[s] += 1
    return {"ops": dict(ops), "contexts": dict(ctx), "streams": dict(st)}


def _norm(s): return " ".join(s.split())


def classify(line, impl, spec, model):
    t = line.split(" ")
    op = t[0]
    if op in ("unary", "binary", "outer", "reduce") and t[1] == "S:none": return None
    if op == "unary" and t[3] in ("S:relu", "S:relu6") and re.search(r"90000[14]", line):
        return "relu_lane_op_differs_on_negzero_nan"
    return None
