"""C12 — SIMD evaluation equals scalar evaluation for every size, shape and layout."""
import hashlib, itertools, math, os, re, struct
from collections import Counter

ID = "C12"
MODEL_MODULES = ["Base", "Simd"]
HANDLERS = ["h_c12.ml"]
CLAIM = dict(
    text=("Kernel-checked for EVERY lane count N >= 1, element type and scalar operation f (the lane operation of a context is "
          "modelled as the N-lane map of f): eval_unary and the same-shape eval_binary (packed loop + scalar tail) return exactly "
          "map f / map2 f and no packed load or store leaves its buffer; the 2-d broadcast enumerator binary_2d_simd(_shape) visits "
          "every output cell exactly once, in row-major order, with the operand cells NumPy's rule designates, all in bounds, for "
          "every valid 2-d broadcast pattern ((1,1) operands included since the fix), so eval_binary's BROADCASTED_2D arm equals the "
          "broadcast spec; the full reduction (accumulator started from the op's identity since the fix) equals the left fold for "
          "every associative-commutative f with identity; the 2-d vertical reduction core accumulates input row i element-wise into "
          "output row i/K in order (no law needed) and the horizontal core equals the per-row fold for associative-commutative f with "
          "identity (identity padding included); an `initial` value is folded into every result (fold seeded by it); operand patterns the "
          "simd path refuses (different rank, broadcasts that are not 2-d) are evaluated by the default evaluator, i.e. equal it by "
          "construction; so are views whose output or an operand is not row-major (layout guard at the head of every eval_* arm). "
          "Tied to the C++ on every run: the index enumerators (binary_2d_simd, reduction_2d, outer_simd; N in 4/8/16, every "
          "column count 1..4N+1, all 2-d broadcast patterns) and array::fn(args, ctx) bit for bit against the extracted model for "
          "x86 SSE, x86 AVX, vector extensions 128/256/512 and SIMDe AVX-512, float and double, sizes 1..4N+1, every axis "
          "(negative ones included), plus ASan/UBSan builds."),
    ref="5.12", technique="Coq proof (loop invariant 'first i results final'; cover-once of the enumerator; fold permutation) + "
                          "differential correspondence of the extracted model with the real evaluators, per context",
    extra="partial: intrinsics are modelled as N-lane maps of f, not verified; n-d reduction reshape and outer are corresponded, "
          "not proved; matmul is not covered. Six defects found by this check were repaired in /repo (fix: commits: identity "
          "start of the full reduction, negative reduction axis, (1,1) operand offset, fallback for refused views, initial value, "
          "layout guard for column-major operands); their inputs stay in the generated streams. Open finding: relu/relu6 lanes on -0.0 / NaN")
RULE = ("index level: every column count 1..4N+1 x rows 1..3 x all 16 (lhs,rhs) 2-d broadcast patterns for N in {4,8,16}; reduction "
        "enumerators over 2-d/3-d shapes, every axis; outer enumerators. End to end, per context and dtype (lanes N): unary / binary "
        "same-shape for every element count 1..4N+1 (1-d and folded 2-d/3-d shapes), every 2-d broadcast pattern with cols 1..2N+1, "
        "outer, add/multiply reductions over every axis / None / keepdims (ct and run time) with integer-valued data so that "
        "re-association is exact; streams aimed at past and present defects: (1,1) operands, multiply with a one-element result, "
        "negative axes, rank mismatch / n-d broadcast, initial, column-major (all six repaired), special values. Adversarial "
        "lane-function stream (unaryx / binaryx, values given as double bit patterns): every unary op x context x {float,double} on ~365 "
        "values (1 ulp(float) and 1 ulp(double) around integers and .5 up to 2^53+2 and 1e15, inside float epsilon of integers, "
        "denormals, +-0, +-inf, NaN, +-1e300, float overflow) and every binary op on 50 operand pairs whose float-narrowed images differ "
        "from the doubles / cancel / overflow / underflow; covering windows put each value in a packed lane AND in a tail position "
        "(quick), thorough adds every size 1..4N+1 with random offsets; order shuffled by VERIF_SEED. Layout stream (lay): operand "
        "layout x result layout (row / column-major ndarray operands incl. mixed, Row/ColumnMajorResolver) for unary, binary same-shape, "
        "both 2-d broadcast arms, reductions over every axis (keepdims on/off) and outer, 2-d / 3-d shapes whose size is and is not a "
        "multiple of the lanes, every context x dtype, compared by logical index. The relu/relu6 class is decided against the model's "
        "exact per-context lane prediction (impl must equal it bit for bit). non-trivial = more than N elements or a 2-d+ shape; distinct = distinct case lines")
THEOREM_STATUS = {"proved": ["C12_unary_eq_map", "C12_binary_same_eq", "C12_binary_2d_covers_once", "C12_binary_2d_eq_on_domain",
                             "C12_no_UB", "C12_reduce_full_on_domain", "C12_reduce_horizontal_core", "C12_reduce_vertical_core",
                             "C12_binary_refused_falls_back", "C12_not_row_major_falls_back", "C12_unary_lane_eq_map",
                             "C12_relu_x86_lane_is_scalar"],
                  "partial": ["reduction_nd_reshape (n-d -> 2-d; the 2-d cores are proved) and eval_outer: modelled and corresponded on every run, "
                              "not proved", "lane operations of the six contexts: modelled as N-lane maps of f, not verified"],
                  "refuted": []}
ASSUMPTIONS = ["the lane operation of every context is the N-lane map of the scalar operation (intrinsics / vector extensions / SIMDe "
               "are not verified; probed bit for bit per (context, dtype, op) with adversarial values in packed and tail positions on every run)",
               "reductions: 'equal up to re-association' is made precise as equality for associative-commutative f with identity; the "
               "differential runs use integer-valued data whose partial results are exact, so any association gives the same bits"]
TRUSTED_EXTRA = ["OCaml float arithmetic as the reference scalar operation (binary32 emulated by rounding binary64 results; exact for "
                 "+ - * / sqrt), checked on every run against the default scalar evaluator (context 'none')"]

VERIF = os.path.dirname(os.path.dirname(os.path.dirname(os.path.abspath(__file__))))
CTX_FLAGS = {
    "none": ("c12_none.cpp", ()),
    "sse": ("c12_sse.cpp", ("-msse4.2",)),
    "avx": ("c12.cpp", ("-mavx2", "-mfma")),
    "v128": ("c12_v128.cpp", ("-msse4.2",)),
    "v256": ("c12_v256.cpp", ("-mavx2",)),
    "v512": ("c12_v512.cpp", ("-mavx512f",)),
    "simde": ("c12_simde.cpp", ("-mavx512f", "-mavx512dq")),
}
BITS = {"sse": 128, "v128": 128, "avx": 256, "v256": 256, "v512": 512, "simde": 512}
def lanes(ctx, dt): return BITS[ctx] // (32 if dt == "f32" else 64)


def _body_hash():
    h = hashlib.sha256()
    for f in ("c12.cpp", "show.hpp"):
        try: h.update(open(os.path.join(VERIF, "drivers", f), "rb").read())
        except OSError: pass
    return h.hexdigest()[:12]


def _spec(ctx, flavour):
    src, fl = CTX_FLAGS[ctx]
    extra = tuple(fl) + (("-DVD_LIGHT",) if flavour == "asan" else ())
    if src != "c12.cpp": extra += ("-DVD_BODY=" + _body_hash(),)   # wrappers: key the cache by the shared body too
    return (src, flavour, extra)


# driver groups: at most 3 translation units are compiled concurrently
def _groups(tier):
    g = {"c12_a": [("avx", "ndebug"), ("avx", "asan"), ("ix", "ndebug")],
         "c12_b": [("ix", "asan"), ("sse", "ndebug"), ("v128", "ndebug")],
         "c12_c": [("v256", "ndebug"), ("v512", "ndebug"), ("simde", "ndebug")],
         "c12_d": [("none", "ndebug")]}
    if tier == "thorough":
        g["c12_d"] += [("sse", "asan"), ("v512", "asan")]
        g["c12_e"] = [("simde", "asan"), ("v128", "asan"), ("v256", "asan")]
    return g


def drivers(tier):
    out = {}
    for k, members in _groups(tier).items():
        out[k] = [(("c12_ix.cpp", fl, ("-DVD_LIGHT",) if fl == "asan" else ()) if c == "ix" else _spec(c, fl)) for c, fl in members]
    return out


def A(shape, data): return "A:%s:%s" % (",".join(map(str, shape)), ",".join(map(str, data)))
def L(v): return "L:" + ",".join(str(x) for x in v)
def prod(s):
    n = 1
    for x in s: n *= x
    return n


def fold_shapes(n):
    """a few shapes with n elements: 1-d, and 2-d / 3-d factorizations"""
    out = [(n,)]
    for a in (2, 3, 5):
        if n % a == 0 and n > a: out.append((a, n // a)); out.append((n // a, a))
    if n % 4 == 0 and n > 4: out.append((2, 2, n // 4))
    return out


def bc_patterns(R, C):
    """all (lhs, rhs) 2-d broadcast patterns producing (R, C)"""
    cand = {(R, C), (1, C), (R, 1), (1, 1)}
    out = []
    for l in sorted(cand):
        for r in sorted(cand):
            if (max(l[0], r[0]), max(l[1], r[1])) == (R, C): out.append((l, r))
    return out


# ---- adversarial values: the lane operation of each (context, dtype, op) is probed where a wrong precision, a wrong
# rounding or a wrong special-value rule would show (a lane function that narrows double -> float, or that treats
# -0.0 / NaN / denormals / > 2^24 / > 2^53 differently from the scalar functor)
def _hexd(x): return struct.pack(">d", x).hex()
def _f32(x):
    try: return struct.unpack("f", struct.pack("f", x))[0]
    except OverflowError: return math.copysign(math.inf, x)
def _next32(x, up):
    x = _f32(x)
    if x != x or math.isinf(x): return x
    if x == 0.0: return math.copysign(1.401298464324817e-45, 1.0 if up else -1.0)
    b = struct.unpack("I", struct.pack("f", x))[0]
    b += 1 if (x > 0) == up else -1
    return struct.unpack("f", struct.pack("I", b))[0]


def adversarial_unary():
    vals = []
    def add(x): vals.append(float(x))
    bases = [0, 1, 2, 6, 7, 41, 128, 1000, 2 ** 24 - 1, 2 ** 24, 2 ** 24 + 1, 2 ** 31, 2 ** 52, 2 ** 53, 2 ** 53 + 2, 10 ** 15]
    for k in bases:
        for sgn in (1.0, -1.0):
            for c in (float(k), k + 0.5):
                v = sgn * c
                add(v); add(math.nextafter(v, math.inf)); add(math.nextafter(v, -math.inf))      # 1 ulp(double)
                if abs(v) < 3e38: add(_next32(v, True)); add(_next32(v, False))                  # 1 ulp(float)
            v = sgn * k
            add(v + 1e-10); add(v - 1e-10); add(v + 5e-11 * max(1, k)); add(v - 5e-11 * max(1, k))   # inside float epsilon, outside double's
    for x in (7.00000000005, -0.9999999999, -41.9999999999, 128.0000000001, 1e15 + 0.5, 2.0 ** 52 + 0.5, 0.49999999999999994,
              -0.49999999999999994, 0.1, -3.7, 1.25, 5.999999999, 6.000000001,
              5e-324, -5e-324, 1e-310, -1e-310, 2.2250738585072014e-308, 1.401298464324817e-45, -1.401298464324817e-45,
              1.1754943508222875e-38, 1e-40, 0.0, -0.0, math.inf, -math.inf, math.nan, 1e300, -1e300, 3.4e38, -3.4e38,
              3.5e38, -3.5e38, 1.7976931348623157e308, -1.7976931348623157e308, 4294967296.5, -4294967296.5):
        add(x)
    seen = set(); out = []
    for v in vals:
        h = _hexd(v)
        if h not in seen: seen.add(h); out.append(h)
    return out


def adversarial_binary():
    e30 = 2.0 ** -30
    pairs = [(1 + e30, 1.0), (1.0, 1 + e30), (1 + e30, 1 + e30), (16777217.0, 1.0), (16777216.0, 1.0), (16777217.0, 16777217.0),
             (2.0 ** 53, 1.0), (2.0 ** 53 + 2, -2.0 ** 53), (0.1, 0.2), (1.0, 3.0), (1.0, 3 + 2.0 ** -40), (2.0, 3.0), (1e300, 1e10), (1e-300, 1e-10),
             (1e30, 1e-30), (-1e30, 1e30), (3e38, 3e38), (3e38, 1e-38), (1e-38, 1e-38), (1e-45, 1e-45), (5e-324, 2.0), (5e-324, 5e-324), (1e-310, 1e10),
             (math.inf, math.inf), (math.inf, -math.inf), (0.0, math.inf), (0.0, -0.0), (-0.0, -0.0), (-0.0, 0.0), (0.0, 0.0), (1.0, 0.0), (-1.0, 0.0),
             (1.0, -0.0), (math.nan, 1.0), (1.0, math.nan), (math.inf, 0.0), (7.00000000005, 7.0), (-0.9999999999, 1.0), (0.5, 0.49999999999999994),
             (1.0000001, 0.9999999), (123456789.0, 987654321.0), (1.0e15 + 0.5, 0.5), (2.0 ** 24 + 1, 2.0 ** 24 - 1), (1 + 2.0 ** -23, 1 - 2.0 ** -24),
             (1 + 2.0 ** -52, 1 - 2.0 ** -53), (3.0, 1 + 2.0 ** -23), (-7.5, 2.5), (1e20, 1.0), (1.0, 1e20), (4.0, 0.1)]
    return [(_hexd(a), _hexd(b)) for a, b in pairs]


def _windows(vals, N, rng):
    """lines of 2N-1 values = one full pack + a tail of N-1.  Pass 1 (windows starting at multiples of N) puts every value in
    a packed lane and the values of index residue 0..N-2 in a tail position; pass 2 (shifted by one) covers residue N-1"""
    v = list(vals); rng.shuffle(v)
    if N == 1: return [v[i:i + 3] for i in range(0, len(v), 3)]
    ext = v + v[:2 * N]
    return [ext[i + shift:i + shift + 2 * N - 1] for shift in (0, 1) for i in range(0, len(v), N)]


def gen_adversarial(rng, tier, add):
    UN = ["sqrt", "ceil", "floor", "relu", "relu6"]
    BIN = ["add", "subtract", "multiply", "divide"]
    uv = adversarial_unary(); bv = adversarial_binary()
    for ctx in ["sse", "avx", "v128", "v256", "v512", "simde", "none"]:
        for dt in ("f32", "f64"):
            N = lanes(ctx, dt) if ctx != "none" else 4
            for op in UN:
                if ctx == "none":
                    add("adversarial_unary", "unaryx S:%s S:%s S:%s L:%d S:%s" % (ctx, dt, op, len(uv), ",".join(uv)), ctx); continue
                # tail position t of a window line holds value index i+N+t: two passes with different shuffles put every value
                # in a packed lane (pass 1 windows step by N) and, with overwhelming multiplicity, in tail positions
                for w in _windows(uv, N, rng):
                    add("adversarial_unary", "unaryx S:%s S:%s S:%s L:%d S:%s" % (ctx, dt, op, len(w), ",".join(w)), ctx)
                if tier == "thorough":
                    for n in range(1, 4 * N + 2):
                        off = rng.randrange(len(uv))
                        w = [uv[(off + i) % len(uv)] for i in range(n)]
                        add("adversarial_unary", "unaryx S:%s S:%s S:%s L:%d S:%s" % (ctx, dt, op, n, ",".join(w)), ctx)
            for op in BIN:
                if ctx == "none":
                    add("adversarial_binary", "binaryx S:%s S:%s S:%s L:%d S:%s L:%d S:%s" % (ctx, dt, op, len(bv), ",".join(a for a, _ in bv), len(bv), ",".join(b for _, b in bv)), ctx); continue
                for w in _windows(bv, N, rng):
                    add("adversarial_binary", "binaryx S:%s S:%s S:%s L:%d S:%s L:%d S:%s" % (ctx, dt, op, len(w), ",".join(a for a, _ in w), len(w), ",".join(b for _, b in w)), ctx)
                # 2-d broadcast arm and scalar-broadcast lanes: (2,C) op (1,C), (2,C) op (2,1)
                C = 2 * N + 1
                w = [bv[(rng.randrange(len(bv)) + i) % len(bv)] for i in range(2 * C)]
                add("adversarial_binary", "binaryx S:%s S:%s S:%s L:2,%d S:%s L:1,%d S:%s" % (ctx, dt, op, C, ",".join(a for a, _ in w), C, ",".join(b for _, b in w[:C])), ctx)
                add("adversarial_binary", "binaryx S:%s S:%s S:%s L:2,%d S:%s L:2,1 S:%s" % (ctx, dt, op, C, ",".join(a for a, _ in w), ",".join(b for _, b in w[:2])), ctx)
                if tier == "thorough":
                    for n in range(1, 4 * N + 2):
                        off = rng.randrange(len(bv))
                        w = [bv[(off + i) % len(bv)] for i in range(n)]
                        add("adversarial_binary", "binaryx S:%s S:%s S:%s L:%d S:%s L:%d S:%s" % (ctx, dt, op, n, ",".join(a for a, _ in w), n, ",".join(b for _, b in w)), ctx)


def gen_layouts(rng, tier, add):
    """operand layout x result layout for every SIMD entry: r/c operands (ndarray / column_major ndarray), Row/ColumnMajorResolver;
    2-d and 3-d shapes whose size is and is not a multiple of the lanes; elements are compared by logical index"""
    for ctx in ["sse", "avx", "v128", "v256", "v512", "simde", "none"]:
        for dt in ("f32", "f64"):
            N = lanes(ctx, dt) if ctx != "none" else 4
            shapes = [(2, 3), (3, 5), (5, 3), (2, N), (3, N + 1), (N + 1, 2), (2, 2 * N + 1), (2, 3, N), (2, 3, N + 1), (3, 1, 5)]
            if tier == "quick" and N >= 8: shapes = [(3, 5), (2, N), (3, N + 1), (N + 1, 2), (2, 3, N + 1)]
            k = 0
            for shp in shapes:
                n = prod(shp)
                for lo in ("r", "c"):
                    for res in ("R", "C"):
                        add("layouts", "lay S:%s S:%s S:unary S:sqrt S:%s S:%s I:8 %s" % (ctx, dt, lo, res, A(shp, rng.sample(range(1, 40 * n), n))), ctx)
                for lo in ("rr", "cc", "cr"):
                    for res in ("R", "C"):
                        k += 1
                        bop = "subtract" if k % 2 else "add"
                        add("layouts", "lay S:%s S:%s S:binary S:%s S:%s S:%s I:2 %s %s" % (ctx, dt, bop, lo, res, A(shp, rng.sample(range(1, 50 * n), n)), A(shp, rng.sample(range(1, 50 * n), n))), ctx)
                        if len(shp) == 2 and shp[0] > 1 and shp[1] > 1:       # the broadcast arms
                            for other in ((1, shp[1]), (shp[0], 1)):
                                m = prod(other)
                                add("layouts", "lay S:%s S:%s S:binary S:subtract S:%s S:%s I:2 %s %s" % (ctx, dt, lo, res, A(shp, rng.sample(range(1, 50 * n), n)), A(other, rng.sample(range(1, 99), m))), ctx)
                for ax in range(len(shp)):
                    for lo in ("r", "c"):
                        for res in ("R", "C"):
                            k += 1
                            add("layouts", "lay S:%s S:%s S:reduce S:add S:%s S:%s I:1 %s I:%d S:%s" % (ctx, dt, lo, res, A(shp, [rng.randint(-20, 40) for _ in range(n)]), ax, "kT" if k % 2 else "kF"), ctx)
            for (l, r) in (((2, 2), (N + 1,)), ((3,), (2, N)), ((2, 3), (3, 2))):
                for lo in ("rr", "cc", "cr"):
                    for res in ("R", "C"):
                        add("layouts", "lay S:%s S:%s S:outer S:subtract S:%s S:%s I:1 %s %s" % (ctx, dt, lo, res, A(l, rng.sample(range(1, 99), prod(l))), A(r, rng.sample(range(100, 999), prod(r)))), ctx)


def gen_cases(rng, tier):
    out = []
    groups = _groups(tier)
    where = {}   # context -> driver keys holding a build of it
    for k, members in groups.items():
        for c, _ in members: where.setdefault(c, []).append(k)
    def add(stream, line, ctx):
        for k in where.get(ctx, []): out.append((stream, line, k))
    quick = tier == "quick"

    # ---------------- (a) index level
    for N in (4, 8, 16):
        for C in range(1, 4 * N + 2):
            for R in (1, 2, 3):
                for (l, r) in bc_patterns(R, C):
                    add("ix_binary_2d", "ix_b2dc I:%d %s %s %s" % (N, L((R, C)), L(l), L(r)), "ix")
                    if R <= 2: add("ix_binary_2d", "ix_b2d I:%d %s %s %s" % (N, L((R, C)), L(l), L(r)), "ix")
    for N in (2, 4, 8):
        for C in range(1, 2 * N + 2):
            shapes = [(C,), (1, C), (2, C), (3, C), (C, 2), (C, 3), (2, 3, C), (2, C, 2), (C, 1, 3), (1, 2, C), (2, 2, 2, C)]
            for shp in shapes:
                for ax in range(len(shp)):
                    kind = "H" if ax == len(shp) - 1 else "V"
                    add("ix_reduction", "ix_red I:%d S:%s %s I:%d" % (N, kind, L(shp), ax), "ix")
            for lhs in ((1,), (2,), (3,), (2, 2), (1, 3), (2, 1, 2)):
                for rhs in ((C,), (2, C), (1, C), (2, 1, C), (1, 2, C)):
                    add("ix_outer", "ix_outer I:%d %s %s" % (N, L(lhs), L(rhs)), "ix")

    # ---------------- (b) end to end, per context
    ctxs = ["avx", "sse", "v128", "v256", "v512", "simde"]
    UN = ["sqrt", "ceil", "floor", "relu", "relu6"]
    BIN = ["add", "subtract", "multiply", "divide"]
    def vals(n, lo=-20, hi=40): return [rng.randint(lo, hi) for _ in range(n)]
    def nz(n): return [rng.choice([-7, -3, -1, 1, 2, 3, 5, 9]) for _ in range(n)]
    def mulvals(n):
        v = [1] * n
        for i in rng.sample(range(n), min(n, rng.randint(0, 12))): v[i] = rng.choice([2, 2, -1, 3]) if rng.random() < 0.8 else 1
        # keep |product| <= 2^20
        while prod([abs(x) for x in v]) > (1 << 20): v[v.index(max(v, key=abs))] = 1
        return v
    cnt = 0
    for ctx in ctxs + ["none"]:
        for dt in ("f32", "f64"):
            N = lanes(ctx, dt) if ctx != "none" else 4
            top = 4 * N + 1
            sizes = list(range(1, top + 1))
            if quick and N >= 8: sizes = sorted(set(list(range(1, N + 3)) + [2 * N - 1, 2 * N, 2 * N + 1, 3 * N, 3 * N + 1, 4 * N - 1, 4 * N, 4 * N + 1]))
            if ctx == "none": sizes = [1, 3, 4, 5, 9, 17]
            for n in sizes:
                cnt += 1
                shapes = fold_shapes(n)
                shp = shapes[cnt % len(shapes)]
                op = UN[cnt % len(UN)]
                den = 8 if op == "sqrt" else (4 if op in ("ceil", "floor") else 2)
                data = vals(n, 0, 200) if op == "sqrt" else vals(n, -30, 30)
                add("unary", "unary S:%s S:%s S:%s I:%d %s" % (ctx, dt, op, den, A(shp, data)), ctx)
                add("unary", "unary S:%s S:%s S:sqrt I:8 %s" % (ctx, dt, A((n,), vals(n, 0, 500))), ctx)
                bop = BIN[cnt % len(BIN)]
                shp2 = shapes[(cnt // 2) % len(shapes)]
                add("binary_same", "binary S:%s S:%s S:%s I:%d %s %s" % (ctx, dt, bop, 4, A(shp2, vals(n)), A(shp2, nz(n))), ctx)
                # reductions, 1-d: axis None and axis 0 (both take the out_size == 1 arm)
                kd = ["kT", "kF", "kt", "kf"][cnt % 4]
                add("reduce_full", "reduce S:%s S:%s S:add I:1 %s N S:%s N" % (ctx, dt, A(shp, vals(n)), kd), ctx)
                add("reduce_full", "reduce S:%s S:%s S:add I:1 %s I:0 S:%s N" % (ctx, dt, A((n,), vals(n)), kd), ctx)
                add("reduce_full_multiply", "reduce S:%s S:%s S:multiply I:1 %s N S:%s N" % (ctx, dt, A(shp, mulvals(n)), kd), ctx)
            # 2-d broadcast patterns
            cols = range(1, 2 * N + 2) if not quick or N <= 4 else sorted(set([1, 2, N - 1, N, N + 1, 2 * N - 1, 2 * N, 2 * N + 1]))
            if ctx == "none": cols = [1, 3, 5]
            for C in cols:
                for R in (1, 2, 3):
                    for (l, r) in bc_patterns(R, C):
                        if l == r: continue
                        cnt += 1
                        bop = BIN[cnt % len(BIN)]
                        bad = ((l == (1, 1)) or (r == (1, 1))) and R > 1
                        stream = "binary_2d_1x1" if bad else "binary_2d"
                        add(stream, "binary S:%s S:%s S:%s I:2 %s %s" % (ctx, dt, bop, A(l, vals(prod(l))), A(r, nz(prod(r)))), ctx)
                # reductions over each axis of (R, C) and (2, R, C)-like shapes
                for shp in ((2, C), (3, C), (C, 3), (2, 3, C), (2, C, 2), (C, 2, 2)):
                    for ax in list(range(len(shp))) + [-1]:
                        cnt += 1
                        kd = ["kT", "kF", "kt", "kf"][cnt % 4]
                        rop = "add" if cnt % 3 else "multiply"
                        data = vals(prod(shp)) if rop == "add" else mulvals(prod(shp))
                        out_size = prod(shp) // shp[ax]
                        stream = "reduce_axis" if (out_size > 1 or rop == "add") else "reduce_full_multiply"
                        add(stream, "reduce S:%s S:%s S:%s I:1 %s I:%d S:%s N" % (ctx, dt, rop, A(shp, data), ax, kd), ctx)
                # outer
                for lhs in ((1,), (3,), (2, 2)):
                    for rhs in ((C,), (2, C)):
                        cnt += 1
                        oop = ["add", "multiply", "subtract"][cnt % 3]
                        add("outer", "outer S:%s S:%s S:%s I:2 %s %s" % (ctx, dt, oop, A(lhs, vals(prod(lhs))), A(rhs, vals(prod(rhs)))), ctx)
            if ctx == "none": continue
            # ---- streams aimed at the known defects (each must stay a tight class)
            for (R, C) in ((2, 3), (3, N + 1), (2, 2 * N)):
                d = vals(R * C, 1, 60)
                add("column_major", "unary S:%s S:%s S:sqrt I:1 %s S:col" % (ctx, dt, A((R, C), d)), ctx)
                add("column_major", "binary S:%s S:%s S:add I:1 %s %s S:col" % (ctx, dt, A((R, C), d), A((R, C), vals(R * C))), ctx)
                add("column_major", "binary S:%s S:%s S:add I:1 %s %s S:col" % (ctx, dt, A((R, C), d), A((1, C), vals(C))), ctx)
            for (l, r) in (((2, 3, N + 1), (3, N + 1)), ((2, 1, 3), (1, N, 3)), ((5,), (1, 5)), ((2, 2, 2, 3), (3,)), ((3,), (1,))):
                add("binary_refused", "binary S:%s S:%s S:add I:1 %s %s" % (ctx, dt, A(l, vals(prod(l), 1, 9)), A(r, vals(prod(r), 1, 9))), ctx)
            for shp, ax in (((2, N + 1), 1), ((3, N), 0), ((2 * N + 1,), 0), ((2, 2, 3), 1)):
                add("reduce_initial", "reduce S:%s S:%s S:add I:1 %s I:%d S:kT I:100" % (ctx, dt, A(shp, vals(prod(shp))), ax), ctx)
                add("reduce_initial", "reduce S:%s S:%s S:add I:1 %s N S:kF I:7" % (ctx, dt, A(shp, vals(prod(shp))), ), ctx)
            for shp, ax in (((2, 3, 2), -2), ((2, 3, N + 1), -3), ((3, N), -2)):
                add("reduce_negative_axis", "reduce S:%s S:%s S:add I:1 %s I:%d S:kT N" % (ctx, dt, A(shp, vals(prod(shp))), ax), ctx)
            sp = [900001, 900004, -1, 7, 3, 900002, 900003, 0] * (N // 2 + 1)
            add("special_values", "unary S:%s S:%s S:relu6 I:1 %s" % (ctx, dt, A((N + 2,), sp[:N + 2])), ctx)
            add("special_values", "unary S:%s S:%s S:relu I:1 %s" % (ctx, dt, A((N + 2,), sp[:N + 2])), ctx)
            add("special_values", "unary S:%s S:%s S:floor I:1 %s" % (ctx, dt, A((N + 2,), sp[:N + 2])), ctx)
            add("special_values", "binary S:%s S:%s S:multiply I:1 %s %s" % (ctx, dt, A((N + 2,), sp[:N + 2]), A((N + 2,), sp[1:N + 3])), ctx)
    gen_adversarial(rng, tier, add)
    gen_layouts(rng, tier, add)
    return out


def _arrs(line): return [tuple(int(x) for x in m.split(",")) for m in re.findall(r"A:([0-9,]*):", line)]


def nontrivial(line):
    if line.startswith("ix_"):
        return any(len([x for x in m.split(",") if x]) >= 2 for m in re.findall(r"L:([0-9,]*)", line))
    if line.startswith(("unaryx", "binaryx")):
        return any(prod([int(x) for x in m.split(",") if x]) > 4 for m in re.findall(r"L:([0-9,]*)", line))
    shp = _arrs(line)
    return any(len(s) >= 2 and prod(s) > 1 for s in shp) or any(prod(s) > 4 for s in shp)


def distribution(streams):
    ops = Counter(); ctx = Counter(); st = Counter()
    for s, line, _ in streams:
        t = line.split(" ")
        ops[t[0] + (":" + (t[3][2:] + "/" + t[4][2:] if t[0] == "lay" else t[3][2:]) if not t[0].startswith("ix_") else "")] += 1
        ctx[t[1][2:] if not t[0].startswith("ix_") else "index(N=%s)" % t[1][2:]] += 1
        st[s] += 1
    return {"ops": dict(ops), "contexts": dict(ctx), "streams": dict(st)}


def _norm(s): return " ".join(s.split())


def _elems(res):
    """('shape', [elements]) of an 'ok shape ; e,e,...' result, else None"""
    m = re.match(r"\s*ok\s*([0-9,]*)\s*;\s*(.*)$", res)
    if not m: return None
    return m.group(1), [x for x in m.group(2).replace(" ", "").split(",") if x]


def classify(line, impl, spec, model):
    t = line.split(" ")
    op = t[0]
    if t[1] == "S:none": return None
    # The one open class, decided against the model's EXACT prediction of the lane result (Simd.v LaneMax, h_c12.ml
    # lane_fns: x86/SIMDe max_sd(a,b) = a > b ? a : b; vector extensions fmax/fmin with the zero tie "a|b"):
    # relu / relu6 only, every element of impl must be (one of) the predicted bit pattern(s).
    if op in ("unary", "unaryx") and t[3] in ("S:relu", "S:relu6"):
        a, m = _elems(impl), _elems(model)
        if not a or not m or a[0] != m[0] or len(a[1]) != len(m[1]): return None
        if all(x in y.split("|") for x, y in zip(a[1], m[1])): return "relu_lane_op_differs_on_negzero_nan"
    return None
