"""C18 — isequal / isclose are exact comparison oracles (shape-aware, symmetric, total)."""
import hashlib, itertools, os, re
from collections import Counter

ID = "C18"
MODEL_MODULES = ["Base", "Index", "Compare"]
HANDLERS = ["h_c18.ml"]
CLAIM = dict(
    text=("Kernel-checked for every shape, every value and every nesting of optional / either / tuple operands, in both builds "
          "(NDEBUG and asserts on): utils::isequal and utils::isclose (public entries and detail:: entries) return exactly the "
          "structural comparison — same dimension, same shape, all elements equal / all |a-b| < eps; empty optional = empty "
          "optional, empty <> present; eithers alternative by alternative (with the caller's eps); tuples component by component — "
          "or the pairing is rejected at compile time; utils::apply_isequal / apply_isclose (the entry of the testing macros) agree "
          "with them, two empty optionals included; floating elements are finite values, infinities or NaN and closeness is the "
          "IEEE |a-b| < eps: a pair with a NaN or infinite member is never close (documented default, NaN/inf handling macros "
          "off), symmetric always, reflexive on finite elements; the answer is a function of (shape, values, eps) only — an operand "
          "compared with ITSELF (same object) is close exactly when eps > 0 and all its elements are finite; integer elements of different width compare by value (a comparison in a "
          "type where both values are representable is exact — proved; the code uses the wider type); the elements compared are the LOGICAL ones (by multi-index through apply_at): "
          "for two array objects (layout, shape, buffer) the answer depends only on the shapes and the logical element lists, "
          "whatever the two memory layouts (row-/column-major); both are reflexive, symmetric, return false on different length / "
          "dimension / shape, never abort and never read outside an operand. (Six repairs found here are in the tree: isclose's run-time shape "
          "test, eps forwarding and common-type difference; isequal's length/shape test and common-type element comparison; "
          "apply_*'s empty-optional arm.) REFUTED (known finding): an unsigned and a signed integer operand are compared in the signed "
          "common type, so uint8 200 equals int8 -56. "
          "Tied to the C++ by running both functions in three builds (NDEBUG, asserts+ASan+UBSan, NDEBUG+ASan) on all ordered pairs "
          "of shapes dim 1..3 extents 1..3, perturbations at every position, index arrays of four container kinds incl. "
          "compile-time constants, dynamic / fixed nested std::array / view operands in row-major AND column-major layout (every "
          "array form, mixed-layout pairs in both orders, equal / perturbed at every position / buffer-identical-but-logically-"
          "different partners), optionals, eithers, tuples, both argument orders."),
    ref="5.18", technique="Coq proof (double structural induction over the operand universe, generic over the outcome relation) + "
                          "differential correspondence with the extracted model in three builds", extra="")
RULE = ("all ordered pairs of shapes dim 1..3 extents 1..3 (39x39) with iota data through isequal and isclose (dynamic operands; "
        "view / reshape-view / fixed nested std::array kinds rotating); every shape with one element perturbed at every position "
        "(+-1, +-eps); every shape of dim >= 2 in 7 ordered pairings of row-major / column-major owners and views (equal, one "
        "position perturbed at every position, and the partner whose column-major buffer equals the other one's row-major buffer); "
        "maybe / either / tuple forms with random mixed layouts; isclose with NaN, +-inf, -0.0, a denormal, +-DBL_MAX, +-FLT_MAX at every "
        "position of every shape of dim <= 2 (and sampled dim 3) in either operand or both, double and float arrays, all scalar pairs, "
        "and through maybe / either / tuple / apply forms; ALIASING: the same object as both operands for every operand kind (and the same "
        "call on a copy), finite and non-finite contents at every position, eps in {0, negative, 0.25, 0.5, 100}, isequal / isclose / apply_*; "
        "index arrays (vector<int>, vector<size_t>, std::array, tuple, ct tuple) in every ordered kind pairing with "
        "equal / prefix / longer / perturbed contents through utils::isequal and utils::detail::isequal; index array vs 1-d/2-d "
        "ndarray; maybe x maybe, maybe x plain; either x either, either x plain, either x scalar; tuples of arrays, of "
        "maybe+scalar, maybe of tuple; both argument orders. non-trivial = some array operand of dim >= 2; distinct = distinct lines")
THEOREM_STATUS = {
    "proved": ["C18_isequal_is_structural_equality", "C18_isequal_never_aborts_or_reads_outside", "C18_isequal_reflexive",
               "C18_isequal_symmetric", "C18_isequal_different_shape_is_false", "C18_isequal_different_length_is_false",
               "C18_isequal_maybe_either_tuple", "C18_isclose_is_structural_closeness", "C18_isclose_never_aborts_or_reads_outside",
               "C18_isclose_reflexive_symmetric", "C18_isclose_different_shape_is_false", "C18_isclose_same_shape",
               "C18_reference_symmetric", "C18_layout_independent", "C18_isclose_nonfinite_elements", "C18_isclose_self_comparison",
               "C18_integer_comparison_exact_when_representable",
               "C18_apply_maybe_arm"],
    "partial": [],
    "refuted": ["C18_isequal_mixed_signedness_refuted"]}
ASSUMPTIONS = ["integer elements are mathematical integers in the model (= a comparison in a type that holds both operands, theorem "
               "C18_integer_comparison_exact_when_representable); meta::common_type_t's signed result for mixed signedness is the "
               "listed finding isequal-mixed-signedness-common-type",
               "utils::apply_isequal / apply_isclose are corresponded on the forms nn aa mm ma am tt tm against the same reference; "
               "only their maybe/maybe arm is modelled (apply_mm)",
"operands are well formed: extents >= 1, buffer length = product of extents, index arrays non-empty",
               "either alternatives are scalars / ndarray-kind integer containers / ndarrays, possibly optional (nested eithers and "
               "tuples inside an either are outside the domain; the header marks them TODO / unsupported)",
               "pair domain: no either anywhere, or no tuple-of-integers container anywhere (detail::same_concept never matches a "
               "tuple of integers against an either alternative)",
               "isclose elements are finite values on a common scale with eps (wire scale 4: exact binary fractions), +-infinity or "
               "NaN (reserved wire codes; -0.0 and a denormal are the value 0 on that grid, +-DBL_MAX / +-FLT_MAX huge finite values); "
               "the optional NMTOOLS_ISCLOSE_NAN_HANDLING / _INF_HANDLING (off by default) are not modelled",
               "a general tuple against a fixed-size integer container is not modelled (never generated)"]

_here = os.path.dirname(os.path.abspath(__file__))
def _src_hash():
    p = os.path.join(_here, "..", "..", "drivers", "c18.cpp")
    return hashlib.sha256(open(p, "rb").read()).hexdigest()[:12]


def drivers(tier):
    h = "-DC18_SRC_HASH=0x" + _src_hash()
    return {"c18": [("c18.cpp", "ndebug", ()),
                    ("c18.cpp", "asan", ("-DVD_LIGHT",)),
                    ("c18_nasan.cpp", "ndebug", ("-DVD_LIGHT", "-g", "-fsanitize=address", h))]}


def L(v): return "L:" + ",".join(str(x) for x in v)
def prod(s):
    n = 1
    for x in s: n *= x
    return n
def A(shape, data=None, scale=1):
    n = prod(shape)
    if data is None: data = [scale * i for i in range(n)]
    return "A:%s:%s" % (",".join(map(str, shape)), ",".join(map(str, data)))

FIX = {(2, 3), (3, 2), (2, 2), (6,)}
# tag -> (bits, signed, (min, max))
INT_TYPES = {"i8": (8, True, (-128, 127)), "u8": (8, False, (0, 255)), "i16": (16, True, (-2 ** 15, 2 ** 15 - 1)),
             "u16": (16, False, (0, 2 ** 16 - 1)), "i32": (32, True, (-2 ** 31, 2 ** 31 - 1)), "i64": (64, True, (-2 ** 63, 2 ** 63 - 1))}
def _wrap(v, bits, signed):
    m = v % (1 << bits)
    return m - (1 << bits) if signed and m >= (1 << (bits - 1)) else m
def _meta_common(ta, tb):        # meta::common_type_t: the wider (the right one on a tie), signed when either is signed
    (ba, sa, _), (bb, sb, _) = INT_TYPES[ta], INT_TYPES[tb]
    return (ba if ba > bb else bb, sa or sb)
IDX_KINDS = ["vec", "vecu", "arr", "tup", "ct"]
CT = {(2, 3), (3, 2), (2, 3, 4), (6,), (4, 3), (2, 9, 4)}


def gen_cases(rng, tier):
    out = []
    def add(stream, line): out.append((stream, line, "c18"))
    def both(stream, form, args, eps=(2,)):
        add(stream, "eq_%s %s" % (form, " ".join(args)))
        for e in eps: add(stream, "cl_%s %s I:%d" % (form, " ".join(args), e))
    def lay():   # memory layouts of the two operands' arrays: mostly mixed
        return rng.choice(["", ".rc", ".cr", ".cc", ".rc", ".cr"])
    shapes = []
    for d in (1, 2, 3): shapes += list(itertools.product((1, 2, 3), repeat=d))
    # ---- all ordered pairs of shapes, iota data (equal on the common flat prefix: the hardest case for a flat compare)
    n = 0
    for a in shapes:
        for b in shapes:
            n += 1
            ka = kb = "dyn"
            if n % 5 == 1: ka = "ref"
            if n % 5 == 2: kb = "rsh"
            if n % 7 == 3: ka = "rsh"
            if n % 11 == 4: ka = "col"
            if n % 11 == 6: kb = "col"
            if n % 13 == 5: ka = "cref"
            if a in FIX and b in FIX: ka = kb = "fix" if n % 2 else "dyn"
            elif a in FIX and n % 3 == 0: ka = "fix"
            elif b in FIX and n % 3 == 1: kb = "fix"
            # wire data scaled by 4 so that eps 2 (=0.5) is well below one unit
            both("shape-pairs", "aa", ["S:" + ka, "S:" + kb, A(a, scale=4), A(b, scale=4)])
    # ---- perturbation at every position
    for a in shapes:
        base = [4 * i for i in range(prod(a))]
        for pos in range(len(base)):
            for delta in (1, -1, 2, 3, -8):
                if tier == "quick" and delta in (3, -8) and pos % 2: continue
                d2 = list(base); d2[pos] += delta
                k = rng.choice(["dyn", "dyn", "ref", "rsh", "col", "col", "cref"] + (["fix"] if a in FIX else []))
                args = ["S:" + rng.choice(["dyn", "dyn", "col"]), "S:" + k, A(a, base), A(a, d2)]
                both("perturb", "aa", args, eps=(2, 3))
                both("perturb", "aa", [args[1], args[0], args[3], args[2]], eps=(2,))
    # ---- mixed memory layouts: the comparison is of LOGICAL elements.  Every shape of dim >= 2, every ordered pairing of
    # row-major / column-major owners (and views of them): equal content, one element perturbed at every position, and the
    # "aliased" partner whose column-major buffer is byte-identical to the first operand's row-major buffer
    def col_offset(idx, shp):
        o = 0; st = 1
        for i, e in zip(idx, shp): o += i * st; st *= e
        return o
    for a in shapes:
        if len(a) < 2: continue
        base = [4 * (i + 1) for i in range(prod(a))]
        alias = [base[col_offset(idx, a)] for idx in itertools.product(*[range(e) for e in a])]
        for ka, kb in (("dyn", "col"), ("col", "dyn"), ("col", "col"), ("col", "ref"), ("cref", "dyn"), ("rsh", "col"), ("cref", "col")):
            both("layouts", "aa", ["S:" + ka, "S:" + kb, A(a, base), A(a, base)])
            both("layouts", "aa", ["S:" + ka, "S:" + kb, A(a, base), A(a, alias)])
            both("layouts", "aa", ["S:" + ka, "S:" + kb, A(a, alias), A(a, base)])
            for pos in range(len(base)):
                d2 = list(base); d2[pos] += 1 if pos % 2 else -3
                both("layouts", "aa", ["S:" + ka, "S:" + kb, A(a, base), A(a, d2)])
                if ka != kb: both("layouts", "aa", ["S:" + ka, "S:" + kb, A(a, d2), A(a, base)])
    # ---- index arrays: every ordered kind pairing
    lists = [(2, 3), (2, 3, 4), (3, 2), (6,), (2,), (2, 3, 4, 5), (2, 4), (2, 3, 5), (7,), (1, 1, 1),
             (4, 3), (5, 3, 4), (2, 9, 4), (9, 3, 4, 5), (2, 9, 4, 5), (2, 3, 9, 5), (2, 3, 4, 9)]   # one position perturbed, every position
    for ka in IDX_KINDS:
        for kb in IDX_KINDS:
            for x in lists:
                for y in lists:
                    if ka == "ct" and x not in CT: continue
                    if kb == "ct" and y not in CT: continue
                    args = ["S:" + ka, "S:" + kb, L(x), L(y)]
                    add("index-arrays", "eq_ii " + " ".join(args))
                    add("index-arrays", "eq_dii " + " ".join(args))
                    if ka in ("vec", "arr", "tup") and kb in ("vec", "arr", "tup") and rng.random() < 0.5:
                        add("index-arrays", "cl_ii %s I:%d" % (" ".join(args), rng.choice([1, 4, 5])))
    # ---- index array against ndarray
    for k in ("vec", "vecu", "arr", "tup"):
        for x in lists:
            for shp in [(len(x),), (len(x) + 1,), (1, len(x)), (len(x), 1), (2, 2)]:
                if prod(shp) == len(x): datas = [list(x), [v + (1 if i == len(x) - 1 else 0) for i, v in enumerate(x)]]
                else: datas = [(list(x) + [9, 9, 9, 9])[:prod(shp)]]
                for dt in datas:
                    ly = rng.choice(["", "", ".rc", ".cr", ".cc"])
                    add("idx-vs-array", "eq_ia%s S:%s %s %s" % (ly, k, L(x), A(shp, dt)))
                    add("idx-vs-array", "eq_ai%s S:%s %s %s" % (ly, k, A(shp, dt), L(x)))
                    if k in ("vec", "arr"):
                        d4 = [4 * v for v in dt]
                        add("idx-vs-array", "cl_ia S:%s %s %s I:2" % (k, L(x), A(shp, d4)))
                        add("idx-vs-array", "cl_ai S:%s %s %s I:2" % (k, A(shp, d4), L(x)))
    # ---- non-finite and extreme floating elements (isclose): NaN, +-inf, -0.0, a denormal, +-DBL_MAX, +-FLT_MAX at every
    # position, in either operand or both, double and float arrays, through every operand form.  A NaN or infinite difference
    # is not below eps (the documented default: NMTOOLS_ISCLOSE_NAN_HANDLING / _INF_HANDLING off).
    NAN, PINF, NINF, NZERO, DENORM, MAX, NMAX, FMAX, NFMAX = range(9000001, 9000010)
    specials = [NAN, PINF, NINF, NZERO, DENORM, MAX, NMAX, FMAX, NFMAX]
    partners = {NAN: [NAN, PINF, 8], PINF: [PINF, NINF, MAX], NINF: [NINF, NMAX], NZERO: [0, DENORM], DENORM: [0, 4], MAX: [MAX, NMAX, FMAX],
                NMAX: [NMAX], FMAX: [FMAX, NFMAX], NFMAX: [NFMAX]}
    def fl(add_to, form, args, e): add(add_to, "cl_%s %s I:%d" % (form, " ".join(args), e))
    nf_shapes = [sh for sh in shapes if len(sh) <= 2] + rng.sample([sh for sh in shapes if len(sh) == 3], 6 if tier == "quick" else 27)
    for a in nf_shapes:
        base = [4 * (i + 1) for i in range(prod(a))]
        for pos in range(len(base)):
            for sp in specials:
                x = list(base); x[pos] = sp
                dbl_only = sp in (MAX, NMAX)                       # not representable in a float array
                kinds = ["dyn", "ref", "col", "rsh"] + ([] if dbl_only else ["dynf", "dynf"])
                ka, kb = rng.choice(kinds), rng.choice(kinds)
                e = rng.choice([2, 3])
                fl("nonfinite", "aa", ["S:" + ka, "S:" + kb, A(a, x), A(a, base)], e)       # special in the first operand only
                fl("nonfinite", "aa", ["S:" + kb, "S:" + ka, A(a, base), A(a, x)], e)       # ... in the second only
                for q in partners[sp]:
                    if q in (MAX, NMAX) and "dynf" in (ka, kb): ka = kb = "dyn"
                    y = list(base); y[pos] = q
                    fl("nonfinite", "aa", ["S:" + ka, "S:" + kb, A(a, x), A(a, y)], e)   # both operands special at the same position
    for sp in specials:
        for q in specials + [0, 8]:
            if q in (MAX, NMAX): continue                                                  # the second scalar is a float
            fl("nonfinite", "nn", ["I:%d" % sp, "I:%d" % q], 2)
            if sp not in (MAX, NMAX): fl("nonfinite", "nn", ["I:%d" % q, "I:%d" % sp], 2)
    nfpool = [A((2, 2), [4, sp, 12, 16]) for sp in specials] + [A((2, 2), [4, 8, 12, 16]), A((1,), [NAN]), A((1,), [PINF]), A((1,), [8])]
    for _ in range(500 if tier == "quick" else 5000):
        x, y = rng.choice(nfpool), rng.choice(nfpool)
        if rng.random() < 0.4: y = x
        form = rng.choice(["mm", "ma", "am", "ee", "ea", "ae", "tt", "tm"])
        e = rng.choice([1, 2, 3])
        if form == "tt": fl("nonfinite", "tt" + lay(), [x, rng.choice(nfpool), y, rng.choice(nfpool)], e)
        elif form == "tm": fl("nonfinite", "tm" + lay(), [x, "I:%d" % rng.choice([8, NAN, PINF]), y, "I:%d" % rng.choice([8, NAN, PINF])], e)
        else: fl("nonfinite", form + lay(), [x, y], e)
    for sp in specials:
        if sp in (MAX, NMAX): continue
        for q in (sp, 8):
            fl("nonfinite", "en", ["I:%d" % sp, "I:%d" % q], 3); fl("nonfinite", "ne", ["I:%d" % q, "I:%d" % sp], 3)
            fl("nonfinite", "ee", ["I:%d" % sp, "I:%d" % q], 3)
            add("nonfinite", "acl_mm %s %s I:1" % (A((1,), [sp]), A((1,), [q])))
    # ---- ALIASING: the same object as both operands (by reference).  The result is a function of (shape, values, eps) only, so
    # an aliased call must agree with the call on a copy: every operand kind, finite and non-finite contents at every position,
    # eps in {0, negative, default-like, large}; isequal, isclose and the apply_* entries
    self_kinds = ["dyn", "ref", "col", "cref", "rsh", "vec1", "dynf"]
    for n, a in enumerate(shapes):
        base = [4 * (i + 1) for i in range(prod(a))]
        ks = self_kinds + (["fix"] if a in FIX else [])
        for k in ks:
            if k != "dynf": add("aliasing", "eq_sf S:%s %s" % (k, A(a, base)))
            for e in (0, -2, 1, 2, 400):
                add("aliasing", "cl_sf S:%s %s I:%d" % (k, A(a, base), e))
                if k in ("dyn", "col", "dynf"): add("aliasing", "cl_aa S:%s S:%s %s %s I:%d" % (k, k, A(a, base), A(a, base), e))   # the copy
        add("aliasing", "aeq_sf S:%s %s" % (ks[n % len(ks)] if ks[n % len(ks)] not in ("dynf", "fix") else "dyn", A(a, base)))
        add("aliasing", "acl_sf S:%s %s I:1" % (rng.choice(["dyn", "ref", "col"]), A(a, base)))
        if len(a) > 2 and n % 3: continue
        for pos in range(len(base)):
            for sp in specials:
                x = list(base); x[pos] = sp
                k = rng.choice([q for q in ks if not (q == "dynf" and sp in (MAX, NMAX)) and q != "fix"])
                for e in (2, 400, 0):
                    add("aliasing", "cl_sf S:%s %s I:%d" % (k, A(a, x), e))
                k2 = k if k in ("dyn", "col", "dynf") else "dyn"
                add("aliasing", "cl_aa S:%s S:%s %s %s I:400" % (k2, k2, A(a, x), A(a, x)))                                       # the copy
                if sp in (NAN, PINF): add("aliasing", "acl_sf S:dyn %s I:1" % A(a, x))
    for x in nfpool:
        for e in (0, 2, 400):
            add("aliasing", "cl_sfm %s I:%d" % (x, e)); add("aliasing", "cl_sfe %s I:%d" % (x, e))
            add("aliasing", "cl_sft %s %s I:%d" % (x, rng.choice(nfpool), e))
        add("aliasing", "acl_sfm %s I:1" % x); add("aliasing", "acl_sft %s %s I:1" % (x, rng.choice(nfpool)))
    for x in ("N", "I:8", "I:%d" % NAN):
        if x != "N": add("aliasing", "cl_sfe %s I:2" % x); add("aliasing", "eq_sfe %s" % (x if x == "I:8" else "I:8"))
        else: add("aliasing", "cl_sfm N I:2"); add("aliasing", "eq_sfm N"); add("aliasing", "aeq_sfm N")
    # ---- integer element types of different width / signedness: values that differ by a multiple of 2^8, 2^16, 2^32
    for ta in INT_TYPES:
        for tb in INT_TYPES:
            (la, ha), (lb, hb) = INT_TYPES[ta][2], INT_TYPES[tb][2]
            cands = set()
            for x in (1, 5, 100, -3, 200, 40000, -1, 0, 127, 255):
                if not (la <= x <= ha): continue
                for y in (x, x + 256, x - 256, x + 65536, x - 65536, x + 2 ** 32, x - 2 ** 32, x + 1):
                    if lb <= y <= hb: cands.add((x, y))
            for x, y in sorted(cands):
                for form in ("vec", "nd", "sc"):
                    xs, ys = ([x, 2], [y, 2]) if form != "sc" else ([x], [y])
                    add("int-widths", "eq_wi S:%s S:%s S:%s %s %s" % (ta, tb, form, L(xs), L(ys)))
                if abs(x) < 2 ** 20 and abs(y) < 2 ** 20 and rng.random() < 0.3:
                    add("int-widths", "cl_wi S:%s S:%s S:nd %s %s I:2" % (ta, tb, L([4 * x, 8]), L([4 * y, 8])) if (la <= 4 * x <= ha and lb <= 4 * y <= hb) else
                        "cl_wi S:%s S:%s S:sc %s %s I:2" % (ta, tb, L([x]), L([y])))
    # ---- the entry the testing macros use: utils::apply_isequal / apply_isclose (optionals incl. empty/empty, tuples, arrays)
    apool = [A((2, 3), scale=4), A((3, 2), scale=4), A((2, 3), [0, 4, 8, 12, 16, 21]), A((1,), [8]), A((2,), [8, 8])]
    amp = ["N"] + apool
    for x in amp:
        for y in amp:
            add("apply", "aeq_mm %s %s" % (x, y)); add("apply", "acl_mm %s %s I:1" % (x, y))
            if y != "N":
                add("apply", "aeq_ma %s %s" % (x, y)); add("apply", "aeq_am %s %s" % (y, x)); add("apply", "acl_ma %s %s I:1" % (x, y))
            if x != "N" and y != "N":
                add("apply", "aeq_aa S:dyn S:%s %s %s" % (rng.choice(["dyn", "ref", "col"]), x, y))
                add("apply", "acl_aa S:dyn S:%s %s %s I:1" % (rng.choice(["dyn", "ref", "col"]), x, y))
                add("apply", "aeq_tt %s %s %s %s" % (x, y, rng.choice([x, y]), y))
            for i1, i2 in ((8, 8), (8, 9)):
                add("apply", "aeq_tm %s I:%d %s I:%d" % (x, i1, y, i2)); add("apply", "acl_tm %s I:%d %s I:%d I:1" % (x, i1, y, i2))
    for a_, b_ in ((3, 3), (3, 4), (-1, -1)): add("apply", "aeq_nn I:%d I:%d" % (a_, b_))
    # ---- scalars
    for a in (-3, 0, 4, 5, 8):
        for b in (-3, 0, 4, 6, 8):
            add("scalars", "eq_nn I:%d I:%d" % (a, b))
            for e in (1, 2, 3, 5): add("scalars", "cl_nn I:%d I:%d I:%d" % (a, b, e))
    # ---- optionals, eithers, tuples over a pool of arrays
    pool = [A((2, 3), scale=4), A((3, 2), scale=4), A((6,), scale=4), A((2, 2), scale=4), A((2, 3), [0, 4, 8, 12, 16, 21]),
            A((2, 3), [0, 4, 8, 12, 16, 22]), A((1,), [8]), A((1,), [9]), A((2,), [8, 8])]
    mp = ["N"] + pool
    for x in mp:
        for y in mp:
            both("maybe", "mm" + lay(), [x, y], eps=(2, 3))
            if y != "N": both("maybe", "ma" + lay(), [x, y]); both("maybe", "am" + lay(), [y, x])
    ep = pool + ["I:8", "I:9", "I:10"]
    for x in ep:
        for y in ep:
            both("either", "ee" + lay(), [x, y], eps=(1, 3))
            if not y.startswith("I:"): both("either", "ea" + lay(), [x, y], eps=(1, 3)); both("either", "ae" + lay(), [y, x], eps=(1, 3))
            else: both("either", "en" + lay(), [x, y], eps=(1, 3)); both("either", "ne" + lay(), [y, x], eps=(1, 3))
    nt = 300 if tier == "quick" else 3000
    for _ in range(nt):
        a, b, c, d = (rng.choice(pool) for _ in range(4))
        if rng.random() < 0.5: c = a
        if rng.random() < 0.5: d = b
        both("tuple", "tt" + lay(), [a, b, c, d])
        m1, m2 = rng.choice(mp), rng.choice(mp)
        if rng.random() < 0.5: m2 = m1
        i1 = rng.choice([8, 9]); i2 = i1 if rng.random() < 0.6 else rng.choice([8, 9, 10])
        both("tuple", "tm" + lay(), [m1, "I:%d" % i1, m2, "I:%d" % i2])
        both("tuple", "mt" + lay(), [m1, "I:%d" % i1, m2, "I:%d" % i2])
    if tier == "thorough":
        # random pairs with random data: dims 1..4, extents 1..4
        for _ in range(20000):
            a = tuple(rng.randint(1, 4) for _ in range(rng.randint(1, 4)))
            b = a if rng.random() < 0.5 else tuple(rng.randint(1, 4) for _ in range(rng.randint(1, 4)))
            da = [4 * rng.randint(0, 3) for _ in range(prod(a))]
            db = list(da) if (a == b and rng.random() < 0.5) else [4 * rng.randint(0, 3) + rng.choice([0, 0, 0, 1]) for _ in range(prod(b))]
            both("random", "aa", ["S:" + rng.choice(["dyn", "col"]), "S:" + rng.choice(["dyn", "ref", "rsh", "col", "cref"]), A(a, da), A(b, db)], eps=(rng.choice([1, 2, 5]),))
    return out


def _ops(line):
    toks = line.split(" ")
    op = toks[0]; args = toks[1:]
    if op.startswith("cl_"): args = args[:-1]
    args = [a for a in args if not a.startswith("S:")]
    return op, args

def _shape(tok):
    if tok.startswith("A:"): return tuple(int(x) for x in tok[2:].split(":")[0].split(","))
    if tok.startswith("L:"): return (len(tok[2:].split(",")),)
    return None

def shape_mismatch(line):
    op, args = _ops(line)
    h = len(args) // 2
    for x, y in zip(args[:h], args[h:]):
        sx, sy = _shape(x), _shape(y)
        if sx is not None and sy is not None and sx != sy: return True
    return False


def nontrivial(line):
    return any(len(s) >= 2 for s in (_shape(t) for t in line.split(" ")) if s is not None)


def distribution(streams):
    ops = Counter(); mism = Counter()
    for _, line, _ in streams:
        ops[line.split(" ")[0]] += 1
        mism["shape-mismatch" if shape_mismatch(line) else "same-shape"] += 1
    return {"ops": dict(ops), "shapes": dict(mism)}


def classify(line, impl, spec, model):
    """the only listed class: mixed signedness through meta::common_type_t.  (Repaired and therefore violations if they
    return: narrowing of integer elements of different width, apply_* dereferencing two empty optionals, isclose's shape
    test / eps forwarding / unsigned difference.)"""
    t = line.split(" "); op = t[0]
    if op == "eq_wi" and spec == "ok 0" and impl == "ok 1":
        ta, tb = t[1][2:], t[2][2:]
        x = [int(v) for v in t[4][2:].split(",")]; y = [int(v) for v in t[5][2:].split(",")]
        ty = _meta_common(ta, tb)
        # the common type is signed and no wider than the unsigned operand (u8 200 vs i8 -56; u16 65535 vs i8 -1)
        if INT_TYPES[ta][1] != INT_TYPES[tb][1] and len(x) == len(y) and all(_wrap(a, *ty) == _wrap(b, *ty) for a, b in zip(x, y)):
            return "isequal-mixed-signedness-common-type"
    return None
