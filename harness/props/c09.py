"""C09 — results are independent of container kind and of compile- vs run-time knowledge.

The C++ side is GENERATED (container kinds and compile-time constants are types): for every
(index function, argument values) the generated translation unit calls the real function once per
container kind — std::vector, std::array, utl::static_vector, utl::vector, run-time std::tuple and utl::tuple, raw C array,
tuple of compile-time constants, tuple of clipped integers, plus constexpr evaluation — and prints one
line "kind=result;kind=result;...".  The extracted model (where one exists: the Index / Broadcast
functions proved in C01 / C06) gives the ideal result; otherwise the std::vector row is the reference.
"""
import hashlib, os, random, re, sys
from collections import Counter
from harness import core
from harness.props import c01

ID = "C09"
MODEL_MODULES = ["Base", "Index", "Broadcast", "Views", "Select", "KindIndep"]
HANDLERS = ["h_c09.ml"]
TWO_STAGE = True
CLAIM = dict(
    text=("Kernel-checked: a result stored into a container of any kind (element width w, optional capacity, optional per-element clip "
          "bounds) equals the ideal mathematical result whenever the result fits that kind, hence any two kinds that fit agree "
          "(failure included); instantiated for compute_strides / product / compute_offset / compute_indices (with the no-wrap guard of "
          "C01) and broadcast_shape; the compile-time branch applies the same function to the constants' values. The substance is the "
          "correspondence: GENERATED drivers call 18 index functions of the real library once per container kind (std::vector of size_t "
          "and int, std::array, utl::static_vector, utl::vector, run-time tuple, raw C array, tuple of compile-time constants, tuple of "
          "clipped integers, constexpr evaluation with constant and std::array arguments, and mixed pairs) on seeded valid argument "
          "values; every kind must report the same success flag and values as the extracted model (or the std::vector reference)."),
    ref="5.9", technique="Coq proof (fit guard) + generated-driver differential correspondence across container kinds",
    extra="Partial by nature: which `if constexpr` arm a container type selects is observed per instantiation, not proved; "
          "compilers other than g++ 12 and the NMTOOLS_DISABLE_STL configuration are not part of the quick tier.")
RULE = ("per tier a seeded set of argument values per function (quick 6, thorough 12 value sets x 18 functions), each instantiated for "
        "every container kind the function accepts (rows rejected at compile time are reported as compile-rejected and not counted); "
        "non-trivial = list argument of length >= 2; distinct = distinct (function, values) case")
THEOREM_STATUS = {"proved": ["C09_fit_implies_ideal", "C09_kinds_agree", "C09_index_functions_kind_independent", "C09_broadcast_kind_independent",
                             "C09_constexpr_is_same_function", "C09_reshape_kind_independent", "C09_broadcast_to_kind_independent"], "partial": [], "refuted": ["C09_clipped_broadcast_refuted"]}
ASSUMPTIONS = ["a row whose instantiation is rejected by a static_assert of the library is an unsupported combination, not a violation"]

NPART = 4
GEN_DIR = os.path.join(core.BUILD, "gen")

# ---------------------------------------------------------------- value generators

def _shape(rng, d=None, lo=1, hi=4):
    if d is None and rng.random() < 0.25:            # ranks 5..7 (hand-unrolled tuple kinds change shape at 6 elements)
        d = rng.randint(5, 7); return [rng.randint(1, 3) + (k % 2) for k in range(d)]
    d = d or rng.randint(1, 4)
    return [rng.randint(lo, hi) for _ in range(d)]


def _values(fn, rng):
    """argument values (python) for one case of function fn; lists are lists, scalars ints, bools bool"""
    if fn in ("strides", "product", "reverse", "transpose_none"):
        return [_shape(rng)]
    if fn == "indices":
        s = _shape(rng); n = 1
        for e in s: n *= e
        return [rng.randrange(n), s]
    if fn == "offset":
        s = _shape(rng); st = []; p = 1
        for e in reversed(s): st.insert(0, p); p *= e
        return [[rng.randrange(e) for e in s], st]
    if fn == "bshape":
        t = _shape(rng, rng.randint(1, 4), 1, 6)
        def stretch():
            x = [1 if rng.random() < 0.4 else e for e in t]
            return x[rng.randint(0, len(x) - 1):]
        if rng.random() < 0.2:
            # incompatible: one axis (any position, compatible axes before AND after it when the rank allows) differs with neither 1
            a = list(t); b = list(t); k = rng.randrange(len(t)); a[k] = rng.randint(2, 4); b[k] = a[k] + rng.randint(1, 2)
            return [a, b[rng.randint(0, k):]]
        if len(t) >= 2 and rng.random() < 0.5:
            # "cross" pattern: each operand is 1 exactly where the other is large (the result exceeds both operands' extents
            # on some axis, which is where bounds inherited from ONE operand show)
            t = [max(e, 2) for e in t]
            m = [rng.random() < 0.5 for _ in t]
            if all(m) or not any(m): m[0] = not m[0]
            return [[1 if k else e for e, k in zip(t, m)], [e if k else 1 for e, k in zip(t, m)]]
        return [stretch(), stretch()]
    if fn == "bto":
        t = _shape(rng, rng.randint(1, 4), 1, 6)
        src = [1 if rng.random() < 0.4 else e for e in t][rng.randint(0, len(t) - 1):]
        r = rng.random()
        if r < 0.45:                                   # INVALID requests (every kind must reject)
            k = rng.randrange(len(src)); tk = t[len(t) - len(src) + k]; m = rng.choice(["above", "above", "below", "to1", "rank"])
            if m == "above": src[k] = tk + rng.randint(1, 2)          # source extent larger than the target extent
            elif m == "below" and tk > 2: src[k] = tk - 1
            elif m == "to1" and tk == 1: src[k] = rng.randint(2, 3)   # source extent > 1 onto a target extent 1
            elif m == "rank": src = [2] + t                            # source rank above the target rank
            else: src[k] = tk + 1
        return [src, t]
    if fn == "transpose":
        s = _shape(rng, rng.randint(2, 4)); p = list(range(len(s))); rng.shuffle(p)
        if len(s) >= 3 and rng.random() < 0.6:      # a permutation that is not its own inverse, distinct extents
            p = p[1:] + p[:1] if [p[k] for k in p] == list(range(len(p))) else p
            s = rng.sample(range(2, 7), len(s))
        return [s, p]
    if fn == "reshape":
        s = _shape(rng, rng.randint(1, 3)); n = 1
        for e in s: n *= e
        # a factorisation of n
        dst = []; rem = n
        for _ in range(rng.randint(0, 2)):
            divs = [k for k in range(1, rem + 1) if rem % k == 0]
            k = rng.choice(divs); dst.append(k); rem //= k
        dst.append(rem); rng.shuffle(dst)
        r = rng.random()
        if r < 0.3: dst[rng.randrange(len(dst))] = -1
        elif r < 0.75 and n >= 2:
            # INVALID request (must be rejected by every kind): element count a proper divisor / a multiple / off by one
            k = max(range(len(dst)), key=lambda q: dst[q]); m = rng.choice(["div", "div", "mul", "off", "neg", "neg"])
            if m == "neg":       # negative extents other than the single -1 placeholder; an even number of them keeps the PRODUCT equal to the
                                 # source element count, so only a sign check can reject the request
                fac = [(a, n // a) for a in range(2, n) if n % a == 0 and n // a >= 2]
                if fac:
                    a, b = rng.choice(fac); dst = [-a, -b] + ([1] if rng.random() < 0.3 else [])
                else: dst = [-2, -3]
                return [s, dst]
            ds = [q for q in range(1, dst[k]) if dst[k] % q == 0]
            if m == "div" and ds: dst[k] = rng.choice(ds)
            elif m == "mul": dst[k] *= rng.randint(2, 3)
            else: dst[k] += 1
        return [s, dst]
    if fn == "remove_dims":
        s = _shape(rng, rng.randint(2, 4))
        return [s, rng.randrange(len(s)), rng.random() < 0.5]
    if fn == "tile":
        s = _shape(rng, rng.randint(1, 3))
        return [s, [rng.randint(1, 3) for _ in s]]
    if fn == "normalize_axis":
        n = rng.randint(1, 4)
        return [rng.randint(-n - 2, n + 1), n]           # includes out-of-range axes (rejected)
    if fn == "normalize_axes":
        n = rng.randint(2, 4)
        return [[rng.randint(-n - (1 if rng.random() < 0.3 else 0), n - 1 + (1 if rng.random() < 0.3 else 0)) for _ in range(rng.randint(1, 2))], n]
    if fn == "expand_dims":
        s = _shape(rng, rng.randint(1, 3))
        return [s, sorted(rng.sample(range(len(s) + 1), 1))]
    if fn == "repeat":
        s = _shape(rng, rng.randint(1, 3))
        return [s, rng.randint(1, 3), rng.randrange(len(s))]
    if fn == "pad":
        s = _shape(rng, rng.randint(1, 3))
        return [s, [rng.randint(0, 2) for _ in range(2 * len(s))]]
    if fn == "concat":
        s = _shape(rng, rng.randint(1, 3)); ax = rng.randrange(len(s)); b = list(s); b[ax] = rng.randint(1, 4)
        return [s, b, ax]
    raise KeyError(fn)


FUNCS = ["strides", "product", "reverse", "transpose_none", "indices", "offset", "bshape", "bto", "transpose", "reshape",
         "remove_dims", "tile", "normalize_axis", "normalize_axes", "expand_dims", "repeat", "pad", "concat"]
CALL = {"strides": "ix::compute_strides({0})", "product": "ix::product({0})", "reverse": "ix::reverse({0})",
        "transpose_none": "ix::shape_transpose({0}, nm::None)", "indices": "ix::compute_indices({0}, {1})",
        "offset": "ix::compute_offset({0}, {1})", "bshape": "ix::broadcast_shape({0}, {1})", "bto": "bto_s({0}, {1})",
        "transpose": "ix::shape_transpose({0}, {1})", "reshape": "ix::shape_reshape({0}, {1})",
        "remove_dims": "ix::remove_dims({0}, {1}, {2})", "tile": "ix::shape_tile({0}, {1})",
        "normalize_axis": "ix::normalize_axis({0}, {1})", "normalize_axes": "ix::normalize_axis({0}, {1})",
        "expand_dims": "ix::shape_expand_dims({0}, {1})", "repeat": "ix::shape_repeat({0}, {1}, {2})",
        "pad": "ix::shape_pad({0}, {1})", "concat": "ix::shape_concatenate({0}, {1}, {2})"}

LIST_KINDS = ["vec", "veci", "arr", "sv", "svt", "uv", "tup", "utup", "raw", "ct", "cl"]


def _ct(v):
    return "%d_ct" % v if v >= 0 else "nm::meta::ct_v<%d>" % v


def _lit(kind, v, rng, rawdecl):
    """C++ expression of list value v in container kind `kind`"""
    signed = any(x < 0 for x in v)
    T = "int" if (signed or kind == "veci") else "size_t"
    body = ",".join(str(x) for x in v)
    if kind in ("vec", "veci"): return "std::vector<%s>{%s}" % (T, body)
    if kind == "arr": return "std::array<%s,%d>{%s}" % (T, len(v), body)
    if kind == "sv": return "SV<%s>({%s})" % (T, body)
    if kind == "svt": return "SVN<%s,%d>({%s})" % (T, max(len(v), 1), body)      # capacity == length (as a hybrid-shape ndarray has)
    if kind == "uv": return "UV<%s>({%s})" % (T, body)
    if kind == "tup": return "nmtools_tuple{%s}" % ",".join("(%s)%d" % (T, x) for x in v)
    if kind == "utup": return "nm::utl::tuple{%s}" % ",".join("(%s)%d" % (T, x) for x in v)    # the library's own tuple (STL-free builds)
    if kind == "bsv": return "BSV<%s,8>({%s})" % (T, body)                         # boost::container::static_vector, partially filled
    if kind == "bsvt": return "BSV<%s,%d>({%s})" % (T, max(len(v), 1), body)       # ... filled to its capacity
    if kind == "barr": return "boost::array<%s,%d>{{%s}}" % (T, len(v), body)
    if kind == "bsm": return "BSM<%s>({%s})" % (T, body)                           # boost::container::small_vector<T,4>
    if kind == "bvec": return "BVEC<%s>({%s})" % (T, body)                         # boost::container::vector
    if kind == "ct": return "nmtools_tuple{%s}" % ",".join(_ct(x) for x in v)
    if kind == "cl":
        if signed: return None
        return "nmtools_tuple{%s}" % ",".join('"%d:[%d]"_ct' % (x, max(x, 1) + rng.randint(0, 2)) for x in v)
    if kind == "raw":
        name = "raw%d" % len(rawdecl); rawdecl.append("%s %s[%d] = {%s};" % (T, name, len(v), body)); return name
    raise KeyError(kind)


def _scalar(kind, x):
    if isinstance(x, bool):
        return ("nm::True" if x else "nm::False") if kind in ("ct",) else ("true" if x else "false")
    return _ct(x) if kind == "ct" else str(x)


BOOST_KINDS = ["bsv", "bsvt", "barr", "bsm", "bvec"]


def _rows(fn, vals, rng, boost=False):
    """[(row name, [c++ lines])] for one case; boost=True: the rows of the Boost-enabled translation unit (NMTOOLS_ENABLE_BOOST)"""
    rows = []
    nlists = sum(1 for v in vals if isinstance(v, list))
    combos = [(k,) * nlists for k in (["vec"] + BOOST_KINDS if boost else LIST_KINDS)]
    if boost:
        if nlists == 0: return []
        if nlists == 2: combos += [("bsv", "vec"), ("vec", "bsv"), ("bsv", "barr"), ("bsm", "bsv")]
    elif nlists == 2:
        # mixed pairs: the result-type inference of the library depends on the PAIR of kinds (run-time x constant, bounded x
        # constant, clipped x constant, ...) so every pairing of a "static knowledge" family with another is instantiated
        combos += [("vec", "arr"), ("arr", "ct"), ("ct", "vec"), ("arr", "cl"), ("cl", "vec"), ("sv", "tup"),
                   ("sv", "ct"), ("ct", "sv"), ("cl", "ct"), ("ct", "cl"), ("uv", "ct"), ("tup", "ct"), ("ct", "arr"), ("sv", "arr"),
                   ("svt", "ct"), ("ct", "svt"), ("svt", "arr"), ("svt", "cl"), ("utup", "vec"), ("arr", "utup"), ("vec", "ct"), ("uv", "cl")]
    if nlists == 0 and not boost:
        combos = [("rt",), ("ct",)]
    for combo in combos:
        raw = []; args = []; ok = True; li = 0
        for v in vals:
            if isinstance(v, list):
                e = _lit(combo[li], v, rng, raw); li += 1
                if e is None: ok = False; break
                args.append(e)
            else:
                # scalars (axes ...) are compile-time constants when every list is a compile-time kind (constants and/or clipped integers)
                args.append(_scalar("ct" if all(c in ("ct", "cl") for c in combo) and "ct" in combo else "rt", v))
        if not ok: continue
        name = "-".join(combo) if len(set(combo)) > 1 else combo[0]
        call = CALL[fn].format(*args)
        rows.append((name, "{ %s ROW(\"%s\", %s) }" % (" ".join(raw), name, call)))
        # constexpr evaluation for the literal kinds
        if all(c in ("ct", "arr") for c in combo) and len(set(combo)) == 1:
            rows.append((name + ".cx", "{ constexpr auto r_ = %s; ROW(\"%s.cx\", r_) }" % (call, name)))
    return rows


PRELUDE = r'''// GENERATED by harness/props/c09.py — do not edit
#include "nmtools/array/index/compute_strides.hpp"
#include "nmtools/array/index/compute_offset.hpp"
#include "nmtools/array/index/compute_indices.hpp"
#include "nmtools/array/index/product.hpp"
#include "nmtools/array/index/broadcast_shape.hpp"
#include "nmtools/array/index/broadcast_to.hpp"
#include "nmtools/array/index/transpose.hpp"
#include "nmtools/array/index/reshape.hpp"
#include "nmtools/array/index/remove_dims.hpp"
#include "nmtools/array/index/tile.hpp"
#include "nmtools/array/index/normalize_axis.hpp"
#include "nmtools/array/index/expand_dims.hpp"
#include "nmtools/array/index/repeat.hpp"
#include "nmtools/array/index/pad.hpp"
#include "nmtools/array/index/reverse.hpp"
#include "nmtools/array/index/concatenate.hpp"
#include "nmtools/utl/static_vector.hpp"
#include "nmtools/utl/vector.hpp"
#include "nmtools/utl/tuple.hpp"
#include "show.hpp"
namespace ix = nmtools::index; using namespace vd; using namespace nm::literals;
template <typename R> static std::string sh(const R& r) {
  if constexpr (meta::is_fail_v<R>) return "unsupported";
  else if constexpr (meta::is_maybe_v<R>) { if (!nm::has_value(r)) return "nothing"; return sh(*r); }
  else if constexpr (std::is_same_v<R, std::string>) return r;
  else if constexpr (std::is_same_v<R, bool>) return r ? "1" : "0";
  else if constexpr (meta::is_tuple_v<R> && !meta::is_index_array_v<R>) {
    std::string s; meta::template_for<meta::len_v<R>>([&](auto i){ if (!s.empty()) s += "/"; s += sh(nm::at(r,i)); }); return s; }
  else return show_index(r);
}
// index::shape_broadcast_to(source shape, target shape): the accepted shape, "nothing" when rejected
template <typename A, typename B> static std::string bto_s(const A& a, const B& b) {
  auto r = ix::shape_broadcast_to(a, b); using R = decltype(r);
  if constexpr (meta::is_fail_v<R>) return "unsupported";
  else { if constexpr (meta::is_maybe_v<R>) { if (!nm::has_value(r)) return "nothing"; }
         const auto& [shp, free] = nm::unwrap(r); (void)free; return show_index(shp); } }
#define ROW(name, expr) try { s += std::string(name) + "=" + sh(expr) + ";"; } catch (std::exception& e_) { s += std::string(name) + "=trap-exception;"; }
template <typename T> static nm::utl::static_vector<T,8> SV(std::initializer_list<T> l){ nm::utl::static_vector<T,8> a; a.resize(l.size()); size_t i=0; for (auto x: l) a[i++]=x; return a; }
template <typename T, size_t N> static nm::utl::static_vector<T,N> SVN(std::initializer_list<T> l){ nm::utl::static_vector<T,N> a; a.resize(l.size()); size_t i=0; for (auto x: l) a[i++]=x; return a; }
template <typename T> static nm::utl::vector<T> UV(std::initializer_list<T> l){ nm::utl::vector<T> a; a.resize(l.size()); size_t i=0; for (auto x: l) a[i++]=x; return a; }
'''

_state = {}


def _generate(seed, tier):
    rng = random.Random(seed * 7919 + (1 if tier == "thorough" else 0))
    nsets = 6 if tier == "quick" else 12
    cases = []      # (fn, vals, rows)
    for fn in FUNCS:
        for _ in range(nsets * (3 if fn == "reshape" else 2 if fn in ("bshape", "bto", "transpose") else 1)):
            vals = _values(fn, rng)
            cases.append((fn, vals, _rows(fn, vals, rng)))
    # in every run: reshape requests whose product is right but whose extents are negative (not the -1 placeholder) — must be rejected by every kind
    for vals in ([[2, 3], [-2, -3]], [[1, 2, 1, 3], [-2, 1, -3]], [[4, 3], [-6, -2]], [[2, 2], [-4, -1, -1]]):
        cases.append(("reshape", vals, _rows("reshape", vals, rng)))
    return cases


def gen_for(funcs, nsets, rng, tier):
    """case lines for a chosen list of functions (used by other properties that borrow the generated-kinds machinery:
    C06 for broadcast_shape); the generated translation units are then built by drivers(tier) of this module"""
    r = random.Random(rng.randint(0, 10 ** 6) * 7919 + 3)
    cases = []
    for fn in funcs:
        for _ in range(nsets):
            vals = _values(fn, r); cases.append((fn, vals, _rows(fn, vals, r)))
    _state["cases"] = cases; _state["tier"] = tier
    return ["g I:%d S:%s %s" % (i, fn, " ".join(_fmt(v) for v in vals)) for i, (fn, vals, rows) in enumerate(cases)]


BOOST_PRELUDE = '''#define NMTOOLS_ENABLE_BOOST
#include <boost/array.hpp>
#include <boost/container/static_vector.hpp>
#include <boost/container/small_vector.hpp>
#include <boost/container/vector.hpp>
'''
BOOST_HELPERS = '''#include "nmtools/array/impl/boost.hpp"
template <typename T, size_t N> static boost::container::static_vector<T,N> BSV(std::initializer_list<T> l){ boost::container::static_vector<T,N> a; for (auto x: l) a.push_back(x); return a; }
template <typename T> static boost::container::small_vector<T,4> BSM(std::initializer_list<T> l){ boost::container::small_vector<T,4> a; for (auto x: l) a.push_back(x); return a; }
template <typename T> static boost::container::vector<T> BVEC(std::initializer_list<T> l){ boost::container::vector<T> a; for (auto x: l) a.push_back(x); return a; }
'''


def _write_part(cases, part, rejected):
    """source text of part `part` ("b": the Boost-enabled unit, all cases); returns (text, {line number: (case index, row name)})"""
    boost = part == "b"
    lines = ((BOOST_PRELUDE + PRELUDE + BOOST_HELPERS) if boost else PRELUDE).split("\n"); where = {}
    ids = [i for i in range(len(cases)) if boost or i % NPART == part]
    for i in ids:
        fn, vals, rows = cases[i]
        if boost: rows = _state["brows"][i]
        lines.append("static std::string case_%d() { std::string s;" % i)
        for name, code in rows:
            if (i, name) in rejected:
                lines.append("  s += \"%s=compile-rejected;\";" % name)
            else:
                lines.append("  " + code); where[len(lines)] = (i, name)
        lines.append("  return s; }")
    lines.append("static std::string handle(const Case& c) { int id = (int)c.args[0].val; switch (id) {")
    for i in ids: lines.append("  case %d: return case_%d();" % (i, i))
    lines.append("  default: return \"unsupported\"; } }")
    lines.append("int main() { return vd::run_main(handle, 16); }")
    return "\n".join(lines) + "\n", where


def _fmt(v):
    if isinstance(v, bool): return "I:%d" % (1 if v else 0)
    if isinstance(v, list): return "L:" + ",".join(map(str, v))
    return "I:%d" % v


def gen_cases(rng, tier):
    seed = rng.randint(0, 10 ** 6)
    cases = _generate(seed, tier)
    _state["cases"] = cases; _state["tier"] = tier
    out = []
    for i, (fn, vals, rows) in enumerate(cases):
        out.append(("kinds", "g I:%d S:%s %s" % (i, fn, " ".join(_fmt(v) for v in vals)), "c09"))
    _state["borrow_c01"] = True
    for stream, line, key in c01.gen_cases(rng, tier):
        out.append(("index-kinds/" + stream, line, "c01"))
    return out


def drivers(tier):
    """generate the translation units, stubbing out rows the library rejects at compile time (at most 4 passes)"""
    cases = _state.get("cases")
    if cases is None:          # replay path: regenerate deterministically from seed 0
        gen_cases(random.Random(int(os.environ.get("VERIF_SEED", "0") or 0)), tier); cases = _state["cases"]
    os.makedirs(GEN_DIR, exist_ok=True)
    specs = []; rejected = set(); _state["rejected"] = rejected
    rng_b = random.Random(12345)
    _state["brows"] = [_rows(fn, vals, rng_b, boost=True) for fn, vals, rows in cases]
    for part in list(range(NPART)) + ["b"]:
        for attempt in range(6 if _state.get("tier") != "thorough" else 12):
            text, where = _write_part(cases, part, rejected)
            path = os.path.join(GEN_DIR, "c09_p%s_%s.cpp" % (part, hashlib.sha256(text.encode()).hexdigest()[:12]))
            open(path, "w").write(text)
            spec = (path, "debug", ("-O0",))
            binp, log = core.build_driver(*spec)
            if binp is not None: break
            hit = set()
            for m in re.finditer(re.escape(os.path.basename(path)) + r":(\d+):", log):
                ln = int(m.group(1))
                if ln in where: hit.add(where[ln])
            if not hit: break            # not attributable to a row: a genuinely broken build, reported by core
            rejected |= hit
        specs.append(spec)
    out = {"c09": specs}
    # C01's stream runs compute_strides / compute_offset / compute_indices / ndindex / the layout functors through 10 container kinds
    # with 64- and 32-bit elements on small AND near-2^32 / 2^63 index spaces: "same result for every kind" at the edge of the numeric range
    if _state.get("borrow_c01", False): out["c01"] = [sp for sp in c01.drivers(tier)["c01"] if sp[1] == "ndebug"]
    return out


def model_for(dkey):
    return c01 if dkey == "c01" else sys.modules[__name__]


def nontrivial(line):
    if not line.startswith("g "): return c01.nontrivial(line) if hasattr(c01, "nontrivial") else True
    ls = re.findall(r"L:([0-9,\-]*)", line)
    return any(len(x.split(",")) >= 2 for x in ls)


def distribution(streams):
    fn = Counter()
    for _, line, _ in streams: fn[line.split(" ")[2][2:] if line.startswith("g ") else "c01:" + line.split(" ")[0]] += 1
    return {"function": dict(fn), "compile_rejected_rows": sorted("%d:%s" % r for r in _state.get("rejected", []))[:50],
            "rows_total": sum(len(c[2]) for c in _state.get("cases", []))}


def classify(line, impl, spec, model):
    if not line.startswith("g "):
        cls = c01.classify(line, impl, spec, model) if hasattr(c01, "classify") else None
        return ("c01:" + cls) if cls else None
    """known finding family: a tuple of clipped integers as argument — the result inherits per-position
    bounds from the operand and the ideal values are clamped to them (def.hpp clipped_integer_t)"""
    fi = dict(x.split("=", 1) for x in impl.strip().strip(";").split(";") if "=" in x)
    fs = dict(x.split("=", 1) for x in spec.strip().strip(";").split(";") if "=" in x)
    bad = [k for k in fs if fi.get(k) != fs[k]]
    if (" S:remove_dims " in line and line.rstrip().endswith("I:1") and bad
            and all((fi.get(k) == "trap-exception" and k.split(".")[0] in ("arr", "tup", "utup", "raw", "cl", "barr")) or k.split(".")[0] in ("svt", "bsvt") for k in bad)):
        return "remove_dims-runtime-keepdims-true-fixed-size-shape"
    def clamped(a, b):
        """a is b with some extents CLAMPED to a smaller value (same length, 1 <= a[i] <= b[i], a != b): the signature of the
        known defect (a result stored in clipped integers inherited from an operand); a larger value, another length, an
        accepted request that must be rejected or a rejection is NOT this class"""
        try:
            x = [int(v) for v in a.split(",")]; y = [int(v) for v in b.split(",")]
        except ValueError:
            return False
        return len(x) == len(y) and x != y and all(1 <= p <= q for p, q in zip(x, y))
    if bad and all(("cl" in k.split(".")[0].split("-")) and clamped(fi.get(k, ""), fs[k]) for k in bad):
        return "clipped-kind-clamps:" + line.split(" ")[2][2:]
    return None
