"""C15 — invalid arguments are reported as 'Nothing', never as garbage or a crash."""
import itertools, re
from collections import Counter

ID = "C15"
MODEL_MODULES = ["Base", "Index", "Broadcast", "Views", "Select", "Linalg", "Accept"]
HANDLERS = ["h_c15.ml"]
CLAIM = dict(
    text=("Kernel-checked: broadcast_shape, shape_broadcast_to, shape_reshape (after its repair), normalize_axis and shape_matmul "
          "return Nothing exactly when NumPy raises and a value otherwise, for every rank and all positive extents (never a trap); an "
          "empty optional fed into any pipeline of lifted stages (views on maybe operands, function application, eval) yields an empty "
          "optional, no later stage is applied and a stage is only ever applied to a present value (never dereferenced) — by induction "
          "over the pipeline. Refuted with witnesses: transpose (duplicate / out-of-range / too few axes), pad (negative width), repeat / "
          "expand_dims / swapaxes (out-of-range axis). Tied to the C++ by calling 24 view-level operations and 14 pipelines (a possibly-empty stage result as first, second or both operands of further views and of eval) with the full "
          "small box of valid AND invalid arguments, one forked child per case in the NDEBUG and the sanitizer build, comparing only "
          "has-value / Nothing / trap against NumPy's acceptance."),
    ref="5.15", technique="Coq proof (accept iff, option-monad induction) + differential runs over malformed argument boxes",
    extra="Partial: acceptance of the operations not listed under 'kernel-checked' is compared with NumPy's rule by correspondence only; "
          "the many operations that do not validate their arguments are known findings (tight classes: operation x violated condition).")
RULE = ("per operation the full small box including the invalid part: shapes dim 1..3 extents 1..3, target shape entries -2..4, axes in "
        "[-dim-2, dim+1], repeats/reps/widths in -1..2, index entries in [-n-1, n], mismatching operand pairs; pipelines with one invalid "
        "stage at every position; non-trivial = operand of dim >= 2; distinct = distinct case lines")
THEOREM_STATUS = {"proved": ["C15_broadcast_shape_iff", "C15_broadcast_to_iff", "C15_reshape_iff", "C15_normalize_axis_iff",
                             "C15_matmul_shape_iff", "C15_nothing_propagates", "C15_never_dereferenced"], "partial": [],
                  "refuted": ["C15_transpose_refuted", "C15_pad_repeat_axes_refuted"]}
ASSUMPTIONS = ["only the accept / Nothing / trap status is compared here; the values of accepted results belong to C03-C08/C16"]


def drivers(tier):
    return {"c15": [("c15.cpp", "ndebug", ()), ("c15.cpp", "asan", ())]}


def L(v): return "L:" + ",".join(str(x) for x in v)
def A(shape):
    n = 1
    for x in shape: n *= x
    return "A:%s:%s" % (",".join(map(str, shape)), ",".join(map(str, range(n))))


def gen_cases(rng, tier):
    out = []
    def add(stream, line): out.append((stream, line, "c15"))
    quick = tier == "quick"
    shapes = []
    for d in (1, 2, 3): shapes += list(itertools.product(range(1, 4), repeat=d))
    sample = lambda xs, n: xs if len(xs) <= n else rng.sample(xs, n)
    some_shapes = sample(shapes, 14 if quick else 39)
    for s in some_shapes:
        d = len(s); n = 1
        for e in s: n *= e
        # reshape: every target of length 1..2 (3 in thorough) with entries -2..4 / the count
        ents = [-2, -1, 0, 1, 2, 3, 4, n]
        for k in (1, 2) if quick else (1, 2, 3):
            for t in sample(list(itertools.product(ents, repeat=k)), 40 if quick else 300): add("reshape", "reshape %s %s" % (A(s), L(t)))
        # axes lists for transpose: all tuples over [-d-1, d] of length d-1..d+1
        axr = list(range(-d - 1, d + 1))
        for k in (d - 1, d, d + 1):
            if k < 1: continue
            for p in sample(list(itertools.product(axr, repeat=k)), 25 if quick else 200): add("axes", "transpose %s %s" % (A(s), L(p)))
            for p in sample(list(itertools.product(range(0, d + 1), repeat=k)), 12 if quick else 80): add("axes-unsigned", "transpose_u %s %s" % (A(s), L(p)))
        for a1 in range(-d - 2, d + 2):
            add("axes", "expand_dims %s I:%d" % (A(s), a1)); add("axes", "sum %s I:%d" % (A(s), a1)); add("axes", "flip %s I:%d" % (A(s), a1))
            add("axes", "roll %s I:%d I:%d" % (A(s), rng.randint(-4, 4), a1))
            add("axes", "norm_axis I:%d I:%d" % (a1, d))
            if a1 >= 0:      # the same requests with UNSIGNED axis types (scalars and containers of size_t / unsigned / uint8_t)
                add("axes-unsigned", "norm_axis_u I:%d I:%d" % (a1, d))
                for a2 in range(0, d + 2):
                    add("axes-unsigned", "moveaxis_u %s I:%d I:%d" % (A(s), a1, a2))
                    add("axes-unsigned", "sums_u %s %s" % (A(s), L([a1, a2])))
                    for k in ("u", "u8", "ua"): add("axes-unsigned", "norm_axes_%s %s I:%d" % (k, L([a1, a2]), d))
            for a2 in range(-d - 2, d + 2):
                add("axes", "swapaxes %s I:%d I:%d" % (A(s), a1, a2)); add("axes", "moveaxis %s I:%d I:%d" % (A(s), a1, a2))
                add("axes", "sums %s %s" % (A(s), L([a1, a2]))); add("axes", "norm_axes %s I:%d" % (L([a1, a2]), d))
            for rp in (-1, 1, 2): add("args", "repeat %s I:%d I:%d" % (A(s), rp, a1))
            ext = s[a1 % d] if -d <= a1 < d else 2
            for ind in ([0], [ext - 1], [ext], [-ext], [-ext - 1], [0, ext + 1]): add("args", "take %s %s I:%d" % (A(s), L(ind), a1))
        for w in sample(list(itertools.product((-1, 0, 1, 2), repeat=2 * d)) + list(itertools.product((0, 1), repeat=2 * d - 1)) +
                        list(itertools.product((0, 1), repeat=2 * d + 1)), 30 if quick else 200):
            add("args", "pad %s %s" % (A(s), L(w)))
        for reps in sample(list(itertools.product((-1, 1, 2), repeat=d)) + list(itertools.product((1, 2), repeat=d + 1)), 12 if quick else 60):
            add("args", "tile %s %s" % (A(s), L(reps)))
        for t in sample(list(itertools.product((0, 1, 2, 4), repeat=d)) + [(2,), (2, 2, 2, 2)], 12 if quick else 60):
            add("args", "resize %s %s" % (A(s), L(t)))
        for nd in (0, 1, 2, 4): add("args", "atleast_nd %s I:%d" % (A(s), nd))
        # binary: every other shape of the sample
        for t in sample(shapes, 10 if quick else 39):
            add("binary", "badd %s %s" % (A(s), A(t))); add("binary", "bshape %s %s" % (L(s), L(t)))
            add("binary", "bto %s %s" % (A(s), L(t))); add("binary", "matmul %s %s" % (A(s), A(t)))
            for ax in range(-d - 1, d + 1): add("binary", "concat %s %s I:%d" % (A(s), A(t), ax))
        # pipelines: valid / invalid reshape target x compatible / incompatible second operand
        for k in range(8):
            for dst in ([n], [-1], [n + 1], [1, n], [0, -1], list(s)):
                for t in ([1], list(s), [4, 4], [n], [n, 1]):
                    add("pipeline", "pipe %s I:%d %s %s" % (A(s), k, L(dst), A(t)))
    # a checked stage followed by a second checked stage: (valid / invalid) x (valid / invalid)
    for s in some_shapes:
        n = 1
        for e in s: n *= e
        firsts = [[n], [1, n], [n, 1], [-1], [n + 1], [0, -1]] + ([[2, n // 2], [n // 2, 2]] if n % 2 == 0 and n > 2 else [])
        seconds = [[n], [-1], [1, n], [n, 1], [n + 1], [n + 2, 1], [2, n], [-1, -1], [0], [n - 1] if n > 1 else [5]]
        for k in range(6):
            for d1 in firsts:
                for d2 in seconds:
                    add("pipeline3", "pipe3 %s I:%d %s %s" % (A(s), k, L(d1), L(d2)))
    # two stage results as both operands: every (valid / invalid) x (valid / invalid) combination, shapes that do / do not fit the outer view
    for s in some_shapes:
        n = 1
        for e in s: n *= e
        dsts = [[1, n], [n, 1], [n], [2, n], [n + 1, 1], [0, -1], [-1, n], [1, -1]]
        for k in range(6):
            for da in dsts:
                for db in dsts:
                    add("pipeline2", "pipe2 %s I:%d %s %s" % (A(s), k, L(da), L(db)))
    # de-duplicate keeping order
    seen = set(); res = []
    for x in out:
        if x[1] not in seen: seen.add(x[1]); res.append(x)
    return res


def _status(s):
    return "trap" if s.startswith("trap") else s


def equal(impl, spec):
    return _status(impl) == _status(spec)


def nontrivial(line):
    m = re.search(r"A:([0-9,]*):", line)
    return bool(m) and len(m.group(1).split(",")) >= 2


def distribution(streams):
    ops = Counter(); st = Counter()
    for s, line, _ in streams: ops[line.split(" ")[0]] += 1; st[s] += 1
    return {"ops": dict(ops), "streams": dict(st)}


def classify(line, impl, spec, model):
    """operation x what happened instead of the expected status"""
    t = line.split(" ")
    op = t[0] if t[0] not in ("pipe", "pipe2", "pipe3") else t[0] + "k" + t[2][2:]
    op = re.sub(r"_(u|u8|ua)$", "", op)       # the same call site reached with an unsigned axis container
    return "%s:%s-instead-of-%s" % (op, _status(impl), _status(spec))
