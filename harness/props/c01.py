"""C01 — multi-index <-> flat offset addressing is an order-preserving bijection."""
import itertools, re
from collections import Counter

ID = "C01"
MODEL_MODULES = ["Base", "Index"]
HANDLERS = ["h_c01.ml"]
CLAIM = dict(
    text=("Kernel-checked theorems for every dimension and all positive extents: strides are suffix products, "
          "flat->multi->flat and multi->flat->multi are identities, every produced index is in bounds, ndindex enumeration "
          "equals the nested-loop order with no repetition and complete, lexicographic order = offset order, both layouts "
          "are injective/in-range and satisfy read-over-write, and w-bit arithmetic coincides with the ideal one while the "
          "element count fits. Tied to the C++ by running the real index functions / ndarray accessors for 7 container kinds "
          "and both layouts against the extracted model on the small box and on sizes near 2^24..2^40."),
    ref="5.1", technique="Coq proof (induction on the shape) + differential correspondence with the extracted model", extra="")
RULE = ("stream small: every shape of dim 1..4 (quick: extents 1..3, dim<=3 also 4; thorough: extents 1..4, dim 5..6 extents 1..3) "
        "x {strides, product, full ndindex enumeration, both-layout array enumeration/metadata} x container kinds "
        "{std::vector<size_t>, std::array, utl::static_vector, utl::vector, runtime tuple, std::vector<int>, std::array<int>} "
        "plus sampled offsets/indices per shape for indices/offset/roundtrip/aget/asetget; "
        "stream large: random shapes with element count near 2^24, 2^31, 2^32, 2^40 (index math only). "
        "non-trivial = dim >= 2 and some extent > 1; distinct = distinct case lines")
KINDS = ["vec", "arr", "sv", "uv", "tup"]
IKINDS = ["veci", "arri"]
UKINDS = ["vecu", "arru", "tupu"]

THEOREM_STATUS = {"proved": ["C01_strides_are_suffix_products", "C01_indices_in_bounds", "C01_offset_of_indices",
                             "C01_indices_of_offset", "C01_enumeration_is_row_major", "C01_order_preserving",
                             "C01_layout_independent", "C01_no_wrap"], "partial": [], "refuted": []}
ASSUMPTIONS = ["no wrap-around: the element count of the shape fits the index type (theorem C01_no_wrap states the guard)",
               "compile-time-constant index containers are exercised by C09's generated drivers, not here"]


def drivers(tier):
    return {"c01": [("c01.cpp", "ndebug", ()), ("c01.cpp", "asan", ())]}


def L(v): return "L:" + ",".join(str(x) for x in v)


def unravel(k, shape):
    idx = []
    for n in reversed(shape):
        idx.append(k % n); k //= n
    return list(reversed(idx))


def prod(s):
    p = 1
    for x in s: p *= x
    return p


def gen_cases(rng, tier):
    out = []
    def add(stream, line): out.append((stream, line, "c01"))
    shapes = []
    if tier == "quick":
        for d in (1, 2, 3): shapes += list(itertools.product(range(1, 5), repeat=d))
        shapes += list(itertools.product(range(1, 4), repeat=4))
        shapes += [tuple(rng.randint(1, 3) for _ in range(d)) for d in (5, 6) for _ in range(10)]
    else:
        for d in (1, 2, 3, 4): shapes += list(itertools.product(range(1, 5), repeat=d))
        for d in (5, 6): shapes += list(itertools.product(range(1, 4), repeat=d))
    for n, s in enumerate(shapes):
        s = list(s); P = prod(s)
        for k in KINDS + IKINDS:
            add("small", "strides S:%s %s" % (k, L(s)))
            add("small", "product S:%s %s" % (k, L(s)))
        kk = (KINDS + IKINDS)[n % 7]
        if P <= 4096:
            add("small", "ndenum S:%s %s" % (kk, L(s)))
            add("small", "ndenum S:%s %s" % ((KINDS + IKINDS)[(n + 3) % 7], L(s)))
            for lay in ("row", "col"):
                add("small", "aenum S:%s %s" % (lay, L(s)))
                add("small", "ameta S:%s %s" % (lay, L(s)))
        ks = sorted(set([0, P - 1, P // 2] + [rng.randrange(P) for _ in range(3)]))
        for k in ks:
            idx = unravel(k, s)
            kind = rng.choice(KINDS + IKINDS)
            add("small", "indices S:%s I:%d %s" % (kind, k, L(s)))
            add("small", "roundtrip S:%s I:%d %s" % (rng.choice(KINDS), k, L(s)))
            strides = [prod(s[i + 1:]) for i in range(len(s))]
            add("small", "offset S:%s %s %s" % (rng.choice(KINDS + IKINDS), L(idx), L(strides)))
            for lay in ("row", "col"):
                if P <= 100000:
                    add("small", "aget S:%s %s %s" % (lay, L(s), L(idx)))
                    add("small", "asetget S:%s %s %s" % (lay, L(s), L(idx)))
    # ---- large: index math only
    nlarge = 300 if tier == "quick" else 3000
    targets = [2 ** 24, 2 ** 31, 2 ** 32, 2 ** 40, 2 ** 16]
    for _ in range(nlarge):
        d = rng.randint(1, 6); T = rng.choice(targets)
        # random factorisation-ish: extents whose product is near T
        s = []
        rem = T
        for i in range(d - 1):
            e = max(1, int(round(rem ** (rng.random() * 0.8)))) if rem > 1 else 1
            e = max(1, min(e, rem)); s.append(e); rem = max(1, rem // e)
        s.append(max(1, rem + rng.choice([-1, 0, 0, 1])))
        rng.shuffle(s)
        P = prod(s)
        if P >= 2 ** 62: continue
        kind = rng.choice(KINDS)
        add("large", "strides S:%s %s" % (kind, L(s)))
        add("large", "product S:%s %s" % (kind, L(s)))
        if P < 2 ** 31:
            ik = rng.choice(IKINDS)
            add("large", "strides S:%s %s" % (ik, L(s)))
            add("large", "product S:%s %s" % (ik, L(s)))
        for k in set([0, P - 1, rng.randrange(P), rng.randrange(P)]):
            add("large", "indices S:%s I:%d %s" % (rng.choice(KINDS), k, L(s)))
            add("large", "roundtrip S:%s I:%d %s" % (rng.choice(KINDS), k, L(s)))
            idx = unravel(k, s); strides = [prod(s[i + 1:]) for i in range(len(s))]
            add("large", "offset S:%s %s %s" % (rng.choice(KINDS), L(idx), L(strides)))
            # 32-bit unsigned index containers: every extent / stride fits 32 bits, the products need 64
            if max(idx + strides) < 2 ** 32:
                add("large", "offset S:%s %s %s" % (rng.choice(UKINDS), L(idx), L(strides)))
                add("large", "roundtrip S:%s I:%d %s" % (rng.choice(UKINDS), k, L(s)))
    return out


def nontrivial(line):
    lists = re.findall(r"L:([0-9,\-]*)", line)
    if not lists: return False
    shape = [int(x) for x in lists[-1].split(",") if x] if not line.startswith("offset") else [int(x) for x in lists[0].split(",") if x]
    return len(shape) >= 2 and any(x > 1 for x in shape)


def distribution(streams):
    dims = Counter(); ops = Counter(); mx = Counter()
    for _, line, _ in streams:
        ops[line.split(" ")[0]] += 1
        lists = re.findall(r"L:([0-9,\-]*)", line)
        if lists:
            sh = [int(x) for x in lists[-1].split(",") if x]
            dims[str(len(sh))] += 1
            m = max(sh) if sh else 0
            mx["<=4" if m <= 4 else "<=2^16" if m <= 65536 else ">2^16"] += 1
    return {"ops": dict(ops), "dim": dict(dims), "max_extent": dict(mx)}


def classify(line, impl, spec, model):
    return None
