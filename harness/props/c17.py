"""C17 — neural-network routines equal their reference (PyTorch/NumPy) definitions."""
import itertools, math, re
from collections import Counter

ID = "C17"
MODEL_MODULES = ["Base", "Index", "NN"]
HANDLERS = ["h_c17.ml"]
CLAIM = dict(
    text=("Kernel-checked (Coq, no axioms), for all extents and parameters: (1) the output shape of the convnd pipeline (reshape by "
          "groups, pad, sliding_window, expand, multiply, sum, reshape, stride slice) for conv1d and conv2d equals PyTorch's "
          "floor((n+2p-d(k-1)-1)/s)+1 formula for any batch, channels, groups, kernel, stride, padding, scalar or per-axis dilation, bias; "
          "(2) index::sliding_window, index::expand and index::pad (the non-trivial index maps) read exactly source (.., y+b, x+a), "
          "(.., y/(sh+1), x/(sw+1)) or the fill value, resp. i - before or the fill value, in bounds; (3) through the three reshapes output "
          "channel o uses its own weight row and the input channels of group o div (O/g), PyTorch's blocked grouping, for every batch and "
          "every divisor g; (4) shape_pool2d equals PyTorch's formula in floor and in ceil mode (including 'the last window starts inside "
          "the input'), for any rank >= 2; windows are the clipped nested-loop ranges, complete in floor mode, never empty in ceil mode. "
          "These statements are about the code after the three C17 repairs (batch extent + blocked groups, per-axis dilation order, ceil-mode "
          "last window); against a tree without them the check reports the failing inputs as violations. "
          "(5) softmax/softmin: the view composition of softmax.hpp is, in any scalar structure (floats included), the same expression "
          "as the definition with the maximum of the SLICE along the axis as stabiliser (C17_softmax_structure). "
          "The element equation conv = nested loop is proved for the index maps per stage and corresponded end to end "
          "(partial: no single closed element theorem). Everything else is differential: conv1d/conv2d integer data exactly against the "
          "extracted nested-loop spec; max/avg pooling; softmax/softmin/norms/linear/bilinear/pairwise_distance/cosine_similarity on "
          "double AND float operands: the float side is an ORACLE COMPARISON WITHIN TOLERANCE, not a proof — against a hand-written OCaml "
          "nested-loop oracle (not extracted) computed in double with the definitions' own per-slice stabilisation (softmax: maximum of the "
          "slice; norms: two-pass mean/variance), relative tolerance 1e-9 for double operands, 1e-3 (+5e-4 absolute) for single-precision "
          "operands, NaN/inf on one side only = mismatch; besides small well-scaled arrays a 'numerically wide' stream puts slices of one "
          "array on very different scales (offsets 0, +-200, +-1000, the exp thresholds 88/104/709/745), one big constant, near-equal values, "
          "zeros and negative values; a 'scalar parameter' stream drives every epsilon / ord / keepdims / axis argument and every wrapper and "
          "default overload (cosine_similarity eps and axis; pairwise_distance eps, ord 1..3, keepdims; batch/layer/group norm eps; "
          "instance_norm_1d/2d/3d and the generic instance_norm eps) with non-default values from 1e-12 to 1 on data where the parameter "
          "decides the result (vector norms 1e-3 .. 1e-9, exactly-zero rows, one operand tiny and the other O(1), x == y, variance ~ eps, "
          "constant slices), against the documented PyTorch formulas (cosine: each norm clamped separately) evaluated in double. "
          "libm and float rounding are outside the model."),
    ref="5.17", technique="Coq proof (symbolic evaluation of the shape pipeline at rank 3/4, index-map lemmas) + differential correspondence with the extracted model", extra="")
RULE = ("seeded samples of the property's parameter product: batch 1..2, C,O 1..4 with every common divisor as groups, spatial 1..7, "
        "kernel 1..3, stride 1..3, padding 0..2, dilation 1..2 (uniform and per-axis), optional bias, positive output only; five argument-kind "
        "variants (None defaults / run-time scalars / per-axis arrays / compile-time groups / fixed-dimension operands); pooling: rank 2..4, H,W 1..7, kernel 1..3, "
        "stride 1..3, both ceil modes, half of the arrays all-negative, three argument kinds; float routines on dim 1..4 arrays, double and "
        "single precision, small well-scaled data plus the numerically wide stream (per-slice offsets along a random axis, big constants, "
        "near-equal values, zeros, negatives) for every float routine, and the scalar-parameter stream (arrays ints/8*2^-e with e up to 30, "
        "eps literals 1e-12..1 and the default overloads, every wrapper). "
        "non-trivial = a spatial extent > 1 and (kernel > 1 or more than one channel); distinct = distinct case lines")
THEOREM_STATUS = {
    "proved": ["C17_conv2d_out_shape", "C17_conv1d_out_shape", "C17_sliding_window_elem", "C17_expand_elem", "C17_pad_elem",
               "C17_conv_reshape_maps", "C17_pool_out_shape", "C17_pool_extent_meaning", "C17_pool_window", "C17_softmax_structure"],
    "partial": [],
    "refuted": []}
ASSUMPTIONS = ["shape_pool2d's float division is modelled as exact rational division (true for extents below 2^23)",
               "floating-point routines are compared with a hand-written OCaml oracle (double, per-slice stabilisation) within tolerance, not with an extracted model; C17_softmax_structure ties only the Coq transcription of softmax.hpp to the definition",
               "conv element equality (model = nested loop) is established per case by the runner on conv_dom, not by a closed Coq theorem"]


def drivers(tier):
    d = {"conv1d": [("c17_conv1d.cpp", "ndebug", ()), ("c17_conv1d.cpp", "asan", ("-DVD_LIGHT",))],
         "conv2d": [("c17_conv2d.cpp", "ndebug", ()), ("c17_conv2d.cpp", "asan", ("-DVD_LIGHT",))],
         "pool": [("c17_pool.cpp", "ndebug", ()), ("c17_pool.cpp", "asan", ("-DVD_LIGHT",))],
         # double and float operands in one key (built side by side); each driver answers "unsupported" to the other's ops
         "nn": [("c17_nn.cpp", "ndebug", (), ("c17_nn.inc", "c17_show.hpp")), ("c17_nn32.cpp", "ndebug", (), ("c17_nn.inc", "c17_show.hpp"))],
         # the scalar parameters (eps / ord / keepdims / axis, every wrapper and default overload) of the float routines
         "nnp": [("c17_nnp.cpp", "ndebug", (), ("c17_nnp.inc", "c17_show.hpp")), ("c17_nnp32.cpp", "ndebug", (), ("c17_nnp.inc", "c17_show.hpp"))]}
    return d


def L(v): return "L:" + ",".join(str(x) for x in v)
def A(shape, data): return "A:%s:%s" % (",".join(map(str, shape)), ",".join(map(str, data)))
def prod(s):
    n = 1
    for x in s: n *= x
    return n
def rdata(rng, shape, lo, hi): return [rng.randint(lo, hi) for _ in range(prod(shape))]


def conv_case(rng, nd, force=None):
    """one conv case inside the property's quantifier (positive output), or None"""
    N = 2 if rng.random() < 0.12 else 1
    C = rng.randint(1, 4); O = rng.randint(1, 4)
    g = rng.choice([d for d in range(1, 5) if C % d == 0 and O % d == 0])
    sp = [rng.randint(1, 7) for _ in range(nd)]; k = [rng.randint(1, 3) for _ in range(nd)]
    variant = force or rng.choice(["plain", "scalar", "scalar", "pair", "pair", "ctg", "fd"])
    if variant in ("scalar", "ctg", "fd"):
        s = [rng.randint(1, 3)] * nd; p = [rng.randint(0, 2)] * nd; d = [rng.randint(1, 2)] * nd
        if variant == "ctg" and g > 2: variant = "scalar"
    elif variant == "pair":
        s = [rng.randint(1, 3) for _ in range(nd)]; p = [rng.randint(0, 2) for _ in range(nd)]
        d = [rng.randint(1, 2)] * nd if rng.random() < 0.7 else [rng.randint(1, 2) for _ in range(nd)]
    else:
        s = [1] * nd; p = [0] * nd; d = [1] * nd; g = 1
    out = [(sp[i] + 2 * p[i] - d[i] * (k[i] - 1) - 1) // s[i] + 1 for i in range(nd)]
    if any(sp[i] + 2 * p[i] - d[i] * (k[i] - 1) - 1 < 0 for i in range(nd)): return None
    ish = [N, C] + sp; wsh = [O, C // g] + k
    bias = A([O], rdata(rng, [O], -4, 4)) if rng.random() < 0.5 else "N"
    return "conv%dd S:%s %s %s %s %s %s %s I:%d" % (nd, variant, A(ish, rdata(rng, ish, -4, 4)), A(wsh, rdata(rng, wsh, -3, 3)),
                                                  bias, L(s), L(p), L(d), g)


def pool_case(rng):
    op = rng.choice(["max", "avg"]); lead = [rng.randint(1, 2) for _ in range(rng.choice([0, 1, 2, 2]))]
    H, W = rng.randint(1, 7), rng.randint(1, 7)
    k = [rng.randint(1, min(3, H)), rng.randint(1, min(3, W))]; s = [rng.randint(1, 3), rng.randint(1, 3)]
    ceil = rng.randint(0, 1); shape = lead + [H, W]
    data = rdata(rng, shape, -9, -1) if rng.random() < 0.5 else rdata(rng, shape, -9, 9)
    return "%s_pool2d S:%s %s %s %s I:%d" % (op, rng.choice(["arr", "vec", "ct"]), A(shape, data), L(k), L(s), ceil)


def float_cases(rng, n):
    out = []
    def shp(d): return [rng.randint(1, 3) for _ in range(d)]
    def fa(s, lo=-16, hi=16): return A(s, rdata(rng, s, lo, hi))
    for _ in range(n):
        d = rng.randint(1, 4); s = shp(d); ax = rng.randint(-d, d - 1)
        out.append("%s %s I:%d" % (rng.choice(["softmax", "softmin"]), fa(s), ax))
        s4 = [rng.randint(1, 2), rng.randint(1, 4), rng.randint(1, 3), rng.randint(1, 3)]; C = s4[1]
        out.append("batch_norm %s %s %s %s %s" % (fa(s4), fa([C]), fa([C], 1, 24), fa([C]), fa([C])))
        d = rng.randint(2, 4); s = shp(d); k = rng.randint(1, d - 1)
        if prod(s[d - k:]) > 1: out.append("layer_norm %s %s %s" % (fa(s), fa(s[d - k:]), fa(s[d - k:])))
        nd = rng.choice([1, 2]); s = [rng.randint(1, 2), rng.randint(1, 3)] + [rng.randint(2, 3) for _ in range(nd)]
        out.append("instance_norm I:%d %s %s %s" % (nd, fa(s), fa([s[1]]), fa([s[1]])))
        C = rng.randint(1, 4); g = rng.choice([x for x in range(1, C + 1) if C % x == 0])
        s = [rng.randint(1, 2), C] + [rng.randint(1, 3) for _ in range(rng.choice([1, 2]))]
        if prod(s[2:]) * (C // g) > 1: out.append("group_norm %s I:%d %s %s" % (fa(s), g, fa([C]), fa([C])))
        d = rng.randint(1, 3); s = shp(d); o = rng.randint(1, 3)
        out.append("linear %s %s %s" % (fa(s), fa([o, s[-1]]), fa([o]) if rng.random() < 0.5 else "N"))
        d = rng.randint(1, 3); lead = shp(d - 1); n1, n2, o = rng.randint(1, 3), rng.randint(1, 3), rng.randint(1, 3)
        out.append("bilinear %s %s %s %s" % (fa(lead + [n1]), fa(lead + [n2]), fa([o, n1, n2]), fa([o]) if rng.random() < 0.5 else "N"))
        d = rng.randint(1, 3); s = shp(d)
        out.append("pairwise_distance %s %s" % (fa(s), fa(s)))
        d = rng.randint(2, 4); s = shp(d)
        out.append("cosine_similarity %s %s I:%d" % (fa(s, 1, 16), fa(s, -16, 16), rng.randint(0, d - 1)))
    return out


# ---- numerically wide data for the float routines -------------------------------------------------------------
# values are integers / 8.  Offsets put different slices of one array on very different scales (a stabilisation that
# uses anything but the slice's own maximum / mean underflows or loses precision there), near the overflow / underflow
# thresholds of exp in single (88, 104) and double (709, 745) precision.
OFFS64 = [0, 0, 200, -200, 1000, -1000, 88, -104, 709, -745]
OFFS32 = [0, 0, 200, -200, 1000, -1000, 88, -104]
# single precision, statistics (mean / variance) routines: the rounding error of (x - mean) / std is about |x| * 6e-8 / std, so the
# offsets stay small and near-equal values stay near 0; the wide offsets are exercised by the double stream at 1e-9
OFFS32_NORM = [0, 0, 50, -50]


def wide_array(rng, shape, offs, mode=None, ne=None):
    """(shape, data) with one of: per-slice offsets along a random axis / one big constant / near-equal values /
    zeros and negatives"""
    mode = mode or rng.choice(["offsets", "offsets", "offsets", "big", "near_equal", "zeros", "neg"])
    n = prod(shape); d = len(shape)
    idx = [[(k // prod(shape[a + 1:])) % shape[a] for a in range(d)] for k in range(n)]
    if mode == "offsets":
        ax = rng.randrange(d); per = [8 * rng.choice(offs) for _ in range(shape[ax])]
        if shape[ax] > 1 and len(set(per)) == 1: per[0] = 8 * rng.choice([o for o in offs if 8 * o != per[1]])
        return [rng.randint(-16, 16) + per[i[ax]] for i in idx]
    if mode == "big":
        c = 8 * rng.choice([o for o in offs if o != 0]); return [rng.randint(-16, 16) + c for _ in range(n)]
    if mode == "near_equal":
        c = 8 * rng.choice(ne if ne is not None else offs); return [c + rng.randint(0, 1) for _ in range(n)]
    if mode == "zeros":
        return [0 if rng.random() < 0.6 else rng.randint(-16, 0) for _ in range(n)]
    return [rng.randint(-16, -1) for _ in range(n)]


def wide_cases(rng, n, f32):
    sfx = "32" if f32 else ""; offs = OFFS32 if f32 else OFFS64; noffs = OFFS32_NORM if f32 else OFFS64
    ne = [0] if f32 else None
    out = []
    def shp(d, lo=1, hi=3): return [rng.randint(lo, hi) for _ in range(d)]
    def small(s, lo=-16, hi=16): return A(s, rdata(rng, s, lo, hi))
    for _ in range(n):
        # softmax / softmin: rank >= 2 so that several slices along the axis exist; offsets along any axis
        d = rng.randint(2, 4); s = shp(d, 2, 3) if d < 4 else shp(d, 1, 3); ax = rng.randint(-d, d - 1)
        out.append("%s%s %s I:%d" % (rng.choice(["softmax", "softmin"]), sfx, A(s, wide_array(rng, s, offs)), ax))
        s4 = [rng.randint(1, 2), rng.randint(1, 4), rng.randint(1, 3), rng.randint(1, 3)]; C = s4[1]
        out.append("batch_norm%s %s %s %s %s %s" % (sfx, A(s4, wide_array(rng, s4, noffs, None, ne)), A([C], wide_array(rng, [C], noffs, "offsets")),
                                                   small([C], 1, 24), small([C]), small([C])))
        d = rng.randint(2, 4); s = shp(d, 2, 3) if d < 4 else shp(d, 1, 3); k = rng.randint(1, d - 1)
        if prod(s[d - k:]) > 1: out.append("layer_norm%s %s %s %s" % (sfx, A(s, wide_array(rng, s, noffs, None, ne)), small(s[d - k:]), small(s[d - k:])))
        nd = rng.choice([1, 2]); s = [rng.randint(1, 2), rng.randint(1, 3)] + [rng.randint(2, 3) for _ in range(nd)]
        out.append("instance_norm%s I:%d %s %s %s" % (sfx, nd, A(s, wide_array(rng, s, noffs, None, ne)), small([s[1]]), small([s[1]])))
        C = rng.randint(1, 4); g = rng.choice([x for x in range(1, C + 1) if C % x == 0])
        s = [rng.randint(1, 2), C] + [rng.randint(1, 3) for _ in range(rng.choice([1, 2]))]
        if prod(s[2:]) * (C // g) > 1: out.append("group_norm%s %s I:%d %s %s" % (sfx, A(s, wide_array(rng, s, noffs, None, ne)), g, small([C]), small([C])))
        d = rng.randint(1, 3); s = shp(d)
        out.append("pairwise_distance%s %s %s" % (sfx, A(s, wide_array(rng, s, noffs, None, ne)), A(s, wide_array(rng, s, noffs, None, ne))))
        d = rng.randint(2, 4); s = shp(d); ax = rng.randint(0, d - 1)
        out.append("cosine_similarity%s %s %s I:%d" % (sfx, A(s, wide_array(rng, s, noffs, None, ne)), A(s, wide_array(rng, s, noffs, None, ne)), ax))
        if not f32:
            # sums of products of multiples of 1/8 below 2^13 are exact in double in any order (not in float)
            d = rng.randint(1, 3); s = shp(d); o = rng.randint(1, 3)
            out.append("linear %s %s %s" % (A(s, wide_array(rng, s, OFFS64)), small([o, s[-1]]), small([o]) if rng.random() < 0.5 else "N"))
            d = rng.randint(1, 3); lead = shp(d - 1); n1, n2, o = rng.randint(1, 3), rng.randint(1, 3), rng.randint(1, 3)
            out.append("bilinear %s %s %s %s" % (A(lead + [n1], wide_array(rng, lead + [n1], OFFS64)), A(lead + [n2], wide_array(rng, lead + [n2], [0, 50, -50, 200])),
                                                 small([o, n1, n2]), small([o]) if rng.random() < 0.5 else "N"))
    return out


# ---- scalar parameters (epsilon, ord, keepdims, axis, every wrapper) of the float routines ---------------------------------
# arrays are "I:e A:ints" = ints / 8 * 2^-e (exact); eps is a decimal literal or "default".  The data regimes are the ones where
# the parameter decides the result: vectors with tiny norms (2^-10 .. 2^-30, i.e. 1e-3 .. 1e-9), exactly-zero rows, one operand
# tiny and the other O(1), rows of very different magnitude inside one array, x == y / x ~ y for the distance, variance ~ eps
# and exactly-constant slices for the norms.
EPS_COS = ["default", "default", "1e-8", "1e-12", "1e-6", "1e-3", "0.5", "1"]
EPS_PD = ["default", "1e-6", "1e-12", "1e-9", "1e-3", "0.5", "1"]
EPS_NORM = ["default", "default", "1e-5", "1e-12", "1e-8", "1e-3", "0.5", "1"]
SCALES = [0, 0, 10, 14, 17, 20, 24, 27, 30]


def rows_array(rng, shape, ax, lo=-16, hi=16):
    """ints whose vectors along axis ax have magnitudes 0 / 1 / 64 / 4096 times the base range"""
    n = prod(shape); d = len(shape); mult = {}; out = []
    for k in range(n):
        idx = [(k // prod(shape[a + 1:])) % shape[a] for a in range(d)]
        row = tuple(idx[:ax] + idx[ax + 1:])
        if row not in mult: mult[row] = rng.choice([0, 1, 1, 1, 64, 4096])
        out.append(rng.randint(lo, hi) * mult[row])
    return out


def SA(e, shape, data): return "I:%d %s" % (e, A(shape, data))


def param_cases(rng, n, f32):
    sfx = "32" if f32 else ""; out = []
    def shp(d, lo=1, hi=3): return [rng.randint(lo, hi) for _ in range(d)]
    for _ in range(n):
        # cosine_similarity: both clamps matter separately when exactly one norm is below eps, or both are but not their product
        d = rng.randint(2, 4); s = shp(d); ax = rng.randint(0, d - 1); e1, e2 = rng.choice(SCALES), rng.choice(SCALES)
        if rng.random() < 0.4: e2 = e1
        eps = rng.choice(EPS_COS)
        axis = "N" if (eps == "default" and rng.random() < 0.3) else "I:%d" % (ax if rng.random() < 0.7 else ax - d)
        if axis == "N": ax = 1
        x = rows_array(rng, s, ax); y = rows_array(rng, s, ax)
        if rng.random() < 0.15: y = list(x)
        out.append("cosine_similarity_p%s %s %s %s S:%s" % (sfx, SA(e1, s, x), SA(e2, s, y), axis, eps))
        # pairwise_distance: eps decides when x == y or x ~ y; every ord / keepdims; the all-default overload
        d = rng.randint(1, 3); s = shp(d); e = rng.choice(SCALES); eps = rng.choice(EPS_PD)
        x = rows_array(rng, s, d - 1); mode = rng.random()
        y = list(x) if mode < 0.3 else ([v + rng.randint(-1, 1) for v in x] if mode < 0.6 else rows_array(rng, s, d - 1))
        e2 = e if mode < 0.8 else rng.choice(SCALES)
        if mode < 0.6 and e2 != e: e2 = e
        out.append("pairwise_distance_p%s %s %s I:%d S:%s I:%d" % (sfx, SA(e, s, x), SA(e2, s, y), rng.choice([1, 2, 2, 3]), eps, rng.randint(0, 1)))
        # norms: variance ~ eps (x scaled down), exactly-constant slices, every wrapper
        def xdata(s):
            m = rng.random()
            if m < 0.15: return [rng.randint(-16, 16)] * prod(s)          # constant: variance exactly 0
            if m < 0.3: return [rng.randint(0, 1) for _ in range(prod(s))]
            return rdata(rng, s, -16, 16)
        def wb(C): return "%s %s" % (SA(0, [C], rdata(rng, [C], -16, 16)), SA(0, [C], rdata(rng, [C], -16, 16)))
        ex = rng.choice([0, 0, 4, 8, 10, 14, 20])
        s4 = [rng.randint(1, 2), rng.randint(1, 3), rng.randint(1, 3), rng.randint(1, 3)]; C = s4[1]
        out.append("batch_norm_p%s %s %s %s %s S:%s" % (sfx, SA(ex, s4, xdata(s4)), SA(ex, [C], rdata(rng, [C], -16, 16)),
                                                       SA(rng.choice([0, 10, 17, 24, 34]), [C], rdata(rng, [C], 0, 24)), wb(C), rng.choice(EPS_NORM)))
        d = rng.randint(2, 4); s = shp(d, 2, 3) if d < 4 else shp(d, 1, 3); k = rng.randint(1, d - 1); t = s[d - k:]
        if prod(t) > 1:
            out.append("layer_norm_p%s %s %s %s S:%s" % (sfx, SA(ex, s, xdata(s)), SA(0, t, rdata(rng, t, -16, 16)), SA(0, t, rdata(rng, t, -16, 16)), rng.choice(EPS_NORM)))
        kind = rng.choice(["1d", "2d", "3d", "g1", "g2", "g3"]); nd = int(kind[-2] if kind[-1] == "d" else kind[-1])
        s = [rng.randint(1, 2), rng.randint(1, 3)] + [rng.randint(1, 3) for _ in range(nd)]
        if prod(s[2:]) > 1:
            out.append("instance_norm_p%s S:%s %s %s S:%s" % (sfx, kind, SA(ex, s, xdata(s)), wb(s[1]), rng.choice(EPS_NORM)))
        C = rng.randint(1, 4); g = rng.choice([x for x in range(1, C + 1) if C % x == 0])
        s = [rng.randint(1, 2), C] + [rng.randint(1, 3) for _ in range(rng.choice([1, 2]))]
        if prod(s[2:]) * (C // g) > 1:
            out.append("group_norm_p%s %s I:%d %s S:%s" % (sfx, SA(ex, s, xdata(s)), g, wb(C), rng.choice(EPS_NORM)))
    return out


def gen_cases(rng, tier):
    out = []
    n2, n1, npool, nfl = (700, 450, 700, 40) if tier == "quick" else (9000, 5000, 8000, 400)
    # boundary-aimed fixed cases: the known witnesses and their neighbours
    fixed2 = [
        "conv2d S:scalar A:1,1,3,3:1,2,3,4,5,6,7,8,9 A:1,1,2,2:1,2,3,4 N L:1,1 L:0,0 L:1,1 I:1",
        "conv2d S:scalar A:2,1,3,3:1,2,3,4,5,6,7,8,9,1,2,3,4,5,6,7,8,9 A:1,1,2,2:1,2,3,4 N L:1,1 L:0,0 L:1,1 I:1",
        "conv2d S:scalar A:1,2,2,2:1,2,3,4,5,6,7,8 A:4,1,1,1:1,2,3,4 N L:1,1 L:0,0 L:1,1 I:2",
        "conv2d S:scalar A:1,4,1,1:1,2,3,4 A:4,1,1,1:1,1,1,1 N L:1,1 L:0,0 L:1,1 I:4",
        "conv2d S:pair A:1,1,3,4:1,2,3,4,5,6,7,8,9,10,11,12 A:1,1,2,2:1,2,3,4 N L:1,1 L:0,0 L:1,2 I:1",
    ]
    for l in fixed2: out.append(("conv2d", l, "conv2d"))
    out.append(("conv1d", "conv1d S:scalar A:1,2,3:1,2,3,4,5,6 A:4,1,1:1,2,3,4 N L:1 L:0 L:1 I:2", "conv1d"))
    out.append(("conv1d", "conv1d S:scalar A:2,1,3:1,2,3,4,5,6 A:1,1,2:1,2 N L:1 L:0 L:1 I:1", "conv1d"))
    for _ in range(n2):
        c = conv_case(rng, 2)
        if c: out.append(("conv2d", c, "conv2d"))
    for _ in range(n1):
        c = conv_case(rng, 1)
        if c: out.append(("conv1d", c, "conv1d"))
    out.append(("pool", "max_pool2d S:arr A:1,1,3,3:1,2,3,4,5,6,7,8,9 L:1,1 L:3,3 I:1", "pool"))
    out.append(("pool", "avg_pool2d S:arr A:1,1,3,3:1,2,3,4,5,6,7,8,9 L:1,1 L:3,3 I:1", "pool"))
    out.append(("pool", "max_pool2d S:arr A:1,1,4,4:-1,-2,-3,-4,-5,-6,-7,-8,-9,-10,-11,-12,-13,-14,-15,-16 L:3,3 L:2,2 I:1", "pool"))
    for _ in range(npool): out.append(("pool", pool_case(rng), "pool"))
    for l in float_cases(rng, nfl): out.append(("float", l, "nn"))
    # the same small well-scaled cases through the single-precision driver
    for l in float_cases(rng, max(8, nfl // 2)):
        t = l.split(" ", 1); out.append(("float32", t[0] + "32 " + t[1], "nn"))
    # fixed wide witnesses: two rows on different scales, the smaller row must not underflow
    out.append(("float_wide", "softmax A:2,3:0,8,16,1600,1608,1616 I:1", "nn"))
    out.append(("float_wide", "softmin A:2,3:0,8,16,8000,8008,8016 I:-1", "nn"))
    out.append(("float_wide", "softmax32 A:2,3:0,8,16,1600,1608,1616 I:1", "nn"))
    out.append(("float_wide", "softmax A:3,2:0,-6400,8,-6392,16,-6384 I:0", "nn"))
    nw = 60 if tier == "quick" else 600
    for l in wide_cases(rng, nw, False): out.append(("float_wide", l, "nn"))
    for l in wide_cases(rng, nw, True): out.append(("float_wide", l, "nn"))
    # scalar parameters: fixed witnesses (tiny norms on both sides; explicit large eps; x == y) and the seeded stream
    for sfx in ("", "32"):
        out.append(("float_param", "cosine_similarity_p%s I:14 A:1,2:4,3 I:14 A:1,2:4,3 I:1 S:default" % sfx, "nnp"))
        out.append(("float_param", "cosine_similarity_p%s I:0 A:1,2:3,4 I:0 A:1,2:24,32 I:1 S:1" % sfx, "nnp"))
        out.append(("float_param", "cosine_similarity_p%s I:27 A:2,2:8,0,0,0 I:0 A:2,2:8,8,8,8 N S:default" % sfx, "nnp"))
        out.append(("float_param", "pairwise_distance_p%s I:0 A:2,3:1,2,3,4,5,6 I:0 A:2,3:1,2,3,4,5,6 I:2 S:1e-3 I:1" % sfx, "nnp"))
        out.append(("float_param", "instance_norm_p%s S:2d I:10 A:1,2,2,2:1,2,3,4,5,6,7,9 I:0 A:2:8,16 I:0 A:2:0,8 S:1e-5" % sfx, "nnp"))
    npar = 70 if tier == "quick" else 700
    for l in param_cases(rng, npar, False): out.append(("float_param", l, "nnp"))
    for l in param_cases(rng, npar, True): out.append(("float_param", l, "nnp"))
    return out


def _arrays(line):
    return [([int(x) for x in m.group(1).split(",") if x], None) for m in re.finditer(r"A:([0-9,]*):", line)]
def _lists(line):
    return [[int(x) for x in m.split(",") if x] for m in re.findall(r"L:([0-9,\-]*)", line)]


def nontrivial(line):
    op = line.split(" ")[0]; arrs = _arrays(line)
    if op.startswith("conv"):
        ish, wsh = arrs[0][0], arrs[1][0]
        return max(ish[2:]) > 1 and (max(wsh[2:]) > 1 or ish[1] > 1)
    if op.endswith("pool2d"):
        sh = arrs[0][0]; k = _lists(line)[0]
        return max(sh[-2:]) > 1 and max(k) > 1
    return any(prod(a[0]) > 1 and len(a[0]) >= 2 for a in arrs)


def distribution(streams):
    ops = Counter(); var = Counter(); grp = Counter()
    for _, line, _ in streams:
        t = line.split(" "); ops[t[0]] += 1
        if t[0].startswith("conv"):
            var[t[1][2:]] += 1
            arrs = _arrays(line); g = int(t[-1][2:])
            grp["batch%d" % arrs[0][0][0] + (" groups>1" if g > 1 else "") + (" O/g>1" if g > 1 and arrs[1][0][0] // g > 1 else "")] += 1
        if t[0].endswith("pool2d"): var["ceil" + t[-1][2:]] += 1
    return {"ops": dict(ops), "variants": dict(var), "conv_classes": dict(grp)}


def classify(line, impl, spec, model):
    """no known-finding class is left: the four classes of the first round (conv_batch_gt1, conv_groups_interleaved,
    conv_dilation_pair_swapped, pool_ceil_window_outside) are repaired by fixes/C17_*.diff and every mismatch is a violation"""
    return None


_INT = re.compile(r"^-?\d+$")
def equal(a, b):
    """shape exactly; elements exactly when both are integer literals, else relative tolerance 1e-9 (double operands) or,
    for result lines tagged "f32" (single-precision operands, reference computed in double), 1e-3 relative + 5e-4 absolute,
    tagged "f32r" (single precision, results of any magnitude: distances of tiny vectors) 1e-3 purely relative.
    A NaN or an infinity on one side only is a mismatch."""
    a = " ".join(a.split()); b = " ".join(b.split())
    if a == b: return True
    rel, ab = 1e-9, 1e-12
    for tag, tol in (("f32r ", (1e-3, 1e-30)), ("f32 ", (1e-3, 5e-4))):
        if a.startswith(tag) != b.startswith(tag): return False
        if a.startswith(tag): a = a[len(tag):]; b = b[len(tag):]; rel, ab = tol; break
    if not (a.startswith("ok ") and b.startswith("ok ")) or ";" not in a or ";" not in b: return False
    sa, ea = a[3:].split(";", 1); sb, eb = b[3:].split(";", 1)
    if sa.strip() != sb.strip(): return False
    ea = [x for x in ea.strip().split(",") if x]; eb = [x for x in eb.strip().split(",") if x]
    if len(ea) != len(eb): return False
    for x, y in zip(ea, eb):
        if x == y: continue
        if _INT.match(x) and _INT.match(y):
            if int(x) != int(y): return False
            continue
        try: fx, fy = float(x), float(y)
        except ValueError: return False
        if math.isnan(fx) or math.isnan(fy): return False
        if math.isinf(fx) or math.isinf(fy):
            if fx != fy: return False
            continue
        if abs(fx - fy) > rel * max(abs(fx), abs(fy)) + ab: return False
    return True
