"""C20 — array objects keep their invariants under resize, assign, cast and mutable views."""
import itertools, re
from collections import Counter

ID = "C20"
MODEL_MODULES = ["Base", "Index", "Ndarray"]
HANDLERS = ["h_c20.ml"]
CLAIM = dict(
    text=("Kernel-checked for every history, rank, extent, capacity and both layouts, about a statement-by-statement model of "
          "ndarray_t (shape container fixed-dim / bounded / dynamic / clipped / constant x buffer fixed / bounded / dynamic), "
          "hybrid_ndarray and dynamic_ndarray: the invariant (product of shape = element count, strides_ = compute_strides(shape), "
          "offset functor strides = the layout's strides, container-kind constraints) holds initially and is preserved by resize, "
          "write, copy and assign, hence after ANY history; distinct in-bounds indices address distinct cells (via C01); a refused "
          "resize returns false and leaves the whole state unchanged, and resize accepts exactly the requests that fit the kind; "
          "cast to another kind / element type preserves shape and (converted) values; writing through mutable_ref / "
          "mutable_flatten / mutable_reshape / mutable_slice changes exactly the designated source cell. "
          "Tied to the C++ by running exhaustive and random operation histories on 17 ndarray_t instantiations x 2 layouts and the "
          "three legacy classes — every resize / converting constructor / assignment entry point with every argument form it accepts, "
          "a distinct value written and read back at every index after each accepted resize, raw buffer against an independent address "
          "computation — nm::cast over all kind tags and element types (also after histories), and write-through over every view index. "
          "Refuted (finding, pinned by the suite's ndarray(case10)): strides() of a column-major array reports row-major strides. "
          "Modelled after the fix batch: column-major clipped-shape strides unclamped, dynamic_ndarray() is a consistent 0-dim array, "
          "mutable_slice with a single slice compiles."),
    ref="5.20", technique="Coq proof (invariant over histories, refinement of an abstract array) + differential correspondence with the extracted model",
    extra="")
RULE = ("histories over {resize(shape, argument form), write(k-th index, v), copy, assign-from-other(shape)}: exhaustive up to length 3 (quick) / 4 "
        "(thorough) over a per-kind alphabet holding two accepted requests, one refused request per applicable reason (wrong rank, "
        "wrong count / over capacity, over a clip bound), a write, copy and assign; seeded random histories of length 4..6 (quick 4..5) with "
        "shapes from the box dim 1..4, extents 1..4 (+ 6, 7, 12, 13 one-dimensional). Every resize request is passed in one of the argument "
        "forms the overload set accepts (std::vector<size_t>, std::vector<int>, std::array<size_t|int,N>, utl::static_vector, "
        "array::static_vector, utl::vector, variadic size_t / int; rotating over kinds in the exhaustive stream, random in the random "
        "stream, each form x each rank/trailing-extent changing sequence in the forms stream); after every ACCEPTED resize a distinct "
        "value is written at every index; every state of every history is printed (flag, shape, strides(), offset-functor strides, "
        "size(), len(data_), all elements through operator(), the raw buffer) and compared with the abstract array whose buffer "
        "positions are computed by Horner rank. Legacy classes: the same with every resize overload, every converting-constructor / "
        "templated operator= source kind (7 kinds). nm::cast to 12 kind tags after such histories (histcast / lhistcast). "
        "non-trivial = the history holds a request of dim >= 2 and at least two operations; distinct = distinct case lines")
THEOREM_STATUS = {"proved": ["C20_init_Inv", "C20_step_preserves_Inv", "C20_history_Inv", "C20_reachable_Inv",
                             "C20_distinct_indices_distinct_cells", "C20_refused_resize_unchanged", "C20_resize_accepts_iff_fits",
                             "C20_cast_preserves", "C20_write_through", "C20_view_index_injective", "C20_hybrid_ndarray",
                             "C20_dynamic_ndarray", "C20_strides_accessor_on_domain"],
                  "partial": [],
                  "refuted": ["C20_strides_accessor_colmajor_refuted"]}
ASSUMPTIONS = ["extents are size_t values whose product does not wrap (C01_no_wrap states the guard)",
               "values of cells the property does not fix (fresh cells after construction or after a successful resize) are not compared"]

# (shape kind, buffer kind) instantiated in drivers/c20.cpp
KINDS = ["d/d", "d/f6", "d/f12", "d/b12", "f2/d", "f2/f6", "f2/b12", "f3/d",
         "b3/d", "b3/f12", "b3/b12", "h3/h12", "l3x4/d", "l3x4/b12", "l6x6/d", "c2x3/f6", "c2x3/d"]
POOL = [(2, 3), (3, 2), (3, 4), (6,), (12,), (2, 2, 3), (2, 3, 2), (2, 3, 4), (4, 4), (13,), (4, 3), (1, 6), (2, 2, 2, 2),
        (3, 7), (7,), (1,), (1, 1), (2,), (4,), (1, 2, 3), (6, 6), (6, 2), (3, 1, 2), (1, 1, 1, 1)]


def drivers(tier):
    # c20.cpp instantiates 9 argument forms (x 4 ranks for the fixed-size ones) of resize per array type: two binaries
    # (8 + 9 kinds x 2 layouts); the sanitizer builds keep the run-time sized forms and leave the casts out (compile time)
    return {"c20a": [("c20.cpp", "ndebug", ("-DC20_PART_A",)), ("c20.cpp", "asan", ("-DC20_PART_A", "-DC20_NO_CAST", "-DC20_FEW_FORMS"))],
            "c20b": [("c20.cpp", "ndebug", ("-DC20_PART_B",)), ("c20.cpp", "asan", ("-DC20_PART_B", "-DC20_NO_CAST", "-DC20_FEW_FORMS"))],
            "c20v": [("c20_views.cpp", "ndebug", ()), ("c20_views.cpp", "asan", ("-DVD_LIGHT",))],
            "c20l": [("c20_legacy.cpp", "ndebug", ()), ("c20_legacy.cpp", "asan", ())],
            # the cast TU instantiates 18 kind tags x 4 raw shapes x 5 element types (55 s): sanitizer build on two shapes only
            "c20c": [("c20_cast.cpp", "ndebug", ()), ("c20_cast.cpp", "asan", ("-DVD_LIGHT",))]}


def prod(s):
    p = 1
    for x in s: p *= x
    return p


def reason(kind, sizes):
    """why ndarray_t<kind>::resize(sizes) is refused ('ok' if it is not) — used only to build the alphabets"""
    sk, bk = kind.split("/")
    n = prod(sizes)
    if sk[0] == "c": return "none"
    if sk[0] == "f" and len(sizes) != int(sk[1:]): return "rank"
    if sk[0] in "bh" and len(sizes) > int(sk[1:]): return "rank"
    if sk[0] == "l" and len(sizes) != len(sk[1:].split("x")): return "rank"
    if bk[0] == "f" and n != int(bk[1:]): return "count"
    if bk[0] in "bh" and n > int(bk[1:]): return "count"
    if sk[0] == "l" and any(a > int(b) for a, b in zip(sizes, sk[1:].split("x"))): return "clip"
    return "ok"


# argument forms of a resize request (drivers/c20_forms.hpp).  Tuple forms (t, c) are accepted by the signature of
# ndarray_t::resize but its body does not compile for them (run-time at() on a tuple) — they are not generated.
FORMS = ["v", "i", "a", "j", "s", "h", "u", "p", "q"]
KINDS_A = ["d/d", "d/f6", "d/f12", "d/b12", "f2/d", "f2/f6", "f2/b12", "f3/d"]
# sequences in which the rank and the trailing extents change from step to step (stale strides / stale extents show)
RANK_CHANGING = [[(2, 3), (2, 2, 2), (4, 3)], [(2, 2, 2), (4, 3), (3, 2, 2)], [(3, 4), (6,), (2, 3)], [(4, 2), (2, 4), (2, 3, 2)],
                 [(2, 3), (3, 2), (1, 6)], [(6,), (2, 3), (3, 2)], [(12,), (3, 4), (2, 3, 2)], [(2, 2), (2, 3), (3, 3)],
                 [(1, 3, 4), (3, 4), (4, 3)], [(2, 3, 2), (3, 2, 2), (2, 2, 3)]]
CAST_TAGS = ["dynamic", "hybrid", "fixed", "ndarray_ls_db", "ndarray_ls_hb", "ndarray_ds_db", "ndarray_hs_hb", "ndarray_fs_fb",
             "ndarray_fs_db", "ndarray_hs_db", "ndarray_cs_fb", "ndarray_ds_hb"]


def key_of(kind): return "c20a" if kind in KINDS_A else "c20b"


def fits_form(kind, form, s):
    """forms the driver can build for this request (fixed-size forms up to rank 4; tuple-shaped arrays index a fixed-size
    request with compile-time indices, so it must have exactly their rank; static vectors hold 4 extents)"""
    if form in "ajpq":
        if len(s) > 4: return False
        if kind.startswith("l") and len(s) != len(kind.split("/")[0][1:].split("x")): return False
    if form in "sh" and len(s) > 4: return False
    return True


def rs(form, s): return "r" + ("" if form == "v" else form) + ",".join(map(str, s))


def alphabet(kind, rot=0):
    if kind.startswith("c"): return ["w4=9", "w1=5", "c", "a"]
    acc = [s for s in POOL if reason(kind, s) == "ok"][:2]
    ref = []
    for why in ("rank", "count", "clip"):
        r = [s for s in POOL if reason(kind, s) == why]
        if r: ref.append(r[0])
    sym = []
    for n, s in enumerate(acc + ref):
        f = FORMS[(n + rot) % len(FORMS)]
        if not fits_form(kind, f, s): f = "v"
        sym.append(rs(f, s))
    a = acc[-1] if acc else (1,)
    return sym + ["w4=9", "c", "a" + ",".join(map(str, a))]


def rand_shape(rng):
    if rng.random() < 0.2: return (rng.choice([1, 2, 3, 4, 6, 7, 12, 13]),)
    return tuple(rng.randint(1, 4) for _ in range(rng.randint(1, 4)))


def rand_op(rng, kind):
    r = rng.random()
    cs = kind.startswith("c")
    if r < 0.45 and not cs:
        s = rng.choice(POOL) if rng.random() < 0.5 else rand_shape(rng)
        f = rng.choice(FORMS)
        return rs(f if fits_form(kind, f, s) else "v", s)
    if r < 0.75: return "w%d=%d" % (rng.randint(0, 40), rng.randint(-9, 99))
    if r < 0.85: return "c"
    if cs: return "a"
    s = rng.choice(POOL) if rng.random() < 0.5 else rand_shape(rng)
    return "a" + ",".join(map(str, s))


def gen_cases(rng, tier):
    out = []
    def add(stream, line, key): out.append((stream, line, key))
    maxlen = 3 if tier == "quick" else 4
    nrand = 120 if tier == "quick" else 1500
    for kn, kind in enumerate(KINDS):
        key = key_of(kind)
        for ln, lay in enumerate("rc"):
            al = alphabet(kind, rot=2 * kn + 5 * ln)          # the forms rotate over kinds and layouts
            tag = "S:%s/%s" % (kind, lay)
            add("exhaustive", "hist %s S:" % tag, key)
            for n in range(1, maxlen + 1):
                if n == maxlen and tier == "quick" and kind not in ("d/d", "f2/d", "b3/b12", "d/f6", "l3x4/d"):
                    # quick: the longest exhaustive layer only for the five structurally different kinds
                    continue
                for h in itertools.product(al, repeat=n):
                    add("exhaustive", "hist %s S:%s" % (tag, ";".join(h)), key)
            for _ in range(nrand):
                n = rng.randint(4, 5 if tier == "quick" else 6)
                add("random", "hist %s S:%s" % (tag, ";".join(rand_op(rng, kind) for _ in range(n))), key)
            if kind.startswith("c"):
                for t in CAST_TAGS: add("histcast", "histcast %s S:w4=9;c;w1=5 S:%s" % (tag, t), key)
                continue
            # every argument form x rank / trailing-extent changing sequences (each accepted resize is followed by a
            # write of a distinct value at every index and a read-back of every index and of the raw buffer)
            seqs = RANK_CHANGING if tier != "quick" else rng.sample(RANK_CHANGING, 4)
            for f in FORMS:
                for seq in seqs:
                    if all(fits_form(kind, f, s) for s in seq):
                        add("forms", "hist %s S:%s" % (tag, ";".join(rs(f, s) for s in seq)), key)
                # mixed forms in one history
                seq = rng.choice(RANK_CHANGING)
                fs = [f] + [rng.choice(FORMS) for _ in seq[1:]]
                add("forms", "hist %s S:%s" % (tag, ";".join(rs(g if fits_form(kind, g, s) else "v", s) for g, s in zip(fs, seq))), key)
            # cast to another kind after such a history
            for t in CAST_TAGS:
                for _ in range(2 if tier == "quick" else 6):
                    seq = rng.choice(RANK_CHANGING); ops = []
                    for s in seq:
                        g = rng.choice(FORMS); ops.append(rs(g if fits_form(kind, g, s) else "v", s))
                        if rng.random() < 0.4: ops.append("w%d=%d" % (rng.randint(0, 20), rng.randint(-9, 99)))
                    add("histcast", "histcast %s S:%s S:%s" % (tag, ";".join(ops), t), key)
    gen_views(rng, tier, add)
    gen_legacy(rng, tier, add)
    gen_casts(rng, tier, add)
    return out


LEGACY = {"fixed2x3": ["w4=9", "w1=5", "c", "a", "gx"], "fixed6": ["w4=9", "w1=5", "c", "a", "gx"],
          "hybrid12x2": ["ra2,3", "rp3,4", "rq4,4", "r2,7", "w4=9", "c", "a3,2", "g", "nf2,2"],
          "hybrid6x1": ["ra4", "rp6", "rq7", "w4=9", "c", "a3", "gb", "nd5"],
          "hybrid12x3": ["ra2,3,2", "rp1,3,4", "rq2,3,4", "w4=9", "c", "a3,2,1", "gy", "nz2,2,2"],
          "dynamic": ["ra2,3", "rs3,4", "rj2,3,4", "ru6", "w4=9", "c", "a3,2", "ge", "nb2,2,2"]}
LFORMS = {"dynamic": ["v", "i", "a", "j", "s", "h", "u", "p", "q"], "hybrid": ["a", "p", "q"]}
SOURCES = ["d", "e", "f", "b", "z", "y", "x"]
XSHAPES = [(6,), (2, 3), (3, 4), (2, 3, 2)]
TAGS = ["fixed", "hybrid", "dynamic"] + ["ndarray_%s_%s" % (a, b) for a in ("cs", "fs", "hs", "ds", "ls") for b in ("fb", "hb", "db")]
DTYPES = ["same", "double", "float", "long", "int8"]


def gen_legacy(rng, tier, add):
    maxlen = 3 if tier == "quick" else 4
    nrand = 150 if tier == "quick" else 1500
    for cls, al in LEGACY.items():
        add("legacy", "lhist S:%s S:" % cls, "c20l")
        for n in range(1, maxlen + 1):
            for h in itertools.product(al, repeat=n):
                if cls == "dynamic" and h[0][0] == "g": continue      # templated operator= on the 0-dim default object: not expressible
                add("legacy", "lhist S:%s S:%s" % (cls, ";".join(h)), "c20l")
        dim = {"hybrid12x2": 2, "hybrid6x1": 1, "hybrid12x3": 3}.get(cls)
        mx = {"hybrid12x2": 12, "hybrid6x1": 6, "hybrid12x3": 12}.get(cls)
        forms = LFORMS["dynamic"] if cls == "dynamic" else LFORMS["hybrid"] if dim else []
        def shape():
            d = dim or rng.randint(1, 3)
            return tuple(rng.randint(1, 4) for _ in range(d))
        def fitting():                                           # a shape the class can hold (constructors do not validate)
            while True:
                s = shape()
                if mx is None or prod(s) <= mx: return s
        for _ in range(nrand if forms else nrand // 5):
            ops = []
            for _ in range(rng.randint(4, 6)):
                r = rng.random()
                if forms and r < 0.4: ops.append(rs(rng.choice(forms), shape()))
                elif r < 0.6: ops.append("w%d=%d" % (rng.randint(0, 30), rng.randint(-9, 99)))
                elif r < 0.7: ops.append("c")
                elif r < 0.8: ops.append("a" + ",".join(map(str, shape())) if forms else "a")
                elif r < 0.9 or not forms: ops.append("g" + (rng.choice(SOURCES) if forms else "x"))
                else:
                    k = rng.choice(SOURCES); s = rng.choice([x for x in XSHAPES if (dim is None or len(x) == dim) and (mx is None or prod(x) <= mx)] or [None]) if k == "x" else fitting()
                    if s is None: k, s = "d", fitting()
                    ops.append("n" + k + ",".join(map(str, s)))
            if cls == "dynamic" and ops[0][0] == "g": ops[0] = "r2,2"
            add("legacy", "lhist S:%s S:%s" % (cls, ";".join(ops)), "c20l")
        if not forms: 
            for t in CAST_TAGS: add("histcast", "lhistcast S:%s S:w4=9;c;w1=5 S:%s" % (cls, t), "c20l")
            continue
        # every argument form of every resize overload x rank / trailing-extent changing sequences
        seqs = {None: RANK_CHANGING, 1: [[(4,), (6,), (3,)]], 2: [[(2, 3), (3, 2), (1, 6)], [(3, 4), (4, 3), (2, 6)], [(4, 2), (2, 2), (2, 5)]],
                3: [[(2, 3, 2), (3, 2, 2), (2, 2, 3)], [(1, 3, 4), (4, 3, 1), (2, 1, 6)]]}[dim]
        for f in forms:
            for seq in seqs:
                if f in "ajpqsh" and any(len(x) > 4 for x in seq): continue
                add("forms", "lhist S:%s S:%s" % (cls, ";".join(rs(f, x) for x in seq)), "c20l")
                add("forms", "lhist S:%s S:%s" % (cls, ";".join(rs(rng.choice(forms), x) for x in seq)), "c20l")
        # every converting constructor / templated assignment source, after a resize that left other extents behind
        for k in SOURCES:
            for _ in range(3 if tier == "quick" else 10):
                s0, s1 = fitting(), (rng.choice([x for x in XSHAPES if (dim is None or len(x) == dim) and (mx is None or prod(x) <= mx)] or [None]) if k == "x" else fitting())
                if s1 is None: continue
                add("forms", "lhist S:%s S:%s;n%s%s;w3=7;g%s" % (cls, rs(rng.choice(forms), s0), k, ",".join(map(str, s1)), k), "c20l")
                add("forms", "lhist S:%s S:%s;g%s;%s" % (cls, rs(rng.choice(forms), s1), k, rs(rng.choice(forms), s0)), "c20l")
        for t in CAST_TAGS:
            for _ in range(3 if tier == "quick" else 8):
                seq = rng.choice(seqs)
                add("histcast", "lhistcast S:%s S:%s S:%s" % (cls, ";".join(rs(rng.choice(forms), x) for x in seq), t), "c20l")


def gen_casts(rng, tier, add):
    for raw in ("r6", "r2x3", "r2x3x2", "r3x4"):
        for tag in TAGS:
            for dt in DTYPES:
                add("casts", "castk S:%s S:%s S:%s" % (raw, tag, dt), "c20c")
    shapes = []
    for d in (1, 2, 3): shapes += list(itertools.product(range(1, 5), repeat=d))
    for s in shapes if tier != "quick" else rng.sample(shapes, 40):
        for tag in ("ndarray_ds_db", "dynamic"):
            # int8 only where every value 7k-4.25 stays inside the type (out-of-range double->int8 is undefined)
            add("casts", "castd %s S:%s S:%s" % (L(s), tag, rng.choice(DTYPES if prod(s) <= 18 else DTYPES[:4])), "c20c")


def L(v): return "L:" + ",".join(str(x) for x in v)


def rand_slice(rng, n):
    r = rng.random()
    if r < 0.25: return "0:%d:1" % n
    if r < 0.5: return "rev"
    a = rng.randint(0, n - 1); b = rng.randint(a + 1, n); st = rng.randint(1, 3)
    return "%d:%d:%d" % (a, b, st)


def slice_len(t, n):
    if t == "rev": return n
    a, b, st = map(int, t.split(":"))
    return (b - a + st - 1) // st


def gen_views(rng, tier, add):
    """write-through: every index of every view of every small source shape, both layouts"""
    maxe = 3 if tier == "quick" else 4
    shapes = []
    for d in (1, 2, 3): shapes += list(itertools.product(range(1, maxe + 1), repeat=d))
    shapes += [(6,), (12,), (2, 3, 4), (4, 3, 2)]
    byprod = {}
    for s in shapes: byprod.setdefault(prod(s), []).append(s)
    nres = 2 if tier == "quick" else 6
    nsl = 2 if tier == "quick" else 6
    for s in shapes:
        for lay in "rc":
            for i in itertools.product(*[range(e) for e in s]):
                add("views", "wt S:ref S:%s %s N %s" % (lay, L(s), L(i)), "c20v")
            for k in range(prod(s)):
                add("views", "wt S:flatten S:%s %s N %s" % (lay, L(s), L((k,))), "c20v")
            for d in rng.sample(byprod[prod(s)], min(nres, len(byprod[prod(s)]))):
                kind = rng.choice(["", " S:arr"])
                for i in itertools.product(*[range(e) for e in d]):
                    add("views", "wt S:reshape S:%s %s %s %s%s" % (lay, L(s), L(d), L(i), kind), "c20v")
            for _ in range(nsl):
                sl = [rand_slice(rng, n) for n in s]
                vs = [slice_len(t, n) for t, n in zip(sl, s)]
                for i in itertools.product(*[range(e) for e in vs]):
                    add("views", "wt S:slice S:%s %s S:%s %s" % (lay, L(s), ";".join(sl), L(i)), "c20v")
    # requests outside the quantifier (element counts differ): only "no crash / Nothing" is observed
    for _ in range(20):
        s = rng.choice(shapes); d = rng.choice(shapes)
        if prod(s) != prod(d): add("malformed", "wt S:reshape S:r %s %s %s" % (L(s), L(d), L([0] * len(d))), "c20v")


def nontrivial(line):
    t = line.split(" ")
    if t[0] not in ("hist", "histcast", "lhist", "lhistcast"): return True
    ops = t[2][2:].split(";") if len(t) > 2 else []
    return len(ops) >= 2 and any(o[0] in "ran" and o.count(",") >= 1 for o in ops if o)


def distribution(streams):
    ops = Counter(); kinds = Counter(); lens = Counter()
    for _, line, _ in streams:
        t = line.split(" ")
        ops[t[0]] += 1
        if t[0] in ("hist", "histcast", "lhist", "lhistcast"):
            kinds[t[1][2:]] += 1
            lens[str(len([o for o in t[2][2:].split(";") if o]) if len(t) > 2 else 0)] += 1
    return {"ops": dict(ops), "kinds": dict(kinds), "history_length": dict(lens)}


# ---------- comparison: '?' in the reference = a value the property does not fix ----------
def _fields(s):
    return [[f.split(",") for f in rec.strip().split("|")] for rec in s.split(";")]


def equal(a, b):
    a = re.sub(r"\s+", "", a); b = re.sub(r"\s+", "", b)
    if a == b: return True
    if "?" not in a and "?" not in b: return False
    ra, rb = a.split(";"), b.split(";")
    if len(ra) != len(rb): return False
    for x, y in zip(ra, rb):
        if x == y: continue
        fx, fy = x.split("|"), y.split("|")
        if len(fx) != len(fy): return False
        for p, q in zip(fx, fy):
            if p == q: continue
            ep, eq = p.split(","), q.split(",")
            if len(ep) != len(eq): return False
            if any(u != v and u != "?" and v != "?" for u, v in zip(ep, eq)): return False
    return True


def classify(line, impl, spec, model):
    t = line.split(" ")
    if t[0] == "hist" and "|" in impl and "|" in spec:
        kind = t[1][2:]
        ri, rs = [r.strip().split("|") for r in impl.split(";")], [r.strip().split("|") for r in spec.split(";")]
        if len(ri) != len(rs) or any(len(r) != 8 for r in ri + rs): return None
        if kind.endswith("/c"):
            # (1) strides() of a column-major array: everything else agrees and the accessor reports the row-major strides
            patched = " ; ".join("|".join(r[:2] + [s[2]] + r[3:]) for r, s in zip(ri, rs))
            if equal(patched, spec):
                def rowmajor(shape):
                    e = [int(x) for x in shape.split(",") if x]
                    return ",".join(str(prod(e[i + 1:])) for i in range(len(e)))
                if all(r[2] == rowmajor(r[1]) for r in ri): return "colmajor-strides-accessor"
                return None
    return None
