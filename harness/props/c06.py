"""C06 — broadcasting follows NumPy's rules and is symmetric, associative, idempotent."""
import itertools, re, sys
from collections import Counter
from harness.props import c09

ID = "C06"
MODEL_MODULES = ["Base", "Index", "Broadcast"]
HANDLERS = ["h_c06.ml"]
CLAIM = dict(
    text=("Kernel-checked for every rank and all positive extents: broadcast_shape succeeds exactly when NumPy's rule allows "
          "and yields the per-axis maximum; it is commutative, associative (failure included), idempotent, absorbing, scalars are "
          "neutral; the variadic form is invariant under any permutation and any split of the operand list; shape_broadcast_to "
          "accepts exactly NumPy's one-directional rule and element i of broadcast_to is the source element with stretched axes "
          "read at 0 and prepended axes dropped (and that index is in bounds). Tied to the C++ by running index::broadcast_shape "
          "(2/3/4 operands, 6 container kinds; plus generated translation units instantiating it for 11 container kinds and 26 mixed "
          "pairs incl. compile-time constants, clipped integers, tight static_vector, utl::tuple, constexpr evaluation, on compatible, "
          "two-sided and incompatible shape pairs of unequal rank), index::shape_broadcast_to, view::broadcast_to / array::broadcast_to and "
          "view::broadcast_arrays on all pairs of small shapes (compatible or not) and every element of every result."),
    ref="5.6", technique="Coq proof (induction on right-aligned shapes) + differential correspondence with the extracted model", extra="")
RULE = ("all ordered pairs of shapes dim 0..3 extents 1..3 (quick; thorough: dim 0..4, extents 1..4 sampled to 40k pairs) through "
        "index::broadcast_shape with rotating container kinds; seeded triples/quadruples; shape_broadcast_to on all pairs; "
        "view/array broadcast_to and broadcast_arrays element-by-element on compatible and incompatible pairs. "
        "48 (thorough 200) seeded shape pairs x every container kind and mixed pair (generated). non-trivial = some operand of dim >= 2 with an extent > 1; distinct = distinct case lines")
KINDS = ["vec", "veci", "sv", "arr", "arri", "tup"]
THEOREM_STATUS = {"proved": ["C06_binary_rule", "C06_algebra", "C06_nary_order_and_grouping", "C06_broadcast_to_shape",
                             "C06_broadcast_to_element"], "partial": [], "refuted": []}
ASSUMPTIONS = ["extents are positive (a 0 extent breaks associativity: Example C06_zero_extent_breaks_assoc)"]


def drivers(tier):
    # "c09k": GENERATED translation units (C09's machinery) calling index::broadcast_shape and index::shape_broadcast_to once per container kind and per MIXED
    # pair of kinds — compile-time constants, clipped integers, std::array, static_vector (loose and tight), utl::vector, std::tuple,
    # utl::tuple, raw arrays, constexpr evaluation — which a run-time dispatching driver cannot express
    out = {"c06": [("c06.cpp", "ndebug", ()), ("c06.cpp", "asan", ("-DVD_LIGHT",))]}
    if not SKIP_GENERATED: out["c09k"] = c09.drivers(tier)["c09"]
    return out


SKIP_GENERATED = False      # set by C02, which borrows only the sanitizer-flavour stream of this property


def model_for(dkey):
    return c09 if dkey == "c09k" else sys.modules[__name__]


def L(v): return "L:" + ",".join(str(x) for x in v)
def A(shape):
    n = 1
    for x in shape: n *= x
    return "A:%s:%s" % (",".join(map(str, shape)), ",".join(map(str, range(n))))


def gen_cases(rng, tier):
    out = []
    def add(stream, line): out.append((stream, line, "c06"))
    maxd, maxe = (3, 3) if tier == "quick" else (4, 4)
    shapes = [()]
    for d in range(1, maxd + 1): shapes += list(itertools.product(range(1, maxe + 1), repeat=d))
    pairs = list(itertools.product(shapes, shapes))
    if tier == "thorough" and len(pairs) > 40000: pairs = rng.sample(pairs, 40000)
    for n, (a, b) in enumerate(pairs):
        ka = KINDS[n % 6]; kb = KINDS[(n // 6 + n) % 6]
        if not a and ka in ("arr", "arri", "tup"): ka = "vec"
        if not b and kb in ("arr", "arri", "tup"): kb = "vec"
        add("pairs", "bshape S:%s S:%s %s %s" % (ka, kb, L(a), L(b)))
        if n % 3 == 0: add("pairs", "bto_shape S:%s S:%s %s %s" % (ka if ka != "tup" else "vec", kb if kb != "tup" else "vec", L(a), L(b)))
    # compatible-biased pairs for the element maps
    def stretch(t):
        s = [1 if rng.random() < 0.4 else e for e in t]
        k = rng.randint(0, len(s))
        return tuple(s[k:])
    nel = 400 if tier == "quick" else 4000
    for _ in range(nel):
        t = rng.choice(shapes[1:])
        a = stretch(t) or (1,)
        if rng.random() < 0.15: a = rng.choice(shapes[1:])
        add("elements", "bto_view S:%s %s %s" % (rng.choice(["vec", "veci", "arr", "sv"]), A(a), L(t)))
        if rng.random() < 0.3: add("elements", "bto_eval %s %s" % (A(a), L(t)))
        b = stretch(t) or (1,)
        if rng.random() < 0.15: b = rng.choice(shapes[1:])
        add("elements", "barrays %s %s" % (A(a), A(b)))
        if rng.random() < 0.3:
            c = stretch(t) or (1,)
            add("elements", "barrays3 %s %s %s" % (A(a), A(b), A(c)))
    ntr = 600 if tier == "quick" else 6000
    for _ in range(ntr):
        t = rng.choice(shapes)
        tr = [stretch(t) if rng.random() < 0.85 else rng.choice(shapes) for _ in range(4)]
        k = rng.choice(["vec", "veci", "sv"])
        add("nary", "bshape3 S:%s %s %s %s" % (k, L(tr[0]), L(tr[1]), L(tr[2])))
        add("nary", "bshape4 %s %s %s %s" % (L(tr[0]), L(tr[1]), L(tr[2]), L(tr[3])))
    if not SKIP_GENERATED:
        for line in c09.gen_for(["bshape", "bto"], 36 if tier == "quick" else 150, rng, tier):
            out.append(("kinds-generated", line, "c09k"))
    return out


def nontrivial(line):
    if line.startswith("g "): return c09.nontrivial(line)
    for m in re.findall(r"(?:L:|A:)([0-9,]*)", line):
        sh = [int(x) for x in m.split(",") if x]
        if len(sh) >= 2 and any(x > 1 for x in sh): return True
    return False


def distribution(streams):
    ops = Counter(); dims = Counter()
    for _, line, _ in streams:
        ops[line.split(" ")[0]] += 1
        for m in re.findall(r"(?:L:|A:)([0-9,]*)", line):
            dims[str(len([x for x in m.split(",") if x]))] += 1
    return {"ops": dict(ops), "operand_dims": dict(dims)}


def classify(line, impl, spec, model):
    if line.startswith("g "):
        cls = c09.classify(line, impl, spec, model)
        return ("kinds:" + cls) if cls else None
    return None
