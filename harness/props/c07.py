"""C07 — element-wise functions apply the scalar operation to broadcast operands."""
import itertools, re
from collections import Counter

ID = "C07"
MODEL_MODULES = ["Base", "Index", "Broadcast", "Ufunc", "Dtype"]
HANDLERS = ["h_c07.ml"]
CLAIM = dict(
    text=("Kernel-checked for EVERY rank, all positive extents, ANY element types and ANY scalar operation f (Section variables): "
          "the binary element-wise view (broadcast_arrays, then ufunc_t::operator()) exists exactly when NumPy broadcasts the two "
          "shapes, has NumPy's broadcast shape, and element i = f(a[i'], b[i'']) where i', i'' are i with stretched axes read at 0 and "
          "prepended axes dropped (both reads in bounds); the same for three operands (where); unary views keep the shape; the outer "
          "variant has shape shape(a)++shape(b) and element (i++j) = f(a[i], b[j]); scalars are operands of shape []. In the model a view is a VALUE "
          "over its leaf arrays (an operand is a shape and an element function; composing views composes the functions); the correspondence checks "
          "the ownership that makes this true: a 'deferred evaluation' stream builds composed views (unary of a view, binary / outer / where with view "
          "and scalar temporaries on either side) inside a noinline helper, returns them by value, calls the helper twice with different data and "
          "only then reads every element (run-time shaped arrays and fixed-shape nested std::array; ndebug and ASan). The element-type "
          "table promote_cxx (C++ integral promotion + usual arithmetic conversions, LP64) is symmetric, never narrower than int, one of "
          "the promoted operand types, floating iff an operand is — decided exhaustively over the 11x11 type pairs. "
          "CORRESPONDENCE ONLY: (a) routing: view::add/subtract/multiply/less, a custom non-commutative non-associative op 3x-y through "
          "view::broadcast_binary_ufunc, view::where, view::unary_ufunc, outer_add/outer_subtract/view::outer(custom op) over all pairs of "
          "shapes dim 0..3 extents 1..3 incl. scalars, element-wise views and fixed-rank arrays as operands, int64 data, exact; "
          "(b) identity of 86 element-wise functions (68 ufuncs incl. bitwise/logical/comparison/math, 18 activations): view::<fn> on a "
          "small array compared BIT FOR BIT (float64 and float32; moderate values AND the ends of the type's range: MAX/2, k*sqrt(MAX), k*sqrt(MIN), MIN, denormals, +-0, +-inf, NaN, mixed large/tiny pairs; the reference is libm's function on the same element type) with the scalar formula evaluated in the same process with the same libm — a C++-side "
          "oracle: the model side only prints the constant expectation 'ok' (there is no Coq model of libm); (c) element types of "
          "add/subtract/multiply/divide/less/equal views over the 10x10 numeric type pairs and of sum, read off the view type and compared "
          "with promote_cxx / bool / the operand type; every ARGUMENT FORM selecting the result type — fn(a,b), casting::auto_t, casting::same_kind_t, "
          "casting::equiv_t (add, subtract, multiply), outer_<fn>(a,b,dtype), reduce_/accumulate_<fn>(a,axis,dtype) — on int8/uint8/int16/uint16/int32/"
          "int64/float/double with values whose exact result leaves the narrow type's range: values AND the element type of the view and of the "
          "evaluated array are compared with the table; array op scalar over element-type PAIRS (int array x fractional float scalar, narrow int x wide "
          "int scalar, float array x double scalar; scalar on either side; add subtract multiply divide power maximum minimum less where) with the "
          "element type tag (a defect found here — maximum / minimum / power / where converted the scalar to the array's element type first — was "
          "repaired in /repo d41ab70; regression Example C07_regression_scalar_operand); values AND types are compared with the table (C07_result_type_forms: default/auto = C++ promotion, same_kind/equiv = operand type, dtype "
          "= requested); operands with compile-time size but run-time shape (std::array buffer) evaluated under one- and two-sided broadcasting. NOT COVERED: view::clip and the n-ary view::ufunc with three operands do not "
          "instantiate in the pinned tree for any operand kind tried (static_assert; the suite's clip test is commented out of its "
          "CMakeLists) — compile-rejected, reported in notes/C07.md; view::divide, power and the other ufuncs have no result-type "
          "argument form on their element-wise entry point."),
    ref="5.7", technique="Coq proof (on top of the C06 broadcast_to element theorem) + differential correspondence with the extracted "
                         "model; C++-side oracle for function identity", extra="")
RULE = ("all ordered pairs of shapes dim 0..3 extents 1..3 (dim 0 = scalar), compatible or not, op / operand kind rotating; a "
        "compatible-biased stream of stretched shapes for binary, ternary (where) and outer; every function name once for the identity "
        "check; 200 sampled rank-4 pairs; 320 deferred-evaluation cases (8 composed forms x run-time / fixed shapes); every numeric type pair x op for the element-type table. non-trivial = an operand of dim >= 2 with an extent > 1; "
        "distinct = distinct case lines")
THEOREM_STATUS = {"proved": ["C07_unary", "C07_binary_shape", "C07_binary_elem", "C07_ternary", "C07_outer", "C07_dtype_table", "C07_result_type_forms"],
                  "partial": [], "refuted": []}
ASSUMPTIONS = ["extents are positive", "LP64 data model for the element-type table (int 32 bit, long 64 bit)",
               "identity of the scalar functions (libm) is compared in-process, not modelled"]

FNS = ("arccos arccosh arcsin arcsinh arctan arctanh cbrt ceil cos cosh exp exp2 expm1 fabs floor isfinite isinf isnan log log10 "
       "log1p log2 negative positive reciprocal rint signbit sin sinh sqrt square tan tanh trunc logical_not deg2rad radians degrees "
       "rad2deg add subtract multiply divide arctan2 fmod hypot power fmax fmin maximum minimum equal not_equal greater greater_equal "
       "less less_equal logical_and logical_or logical_xor ldexp bitwise_and bitwise_or bitwise_xor mod left_shift right_shift invert "
       "relu relu6 sigmoid silu softsign tanhshrink hardswish log_sigmoid mish selu celu elu hardshrink hardtanh leaky_relu prelu "
       "softplus softshrink").split()
TYPES = ["i8", "u8", "i16", "u16", "i32", "u32", "i64", "u64", "f32", "f64"]
OPS2 = ["add", "subtract", "multiply", "lin", "lin", "less"]


def drivers(tier):
    return {"c07": [("c07.cpp", "ndebug", ()), ("c07.cpp", "asan", ("-DVD_LIGHT",))],
            "c07i": [("c07_ident.cpp", "ndebug", ())],
            # two translation units answer the same case stream (each says "unsupported" for the other's ops): built in parallel
            "c07d": [("c07_dtype.cpp", "ndebug", ()), ("c07_cast.cpp", "ndebug", ())]}


def size(shape):
    n = 1
    for x in shape: n *= x
    return n


def operand(rng, shape):
    if len(shape) == 0: return "I:%d" % rng.randint(-9, 9)
    return "A:%s:%s" % (",".join(map(str, shape)), ",".join(str(rng.randint(-9, 9)) for _ in range(size(shape))))


def gen_cases(rng, tier):
    out = []
    maxd, maxe = (3, 3) if tier == "quick" else (4, 3)
    shapes = [()]
    for d in range(1, maxd + 1): shapes += list(itertools.product(range(1, maxe + 1), repeat=d))
    pairs = list(itertools.product(shapes, shapes))
    if tier == "thorough" and len(pairs) > 12000: pairs = rng.sample(pairs, 12000)
    for n, (a, b) in enumerate(pairs):
        op = OPS2[n % 6]
        ka = ["arr", "view", "arr", "fix"][(n // 6) % 4] if a else "arr"
        if ka == "fix" and len(a) > 3: ka = "arr"
        kb = ["arr", "arr", "view"][(n // 24) % 3] if b else "arr"
        out.append(("pairs", "ufunc2 S:%s S:%s S:%s %s %s" % (op, ka, kb, operand(rng, a), operand(rng, b)), "c07"))
    def stretch(t):
        s = [1 if rng.random() < 0.4 else e for e in t]
        k = rng.randint(0, len(s))
        return tuple(s[k:])
    nel = 500 if tier == "quick" else 5000
    for i in range(nel):
        t = rng.choice(shapes[1:])
        a, b, c = stretch(t), stretch(t), stretch(t)
        if rng.random() < 0.1: b = rng.choice(shapes)
        out.append(("stretched", "ufunc2 S:%s S:%s S:%s %s %s" % (OPS2[i % 6], ["arr", "view", "fix"][i % 3] if a else "arr", "arr",
                                                                   operand(rng, a), operand(rng, b)), "c07"))
        cond = a or (1,)
        out.append(("ternary", "ufunc3 S:where %s %s %s" % ("A:%s:%s" % (",".join(map(str, cond)), ",".join(str(rng.randint(0, 1)) for _ in range(size(cond)))),
                                                           operand(rng, b), operand(rng, c)), "c07"))
        if i % 2 == 0:
            x, y = rng.choice(shapes[1:]), rng.choice(shapes[1:])
            if len(x) + len(y) <= 4:
                out.append(("outer", "outer S:%s %s %s" % (["add", "subtract", "lin"][i % 3], operand(rng, x), operand(rng, y)), "c07"))
        if i % 5 == 0:
            out.append(("unary", "ufunc1 S:%s S:%s %s" % (["negative", "square", "lin1"][i % 3], ["arr", "view", "fix"][(i // 5) % 3], operand(rng, t)), "c07"))
    # rank 4 (and 4 against lower ranks): sampled
    for i in range(200 if tier == "quick" else 2000):
        t = tuple(rng.randint(1, 3) for _ in range(4))
        a = tuple(1 if rng.random() < 0.3 else e for e in t)
        b = stretch(t)
        if rng.random() < 0.5: a, b = b, a
        out.append(("rank4", "ufunc2 S:%s S:%s S:arr %s %s" % (OPS2[i % 6], ["arr", "view"][i % 2] if a else "arr", operand(rng, a), operand(rng, b)), "c07"))
    # deferred evaluation: composed views built from temporaries inside a helper, two calls before either result is read
    FORMS = ["u1", "binl", "binr", "bins", "outl", "outr", "outs", "wh"]
    def arr(shape, lo=-9, hi=9): return "A:%s:%s" % (",".join(map(str, shape)), ",".join(str(rng.randint(lo, hi)) for _ in range(size(shape))))
    for i in range(320 if tier == "quick" else 2400):
        form = FORMS[i % 8]
        if (i // 8) % 4 == 3: kind, sa, sb = "fs", (2, 3), (3,)
        else:
            kind = "dyn"; t = rng.choice(shapes[1:])
            if form.startswith("out"):
                sa, sb = rng.choice(shapes[1:]), rng.choice(shapes[1:])
                if len(sa) + len(sb) > 4: sa, sb = sa[:2], sb[:2]
            else:
                sa = tuple(1 if rng.random() < 0.3 else e for e in t); sb = stretch(t) or (1,)
                if form == "wh": sa = t                         # where takes its shape from the broadcast of all three
        lo = 0 if form == "wh" else -9
        out.append(("deferred", "defer S:%s S:%s %s %s I:%d %s %s I:%d" % (form, kind, arr(sa, lo, 9 if form != "wh" else 2), arr(sb), rng.randint(-5, 5),
                                                                            arr(sa, lo, 9 if form != "wh" else 2), arr(sb), rng.randint(-5, 5)), "c07"))
    for f in FNS: out.append(("identity", "ident S:%s" % f, "c07i"))
    # operand regimes: n = moderate values, x = the ends of the element type's range (large, tiny, denormal, +-0, +-inf, NaN and mixed pairs);
    # float32 and float64 for the unary and binary math functions, float64 for the activations
    NMATH = FNS.index("ldexp") + 1
    for f in FNS[:NMATH]:
        out.append(("identity", "ident S:%s S:f32 S:n" % f, "c07i"))
        out.append(("identity-extremes", "ident S:%s S:f64 S:x" % f, "c07i"))
        out.append(("identity-extremes", "ident S:%s S:f32 S:x" % f, "c07i"))
    for f in FNS[FNS.index("relu"):]: out.append(("identity-extremes", "ident S:%s S:f64 S:x" % f, "c07i"))
    for op in ["add", "subtract", "multiply", "divide", "less", "equal"]:
        for t1 in TYPES:
            for t2 in TYPES: out.append(("dtype", "dtype S:%s S:%s S:%s" % (op, t1, t2), "c07d"))
    for t1 in TYPES: out.append(("dtype", "dtype S:sum S:%s S:%s" % (t1, t1), "c07d"))
    # every argument form that selects the result element type, narrow and wide element types, values whose exact result
    # leaves the narrow type's range but never overflows the C++ arithmetic type of the operation (no UB)
    RANGE = {"i8": (-128, 127), "u8": (0, 255), "i16": (-32768, 32767), "u16": (0, 40000), "i32": (-30000, 30000), "i64": (-30000, 30000),
             "f32": (-2000, 2000), "f64": (-30000, 30000)}
    def tarr(shape, t, fn):
        lo, hi = RANGE[t]
        if fn != "multiply" and t in ("i32", "i64", "f64"): lo, hi = -10**9, 10**9
        return "A:%s:%s" % (",".join(map(str, shape)), ",".join(str(rng.randint(lo, hi)) for _ in range(size(shape))))
    cshapes = [((3,), (3,)), ((2, 3), (3,)), ((2, 1), (1, 3)), ((4,), (1,)), ((2, 2), (2, 1)), ((1, 3), (2, 1, 1))]
    for rep in range(2 if tier == "quick" else 8):
        for fn in ("add", "subtract", "multiply"):
            for form in ("def", "auto", "same", "equiv"):
                for t in ("i8", "u8", "i16", "u16", "i32", "i64", "f32", "f64"):
                    sa, sb = rng.choice(cshapes)
                    out.append(("cast-forms", "cast S:%s S:%s S:%s %s %s" % (fn, form, t, tarr(sa, t, fn), tarr(sb, t, fn)), "c07d"))
    OPAIRS = [("i8", "none"), ("i8", "i16"), ("i8", "i64"), ("u8", "none"), ("u8", "i32"), ("u8", "f64"), ("i16", "i8"), ("i32", "i8"), ("i32", "i64"), ("i32", "f32")]
    for rep in range(3 if tier == "quick" else 12):
        for fn in ("add", "multiply"):
            for t, d in OPAIRS:
                sa, sb = rng.choice([(2,), (3,), (2, 2)]), rng.choice([(2,), (3,)])
                tt = "f32" if d == "f32" else t          # keep products exactly representable in float32
                out.append(("cast-forms", "outerd S:%s S:%s S:%s %s %s" % (fn, t, d, tarr(sa, tt if fn == "multiply" else t, "multiply"),
                                                                            tarr(sb, tt if fn == "multiply" else t, "multiply")), "c07d"))
    for variant in ("reduce", "accum"):
        for fn in ("add", "multiply"):
            for t in ("i8", "u8", "i16", "u16", "i32", "i64", "f32", "f64"):
                for d in ("none", "i8", "i16", "i32", "i64", "f32", "f64"):
                    out.append(("dtype", "redt S:%s S:%s S:%s S:%s" % (variant, fn, t, d), "c07d"))
    # array op scalar over element-type PAIRS, scalar on either side (a floating scalar is written n and means n/4)
    APAIRS = [("i32", "f64"), ("i8", "i32"), ("u8", "i64"), ("i16", "f32"), ("f32", "f64"), ("i64", "f64")]
    for rep in range(2 if tier == "quick" else 10):
        for at, st in APAIRS:
            for fn in ("add", "subtract", "multiply", "divide", "power", "maximum", "minimum", "less", "where"):
                for pos in ("l", "r"):
                    cnt = rng.choice([3, 4, 6]); fl = st.startswith("f")
                    lo, hi = {"i8": (-100, 100), "u8": (0, 255), "i16": (-300, 300)}.get(at, (-500, 500))
                    if fn == "power":
                        # base > 0; the array is the exponent when the scalar is on the left
                        data = [rng.randint(0, 4) if pos == "l" else rng.randint(1, 9) for _ in range(cnt)]
                        n = rng.choice([2, 5, 6, 10, 13]) if fl else rng.randint(1, 3)
                    else:
                        data = [rng.randint(lo, hi) for _ in range(cnt)]
                        if fn == "divide": data = [d if d != 0 else 7 for d in data]
                        if fn == "where": data = [0 if rng.random() < 0.4 else d for d in data]
                        n = rng.choice([-13, -6, 1, 3, 10, 17, 50, 401]) if fl else (rng.choice([1000, -1000, 300, 70000]) if fn != "multiply" else rng.choice([1000, -300]))
                        if at == "u8" and n < 0 and fn in ("maximum", "minimum", "less", "where", "divide"): n = -n   # keep clear of signed/unsigned surprises of i64 vs u8? (u8 promotes to i64: fine) but stay simple
                    out.append(("array-scalar-types", "ascal S:%s S:%s S:%s S:%s A:%d:%s I:%d" % (fn, at, st, pos, cnt, ",".join(map(str, data)), n), "c07d"))
    # operands with a compile-time SIZE (std::array buffer) but a run-time shape, evaluated: one- and TWO-sided broadcasting
    K3 = [(3,), (3, 1), (1, 3), (1, 1, 3), (3, 1, 1)]; K4 = [(4,), (4, 1), (1, 4), (2, 2), (2, 1, 2), (1, 4, 1)]
    for i in range(60 if tier == "quick" else 400):
        na, nb = [(3, 3), (3, 4), (4, 3), (4, 4)][i % 4]
        sa = rng.choice(K3 if na == 3 else K4); sb = rng.choice(K3 if nb == 3 else K4)
        if i % 3 == 0: sa, sb = ((na, 1), (1, nb)) if i % 2 else ((1, na), (nb, 1))       # two-sided
        out.append(("ct-size-kinds", "evalk S:%s I:%d I:%d %s %s" % (["add", "lin"][(i // 4) % 2], na, nb, operand(rng, sa), operand(rng, sb)), "c07d"))
    return out


def nontrivial(line):
    if line.startswith("ident") or line.startswith("dtype"): return True
    for m in re.findall(r"A:([0-9,]*):", line):
        sh = [int(x) for x in m.split(",") if x]
        if len(sh) >= 2 and any(x > 1 for x in sh): return True
    return False


def distribution(streams):
    ops = Counter(); dims = Counter()
    for _, line, _ in streams:
        t = line.split(" ")
        ops[t[0] + (":" + t[1][2:] if t[0] not in ("ident", "dtype") else "")] += 1
        for m in re.findall(r"A:([0-9,]*):", line): dims[str(len([x for x in m.split(",") if x]))] += 1
        dims["0"] += len(re.findall(r" I:-?\d+", line))
    return {"ops": dict(ops), "operand_dims": dict(dims)}


def classify(line, impl, spec, model):
    return None
