"""C08 — reductions and accumulations fold exactly the addressed elements, in order."""
import itertools, re
from collections import Counter

ID = "C08"
MODEL_MODULES = ["Base", "Index", "Broadcast", "Dtype", "Reduce"]
HANDLERS = ["h_c08.ml"]
CLAIM = dict(
    text=("Kernel-checked for EVERY rank, all positive extents, EVERY binary operation f (a Section variable: no commutativity or "
          "associativity available, so the order of the fold is part of the statement) and every element type: for an axis argument "
          "NumPy accepts (None, one axis, or a duplicate-free list of axes in any order and sign), index::remove_dims yields NumPy's "
          "result shape (reduced axes dropped, or kept with extent 1 under keepdims) and reduce_t::operator() at every result index "
          "(reduction_slices -> slice -> flatten -> reducer_t) returns the LEFT fold, seeded by `initial` or by the first element, of "
          "exactly the source elements whose non-reduced coordinates equal the result index, the reduced coordinates running in "
          "nested-loop (increasing index) order; the result depends on the axis argument only through the set of normalised axes; "
          "reducing over all axes equals axis=None; accumulate along any valid axis, written with either sign (index::wrap_axis), is the "
          "running left fold a[..,0..i,..] with the source shape; sum/prod/amax/amin are the instances f = +, *, max, min over Z; mean's divisor equals the number of "
          "folded elements. (Two defects found by this check were repaired centrally: accumulate ignored a negative axis; "
          "vector_norm(double, axis=None) took the root in single precision.) Tied to the C++ by running view::reduce (general entry point, incl. multi-axis subtract), reduce_add / multiply / "
          "subtract / maximum / minimum, sum, prod, amax, amin, accumulate_* / cumsum / cumprod on every shape of dim 1..4 extents "
          "1..3, every non-empty axis subset in two orders with mixed signs, axis None, keepdims absent / run-time bool / True_ / False_, "
          "initial absent / present, axis as int / std::vector / std::array / compile-time constants (meta::ct, tuple of ct), run-time-rank and fixed-rank arrays. mean / var / stddev / "
          "The accumulator lives in the RESULT type (requested dtype, else the source element type): the theorems are stated for a source type E, "
          "a result type R, a conversion cast : E -> R and a step f : R -> E -> R, and C08_fold_in_result_type shows that for integer-valued data, "
          "+ * -, converting into R after every step equals NumPy's exact fold converted once — for reduce and accumulate. Corresponded at "
          "type-width boundaries: index::remove_dims / view::sum with axis arguments of every integer width and signedness (int8..uint64 as "
          "scalar, std::vector, std::array) and kept extents around 2^7, 2^8 (view) and 2^15, 2^16, 2^31, 2^32 (bare shapes); sum / prod / cumsum / "
          "cumprod / accumulate_add on uint8 / int8 / int32 sources with wider, narrower, other-signedness and floating dtypes, with values that "
          "overflow the source type or the narrower dtype. "
          "A view is a value over its leaf arrays: a 'deferred evaluation' stream reduces / accumulates temporary operand views built inside a noinline "
          "helper, returned by value and read only after a second call of the helper (run-time shaped and fixed-shape operands, ndebug and ASan). "
          "Initial values of ANOTHER type than the element / result type (int initial on fractional doubles, int32 initial on int64 data beyond 2^32, float "
          "on double, double on int) through sum / prod / amax / amin / view::reduce with an axis, an axis list + run-time keepdims, and None; and every "
          "OVERLOAD ARITY of the wrappers — view::sum / prod (2..5 arguments, dtype / initial present or None), amax / amin (1..5), reduce_add / "
          "reduce_multiply (2..5), cumsum / cumprod / accumulate_add / accumulate_multiply (2..3), mean (2..4), var / stddev (2..5), array::sum / prod / "
          "cumsum / cumprod / mean — each called with int8 data that leaves int8, dtype int32 (float64), a non-identity initial, keepdims True, the result "
          "element type tag compared. "
          "An explicitly requested result dtype (float64 / int32 on int64 data) and uint8 data (the accumulator keeps the operand's element type: "
          "f = op mod 256, an instance of the arbitrary f) are corresponded as well. "
          "vector_norm (double data, relative tolerance 1e-9; the model composes the views as mean.hpp / var.hpp do with the modelled "
          "fold order, the spec is the textbook formula on the designated elements) and trace are correspondence-level compositions: "
          "floating-point rounding of the C++ is outside the Coq model."),
    ref="5.8", technique="Coq proof (E.9 lifted: slices -> nested-loop enumeration, induction over the axis mask) + differential "
                         "correspondence with the extracted model", extra="")
RULE = ("every shape dim 1..4 extents 1..3 (thorough: 1..4) x every non-empty subset of axes, each in sorted and in shuffled order with "
        "random signs, plus axis None and the empty axis list; op / entry point / keepdims spelling / initial / axis container / array "
        "kind rotate so that every combination class occurs; accumulate on every shape x every axis in both signs; statistics on a "
        "sample of shapes; explicit dtype and uint8 samples; compile-time axis constants from a fixed table; a few out-of-quantifier axis arguments (spec unspecified). non-trivial = source of dim >= 2 with an extent > 1; "
        "distinct = distinct case lines")
THEOREM_STATUS = {"proved": ["C08_reduce_shape", "C08_reduce_elem", "C08_axes_order_and_sign", "C08_axes_permutation_same_mask",
                             "C08_reduce_all_axes_eq_none", "C08_accumulate", "C08_sum_prod_amax_amin", "C08_fold_in_result_type",
                             "C08_mean_divisor_counts_folded_elements"],
                  "partial": [], "refuted": []}
ASSUMPTIONS = ["extents are positive; axes valid and duplicate-free (outside: C15)",
               "the {start,stop} slice view with 0 <= start <= stop <= extent reads source coordinate start+k (slice arithmetic is C05)",
               "conversion of an out-of-range value to a SIGNED integer type is modular (gcc/clang; implementation-defined before C++20); "
               "float dtypes are exact on the generated values (< 2^24 / 2^53); no step overflows its C++ arithmetic type",
               "integer data stays inside int64 (generators keep partial results small); floating-point statistics only up to 1e-9"]

OPS_GENERAL = ["add", "subtract", "lin", "lin", "multiply", "maximum", "minimum"]
OPS_NAMED = ["add", "multiply", "maximum", "minimum", "sum", "prod", "amax", "amin"]
KDS = ["def", "rt0", "rt1", "ct0", "ct1"]


def drivers(tier):
    return {"c08": [("c08.cpp", "ndebug", ()), ("c08.cpp", "asan", ("-DVD_LIGHT",))],
            # two translation units answer the same case stream (each says "unsupported" for the other's ops): built in parallel
            "c08s": [("c08_stat.cpp", "ndebug", ()), ("c08_types.cpp", "ndebug", ()), ("c08_forms.cpp", "ndebug", ())]}


def L(v): return "L:" + ",".join(str(x) for x in v)


def data_for(rng, op, n):
    if op in ("multiply", "prod", "cumprod"):
        d = [rng.choice([1, -1, 1, 1]) for _ in range(n)]
        for _ in range(min(n, 8)):
            d[rng.randrange(n)] = rng.choice([2, 3, -2, -3, 2])
        return d
    return [rng.randint(-9, 9) for _ in range(n)]


def A(shape, data):
    return "A:%s:%s" % (",".join(map(str, shape)), ",".join(map(str, data)))


def size(shape):
    n = 1
    for x in shape: n *= x
    return n


def gen_cases(rng, tier):
    out = []
    maxe = 3 if tier == "quick" else 4
    shapes = []
    for d in range(1, 5): shapes += list(itertools.product(range(1, maxe + 1), repeat=d))
    cnt = itertools.count()

    def reduce_line(shape, axis_tok, akind, n):
        api = rng.choice(["reduce", "named"])
        op = rng.choice(OPS_GENERAL) if api == "reduce" else rng.choice(OPS_NAMED)
        if api == "named" and axis_tok.startswith("I:") and rng.random() < 0.3: op = "subtract"   # reduce_subtract: single int axis only
        kd = KDS[n % 5]
        arrk = "fix" if (api == "reduce" and op in ("add", "subtract", "lin") and rng.random() < 0.5) else "dyn"
        if rng.random() < 0.5: init = "N"
        else: init = "I:%d" % (rng.choice([1, -1, 2, -2, 3]) if op in ("multiply", "prod") else rng.randint(-20, 20))
        return "reduce S:%s S:%s S:%s S:%s S:%s %s %s %s" % (op, api, akind, kd, arrk, A(shape, data_for(rng, op, size(shape))), axis_tok, init)

    for shape in shapes:
        d = len(shape)
        for k in range(1, d + 1):
            for sub in itertools.combinations(range(d), k):
                for order in (0, 1):
                    ax = list(sub)
                    if order == 1: rng.shuffle(ax); ax = ax[::-1] if ax == list(sub) else ax
                    ax = [a - d if rng.random() < 0.5 else a for a in ax]
                    n = next(cnt)
                    if k == 1 and n % 2 == 0:
                        out.append(("axes", reduce_line(shape, "I:%d" % ax[0], "int", n), "c08"))
                    else:
                        out.append(("axes", reduce_line(shape, L(ax), "arr" if n % 3 == 0 else "vec", n), "c08"))
        for _ in range(2):
            n = next(cnt)
            out.append(("none", reduce_line(shape, "N", "none", n), "c08"))
        if rng.random() < 0.3:
            out.append(("none", reduce_line(shape, "L:", "vec", next(cnt)), "c08"))
        # accumulate: every axis, both signs
        for axis in range(d):
            for sign in (0, 1):
                n = next(cnt)
                op = ["cumsum", "cumprod", "subtract", "lin", "add", "multiply", "maximum", "minimum"][n % 8]
                arrk = "fix" if n % 3 == 0 else "dyn"
                out.append(("accumulate", "accum S:%s S:%s %s I:%d" % (op, arrk, A(shape, data_for(rng, op, size(shape))), axis - d if sign else axis), "c08"))
    # compile-time axis constants (meta::ct / tuple of ct): the driver's fixed table
    CT = [([0], 1), ([-1], 1), ([0, 1], 2), ([-1, 0], 2), ([2, 0], 3), ([1, -3, 2], 3)]
    for i in range(240 if tier == "quick" else 1200):
        ax, need = CT[i % 6]
        d = rng.randint(need, 4); shape = tuple(rng.randint(1, maxe) for _ in range(d))
        op = ["add", "lin"][(i // 6) % 2]; kd = KDS[(i // 12) % 5]
        init = "N" if (i // 3) % 2 else "I:%d" % rng.randint(-20, 20)
        out.append(("ct-axes", "reduce S:%s S:reduce S:ct S:%s S:dyn %s %s %s" % (op, kd, A(shape, data_for(rng, op, size(shape))), L(ax), init), "c08"))
        if i % 3 == 0 and d >= 2:
            out.append(("ct-axes", "reduce S:%s S:reduce S:cti S:%s S:dyn %s I:%d %s" % (op, kd, A(shape, data_for(rng, op, size(shape))), [1, -2][(i // 3) % 2], init), "c08"))
    # statistics on double data
    nstat = 500 if tier == "quick" else 4000
    for i in range(nstat):
        shape = rng.choice(shapes); d = len(shape)
        r = rng.random()
        if r < 0.15: ax = "N"; nred = size(shape)
        else:
            k = rng.randint(1, d); sub = rng.sample(range(d), k)
            nred = size([shape[a] for a in sub])
            sub = [a - d if rng.random() < 0.5 else a for a in sub]
            ax = "I:%d" % sub[0] if (k == 1 and rng.random() < 0.5) else L(sub)
        kd = KDS[i % 5]
        data = [rng.randint(-9, 9) for _ in range(size(shape))]
        fn = ["mean", "var", "stddev", "vnorm"][i % 4]
        if fn == "vnorm":
            out.append(("statistics", "vnorm S:%s %s %s I:%d" % (kd, A(shape, data), ax, rng.choice([1, 2, 2, 3])), "c08s"))
        else:
            ddof = 1 if (fn != "mean" and nred > 1 and rng.random() < 0.4) else 0
            out.append(("statistics", "stat S:%s S:%s %s %s I:%d" % (fn, kd, A(shape, data), ax, ddof), "c08s"))
    # explicit result dtype (float64 / int32) on int64 data
    for i in range(200 if tier == "quick" else 1500):
        shape = rng.choice(shapes); d = len(shape)
        r = rng.random()
        if r < 0.15: ax = "N"
        else:
            sub = rng.sample(range(d), rng.randint(1, d)); sub = [a - d if rng.random() < 0.5 else a for a in sub]
            ax = "I:%d" % sub[0] if (len(sub) == 1 and rng.random() < 0.5) else L(sub)
        fn = ["sum", "prod"][i % 2]
        init = "N" if rng.random() < 0.5 else "I:%d" % (rng.choice([1, -1, 2, 3]) if fn == "prod" else rng.randint(-20, 20))
        out.append(("dtype-arg", "dt S:%s S:%s S:%s %s %s %s" % (fn, ["f64", "i32"][(i // 2) % 2], KDS[i % 5], A(shape, data_for(rng, fn, size(shape))), ax, init), "c08s"))
    # uint8 data: accumulation in the operand's element type (mod 256)
    for i in range(200 if tier == "quick" else 1500):
        shape = rng.choice(shapes); d = len(shape)
        data = [rng.randint(0, 255) for _ in range(size(shape))]
        fn = ["sum", "prod", "cumsum"][i % 3]
        if fn == "cumsum":
            out.append(("uint8", "u8 S:cumsum S:def %s I:%d N" % (A(shape, data), rng.randrange(d)), "c08s")); continue
        if rng.random() < 0.15: ax = "N"
        else:
            sub = rng.sample(range(d), rng.randint(1, d)); sub = [a - d if rng.random() < 0.5 else a for a in sub]
            ax = "I:%d" % sub[0] if (len(sub) == 1 and rng.random() < 0.5) else L(sub)
        init = "N" if rng.random() < 0.5 else "I:%d" % rng.randint(0, 255)
        out.append(("uint8", "u8 S:%s S:%s %s %s %s" % (fn, ["def", "rt1", "ct0"][(i // 3) % 3], A(shape, data), ax, init), "c08s"))
    for shape in shapes:
        if len(shape) in (2, 3) and rng.random() < 0.5:
            out.append(("statistics", "trace %s" % A(shape, [rng.randint(-9, 9) for _ in range(size(shape))]), "c08s"))
    # deferred evaluation: reduce / accumulate of a temporary operand view built inside a helper, returned by value, two calls
    # before either result is read (a view owns its view operands; only leaf arrays are referenced)
    for i in range(160 if tier == "quick" else 1200):
        form = ["red", "redk", "acc", "sumv"][i % 4]
        if (i // 4) % 3 == 2: kind, shape = "fs", (2, 3)
        else: kind, shape = "dyn", rng.choice([s for s in shapes if len(s) <= 3])
        d = len(shape); axis = rng.randrange(d); axis = axis - d if rng.random() < 0.4 else axis
        out.append(("deferred", "defer S:%s S:%s %s %s I:%d I:%d" % (form, kind, A(shape, data_for(rng, "add", size(shape))),
                                                                     A(shape, data_for(rng, "add", size(shape))), axis, rng.randint(-9, 9)), "c08"))
    # ---------- type-width boundaries (c08_types.cpp) ----------
    AXT = ["i8", "u8", "i16", "u16", "i32", "u32", "i64", "u64"]
    BOUND = [1, 2, 3, 127, 128, 129, 200, 255, 256, 257, 300, 32767, 32768, 40000, 65535, 65536, 70000,
             2**31 - 1, 2**31, 2**32, 2**32 + 5]
    def typed_axes(t, d, k):
        sub = rng.sample(range(d), k)
        if rng.random() < 0.5: sub.sort()
        if not t.startswith("u"): sub = [a - d if rng.random() < 0.5 else a for a in sub]
        return sub
    # (1) index::remove_dims on bare shapes with extents around 2^7, 2^8, 2^15, 2^16, 2^31, 2^32, axis argument of every
    #     integer width / signedness as scalar, std::vector, std::array; shape as std::vector / std::array; keepdims ct / rt
    n = 0
    for t in AXT:
        for akind in ("scalar", "vec", "arr"):
            for sk in ("vec", "arr"):
                for kd in ("ct0", "ct1", "rt0", "rt1"):
                    for rep in range(2 if tier == "quick" else 8):
                        n += 1
                        d = rng.randint(1, 3)
                        shape = [rng.choice(BOUND[:11] if rng.random() < 0.6 else BOUND) for _ in range(d)]
                        k = 1 if akind == "scalar" else rng.randint(1, d)
                        ax = typed_axes(t, d, k)
                        tok = "I:%d" % ax[0] if akind == "scalar" else L(ax)
                        # a run-time bool keepdims with a fixed-rank shape AND a fixed-size axis is not a configuration the views
                        # produce (view::reduce turns a run-time bool into True / False first); index::remove_dims sizes its fixed
                        # result for keepdims=false there and overruns it — outside C08's quantifier (see notes): use the ct spelling
                        kd_ = kd.replace("rt", "ct") if (sk == "arr" and akind != "vec") else kd
                        out.append(("axis-type-shape", "rdims S:%s S:%s S:%s S:%s %s %s" % (t, akind, sk, kd_, L(shape), tok), "c08s"))
    # (2) view::sum with the same axis argument types on arrays with a kept extent just below / above 2^7 and 2^8
    BIG = [(130,), (2, 200), (300, 2), (2, 130, 2), (129, 2), (2, 257), (3, 128), (127, 2), (2, 255), (256, 1)]
    for t in AXT:
        # all containers for the 8-bit types, scalar + std::array for 16 bit, scalar for 32 / 64 bit (driver instantiation budget)
        for akind in (("scalar", "vec", "arr") if t in ("i8", "u8") else ("scalar", "arr") if t in ("i16", "u16") else ("scalar",)):
            for kd in ("def", "rt1"):
                for rep in range((3 if t in ("i8", "u8") else 2) if tier == "quick" else 8):
                    shape = rng.choice(BIG) if rep == 0 or rng.random() < 0.5 else rng.choice(shapes)
                    d = len(shape)
                    k = 1 if akind == "scalar" else rng.randint(1, min(d, 3 if t in ("i8", "u8") else 2))
                    ax = typed_axes(t, d, k)
                    tok = "I:%d" % ax[0] if akind == "scalar" else L(ax)
                    data = [rng.randint(-9, 9) for _ in range(size(shape))]
                    out.append(("axis-type-view", "tsum S:%s S:%s S:%s %s %s" % (t, akind, kd, A(shape, data), tok), "c08s"))
    # (3) source element type x result dtype for reduce AND accumulate: values overflow the source type (or the narrower
    #     dtype) but never the C++ arithmetic type of a step (no UB) and stay exactly representable in a float dtype
    PAIRS = [("u8", x) for x in ("none", "i8", "i32", "u64", "f64")] + [("i8", x) for x in ("none", "u8", "i16", "i64", "f32")] + \
            [("i32", x) for x in ("none", "i8", "i64", "f64")]
    def typed_data(src, dt, mul, cnt):
        wide = src == "i32" and dt in ("i64", "f64")
        if not mul:
            if src == "u8": return [rng.randint(0, 255) for _ in range(cnt)]
            if src == "i8": return [rng.randint(-128, 127) for _ in range(cnt)]
            return [rng.choice([-1, 1]) * rng.randint(5 * 10**8, 10**9) for _ in range(cnt)] if wide else [rng.randint(-1000, 1000) for _ in range(cnt)]
        dta = [1 if (src == "u8" or rng.random() < 0.7) else -1 for _ in range(cnt)]
        if wide:
            for _ in range(min(cnt, 3)): dta[rng.randrange(cnt)] = rng.randint(2000, 3000)
        else:
            for _ in range(min(cnt, 5)): dta[rng.randrange(cnt)] = rng.randint(2, 6)
            dta[rng.randrange(cnt)] = rng.randint(20, 100)
        return dta
    tshapes = [(5,), (8,), (3,), (2, 3), (3, 2), (4, 2), (2, 2, 3), (3, 1, 2), (2, 4), (1, 6)]
    for i in range(336 if tier == "quick" else 2000):
        src, dt = PAIRS[i % 14]; mul = (i // 14) % 2 == 1
        shape = rng.choice(tshapes); d = len(shape)
        data = typed_data(src, dt, mul, size(shape))
        if (i // 28) % 3 == 0: ax = "N"
        else:
            sub = rng.sample(range(d), rng.randint(1, d)); ax = L([a - d if rng.random() < 0.5 else a for a in sub])
        init = "N" if (ax == "N" or (i // 84) % 2 == 0) else "I:%d" % (rng.choice([1, 2, 3, -1]) if mul else rng.randint(-20, 20))
        out.append(("dtype-reduce", "tred S:%s S:%s S:%s S:def %s %s %s" % ("prod" if mul else "sum", src, dt, A(shape, data), ax, init), "c08s"))
    for i in range(252 if tier == "quick" else 1500):
        src, dt = PAIRS[i % 14]; fn = ["cumsum", "cumprod", "add"][(i // 14) % 3]
        shape = rng.choice(tshapes); d = len(shape)
        data = typed_data(src, dt, fn == "cumprod", size(shape))
        axis = rng.randrange(d); axis = axis - d if rng.random() < 0.4 else axis
        out.append(("dtype-accumulate", "tacc S:%s S:%s S:%s %s I:%d" % (fn, src, dt, A(shape, data), axis), "c08s"))
    # (4) an initial value of ANOTHER type than the element / result type, every reduce entry point and axis form; data chosen so that
    #     a partial result truncated to the initial's type shows (fractional doubles with an int initial; int64 beyond 2^32 with an int32 initial)
    for i in range(240 if tier == "quick" else 1600):
        src, it = [("f64", "i32"), ("i64", "i32"), ("f64", "f32"), ("i32", "f64")][i % 4]
        fn = ["sum", "prod", "amax", "amin", "radd"][(i // 4) % 5]; af = ["int", "list", "none"][(i // 20) % 3]
        shape = rng.choice(tshapes); d = len(shape); cnt = size(shape)
        if src == "f64": data = [rng.choice([-1, 1]) * rng.choice([1, 2, 3, 5, 6, 7, 9]) for _ in range(cnt)] if fn == "prod" else [rng.randint(-19, 19) for _ in range(cnt)]
        elif src == "i64":
            if fn == "prod":
                data = [rng.choice([1, -1]) for _ in range(cnt)]; data[rng.randrange(cnt)] = 70000; data[rng.randrange(cnt)] = 100003
            else: data = [rng.choice([-1, 1]) * rng.randint(3 * 10**9, 7 * 10**9) for _ in range(cnt)]
        else: data = [rng.randint(1, 4) for _ in range(cnt)] if fn == "prod" else [rng.randint(-1000, 1000) for _ in range(cnt)]
        if af == "int": a = rng.randrange(d); ax = "I:%d" % (a - d if rng.random() < 0.4 else a)
        elif af == "list": sub = rng.sample(range(d), rng.randint(1, d)); ax = L([x - d if rng.random() < 0.5 else x for x in sub])
        else: ax = "N"
        n = rng.choice([0, 1, 2, 3, -3, 5]) if fn != "prod" else rng.choice([1, 2, 3, -1])
        out.append(("initial-type", "tini S:%s S:%s S:%s S:%s %s %s I:%d" % (fn, src, it, af, A(shape, data), ax, n), "c08s"))
    # (5) every overload arity of the reduction / accumulation wrappers (view:: and array::): form -> canonical (fn, dtype, keepdims, initial)
    FORMS = {}
    for fn, pre in (("sum", "sum"), ("prod", "prod"), ("sum", "radd"), ("prod", "rmul"), ("sum", "asum"), ("prod", "aprod")):
        FORMS[pre + "2"] = (fn, "none", "def", False); FORMS[pre + "3"] = (fn, "i32", "def", False)
        FORMS[pre + "4"] = (fn, "i32", "def", True); FORMS[pre + "5"] = (fn, "i32", "ct1", True)
    for pre in ("sum", "prod"): FORMS[pre + "4n"] = (pre, "none", "def", True); FORMS[pre + "5n"] = (pre, "none", "ct1", False)
    for fn in ("amax", "amin"):
        FORMS[fn + "1"] = (fn, "none", "def", False); FORMS[fn + "2"] = (fn, "none", "def", False); FORMS[fn + "3"] = (fn, "i32", "def", False)
        FORMS[fn + "4"] = (fn, "i32", "def", True); FORMS[fn + "5"] = (fn, "i32", "ct1", True)
    for fn, pres in (("cumsum", ("cumsum", "accadd", "acumsum")), ("cumprod", ("cumprod", "accmul", "acumprod"))):
        for pre in pres: FORMS[pre + "2"] = (fn, "none", "def", False); FORMS[pre + "3"] = (fn, "i32", "def", False)
    for pre in ("mean", "amean"): FORMS[pre + "2"] = ("mean", "none", "def", False); FORMS[pre + "3"] = ("mean", "f64", "def", False); FORMS[pre + "4"] = ("mean", "f64", "ct1", False)
    for fn, pre in (("var", "var"), ("std", "std")):
        FORMS[pre + "2"] = (fn, "none", "def", False); FORMS[pre + "3"] = (fn, "f64", "def", False)
        FORMS[pre + "4"] = (fn, "f64", "def", "ddof"); FORMS[pre + "5"] = (fn, "f64", "ct1", "ddof")
    for rep in range(2 if tier == "quick" else 10):
        for form, (fn, dt, kd, extra) in sorted(FORMS.items()):
            shape, axis = rng.choice([((4, 2), 0), ((4, 2), -2), ((2, 4), 1), ((2, 4), -1)])
            other = 2
            if fn in ("mean", "var", "std"):
                cols = [(rng.randint(-20, 20), rng.randint(1, 9)) for _ in range(other)]            # (a, k): values a, a+2k, a, a+2k
                col = lambda c: [cols[c][0], cols[c][0] + 2 * cols[c][1], cols[c][0], cols[c][0] + 2 * cols[c][1]]
            elif fn in ("prod", "cumprod"): col = lambda c: [rng.choice([-1, 1]) * rng.randint(5, 12) for _ in range(4)]
            else: col = lambda c: [rng.randint(60, 120) * (1 if rng.random() < 0.8 else -1) for _ in range(4)]
            cs = [col(c) for c in range(other)]
            data = [cs[j][i] for i in range(4) for j in range(2)] if shape == (4, 2) else [cs[i][j] for i in range(2) for j in range(4)]
            ax = "N" if form in ("amax1", "amin1") else "I:%d" % axis
            init = "I:%d" % rng.choice([7, 3, -5, 120]) if extra is True else "N"
            out.append(("overload-forms", "form S:%s S:%s S:%s S:%s %s %s %s I:%d" % (form, fn, dt, kd, A(shape, data), ax, init, 1 if extra == "ddof" else 0), "c08s"))
    # outside the quantifier: invalid / duplicate axes (C15's subject): spec "unspecified", never judged
    for line in ["reduce S:add S:reduce S:vec S:def S:dyn A:2,3:1,2,3,4,5,6 L:0,0 N",
                 "reduce S:add S:named S:int S:rt1 S:dyn A:2,3:1,2,3,4,5,6 I:2 N",
                 "reduce S:add S:named S:int S:def S:dyn A:2,3:1,2,3,4,5,6 I:-3 N",
                 "reduce S:add S:reduce S:vec S:ct1 S:dyn A:2,3:1,2,3,4,5,6 L:1,-1 N",
                 "accum S:cumsum S:dyn A:2,3:1,2,3,4,5,6 I:2",
                 "accum S:cumsum S:dyn A:2,3:1,2,3,4,5,6 I:-3"]:
        out.append(("malformed", line, "c08"))
    return out


def _shape_of(line):
    m = re.search(r"A:([0-9,]*):", line)
    return [int(x) for x in m.group(1).split(",") if x] if m else []


def nontrivial(line):
    if line.startswith("rdims"): return True
    sh = _shape_of(line)
    return len(sh) >= 2 and any(x > 1 for x in sh)


def distribution(streams):
    ops = Counter(); dims = Counter(); kds = Counter(); apis = Counter()
    for _, line, _ in streams:
        t = line.split(" ")
        ops[t[0] + (":" + t[1][2:] if t[0] in ("reduce", "accum", "stat") else "")] += 1
        dims[str(len(_shape_of(line)))] += 1
        if t[0] == "reduce": kds[t[4][2:]] += 1; apis[t[2][2:] + "/" + t[3][2:] + "/" + t[5][2:]] += 1
    return {"ops": dict(ops), "source_dims": dict(dims), "keepdims": dict(kds), "api/axiskind/arraykind": dict(apis)}


def _split(r):
    if not r.startswith("ok ") or ";" not in r: return None
    if "; view=" in r: r = r[:r.index("; view=")]          # the element type tag is compared separately (exactly)
    shp, el = r[3:].split(";", 1)
    return shp.strip(), [x for x in el.strip().split(",") if x != ""]


def _tag(r):
    return r[r.index("; view="):].strip() if "; view=" in r else ""


def equal(a, b):
    if a == b or " ".join(a.split()) == " ".join(b.split()): return True
    if _tag(a) != _tag(b): return False
    x, y = _split(a), _split(b)
    if x is None or y is None or x[0] != y[0] or len(x[1]) != len(y[1]): return False
    for u, v in zip(x[1], y[1]):
        if u == v: continue
        if not (("." in u or "e" in u or "n" in u) or ("." in v or "e" in v or "n" in v)): return False   # integers: exact
        try: fu, fv = float(u), float(v)
        except ValueError: return False
        if fu != fu or fv != fv: return False
        if abs(fu - fv) > 1e-9 * max(abs(fu), abs(fv)) + 1e-12: return False
    return True


def classify(line, impl, spec, model):
    return None
