(* Extract.v — extraction of the executable Model and Spec definitions to OCaml.
   ExtrOcamlBasic only: bool, option, unit, list, prod, sumbool, sum, comparison
   map to the OCaml types; Z / positive / nat stay the extracted inductives.
   No Extract Constant, no further Extract Inductive.  Separate Extraction keeps
   one OCaml module per Coq module, so names stay stable (Index.compute_strides). *)
From Coq Require Import Extraction ExtrOcamlBasic.
From NM Require Import Base Index.
Extraction Language OCaml.
Separate Extraction Base Index BinInt.Z.
