#!/bin/sh
# dbg.sh <file.v> <line> : print the proof state after line <line> (debug helper, not part of any check)
F="$1"; N="$2"; B=$(basename "$F" .v)
mkdir -p /tmp/coqdbg
head -n "$N" "$F" > /tmp/coqdbg/${B}_dbg.v
echo "Show. " >> /tmp/coqdbg/${B}_dbg.v
cd /tmp/coqdbg && timeout 300 coqc -Q /verif/coq/theories NM ${B}_dbg.v 2>&1 | grep -v "^Closed under" | head -${3:-60}
