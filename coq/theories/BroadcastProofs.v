(* BroadcastProofs.v — lemmas about Broadcast.v, any rank and extents. *)
From Coq Require Import Permutation.
From NM Require Import Base Index IndexProofs Broadcast.
Local Open Scope Z_scope.

(* ---------- algebra of the reversed-list recursion ---------- *)

Lemma compat_comm x y : compat x y = compat y x.
Proof. unfold compat. rewrite (Z.eqb_sym x y). destruct (y =? x), (x =? 1), (y =? 1); reflexivity. Qed.

Lemma bshape_rev_comm a : forall b, bshape_rev a b = bshape_rev b a.
Proof.
  induction a as [|x a IH]; intros [|y b]; simpl; try reflexivity.
  rewrite (compat_comm x y), (Z.max_comm x y), IH. reflexivity.
Qed.

Lemma bshape_rev_pos a : forall b r, pos a -> pos b -> bshape_rev a b = Some r -> pos r.
Proof.
  induction a as [|x a IH]; intros [|y b] r Ha Hb; simpl; intros H; try (injection H as <-; assumption).
  destruct (compat x y); [|discriminate].
  destruct (bshape_rev a b) eqn:E; simpl in H; [|discriminate]. injection H as <-.
  inversion Ha; inversion Hb; subst. constructor; [lia|]. eapply IH; eauto.
Qed.

Ltac compat_solve :=
  unfold compat in *;
  repeat match goal with |- context [?p =? ?q] => destruct (Z.eqb_spec p q) end;
  repeat match goal with H : context [?p =? ?q] |- _ => destruct (Z.eqb_spec p q) end;
  simpl in *; try reflexivity; try discriminate; lia.

Lemma bshape_rev_assoc a : forall b c, pos a -> pos b -> pos c ->
  obind (bshape_rev a b) (fun ab => bshape_rev ab c) = obind (bshape_rev b c) (fun bc => bshape_rev a bc).
Proof.
  induction a as [|x a IH]; intros b c Ha Hb Hc.
  - simpl. destruct (bshape_rev b c); reflexivity.
  - destruct b as [|y b].
    + simpl. destruct c; reflexivity.
    + destruct c as [|z c].
      * simpl. destruct (compat x y); [|reflexivity]. destruct (bshape_rev a b); reflexivity.
      * inversion Ha as [|? ? Hx Ha']; inversion Hb as [|? ? Hy Hb']; inversion Hc as [|? ? Hz Hc']; subst.
        specialize (IH b c Ha' Hb' Hc').
        cbn [bshape_rev obind].
        destruct (compat x y) eqn:Exy; destruct (compat y z) eqn:Eyz; cbn [obind].
        -- destruct (bshape_rev a b) as [ab|] eqn:Eab; destruct (bshape_rev b c) as [bc|] eqn:Ebc;
             cbn [option_map obind bshape_rev] in *.
           ++ assert (compat (Z.max x y) z = compat x (Z.max y z)) as -> by compat_solve.
              destruct (compat x (Z.max y z)); [|reflexivity].
              rewrite Z.max_assoc. rewrite IH. reflexivity.
           ++ destruct (compat (Z.max x y) z); [|reflexivity]. rewrite IH. reflexivity.
           ++ destruct (compat x (Z.max y z)); [|reflexivity]. rewrite <- IH. reflexivity.
           ++ reflexivity.
        -- destruct (bshape_rev a b) as [ab|]; cbn [option_map obind bshape_rev]; [|reflexivity].
           assert (compat (Z.max x y) z = false) as -> by compat_solve.
           reflexivity.
        -- destruct (bshape_rev b c) as [bc|]; cbn [option_map obind bshape_rev]; [|reflexivity].
           assert (compat x (Z.max y z) = false) as -> by compat_solve.
           reflexivity.
        -- reflexivity.
Qed.

Lemma bshape_rev_idem a : bshape_rev a a = Some a.
Proof.
  induction a as [|x a IH]; simpl; [reflexivity|].
  unfold compat. rewrite Z.eqb_refl. simpl. rewrite IH, Z.max_id. reflexivity.
Qed.

(* ---------- lifting to broadcast_shape2 ---------- *)

Lemma pos_rev' s : pos (rev s) <-> pos s.
Proof. split; intros H; [rewrite <- (rev_involutive s)|]; now apply pos_rev. Qed.

Lemma broadcast_shape2_comm a b : broadcast_shape2 a b = broadcast_shape2 b a.
Proof. unfold broadcast_shape2. now rewrite bshape_rev_comm. Qed.

Lemma broadcast_shape2_pos a b r : pos a -> pos b -> broadcast_shape2 a b = Some r -> pos r.
Proof.
  unfold broadcast_shape2. intros Ha Hb H.
  destruct (bshape_rev (rev a) (rev b)) as [r'|] eqn:E; [|discriminate]. injection H as <-.
  apply pos_rev. eapply bshape_rev_pos; [| |exact E]; now apply pos_rev.
Qed.

Lemma obind_omap_rev (o : option (list Z)) (f : list Z -> option (list Z)) :
  obind (option_map (@rev Z) o) f = obind o (fun r => f (rev r)).
Proof. destruct o; reflexivity. Qed.

Lemma broadcast_shape2_assoc a b c : pos a -> pos b -> pos c ->
  obind (broadcast_shape2 a b) (fun ab => broadcast_shape2 ab c)
  = obind (broadcast_shape2 b c) (fun bc => broadcast_shape2 a bc).
Proof.
  intros Ha Hb Hc. unfold broadcast_shape2. rewrite !obind_omap_rev.
  pose proof (bshape_rev_assoc (rev a) (rev b) (rev c)
                (pos_rev _ Ha) (pos_rev _ Hb) (pos_rev _ Hc)) as H.
  transitivity (option_map (@rev Z) (obind (bshape_rev (rev a) (rev b)) (fun ab => bshape_rev ab (rev c)))).
  - destruct (bshape_rev (rev a) (rev b)); simpl; [now rewrite rev_involutive | reflexivity].
  - rewrite H. destruct (bshape_rev (rev b) (rev c)); simpl; [now rewrite rev_involutive | reflexivity].
Qed.

Lemma broadcast_shape2_idem a : broadcast_shape2 a a = Some a.
Proof. unfold broadcast_shape2. rewrite bshape_rev_idem. simpl. now rewrite rev_involutive. Qed.

Lemma broadcast_shape2_nil_l a : broadcast_shape2 [] a = Some a.
Proof. unfold broadcast_shape2. simpl. now rewrite rev_involutive. Qed.

Lemma broadcast_shape2_nil_r a : broadcast_shape2 a [] = Some a.
Proof. rewrite broadcast_shape2_comm. apply broadcast_shape2_nil_l. Qed.

(* broadcasting with the result changes nothing *)
Lemma broadcast_shape2_absorb a b r : pos a -> pos b ->
  broadcast_shape2 a b = Some r -> broadcast_shape2 a r = Some r /\ broadcast_shape2 r b = Some r.
Proof.
  intros Ha Hb H.
  pose proof (broadcast_shape2_assoc a a b Ha Ha Hb) as H1.
  rewrite broadcast_shape2_idem, H in H1. cbn [obind] in H1.
  pose proof (broadcast_shape2_assoc a b b Ha Hb Hb) as H2.
  rewrite broadcast_shape2_idem, H in H2. cbn [obind] in H2.
  split; [now rewrite <- H1, H | now rewrite H2].
Qed.

(* ---------- success iff NumPy-compatible, result = per-axis max ---------- *)

Lemma np_axes_ones_l b : pos b -> np_axes (repeat 1 (length b)) b = Some b.
Proof.
  induction 1 as [|y b Hy Hb IH]; simpl; [reflexivity|].
  rewrite IH. simpl. replace (1 =? y) with (1 =? y) by reflexivity.
  rewrite orb_true_r. simpl. now rewrite Z.max_r by lia.
Qed.

Lemma np_axes_comm a : forall b, np_axes a b = np_axes b a.
Proof.
  induction a as [|x a IH]; intros [|y b]; simpl; try reflexivity.
  rewrite (Z.eqb_sym x y), (Z.max_comm x y), IH.
  destruct (y =? x), (x =? 1), (y =? 1); reflexivity.
Qed.

Lemma np_axes_ones_r a : pos a -> np_axes a (repeat 1 (length a)) = Some a.
Proof. intros H. rewrite np_axes_comm. now apply np_axes_ones_l. Qed.

Lemma bshape_rev_np a : forall b, pos a -> pos b ->
  bshape_rev a b =
  np_axes (a ++ repeat 1 (Nat.max (length a) (length b) - length a))
          (b ++ repeat 1 (Nat.max (length a) (length b) - length b)).
Proof.
  induction a as [|x a IH]; intros [|y b] Ha Hb.
  - reflexivity.
  - cbn [bshape_rev length app]. rewrite Nat.max_0_l, Nat.sub_0_r, Nat.sub_diag. cbn [repeat].
    rewrite app_nil_r. symmetry. now apply (np_axes_ones_l (y :: b)).
  - cbn [bshape_rev length app]. rewrite Nat.max_0_r, Nat.sub_0_r, Nat.sub_diag. cbn [repeat].
    rewrite app_nil_r. symmetry. now apply (np_axes_ones_r (x :: a)).
  - inversion Ha; inversion Hb; subst.
    cbn [bshape_rev length app np_axes]. rewrite <- Nat.succ_max_distr.
    replace (S (Nat.max (length a) (length b)) - S (length a))%nat
      with (Nat.max (length a) (length b) - length a)%nat by lia.
    replace (S (Nat.max (length a) (length b)) - S (length b))%nat
      with (Nat.max (length a) (length b) - length b)%nat by lia.
    rewrite <- IH by assumption. reflexivity.
Qed.

Lemma np_axes_app x1 : forall y1 x2 y2, length x1 = length y1 ->
  np_axes (x1 ++ x2) (y1 ++ y2) =
  match np_axes x1 y1, np_axes x2 y2 with Some r1, Some r2 => Some (r1 ++ r2) | _, _ => None end.
Proof.
  induction x1 as [|x x1 IH]; intros [|y y1] x2 y2 Hl; simpl in *; try discriminate.
  - destruct (np_axes x2 y2); reflexivity.
  - destruct ((x =? y) || (x =? 1) || (y =? 1)).
    + rewrite IH by lia. destruct (np_axes x1 y1), (np_axes x2 y2); reflexivity.
    + reflexivity.
Qed.

Lemma np_axes_rev x : forall y, length x = length y ->
  np_axes (rev x) (rev y) = option_map (@rev Z) (np_axes x y).
Proof.
  induction x as [|a x IH]; intros [|b y] Hl; simpl in *; try discriminate; [reflexivity|].
  rewrite np_axes_app by (rewrite !rev_length; lia). rewrite IH by lia. simpl.
  destruct ((a =? b) || (a =? 1) || (b =? 1)); destruct (np_axes x y); reflexivity.
Qed.

Lemma rev_repeat {A} (x : A) n : rev (repeat x n) = repeat x n.
Proof.
  induction n; simpl; [reflexivity|]. rewrite IHn. clear IHn.
  induction n; simpl; [reflexivity|]. now rewrite IHn.
Qed.

Lemma pad_to_length n s : (length s <= n)%nat -> length (pad_to n s) = n.
Proof. intros. unfold pad_to. rewrite app_length, repeat_length. lia. Qed.

Lemma broadcast_shape2_np a b : pos a -> pos b -> broadcast_shape2 a b = np_broadcast2 a b.
Proof.
  intros Ha Hb. unfold broadcast_shape2, np_broadcast2.
  rewrite bshape_rev_np by now apply pos_rev. rewrite !rev_length.
  set (n := Nat.max (length a) (length b)).
  replace (rev a ++ repeat 1 (n - length a)) with (rev (pad_to n a))
    by (unfold pad_to; now rewrite rev_app_distr, rev_repeat).
  replace (rev b ++ repeat 1 (n - length b)) with (rev (pad_to n b))
    by (unfold pad_to; now rewrite rev_app_distr, rev_repeat).
  rewrite np_axes_rev by (rewrite !pad_to_length; lia).
  destruct (np_axes (pad_to n a) (pad_to n b)); simpl; [now rewrite rev_involutive | reflexivity].
Qed.

(* ---------- n-ary: order and grouping independence ---------- *)

Definition bop (x y : option (list Z)) : option (list Z) :=
  obind x (fun a => obind y (fun b => broadcast_shape2 a b)).
Definition opos (o : option (list Z)) : Prop := match o with Some s => pos s | None => True end.

Lemma bop_comm x y : bop x y = bop y x.
Proof. destruct x, y; simpl; auto using broadcast_shape2_comm. Qed.

Lemma bop_pos x y : opos x -> opos y -> opos (bop x y).
Proof.
  destruct x as [a|], y as [b|]; simpl; auto. intros Ha Hb.
  destruct (broadcast_shape2 a b) eqn:E; simpl; [|exact I]. exact (broadcast_shape2_pos a b l Ha Hb E).
Qed.

Lemma bop_assoc x y z : opos x -> opos y -> opos z -> bop (bop x y) z = bop x (bop y z).
Proof.
  destruct x as [a|], y as [b|], z as [c|]; simpl; auto; intros Ha Hb Hc.
  - pose proof (broadcast_shape2_assoc a b c Ha Hb Hc) as H.
    destruct (broadcast_shape2 a b), (broadcast_shape2 b c); simpl in *; auto.
  - destruct (broadcast_shape2 a b); reflexivity.
Qed.

Lemma broadcast_shape_n_fold acc l :
  broadcast_shape_n acc l = fold_left bop (map Some l) (Some acc).
Proof.
  revert acc. induction l as [|s t IH]; intros acc; simpl; [reflexivity|].
  destruct (broadcast_shape2 acc s) as [r|] eqn:E; simpl.
  - apply IH.
  - clear. induction t; simpl; auto.
Qed.

Lemma fold_bop_pos l : forall x, opos x -> Forall opos l -> opos (fold_left bop l x).
Proof.
  induction l as [|y l IH]; intros x Hx Hl; simpl; [assumption|].
  inversion Hl; subst. apply IH; [now apply bop_pos | assumption].
Qed.

Lemma fold_bop_acc l : forall x y, opos x -> opos y -> Forall opos l ->
  fold_left bop l (bop x y) = bop x (fold_left bop l y).
Proof.
  induction l as [|z l IH]; intros x y Hx Hy Hl; simpl; [reflexivity|].
  inversion Hl; subst. rewrite bop_assoc by assumption. apply IH; auto using bop_pos.
Qed.

Lemma fold_bop_perm l l' : Permutation l l' -> Forall opos l ->
  forall x, opos x -> fold_left bop l x = fold_left bop l' x.
Proof.
  induction 1 as [|y l l' HP IH|y z l|l l' l'' HP1 IH1 HP2 IH2]; intros Hl x Hx; simpl.
  - reflexivity.
  - inversion Hl; subst. apply IH; auto using bop_pos.
  - inversion Hl as [|? ? Hy Hl']; subst. inversion Hl' as [|? ? Hz Hl'']; subst.
    f_equal. rewrite !bop_assoc by assumption. f_equal. apply bop_comm.
  - rewrite IH1 by assumption. apply IH2; [|assumption].
    eapply Permutation_Forall; eauto.
Qed.

Lemma broadcast_shapes_fold l : l <> [] ->
  broadcast_shapes l = fold_left bop (map Some l) (Some []).
Proof.
  destruct l as [|s t]; [congruence|]. intros _. cbn [broadcast_shapes map fold_left].
  rewrite broadcast_shape_n_fold. cbn [bop obind]. now rewrite broadcast_shape2_nil_l.
Qed.

Lemma Forall_opos_map l : Forall pos l -> Forall opos (map Some l).
Proof. induction 1; simpl; constructor; auto. Qed.

Lemma broadcast_shapes_perm l l' : Permutation l l' -> Forall pos l ->
  broadcast_shapes l = broadcast_shapes l'.
Proof.
  intros HP Hl. destruct l as [|s t].
  - apply Permutation_nil in HP. now subst.
  - assert (l' <> []) by (intros ->; apply Permutation_sym, Permutation_nil in HP; discriminate).
    rewrite !broadcast_shapes_fold by (assumption || discriminate).
    apply fold_bop_perm; [now apply Permutation_map | now apply Forall_opos_map | constructor].
Qed.

Lemma broadcast_shapes_app l1 l2 : l1 <> [] -> l2 <> [] -> Forall pos l1 -> Forall pos l2 ->
  broadcast_shapes (l1 ++ l2) = bop (broadcast_shapes l1) (broadcast_shapes l2).
Proof.
  intros N1 N2 H1 H2.
  rewrite !broadcast_shapes_fold by (try assumption; destruct l1; simpl; congruence).
  rewrite map_app, fold_left_app.
  set (x := fold_left bop (map Some l1) (Some [])).
  assert (Hx : opos x) by (apply fold_bop_pos; [constructor | now apply Forall_opos_map]).
  replace x with (bop x (Some [])) at 1
    by (destruct x; simpl; [apply broadcast_shape2_nil_r | reflexivity]).
  apply fold_bop_acc; [assumption | constructor | now apply Forall_opos_map].
Qed.

(* ---------- broadcast_to: shape ---------- *)

Lemma sbt_aligned_fst a : forall b l, sbt_aligned a b = Some l -> map fst l = b.
Proof.
  induction a as [|x a IH]; intros [|y b] l H; simpl in H; try discriminate.
  - now injection H as <-.
  - destruct (Z.eqb_spec x y) as [->|Hne].
    + destruct (sbt_aligned a b) eqn:E; [|discriminate]. injection H as <-. simpl. f_equal. eauto.
    + destruct (x =? 1); [|discriminate].
      destruct (sbt_aligned a b) eqn:E; [|discriminate]. injection H as <-. simpl. f_equal. eauto.
Qed.

Lemma sbt_aligned_ok a : forall b, (exists l, sbt_aligned a b = Some l) <-> np_bto_ok a b = true.
Proof.
  induction a as [|x a IH]; intros [|y b]; simpl.
  - split; eauto.
  - split; [intros [l H]; discriminate | discriminate].
  - split; [intros [l H]; discriminate | discriminate].
  - specialize (IH b). destruct (x =? y); [|destruct (x =? 1)]; simpl.
    + rewrite <- IH. split; intros [l H].
      * destruct (sbt_aligned a b); [eauto | discriminate].
      * rewrite H. simpl. eauto.
    + rewrite <- IH. split; intros [l H].
      * destruct (sbt_aligned a b); [eauto | discriminate].
      * rewrite H. simpl. eauto.
    + split; [intros [l H]; discriminate | discriminate].
Qed.

Lemma shape_broadcast_to_shape a b :
  option_map fst (shape_broadcast_to a b) = np_broadcast_to_shape a b.
Proof.
  unfold shape_broadcast_to, np_broadcast_to_shape.
  destruct (length a <=? length b)%nat; [|reflexivity]. simpl.
  destruct (sbt_aligned a (skipn (length b - length a) b)) as [l|] eqn:E.
  - assert (np_bto_ok a (skipn (length b - length a) b) = true) as -> by (apply sbt_aligned_ok; eauto).
    simpl. rewrite (sbt_aligned_fst _ _ _ E). now rewrite firstn_skipn.
  - destruct (np_bto_ok a (skipn (length b - length a) b)) eqn:E2; [|reflexivity].
    apply sbt_aligned_ok in E2 as [l E2]. congruence.
Qed.

(* ---------- broadcast_to: element map ---------- *)

Fixpoint gatherb {A} (keep : list bool) (l : list A) : list A :=
  match keep, l with
  | true :: k, x :: t => x :: gatherb k t
  | false :: k, _ :: t => gatherb k t
  | _, _ => []
  end.

Lemma nonzero_from_shift k l : nonzero_from (S k) l = map S (nonzero_from k l).
Proof.
  revert k. induction l as [|b l IH]; intros k; simpl; [reflexivity|].
  destruct b; simpl; now rewrite IH.
Qed.

Lemma gather_nonzero keep : forall l, length l = length keep ->
  gather l (nonzero keep) = gatherb keep l.
Proof.
  unfold nonzero, gather.
  induction keep as [|b keep IH]; intros [|x l] Hl; simpl in *; try discriminate; [reflexivity|].
  destruct b; simpl; rewrite nonzero_from_shift, map_map; simpl; [f_equal|]; apply IH; lia.
Qed.

Fixpoint bto_spec (keep : list bool) (i : list Z) : list Z :=
  match keep, i with
  | true :: k, x :: t => x :: bto_spec k t
  | false :: k, _ :: t => 0 :: bto_spec k t
  | _, _ => []
  end.

Inductive wfb : list bool -> list Z -> list Z -> Prop :=
| wfb_nil : wfb [] [] []
| wfb_keep k s i n x : 1 <= n -> 0 <= x < n -> wfb k s i -> wfb (true :: k) (n :: s) (x :: i)
| wfb_free k s i x : wfb k s i -> wfb (false :: k) (1 :: s) (x :: i).

Lemma wfb_prod k s i : wfb k s i -> prod (gatherb k s) = prod s.
Proof.
  induction 1 as [|k s i n x Hn Hx H IH|k s i x H IH]; cbn [prod gatherb].
  - reflexivity.
  - now rewrite IH.
  - rewrite IH. ring.
Qed.

Lemma wfb_pos k s i : wfb k s i -> 1 <= prod s.
Proof. induction 1; cbn [prod]; nia. Qed.

Lemma wfb_off_bound k s i : wfb k s i ->
  0 <= off (gatherb k i) (strides (gatherb k s)) < prod s.
Proof.
  induction 1 as [|k s i n x Hn Hx H IH|k s i x H IH]; cbn [prod off strides gatherb].
  - lia.
  - rewrite (wfb_prod _ _ _ H). pose proof (wfb_pos _ _ _ H). nia.
  - lia.
Qed.

Lemma broadcast_to_elem_gen k s i : wfb k s i -> forall q,
  compute_indices3 (q * prod s + off (gatherb k i) (strides (gatherb k s))) s (strides s) = bto_spec k i.
Proof.
  induction 1 as [|k s i n x Hn Hx H IH|k s i x H IH]; intros q;
    cbn [prod off strides gatherb compute_indices3 bto_spec].
  - reflexivity.
  - pose proof (wfb_off_bound _ _ _ H) as Hb. pose proof (wfb_pos _ _ _ H) as Hp.
    rewrite (wfb_prod _ _ _ H).
    replace (q * (n * prod s) + (prod s * x + off (gatherb k i) (strides (gatherb k s))))
      with ((q * n + x) * prod s + off (gatherb k i) (strides (gatherb k s))) by ring.
    f_equal.
    + rewrite Z.div_add_l by lia. rewrite (Z.div_small (off _ _)) by lia.
      rewrite Z.add_0_r, Z.add_comm, Z.mod_add by lia. apply Z.mod_small; lia.
    + apply IH.
  - f_equal.
    + apply Z.mod_1_r.
    + replace (q * (1 * prod s)) with (q * prod s) by ring. apply IH.
Qed.

Lemma broadcast_to_elem k s i : wfb k s i ->
  compute_indices3 (off (gatherb k i) (strides (gatherb k s))) s (strides s) = bto_spec k i.
Proof. intros H. pose proof (broadcast_to_elem_gen k s i H 0) as G. now rewrite Z.mul_0_l, Z.add_0_l in G. Qed.

(* from a successful aligned shape_broadcast_to and an in-bounds target index *)
Lemma sbt_aligned_wfb a : forall b l i, pos a -> sbt_aligned a b = Some l -> inb i b ->
  wfb (map negb (map snd l)) a i
  /\ gatherb (map negb (map snd l)) b = gatherb (map negb (map snd l)) a
  /\ bto_spec (map negb (map snd l)) i = np_bto_idx_aligned a i.
Proof.
  induction a as [|x a IH]; intros [|y b] l i Hp H Hi; simpl in H; try discriminate.
  - injection H as <-. inversion Hi; subst. simpl. repeat split. constructor.
  - inversion Hp as [|? ? Hx Hp']; subst. inversion Hi as [|k ? i' ? Hk Hi']; subst.
    destruct (Z.eqb_spec x y) as [->|Hne].
    + destruct (sbt_aligned a b) as [l'|] eqn:E; [|discriminate]. injection H as <-.
      destruct (IH b l' i' Hp' E Hi') as (W & G & S). simpl. repeat split.
      * constructor; auto.
      * now rewrite G.
      * rewrite S. destruct (Z.eqb_spec y 1); [|reflexivity]. f_equal. lia.
    + destruct (Z.eqb_spec x 1) as [->|]; [|discriminate].
      destruct (sbt_aligned a b) as [l'|] eqn:E; [|discriminate]. injection H as <-.
      destruct (IH b l' i' Hp' E Hi') as (W & G & S). simpl. repeat split.
      * now constructor.
      * assumption.
      * now rewrite S.
Qed.

Lemma gatherb_app {A} k1 : forall k2 (l1 l2 : list A), length k1 = length l1 ->
  gatherb (k1 ++ k2) (l1 ++ l2) = gatherb k1 l1 ++ gatherb k2 l2.
Proof.
  induction k1 as [|b k1 IH]; intros k2 [|x l1] l2 Hl; simpl in *; try discriminate; [reflexivity|].
  destruct b; simpl; rewrite IH by lia; reflexivity.
Qed.

Lemma gatherb_all_false {A} n : forall (l : list A), length l = n -> gatherb (repeat false n) l = [].
Proof. induction n; intros [|x l] Hl; simpl in *; try discriminate; auto. Qed.

Lemma inb_app_inv i s1 s2 : inb i (s1 ++ s2) ->
  inb (firstn (length s1) i) s1 /\ inb (skipn (length s1) i) s2.
Proof.
  revert i. induction s1 as [|n s1 IH]; intros i H; simpl in *.
  - split; [constructor | assumption].
  - inversion H; subst. destruct (IH _ H4). simpl. split; [constructor|]; assumption.
Qed.

Lemma sbt_aligned_length a : forall b l, sbt_aligned a b = Some l -> length l = length b /\ length a = length b.
Proof.
  induction a as [|x a IH]; intros [|y b] l H; simpl in H; try discriminate.
  - injection H as <-. auto.
  - destruct (x =? y); [|destruct (x =? 1); [|discriminate]];
      (destruct (sbt_aligned a b) eqn:E; [|discriminate]); injection H as <-;
      destruct (IH _ _ E); simpl; split; congruence.
Qed.

Lemma gatherb_drop {A} m : forall K (l : list A), (m <= length l)%nat ->
  gatherb (repeat false m ++ K) l = gatherb K (skipn m l).
Proof.
  induction m as [|m IH]; intros K [|x l] Hl; simpl in *; try lia; try reflexivity.
  apply IH. lia.
Qed.

Lemma map_repeat' {A B} (f : A -> B) x n : map f (repeat x n) = repeat (f x) n.
Proof. induction n; simpl; congruence. Qed.

Theorem broadcast_to_elem_spec a b d free i : pos a ->
  shape_broadcast_to a b = Some (d, free) -> inb i d ->
  d = b /\
  broadcast_to_idx i a d (origin_axes free) = np_broadcast_to_idx a i /\
  inb (np_broadcast_to_idx a i) a.
Proof.
  intros Hp H Hi. unfold shape_broadcast_to in H.
  destruct (Nat.leb_spec (length a) (length b)) as [Hle|]; [|discriminate].
  set (m := (length b - length a)%nat) in *.
  destruct (sbt_aligned a (skipn m b)) as [l|] eqn:E; [|discriminate].
  injection H as <- <-.
  pose proof (sbt_aligned_fst _ _ _ E) as Hfst.
  destruct (sbt_aligned_length _ _ _ E) as [Hll Hla].
  assert (Hd : firstn m b ++ map fst l = b) by (rewrite Hfst; apply firstn_skipn).
  split; [exact Hd|].
  rewrite Hd in Hi.
  assert (Hlen_i : length i = length b) by now apply inb_length.
  assert (Hfm : length (firstn m b) = m) by (rewrite firstn_length; lia).
  (* split the index *)
  rewrite <- (firstn_skipn m b) in Hi.
  destruct (inb_app_inv _ _ _ Hi) as [Hi1 Hi2]. rewrite Hfm in Hi1, Hi2.
  destruct (sbt_aligned_wfb a (skipn m b) l (skipn m i) Hp E Hi2) as (W & G & S).
  unfold broadcast_to_idx, origin_axes, logical_not, np_broadcast_to_idx.
  rewrite Hd.
  rewrite !gather_nonzero by (rewrite !map_length, app_length, repeat_length, map_length; lia).
  rewrite map_app, map_repeat'. cbn [negb].
  rewrite !gatherb_drop by lia.
  rewrite G.
  unfold compute_indices. rewrite compute_strides_eq, compute_offset_eq, compute_strides_eq.
  rewrite (broadcast_to_elem _ _ _ W), S.
  replace (length i - length a)%nat with m by lia.
  split; [reflexivity|].
  rewrite <- S. clear - W. induction W; simpl; constructor; auto; lia.
Qed.
