(* Index.v — FAITHFUL executable model of the addressing arithmetic
     include/nmtools/array/index/{product,compute_strides,compute_offset,
     compute_indices,ndindex,reverse}.hpp and the two offset functors of
     include/nmtools/array/ndarray/base_ndarray.hpp.
   Each function follows the loop in the header; [w]-suffixed variants perform
   every multiplication/addition modulo 2^w the way the C++ element type does. *)
From NM Require Import Base.
Local Open Scope Z_scope.

(* index::product (product.hpp:25): ret = 1; for i: ret = ret * shape[i] *)
Definition product (s : list Z) : Z := fold_left Z.mul s 1.
Definition product_w (w : Z) (s : list Z) : Z :=
  fold_left (fun acc n => wrap w (acc * n)) s 1.

(* index::stride (compute_strides.hpp:22): p = 1; for j = k+1 .. len-1: p *= shape[j] *)
Definition stride (s : list Z) (k : nat) : Z := fold_left Z.mul (skipn (S k) s) 1.
Definition stride_w (w : Z) (s : list Z) (k : nat) : Z :=
  fold_left (fun acc n => wrap w (acc * n)) (skipn (S k) s) 1.

(* index::compute_strides (compute_strides.hpp:63): strides[i] = stride(shape,i) *)
Definition compute_strides (s : list Z) : list Z := map (stride s) (seq 0 (length s)).
Definition compute_strides_w (w : Z) (s : list Z) : list Z :=
  map (stride_w w s) (seq 0 (length s)).

(* index::compute_offset (compute_offset.hpp:26):
     offset = 0; for i < len(indices): offset += strides[i] * indices[i]
   (accumulated in nm_size_t = 64 bit unsigned in the _w variant) *)
Definition compute_offset (idx st : list Z) : Z :=
  fold_left (fun acc p => acc + snd p * fst p) (combine idx st) 0.
Definition compute_offset_w (w : Z) (idx st : list Z) : Z :=
  fold_left (fun acc p => wrap w (acc + wrap w (wrap w (snd p) * wrap w (fst p))))
            (combine idx st) 0.

(* index::compute_indices (compute_indices.hpp:22): indices[i] = (offset / strides[i]) % shape[i] *)
Fixpoint compute_indices3 (k : Z) (s st : list Z) : list Z :=
  match s, st with
  | n :: s', t :: st' => ((k / t) mod n) :: compute_indices3 k s' st'
  | _, _ => []
  end.
Definition compute_indices (k : Z) (s : list Z) : list Z :=
  compute_indices3 k s (compute_strides s).

(* ndindex_t (ndindex.hpp:20): size() = product(shape); operator[](i) = compute_indices(i,shape,stride) *)
Definition ndindex_size (s : list Z) : Z := product s.
Definition ndindex (s : list Z) (k : Z) : list Z := compute_indices k s.

(* row_major_offset_t::operator() = compute_offset(indices, strides_)  (base_ndarray.hpp:80)
   column_major_offset_t: shape_ = reverse(shape), strides_ = reverse(compute_strides(shape_))
   (base_ndarray.hpp:97-99) *)
Definition row_major_strides (s : list Z) : list Z := compute_strides s.
Definition col_major_strides (s : list Z) : list Z := rev (compute_strides (rev s)).
Definition row_major_offset (s idx : list Z) : Z := compute_offset idx (row_major_strides s).
Definition col_major_offset (s idx : list Z) : Z := compute_offset idx (col_major_strides s).

(* base_ndarray_t::operator()(indices...) = at(data_, offset_(indices)) :
   an array object is (layout, shape, flat buffer) *)
Inductive layout := RowMajor | ColMajor.
Definition layout_offset (L : layout) (s idx : list Z) : Z :=
  match L with RowMajor => row_major_offset s idx | ColMajor => col_major_offset s idx end.
Definition ndarray_get {A} (L : layout) (s : list Z) (buf : list A) (idx : list Z) : option A :=
  nth_error buf (Z.to_nat (layout_offset L s idx)).

(* list update (buffer write) *)
Fixpoint upd {A} (l : list A) (k : nat) (x : A) : list A :=
  match l, k with
  | [], _ => []
  | _ :: t, O => x :: t
  | h :: t, S k' => h :: upd t k' x
  end.
Definition ndarray_set {A} (L : layout) (s : list Z) (buf : list A) (idx : list Z) (x : A) : list A :=
  upd buf (Z.to_nat (layout_offset L s idx)) x.

(* ---------- reference (Spec) definitions, independent of strides/division ---------- *)

(* suffix products: what "strides are the products of the trailing extents" says *)
Fixpoint strides (s : list Z) : list Z :=
  match s with [] => [] | _ :: t => prod t :: strides t end.

(* row-major rank of a multi-index by Horner's rule *)
Fixpoint horner (acc : Z) (idx s : list Z) : Z :=
  match idx, s with
  | i :: idx', n :: s' => horner (acc * n + i) idx' s'
  | _, _ => acc
  end.

(* nested-loop enumeration, outermost axis first *)
Fixpoint lex_enum (s : list Z) : list (list Z) :=
  match s with
  | [] => [[]]
  | n :: t => flat_map (fun i => map (cons i) (lex_enum t)) (zrange n)
  end.

(* lexicographic strict order on equal-length multi-indices *)
Fixpoint lex_lt (a b : list Z) : Prop :=
  match a, b with
  | x :: a', y :: b' => x < y \/ (x = y /\ lex_lt a' b')
  | _, _ => False
  end.
