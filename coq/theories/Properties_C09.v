(* Properties_C09.v — C09: results are independent of container kind and of compile-
   vs run-time knowledge.  Statements only.  The theorems state the fit guard; that every
   C++ container kind implements `store` is what the generated correspondence observes. *)
From NM Require Import Base Index Broadcast Views Kinds KindIndep KindIndepShapes.
Local Open Scope Z_scope.

Theorem C09_fit_implies_ideal : forall k r, fits_kind k r = true -> store k r = r.
Proof. exact fit_implies_ideal. Qed.
Print Assumptions C09_fit_implies_ideal.

(* any two kinds that can hold the ideal result hold the same thing (failure included) *)
Theorem C09_kinds_agree : forall k1 k2 o,
  (forall r, o = Some r -> fits_kind k1 r = true /\ fits_kind k2 r = true) ->
  ostore k1 o = o /\ ostore k2 o = o /\ ostore k1 o = ostore k2 o.
Proof. exact kinds_agree. Qed.
Print Assumptions C09_kinds_agree.

Theorem C09_index_functions_kind_independent : forall k w s i,
  pos s -> prod s < 2 ^ w -> inb i s ->
  fits_kind k (strides s) = true -> fits_kind k (compute_indices (compute_offset i (compute_strides s)) s) = true ->
  store k (compute_strides_w w s) = strides s
  /\ product_w w s = prod s
  /\ compute_offset_w w i (compute_strides s) = compute_offset i (compute_strides s)
  /\ store k (compute_indices (compute_offset i (compute_strides s)) s) = i.
Proof. exact index_functions_kind_independent. Qed.
Print Assumptions C09_index_functions_kind_independent.

Theorem C09_broadcast_kind_independent : forall k1 k2 a b,
  pos a -> pos b ->
  (forall r, broadcast_shape2 a b = Some r -> fits_kind k1 r = true /\ fits_kind k2 r = true) ->
  ostore k1 (broadcast_shape2 a b) = np_broadcast2 a b /\ ostore k2 (broadcast_shape2 a b) = np_broadcast2 a b.
Proof. exact broadcast_kind_independent. Qed.
Print Assumptions C09_broadcast_kind_independent.

(* reshape and broadcast_to: acceptance AND accepted shape are NumPy's for any two kinds that can hold the ideal result —
   in particular a request that must be rejected is rejected whatever the kind of the shape containers *)
Theorem C09_reshape_kind_independent : forall k1 k2 src dst,
  pos src -> prod src < 2 ^ 64 -> dst <> [] -> prod (np_known dst) < 2 ^ 64 ->
  (forall r, shape_reshape src dst = Some r -> fits_kind k1 r = true /\ fits_kind k2 r = true) ->
  ostore k1 (shape_reshape src dst) = np_reshape_shape src dst
  /\ ostore k2 (shape_reshape src dst) = np_reshape_shape src dst.
Proof. exact shape_functions_kind_independent. Qed.
Print Assumptions C09_reshape_kind_independent.

Theorem C09_broadcast_to_kind_independent : forall k1 k2 a b,
  (forall r, option_map fst (shape_broadcast_to a b) = Some r -> fits_kind k1 r = true /\ fits_kind k2 r = true) ->
  ostore k1 (option_map fst (shape_broadcast_to a b)) = np_broadcast_to_shape a b
  /\ ostore k2 (option_map fst (shape_broadcast_to a b)) = np_broadcast_to_shape a b.
Proof. exact broadcast_to_kind_independent. Qed.
Print Assumptions C09_broadcast_to_kind_independent.

Theorem C09_constexpr_is_same_function : forall (X Y : Type) (f : X -> Y) (c v : X), v = c -> f v = f c.
Proof. intros X Y. exact (@constexpr_same X Y). Qed.
Print Assumptions C09_constexpr_is_same_function.

Theorem C09_clipped_broadcast_refuted :
  exists k a b r, broadcast_shape2 a b = Some r /\ fits_kind k b = true /\ store k r <> r.
Proof. exact clipped_broadcast_refuted. Qed.
Print Assumptions C09_clipped_broadcast_refuted.

Example C09_nonvacuous :
  fits_kind {| width := 32; cap := Some 8; clipb := None |} (strides [2;3;4]) = true
  /\ store {| width := 8; cap := None; clipb := None |} [300; 4; 1] = [44; 4; 1]
  /\ store {| width := 64; cap := Some 2; clipb := None |} [12; 4; 1] = [12; 4].
Proof. repeat split. Qed.
