(* Properties_C04.v — C04: selecting / replicating / joining / generating views equal their reference
   result.  Statements only; every proof is [exact lemma].  All statements hold for EVERY dimension and
   EVERY extent of the stated domain.  Routines without an element theorem here are "correspondence-only"
   (model vs C++ vs Spec on the explored grid), see notes/C04.md. *)
From NM Require Import Base Index IndexProofs Select SelectProofs.
Local Open Scope Z_scope.

(* ---------- tile ---------- *)
(* NumPy's shape for every source shape and every reps list (no hypothesis at all) *)
Theorem C04_tile_shape : forall s r, shape_tile s r = np_tile_shape s r.
Proof. exact tile_shape_spec. Qed.
Print Assumptions C04_tile_shape.

(* element i of tile(a, reps) is a[i mod shape] (right aligned), and that source index is in bounds *)
Theorem C04_tile_element : forall s r i, pos s -> inb i (shape_tile s r) ->
  tile_index s i = np_tile_index s i /\ inb (tile_index s i) s.
Proof.
  intros s r i Hp Hi. split; [|exact (tile_inb s r i Hp Hi)].
  apply tile_elem_spec. rewrite (inb_length _ _ Hi), tile_shape_length. apply Nat.le_max_l.
Qed.
Print Assumptions C04_tile_element.

(* ---------- non-vacuity ---------- *)
Example C04_nonvacuous_tile : pos [2;3] /\ shape_tile [2;3] [2;1;2] = [2;2;6] /\ inb [1;1;4] [2;2;6]
  /\ tile_index [2;3] [1;1;4] = [1;1].
Proof. repeat split; try (repeat constructor; lia). Qed.
