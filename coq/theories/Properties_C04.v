(* Properties_C04.v — C04: selecting / replicating / joining / generating views equal their reference
   result.  Statements only; every proof is [exact lemma] (or a conjunction of lemmas).  All statements hold
   for EVERY dimension and EVERY extent of the stated domain.  Model = Select.v (image of the C++), Spec =
   the np_ / doc_ definitions of Select.v.  "…_inb" parts are the copy statement of the property: the
   designated source index of a non-fill element lies inside the source (property C02 cites them).
   Routines without an element theorem here (roll with a tuple of axes, sliding_window / expand with several axes,
   diagonal beyond matrices, the stack family, split, compress with axis=None, repeat with per-element counts, where,
   full / zeros / ones) are CORRESPONDENCE-ONLY: modelled, specified and compared with the C++ on the explored grid, not proved. *)
From NM Require Import Base Index IndexProofs Select SelectProofs.
Local Open Scope Z_scope.

(* closed witnesses: every conjunct is decided by computation *)
Ltac witness := repeat match goal with |- _ /\ _ => split end;
  try (repeat constructor; lia); try reflexivity; try (vm_compute; discriminate); try (vm_compute; reflexivity).

(* ---------- tile ---------- *)
(* NumPy's shape for every source shape and every reps list (no hypothesis at all) *)
Theorem C04_tile_shape : forall s r, shape_tile s r = np_tile_shape s r.
Proof. exact tile_shape_spec. Qed.
Print Assumptions C04_tile_shape.

(* element i of tile(a, reps) is a[i mod shape] (right aligned), and that source index is in bounds *)
Theorem C04_tile_element : forall s r i, pos s -> inb i (shape_tile s r) ->
  tile_index s i = np_tile_index s i /\ inb (tile_index s i) s.
Proof.
  intros s r i Hp Hi. split; [|exact (tile_inb s r i Hp Hi)].
  apply tile_elem_spec. rewrite (inb_length _ _ Hi), tile_shape_length. apply Nat.le_max_l.
Qed.
Print Assumptions C04_tile_element.

(* ---------- repeat, scalar count ---------- *)
(* axis = None: 1-d result of size numel*r whose k-th element is the flat source element k / r *)
Theorem C04_repeat_flat : forall s r k, pos s -> 1 <= r -> inb [k] (shape_repeat_none s r) ->
  shape_repeat_none s r = np_repeat_none_shape s r
  /\ inb (repeat_none_index s r [k]) s
  /\ horner 0 (repeat_none_index s r [k]) s = np_repeat_none_flat r k.
Proof. exact repeat_none_spec. Qed.
Print Assumptions C04_repeat_flat.

(* every valid axis -dim <= axis < dim: that extent is multiplied, coordinate j reads source coordinate j / r *)
Theorem C04_repeat_axis : forall s r a i, pos s -> 1 <= r -> - zlen s <= a < zlen s ->
  exists k, np_axis a (zlen s) = Some k
  /\ shape_repeat_axis s r a = Val (set_nth k (nth k s 0 * r) s)
  /\ np_repeat_axis_shape s r a = Some (set_nth k (nth k s 0 * r) s)
  /\ (inb i (set_nth k (nth k s 0 * r) s) ->
      np_repeat_axis_index i r a = Some (repeat_axis_index i r a) /\ inb (repeat_axis_index i r a) s).
Proof. exact repeat_axis_full. Qed.
Print Assumptions C04_repeat_axis.

(* ---------- roll ---------- *)
(* one axis (negative axes included), ANY shift (sign, magnitude): coordinate j reads (j - shift) mod n *)
Theorem C04_roll_axis : forall s i shift a, pos s -> - zlen s <= a < zlen s -> inb i s ->
  shape_roll_axis s a = Val s
  /\ np_roll_axis_index s i shift a = Some (roll_axis_index s i shift a)
  /\ inb (roll_axis_index s i shift a) s.
Proof. exact roll_axis_spec. Qed.
Print Assumptions C04_roll_axis.

(* axis = None (flatten, roll, reshape): element i is the flat source element (rank(i) - shift) mod numel *)
Theorem C04_roll_flat : forall s i shift, pos s -> inb i s ->
  inb (roll_none_index s i shift) s
  /\ horner 0 (roll_none_index s i shift) s = np_roll_none_flat s shift (horner 0 i s).
Proof. exact roll_none_spec. Qed.
Print Assumptions C04_roll_flat.

(* tuple of axes: NumPy adds the shifts of equal axes, the code lets the last one win *)
Theorem C04_roll_repeated_axis_refuted : exists s i shifts axes,
  pos s /\ inb i s /\ shape_roll_axes s axes = Val s
  /\ np_roll_axes_index s i shifts axes <> Some (roll_axes_index s i shifts axes).
Proof.
  exists [2;3], [0;0], [1;1], [1;1]. witness.
Qed.
Print Assumptions C04_roll_repeated_axis_refuted.

(* ---------- pad ---------- *)
(* documented definition: widths [before.., after..]; inside the source block the element is a[i - before],
   the fill value elsewhere; the designated index is in bounds *)
Theorem C04_pad : forall s w i, zlen s * 2 = zlen w ->
  exists d, shape_pad s w = Val d /\ doc_pad_shape s w = Some d
    /\ (length i = length s -> pad_index i s w = doc_pad_index s w i
        /\ forall j, pad_index i s w = Some j -> inb j s).
Proof.
  intros s w i H. destruct (pad_shape_spec s w H) as [d [H1 H2]]. exists d. split; [exact H1|]. split; [exact H2|].
  intros Hl. assert (Hw : (length s <= length w)%nat) by (unfold zlen in H; lia).
  split; [exact (pad_elem_spec s i w Hl Hw)|]. intros j Hj. exact (pad_inb s i w j Hj Hl Hw).
Qed.
Print Assumptions C04_pad.

(* ---------- take ---------- *)
(* every valid axis, every valid entry -n <= e < n (negative entries count from the end) *)
Theorem C04_take_axis : forall s ind a i, - zlen s <= a < zlen s ->
  exists k, np_axis a (zlen s) = Some k
  /\ shape_take_axis s ind a = set_nth k (zlen ind) s
  /\ np_take_axis_shape s ind a = Some (set_nth k (zlen ind) s)
  /\ (Forall (fun x => - nth k s 0 <= x < nth k s 0) ind -> nth k s 0 <= 2 ^ 64 ->
      inb i (set_nth k (zlen ind) s) ->
      np_take_axis_index s ind i a = Some (take_axis_index s ind i a) /\ inb (take_axis_index s ind i a) s).
Proof. exact take_axis_full. Qed.
Print Assumptions C04_take_axis.

Theorem C04_take_flat : forall s ind k, pos s -> prod s <= 2 ^ 64 ->
  Forall (fun x => - prod s <= x < prod s) ind -> inb [k] (shape_take_none ind) ->
  shape_take_none ind = np_take_none_shape ind
  /\ inb (take_none_index s ind [k]) s
  /\ np_take_none_flat s ind k = Some (horner 0 (take_none_index s ind [k]) s).
Proof. exact take_none_full. Qed.
Print Assumptions C04_take_flat.

(* compress along any valid axis with a condition no longer than the axis: NumPy's take of the true positions *)
Theorem C04_compress_axis : forall s c a i, - zlen s <= a < zlen s ->
  exists k, np_axis a (zlen s) = Some k
  /\ shape_compress_axis s c a = set_nth k (zlen (np_true_positions c)) s
  /\ np_take_axis_shape s (np_true_positions c) a = Some (set_nth k (zlen (np_true_positions c)) s)
  /\ (zlen c <= nth k s 0 -> inb i (set_nth k (zlen (np_true_positions c)) s) ->
      np_take_axis_index s (np_true_positions c) i a = Some (compress_axis_index c i a) /\ inb (compress_axis_index c i a) s).
Proof. exact compress_axis_full. Qed.
Print Assumptions C04_compress_axis.

(* ---------- resize (nearest neighbour) ---------- *)
Theorem C04_resize : forall s d r i, pos s -> doc_resize_shape s d = Some r ->
  shape_resize s d = Val r
  /\ (length s = length d -> inb i d -> resize_index i s d = doc_resize_index s d i /\ inb (resize_index i s d) s).
Proof.
  intros s d r i Hp H. split; [exact (resize_shape_spec s d r H)|]. intros Hl Hi. exact (resize_elem_spec s d i Hl Hp Hi).
Qed.
Print Assumptions C04_resize.

(* the source position n*i/m (exact integer floor division) is monotone in the output position, starts at 0 and stays below
   the source extent — for ALL extents: the unbounded statement the large-extent correspondence (resize_ixall) is tied to *)
Theorem C04_resize_exact_monotone : forall n m i j, 0 <= n -> 0 < m -> 0 <= i <= j -> j < m ->
  0 <= n * i / m <= n * j / m /\ (0 < n -> n * j / m < n) /\ n * 0 / m = 0.
Proof. exact resize_axis_props. Qed.
Print Assumptions C04_resize_exact_monotone.

Theorem C04_resize_index_monotone : forall s d i j, length s = length d -> pos s -> inb i d -> inb j d ->
  Forall2 Z.le i j -> Forall2 Z.le (resize_index i s d) (resize_index j s d).
Proof. exact resize_index_mono. Qed.
Print Assumptions C04_resize_index_monotone.

(* ---------- concatenate ---------- *)
Theorem C04_concatenate_axis : forall a b axis d i, - zlen a <= axis < zlen a ->
  np_concat_axis_shape a b axis = Some d ->
  shape_concat_axis a b axis = Val d
  /\ (inb i d -> concat_axis_index a b i axis = np_concat_axis_index a i axis
      /\ match concat_axis_index a b i axis with
         | OpLeft j => inb j a | OpRight j => inb j b | OpNeither => False end).
Proof. exact concat_axis_full. Qed.
Print Assumptions C04_concatenate_axis.

Theorem C04_concatenate_flat : forall a b k, pos a -> pos b -> inb [k] (shape_concat_none a b) ->
  shape_concat_none a b = np_concat_none_shape a b
  /\ match concat_none_index a b [k] with
     | OpLeft j => inb j a /\ np_concat_none_flat a k = (false, horner 0 j a)
     | OpRight j => inb j b /\ np_concat_none_flat a k = (true, horner 0 j b)
     | OpNeither => False end.
Proof. exact concat_none_spec. Qed.
Print Assumptions C04_concatenate_flat.

(* ---------- tril / triu / tri / eye / diagflat ---------- *)
Theorem C04_tril_triu : forall s i k, (2 <= length s)%nat -> inb i s ->
  (tril_index s i k = (if np_tril_keep i k then Some (np_tri_source s i) else None)
   /\ forall j, tril_index s i k = Some j -> inb j s)
  /\ (triu_index s i k = (if np_triu_keep i k then Some (np_tri_source s i) else None)
   /\ forall j, triu_index s i k = Some j -> inb j s).
Proof. intros s i k Hs Hi. split; [exact (tril_spec s i k Hs Hi) | exact (triu_spec s i k Hs Hi)]. Qed.
Print Assumptions C04_tril_triu.

Theorem C04_tril_triu_1d : forall n r c k, 0 <= r < n -> 0 <= c < n ->
  shape_tri_like [n] = [n; n]
  /\ tril_index [n] [r; c] k = (if np_tril_keep [r; c] k then Some (np_tri_source [n] [r; c]) else None)
  /\ triu_index [n] [r; c] k = (if np_triu_keep [r; c] k then Some (np_tri_source [n] [r; c]) else None)
  /\ inb (np_tri_source [n] [r; c]) [n].
Proof. exact tril_triu_1d_spec. Qed.
Print Assumptions C04_tril_triu_1d.

Theorem C04_tri_eye : forall r c k,
  tri_is_one [r; c] k = (c <=? r + k) /\ eye_is_one [r; c] k = (c - r =? k).
Proof. exact tri_eye_spec. Qed.
Print Assumptions C04_tri_eye.

Theorem C04_diagflat : forall n k r c, 0 <= n -> 0 <= r < n + Z.abs k -> 0 <= c < n + Z.abs k ->
  match diagflat_index [r; c] k, np_diagflat_index [r; c] k with
  | Some [j], Some j' => j = j' /\ 0 <= j < n
  | None, None => True
  | _, _ => False
  end.
Proof. exact diagflat_spec. Qed.
Print Assumptions C04_diagflat.

(* ---------- sliding_window / expand along one axis, diagonal of a matrix ---------- *)
(* one axis (negative included), window w: extent n - (w-1) on the axis, a trailing window axis of extent w;
   element (j, t) is the source element at j with t added on the axis *)
Theorem C04_sliding_window_axis : forall s w a j t, pos s -> - zlen s <= a < zlen s ->
  exists k, np_axis a (zlen s) = Some k
  /\ shape_sliding_window_axes s [w] [a] = Val (set_nth k (nth k s 0 - (w - 1)) s ++ [w])
  /\ np_sw_shape s [w] [a] = set_nth k (nth k s 0 - (w - 1)) s ++ [w]
  /\ (inb (j ++ [t]) (set_nth k (nth k s 0 - (w - 1)) s ++ [w]) -> length j = length s ->
      sliding_window_axes_index (length s) (j ++ [t]) [a] = np_sw_index (length s) (j ++ [t]) [a]
      /\ inb (sliding_window_axes_index (length s) (j ++ [t]) [a]) s).
Proof. exact sliding_window_axis_spec. Qed.
Print Assumptions C04_sliding_window_axis.

(* one axis (negative included), spacing q >= 0: n -> n + (n-1) q; multiples of q+1 read the source, the rest is fill *)
Theorem C04_expand_axis : forall s a q i, pos s -> 0 <= q -> - zlen s <= a < zlen s ->
  exists k, np_axis a (zlen s) = Some k
  /\ shape_expand s [a] [q] = Val (set_nth k (nth k s 0 + (nth k s 0 - 1) * q) s)
  /\ doc_expand_shape1 s a q = Some (set_nth k (nth k s 0 + (nth k s 0 - 1) * q) s)
  /\ (inb i (set_nth k (nth k s 0 + (nth k s 0 - 1) * q) s) ->
      doc_expand_index1 i a q = Some (expand_index s i [a] [q])
      /\ forall j, expand_index s i [a] [q] = Some j -> inb j s).
Proof. exact expand_axis_spec. Qed.
Print Assumptions C04_expand_axis.

(* PARTIAL: matrices with axes (0,1), ANY offset (negative and beyond the extent included: NumPy's clamped length);
   higher dimensions and other axis pairs are correspondence-only *)
Theorem C04_diagonal_matrix_partial : forall n1 n2 offset t, 1 <= n1 -> 1 <= n2 ->
  shape_diagonal [n1; n2] offset 0 1 = Val [np_diag_len n1 n2 offset]
  /\ np_diagonal_shape [n1; n2] offset 0 1 = Some [np_diag_len n1 n2 offset]
  /\ (0 <= t < np_diag_len n1 n2 offset ->
      np_diagonal_index 2 [t] offset 0 1 = Some (diagonal_index 2 [t] offset 0 1)
      /\ inb (diagonal_index 2 [t] offset 0 1) [n1; n2]).
Proof. exact diagonal_2d_spec. Qed.
Print Assumptions C04_diagonal_matrix_partial.

(* ---------- generators: element count of arange, elements of linspace (exact rationals) ---------- *)
Theorem C04_arange_count : forall start stop p q, p <> 0 ->
  arange_len start stop p q = Val (np_arange_len start stop p q).
Proof. exact arange_len_spec. Qed.
Print Assumptions C04_arange_count.

Theorem C04_linspace_element : forall start stop num endpoint i, 1 <= num -> 0 <= i < num ->
  let m := linspace_elem start stop num endpoint i in
  let sp := np_linspace_elem start stop num endpoint i in
  snd m <> 0 /\ snd sp <> 0 /\ fst m * snd sp = fst sp * snd m.
Proof. exact linspace_elem_spec. Qed.
Print Assumptions C04_linspace_element.

(* ---------- element types of the joining views (concatenate, stack family, where) ---------- *)
(* an element n of an operand of type a, joined with an operand of type b (either order), is copied exactly: under C++'s
   common type whenever it agrees with NumPy's result type or n is float32-representable; under NumPy's result type always *)
Theorem C04_join_elements_on_domain : forall a b n, value_in a n -> round_sig 53 n = n ->
  (cxx_common a b = np_common a b \/ round_sig 24 n = n) ->
  conv (cxx_common a b) n = n /\ conv (np_common a b) n = n
  /\ conv (cxx_common b a) n = n /\ conv (np_common b a) n = n.
Proof. exact join_copy. Qed.
Print Assumptions C04_join_elements_on_domain.

(* the full statement fails: meta::common_type gives float for int32 / int64 with float (NumPy: float64), so an integer
   above 2^24 is rounded: 16777217 joined with a float32 array reads back as 16777216 *)
Theorem C04_int_float32_common_type_refuted : exists a b n,
  value_in a n /\ round_sig 53 n = n /\ conv (np_common a b) n = n /\ conv (cxx_common a b) n <> n.
Proof.
  exists I32, F32, (4 * 16777217). split; [split; [reflexivity | change (2 ^ (width I32 - 1)) with 2147483648; change (4 * 16777217 / 4) with 16777217; lia]|].
  split; [reflexivity|]. split; [reflexivity|]. vm_compute. discriminate.
Qed.
Print Assumptions C04_int_float32_common_type_refuted.

(* ---------- non-vacuity ---------- *)
Example C04_nonvacuous_tile : pos [2;3] /\ shape_tile [2;3] [2;1;2] = [2;2;6] /\ inb [1;1;4] [2;2;6]
  /\ tile_index [2;3] [1;1;4] = [1;1].
Proof. repeat split; try (repeat constructor; lia). Qed.
Example C04_nonvacuous_repeat : pos [2;3] /\ shape_repeat_axis [2;3] 2 1 = Val [2;6] /\ inb [1;5] [2;6]
  /\ repeat_axis_index [1;5] 2 1 = [1;2] /\ repeat_none_index [2;3] 2 [11] = [1;2].
Proof. repeat split; try (repeat constructor; lia). Qed.
Example C04_nonvacuous_roll : pos [2;3] /\ inb [1;0] [2;3] /\ roll_axis_index [2;3] [1;0] 5 (-1) = [1;1]
  /\ roll_axis_index [2;3] [1;0] (-7) 1 = [1;1] /\ roll_none_index [2;3] [0;0] (-7) = [0;1].
Proof. repeat split; try (repeat constructor; lia). Qed.
Example C04_nonvacuous_pad : shape_pad [2;3] [1;0;2;1] = Val [5;4] /\ pad_index [1;2] [2;3] [1;0;2;1] = Some [0;2]
  /\ pad_index [0;2] [2;3] [1;0;2;1] = None.
Proof. repeat split. Qed.
Example C04_nonvacuous_take : shape_take_axis [2;3] [2;0;0] 1 = [2;3] /\ take_axis_index [2;3] [2;0;0] [1;0] 1 = [1;2]
  /\ Forall (fun x => - 3 <= x < 3) [2;0;-1].
Proof. repeat split; repeat constructor; cbn; lia. Qed.
(* regression examples: the inputs of the former findings (negative axis / negative entries / negative offset /
   empty range / num = 1) now give NumPy's answer *)
Example C04_regression_negative_axis :
  repeat_axis_index [0;5] 2 (-1) = [0;2]
  /\ shape_take_axis [2;3] [1;0] (-1) = [2;2] /\ take_axis_index [2;3] [1;0] [1;0] (-1) = [1;1]
  /\ shape_compress_axis [2;3] [0;1] (-1) = [2;1] /\ compress_axis_index [0;1] [1;0] (-1) = [1;1]
  /\ shape_concat_axis [2;3] [2;2] (-1) = Val [2;5] /\ concat_axis_index [2;3] [2;2] [1;4] (-1) = OpRight [1;1].
Proof. witness. Qed.
Example C04_regression_entries_offsets :
  take_axis_index [2;3] [-1;0] [1;0] 1 = [1;2] /\ horner 0 (take_none_index [2;3] [-1] [0]) [2;3] = 5
  /\ shape_diagonal [3;3] (-1) 0 1 = Val [2] /\ diagonal_index 2 [1] (-1) 0 1 = [2;1]
  /\ shape_diagonal [2;3] 4 0 1 = Val [0]
  /\ arange_len 3 0 1 1 = Val 0 /\ linspace_elem 2 5 1 true 0 = (2, 1)
  /\ arange_len 3 (-4) (-2) 1 = Val 4 /\ arange_elem 3 (-2) 1 3 = -3
  /\ arange_len 5 0 (-2) 1 = Val 3 /\ arange_len 16777217 16777219 1 1 = Val 2 /\ arange_len 6 1 (-2) 1 = Val 3.
Proof. witness. Qed.
Example C04_nonvacuous_concat : np_concat_axis_shape [2;3] [2;2] 1 = Some [2;5] /\ inb [1;4] [2;5]
  /\ concat_axis_index [2;3] [2;2] [1;4] 1 = OpRight [1;1] /\ concat_axis_index [2;3] [2;2] [1;2] 1 = OpLeft [1;2].
Proof. repeat split; try (repeat constructor; lia). Qed.
Example C04_nonvacuous_resize : doc_resize_shape [2;3] [4;2] = Some [4;2] /\ resize_index [3;1] [2;3] [4;2] = [1;1].
Proof. split; reflexivity. Qed.
Example C04_nonvacuous_sw : shape_sliding_window_axes [3;4] [2] [-1] = Val [3;3;2]
  /\ sliding_window_axes_index 2 [2;1;1] [-1] = [2;2] /\ expand_index [2;3] [1;2] [-1] [1] = Some [1;1]
  /\ expand_index [2;3] [1;1] [-1] [1] = None /\ diagonal_index 2 [1] 1 0 1 = [1;2].
Proof. repeat split. Qed.
Example C04_nonvacuous_dtype : cxx_common I64 F32 = F32 /\ np_common I64 F32 = F64 /\ cxx_common I8 I64 = I64
  /\ conv (cxx_common I32 F32) (-9) = -9 /\ conv I32 (-9) = -8 /\ conv F32 (4 * 16777217) = 4 * 16777216.
Proof. witness. Qed.
Example C04_nonvacuous_tril : inb [1;2] [3;3] /\ tril_index [3;3] [1;2] 0 = None /\ tril_index [3;3] [2;1] 0 = Some [2;1]
  /\ triu_index [3;3] [1;2] 0 = Some [1;2].
Proof. repeat split; try (repeat constructor; lia). Qed.
