(* Containers.v — C19: the STL-free containers as state machines.
   MODEL: include/nmtools/utl/vector.hpp (as of the fixes "destructor frees whenever buffer_ is non-null" and
   "growing resize and the sized constructor value-initialise the new cells"),
   utl/static_vector.hpp (as of the fix "static_vector(n) refuses n > Capacity"), utl/maybe.hpp, utl/either.hpp, operation for operation, on physical memory
   cells (a cell of a fresh malloc block is indeterminate) with an abstract heap that records
   allocations, frees, frees of non-live blocks and accesses outside a buffer.
   SPEC: std::vector / capacity-bounded vector / std::optional / std::variant as lists, options, sums.
   Two objects A and B live throughout a history (the harness holds them behind pointers). *)
From NM Require Import Base Index.
Local Open Scope nat_scope.

(* ---------- operations of a history (sequence containers) ---------- *)
Inductive op :=
| Default                 (* A = fresh default-constructed object; the old A is destroyed afterwards *)
| Ctor (n : nat)          (* A = fresh object from the sized constructor *)
| Push (v : Z)
| Resize (n : nat)
| Write (i : nat) (v : Z) (* if (i < A.size()) A[i] = v *)
| CopyCtor                (* B = fresh copy-constructed from A; the old B is destroyed afterwards *)
| AssignAB                (* B = A *)
| AssignBA                (* A = B *)
| SelfAssign              (* A = A *)
| Flip.                   (* the harness swaps the roles of A and B *)

(* ---------- physical memory ---------- *)
Inductive cell := Val (z : Z) | Indet.

Record heap := mkHeap { live : list nat; next : nat; nalloc : nat; nfree : nat; bad : bool; oob : bool }.
Definition heap0 : heap := mkHeap [] 0 0 0 false false.
Definition halloc (h : heap) : nat * heap :=
  (next h, mkHeap (next h :: live h) (S (next h)) (S (nalloc h)) (nfree h) (bad h) (oob h)).
(* free of a block that is not live (double free / foreign pointer) is recorded in [bad] *)
Definition hfree (h : heap) (id : nat) : heap :=
  if existsb (Nat.eqb id) (live h)
  then mkHeap (remove Nat.eq_dec id (live h)) (next h) (nalloc h) (S (nfree h)) (bad h) (oob h)
  else mkHeap (live h) (next h) (nalloc h) (nfree h) true (oob h).
(* an access is inside its block iff the guard holds *)
Definition chk (h : heap) (inside : bool) : heap :=
  if inside then h else mkHeap (live h) (next h) (nalloc h) (nfree h) (bad h) true.

(* for (i = 0; i < n; i++) dst[i] = src[i] *)
Definition copy_cells (dst src : list cell) (n : nat) : list cell := firstn n src ++ skipn n dst.

(* ---------- utl::vector<T> (vector.hpp:145-244) ---------- *)
Record vobj := mkV { vbuf : list cell; vsize : nat; vblk : nat }.     (* buffer_size_ = length vbuf *)

Definition v_new (h : heap) (n size : nat) : vobj * heap :=
  let (id, h') := halloc h in (mkV (repeat Indet n) size id, h').
Definition v_default (h : heap) := v_new h 4 0.          (* vector(): allocate(4), size 0 *)

(* for (i = a; i < b; i++) buf[i] = T{}   (nothing when b <= a) *)
Definition fill_cells (buf : list cell) (a b : nat) : list cell :=
  firstn a buf ++ repeat (Val 0%Z) (b - a) ++ skipn (Nat.max a b) buf.

(* resize: the !buffer_ arm is unreachable (every constructor allocates; malloc(0) is a block of length 0) *)
Definition v_resize (h : heap) (o : vobj) (n : nat) : vobj * heap :=
  if length (vbuf o) <? n then
    let (id, h1) := halloc h in
    let h2 := chk h1 (vsize o <=? length (vbuf o)) in              (* memcpy(new, old, old_size) *)
    (* the new block has exactly n cells: [old_size, n) are value-initialised by the loop after the arms *)
    (mkV (firstn (vsize o) (vbuf o) ++ repeat (Val 0%Z) (n - vsize o)) n id, hfree h2 (vblk o))
  else (mkV (fill_cells (vbuf o) (vsize o) n) n (vblk o), chk h (n <=? length (vbuf o))).
(* vector(N): allocate(N), size 0, then resize(N) value-initialises the N cells *)
Definition v_sized (h : heap) (n : nat) : vobj * heap := let (o, h1) := v_new h n 0 in v_resize h1 o n.

Definition v_set (h : heap) (o : vobj) (i : nat) (c : cell) : vobj * heap :=
  (mkV (upd (vbuf o) i c) (vsize o) (vblk o), chk h (i <? length (vbuf o))).

Definition v_push (h : heap) (o : vobj) (v : Z) : vobj * heap :=
  let (o1, h1) := if length (vbuf o) <? vsize o + 1 then v_resize h o (vsize o + 1)
                  else (mkV (vbuf o) (vsize o + 1) (vblk o), h) in
  v_set h1 o1 (vsize o1 - 1) (Val v).

Definition v_copy_into (h : heap) (o src : vobj) : vobj * heap :=
  (mkV (copy_cells (vbuf o) (vbuf src) (vsize o)) (vsize o) (vblk o),
   chk h ((vsize o <=? length (vbuf o)) && (vsize o <=? length (vbuf src)))).
Definition v_copyctor (h : heap) (src : vobj) : vobj * heap :=
  let (o, h1) := v_default h in let (o2, h2) := v_resize h1 o (vsize src) in v_copy_into h2 o2 src.
Definition v_assign (h : heap) (dst src : vobj) : vobj * heap :=
  let (o2, h2) := v_resize h dst (vsize src) in v_copy_into h2 o2 src.
Definition v_destroy (h : heap) (o : vobj) : heap := hfree h (vblk o).   (* buffer_ is never null *)

Record vsys := mkVS { oa : vobj; ob : vobj; hp : heap }.
Definition vinit : vsys :=
  let (a, h1) := v_default heap0 in let (b, h2) := v_default h1 in mkVS a b h2.

Definition vstep (s : vsys) (o : op) : vsys :=
  match o with
  | Default => let (a, h) := v_default (hp s) in mkVS a (ob s) (v_destroy h (oa s))
  | Ctor n => let (a, h) := v_sized (hp s) n in mkVS a (ob s) (v_destroy h (oa s))
  | Push v => let (a, h) := v_push (hp s) (oa s) v in mkVS a (ob s) h
  | Resize n => let (a, h) := v_resize (hp s) (oa s) n in mkVS a (ob s) h
  | Write i v => if i <? vsize (oa s) then let (a, h) := v_set (hp s) (oa s) i (Val v) in mkVS a (ob s) h else s
  | CopyCtor => let (b, h) := v_copyctor (hp s) (oa s) in mkVS (oa s) b (v_destroy h (ob s))
  | AssignAB => let (b, h) := v_assign (hp s) (ob s) (oa s) in mkVS (oa s) b h
  | AssignBA => let (a, h) := v_assign (hp s) (oa s) (ob s) in mkVS a (ob s) h
  | SelfAssign => let (a, h) := v_assign (hp s) (oa s) (oa s) in mkVS a (ob s) h   (* resize(size_) never reallocates: no aliasing effect *)
  | Flip => mkVS (ob s) (oa s) (hp s)
  end.
Definition vrun (ops : list op) : vsys := fold_left vstep ops vinit.
(* end of the history: both objects are destroyed *)
Definition vfinish (s : vsys) : heap := v_destroy (v_destroy (hp s) (oa s)) (ob s).
Definition vcontents (o : vobj) : list cell := firstn (vsize o) (vbuf o).

(* ---------- utl::static_vector<T,Cap> (static_vector.hpp:56-97) ---------- *)
Section StaticVector.
  Variable Cap : nat.
  Record sobj := mkS { sbuf : list cell; ssize : nat }.
  Definition s_default : sobj := mkS (repeat (Val 0%Z) Cap) 0.       (* buffer = {} : value-initialised *)
  Definition s_resize (o : sobj) (n : nat) : sobj := if n <=? Cap then mkS (fill_cells (sbuf o) (ssize o) n) n else o.
  (* static_vector(n) { resize(n); } — after the fix: a request beyond the capacity is refused, the object stays empty *)
  Definition s_sized (n : nat) : sobj := s_resize s_default n.
  Definition s_push (o : sobj) (v : Z) : sobj :=
    if Cap <? ssize o + 1 then o
    else let o1 := s_resize o (ssize o + 1) in mkS (upd (sbuf o1) (ssize o1 - 1) (Val v)) (ssize o1).
  Definition s_assign (dst src : sobj) : sobj :=
    let o := s_resize dst (ssize src) in mkS (copy_cells (sbuf o) (sbuf src) (ssize o)) (ssize o).
  Definition sstep (s : sobj * sobj) (o : op) : sobj * sobj :=
    let (a, b) := s in
    match o with
    | Default => (s_default, b)
    | Ctor n => (s_sized n, b)
    | Push v => (s_push a v, b)
    | Resize n => (s_resize a n, b)
    | Write i v => if (i <? ssize a) && (i <? Cap) then (mkS (upd (sbuf a) i (Val v)) (ssize a), b) else s
    | CopyCtor => (a, a)                         (* buffer(other.buffer), size_(other.size_) *)
    | AssignAB => (a, s_assign b a)
    | AssignBA => (s_assign a b, b)
    | SelfAssign => (s_assign a a, b)
    | Flip => (b, a)
    end.
  Definition srun (ops : list op) : sobj * sobj := fold_left sstep ops (s_default, s_default).
  Definition scontents (o : sobj) : list cell := firstn (ssize o) (sbuf o).
End StaticVector.

(* ---------- SPEC: std::vector, optionally capacity-bounded (refused operations leave the contents unchanged).
   Generic in the cell type so that the same definition gives the std contents (A = Z, new cells 0) and the
   "masked" contents (A = option Z: None marks a cell std value-initialises but the library leaves as it is). *)
Section SeqSpec.
  Variable A : Type.
  Variable fillc fillr : A.     (* new cells of the sized constructor / of a growing resize *)
  Variable inj : Z -> A.
  Variable cap : option nat.
  Definition fits (n : nat) : bool := match cap with Some c => n <=? c | None => true end.
  Definition l_resize (l : list A) (n : nat) : list A :=
    if fits n then firstn n l ++ repeat fillr (n - length l) else l.
  Definition lstep (s : list A * list A) (o : op) : list A * list A :=
    let (a, b) := s in
    match o with
    | Default => ([], b)
    | Ctor n => (if fits n then repeat fillc n else [], b)   (* a refused sized construction leaves the fresh, empty object *)
    | Push v => (if fits (length a + 1) then a ++ [inj v] else a, b)
    | Resize n => (l_resize a n, b)
    | Write i v => (if i <? length a then upd a i (inj v) else a, b)
    | CopyCtor => (a, a)
    | AssignAB => (a, a)
    | AssignBA => (b, b)
    | SelfAssign => (a, b)
    | Flip => (b, a)
    end.
  Definition lrun (ops : list op) : list A * list A := fold_left lstep ops ([], []).
End SeqSpec.

Definition std_run (cap : option nat) := lrun Z 0%Z 0%Z (fun z => z) cap.
(* the same run with option-valued cells (Some v = the cell is fixed to v).  Since the fix "growing resize and the
   sized constructor value-initialise the new cells" every cell is fixed: new cells are Some 0. *)
Definition vmask_run := lrun (option Z) (Some 0%Z) (Some 0%Z) Some None.
Definition smask_run (Cap : nat) := lrun (option Z) (Some 0%Z) (Some 0%Z) Some (Some Cap).

(* a physical cell agrees with a masked cell; a masked cell agrees with a std cell *)
Definition cell_ok (c : cell) (m : option Z) : Prop := match m with None => True | Some v => c = Val v end.
Definition mask_ok (m : option Z) (z : Z) : Prop := match m with None => True | Some v => v = z end.
Definition determined (l : list (option Z)) : bool := forallb (fun m => match m with Some _ => true | None => false end) l.

(* ---------- utl::maybe<T> / utl::either<L,R> ---------- *)
(* trivial element types: tag + the bytes of the union *)
Inductive eop := EDefault | ELeftSet (v : Z) | ERightSet (v : Z) | ECopyCtor | EAssignAB | EAssignBA | ESelfAssign | EFlip.
Definition estate := (Z + Z)%type.
Definition estep (s : estate * estate) (o : eop) : estate * estate :=
  let (a, b) := s in
  match o with
  | EDefault => (inl 0%Z, b)            (* either() : left{}, tag LEFT *)
  | ELeftSet v => (inl v, b)            (* base_either::operator=(const left_type&) *)
  | ERightSet v => (inr v, b)
  | ECopyCtor => (a, a)
  | EAssignAB => (a, a)                 (* tag switch + placement-new of the other member, then member assignment *)
  | EAssignBA => (b, b)
  | ESelfAssign => (a, b)
  | EFlip => (b, a)
  end.
Definition erun (ops : list eop) := fold_left estep ops (inl 0%Z, inl 0%Z).

(* ---------- maybe<T> / either<T,long> for a NON-trivial element type T ----------
   (maybe.hpp:98-200 second specialisation; either.hpp:208-262 "~either() {}" specialisation.)
   The union member that holds a T is either constructed or raw storage.  The code as it is
     - never runs ~T (defaulted / empty destructor over the union),
     - assigns with T::operator= into the member whatever its status (base_either::operator=(const T&),
       either's copy constructor, maybe::operator=(const maybe&)),
     - placement-news a fresh T over the member when an either assignment switches the tag to LEFT,
     - overwrites the member's bytes when the long alternative is written.
   The model counts the payload events exactly: constructions, destructions, assignments, assignments into raw
   storage.  A history starts with A and B default-constructed in dirty storage; every later construction happens in
   dirty storage as well (the driver fills the buffer with 0xAB before each placement new). *)
Inductive slot := Raw | Con.
Record ncnt := mkC { n_ctor : nat; n_dtor : nat; n_asg : nat; n_asgraw : nat }.
Definition cnt0 : ncnt := mkC 0 0 0 0.
Definition c_ctor (c : ncnt) := mkC (S (n_ctor c)) (n_dtor c) (n_asg c) (n_asgraw c).
Definition c_dtor (c : ncnt) := mkC (n_ctor c) (S (n_dtor c)) (n_asg c) (n_asgraw c).
(* T::operator= on a member in state sl *)
Definition c_assign (sl : slot) (c : ncnt) :=
  match sl with
  | Con => mkC (n_ctor c) (n_dtor c) (S (n_asg c)) (n_asgraw c)
  | Raw => mkC (n_ctor c) (n_dtor c) (S (n_asg c)) (S (n_asgraw c))
  end.
Definition n_live (c : ncnt) : nat := n_ctor c - n_dtor c.

(* --- utl::maybe<T> --- *)
Inductive mop := MDefault | MReset | MSet (v : Z) | MCtorVal (v : Z) | MCopyCtor | MAssignAB | MAssignBA | MSelfAssign | MFlip.
Record mobj := mkM { m_has : bool; m_slot : slot; m_val : Z }.
Definition m_fresh : mobj := mkM false Raw 0%Z.                       (* maybe() : base(nothing) in dirty storage *)
(* operator=(const maybe& other) *)
Definition m_assign (dst src : mobj) (c : ncnt) : mobj * ncnt :=
  if m_has src then (mkM true (m_slot dst) (m_val src), c_assign (m_slot dst) c)   (* this->left = other.left *)
  else (mkM false (m_slot dst) (m_val dst), c).                                     (* this->right = other.right: tag only *)
Definition mstep (s : mobj * mobj * ncnt) (o : mop) : mobj * mobj * ncnt :=
  let '(a, b, c) := s in
  match o with
  | MDefault => (m_fresh, b, c)                                   (* the old object is destroyed: no ~T *)
  | MReset => (mkM false (m_slot a) (m_val a), b, c)              (* = nothing : tag only, the T object stays *)
  | MSet v => (mkM true (m_slot a) v, b, c_dtor (c_assign (m_slot a) (c_ctor c)))   (* temporary T(v); left = val; ~temporary *)
  | MCtorVal v => (mkM true Con v, b, c_dtor (c_ctor (c_ctor c)))  (* temporary; maybe(const T&): left(val) constructs; ~temporary *)
  | MCopyCtor => (a, if m_has a then mkM true Con (m_val a) else m_fresh, if m_has a then c_ctor c else c)
                                                                  (* maybe(const maybe&): new(&left) T(other.left) *)
  | MAssignAB => let (b', c') := m_assign b a c in (a, b', c')
  | MAssignBA => let (a', c') := m_assign a b c in (a', b, c')
  | MSelfAssign => let (a', c') := m_assign a a c in (a', b, c')
  | MFlip => (b, a, c)
  end.
Definition mrun (ops : list mop) := fold_left mstep ops (m_fresh, m_fresh, cnt0).
Definition m_obs (m : mobj) : option Z := if m_has m then Some (m_val m) else None.
(* std::optional *)
Definition mspec_step (s : option Z * option Z) (o : mop) : option Z * option Z :=
  let (a, b) := s in
  match o with
  | MDefault | MReset => (None, b)
  | MSet v | MCtorVal v => (Some v, b)
  | MCopyCtor | MAssignAB => (a, a)
  | MAssignBA => (b, b)
  | MSelfAssign => (a, b)
  | MFlip => (b, a)
  end.
Definition mspec_run (ops : list mop) := fold_left mspec_step ops (None, None).

(* --- utl::either<T,long> --- *)
Record eobj := mkE { e_left : bool; e_slot : slot; e_val : Z }.
Definition e_default (c : ncnt) : eobj * ncnt := (mkE true Con 0%Z, c_ctor c).     (* either() : left{} *)
(* either(const either& other): tag = other.tag; left = other.left (ASSIGNMENT into the raw member) / right = other.right *)
Definition e_copyctor (src : eobj) (c : ncnt) : eobj * ncnt :=
  if e_left src then (mkE true Raw (e_val src), c_assign Raw c) else (mkE false Raw (e_val src), c).
(* operator=(const either& other): on a tag switch placement-new T{} (or long{} over the member's bytes), then assign *)
Definition e_assign (dst src : eobj) (c : ncnt) : eobj * ncnt :=
  let '(sl, c1) := if Bool.eqb (e_left src) (e_left dst) then (e_slot dst, c)
                   else if e_left src then (Con, c_ctor c) else (Raw, c) in
  if e_left src then (mkE true sl (e_val src), c_assign sl c1) else (mkE false Raw (e_val src), c1).
Definition enstep (s : eobj * eobj * ncnt) (o : eop) : eobj * eobj * ncnt :=
  let '(a, b, c) := s in
  match o with
  | EDefault => let (a', c') := e_default c in (a', b, c')
  | ELeftSet v => (mkE true (e_slot a) v, b, c_dtor (c_assign (e_slot a) (c_ctor c)))  (* temporary T(v); left = val; ~temporary *)
  | ERightSet v => (mkE false Raw v, b, c)                                             (* right = val over the member's bytes *)
  | ECopyCtor => let (b', c') := e_copyctor a c in (a, b', c')
  | EAssignAB => let (b', c') := e_assign b a c in (a, b', c')
  | EAssignBA => let (a', c') := e_assign a b c in (a', b, c')
  | ESelfAssign => let (a', c') := e_assign a a c in (a', b, c')
  | EFlip => (b, a, c)
  end.
Definition enrun (ops : list eop) :=
  let (a, c1) := e_default cnt0 in let (b, c2) := e_default c1 in fold_left enstep ops (a, b, c2).
Definition e_obs (e : eobj) : Z + Z := if e_left e then inl (e_val e) else inr (e_val e).

(* ---------- nmtools::small_vector<T,DIM> (utility/small_vector.hpp:45-140), default configuration:
   either_t = std::variant, static_vector_t = utl::static_vector, vector_t = std::vector.  The inline arm is the
   static_vector model above (physical cells: a shrink leaves the old values in place); the heap arm is a std::vector
   (a list).  The spill of resize(new_size > DIM) copies the prev_size LIVE cells into a value-initialised vector. *)
Section SmallVector.
  Variable DIM : nat.
  Inductive smallv := SmS (o : sobj) | SmD (l : list Z).
  Definition cellz (c : cell) : Z := match c with Val z => z | Indet => 0%Z end.
  Definition sm_default : smallv := SmS (s_default DIM).                     (* buffer_ = {} : first alternative *)
  (* small_vector(N): N < DIM -> static_vector{} ; else vector{} ; then resize(N) on the chosen arm *)
  Definition sm_sized (n : nat) : smallv :=
    if n <? DIM then SmS (s_resize DIM (s_default DIM) n) else SmD (repeat 0%Z n).
  Definition sm_size (x : smallv) : nat := match x with SmS o => ssize o | SmD l => length l end.
  Definition sm_resize (x : smallv) (n : nat) : smallv :=
    match x with
    | SmS o => if n <=? DIM then SmS (s_resize DIM o n)
               else SmD (map cellz (firstn (ssize o) (sbuf o)) ++ repeat 0%Z (n - ssize o))
                    (* new_buffer = small_vector(n); for i < prev_size: new_buffer.at(i) = static_ptr->at(i) *)
    | SmD l => SmD (firstn n l ++ repeat 0%Z (n - length l))
    end.
  Definition sm_write (x : smallv) (i : nat) (v : Z) : smallv :=
    match x with SmS o => SmS (mkS (upd (sbuf o) i (Val v)) (ssize o)) | SmD l => SmD (upd l i v) end.
  Definition sm_push (x : smallv) (v : Z) : smallv :=
    if sm_size x =? DIM then sm_write (sm_resize x (DIM + 1)) DIM v       (* resize(old_size+1); at(old_size) = t *)
    else match x with SmS o => SmS (s_push DIM o v) | SmD l => SmD (l ++ [v]) end.
  Definition smstep (s : smallv * smallv) (o : op) : smallv * smallv :=
    let (a, b) := s in
    match o with
    | Default => (sm_default, b)
    | Ctor n => (sm_sized n, b)
    | Push v => (sm_push a v, b)
    | Resize n => (sm_resize a n, b)
    | Write i v => if i <? sm_size a then (sm_write a i v, b) else s
    | CopyCtor => (a, a)
    | AssignAB => (a, a)
    | AssignBA => (b, b)
    | SelfAssign => s
    | Flip => (b, a)
    end.
  Definition smrun (ops : list op) : smallv * smallv := fold_left smstep ops (sm_default, sm_default).
  Definition sm_contents (x : smallv) : list Z := match x with SmS o => map cellz (scontents o) | SmD l => l end.
  Definition sm_is_static (x : smallv) : bool := match x with SmS _ => true | SmD _ => false end.
End SmallVector.

(* ---------- utl::tuple / utl::tuplev2 (arity 1..12): a tuple is the list of its elements.  The harness fills element I
   of an arity-n source with base + 7*I + 1 (distinct values, exact in every element type used). *)
Definition tup_vals (base : Z) (n : nat) : list Z := map (fun i => (base + 7 * Z.of_nat i + 1)%Z) (seq 0 n).
Definition tup_cat (a b : list Z) : list Z := a ++ b.
Definition tup_append (a : list Z) (v : Z) : list Z := a ++ [v].
