(* NdarrayProofs.v — lemmas about the array-object model of Ndarray.v (property C20). *)
From NM Require Import Base Index IndexProofs Ndarray.
Local Open Scope Z_scope.

(* ---------- small list / arithmetic facts ---------- *)
Lemma lresize_length {B} (d : B) l n : length (lresize d l n) = n.
Proof. unfold lresize. rewrite app_length, firstn_length, repeat_length. lia. Qed.

Definition nonneg (s : list Z) : Prop := Forall (fun n => 0 <= n) s.
Definition nonnegb (s : list Z) : bool := forallb (fun n => 0 <=? n) s.
Lemma nonnegb_nonneg s : nonnegb s = true <-> nonneg s.
Proof.
  unfold nonnegb, nonneg. rewrite forallb_forall, Forall_forall.
  split; intros H x Hx; specialize (H x Hx); lia.
Qed.

Lemma prod_nonneg s : nonneg s -> 0 <= prod s.
Proof. induction 1; simpl; nia. Qed.

Lemma pos_nonneg s : pos s -> nonneg s.
Proof. unfold pos, nonneg. apply Forall_impl. intros; lia. Qed.

Lemma inb_pos i s : inb i s -> pos s.
Proof. induction 1; constructor; [lia | assumption]. Qed.

Lemma prod_repeat_one m l : prod (repeat 1 m ++ l) = prod l.
Proof. induction m; simpl; [reflexivity|]. rewrite IHm. destruct (prod l); reflexivity. Qed.

Lemma pointwise_le_prod a : forall b, length a = length b -> nonneg a ->
  forallb (fun p => fst p <=? snd p) (combine a b) = true -> prod a <= prod b.
Proof.
  induction a as [|x a IH]; intros [|y b] Hl Hn Hf; simpl in *; try discriminate; try lia.
  inversion Hn; subst. apply andb_prop in Hf as [Hxy Hf].
  assert (prod a <= prod b) by (apply IH; auto).
  pose proof (prod_nonneg a H2). apply Z.leb_le in Hxy. nia.
Qed.

Lemma skipn_all_len {B} (l : list B) n : length l = n -> skipn n l = [].
Proof. intros <-. apply skipn_all. Qed.

(* ---------- the invariant ---------- *)
Definition kind_ok (k : kind) (shp : list Z) (ndata : nat) : Prop :=
  (match sk k with
   | SFixedDim n => length shp = n
   | SBounded m => (length shp <= m)%nat
   | SDynamic => True
   | SClipped maxs => clip_ok maxs shp = true
   | SConstant s => shp = s
   end) /\
  (match bk k with
   | BFixed n => ndata = n
   | BBounded c => (ndata <= c)%nat
   | BDynamic => True
   end).

Section Arrays.
Variable A : Type.
Variable dflt : A.

Definition Inv (st : state A) : Prop :=
  prod (st_shape st) = Z.of_nat (length (st_data st))
  /\ st_strides st = compute_strides (st_shape st)
  /\ st_off st = offset_of (st_layout st) (st_shape st) (st_strides st)
  /\ kind_ok (st_kind st) (st_shape st) (length (st_data st)).

(* the strides the offset functor addresses with are the layout's strides *)
Lemma Inv_offset_strides st : Inv st ->
  snd (st_off st) = layout_strides (st_layout st) (st_shape st).
Proof.
  intros (_ & Hs & Ho & _). rewrite Ho, Hs. unfold offset_of.
  destruct (st_layout st); reflexivity.
Qed.

(* ---------- resize ---------- *)
Lemma resize_refused st sizes :
  precheck (st_kind st) (st_shape st) (length (st_data st)) sizes = false ->
  resize dflt st sizes = (false, st).
Proof. intros H. unfold resize. rewrite H. reflexivity. Qed.

(* after the validation none of the later tests can fail: the accepted branch *)
Lemma resize_accepted st sizes : nonneg sizes ->
  precheck (st_kind st) (st_shape st) (length (st_data st)) sizes = true ->
  exists data1,
    resize dflt st sizes =
      (true, mkState (st_kind st) (st_layout st) sizes (compute_strides sizes)
                     (offset_of (st_layout st) sizes (compute_strides sizes)) data1)
    /\ Z.of_nat (length data1) = prod sizes
    /\ (buffer_resizable (bk (st_kind st)) = false -> data1 = st_data st).
Proof.
  intros Hn Hp. unfold resize. rewrite Hp. cbn [negb].
  set (k := st_kind st) in *.
  set (shape1 := if shape_resizable (sk k) then lresize 0 (st_shape st) (length sizes) else st_shape st).
  set (data1 := if buffer_resizable (bk k) then lresize dflt (st_data st) (Z.to_nat (product sizes)) else st_data st).
  unfold precheck in Hp. apply andb_prop in Hp as [Hp Hc]. apply andb_prop in Hp as [Hs Hb].
  pose proof (prod_nonneg _ Hn) as Hnn. rewrite <- product_eq_prod in Hnn.
  assert (Hdim : length shape1 = length sizes).
  { unfold shape1. destruct (sk k); simpl in *; try discriminate;
      try (apply lresize_length); try (now apply Nat.eqb_eq in Hs). }
  assert (Hnum : Z.of_nat (length data1) = product sizes).
  { unfold data1. destruct (bk k); simpl in *.
    - now apply Z.eqb_eq in Hb.
    - rewrite lresize_length. lia.
    - rewrite lresize_length. lia. }
  cbn [st_shape st_data]. fold shape1. fold data1.
  rewrite Hnum, Z.eqb_refl, Hdim, Nat.eqb_refl. cbn [negb].
  assert (Hlate : (match sk k with SClipped maxs => negb (late_clip_ok maxs sizes) | _ => false end) = false).
  { destruct (sk k) as [| | |maxs|]; try reflexivity.
    unfold clip_ok in Hc. apply andb_prop in Hc as [Hl Hf]. unfold late_clip_ok.
    rewrite Hl, Hf. apply Nat.eqb_eq in Hl. rewrite !product_eq_prod.
    pose proof (pointwise_le_prod sizes maxs Hl Hn Hf) as Hle.
    apply Z.leb_le in Hle. rewrite Hle. reflexivity. }
  rewrite Hlate.
  assert (Hov : overwrite shape1 sizes = sizes).
  { unfold overwrite. rewrite (skipn_all_len shape1 (length sizes) Hdim). apply app_nil_r. }
  rewrite Hov. exists data1. split; [reflexivity|]. split.
  - now rewrite Hnum, product_eq_prod.
  - intros Hr. unfold data1. now rewrite Hr.
Qed.

(* a refused resize returns false and leaves the whole state unchanged *)
Lemma refused_resize_unchanged st sizes : nonneg sizes ->
  fst (resize dflt st sizes) = false -> resize dflt st sizes = (false, st).
Proof.
  intros Hn Hf.
  destruct (precheck (st_kind st) (st_shape st) (length (st_data st)) sizes) eqn:Hp.
  - destruct (resize_accepted st sizes Hn Hp) as (d1 & E & _). rewrite E in Hf. discriminate.
  - now apply resize_refused.
Qed.

Lemma resize_flag st sizes : nonneg sizes ->
  fst (resize dflt st sizes) = precheck (st_kind st) (st_shape st) (length (st_data st)) sizes.
Proof.
  intros Hn. destruct (precheck _ _ _ _) eqn:Hp.
  - destruct (resize_accepted st sizes Hn Hp) as (d1 & E & _). now rewrite E.
  - now rewrite resize_refused.
Qed.

(* the validation is exactly "the request fits the kind" *)
Lemma precheck_fits st sizes : Inv st ->
  precheck (st_kind st) (st_shape st) (length (st_data st)) sizes = fits (st_kind st) sizes.
Proof.
  intros (_ & _ & _ & Hk & Hb). unfold precheck, fits, clip_ok. rewrite product_eq_prod.
  destruct (sk (st_kind st)) as [n|m| |maxs|c]; destruct (bk (st_kind st)) as [nb|cb|]; simpl in *; subst;
    rewrite ?andb_true_r, ?andb_false_r; try reflexivity;
    try (rewrite Nat.eqb_sym; reflexivity);
    try (rewrite Z.eqb_sym; reflexivity);
    try (rewrite Nat.eqb_sym, Z.eqb_sym; reflexivity).
  all: unfold clip_ok in Hk; apply andb_prop in Hk as [Hl _]; apply Nat.eqb_eq in Hl; rewrite Hl.
  all: try rewrite (Z.eqb_sym (prod sizes)); rewrite (Nat.eqb_sym (length maxs) (length sizes)).
  all: destruct (length sizes =? length maxs)%nat;
       destruct (forallb (fun p : Z * Z => fst p <=? snd p) (combine sizes maxs));
       simpl; rewrite ?andb_true_r, ?andb_false_r; reflexivity.
Qed.

Lemma resize_preserves_Inv st sizes : nonneg sizes -> Inv st -> Inv (snd (resize dflt st sizes)).
Proof.
  intros Hn HI.
  destruct (precheck (st_kind st) (st_shape st) (length (st_data st)) sizes) eqn:Hp.
  2:{ rewrite resize_refused by assumption. exact HI. }
  destruct (resize_accepted st sizes Hn Hp) as (d1 & E & Hlen & Hfix). rewrite E. cbn [snd].
  destruct HI as (_ & _ & _ & Hk & Hb).
  unfold Inv. cbn [st_shape st_data st_strides st_off st_kind st_layout].
  split; [now rewrite Hlen|]. split; [reflexivity|]. split; [reflexivity|].
  unfold precheck in Hp. apply andb_prop in Hp as [Hp Hc]. apply andb_prop in Hp as [Hs Hbb].
  unfold kind_ok. split.
  - destruct (sk (st_kind st)); simpl in *; try discriminate; auto.
    + apply Nat.eqb_eq in Hs. congruence.
    + now apply Nat.leb_le in Hs.
  - destruct (bk (st_kind st)) as [nb|cb|]; simpl in *; auto.
    + rewrite (Hfix eq_refl). assumption.
    + apply Z.leb_le in Hbb. rewrite product_eq_prod in Hbb. lia.
Qed.

(* ---------- write / copy / assign ---------- *)
Lemma write_preserves_Inv st i x : Inv st -> Inv (write st i x).
Proof.
  intros (H1 & H2 & H3 & H4). unfold Inv, write. cbn. rewrite upd_length. auto.
Qed.

Definition op_ok (o : op A) : Prop :=
  match o with
  | Resize sizes => nonneg sizes
  | Assign other => Inv other
  | _ => True
  end.

Lemma step_preserves_Inv st o : op_ok o -> Inv st -> Inv (step dflt st o).
Proof.
  destruct o; simpl; intros Ho HI.
  - now apply resize_preserves_Inv.
  - now apply write_preserves_Inv.
  - exact HI.
  - exact Ho.
Qed.

Lemma run_preserves_Inv h : forall st, Forall op_ok h -> Inv st -> Inv (run dflt st h).
Proof.
  induction h as [|o h IH]; intros st Hh HI; simpl; [exact HI|].
  inversion Hh; subst. apply IH; [assumption|]. now apply step_preserves_Inv.
Qed.

(* ---------- construction ---------- *)
Lemma forallb_combine_repeat_one m : forall maxs, forallb (fun n => 1 <=? n) maxs = true ->
  forallb (fun p : Z * Z => fst p <=? snd p) (combine (repeat 1 m) maxs) = true.
Proof.
  induction m; intros [|y maxs] H; simpl in *; try reflexivity.
  apply andb_prop in H as [H1 H2]. rewrite H1. simpl. now apply IHm.
Qed.

Lemma forallb_combine_app {B C} (f : B * C -> bool) a1 : forall b1 a2 b2, length a1 = length b1 ->
  forallb f (combine (a1 ++ a2) (b1 ++ b2)) = forallb f (combine a1 b1) && forallb f (combine a2 b2).
Proof.
  induction a1; intros [|y b1] a2 b2 Hl; simpl in *; try discriminate; [reflexivity|].
  rewrite IHa1 by lia. now rewrite andb_assoc.
Qed.

Lemma init_clipped_ok maxs x : (1 <= length maxs)%nat -> forallb (fun n => 1 <=? n) maxs = true ->
  x <= last maxs 0 ->
  clip_ok maxs (repeat 1 (length maxs - 1) ++ [x]) = true.
Proof.
  intros Hl Hf Hx. unfold clip_ok.
  destruct (exists_last (l := maxs)) as (m' & z & ->); [intros ->; simpl in Hl; lia|].
  rewrite last_last in Hx. rewrite !app_length, repeat_length. simpl length.
  replace (length m' + 1 - 1)%nat with (length m') by lia. rewrite Nat.eqb_refl. cbn [andb].
  rewrite forallb_combine_app by now rewrite repeat_length.
  rewrite forallb_app in Hf. apply andb_prop in Hf as [Hf1 _].
  rewrite forallb_combine_repeat_one by assumption. simpl.
  apply Z.leb_le in Hx. now rewrite Hx.
Qed.

Lemma Inv_init k L : kind_wfb k = true -> Inv (init dflt k L).
Proof.
  intros Hwf. unfold kind_wfb in Hwf. apply andb_prop in Hwf as [Hs Hb].
  unfold Inv, init. cbn [st_shape st_data st_strides st_off st_kind st_layout].
  split; [|split; [reflexivity|split; [reflexivity|]]].
  - (* prod shape = length data *)
    destruct (sk k) as [n|m| |maxs|c] eqn:Esk; destruct (bk k) as [nb|cb|] eqn:Ebk;
      cbn [init_shape init_data buffer_resizable andb length];
      rewrite ?repeat_length, ?product_eq_prod, ?prod_repeat_one; cbn [prod length];
      rewrite ?Z.mul_1_r.
    all: try (apply andb_prop in Hs as [Hs Hs3]; apply andb_prop in Hs as [Hs1 Hs2]).
    all: try (rewrite Z.eqb_refl; cbn [negb]; simpl; lia).
    all: try lia.
    all: change (Z.of_nat 1) with 1.
    + (* clipped, bounded *)
      assert (E : Z.min 1 (last maxs 0) = 1).
      { destruct (exists_last (l := maxs)) as (m' & z & ->); [intros ->; simpl in Hs1; discriminate|].
        rewrite last_last. rewrite forallb_app in Hs2. apply andb_prop in Hs2 as [_ Hz]. simpl in Hz. lia. }
      rewrite E. simpl. lia.
    + assert (E : Z.min 1 (last maxs 0) = 1).
      { destruct (exists_last (l := maxs)) as (m' & z & ->); [intros ->; simpl in Hs1; discriminate|].
        rewrite last_last. rewrite forallb_app in Hs2. apply andb_prop in Hs2 as [_ Hz]. simpl in Hz. lia. }
      rewrite E. simpl. lia.
    + (* constant, bounded *)
      assert (Hp : 1 <= prod c) by (apply prod_pos, posb_pos; exact Hs2).
      destruct (1 =? prod c) eqn:E; cbn [negb].
      * apply Z.eqb_eq in E. simpl. lia.
      * rewrite lresize_length. lia.
    + assert (Hp : 1 <= prod c) by (apply prod_pos, posb_pos; exact Hs2).
      destruct (1 =? prod c) eqn:E; cbn [negb].
      * apply Z.eqb_eq in E. simpl. lia.
      * rewrite lresize_length. lia.
  - (* kind constraints *)
    unfold kind_ok. split.
    + destruct (sk k) as [n|m| |maxs|c] eqn:Esk; cbn [init_shape]; auto.
      * rewrite app_length, repeat_length. simpl. apply Nat.leb_le in Hs. lia.
      * simpl. now apply Nat.leb_le in Hs.
      * apply andb_prop in Hs as [Hs Hs3]. apply andb_prop in Hs as [Hs1 Hs2].
        apply init_clipped_ok; [now apply Nat.leb_le in Hs1 | assumption | apply Z.le_min_r].
    + destruct (bk k) as [nb|cb|] eqn:Ebk; auto.
      * cbn [init_data buffer_resizable andb]. now rewrite repeat_length.
      * cbn [init_data buffer_resizable andb length].
        apply Nat.leb_le in Hb.
        destruct (negb (Z.of_nat 1 =? product (init_shape (sk k) 1))) eqn:E; [|simpl; lia].
        rewrite lresize_length.
        destruct (sk k) as [n|m| |maxs|c] eqn:Esk; cbn [init_shape] in *;
          rewrite ?product_eq_prod, ?prod_repeat_one in *; cbn [prod] in *.
        all: try (apply andb_prop in Hs as [Hs Hs3]; apply andb_prop in Hs as [Hs1 Hs2]).
        all: try (apply Z.leb_le in Hs3).
        all: try lia.
Qed.

(* ---------- every state reachable by a history of construct / resize / write / copy / assign ---------- *)
Inductive reachable (k : kind) (L : layout) : state A -> Prop :=
| r_init : reachable k L (init dflt k L)
| r_resize st sizes : reachable k L st -> nonneg sizes -> reachable k L (snd (resize dflt st sizes))
| r_write st i x : reachable k L st -> reachable k L (write st i x)
| r_copy st : reachable k L st -> reachable k L (copy st)
| r_assign st other : reachable k L st -> reachable k L other -> reachable k L (assign st other).

Lemma reachable_Inv k L st : kind_wfb k = true -> reachable k L st -> Inv st.
Proof.
  intros Hwf. induction 1; auto.
  - now apply Inv_init.
  - now apply resize_preserves_Inv.
  - now apply write_preserves_Inv.
Qed.

Lemma resize_kind_layout st sizes :
  st_kind (snd (resize dflt st sizes)) = st_kind st /\ st_layout (snd (resize dflt st sizes)) = st_layout st.
Proof.
  unfold resize.
  destruct (negb (precheck _ _ _ _)); [split; reflexivity|].
  repeat match goal with |- context [if ?b then _ else _] => destruct b end; split; reflexivity.
Qed.

Lemma reachable_kind_layout k L st : reachable k L st -> st_kind st = k /\ st_layout st = L.
Proof.
  induction 1; auto.
  destruct (resize_kind_layout st sizes) as [E1 E2]. destruct IHreachable. split; congruence.
Qed.

(* ---------- addressing: C01 applies to every state that satisfies the invariant ---------- *)
Lemma st_offset_layout st i : Inv st ->
  st_offset st i = layout_offset (st_layout st) (st_shape st) i.
Proof.
  intros HI. unfold st_offset. rewrite (Inv_offset_strides st HI).
  destruct (st_layout st); reflexivity.
Qed.

Lemma get_is_ndarray_get st i : Inv st ->
  get st i = ndarray_get (st_layout st) (st_shape st) (st_data st) i.
Proof. intros HI. unfold get, ndarray_get. now rewrite st_offset_layout. Qed.

Lemma distinct_indices_distinct_cells st i j : Inv st ->
  inb i (st_shape st) -> inb j (st_shape st) ->
  0 <= st_offset st i < Z.of_nat (length (st_data st))
  /\ (st_offset st i = st_offset st j -> i = j)
  /\ (exists v, get st i = Some v).
Proof.
  intros HI Hi Hj. pose proof HI as (Hlen & _).
  rewrite !st_offset_layout, get_is_ndarray_get by assumption. rewrite <- Hlen.
  split; [now apply layout_offset_bound|]. split; [now apply layout_offset_inj|].
  apply ndarray_get_defined; [now symmetry | assumption].
Qed.

Lemma get_write st i j x : Inv st ->
  inb i (st_shape st) -> inb j (st_shape st) ->
  get (write st i x) j = if list_eq_dec Z.eq_dec j i then Some x else get st j.
Proof.
  intros HI Hi Hj. pose proof HI as (Hlen & _).
  rewrite (get_is_ndarray_get (write st i x)) by (try apply write_preserves_Inv; assumption).
  rewrite (get_is_ndarray_get st) by assumption.
  unfold write. cbn [st_layout st_shape st_data]. rewrite st_offset_layout by assumption.
  apply (ndarray_get_set (st_layout st) (st_shape st) (st_data st) i j x); auto.
Qed.

End Arrays.

(* ---------- mutable views: writing through the view changes exactly the designated source cell ---------- *)
Section Views.
Variable A : Type.

Lemma write_through_generic L s (buf : list A) (f : list Z -> list Z) vs i j x :
  Z.of_nat (length buf) = prod s ->
  (forall a, inb a vs -> inb (f a) s) ->
  (forall a b, inb a vs -> inb b vs -> f a = f b -> a = b) ->
  inb i vs -> inb j vs ->
  ndarray_get L s (ndarray_set L s buf (f i) x) (f j)
  = if list_eq_dec Z.eq_dec j i then Some x else ndarray_get L s buf (f j).
Proof.
  intros Hl Hin Hinj Hi Hj.
  rewrite (ndarray_get_set L s buf (f i) (f j) x Hl (Hin i Hi) (Hin j Hj)).
  destruct (list_eq_dec Z.eq_dec (f j) (f i)) as [E|E]; destruct (list_eq_dec Z.eq_dec j i) as [E'|E']; auto.
  - exfalso. apply E'. now apply Hinj.
  - subst. contradiction.
Qed.

(* at the level of the raw buffer: the length is kept and every cell other than the
   designated one keeps its value *)
Lemma set_changes_one_cell L s (buf : list A) q x : Z.of_nat (length buf) = prod s -> inb q s ->
  let c := Z.to_nat (layout_offset L s q) in
  length (ndarray_set L s buf q x) = length buf
  /\ (c < length buf)%nat
  /\ nth_error (ndarray_set L s buf q x) c = Some x
  /\ (forall k, k <> c -> nth_error (ndarray_set L s buf q x) k = nth_error buf k).
Proof.
  intros Hl Hq c. pose proof (layout_offset_bound L s q Hq) as B.
  unfold ndarray_set. fold c. assert (Hc : (c < length buf)%nat) by (unfold c; lia).
  split; [apply upd_length|]. split; [exact Hc|]. split.
  - rewrite nth_error_upd by exact Hc. now rewrite Nat.eqb_refl.
  - intros k Hk. rewrite nth_error_upd by exact Hc.
    destruct (Nat.eqb_spec k c); [contradiction | reflexivity].
Qed.
End Views.

(* the index maps of the four mutable views send in-bounds view indices to in-bounds
   source indices, injectively *)
Lemma reshape_index_inb d s i : pos s -> inb (view_index (VReshape d) s i) s.
Proof. intros Hs. simpl. now apply unrav_inb. Qed.

Lemma reshape_index_inj d s a b : pos s -> prod d = prod s -> inb a d -> inb b d ->
  view_index (VReshape d) s a = view_index (VReshape d) s b -> a = b.
Proof.
  intros Hs Hp Ha Hb E. simpl in E.
  pose proof (off_bound a d Ha) as Ba. pose proof (off_bound b d Hb) as Bb.
  assert (E2 : compute_offset a (compute_strides d) = compute_offset b (compute_strides d)).
  { rewrite <- (off_unrav s (compute_offset a (compute_strides d)) Hs)
      by (rewrite compute_offset_eq, compute_strides_eq; lia).
    rewrite <- (off_unrav s (compute_offset b (compute_strides d)) Hs)
      by (rewrite compute_offset_eq, compute_strides_eq; lia).
    now rewrite E. }
  rewrite !compute_offset_eq, compute_strides_eq in E2. now apply (off_inj a b d).
Qed.

Lemma slice_index_inb axes : forall s i,
  view_accepts (VSlice axes) s = true -> inb i (view_shape (VSlice axes) s) ->
  inb (view_index (VSlice axes) s i) s.
Proof.
  induction axes as [|[[start stp] len] axes IH]; intros [|n s] i Hacc Hi; simpl in *;
    try discriminate.
  - inversion Hi. constructor.
  - apply andb_prop in Hacc as [Hl Hf]. apply andb_prop in Hf as [Hax Hf].
    inversion Hi as [|x ? i' ? Hx Hi']; subst. simpl. constructor.
    + apply andb_prop in Hax as [Hax Hr]. apply andb_prop in Hax as [Hst Hlen].
      apply orb_prop in Hr as [Hz|Hr]; [lia|].
      apply andb_prop in Hr as [Hr H4]. apply andb_prop in Hr as [Hr H3]. apply andb_prop in Hr as [H1 H2].
      assert (stp <> 0) by (destruct (stp =? 0) eqn:E; [discriminate | lia]).
      nia.
    + apply (IH s i'); [|exact Hi']. simpl. now rewrite Hl, Hf.
Qed.

Lemma slice_index_inj axes : forall s a b,
  view_accepts (VSlice axes) s = true ->
  inb a (view_shape (VSlice axes) s) -> inb b (view_shape (VSlice axes) s) ->
  view_index (VSlice axes) s a = view_index (VSlice axes) s b -> a = b.
Proof.
  induction axes as [|[[start stp] len] axes IH]; intros [|n s] a b Hacc Ha Hb E; simpl in *;
    try discriminate.
  - inversion Ha; inversion Hb; reflexivity.
  - apply andb_prop in Hacc as [Hl Hf]. apply andb_prop in Hf as [Hax Hf].
    inversion Ha as [|x ? a' ? Hx Ha']; inversion Hb as [|y ? b' ? Hy Hb']; subst. simpl in E.
    injection E as E1 E2.
    apply andb_prop in Hax as [Hax _]. apply andb_prop in Hax as [Hst _].
    assert (stp <> 0) by (destruct (stp =? 0) eqn:E; [discriminate | lia]).
    assert (x = y) by nia. subst. f_equal.
    apply (IH s a' b'); auto. simpl. now rewrite Hl, Hf.
Qed.

Lemma view_index_inb v s i : pos s -> view_accepts v s = true -> inb i (view_shape v s) ->
  inb (view_index v s i) s.
Proof.
  intros Hs Hacc Hi. destruct v as [| |d|axes].
  - exact Hi.
  - apply (reshape_index_inb [product s] s i Hs).
  - now apply reshape_index_inb.
  - now apply slice_index_inb.
Qed.

Lemma view_index_inj v s a b : pos s -> view_accepts v s = true ->
  inb a (view_shape v s) -> inb b (view_shape v s) ->
  view_index v s a = view_index v s b -> a = b.
Proof.
  intros Hs Hacc Ha Hb E. destruct v as [| |d|axes].
  - exact E.
  - apply (reshape_index_inj [product s] s a b Hs); auto.
    simpl. rewrite product_eq_prod. lia.
  - simpl in Hacc. apply andb_prop in Hacc as [Hp _]. apply Z.eqb_eq in Hp.
    rewrite !product_eq_prod in Hp. now apply (reshape_index_inj d s a b Hs).
  - now apply (slice_index_inj axes s a b).
Qed.

Lemma view_write_through {A} v L s (buf : list A) i j x :
  pos s -> Z.of_nat (length buf) = prod s -> view_accepts v s = true ->
  inb i (view_shape v s) -> inb j (view_shape v s) ->
  vget v L s (vset v L s buf i x) j = if list_eq_dec Z.eq_dec j i then Some x else vget v L s buf j.
Proof.
  intros Hs Hl Hacc Hi Hj. unfold vget, vset.
  apply (write_through_generic A L s buf (view_index v s) (view_shape v s) i j x Hl).
  - intros a Ha. now apply view_index_inb.
  - intros a b Ha Hb. now apply view_index_inj.
  - exact Hi.
  - exact Hj.
Qed.

(* ---------- cast preserves shape and (converted) values ---------- *)
Lemma nth_error_map_zs {B} (f : Z -> B) n k : (k < n)%nat ->
  nth_error (map f (zs n)) k = Some (f (Z.of_nat k)).
Proof.
  intros Hk. unfold zs. rewrite map_map.
  rewrite (nth_error_map _ _ (fun x => f (Z.of_nat x))) || idtac.
  erewrite map_nth_error; [reflexivity|]. 
  rewrite nth_error_nth' with (d := O) by (rewrite seq_length; exact Hk).
  now rewrite seq_nth.
Qed.

Lemma nth_lex_enum idx s : inb idx s ->
  nth_error (lex_enum s) (Z.to_nat (compute_offset idx (compute_strides s))) = Some idx.
Proof.
  intros Hi. pose proof (inb_pos idx s Hi) as Hp.
  rewrite <- (ndindex_is_lex_enum s Hp). unfold zrange, ndindex_size.
  pose proof (off_bound idx s Hi) as B. rewrite product_eq_prod.
  rewrite compute_offset_eq, compute_strides_eq.
  rewrite nth_error_map_zs by lia. f_equal. unfold ndindex.
  rewrite Z2Nat.id by lia.
  rewrite <- compute_offset_eq, <- compute_strides_eq. now apply unrav_off.
Qed.

Section CastProofs.
Variables A B : Type.
Variable dfltA : A.
Variable dfltB : B.
Variable conv : A -> B.

Lemma cast_preserves (st : state A) k' r : nonneg (st_shape st) ->
  cast dfltB conv st k' = Some r ->
  st_shape r = st_shape st
  /\ st_kind r = k' /\ st_layout r = RowMajor
  /\ forall idx, inb idx (st_shape st) ->
       get r idx = Some (match get st idx with Some x => conv x | None => dfltB end).
Proof.
  intros Hn Hc. unfold cast in Hc.
  assert (Hget : forall shp strd, 
     get (mkState k' RowMajor shp strd (offset_of RowMajor (st_shape st) (compute_strides (st_shape st)))
                  (cast_data A B dfltB conv st)) =
     fun idx => nth_error (cast_data A B dfltB conv st)
                  (Z.to_nat (compute_offset idx (compute_strides (st_shape st))))) by reflexivity.
  assert (Hval : forall idx, inb idx (st_shape st) ->
     nth_error (cast_data A B dfltB conv st) (Z.to_nat (compute_offset idx (compute_strides (st_shape st))))
     = Some (match get st idx with Some x => conv x | None => dfltB end)).
  { intros idx Hi. unfold cast_data. now rewrite (map_nth_error _ _ _ (nth_lex_enum idx _ Hi)). }
  destruct (sk k') as [n|m| |maxs|c] eqn:Esk.
  5:{ destruct (list_eq_dec Z.eq_dec c (st_shape st)) as [->|]; [|discriminate].
      injection Hc as <-. unfold init. rewrite Esk. cbn [init_shape st_shape st_strides st_off st_kind st_layout].
      split; [reflexivity|]. split; [reflexivity|]. split; [reflexivity|].
      intros idx Hi. unfold get, st_offset. cbn [st_off st_data offset_of snd]. now apply Hval. }
  all: destruct (resize dfltB (init dfltB k' RowMajor) (st_shape st)) as [ok r1] eqn:Er;
       destruct ok; [|discriminate]; injection Hc as <-;
       pose proof (resize_flag B dfltB (init dfltB k' RowMajor) (st_shape st) Hn) as Hf;
       rewrite Er in Hf; cbn [fst] in Hf; symmetry in Hf;
       destruct (resize_accepted B dfltB (init dfltB k' RowMajor) (st_shape st) Hn Hf) as (d1 & E & _);
       rewrite Er in E; injection E as ->;
       cbn [st_shape st_strides st_off st_kind st_layout init];
       (split; [reflexivity|]); (split; [reflexivity|]); (split; [reflexivity|]);
       intros idx Hi; unfold get, st_offset; cbn [st_off st_data offset_of snd st_kind st_layout init]; now apply Hval.
Qed.
End CastProofs.

(* ---------- legacy classes ---------- *)
Section LegacyProofs.
Variable A : Type.
Variable dflt : A.

Definition h_Inv (st : hstate A) : Prop :=
  length (h_shape st) = h_dim st
  /\ prod (h_shape st) <= Z.of_nat (h_max st)
  /\ h_strides st = compute_strides (h_shape st)
  /\ length (h_buf st) = h_max st.

Lemma h_init_Inv mx dm : (1 <= dm)%nat -> h_Inv (h_init dflt mx dm).
Proof.
  intros Hd. unfold h_Inv, h_init. cbn [h_shape h_dim h_max h_strides h_buf].
  split; [simpl; rewrite repeat_length; lia|]. split; [|split; [reflexivity | apply repeat_length]].
  cbn [prod]. rewrite <- (app_nil_r (repeat 1 (dm - 1))), prod_repeat_one. simpl. lia.
Qed.

Lemma h_resize_spec st sizes : h_Inv st ->
  (fst (h_resize st sizes) = false -> h_resize st sizes = (false, st))
  /\ h_Inv (snd (h_resize st sizes))
  /\ fst (h_resize st sizes) = ((length sizes =? h_dim st)%nat && (prod sizes <=? Z.of_nat (h_max st))).
Proof.
  intros (H1 & H2 & H3 & H4). unfold h_resize. rewrite product_eq_prod.
  destruct (length sizes =? h_dim st)%nat eqn:E1; cbn [negb andb].
  2:{ split; [reflexivity|]. split; [repeat split; assumption | reflexivity]. }
  destruct (Z.of_nat (h_max st) <? prod sizes) eqn:E2.
  - split; [reflexivity|]. split; [repeat split; assumption|].
    symmetry. apply Z.leb_gt. now apply Z.ltb_lt.
  - split; [discriminate|]. apply Z.ltb_ge in E2. split.
    + unfold h_Inv. cbn. apply Nat.eqb_eq in E1. repeat split; auto.
    + symmetry. now apply Z.leb_le.
Qed.

Definition d_Inv (st : dstate A) : Prop :=
  prod (d_shape st) = Z.of_nat (length (d_data st))
  /\ d_strides st = compute_strides (d_shape st)
  /\ d_numel st = Some (prod (d_shape st)).

(* dynamic_ndarray::resize never refuses and establishes the invariant from ANY state *)
Lemma d_resize_Inv st sizes : nonneg sizes -> d_Inv (d_resize dflt st sizes) /\ d_shape (d_resize dflt st sizes) = sizes.
Proof.
  intros Hn. unfold d_Inv, d_resize. cbn [d_shape d_data d_strides d_numel].
  pose proof (prod_nonneg sizes Hn). rewrite fold_mul_acc, lresize_length.
  repeat split; try reflexivity; try lia. f_equal. lia.
Qed.

Lemma d_write_Inv st i x : d_Inv st -> d_Inv (d_write st i x).
Proof. intros (H1 & H2 & H3). unfold d_Inv, d_write. cbn. now rewrite upd_length. Qed.

Lemma d_init_Inv : d_Inv (d_init dflt).
Proof. unfold d_init. apply d_resize_Inv. constructor. Qed.
End LegacyProofs.
