(* EvalProofs.v — the evaluator loop writes every output cell exactly the view's
   element, for both layouts; composition is unobservable. *)
From NM Require Import Base Index IndexProofs Eval.
Local Open Scope Z_scope.

(* ---------- a fold of buffer writes: a cell is final once a writer for it has
   run and untouched otherwise (also the core of the kernel-schedule theorem) ---------- *)
Section Writes.
Context {A K : Type}.
Variable o : K -> nat.          (* cell written by step k *)
Variable val : K -> A.          (* value written by step k *)

Definition writes (ks : list K) (buf : list A) : list A :=
  fold_left (fun b k => upd b (o k) (val k)) ks buf.

Lemma writes_length ks : forall buf, length (writes ks buf) = length buf.
Proof.
  induction ks as [|k ks IH]; intros buf; simpl; [reflexivity|].
  unfold writes in IH. rewrite IH. apply upd_length.
Qed.

Lemma writes_nth ks : forall buf j,
  (forall k, In k ks -> (o k < length buf)%nat) ->
  (forall k k', In k ks -> In k' ks -> o k = o k' -> val k = val k') ->
  nth_error (writes ks buf) j =
    match find (fun k => Nat.eqb (o k) j) ks with
    | Some k => Some (val k)
    | None => nth_error buf j
    end.
Proof.
  induction ks as [|k0 ks IH]; intros buf j Hb Hc; [reflexivity|].
  change (writes (k0 :: ks) buf) with (writes ks (upd buf (o k0) (val k0))).
  rewrite IH.
  - cbn [find]. destruct (Nat.eqb_spec (o k0) j) as [E|E].
    + destruct (find (fun k => Nat.eqb (o k) j) ks) as [k|] eqn:F.
      * apply find_some in F as [Hin Hk]. apply Nat.eqb_eq in Hk.
        f_equal. apply Hc; [right; exact Hin | left; reflexivity | congruence].
      * rewrite nth_error_upd by (apply Hb; left; reflexivity).
        subst j. now rewrite Nat.eqb_refl.
    + destruct (find (fun k => Nat.eqb (o k) j) ks); [reflexivity|].
      rewrite nth_error_upd by (apply Hb; left; reflexivity).
      destruct (Nat.eqb_spec j (o k0)); [congruence | reflexivity].
  - intros k Hk. rewrite upd_length. apply Hb. right; exact Hk.
  - intros k k' Hk Hk'. apply Hc; right; assumption.
Qed.
End Writes.

Section EvalP.
Context {A : Type}.
Implicit Types (v : view A) (L : layout).

Lemma list_eqb_eq a : forall b, list_eqb a b = true <-> a = b.
Proof.
  induction a as [|x a IH]; intros [|y b]; simpl; split; intros H; try reflexivity; try discriminate.
  - apply andb_prop in H as [H1 H2]. apply Z.eqb_eq in H1. apply IH in H2. congruence.
  - injection H as -> ->. rewrite Z.eqb_refl. now apply IH.
Qed.

Lemma eval_loop_writes v L s buf :
  vshape v = s ->
  eval_loop v L s buf =
  writes (fun k => Z.to_nat (layout_offset L s (ndindex s k))) (fun k => vget v (ndindex s k))
         (zrange (prod s)) buf.
Proof.
  intros <-. unfold eval_loop, writes, ndarray_set, ndindex_size. now rewrite product_eq_prod.
Qed.

Lemma in_zrange k n : In k (zrange n) <-> 0 <= k < n.
Proof.
  unfold zrange. rewrite in_zs. split; intros H; [lia|].
  destruct (Z.ltb_spec n 0); lia.
Qed.

Lemma eval_loop_length v L s buf : vshape v = s -> length (eval_loop v L s buf) = length buf.
Proof. intros H. rewrite eval_loop_writes by exact H. apply writes_length. Qed.

(* every in-bounds cell holds the view's element afterwards *)
Lemma eval_loop_elem v L s buf i :
  vshape v = s -> pos s -> Z.of_nat (length buf) = prod s -> inb i s ->
  ndarray_get L s (eval_loop v L s buf) i = Some (vget v i).
Proof.
  intros Hs Hp Hlen Hi. rewrite eval_loop_writes by exact Hs. unfold ndarray_get.
  set (o := fun k => Z.to_nat (layout_offset L s (ndindex s k))).
  set (val := fun k => vget v (ndindex s k)).
  assert (Hinb : forall k, inb (ndindex s k) s) by (intros k; apply unrav_inb; exact Hp).
  rewrite (writes_nth o val).
  - (* the row-major rank of i is one of the steps and it writes cell (offset i) *)
    set (k0 := compute_offset i (compute_strides s)).
    assert (Hk0 : ndindex s k0 = i) by (apply unrav_off; assumption).
    assert (Hr : 0 <= k0 < prod s).
    { unfold k0. rewrite compute_offset_eq, compute_strides_eq. now apply off_bound. }
    destruct (find (fun k => Nat.eqb (o k) (Z.to_nat (layout_offset L s i))) (zrange (prod s))) as [k|] eqn:F.
    + apply find_some in F as [_ Hk]. apply Nat.eqb_eq in Hk. unfold o in Hk.
      pose proof (layout_offset_bound L s _ (Hinb k)) as B1.
      pose proof (layout_offset_bound L s i Hi) as B2.
      assert (E : ndindex s k = i) by (apply (layout_offset_inj L s); auto; lia).
      unfold val. now rewrite E.
    + exfalso. pose proof (find_none _ _ F k0 (proj2 (in_zrange k0 (prod s)) Hr)) as N.
      cbv beta in N. unfold o in N. rewrite Hk0, Nat.eqb_refl in N. discriminate.
  - intros k _. unfold o. pose proof (layout_offset_bound L s _ (Hinb k)). lia.
  - intros k k' _ _ E. unfold o in E. unfold val.
    pose proof (layout_offset_bound L s _ (Hinb k)) as B1.
    pose proof (layout_offset_bound L s _ (Hinb k')) as B2.
    f_equal. apply (layout_offset_inj L s); auto; lia.
Qed.

(* evaluation into an output of the right shape (supplied, or freshly resized) *)
Lemma eval_into_right_shape v out i :
  ashape out = vshape v -> pos (vshape v) ->
  Z.of_nat (length (abuf out)) = prod (vshape v) -> inb i (vshape v) ->
  ashape (eval_into v out) = vshape v
  /\ alayout (eval_into v out) = alayout out
  /\ length (abuf (eval_into v out)) = length (abuf out)
  /\ ndarray_get (alayout out) (vshape v) (abuf (eval_into v out)) i = Some (vget v i).
Proof.
  intros Hs Hp Hlen Hi. unfold eval_into.
  rewrite (proj2 (list_eqb_eq _ _) Hs). cbn [ashape alayout abuf]. rewrite Hs.
  split; [reflexivity|]. split; [reflexivity|].
  split; [now apply eval_loop_length | now apply eval_loop_elem].
Qed.

(* a supplied output of a different shape is left untouched (the silent skip) *)
Lemma eval_into_wrong_shape v out : ashape out <> vshape v -> eval_into v out = out.
Proof.
  intros H. unfold eval_into. destruct (list_eqb (ashape out) (vshape v)) eqn:E; [|reflexivity].
  apply list_eqb_eq in E. contradiction.
Qed.

Lemma fresh_length L (d : A) s : pos s -> Z.of_nat (length (abuf (fresh L d s))) = prod s.
Proof. intros Hp. cbn. rewrite repeat_length. pose proof (prod_pos s Hp). lia. Qed.

(* the whole row-major buffer is the view's elements in nested-loop order *)
Lemma nth_error_ext {B} (a b : list B) :
  length a = length b -> (forall j, (j < length a)%nat -> nth_error a j = nth_error b j) -> a = b.
Proof.
  revert b. induction a as [|x a IH]; intros [|y b] Hl H; simpl in *; try discriminate; [reflexivity|].
  f_equal.
  - specialize (H 0%nat ltac:(lia)). simpl in H. congruence.
  - apply IH; [lia|]. intros j Hj. apply (H (S j)). lia.
Qed.

Lemma zs_nth n j : (j < n)%nat -> nth_error (zs n) j = Some (Z.of_nat j).
Proof.
  intros H. unfold zs. rewrite nth_error_map, nth_error_nth' with (d := 0%nat) by (rewrite seq_length; lia).
  rewrite seq_nth by lia. reflexivity.
Qed.

Lemma eval_row_major_buffer v buf :
  pos (vshape v) -> Z.of_nat (length buf) = prod (vshape v) ->
  eval_loop v RowMajor (vshape v) buf = spec_buffer RowMajor v.
Proof.
  intros Hp Hlen. set (s := vshape v) in *.
  unfold spec_buffer. fold s. rewrite <- (ndindex_is_lex_enum s Hp), map_map.
  unfold ndindex_size. rewrite product_eq_prod.
  apply nth_error_ext.
  - rewrite eval_loop_length by reflexivity. rewrite map_length. unfold zrange. rewrite zs_length. lia.
  - intros j Hj. rewrite eval_loop_length in Hj by reflexivity.
    assert (Hjz : 0 <= Z.of_nat j < prod s) by lia.
    assert (Hjn : (j < Z.to_nat (prod s))%nat) by lia.
    rewrite nth_error_map. unfold zrange. rewrite (zs_nth _ _ Hjn). cbn [option_map].
    pose proof (eval_loop_elem v RowMajor s buf (ndindex s (Z.of_nat j)) eq_refl Hp Hlen (unrav_inb _ s Hp)) as E.
    unfold ndarray_get in E. cbn [layout_offset] in E. unfold row_major_offset, row_major_strides in E.
    unfold ndindex in E at 1. rewrite (off_unrav s (Z.of_nat j) Hp Hjz) in E.
    rewrite Nat2Z.id in E. exact E.
Qed.

(* ---------- composition is unobservable ---------- *)
(* reading back the evaluated array gives the view's elements *)
Lemma view_of_eval v L d i :
  pos (vshape v) -> inb i (vshape v) ->
  vget (view_of d (eval_into v (fresh L d (vshape v)))) i = vget v i.
Proof.
  intros Hp Hi.
  destruct (eval_into_right_shape v (fresh L d (vshape v)) i eq_refl Hp (fresh_length L d _ Hp) Hi)
    as (Hs & Hl & _ & Hg).
  unfold view_of. cbn [vget]. rewrite Hs, Hl. cbn [alayout fresh] in *. now rewrite Hg.
Qed.

(* any outer operation that reads its operand only at in-bounds indices cannot tell
   a materialised operand from the lazy view *)
Lemma remap_unobservable v L d0 dshape g j :
  pos (vshape v) -> inb (g j) (vshape v) ->
  vget (remap dshape g (view_of d0 (eval_into v (fresh L d0 (vshape v))))) j = vget (remap dshape g v) j.
Proof. intros Hp Hg. cbn [remap vget]. now apply view_of_eval. Qed.

Lemma remapn_unobservable L d0 dshape (f : list A -> A) gs vs j :
  length gs = length vs ->
  Forall (fun gv => pos (vshape (snd gv)) /\ inb (fst gv j) (vshape (snd gv))) (combine gs vs) ->
  vget (remapn dshape gs f (map (materialise L d0) vs)) j = vget (remapn dshape gs f vs) j.
Proof.
  intros Hlen H. cbn [remapn vget]. f_equal.
  revert vs Hlen H. induction gs as [|g gs IH]; intros [|v vs] Hlen H; simpl in *; try discriminate; [reflexivity|].
  inversion H as [|? ? [Hp Hi] Ht]; subst. cbn [fst snd] in *.
  f_equal; [unfold materialise; now apply view_of_eval | apply IH; [lia | exact Ht]].
Qed.

End EvalP.

(* ---------- empty results: an extent 0 (e.g. an empty slice) ---------- *)
Lemma lex_enum_empty s : Forall (fun n => 0 <= n) s -> prod s = 0 -> lex_enum s = [].
Proof.
  induction 1 as [|n t Hn Ht IH]; cbn [prod lex_enum]; intros Hp.
  - discriminate.
  - destruct (Z.eq_dec n 0) as [->|Hn0].
    + reflexivity.
    + assert (Ht0 : prod t = 0) by nia.
      rewrite (IH Ht0). induction (zrange n) as [|x xs IHx]; cbn; auto.
Qed.

Lemma eval_empty {A} (v : view A) L (d : A) init :
  Forall (fun n => 0 <= n) (vshape v) -> prod (vshape v) = 0 ->
  let r := eval_default v (fun _ s => fresh L d s) init in
  ashape r = vshape v /\ abuf r = [] /\ spec_buffer RowMajor v = [].
Proof.
  intros Hn Hp r. unfold r, eval_default, eval_into, fresh; cbn [ashape alayout abuf].
  assert (E : list_eqb (vshape v) (vshape v) = true) by (apply list_eqb_eq; reflexivity).
  rewrite E; cbn [ashape abuf]. split; [reflexivity|]. split.
  - unfold eval_loop, ndindex_size. rewrite product_eq_prod, Hp. reflexivity.
  - unfold spec_buffer. now rewrite (lex_enum_empty _ Hn Hp).
Qed.
