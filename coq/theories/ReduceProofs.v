(* ReduceProofs.v — C08: the reduction model folds exactly the designated elements, in C order,
   for ANY binary operation (DESIGN Appendix E.9 lifted to the faithful loops of Reduce.v). *)
From Coq Require Import Permutation.
From NM Require Import Base Index IndexProofs Reduce.
Local Open Scope Z_scope.

(* ---------- A. axis normalisation ---------- *)

Lemma normalize_axis1_ok n k : (- n <=? k) && (k <? n) = true ->
  normalize_axis1 k n = Some (np_norm n k).
Proof.
  intros H. unfold normalize_axis1, np_norm. rewrite H. f_equal.
  destruct (k <? 0); lia.
Qed.

Lemma normalize_axes_ok n l : forallb (fun k => (- n <=? k) && (k <? n)) l = true ->
  normalize_axes l n = Some (map (np_norm n) l).
Proof.
  induction l as [|k l IH]; cbn [forallb normalize_axes map]; intros H; [reflexivity|].
  apply andb_prop in H as [Hk Hl]. now rewrite (normalize_axis1_ok _ _ Hk), (IH Hl).
Qed.

Lemma existsb_map_eqb j (g : Z -> Z) l :
  existsb (Z.eqb j) (map g l) = existsb (fun k => j =? g k) l.
Proof. induction l as [|k l IH]; cbn [existsb map]; [reflexivity | now rewrite IH]. Qed.

Lemma np_norm_range n k : (- n <=? k) && (k <? n) = true -> 0 <= np_norm n k < n.
Proof. intros H. apply andb_prop in H as [H1 H2]. unfold np_norm. destruct (Z.ltb_spec k 0); lia. Qed.

(* ---------- B. the loop index as a mask ---------- *)

Definition mask_of (inax : Z -> bool) (i : Z) (n : nat) : list bool :=
  map (fun k => inax (i + Z.of_nat k)) (seq 0 n).

Lemma mask_of_S inax i n : mask_of inax i (S n) = inax i :: mask_of inax (i + 1) n.
Proof.
  unfold mask_of. cbn [seq map]. rewrite Z.add_0_r. f_equal.
  rewrite <- seq_shift, map_map. apply map_ext. intros k. f_equal. lia.
Qed.

Lemma mask_of_length inax i n : length (mask_of inax i n) = n.
Proof. unfold mask_of. now rewrite map_length, seq_length. Qed.

Lemma mask_of_0 inax n : mask_of inax 0 n = map inax (zs n).
Proof. unfold mask_of, zs. rewrite map_map. apply map_ext. intros k. reflexivity. Qed.

Lemma map_const_repeat {X Y} (y : Y) (l : list X) : map (fun _ => y) l = repeat y (length l).
Proof. induction l; cbn; congruence. Qed.

Lemma red_mask_length n ax : length (red_mask n ax) = n.
Proof. destruct ax; cbn [red_mask]; rewrite ?repeat_length, ?map_length, ?zs_length; reflexivity. Qed.

(* the normalised axis argument selects exactly the axes of the NumPy mask *)
Lemma normalize_mask n ax : axes_ok (Z.of_nat n) ax = true ->
  exists nax, normalize ax (Z.of_nat n) = Some nax /\ mask_of (in_axis nax) 0 n = red_mask n ax.
Proof.
  destruct ax as [|k|l]; cbn [axes_ok normalize red_mask]; intros H.
  - exists AxNone. split; [reflexivity|]. rewrite mask_of_0.
    rewrite (map_ext (in_axis AxNone) (fun _ => true)) by reflexivity.
    rewrite map_const_repeat, zs_length. reflexivity.
  - exists (AxInt (np_norm (Z.of_nat n) k)). rewrite (normalize_axis1_ok _ _ H). split; [reflexivity|].
    rewrite mask_of_0. reflexivity.
  - apply andb_prop in H as [Hr _]. exists (AxList (map (np_norm (Z.of_nat n)) l)).
    rewrite (normalize_axes_ok _ _ Hr). split; [reflexivity|].
    rewrite mask_of_0. cbn [in_axis]. apply map_ext. intros j. apply existsb_map_eqb.
Qed.

(* ---------- C. remove_dims ---------- *)

Lemma remove_dims_loop_mask inax kd s : forall i,
  remove_dims_loop inax kd s i = np_reduce_shape (mask_of inax i (length s)) s kd.
Proof.
  induction s as [|n t IH]; intros i; cbn [length]; [reflexivity|].
  rewrite mask_of_S. cbn [remove_dims_loop np_reduce_shape]. rewrite IH.
  destruct (inax i), kd; reflexivity.
Qed.

Definition count_true (m : list bool) : nat := length (filter (fun b => b) m).

Lemma np_reduce_shape_length_kd m : forall s, length m = length s ->
  length (np_reduce_shape m s true) = length s.
Proof.
  induction m as [|b m IH]; intros [|n t] H; cbn in *; try discriminate; [reflexivity|].
  destruct b; cbn; rewrite IH by lia; reflexivity.
Qed.

Lemma np_reduce_shape_length_nokd m : forall s, length m = length s ->
  (length (np_reduce_shape m s false) + count_true m = length s)%nat.
Proof.
  unfold count_true.
  induction m as [|b m IH]; intros [|n t] H; cbn in *; try discriminate; [reflexivity|].
  destruct b; cbn; specialize (IH t); lia.
Qed.

Lemma count_true_map {X} (p : X -> bool) l : count_true (map p l) = length (filter p l).
Proof.
  unfold count_true. induction l as [|x l IH]; cbn; [reflexivity|].
  destruct (p x); cbn; now rewrite IH.
Qed.

Lemma count_true_repeat n : count_true (repeat true n) = n.
Proof. unfold count_true. induction n; cbn; congruence. Qed.

Lemma nodupb_NoDup l : nodupb l = true -> NoDup l.
Proof.
  induction l as [|x l IH]; cbn [nodupb]; intros H; constructor.
  - apply andb_prop in H as [H _]. intros Hin.
    assert (E : existsb (Z.eqb x) l = true) by (apply existsb_exists; exists x; split; [assumption | apply Z.eqb_refl]).
    rewrite E in H. discriminate.
  - apply andb_prop in H as [_ H]. now apply IH.
Qed.

(* the number of reduced axes equals the number of (valid, distinct) axes named *)
Lemma count_true_axes n l :
  forallb (fun k => (- Z.of_nat n <=? k) && (k <? Z.of_nat n)) l = true ->
  nodupb (map (np_norm (Z.of_nat n)) l) = true ->
  count_true (red_mask n (AxList l)) = length l.
Proof.
  intros Hr Hd. cbn [red_mask]. rewrite count_true_map.
  rewrite <- (map_length (np_norm (Z.of_nat n)) l).
  apply Permutation_length. apply NoDup_Permutation.
  - apply NoDup_filter, NoDup_zs.
  - now apply nodupb_NoDup.
  - intros x. rewrite filter_In, existsb_exists, in_map_iff. split.
    + intros [_ [k [Hk E]]]. exists k. split; [|assumption]. apply Z.eqb_eq in E. now symmetry.
    + intros [k [E Hk]]. split.
      * apply in_zs. rewrite forallb_forall in Hr. specialize (Hr k Hk).
        pose proof (np_norm_range _ _ Hr). lia.
      * exists k. split; [assumption|]. apply Z.eqb_eq. now symmetry.
Qed.

Lemma count_true_int n k : (- Z.of_nat n <=? k) && (k <? Z.of_nat n) = true ->
  count_true (red_mask n (AxInt k)) = 1%nat.
Proof.
  intros H. replace (red_mask n (AxInt k)) with (red_mask n (AxList [k])).
  - rewrite count_true_axes; [reflexivity | cbn; now rewrite H | reflexivity].
  - cbn [red_mask]. apply map_ext. intros j. cbn [existsb]. apply orb_false_r.
Qed.

Theorem remove_dims_spec s ax kd : axes_ok (zlen s) ax = true ->
  remove_dims s ax kd = Some (reduce_shape_spec s ax kd).
Proof.
  intros Hok. unfold remove_dims, reduce_shape_spec, zlen in *.
  destruct (normalize_mask _ _ Hok) as [nax [Hn Hm]]. rewrite Hn.
  rewrite remove_dims_loop_mask, Hm.
  pose proof (red_mask_length (length s) ax) as Hl.
  assert (E : Z.of_nat (length (np_reduce_shape (red_mask (length s) ax) s kd)) =
              (if kd then Z.of_nat (length s)
               else match nax with
                    | AxNone => 0
                    | AxInt _ => Z.of_nat (length s) - 1
                    | AxList l => Z.of_nat (length s) - Z.of_nat (length l)
                    end)).
  { destruct kd.
    - now rewrite np_reduce_shape_length_kd.
    - pose proof (np_reduce_shape_length_nokd _ _ Hl) as Hc.
      destruct ax as [|k|l]; cbn [axes_ok normalize] in *.
      + injection Hn as <-. cbn [red_mask] in *. rewrite count_true_repeat in Hc. lia.
      + rewrite (normalize_axis1_ok _ _ Hok) in Hn. injection Hn as <-.
        rewrite (count_true_int _ _ Hok) in Hc. lia.
      + apply andb_prop in Hok as [Hr Hd]. rewrite (normalize_axes_ok _ _ Hr) in Hn. injection Hn as <-.
        rewrite (count_true_axes _ _ Hr Hd) in Hc. rewrite map_length. lia. }
  rewrite E, Z.eqb_refl. reflexivity.
Qed.

(* ---------- D. reduction_slices ---------- *)

(* the loop, driven by the mask instead of the axis test *)
Fixpoint slices_m (mask : list bool) (kd : bool) (idx s : list Z) (ii : nat) : option (list (Z * Z)) :=
  match mask, s with
  | b :: m, n :: t =>
      if b then option_map (cons (0, n)) (slices_m m kd idx t (if kd then S ii else ii))
      else match nth_error idx ii with
           | Some v => option_map (cons (v, v + 1)) (slices_m m kd idx t (S ii))
           | None => None
           end
  | _, _ => Some []
  end.

Lemma loop_mask inax kd idx s : forall i ii,
  reduction_slices_loop inax kd idx s i ii = slices_m (mask_of inax i (length s)) kd idx s ii.
Proof.
  induction s as [|n t IH]; intros i ii; cbn [length]; [reflexivity|].
  rewrite mask_of_S. cbn [reduction_slices_loop slices_m].
  destruct (inax i).
  - now rewrite IH.
  - destruct (nth_error idx ii); [now rewrite IH | reflexivity].
Qed.

(* the slices as the property describes them: 0:n on reduced axes, y:y+1 elsewhere *)
Fixpoint slices_spec (mask : list bool) (s i : list Z) : list (Z * Z) :=
  match mask, s with
  | true :: m, n :: t => (0, n) :: slices_spec m t i
  | false :: m, _ :: t => match i with
                          | y :: i' => (y, y + 1) :: slices_spec m t i'
                          | [] => []
                          end
  | _, _ => []
  end.

Lemma nth_error_mid {X} (pre : list X) y post : nth_error (pre ++ y :: post) (length pre) = Some y.
Proof. rewrite nth_error_app2 by lia. now rewrite Nat.sub_diag. Qed.

Lemma app_snoc {X} (pre : list X) y post : pre ++ y :: post = (pre ++ [y]) ++ post.
Proof. now rewrite <- app_assoc. Qed.

Lemma snoc_length {X} (pre : list X) y : length (pre ++ [y]) = S (length pre).
Proof. rewrite app_length. cbn. lia. Qed.

Lemma slices_m_spec_nokd mask : forall s idx pre, length mask = length s ->
  length idx = length (np_reduce_shape mask s false) ->
  slices_m mask false (pre ++ idx) s (length pre) = Some (slices_spec mask s idx).
Proof.
  induction mask as [|b m IH]; intros [|n t] idx pre Hl Hi; cbn in Hl; try discriminate; [reflexivity|].
  destruct b; cbn [slices_m slices_spec np_reduce_shape] in *.
  - rewrite IH by (auto; lia). reflexivity.
  - destruct idx as [|y idx]; cbn in Hi; [discriminate|].
    rewrite nth_error_mid. rewrite app_snoc, <- (snoc_length pre y).
    rewrite IH by (auto; lia). reflexivity.
Qed.

Lemma slices_m_spec_kd mask : forall s idx pre, length mask = length s ->
  length idx = length s ->
  slices_m mask true (pre ++ idx) s (length pre) = Some (slices_spec mask s (drop_reduced mask idx)).
Proof.
  induction mask as [|b m IH]; intros [|n t] idx pre Hl Hi; cbn in Hl; try discriminate; [reflexivity|].
  destruct idx as [|y idx]; cbn in Hi; [discriminate|].
  destruct b; cbn [slices_m slices_spec drop_reduced].
  - rewrite app_snoc, <- (snoc_length pre y). rewrite IH by (auto; lia). reflexivity.
  - rewrite nth_error_mid. rewrite app_snoc, <- (snoc_length pre y).
    rewrite IH by (auto; lia). reflexivity.
Qed.

(* ---------- E. slices -> flatten = nested-loop enumeration (E.9) ---------- *)

Inductive wf : list bool -> list Z -> list Z -> Prop :=
| wf_nil : wf [] [] []
| wf_red r s i n : 1 <= n -> wf r s i -> wf (true :: r) (n :: s) i
| wf_keep r s i n y : wf r s i -> wf (false :: r) (n :: s) (y :: i).

Lemma wf_intro_nokd mask : forall s idx, length mask = length s -> pos s ->
  length idx = length (np_reduce_shape mask s false) -> wf mask s idx.
Proof.
  induction mask as [|b m IH]; intros [|n t] idx Hl Hp Hi; cbn in Hl; try discriminate.
  - destruct idx; [constructor | discriminate].
  - inversion Hp as [|? ? Hn Hp']; subst. destruct b; cbn [np_reduce_shape] in Hi.
    + constructor; [assumption | apply IH; auto; lia].
    + destruct idx as [|y idx]; cbn in Hi; [discriminate|]. constructor. apply IH; auto; lia.
Qed.

Lemma wf_intro_kd mask : forall s idx, length mask = length s -> pos s ->
  length idx = length s -> wf mask s (drop_reduced mask idx).
Proof.
  induction mask as [|b m IH]; intros [|n t] idx Hl Hp Hi; cbn in Hl; try discriminate.
  - destruct idx; [constructor | discriminate].
  - inversion Hp as [|? ? Hn Hp']; subst. destruct idx as [|y idx]; cbn in Hi; [discriminate|].
    destruct b; cbn [drop_reduced]; constructor; auto; apply IH; auto; lia.
Qed.

Lemma slice_shape_cons a b rest : slice_shape ((a, b) :: rest) = (b - a) :: slice_shape rest.
Proof. reflexivity. Qed.
Lemma slice_index_cons a b rest x ks :
  slice_index ((a, b) :: rest) (x :: ks) = (a + x) :: slice_index rest ks.
Proof. reflexivity. Qed.

Lemma sliced_pos r s i : wf r s i -> pos (slice_shape (slices_spec r s i)).
Proof.
  induction 1 as [|r s i n Hn H IH|r s i n y H IH]; cbn [slices_spec]; rewrite ?slice_shape_cons.
  - constructor.
  - constructor; [lia | assumption].
  - constructor; [lia | assumption].
Qed.

Lemma zrange_1 : zrange 1 = [0].
Proof. reflexivity. Qed.

Lemma enum_merge r s i : wf r s i ->
  map (slice_index (slices_spec r s i)) (lex_enum (slice_shape (slices_spec r s i)))
  = map (merge r i) (lex_enum (reduced_extents r s)).
Proof.
  induction 1 as [|r s i n Hn H IH|r s i n y H IH]; cbn [slices_spec reduced_extents].
  - reflexivity.
  - rewrite slice_shape_cons, Z.sub_0_r. cbn [lex_enum].
    rewrite !flat_map_concat_map, !concat_map, !map_map. f_equal.
    apply map_ext. intros x. rewrite !map_map.
    transitivity (map (cons x) (map (slice_index (slices_spec r s i)) (lex_enum (slice_shape (slices_spec r s i))))).
    + rewrite map_map. apply map_ext. intros ks. rewrite slice_index_cons. reflexivity.
    + rewrite IH, map_map. reflexivity.
  - rewrite slice_shape_cons. replace (y + 1 - y) with 1 by lia. cbn [lex_enum].
    rewrite zrange_1. cbn [flat_map]. rewrite app_nil_r, !map_map.
    transitivity (map (cons y) (map (slice_index (slices_spec r s i)) (lex_enum (slice_shape (slices_spec r s i))))).
    + rewrite map_map. apply map_ext. intros ks. rewrite slice_index_cons. f_equal. lia.
    + rewrite IH, map_map. reflexivity.
Qed.

Section Fold.
Variables E R : Type.
Variable cast : E -> R.
Variable f : R -> E -> R.

Theorem flat_slice_spec (a : list Z -> E) r s i : wf r s i ->
  flat_slice a (slices_spec r s i) = spec_elems a r s i.
Proof.
  intros H. unfold flat_slice, spec_elems.
  rewrite <- (map_map (ndindex (slice_shape (slices_spec r s i)))
                      (fun idx => a (slice_index (slices_spec r s i) idx))).
  rewrite (ndindex_is_lex_enum _ (sliced_pos _ _ _ H)).
  rewrite <- (map_map (slice_index (slices_spec r s i)) a), (enum_merge _ _ _ H), map_map.
  reflexivity.
Qed.

Lemma reducer_fold_spec (l : list E) init : reducer cast f l init = fold_spec cast f l init.
Proof. destruct init, l; reflexivity. Qed.

(* axis = None: the whole array in C order *)
Lemma reduced_extents_all s : reduced_extents (repeat true (length s)) s = s.
Proof. induction s; cbn; congruence. Qed.

Lemma merge_all r : forall i, merge (repeat true (length r)) i r = r.
Proof. induction r; intros i; cbn; [reflexivity | now rewrite IHr]. Qed.

Lemma spec_elems_all (a : list Z -> E) s i : pos s ->
  spec_elems a (repeat true (length s)) s i = map a (lex_enum s).
Proof.
  intros Hp. unfold spec_elems. rewrite reduced_extents_all.
  apply map_ext_in. intros r Hr. apply (in_lex_enum s Hp) in Hr.
  rewrite <- (inb_length _ _ Hr). now rewrite merge_all.
Qed.

(* ---------- F. the element theorem ---------- *)

Theorem reduce_at_spec (a : list Z -> E) s ax kd init idx :
  pos s -> axes_ok (zlen s) ax = true ->
  length idx = length (reduce_shape_spec s ax kd) ->
  reduce_at cast f a s ax kd init idx = reduce_spec cast f a s ax kd init idx.
Proof.
  intros Hp Hok Hi. unfold reduce_spec, reduce_shape_spec in *.
  assert (G : forall nax, normalize ax (zlen s) = Some nax ->
              mask_of (in_axis nax) 0 (length s) = red_mask (length s) ax ->
              match reduction_slices_loop (in_axis nax) kd idx s 0 0 with
              | Some sl => reducer cast f (flat_slice a sl) init
              | None => None
              end =
              fold_spec cast f (spec_elems a (red_mask (length s) ax) s
                                      (if kd then drop_reduced (red_mask (length s) ax) idx else idx)) init).
  { intros nax Hn Hm. rewrite loop_mask, Hm.
    pose proof (red_mask_length (length s) ax) as Hl.
    change idx with ([] ++ idx) at 1. change 0%nat with (@length Z []).
    destruct kd.
    - rewrite np_reduce_shape_length_kd in Hi by assumption.
      rewrite slices_m_spec_kd by assumption.
      rewrite flat_slice_spec by (apply wf_intro_kd; assumption).
      apply reducer_fold_spec.
    - rewrite slices_m_spec_nokd by assumption.
      rewrite flat_slice_spec by (apply wf_intro_nokd; assumption).
      apply reducer_fold_spec. }
  unfold zlen in *. destruct (normalize_mask _ _ Hok) as [nax [Hn Hm]].
  destruct ax as [|k|l].
  - cbn [reduce_at red_mask].
    rewrite <- (map_map (ndindex s) a), (ndindex_is_lex_enum s Hp).
    rewrite spec_elems_all by assumption. apply reducer_fold_spec.
  - unfold reduce_at, zlen. rewrite Hn. now apply G.
  - unfold reduce_at, zlen. rewrite Hn. now apply G.
Qed.

(* the designated elements are never an empty list, so the fold is defined even without initial *)
Lemma reduced_extents_pos mask : forall s, pos s -> pos (reduced_extents mask s).
Proof.
  induction mask as [|b m IH]; intros s Hp; [constructor|].
  destruct s as [|n t]; [destruct b; constructor|].
  inversion Hp as [|? ? Hn Hp']; subst. destruct b; cbn [reduced_extents].
  - constructor; [assumption | now apply IH].
  - now apply IH.
Qed.

Lemma spec_elems_nonempty (a : list Z -> E) mask s i : pos s -> spec_elems a mask s i <> [].
Proof.
  intros Hp. unfold spec_elems.
  pose proof (reduced_extents_pos mask s Hp) as Hq.
  pose proof (length_lex_enum _ Hq) as Hlen. pose proof (prod_pos _ Hq).
  intros C. apply (f_equal (@length E)) in C. rewrite map_length in C. cbn in C. lia.
Qed.

End Fold.

(* ---------- G. the folded elements are in bounds ---------- *)

Lemma merge_inb mask : forall s i r, length mask = length s ->
  inb i (np_reduce_shape mask s false) -> inb r (reduced_extents mask s) -> inb (merge mask i r) s.
Proof.
  induction mask as [|b m IH]; intros [|n t] i r Hl Hi Hr; cbn in Hl; try discriminate; [constructor|].
  destruct b; cbn [np_reduce_shape reduced_extents merge] in *.
  - inversion Hr; subst. constructor; [assumption | apply IH; auto; lia].
  - inversion Hi; subst. constructor; [assumption | apply IH; auto; lia].
Qed.

Lemma drop_reduced_inb mask : forall s idx, length mask = length s ->
  inb idx (np_reduce_shape mask s true) -> inb (drop_reduced mask idx) (np_reduce_shape mask s false).
Proof.
  induction mask as [|b m IH]; intros [|n t] idx Hl Hi; cbn in Hl; try discriminate.
  - inversion Hi; constructor.
  - destruct b; cbn [np_reduce_shape drop_reduced] in *; inversion Hi; subst.
    + apply IH; auto; lia.
    + constructor; [assumption | apply IH; auto; lia].
Qed.

(* ---------- H. only the SET of normalised axes matters ---------- *)

Lemma existsb_perm {X} (p : X -> bool) l l' : Permutation l l' -> existsb p l = existsb p l'.
Proof.
  induction 1; cbn; try congruence.
  - rewrite !orb_assoc, (orb_comm (p y)). reflexivity.
Qed.

Lemma red_mask_perm n l l' :
  Permutation (map (np_norm (Z.of_nat n)) l) (map (np_norm (Z.of_nat n)) l') ->
  red_mask n (AxList l) = red_mask n (AxList l').
Proof.
  intros HP. cbn [red_mask]. apply map_ext. intros j.
  rewrite <- (existsb_map_eqb j (np_norm (Z.of_nat n)) l), <- (existsb_map_eqb j (np_norm (Z.of_nat n)) l').
  now apply existsb_perm.
Qed.

Lemma filter_len_le {X} (p : X -> bool) l : (length (filter p l) <= length l)%nat.
Proof. induction l as [|x l IH]; cbn; [lia | destruct (p x); cbn; lia]. Qed.

Lemma count_true_full m : count_true m = length m -> m = repeat true (length m).
Proof.
  unfold count_true. induction m as [|b m IH]; cbn; [reflexivity|].
  destruct b; cbn; intros H.
  - f_equal. apply IH. lia.
  - pose proof (filter_len_le (fun b : bool => b) m). lia.
Qed.

(* a duplicate-free list naming ndim axes names all of them *)
Lemma all_axes_mask n l : axes_ok (Z.of_nat n) (AxList l) = true -> length l = n ->
  red_mask n (AxList l) = red_mask n AxNone.
Proof.
  intros Hok Hl. cbn [axes_ok] in Hok. apply andb_prop in Hok as [Hr Hd].
  pose proof (count_true_axes n l Hr Hd) as Hc.
  pose proof (red_mask_length n (AxList l)) as Hm.
  rewrite (count_true_full (red_mask n (AxList l))) by lia.
  rewrite Hm. reflexivity.
Qed.

Section Fold2.
Variables E R : Type.
Variable cast : E -> R.
Variable f : R -> E -> R.

Theorem reduce_depends_on_mask (a : list Z -> E) s ax ax' kd init idx :
  pos s -> axes_ok (zlen s) ax = true -> axes_ok (zlen s) ax' = true ->
  red_mask (length s) ax = red_mask (length s) ax' ->
  length idx = length (reduce_shape_spec s ax kd) ->
  remove_dims s ax kd = remove_dims s ax' kd /\
  reduce_at cast f a s ax kd init idx = reduce_at cast f a s ax' kd init idx.
Proof.
  intros Hp H1 H2 Hm Hi. split.
  - rewrite !remove_dims_spec by assumption. unfold reduce_shape_spec. now rewrite Hm.
  - rewrite (reduce_at_spec E R cast f a s ax kd init idx Hp H1 Hi).
    rewrite (reduce_at_spec E R cast f a s ax' kd init idx Hp H2)
      by (unfold reduce_shape_spec in *; now rewrite <- Hm).
    unfold reduce_spec. now rewrite Hm.
Qed.

(* ---------- I. accumulate ---------- *)

Fixpoint onehot (p n : nat) : list bool :=
  match n with
  | O => []
  | S n' => match p with O => true :: repeat false n' | S p' => false :: onehot p' n' end
  end.
Definition remove_at (p : nat) (idx : list Z) : list Z := firstn p idx ++ skipn (S p) idx.

Lemma acc_slices_past axis : forall idx i, axis < i ->
  accumulate_slices axis idx i = map (fun v => (v, v + 1)) idx.
Proof.
  induction idx as [|v t IH]; intros i Hi; cbn [accumulate_slices map]; [reflexivity|].
  destruct (Z.eqb_spec i axis); [lia|]. f_equal. apply IH. lia.
Qed.

Lemma slices_spec_allfalse : forall idx s, length s = length idx ->
  slices_spec (repeat false (length idx)) s idx = map (fun v => (v, v + 1)) idx.
Proof.
  induction idx as [|v t IH]; intros [|n s] Hl; cbn in *; try discriminate; [reflexivity|].
  f_equal. apply IH. lia.
Qed.

Lemma wf_allfalse : forall idx s, length s = length idx -> wf (repeat false (length idx)) s idx.
Proof.
  induction idx as [|v t IH]; intros [|n s] Hl; cbn in *; try discriminate; constructor.
  apply IH. lia.
Qed.

Lemma set_at_S v t p k : set_at (v :: t) (S p) k = v :: set_at t p k.
Proof. reflexivity. Qed.
Lemma remove_at_S v t p : remove_at (S p) (v :: t) = v :: remove_at p t.
Proof. reflexivity. Qed.
Lemma set_at_length idx p k : (p < length idx)%nat -> length (set_at idx p k) = length idx.
Proof.
  intros H. unfold set_at. rewrite app_length, firstn_length. cbn [length]. rewrite skipn_length. lia.
Qed.

Lemma acc_slices_onehot axis : forall idx i p, (p < length idx)%nat -> axis = i + Z.of_nat p ->
  accumulate_slices axis idx i
  = slices_spec (onehot p (length idx)) (set_at idx p (nth p idx 0 + 1)) (remove_at p idx).
Proof.
  induction idx as [|v t IH]; intros i p Hp Ha; cbn [length] in Hp; [lia|].
  destruct p as [|p].
  - cbn [accumulate_slices length onehot]. unfold set_at, remove_at. cbn [firstn skipn app nth slices_spec].
    replace (i =? axis) with true by (symmetry; apply Z.eqb_eq; lia).
    f_equal. rewrite acc_slices_past by lia. now rewrite slices_spec_allfalse.
  - cbn [accumulate_slices length onehot nth]. rewrite set_at_S, remove_at_S. cbn [slices_spec].
    replace (i =? axis) with false by (symmetry; apply Z.eqb_neq; lia).
    f_equal. apply IH; lia.
Qed.

Lemma wf_onehot : forall idx p k, (p < length idx)%nat -> 1 <= k ->
  wf (onehot p (length idx)) (set_at idx p k) (remove_at p idx).
Proof.
  induction idx as [|v t IH]; intros p k Hp Hk; cbn [length] in Hp; [lia|].
  destruct p as [|p].
  - cbn [length onehot]. unfold set_at, remove_at. cbn [firstn skipn app].
    constructor; [assumption | now apply wf_allfalse].
  - cbn [length onehot]. rewrite set_at_S, remove_at_S. constructor. apply IH; [lia | assumption].
Qed.

Lemma reduced_extents_allfalse : forall n s, reduced_extents (repeat false n) s = [].
Proof. induction n; intros [|x s]; cbn; auto. Qed.

Lemma reduced_extents_onehot : forall idx p k, (p < length idx)%nat ->
  reduced_extents (onehot p (length idx)) (set_at idx p k) = [k].
Proof.
  induction idx as [|v t IH]; intros p k Hp; cbn [length] in Hp; [lia|].
  destruct p as [|p].
  - cbn [length onehot]. unfold set_at. cbn [firstn skipn app reduced_extents].
    now rewrite reduced_extents_allfalse.
  - cbn [length onehot]. rewrite set_at_S. cbn [reduced_extents]. apply IH. lia.
Qed.

Lemma merge_allfalse : forall idx r, merge (repeat false (length idx)) idx r = idx.
Proof. induction idx as [|v t IH]; intros r; cbn; [reflexivity | now rewrite IH]. Qed.

Lemma merge_onehot : forall idx p x, (p < length idx)%nat ->
  merge (onehot p (length idx)) (remove_at p idx) [x] = set_at idx p x.
Proof.
  induction idx as [|v t IH]; intros p x Hp; cbn [length] in Hp; [lia|].
  destruct p as [|p].
  - cbn [length onehot]. unfold set_at, remove_at. cbn [firstn skipn app merge].
    now rewrite merge_allfalse.
  - cbn [length onehot]. rewrite set_at_S, remove_at_S. cbn [merge]. f_equal. apply IH. lia.
Qed.

Lemma flat_map_singleton {X Y} (g : X -> Y) l : flat_map (fun x => [g x]) l = map g l.
Proof. induction l; cbn; congruence. Qed.

Lemma lex_enum_1 n : lex_enum [n] = map (fun x => [x]) (zrange n).
Proof. cbn [lex_enum map]. apply flat_map_singleton. Qed.

Lemma inb_nth_nonneg idx s : inb idx s -> forall p, (p < length idx)%nat -> 0 <= nth p idx 0.
Proof.
  induction 1 as [|x n is s Hx H IH]; intros p Hp; cbn [length] in Hp; [lia|].
  destruct p; cbn [nth]; [lia | apply IH; lia].
Qed.

Lemma accumulate_slices_spec (a : list Z -> E) s ax idx :
  0 <= ax < zlen s -> inb idx s ->
  reducer cast f (flat_slice a (accumulate_slices ax idx 0)) None
  = fold_spec cast f (map (fun k => a (set_at idx (Z.to_nat ax) k)) (zrange (nth (Z.to_nat ax) idx 0 + 1))) None.
Proof.
  intros Ha Hi. pose proof (inb_length _ _ Hi) as Hl. unfold zlen in *.
  set (p := Z.to_nat ax).
  assert (Hp : (p < length idx)%nat) by lia.
  assert (Hv : 1 <= nth p idx 0 + 1) by (pose proof (inb_nth_nonneg _ _ Hi p Hp); lia).
  rewrite (acc_slices_onehot ax idx 0 p Hp) by lia.
  rewrite (flat_slice_spec E a _ _ _ (wf_onehot idx p _ Hp Hv)).
  unfold spec_elems. rewrite reduced_extents_onehot by assumption.
  rewrite lex_enum_1, map_map, reducer_fold_spec. f_equal.
  apply map_ext. intros x. now rewrite merge_onehot.
Qed.

(* any valid axis, either sign: wrap_axis is NumPy's normalisation on [-ndim, ndim) *)
Theorem accumulate_at_spec (a : list Z -> E) s axis idx :
  - zlen s <= axis < zlen s -> inb idx s ->
  accumulate_at cast f a (zlen s) axis idx = accumulate_spec cast f a (zlen s) axis idx.
Proof.
  intros Ha Hi. unfold accumulate_at, accumulate_spec.
  assert (Ew : wrap_axis axis (zlen s) = np_norm (zlen s) axis)
    by (unfold wrap_axis, np_norm; destruct (axis <? 0); lia).
  rewrite Ew. apply (accumulate_slices_spec a s); [|assumption].
  unfold np_norm. destruct (Z.ltb_spec axis 0); lia.
Qed.

End Fold2.

(* ---------- K. mean's divisor is the number of folded elements ---------- *)

Lemma axes_perm n l :
  forallb (fun k => (- Z.of_nat n <=? k) && (k <? Z.of_nat n)) l = true ->
  nodupb (map (np_norm (Z.of_nat n)) l) = true ->
  Permutation (map (np_norm (Z.of_nat n)) l)
              (filter (fun j => existsb (fun k => j =? np_norm (Z.of_nat n) k) l) (zs n)).
Proof.
  intros Hr Hd. apply NoDup_Permutation.
  - now apply nodupb_NoDup.
  - apply NoDup_filter, NoDup_zs.
  - intros x. rewrite filter_In, existsb_exists, in_map_iff. split.
    + intros [k [E Hk]]. split.
      * apply in_zs. rewrite forallb_forall in Hr. specialize (Hr k Hk).
        pose proof (np_norm_range _ _ Hr). lia.
      * exists k. split; [assumption|]. apply Z.eqb_eq. now symmetry.
    + intros [_ [k [Hk E]]]. exists k. split; [|assumption]. apply Z.eqb_eq in E. now symmetry.
Qed.

Lemma prod_perm l l' : Permutation l l' -> prod l = prod l'.
Proof. induction 1; cbn; try congruence; ring. Qed.

Lemma fold_mul_map {X} (g : X -> Z) l : forall a,
  fold_left (fun d x => d * g x) l a = a * prod (map g l).
Proof. induction l as [|x l IH]; intros a; cbn; [ring | rewrite IH; ring]. Qed.

Lemma prod_filter_mask (p : Z -> bool) : forall s pre,
  prod (map (znth (pre ++ s)) (filter p (map Z.of_nat (seq (length pre) (length s)))))
  = prod (reduced_extents (map p (map Z.of_nat (seq (length pre) (length s)))) s).
Proof.
  induction s as [|n t IH]; intros pre; cbn [length seq map filter reduced_extents]; [reflexivity|].
  specialize (IH (pre ++ [n])). rewrite snoc_length, <- app_snoc in IH.
  destruct (p (Z.of_nat (length pre))); cbn [map prod reduced_extents]; rewrite IH; [|reflexivity].
  f_equal. unfold znth. rewrite Nat2Z.id. rewrite app_nth2 by lia. now rewrite Nat.sub_diag.
Qed.

Theorem mean_divisor_spec s ax nax : axes_ok (zlen s) ax = true ->
  normalize ax (zlen s) = Some nax ->
  mean_divisor s nax = prod (reduced_extents (red_mask (length s) ax) s).
Proof.
  unfold zlen. intros Hok Hn.
  assert (L : forall l, forallb (fun k => (- Z.of_nat (length s) <=? k) && (k <? Z.of_nat (length s))) l = true ->
              nodupb (map (np_norm (Z.of_nat (length s))) l) = true ->
              fold_left (fun d x => d * znth s x) (map (np_norm (Z.of_nat (length s))) l) 1
              = prod (reduced_extents (red_mask (length s) (AxList l)) s)).
  { intros l Hr Hd. rewrite fold_mul_map, Z.mul_1_l.
    rewrite (prod_perm _ _ (Permutation_map (znth s) (axes_perm _ _ Hr Hd))).
    cbn [red_mask]. unfold zs. exact (prod_filter_mask _ s []). }
  destruct ax as [|k|l]; cbn [axes_ok normalize] in *.
  - injection Hn as <-. cbn [mean_divisor red_mask]. now rewrite reduced_extents_all, product_eq_prod.
  - rewrite (normalize_axis1_ok _ _ Hok) in Hn. injection Hn as <-. cbn [mean_divisor].
    replace (red_mask (length s) (AxInt k)) with (red_mask (length s) (AxList [k]))
      by (cbn [red_mask]; apply map_ext; intros j; cbn [existsb]; apply orb_false_r).
    rewrite <- L; [cbn [map fold_left]; lia | cbn; now rewrite Hok | reflexivity].
  - apply andb_prop in Hok as [Hr Hd]. rewrite (normalize_axes_ok _ _ Hr) in Hn. injection Hn as <-.
    cbn [mean_divisor]. now apply L.
Qed.

Lemma spec_elems_count {E} (a : list Z -> E) mask s i : pos s ->
  Z.of_nat (length (spec_elems a mask s i)) = prod (reduced_extents mask s).
Proof.
  intros Hp. unfold spec_elems. rewrite map_length. apply length_lex_enum. now apply reduced_extents_pos.
Qed.

(* ---------- L. the fold in a concrete result type = NumPy's exact fold converted once ---------- *)
From NM Require Import Dtype.

(* operations compatible with reduction modulo m in the accumulator: + * - *)
Definition ring_op (op : Z -> Z -> Z) : Prop :=
  forall m a a' x, 0 < m -> a mod m = a' mod m -> (op a x) mod m = (op a' x) mod m.

Lemma ring_add : ring_op Z.add.
Proof.
  intros m a a' x Hm H. rewrite <- (Z.add_mod_idemp_l a), <- (Z.add_mod_idemp_l a') by lia. now rewrite H.
Qed.
Lemma ring_mul : ring_op Z.mul.
Proof.
  intros m a a' x Hm H. rewrite <- (Z.mul_mod_idemp_l a), <- (Z.mul_mod_idemp_l a') by lia. now rewrite H.
Qed.
Lemma ring_sub : ring_op Z.sub.
Proof.
  intros m a a' x Hm H. rewrite <- (Zminus_mod_idemp_l a), <- (Zminus_mod_idemp_l a'). now rewrite H.
Qed.

Lemma swrap_mod w z : 0 < 2 ^ w -> (swrap w z) mod 2 ^ w = z mod 2 ^ w.
Proof.
  intros Hm. unfold swrap. cbv zeta. destruct (z mod 2 ^ w <? 2 ^ (w - 1)).
  - apply Z.mod_mod. lia.
  - rewrite Zminus_mod, Z_mod_same_full, Z.sub_0_r, !Z.mod_mod by lia. reflexivity.
Qed.

Lemma pow_bits_pos d : 0 < 2 ^ bits d.
Proof. destruct d; cbn; lia. Qed.

Lemma int_cast_mod d z : d <> Bool -> is_float d = false ->
  (int_cast d z) mod 2 ^ bits d = z mod 2 ^ bits d.
Proof.
  intros Hb Hf. pose proof (pow_bits_pos d) as Hm.
  destruct d; try contradiction; try discriminate; cbn [int_cast];
    try (unfold wrap; apply Z.mod_mod; lia); apply swrap_mod; assumption.
Qed.

Lemma int_cast_congr d z z' : d <> Bool -> is_float d = false ->
  z mod 2 ^ bits d = z' mod 2 ^ bits d -> int_cast d z = int_cast d z'.
Proof.
  intros Hb Hf H. destruct d; try contradiction; try discriminate; cbn [int_cast];
    unfold wrap, swrap; rewrite H; reflexivity.
Qed.

Lemma typed_step_hom d op a x : d <> Bool -> ring_op op ->
  typed_step d op (int_cast d a) x = int_cast d (op a x).
Proof.
  intros Hb Hop. unfold typed_step. destruct (is_float d) eqn:Hf.
  - destruct d; try discriminate; reflexivity.
  - apply int_cast_congr; auto. apply Hop; [apply pow_bits_pos | now apply int_cast_mod].
Qed.

Lemma typed_fold_hom d op l : d <> Bool -> ring_op op -> forall v,
  fold_left (typed_step d op) l (int_cast d v) = int_cast d (fold_left op l v).
Proof.
  intros Hb Hop. induction l as [|x l IH]; intros v; cbn [fold_left]; [reflexivity|].
  rewrite typed_step_hom by assumption. apply IH.
Qed.

Lemma typed_fold_spec_hom d op l init : d <> Bool -> ring_op op ->
  fold_spec (int_cast d) (typed_step d op) l (option_map (int_cast d) init)
  = option_map (int_cast d) (exact_fold op l init).
Proof.
  intros Hb Hop. unfold exact_fold. destruct init as [v|], l as [|x l]; cbn [fold_spec option_map];
    try reflexivity; f_equal; now apply typed_fold_hom.
Qed.

Theorem typed_reduce_at_spec requested e op a s ax kd init idx :
  reduce_dtype requested e <> Bool -> ring_op op ->
  pos s -> axes_ok (zlen s) ax = true -> length idx = length (reduce_shape_spec s ax kd) ->
  typed_reduce_at requested e op a s ax kd init idx = typed_reduce_spec requested e op a s ax kd init idx.
Proof.
  intros Hb Hop Hp Hok Hi. unfold typed_reduce_at, typed_reduce_spec. cbv zeta.
  rewrite (reduce_at_spec Z Z _ _ a s ax kd _ idx Hp Hok Hi). unfold reduce_spec.
  now apply typed_fold_spec_hom.
Qed.

Theorem typed_accumulate_at_spec requested e op a s axis idx :
  reduce_dtype requested e <> Bool -> ring_op op ->
  - zlen s <= axis < zlen s -> inb idx s ->
  typed_accumulate_at requested e op a (zlen s) axis idx = typed_accumulate_spec requested e op a (zlen s) axis idx.
Proof.
  intros Hb Hop Ha Hi. unfold typed_accumulate_at, typed_accumulate_spec. cbv zeta.
  rewrite (accumulate_at_spec Z Z _ _ a s axis idx Ha Hi). unfold accumulate_spec.
  exact (typed_fold_spec_hom _ op _ None Hb Hop).
Qed.
