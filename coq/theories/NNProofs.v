(* NNProofs.v — lemmas for C17 (see Properties_C17.v for the statements in plain words) *)
From NM Require Import Base Index IndexProofs NN.
Local Open Scope Z_scope.

(* ---------- small tools ---------- *)
Ltac leq := repeat (apply (f_equal2 (@cons Z)); [try reflexivity; try ring; try lia|]); try reflexivity.

Lemma posb_cons x l : posb (x :: l) = (1 <=? x) && posb l.
Proof. reflexivity. Qed.

Ltac posb_true := unfold posb; cbn [forallb];
  repeat match goal with |- context [1 <=? ?x] => replace (1 <=? x) with true by (symmetry; apply Z.leb_le; nia) end; reflexivity.

Lemma div_pos_exact a g : 1 <= a -> 1 <= g -> a mod g = 0 -> 1 <= a / g /\ a = a / g * g.
Proof.
  intros Ha Hg Hm. pose proof (Z.div_mod a g ltac:(lia)) as E. rewrite Hm in E.
  split; [|lia]. destruct (Z_le_gt_dec (a / g) 0); [nia|lia].
Qed.

Lemma mul_div_l g c : 1 <= g -> g * c / g = c.
Proof. intros. rewrite Z.mul_comm. apply Z.div_mul. lia. Qed.

Lemma cdiv_formula m s : 1 <= s -> cdiv (m + 1) s = m / s + 1.
Proof.
  intros Hs. unfold cdiv.
  pose proof (Z.div_mod m s ltac:(lia)) as E. pose proof (Z.mod_pos_bound m s ltac:(lia)) as B.
  pose proof (Z.div_mod (- (m + 1)) s ltac:(lia)) as E2. pose proof (Z.mod_pos_bound (- (m + 1)) s ltac:(lia)) as B2.
  nia.
Qed.

(* ---------- views: what each stage does to the shape ---------- *)
Lemma v_reshape_some v dst : product (vshape v) = product dst -> posb dst = true ->
  exists r, v_reshape v dst = Some r /\ vshape r = dst
            /\ forall i, vget r i = vget v (compute_indices (compute_offset i (compute_strides dst)) (vshape v)).
Proof.
  intros E P. unfold v_reshape. rewrite E, Z.eqb_refl, P. cbn [andb].
  eexists. split; [reflexivity|]. split; [reflexivity|]. intros; reflexivity.
Qed.

Lemma vshape_sw v win axes : vshape (v_sliding_window v win axes) = shape_sliding_window (vshape v) win axes.
Proof. reflexivity. Qed.
Lemma vshape_sum v axes : vshape (v_sum v axes) = select (map negb (axes_mask (zlen (vshape v)) axes)) (vshape v).
Proof. reflexivity. Qed.
Lemma obind_some {A B} (x : A) (f : A -> option B) : obind (Some x) f = f x.
Proof. reflexivity. Qed.
Lemma vshape_mk s f : vshape (mkview s f) = s.
Proof. reflexivity. Qed.

Lemma step_slice_shape4 v a b c d s0 s1 : vshape v = [a; b; c; d] ->
  vshape (v_step_slice v [s0; s1]) = [a; b; cdiv c s0; cdiv d s1].
Proof. intros E. unfold v_step_slice. rewrite vshape_mk, E. reflexivity. Qed.
Lemma step_slice_shape3 v a b c s0 : vshape v = [a; b; c] ->
  vshape (v_step_slice v [s0]) = [a; b; cdiv c s0].
Proof. intros E. unfold v_step_slice. rewrite vshape_mk, E. reflexivity. Qed.

Lemma bc_same x : bc x x = Some x.
Proof. unfold bc. now rewrite Z.eqb_refl. Qed.
Lemma bc_one_r x : bc x 1 = Some x.
Proof. unfold bc. destruct (x =? 1); reflexivity. Qed.
Lemma bc_one_l y : bc 1 y = Some y.
Proof. unfold bc. destruct (1 =? y) eqn:E; [apply Z.eqb_eq in E; now subst|reflexivity]. Qed.

(* effective per-axis parameters of the MODEL for conv2d: (H-axis value, W-axis value) *)
Definition wf_arg (np : nat) (a : sarg) : Prop := match a with AList l => length l = np | _ => True end.
Definition eff_pad2 (a : sarg) : Z * Z := match a with ANone => (0, 0) | AScalar p => (p, p) | AList l => (znth l 0, znth l 1) end.
Definition eff_str2 (a : sarg) : Z * Z := match a with ANone => (1, 1) | AScalar p => (p, p) | AList l => (znth l 0, znth l 1) end.
Definition eff_dil2 (a : sarg) : Z * Z := match a with ANone => (1, 1) | AScalar p => (p, p) | AList l => (znth l 0, znth l 1) end.
Definition eff1 (dflt : Z) (a : sarg) : Z := match a with ANone => dflt | AScalar p => p | AList l => znth l 0 end.

(* ======================= conv2d: the shape through the pipeline ======================= *)
Section Conv2dShape.
Variables (N Cg H W O kh kw g : Z).
Hypotheses (HN : 1 <= N) (HCg : 1 <= Cg) (HH : 1 <= H) (HW : 1 <= W) (HO : 1 <= O) (Hkh : 1 <= kh) (Hkw : 1 <= kw) (Hg : 1 <= g)
           (HOg : O mod g = 0).

Lemma a_weight_shape2 w dl : vshape w = [O; Cg; kh; kw] -> wf_arg 2 dl ->
  1 <= fst (eff_dil2 dl) -> 1 <= snd (eff_dil2 dl) ->
  exists aw, conv_a_weight 2 w dl g = Some aw
    /\ vshape aw = [g; O / g; Cg; kh + (kh - 1) * (fst (eff_dil2 dl) - 1); kw + (kw - 1) * (snd (eff_dil2 dl) - 1)].
Proof.
  intros Hw Hwf D1 D2. unfold conv_a_weight. rewrite Hw.
  change (conv_reshape_weight [O; Cg; kh; kw] g 2) with [g; O / g; Cg; kh; kw].
  destruct (div_pos_exact O g HO Hg HOg) as [Q1 Q2].
  destruct (v_reshape_some w [g; O / g; Cg; kh; kw]) as [rw [E [S _]]].
  { rewrite Hw. unfold product. cbn [fold_left]. rewrite Q2 at 1. ring. }
  { posb_true. }
  rewrite E. cbn [obind].
  destruct dl as [|d|l].
  - eexists. split; [reflexivity|]. rewrite S. cbn [eff_dil2 fst snd]. leq.
  - eexists. split; [reflexivity|]. cbn [v_expand vshape]. rewrite S. cbn [eff_dil2 fst snd].
    change (shape_expand [g; O / g; Cg; kh; kw] (conv_window_axis 2) (conv_expand_spacing (AScalar d) 2))
      with [g; O / g; Cg; kh + (kh - 1) * (d - 1); kw + (kw - 1) * (d - 1)]. reflexivity.
  - destruct l as [|d0 [|d1 [|]]]; try discriminate Hwf.
    eexists. split; [reflexivity|]. cbn [v_expand vshape]. rewrite S. cbn [eff_dil2 fst snd].
    change (shape_expand [g; O / g; Cg; kh; kw] (conv_window_axis 2) (conv_expand_spacing (AList [d0; d1]) 2))
      with [g; O / g; Cg; kh + (kh - 1) * (d0 - 1); kw + (kw - 1) * (d1 - 1)]. reflexivity.
Qed.

Lemma a_input_shape2 x pd : vshape x = [N; g * Cg; H; W] -> wf_arg 2 pd ->
  0 <= fst (eff_pad2 pd) -> 0 <= snd (eff_pad2 pd) ->
  exists ax, conv_a_input 2 x pd g = Some ax
    /\ vshape ax = [N; g; 1; Cg; H + 2 * fst (eff_pad2 pd); W + 2 * snd (eff_pad2 pd)].
Proof.
  intros Hx Hwf P1 P2. unfold conv_a_input. rewrite Hx.
  change (conv_reshape_input [N; g * Cg; H; W] g 2) with [N; g; 1; g * Cg / g; H; W].
  rewrite (mul_div_l g Cg Hg).
  destruct (v_reshape_some x [N; g; 1; Cg; H; W]) as [rx [E [S _]]].
  { rewrite Hx. unfold product. cbn [fold_left]. ring. }
  { posb_true. }
  rewrite E. cbn [obind].
  destruct pd as [|p|l].
  - eexists. split; [reflexivity|]. rewrite S. cbn [eff_pad2 fst snd]. leq.
  - unfold v_pad. rewrite S.
    change (shape_pad [N; g; 1; Cg; H; W] (conv_pad (zlen [N; g; 1; Cg; H; W]) (AScalar p) 2))
      with (Some [N + 0 + 0; g + 0 + 0; 1 + 0 + 0; Cg + 0 + 0; H + p + p; W + p + p]).
    eexists. split; [reflexivity|]. cbn [vshape eff_pad2 fst snd]. leq.
  - destruct l as [|p0 [|p1 [|]]]; try discriminate Hwf.
    unfold v_pad. rewrite S.
    change (shape_pad [N; g; 1; Cg; H; W] (conv_pad (zlen [N; g; 1; Cg; H; W]) (AList [p0; p1]) 2))
      with (Some [N + 0 + 0; g + 0 + 0; 1 + 0 + 0; Cg + 0 + 0; H + p0 + p0; W + p1 + p1]).
    eexists. split; [reflexivity|]. cbn [vshape eff_pad2 fst snd].
    change (znth [p0; p1] 0) with p0. change (znth [p0; p1] 1) with p1. leq.
Qed.

(* from the two operands to the strided result *)
Lemma conv2d_shape_core x w bias st pd dl :
  vshape x = [N; g * Cg; H; W] -> vshape w = [O; Cg; kh; kw] ->
  (match bias with Some b => vshape b = [O] | None => True end) ->
  wf_arg 2 st -> wf_arg 2 pd -> wf_arg 2 dl ->
  let ph := fst (eff_pad2 pd) in let pw := snd (eff_pad2 pd) in
  let dh := fst (eff_dil2 dl) in let dw := snd (eff_dil2 dl) in
  let sh := fst (eff_str2 st) in let sw := snd (eff_str2 st) in
  0 <= ph -> 0 <= pw -> 1 <= dh -> 1 <= dw -> 1 <= sh -> 1 <= sw ->
  0 <= H + 2 * ph - dh * (kh - 1) - 1 -> 0 <= W + 2 * pw - dw * (kw - 1) - 1 ->
  exists r, convnd_view 2 x w bias st pd dl g = Some r
    /\ vshape r = [N; O; conv_out_extent H kh sh ph dh; conv_out_extent W kw sw pw dw].
Proof.
  intros Hx Hw Hb Wst Wpd Wdl ph pw dh dw sh sw Pph Ppw Pdh Pdw Psh Psw PoH PoW.
  destruct (div_pos_exact O g HO Hg HOg) as [Q1 Q2].
  unfold convnd_view.
  destruct (a_weight_shape2 w dl Hw Wdl Pdh Pdw) as [aw [Ea Sa]]. rewrite Ea. cbn [obind].
  destruct (a_input_shape2 x pd Hx Wpd Pph Ppw) as [ax [Ex Sx]]. rewrite Ex. cbn [obind].
  fold ph pw in Sx. fold dh dw in Sa.
  set (KH := kh + (kh - 1) * (dh - 1)) in *. set (KW := kw + (kw - 1) * (dw - 1)) in *.
  rewrite Sa.
  change (conv_kernel_size [g; O / g; Cg; KH; KW] 2) with [KW; KH].
  change (conv_window_axis 2) with [-1; -2].
  rewrite vshape_sw, Sx.
  change (shape_sliding_window [N; g; 1; Cg; H + 2 * ph; W + 2 * pw] [KW; KH] [-1; -2])
    with [N; g; 1; Cg; H + 2 * ph - (KH - 1); W + 2 * pw - (KW - 1); KW; KH].
  set (oh := H + 2 * ph - (KH - 1)). set (ow := W + 2 * pw - (KW - 1)).
  assert (Hoh : 1 <= oh) by (unfold oh, KH; nia). assert (How : 1 <= ow) by (unfold ow, KW; nia).
  assert (HKH : 1 <= KH) by (unfold KH; nia). assert (HKW : 1 <= KW) by (unfold KW; nia).
  replace (posb [N; g; 1; Cg; oh; ow; KW; KH]) with true by (symmetry; posb_true). cbn [negb].
  (* broadcast multiply *)
  unfold v_binop at 1. rewrite !vshape_sw, Sa, Sx.
  change (shape_sliding_window [N; g; 1; Cg; H + 2 * ph; W + 2 * pw] [KW; KH] [-1; -2])
    with [N; g; 1; Cg; oh; ow; KW; KH].
  change (shape_sliding_window [g; O / g; Cg; KH; KW] [KW; KH] [-1; -2])
    with [g; O / g; Cg; KH - (KH - 1); KW - (KW - 1); KW; KH].
  assert (B : bshape [N; g; 1; Cg; oh; ow; KW; KH] [g; O / g; Cg; KH - (KH - 1); KW - (KW - 1); KW; KH]
              = Some [N; g; O / g; Cg; oh; ow; KW; KH]).
  { replace (KH - (KH - 1)) with 1 by lia. replace (KW - (KW - 1)) with 1 by lia.
    unfold bshape. cbn [rev app bshape_rev].
    rewrite !bc_same, !bc_one_r, bc_one_l. reflexivity. }
  rewrite B. cbn [obind].
  (* sum over the kernel and channel axes *)
  rewrite vshape_sum, vshape_mk.
  change (axes_mask (zlen [N; g; O / g; Cg; oh; ow; KW; KH]) (conv_sum_axes 2))
    with [false; false; false; true; false; false; true; true].
  cbn [map negb select].
  change (conv_reshape_reduce [N; g; O / g; oh; ow] g 2) with [N; g * (O / g); oh; ow].
  replace (g * (O / g)) with O by lia.
  match goal with |- context [v_reshape ?s [N; O; oh; ow]] =>
    destruct (v_reshape_some s [N; O; oh; ow]) as [rs [Er [Sr _]]] end.
  { rewrite vshape_sum, vshape_mk. change (axes_mask (zlen [N; g; O / g; Cg; oh; ow; KW; KH]) (conv_sum_axes 2))
      with [false; false; false; true; false; false; true; true]. cbn [map negb select].
    unfold product. cbn [fold_left]. set (q := O / g) in *. rewrite Q2. ring. }
  { posb_true. }
  rewrite Er, obind_some. cbv beta.
  (* bias *)
  assert (exists ar, match bias with
            | Some b => obind (v_reshape b (conv_reshape_bias (vshape b) 2)) (fun rb => v_binop Z.add rs rb)
            | None => Some rs end = Some ar /\ vshape ar = [N; O; oh; ow]) as [ar [Ear Sar]].
  { destruct bias as [b|]; [|exists rs; split; [reflexivity|exact Sr]].
    rewrite Hb. change (conv_reshape_bias [O] 2) with [O; 1; 1].
    destruct (v_reshape_some b [O; 1; 1]) as [rb [Eb [Sb _]]].
    { rewrite Hb. unfold product. cbn [fold_left]. ring. } { posb_true. }
    rewrite Eb. cbn [obind]. unfold v_binop. rewrite Sr, Sb.
    unfold bshape. cbn [rev app bshape_rev]. rewrite !bc_one_r, bc_same. cbn [option_map rev app].
    eexists. split; reflexivity. }
  rewrite Ear, obind_some. cbv beta.
  assert (FH : conv_out_extent H kh 1 ph dh = oh).
  { unfold conv_out_extent, oh, KH. rewrite Z.div_1_r. ring. }
  assert (FW : conv_out_extent W kw 1 pw dw = ow).
  { unfold conv_out_extent, ow, KW. rewrite Z.div_1_r. ring. }
  assert (GH : forall s, 1 <= s -> cdiv oh s = conv_out_extent H kh s ph dh).
  { intros s Hs. unfold conv_out_extent. rewrite <- (cdiv_formula _ s Hs). f_equal. unfold oh, KH. ring. }
  assert (GW : forall s, 1 <= s -> cdiv ow s = conv_out_extent W kw s pw dw).
  { intros s Hs. unfold conv_out_extent. rewrite <- (cdiv_formula _ s Hs). f_equal. unfold ow, KW. ring. }
  destruct st as [|s|l].
  - eexists. split; [reflexivity|]. rewrite Sar. subst sh sw. cbn [eff_str2 fst snd]. rewrite FH, FW. reflexivity.
  - eexists. split; [reflexivity|]. change (conv_slices (AScalar s) 2) with [s; s].
    rewrite (step_slice_shape4 _ _ _ _ _ s s Sar). subst sh sw. cbn [eff_str2 fst snd] in *.
    rewrite (GH s Psh), (GW s Psw). reflexivity.
  - destruct l as [|s0 [|s1 [|]]]; try discriminate Wst.
    eexists. split; [reflexivity|]. change (conv_slices (AList [s0; s1]) 2) with [s0; s1].
    rewrite (step_slice_shape4 _ _ _ _ _ s0 s1 Sar). subst sh sw. cbn [eff_str2 fst snd] in *.
    change (znth [s0; s1] 0) with s0 in *. change (znth [s0; s1] 1) with s1 in *.
    rewrite (GH s0 Psh), (GW s1 Psw). reflexivity.
Qed.
End Conv2dShape.

(* ---------- from the boolean domain of the runner to the hypotheses of the core lemma ---------- *)
Lemma zlen_nil_inv {A} (l : list A) : zlen l = 0 -> l = [].
Proof. destruct l; [reflexivity|]. unfold zlen. cbn [length]. lia. Qed.
Lemma zlen_cons_inv {A} (l : list A) n : zlen l = n + 1 -> 0 <= n -> exists a t, l = a :: t /\ zlen t = n.
Proof. destruct l as [|a t]; unfold zlen; cbn [length]; intros; [lia|]. exists a, t. split; [reflexivity|lia]. Qed.
Lemma zlen_4 {A} (l : list A) : zlen l = 4 -> exists a b c d, l = [a; b; c; d].
Proof.
  intros E. destruct (zlen_cons_inv l 3 E ltac:(lia)) as [a [t1 [-> E1]]].
  destruct (zlen_cons_inv t1 2 E1 ltac:(lia)) as [b [t2 [-> E2]]].
  destruct (zlen_cons_inv t2 1 E2 ltac:(lia)) as [c [t3 [-> E3]]].
  destruct (zlen_cons_inv t3 0 E3 ltac:(lia)) as [d [t4 [-> E4]]].
  apply zlen_nil_inv in E4. subst. now exists a, b, c, d.
Qed.
Lemma zlen_3 {A} (l : list A) : zlen l = 3 -> exists a b c, l = [a; b; c].
Proof.
  intros E. destruct (zlen_cons_inv l 2 E ltac:(lia)) as [a [t1 [-> E1]]].
  destruct (zlen_cons_inv t1 1 E1 ltac:(lia)) as [b [t2 [-> E2]]].
  destruct (zlen_cons_inv t2 0 E2 ltac:(lia)) as [c [t3 [-> E3]]].
  apply zlen_nil_inv in E3. subst. now exists a, b, c.
Qed.
Lemma zlen_2 {A} (l : list A) : zlen l = 2 -> exists a b, l = [a; b].
Proof.
  intros E. destruct (zlen_cons_inv l 1 E ltac:(lia)) as [a [t1 [-> E1]]].
  destruct (zlen_cons_inv t1 0 E1 ltac:(lia)) as [b [t2 [-> E2]]].
  apply zlen_nil_inv in E2. subst. now exists a, b.
Qed.
Lemma zlen_1 {A} (l : list A) : zlen l = 1 -> exists a, l = [a].
Proof.
  intros E. destruct (zlen_cons_inv l 0 E ltac:(lia)) as [a [t1 [-> E1]]].
  apply zlen_nil_inv in E1. subst. now exists a.
Qed.

Lemma wf_of_zlen np a : match a with AList l => zlen l =? Z.of_nat np | _ => true end = true -> wf_arg np a.
Proof. destruct a; cbn; auto. intros E. apply Z.eqb_eq in E. unfold zlen in E. lia. Qed.

Lemma spec_list_str2 a : spec_list a 1 2 = [fst (eff_str2 a); snd (eff_str2 a)].
Proof. destruct a; reflexivity. Qed.
Lemma spec_list_pad2 a : spec_list a 0 2 = [fst (eff_pad2 a); snd (eff_pad2 a)].
Proof. destruct a; reflexivity. Qed.
Lemma spec_list_dil2 a : spec_list a 1 2 = [fst (eff_dil2 a); snd (eff_dil2 a)].
Proof. destruct a; reflexivity. Qed.

Lemma posb2 a b : posb [a; b] = true -> 1 <= a /\ 1 <= b.
Proof. unfold posb. cbn [forallb]. intros E. apply andb_prop in E as [E1 E2]. apply andb_prop in E2 as [E2 _]. lia. Qed.
Lemma posb4 a b c d : posb [a; b; c; d] = true -> 1 <= a /\ 1 <= b /\ 1 <= c /\ 1 <= d.
Proof.
  unfold posb. cbn [forallb]. intros E. apply andb_prop in E as [E1 E]. apply andb_prop in E as [E2 E].
  apply andb_prop in E as [E3 E]. apply andb_prop in E as [E4 _]. lia.
Qed.
Lemma posb3 a b c : posb [a; b; c] = true -> 1 <= a /\ 1 <= b /\ 1 <= c.
Proof.
  unfold posb. cbn [forallb]. intros E. apply andb_prop in E as [E1 E]. apply andb_prop in E as [E2 E].
  apply andb_prop in E as [E3 _]. lia.
Qed.
Lemma nonneg2 a b : forallb (fun p => 0 <=? p) [a; b] = true -> 0 <= a /\ 0 <= b.
Proof. cbn [forallb]. intros E. apply andb_prop in E as [E1 E2]. apply andb_prop in E2 as [E2 _]. lia. Qed.

Lemma out_extent_pos n k s p d : 1 <= s -> 1 <= conv_out_extent n k s p d -> 0 <= n + 2 * p - d * (k - 1) - 1.
Proof.
  unfold conv_out_extent. intros Hs Ho.
  destruct (Z_lt_ge_dec (n + 2 * p - d * (k - 1) - 1) 0) as [Hn|]; [|lia].
  pose proof (Z.div_lt_upper_bound (n + 2 * p - d * (k - 1) - 1) s 0 ltac:(lia) ltac:(lia)). lia.
Qed.

Theorem conv2d_out_shape ishape idata wshape wdata bias st pd dl g :
  conv_dom 2 ishape wshape bias st pd dl g = true ->
  exists elems, convnd 2 ishape idata wshape wdata bias st pd dl g
                = Some (conv_spec_shape 2 ishape wshape st pd dl, elems).
Proof.
  unfold conv_dom, valid_conv_args. intros D. rewrite !andb_true_iff in D.
  destruct D as [[[[[[[[[[[[[[Hli Hlw] Hpi] Hpw] Hg] HC] HOg] Hb] Hst] Hpd] Hdl] Wst] Wpd] Wdl] Hsp].
  apply Z.eqb_eq in Hli. destruct (zlen_4 _ Hli) as [N [C [H [W ->]]]].
  apply Z.eqb_eq in Hlw. destruct (zlen_4 _ Hlw) as [O [Cg [kh [kw ->]]]].
  change (znth [N; C; H; W] 0) with N in *. change (znth [N; C; H; W] 1) with C in *.
  change (znth [O; Cg; kh; kw] 0) with O in *. change (znth [O; Cg; kh; kw] 1) with Cg in *.
  apply Z.eqb_eq in HC. subst C.
  apply posb4 in Hpi as [PN [_ [PH PW]]]. apply posb4 in Hpw as [PO [PCg [Pkh Pkw]]].
  apply Z.leb_le in Hg as Pg. apply Z.eqb_eq in HOg.
  apply (wf_of_zlen 2) in Wst. apply (wf_of_zlen 2) in Wpd. apply (wf_of_zlen 2) in Wdl.
  unfold conv_spec_shape in *.
  rewrite (spec_list_str2 st) in *. rewrite (spec_list_pad2 pd) in *. rewrite (spec_list_dil2 dl) in *.
  apply posb2 in Hst as [Psh Psw]. apply nonneg2 in Hpd as [Pph Ppw]. apply posb2 in Hdl as [Pdh Pdw].
  change (skipn 2 [N; g * Cg; H; W]) with [H; W] in *.
  change (skipn 2 [O; Cg; kh; kw]) with [kh; kw] in *. cbn [map5 app] in *.
  change (znth [N; g * Cg; H; W] 0) with N in *. change (znth [O; Cg; kh; kw] 0) with O in *.
  apply posb4 in Hsp as [_ [_ [PoH PoW]]].
  apply out_extent_pos in PoH; [|assumption]. apply out_extent_pos in PoW; [|assumption].
  unfold convnd.
  destruct (conv2d_shape_core N Cg H W O kh kw g PN PCg PH PW PO Pkh Pkw Pg HOg
              (v_array [N; g * Cg; H; W] idata) (v_array [O; Cg; kh; kw] wdata)
              (option_map (fun b => v_array [zlen b] b) bias) st pd dl) as [r [Er Sr]];
    try assumption; try reflexivity.
  { destruct bias as [b|]; [|exact I]. cbn [option_map vshape v_array]. apply Z.eqb_eq in Hb. now rewrite Hb. }
  rewrite Er. cbn [option_map]. unfold materialize. rewrite Sr. eexists. reflexivity.
Qed.

(* ======================= signed indexing on lists with a known tail ======================= *)
Lemma upd_app {A} (p q : list A) k x : upd (p ++ q) (length p + k) x = p ++ upd q k x.
Proof. induction p; cbn [app length Nat.add upd]; [reflexivity|now rewrite IHp]. Qed.
Lemma nth_app_r {A} (p q : list A) k d : nth (length p + k) (p ++ q) d = nth k q d.
Proof. induction p; cbn [app length Nat.add nth]; auto. Qed.
Lemma zlen_app {A} (p q : list A) : zlen (p ++ q) = zlen p + zlen q.
Proof. unfold zlen. rewrite app_length. lia. Qed.
Lemma zlen_nonneg {A} (l : list A) : 0 <= zlen l.
Proof. unfold zlen. lia. Qed.

Lemma zset_app_neg p q i z : i < 0 -> 0 <= zlen q + i -> zset (p ++ q) i z = p ++ zset q i z.
Proof.
  intros Hi Hq. unfold zset, nidx. replace (i <? 0) with true by (symmetry; apply Z.ltb_lt; lia).
  rewrite zlen_app. replace (Z.to_nat (zlen p + zlen q + i)) with (length p + Z.to_nat (zlen q + i))%nat
    by (unfold zlen in *; lia).
  apply upd_app.
Qed.
Lemma zat_app_neg p q i : i < 0 -> 0 <= zlen q + i -> zat (p ++ q) i = zat q i.
Proof.
  intros Hi Hq. unfold zat, znth, nidx. replace (i <? 0) with true by (symmetry; apply Z.ltb_lt; lia).
  rewrite zlen_app. replace (Z.to_nat (zlen p + zlen q + i)) with (length p + Z.to_nat (zlen q + i))%nat
    by (unfold zlen in *; lia).
  apply nth_app_r.
Qed.
Lemma zset_app_pos p q i z : 0 <= i -> zset (p ++ q) (zlen p + i) z = p ++ zset q i z.
Proof.
  intros Hi. unfold zset, nidx. pose proof (zlen_nonneg p).
  replace (zlen p + i <? 0) with false by (symmetry; apply Z.ltb_ge; lia).
  replace (i <? 0) with false by (symmetry; apply Z.ltb_ge; lia).
  replace (Z.to_nat (zlen p + i)) with (length p + Z.to_nat i)%nat by (unfold zlen; lia).
  apply upd_app.
Qed.
Lemma zat_app_pos p q i : 0 <= i -> zat (p ++ q) (zlen p + i) = zat q i.
Proof.
  intros Hi. unfold zat, znth, nidx. pose proof (zlen_nonneg p).
  replace (zlen p + i <? 0) with false by (symmetry; apply Z.ltb_ge; lia).
  replace (i <? 0) with false by (symmetry; apply Z.ltb_ge; lia).
  replace (Z.to_nat (zlen p + i)) with (length p + Z.to_nat i)%nat by (unfold zlen; lia).
  apply nth_app_r.
Qed.
Lemma nidx_neg n i : i < 0 -> nidx n i = n + i.
Proof. intros. unfold nidx. now replace (i <? 0) with true by (symmetry; apply Z.ltb_lt; lia). Qed.
Lemma firstn_app_exact {A} (p q : list A) : firstn (length p) (p ++ q) = p.
Proof. induction p; cbn [length firstn app]; [destruct q; reflexivity|now rewrite IHp]. Qed.
Lemma firstn_app_plus {A} (p q : list A) k : firstn (length p + k) (p ++ q) = p ++ firstn k q.
Proof. induction p; cbn [length firstn app Nat.add]; [reflexivity|now rewrite IHp]. Qed.

Lemma inb_app_inv i1 s1 : length i1 = length s1 -> forall i2 s2, inb (i1 ++ i2) (s1 ++ s2) -> inb i1 s1 /\ inb i2 s2.
Proof.
  revert s1. induction i1 as [|a i1 IH]; intros [|n s1] E i2 s2 Hb; try discriminate E.
  - split; [constructor|exact Hb].
  - cbn [app] in Hb. inversion Hb; subst. destruct (IH s1 ltac:(cbn in E; lia) i2 s2 H4) as [B1 B2].
    split; [constructor; assumption|assumption].
Qed.

(* ======================= index::sliding_window (two trailing window axes, as convnd uses it) ======================= *)
Lemma sliding_window_shape2 lead H W kw kh :
  shape_sliding_window (lead ++ [H; W]) [kw; kh] [-1; -2] = lead ++ [H - (kh - 1); W - (kw - 1); kw; kh].
Proof.
  unfold shape_sliding_window. cbn [combine fold_left fst snd].
  rewrite zlen_app. change (zlen [H; W]) with 2. rewrite !nidx_neg by lia.
  replace (zlen lead + 2 + -1) with (zlen lead + 1) by lia. replace (zlen lead + 2 + -2) with (zlen lead + 0) by lia.
  rewrite zat_app_pos, zset_app_pos by lia.
  change (zset [H; W] 1 (zat [H; W] 1 - (kw - 1))) with [H; W - (kw - 1)].
  rewrite zat_app_pos, zset_app_pos by lia.
  change (zset [H; W - (kw - 1)] 0 (zat [H; W - (kw - 1)] 0 - (kh - 1))) with [H - (kh - 1); W - (kw - 1)].
  rewrite <- app_assoc. reflexivity.
Qed.

Lemma sliding_window_idx2 (lead l : list Z) H W y x a b : length l = length lead ->
  sliding_window_idx (l ++ [y; x; a; b]) (zlen (lead ++ [H; W])) [-1; -2] = l ++ [y + b; x + a].
Proof.
  intros E. unfold sliding_window_idx. rewrite zlen_app. change (zlen [H; W]) with 2.
  replace (Z.to_nat (zlen lead + 2)) with (length l + 2)%nat by (unfold zlen; lia).
  rewrite firstn_app_plus. cbn [firstn].
  change (combine (zrange (zlen [-1; -2])) [-1; -2]) with [(0, -1); (1, -2)]. cbn [fold_left fst snd].
  assert (Z1 : znth (l ++ [y; x; a; b]) (0 + (zlen lead + 2)) = a).
  { unfold znth. replace (Z.to_nat (0 + (zlen lead + 2))) with (length l + 2)%nat by (unfold zlen; lia). now rewrite nth_app_r. }
  assert (Z2 : znth (l ++ [y; x; a; b]) (1 + (zlen lead + 2)) = b).
  { unfold znth. replace (Z.to_nat (1 + (zlen lead + 2))) with (length l + 3)%nat by (unfold zlen; lia). now rewrite nth_app_r. }
  rewrite Z1, Z2.
  rewrite zat_app_neg, zset_app_neg by (cbn; lia).
  change (zset [y; x] (-1) (zat [y; x] (-1) + a)) with [y; x + a].
  rewrite zat_app_neg, zset_app_neg by (cbn; lia).
  reflexivity.
Qed.

(* the read is in bounds whenever the window index is *)
Lemma sliding_window_inb2 lead l H W kw kh y x a b : length l = length lead ->
  inb (l ++ [y; x; a; b]) (lead ++ [H - (kh - 1); W - (kw - 1); kw; kh]) ->
  inb (l ++ [y + b; x + a]) (lead ++ [H; W]).
Proof.
  intros E Hb. destruct (inb_app_inv l lead E _ _ Hb) as [B1 B2].
  apply inb_app; [assumption|].
  inversion B2 as [|? ? ? ? Hy B3]; subst. inversion B3 as [|? ? ? ? Hx B4]; subst.
  inversion B4 as [|? ? ? ? Ha B5]; subst. inversion B5 as [|? ? ? ? Hbb B6]; subst.
  repeat constructor; lia.
Qed.

(* ======================= index::expand (spacing insertion on the two trailing axes) ======================= *)
Lemma expand_shape2 lead H W sw sh :
  shape_expand (lead ++ [H; W]) [-1; -2] [sw; sh] = lead ++ [H + (H - 1) * sh; W + (W - 1) * sw].
Proof.
  unfold shape_expand. cbn [combine fold_left fst snd].
  rewrite zlen_app. change (zlen [H; W]) with 2. rewrite !nidx_neg by lia.
  replace (zlen lead + 2 + -1) with (zlen lead + 1) by lia. replace (zlen lead + 2 + -2) with (zlen lead + 0) by lia.
  rewrite !zat_app_pos, zset_app_pos by lia.
  change (zset [H; W] 1 (zat [H; W] 1 + (zat [H; W] 1 - 1) * sw)) with [H; W + (W - 1) * sw].
  rewrite !zat_app_pos, zset_app_pos by lia.
  reflexivity.
Qed.

Lemma expand_idx2 (lead l : list Z) H W sw sh y x : length l = length lead ->
  expand_idx (l ++ [y; x]) (zlen (lead ++ [H; W])) [-1; -2] [sw; sh]
  = if (0 <? x mod (sw + 1)) || (0 <? y mod (sh + 1)) then None else Some (l ++ [y / (sh + 1); x / (sw + 1)]).
Proof.
  intros E. unfold expand_idx. rewrite zlen_app. change (zlen [H; W]) with 2.
  replace (Z.to_nat (zlen lead + 2)) with (length l + 2)%nat by (unfold zlen; lia).
  rewrite firstn_app_plus. cbn [firstn combine fold_left fst snd].
  rewrite !nidx_neg by lia.
  replace (zlen lead + 2 + -1) with (zlen l + 1) by (unfold zlen; lia).
  replace (zlen lead + 2 + -2) with (zlen l + 0) by (unfold zlen; lia).
  rewrite !zat_app_pos by lia. change (zat [y; x] 1) with x.
  destruct (0 <? x mod (sw + 1)); [reflexivity|]. cbn [orb].
  rewrite zset_app_pos by lia. change (zset [y; x] 1 (x / (sw + 1))) with [y; x / (sw + 1)].
  rewrite !zat_app_pos by lia. change (zat [y; x / (sw + 1)] 0) with y.
  destruct (0 <? y mod (sh + 1)); [reflexivity|].
  rewrite zset_app_pos by lia. reflexivity.
Qed.

(* a source position (Y, X) sits at (Y*(sh+1), X*(sw+1)); a non-fill read is in bounds *)
Lemma expand_bound n sp y : 0 <= sp -> 1 <= n -> 0 <= y < n + (n - 1) * sp -> y mod (sp + 1) = 0 -> 0 <= y / (sp + 1) < n.
Proof.
  intros Hs Hn Hy Hm. pose proof (Z.div_mod y (sp + 1) ltac:(lia)) as D. rewrite Hm in D.
  split; [apply Z.div_pos; lia|]. nia.
Qed.
Lemma expand_scaled sp Y : 0 <= sp -> (Y * (sp + 1)) mod (sp + 1) = 0 /\ Y * (sp + 1) / (sp + 1) = Y.
Proof. intros. split; [apply Z.mod_mul; lia|apply Z.div_mul; lia]. Qed.

(* ======================= index::pad ======================= *)
Lemma pad_idx_spec idx : forall src pw, length idx = length src -> (length src <= length pw)%nat ->
  pad_idx idx src pw =
    if forallb (fun t => (snd (fst t) <=? fst (fst t)) && (fst (fst t) <? snd (fst t) + snd t)) (combine (combine idx pw) src)
    then Some (map (fun t => fst t - snd t) (combine idx pw)) else None.
Proof.
  unfold pad_idx. induction idx as [|i idx IH]; intros [|s src] [|p pw] E L; try discriminate E; cbn in L; try lia; try reflexivity.
  cbn [pad_idx_aux combine forallb map fst snd].
  rewrite (IH src pw) by (cbn in E; lia).
  destruct (i >=? s + p) eqn:A; destruct (i - p <? 0) eqn:B; destruct (p <=? i) eqn:C; destruct (i <? p + s) eqn:D;
    cbn [orb andb]; try lia; try reflexivity;
    destruct (forallb _ _); reflexivity.
Qed.

(* ======================= which group an output channel uses ======================= *)
(* a reshape reads the element with the same flat position *)
Lemma reshape_index i dst j src : pos src -> inb j src ->
  off i (strides dst) = off j (strides src) ->
  compute_indices (compute_offset i (compute_strides dst)) src = j.
Proof.
  intros P B E. rewrite compute_offset_eq, compute_strides_eq, E, <- compute_strides_eq, <- compute_offset_eq.
  apply unrav_off; assumption.
Qed.

Ltac pos_list := repeat constructor; nia.

(* (N,O,h,w) read from the sum (N,g,O/g,h,w): channel o comes from (o div (O/g), o mod (O/g)) *)
Lemma reduce_reshape_index N O g h w n o y x :
  1 <= N -> 1 <= O -> 1 <= g -> O mod g = 0 -> 1 <= h -> 1 <= w ->
  0 <= n < N -> 0 <= o < O -> 0 <= y < h -> 0 <= x < w ->
  compute_indices (compute_offset [n; o; y; x] (compute_strides [N; O; h; w])) [N; g; O / g; h; w]
  = [n; o / (O / g); o mod (O / g); y; x].
Proof.
  intros HN HO Hg HOg Hh Hw Bn Bo By Bx.
  destruct (div_pos_exact O g HO Hg HOg) as [Q1 Q2]. set (q := O / g) in *.
  pose proof (Z.div_mod o q ltac:(lia)) as Eo. pose proof (Z.mod_pos_bound o q ltac:(lia)) as Bm.
  assert (Bq : 0 <= o / q < g).
  { split; [apply Z.div_pos; lia|]. apply Z.div_lt_upper_bound; [lia|]. nia. }
  apply reshape_index.
  - unfold pos. pos_list.
  - repeat constructor; lia.
  - cbn [off strides prod]. rewrite Eo at 1. rewrite Q2. ring.
Qed.

(* reshaped weight (g,O/g,Cg,kh,kw) read from (O,Cg,kh,kw): entry (gi,oo) is weight row gi*(O/g) + oo *)
Lemma weight_reshape_index O Cg kh kw g gi oo c a b :
  1 <= O -> 1 <= g -> O mod g = 0 -> 1 <= Cg -> 1 <= kh -> 1 <= kw ->
  0 <= gi < g -> 0 <= oo < O / g -> 0 <= c < Cg -> 0 <= a < kh -> 0 <= b < kw ->
  compute_indices (compute_offset [gi; oo; c; a; b] (compute_strides [g; O / g; Cg; kh; kw])) [O; Cg; kh; kw]
  = [gi * (O / g) + oo; c; a; b].
Proof.
  intros HO Hg HOg HCg Hkh Hkw Bg Bo Bc Ba Bb.
  destruct (div_pos_exact O g HO Hg HOg) as [Q1 Q2]. set (q := O / g) in *.
  apply reshape_index.
  - unfold pos. pos_list.
  - repeat constructor; try lia. nia.
  - cbn [off strides prod]. ring.
Qed.

(* reshaped input (N,g,1,Cg,H,W) read from (N,g*Cg,H,W): group gi, channel c is input channel gi*Cg + c *)
Lemma input_reshape_index N g Cg H W n gi c y x :
  1 <= N -> 1 <= g -> 1 <= Cg -> 1 <= H -> 1 <= W -> 0 <= n < N -> 0 <= gi < g -> 0 <= c < Cg -> 0 <= y < H -> 0 <= x < W ->
  compute_indices (compute_offset [n; gi; 0; c; y; x] (compute_strides [N; g; 1; Cg; H; W])) [N; g * Cg; H; W]
  = [n; gi * Cg + c; y; x].
Proof.
  intros HN Hg HCg HH HW Bn Bg Bc By Bx.
  apply reshape_index.
  - unfold pos. pos_list.
  - repeat constructor; try lia. nia.
  - cbn [off strides prod]. ring.
Qed.

(* the group read off the reshapes is PyTorch's *)
Lemma model_group_spec O g o : 1 <= g -> 1 <= O -> O mod g = 0 -> 0 <= o < O ->
  model_group O g o = spec_group O g o /\ 0 <= model_group O g o < g.
Proof.
  intros Hg HO HOg Bo. destruct (div_pos_exact O g HO Hg HOg) as [Q1 Q2].
  unfold model_group, spec_group, compute_indices. rewrite compute_strides_eq. cbn [strides prod compute_indices3 znth nth Z.to_nat].
  set (q := O / g) in *. rewrite Z.mul_1_r.
  assert (Bq : 0 <= o / q < g).
  { split; [apply Z.div_pos; lia|]. apply Z.div_lt_upper_bound; [lia|]. nia. }
  rewrite Z.mod_small by lia. split; [reflexivity|lia].
Qed.

(* ======================= pooling ======================= *)
Lemma pool_floor_count n k s : 1 <= s -> 1 <= k <= n ->
  let o := pool_extent false n k s in 1 <= o /\ (o - 1) * s + k <= n < o * s + k.
Proof.
  intros Hs Hk. unfold pool_extent. cbv zeta.
  pose proof (Z.div_mod (n - k) s ltac:(lia)). pose proof (Z.mod_pos_bound (n - k) s ltac:(lia)).
  assert (0 <= (n - k) / s) by (apply Z.div_pos; lia). nia.
Qed.

(* ceil((n-k)/s) + 1 windows are the least number that covers the input ... *)
Lemma ceil_raw_cover n k s : 1 <= s -> 1 <= k <= n ->
  let o := cdiv (n - k) s + 1 in 1 <= o /\ (o - 2) * s + k < n <= (o - 1) * s + k.
Proof.
  intros Hs Hk. unfold cdiv. cbv zeta.
  pose proof (Z.div_mod (- (n - k)) s ltac:(lia)). pose proof (Z.mod_pos_bound (- (n - k)) s ltac:(lia)). nia.
Qed.

(* ... and the ceil-mode extent drops the last of them when it would start outside: every window starts inside,
   the windows before the last do not reach the end, and the last one reaches the end or the next would start outside *)
Lemma pool_ceil_cover n k s : 1 <= s -> 1 <= k <= n ->
  let o := pool_extent true n k s in
  1 <= o /\ (o - 1) * s < n /\ (o - 2) * s + k < n /\ (n <= (o - 1) * s + k \/ n <= o * s).
Proof.
  intros Hs Hk. pose proof (ceil_raw_cover n k s Hs Hk) as R. cbv zeta in R. unfold pool_extent. cbv zeta.
  set (o := cdiv (n - k) s + 1) in *. rewrite Z.add_0_r.
  destruct (n <=? (o - 1) * s) eqn:E; [apply Z.leb_le in E|apply Z.leb_gt in E]; nia.
Qed.

Lemma pool_extent_spec ceil n k s : pool_extent ceil n k s = pool_out_spec ceil n k s.
Proof.
  unfold pool_extent, pool_out_spec. destruct ceil; [|reflexivity]. cbv zeta.
  rewrite Z.add_0_r, Z.geb_leb. reflexivity.
Qed.

Lemma tail2 {A} (l : list A) : (2 <= length l)%nat -> exists lead a b, l = lead ++ [a; b] /\ length lead = (length l - 2)%nat.
Proof.
  intros L. exists (firstn (length l - 2) l).
  destruct (skipn (length l - 2) l) as [|a [|b [|c t]]] eqn:E;
    pose proof (skipn_length (length l - 2) l) as SL; rewrite E in SL; cbn [length] in SL; try lia.
  exists a, b. split; [rewrite <- E; symmetry; apply firstn_skipn|]. rewrite firstn_length. lia.
Qed.

Lemma shape_pool2d_app lead H W kh kw sh sw ceil :
  shape_pool2d (lead ++ [H; W]) [kh; kw] [sh; sw] ceil = lead ++ [pool_extent ceil H kh sh; pool_extent ceil W kw sw].
Proof.
  unfold shape_pool2d. rewrite zlen_app. change (zlen [H; W]) with 2.
  replace (Z.to_nat (zlen lead + 2 - 2)) with (length lead) by (unfold zlen; lia).
  rewrite firstn_app_exact. rewrite !zat_app_neg by (cbn; lia). reflexivity.
Qed.
Lemma pool_spec_shape_app lead H W kh kw sh sw ceil :
  pool_spec_shape (lead ++ [H; W]) [kh; kw] [sh; sw] ceil = lead ++ [pool_out_spec ceil H kh sh; pool_out_spec ceil W kw sw].
Proof.
  unfold pool_spec_shape. rewrite app_length. cbn [length nth].
  replace (length lead + 2 - 2)%nat with (length lead) by lia. replace (length lead + 2 - 1)%nat with (length lead + 1)%nat by lia.
  rewrite firstn_app_exact. replace (length lead) with (length lead + 0)%nat at 1 by lia. rewrite !nth_app_r. reflexivity.
Qed.

Lemma valid_pool_inv shape ks ss : valid_pool_args shape ks ss = true ->
  exists lead H W kh kw sh sw, shape = lead ++ [H; W] /\ ks = [kh; kw] /\ ss = [sh; sw]
    /\ 1 <= H /\ 1 <= W /\ 1 <= kh <= H /\ 1 <= kw <= W /\ 1 <= sh /\ 1 <= sw /\ pos lead.
Proof.
  unfold valid_pool_args. intros D. rewrite !andb_true_iff in D.
  destruct D as [[[[[[[Hl Hp] Hk] Hs] Pk] Ps] B1] B2].
  apply Z.leb_le in Hl. destruct (tail2 shape ltac:(unfold zlen in Hl; lia)) as [lead [H [W [-> _]]]].
  apply Z.eqb_eq in Hk. destruct (zlen_2 _ Hk) as [kh [kw ->]].
  apply Z.eqb_eq in Hs. destruct (zlen_2 _ Hs) as [sh [sw ->]].
  rewrite !zat_app_neg in * by (cbn; lia).
  change (zat [H; W] (-2)) with H in *. change (zat [H; W] (-1)) with W in *.
  change (zat [kh; kw] (-2)) with kh in *. change (zat [kh; kw] (-1)) with kw in *.
  apply posb2 in Pk as [? ?]. apply posb2 in Ps as [? ?]. apply Z.leb_le in B1, B2.
  apply posb_pos in Hp. apply pos_app in Hp as [Pl P2]. inversion P2 as [|? ? ? P3]; subst. inversion P3; subst.
  exists lead, H, W, kh, kw, sh, sw. repeat split; try reflexivity; try lia; assumption.
Qed.

Lemma pool_out_shape_dom shape ks ss ceil : pool_dom shape ks ss ceil = true ->
  shape_pool2d shape ks ss ceil = pool_spec_shape shape ks ss ceil.
Proof.
  unfold pool_dom. intros V.
  destruct (valid_pool_inv _ _ _ V) as [lead [H [W [kh [kw [sh [sw [-> [-> [-> _]]]]]]]]]].
  rewrite shape_pool2d_app, pool_spec_shape_app, !pool_extent_spec. reflexivity.
Qed.

(* ======================= conv1d: the shape through the pipeline ======================= *)
Section Conv1dShape.
Variables (N Cg L O k g : Z).
Hypotheses (HN : 1 <= N) (HCg : 1 <= Cg) (HL : 1 <= L) (HO : 1 <= O) (Hk : 1 <= k) (Hg : 1 <= g) (HOg : O mod g = 0).

Lemma conv1d_shape_core x w bias st pd dl :
  vshape x = [N; g * Cg; L] -> vshape w = [O; Cg; k] ->
  (match bias with Some b => vshape b = [O] | None => True end) ->
  wf_arg 1 st -> wf_arg 1 pd -> wf_arg 1 dl ->
  let p := eff1 0 pd in let d := eff1 1 dl in let s := eff1 1 st in
  0 <= p -> 1 <= d -> 1 <= s -> 0 <= L + 2 * p - d * (k - 1) - 1 ->
  exists r, convnd_view 1 x w bias st pd dl g = Some r /\ vshape r = [N; O; conv_out_extent L k s p d].
Proof.
  intros Hx Hw Hb Wst Wpd Wdl p d s Pp Pd Ps Po.
  destruct (div_pos_exact O g HO Hg HOg) as [Q1 Q2].
  unfold convnd_view.
  (* weight *)
  assert (exists aw, conv_a_weight 1 w dl g = Some aw /\ vshape aw = [g; O / g; Cg; k + (k - 1) * (d - 1)]) as [aw [Ea Sa]].
  { unfold conv_a_weight. rewrite Hw. change (conv_reshape_weight [O; Cg; k] g 1) with [g; O / g; Cg; k].
    destruct (v_reshape_some w [g; O / g; Cg; k]) as [rw [E [S _]]].
    { rewrite Hw. unfold product. cbn [fold_left]. rewrite Q2 at 1. ring. } { posb_true. }
    rewrite E, obind_some. subst d. destruct dl as [|d0|l].
    - eexists. split; [reflexivity|]. rewrite S. cbn [eff1]. leq.
    - eexists. split; [reflexivity|]. unfold v_expand. rewrite vshape_mk, S. reflexivity.
    - destruct l as [|d0 [|]]; try discriminate Wdl. eexists. split; [reflexivity|]. unfold v_expand. rewrite vshape_mk, S. reflexivity. }
  rewrite Ea, obind_some. cbv beta.
  (* input *)
  assert (exists ax, conv_a_input 1 x pd g = Some ax /\ vshape ax = [N; g; 1; Cg; L + 2 * p]) as [ax [Ex Sx]].
  { unfold conv_a_input. rewrite Hx. change (conv_reshape_input [N; g * Cg; L] g 1) with [N; g; 1; g * Cg / g; L].
    rewrite (mul_div_l g Cg Hg).
    destruct (v_reshape_some x [N; g; 1; Cg; L]) as [rx [E [S _]]].
    { rewrite Hx. unfold product. cbn [fold_left]. ring. } { posb_true. }
    rewrite E, obind_some. subst p. destruct pd as [|p0|l].
    - eexists. split; [reflexivity|]. rewrite S. cbn [eff1]. leq.
    - unfold v_pad. rewrite S.
      change (shape_pad [N; g; 1; Cg; L] (conv_pad (zlen [N; g; 1; Cg; L]) (AScalar p0) 1))
        with (Some [N + 0 + 0; g + 0 + 0; 1 + 0 + 0; Cg + 0 + 0; L + p0 + p0]).
      eexists. split; [reflexivity|]. rewrite vshape_mk. cbn [eff1]. leq.
    - destruct l as [|p0 [|]]; try discriminate Wpd. unfold v_pad. rewrite S.
      change (shape_pad [N; g; 1; Cg; L] (conv_pad (zlen [N; g; 1; Cg; L]) (AList [p0]) 1))
        with (Some [N + 0 + 0; g + 0 + 0; 1 + 0 + 0; Cg + 0 + 0; L + p0 + p0]).
      eexists. split; [reflexivity|]. rewrite vshape_mk. cbn [eff1]. change (znth [p0] 0) with p0. leq. }
  rewrite Ex, obind_some. cbv beta.
  set (K := k + (k - 1) * (d - 1)) in *.
  rewrite Sa.
  change (conv_kernel_size [g; O / g; Cg; K] 1) with [K]. change (conv_window_axis 1) with [-1].
  rewrite vshape_sw, Sx.
  change (shape_sliding_window [N; g; 1; Cg; L + 2 * p] [K] [-1]) with [N; g; 1; Cg; L + 2 * p - (K - 1); K].
  set (ol := L + 2 * p - (K - 1)).
  assert (Hol : 1 <= ol) by (unfold ol, K; nia). assert (HK : 1 <= K) by (unfold K; nia).
  replace (posb [N; g; 1; Cg; ol; K]) with true by (symmetry; posb_true). cbn [negb].
  unfold v_binop at 1. rewrite !vshape_sw, Sa, Sx.
  change (shape_sliding_window [N; g; 1; Cg; L + 2 * p] [K] [-1]) with [N; g; 1; Cg; ol; K].
  change (shape_sliding_window [g; O / g; Cg; K] [K] [-1]) with [g; O / g; Cg; K - (K - 1); K].
  assert (B : bshape [N; g; 1; Cg; ol; K] [g; O / g; Cg; K - (K - 1); K] = Some [N; g; O / g; Cg; ol; K]).
  { replace (K - (K - 1)) with 1 by lia. unfold bshape. cbn [rev app bshape_rev].
    rewrite !bc_same, !bc_one_r, bc_one_l. reflexivity. }
  rewrite B, obind_some. cbv beta.
  rewrite vshape_sum, vshape_mk.
  change (axes_mask (zlen [N; g; O / g; Cg; ol; K]) (conv_sum_axes 1)) with [false; false; false; true; false; true].
  cbn [map negb select].
  change (conv_reshape_reduce [N; g; O / g; ol] g 1) with [N; g * (O / g); ol].
  replace (g * (O / g)) with O by lia.
  match goal with |- context [v_reshape ?sv [N; O; ol]] =>
    destruct (v_reshape_some sv [N; O; ol]) as [rs [Er [Sr _]]] end.
  { rewrite vshape_sum, vshape_mk.
    change (axes_mask (zlen [N; g; O / g; Cg; ol; K]) (conv_sum_axes 1)) with [false; false; false; true; false; true].
    cbn [map negb select]. unfold product. cbn [fold_left]. set (q := O / g) in *. rewrite Q2. ring. }
  { posb_true. }
  rewrite Er, obind_some. cbv beta.
  assert (exists ar, match bias with
            | Some b => obind (v_reshape b (conv_reshape_bias (vshape b) 1)) (fun rb => v_binop Z.add rs rb)
            | None => Some rs end = Some ar /\ vshape ar = [N; O; ol]) as [ar [Ear Sar]].
  { destruct bias as [b|]; [|exists rs; split; [reflexivity|exact Sr]].
    rewrite Hb. change (conv_reshape_bias [O] 1) with [O; 1].
    destruct (v_reshape_some b [O; 1]) as [rb [Eb [Sb _]]].
    { rewrite Hb. unfold product. cbn [fold_left]. ring. } { posb_true. }
    rewrite Eb, obind_some. unfold v_binop. rewrite Sr, Sb.
    unfold bshape. cbn [rev app bshape_rev]. rewrite !bc_one_r, bc_same. cbn [option_map rev app].
    eexists. split; reflexivity. }
  rewrite Ear, obind_some. cbv beta.
  assert (F1 : conv_out_extent L k 1 p d = ol).
  { unfold conv_out_extent, ol, K. rewrite Z.div_1_r. ring. }
  assert (G1 : forall s0, 1 <= s0 -> cdiv ol s0 = conv_out_extent L k s0 p d).
  { intros s0 Hs. unfold conv_out_extent. rewrite <- (cdiv_formula _ s0 Hs). f_equal. unfold ol, K. ring. }
  subst s. destruct st as [|s0|l].
  - eexists. split; [reflexivity|]. rewrite Sar. cbn [eff1]. rewrite F1. reflexivity.
  - eexists. split; [reflexivity|]. change (conv_slices (AScalar s0) 1) with [s0].
    rewrite (step_slice_shape3 _ _ _ _ s0 Sar). cbn [eff1] in *. rewrite (G1 s0 Ps). reflexivity.
  - destruct l as [|s0 [|]]; try discriminate Wst.
    eexists. split; [reflexivity|]. change (conv_slices (AList [s0]) 1) with [s0].
    rewrite (step_slice_shape3 _ _ _ _ s0 Sar). cbn [eff1] in *. change (znth [s0] 0) with s0 in *.
    rewrite (G1 s0 Ps). reflexivity.
Qed.
End Conv1dShape.

Lemma spec_list_1 a dflt : spec_list a dflt 1 = [eff1 dflt a].
Proof. destruct a; reflexivity. Qed.
Lemma posb1 a : posb [a] = true -> 1 <= a.
Proof. unfold posb. cbn [forallb]. intros E. apply andb_prop in E as [E _]. lia. Qed.

Theorem conv1d_out_shape ishape idata wshape wdata bias st pd dl g :
  conv_dom 1 ishape wshape bias st pd dl g = true ->
  exists elems, convnd 1 ishape idata wshape wdata bias st pd dl g
                = Some (conv_spec_shape 1 ishape wshape st pd dl, elems).
Proof.
  unfold conv_dom, valid_conv_args. intros D. rewrite !andb_true_iff in D.
  destruct D as [[[[[[[[[[[[[[Hli Hlw] Hpi] Hpw] Hg] HC] HOg] Hb] Hst] Hpd] Hdl] Wst] Wpd] Wdl] Hsp].
  apply Z.eqb_eq in Hli. destruct (zlen_3 _ Hli) as [N [C [L ->]]].
  apply Z.eqb_eq in Hlw. destruct (zlen_3 _ Hlw) as [O [Cg [k ->]]].
  change (znth [N; C; L] 0) with N in *. change (znth [N; C; L] 1) with C in *.
  change (znth [O; Cg; k] 0) with O in *. change (znth [O; Cg; k] 1) with Cg in *.
  apply Z.eqb_eq in HC. subst C.
  apply posb3 in Hpi as [PN [_ PL]]. apply posb3 in Hpw as [PO [PCg Pk]].
  apply Z.leb_le in Hg as Pg. apply Z.eqb_eq in HOg.
  apply (wf_of_zlen 1) in Wst. apply (wf_of_zlen 1) in Wpd. apply (wf_of_zlen 1) in Wdl.
  unfold conv_spec_shape in *. rewrite !spec_list_1 in *.
  apply posb1 in Hst. apply posb1 in Hdl. cbn [forallb] in Hpd. apply andb_prop in Hpd as [Hpd _]. apply Z.leb_le in Hpd.
  change (skipn 2 [N; g * Cg; L]) with [L] in *. change (skipn 2 [O; Cg; k]) with [k] in *. cbn [map5 app] in *.
  change (znth [N; g * Cg; L] 0) with N in *. change (znth [O; Cg; k] 0) with O in *.
  apply posb3 in Hsp as [_ [_ Po]]. apply out_extent_pos in Po; [|assumption].
  unfold convnd.
  destruct (conv1d_shape_core N Cg L O k g PN PCg PL PO Pk Pg HOg
              (v_array [N; g * Cg; L] idata) (v_array [O; Cg; k] wdata)
              (option_map (fun b => v_array [zlen b] b) bias) st pd dl) as [r [Er Sr]];
    try assumption; try reflexivity.
  { destruct bias as [b|]; [|exact I]. cbn [option_map vshape v_array]. apply Z.eqb_eq in Hb. now rewrite Hb. }
  rewrite Er. cbn [option_map]. unfold materialize. rewrite Sr. eexists. reflexivity.
Qed.

(* ======================= pooling windows ======================= *)
Lemma slice_pool2d_app (lead l : list Z) H W kh kw sh sw y x : length l = length lead ->
  slice_pool2d (l ++ [y; x]) (lead ++ [H; W]) [kh; kw] [sh; sw]
  = map (fun i => (znth (l ++ [y; x]) i, znth (l ++ [y; x]) i + 1)) (zrange (zlen lead))
    ++ [(sh * y, sh * y + kh); (sw * x, sw * x + kw)].
Proof.
  intros E. unfold slice_pool2d. rewrite zlen_app. change (zlen [H; W]) with 2.
  replace (zlen lead + 2 - 2) with (zlen lead) by lia.
  rewrite !zat_app_neg by (cbn; lia). reflexivity.
Qed.

Lemma zrange_1 : zrange 1 = [0]. Proof. reflexivity. Qed.

(* a batch axis selects exactly its own index *)
Lemma slice_range_batch n v : 0 <= v < n -> slice_range n (v, v + 1) = [v].
Proof.
  intros B. unfold slice_range. cbn [fst snd]. rewrite !Z.min_l by lia.
  replace (v + 1 - v) with 1 by lia. rewrite zrange_1. cbn [map]. now rewrite Z.add_0_r.
Qed.

(* a spatial axis selects s*y, .., min(s*y + k, n) - 1 *)
Lemma slice_range_window n k s y : 0 <= s * y <= n -> 0 <= k ->
  slice_range n (s * y, s * y + k) = map (Z.add (s * y)) (zrange (Z.min (s * y + k) n - s * y)).
Proof. intros B Hk. unfold slice_range. cbn [fst snd]. rewrite (Z.min_l (s * y) n) by lia. reflexivity. Qed.

Lemma window_complete_floor n k s y : 1 <= s -> 1 <= k <= n -> 0 <= y < pool_extent false n k s ->
  s * y + k <= n /\ Z.min (s * y + k) n - s * y = k.
Proof.
  intros Hs Hk By. pose proof (pool_floor_count n k s Hs Hk) as A. cbv zeta in A. destruct A as [_ [A _]].
  set (o := pool_extent false n k s) in *.
  assert (s * y <= s * (o - 1)) by (apply Z.mul_le_mono_nonneg_l; lia).
  assert (s * y + k <= n) by lia. split; [assumption|]. rewrite Z.min_l by lia. lia.
Qed.

Lemma window_nonempty_ceil n k s y : 1 <= s -> 1 <= k <= n ->
  0 <= y < pool_extent true n k s -> s * y < n /\ 1 <= Z.min (s * y + k) n - s * y <= k.
Proof.
  intros Hs Hk By. pose proof (pool_ceil_cover n k s Hs Hk) as D. cbv zeta in D. destruct D as [_ [D _]].
  set (o := pool_extent true n k s) in *.
  assert (s * y <= s * (o - 1)) by (apply Z.mul_le_mono_nonneg_l; lia).
  assert (s * y < n) by lia. split; [assumption|].
  destruct (Z.min_spec (s * y + k) n) as [[_ E]|[_ E]]; rewrite E; lia.
Qed.

(* ======================= softmax: same expression tree as the definition, per-slice maximum ======================= *)
Lemma upd_upd {A} (l : list A) : forall k a b, upd (upd l k a) k b = upd l k b.
Proof. induction l as [|h t IH]; intros [|k] a b; cbn [upd]; try reflexivity. now rewrite IH. Qed.

Section SoftmaxProofs.
Variables (A : Type) (sub div add mx : A -> A -> A) (ex neg : A -> A) (dflt : A).
Lemma along_upd (x : list Z -> A) shape ax i v : along A x shape ax (upd i ax v) = along A x shape ax i.
Proof. unfold along. apply map_ext. intros k. now rewrite upd_upd. Qed.

Lemma softmax_structure x shape ax i :
  softmax_model A sub div add mx ex dflt x shape ax i = softmax_spec A sub div add mx ex dflt x shape ax i.
Proof.
  unfold softmax_model, softmax_spec, reduce_keep, bcast_keep.
  rewrite !along_upd. f_equal. f_equal. unfold along at 1. apply map_ext. intros k.
  now rewrite upd_upd, along_upd.
Qed.
End SoftmaxProofs.
