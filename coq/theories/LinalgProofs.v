(* LinalgProofs.v — lemmas about Linalg.v (C16), every rank, all positive extents. *)
From NM Require Import Base Index IndexProofs Broadcast BroadcastProofs Linalg.
Local Open Scope Z_scope.

(* ====================================================================== *)
(*  list plumbing                                                          *)
(* ====================================================================== *)

Lemma split_last2_app p : forall x y, split_last2 (p ++ [x; y]) = Some (p, x, y).
Proof.
  induction p as [|h p IH]; intros x y; [reflexivity|].
  change ((h :: p) ++ [x; y]) with (h :: (p ++ [x; y])).
  specialize (IH x y).
  destruct (p ++ [x; y]) as [|u [|v [|w t]]] eqn:E.
  - destruct p; discriminate.
  - destruct p as [|? [|? ?]]; discriminate.
  - cbn in IH. injection IH as <- <- <-. reflexivity.
  - cbn [split_last2] in *. rewrite IH. reflexivity.
Qed.

Lemma split_last1_app p : forall x, split_last1 (p ++ [x]) = Some (p, x).
Proof.
  induction p as [|h p IH]; intros x; [reflexivity|].
  change ((h :: p) ++ [x]) with (h :: (p ++ [x])).
  specialize (IH x).
  destruct (p ++ [x]) as [|u [|v t]] eqn:E.
  - destruct p; discriminate.
  - cbn in IH. injection IH as <- <-. reflexivity.
  - cbn [split_last1] in *. rewrite IH. reflexivity.
Qed.

Lemma exists_last1 (l : list Z) : (1 <= length l)%nat -> exists p x, l = p ++ [x].
Proof.
  intros H. destruct (@exists_last _ l) as [p [x E]]; [destruct l; simpl in H; [lia | discriminate]|].
  eauto.
Qed.

Lemma exists_last2 (l : list Z) : (2 <= length l)%nat -> exists p x y, l = p ++ [x; y].
Proof.
  intros H. destruct (exists_last1 l) as [q [y E]]; [lia|]. subst l.
  rewrite app_length in H. simpl in H.
  destruct (exists_last1 q) as [p [x E]]; [lia|]. subst q.
  exists p, x, y. now rewrite <- app_assoc.
Qed.

Lemma atneg_app1 p x : atneg (p ++ [x]) 1 = x.
Proof. unfold atneg. rewrite app_length. simpl. replace (length p + 1 - 1)%nat with (length p) by lia.
  rewrite app_nth2 by lia. now rewrite Nat.sub_diag. Qed.
Lemma atneg_app2_1 p x y : atneg (p ++ [x; y]) 1 = y.
Proof. unfold atneg. rewrite app_length. simpl. replace (length p + 2 - 1)%nat with (S (length p)) by lia.
  rewrite app_nth2 by lia. now replace (S (length p) - length p)%nat with 1%nat by lia. Qed.
Lemma atneg_app2_2 p x y : atneg (p ++ [x; y]) 2 = x.
Proof. unfold atneg. rewrite app_length. simpl. replace (length p + 2 - 2)%nat with (length p) by lia.
  rewrite app_nth2 by lia. now rewrite Nat.sub_diag. Qed.

Lemma firstn_app_exact {T} (p q : list T) : firstn (length p) (p ++ q) = p.
Proof. rewrite firstn_app, Nat.sub_diag, firstn_all. simpl. now rewrite app_nil_r. Qed.
Lemma skipn_app_exact {T} (p q : list T) : skipn (length p) (p ++ q) = q.
Proof. rewrite skipn_app, Nat.sub_diag, skipn_all. reflexivity. Qed.
