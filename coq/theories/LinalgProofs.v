(* LinalgProofs.v — lemmas about Linalg.v (C16), every rank, all positive extents. *)
From NM Require Import Base Index IndexProofs Broadcast BroadcastProofs Linalg.
Local Open Scope Z_scope.

(* ====================================================================== *)
(*  list plumbing                                                          *)
(* ====================================================================== *)

Lemma split_last2_app p : forall x y, split_last2 (p ++ [x; y]) = Some (p, x, y).
Proof.
  induction p as [|h p IH]; intros x y; [reflexivity|].
  change ((h :: p) ++ [x; y]) with (h :: (p ++ [x; y])).
  specialize (IH x y).
  destruct (p ++ [x; y]) as [|u [|v [|w t]]] eqn:E.
  - destruct p; discriminate.
  - destruct p as [|? [|? ?]]; discriminate.
  - cbn in IH. injection IH as <- <- <-. reflexivity.
  - cbn [split_last2] in *. rewrite IH. reflexivity.
Qed.

Lemma split_last1_app p : forall x, split_last1 (p ++ [x]) = Some (p, x).
Proof.
  induction p as [|h p IH]; intros x; [reflexivity|].
  change ((h :: p) ++ [x]) with (h :: (p ++ [x])).
  specialize (IH x).
  destruct (p ++ [x]) as [|u [|v t]] eqn:E.
  - destruct p; discriminate.
  - cbn in IH. injection IH as <- <-. reflexivity.
  - cbn [split_last1] in *. rewrite IH. reflexivity.
Qed.

Lemma exists_last1 (l : list Z) : (1 <= length l)%nat -> exists p x, l = p ++ [x].
Proof.
  intros H. destruct (@exists_last _ l) as [p [x E]]; [destruct l; simpl in H; [lia | discriminate]|].
  eauto.
Qed.

Lemma exists_last2 (l : list Z) : (2 <= length l)%nat -> exists p x y, l = p ++ [x; y].
Proof.
  intros H. destruct (exists_last1 l) as [q [y E]]; [lia|]. subst l.
  rewrite app_length in H. simpl in H.
  destruct (exists_last1 q) as [p [x E]]; [lia|]. subst q.
  exists p, x, y. now rewrite <- app_assoc.
Qed.

Lemma atneg_app1 p x : atneg (p ++ [x]) 1 = x.
Proof. unfold atneg. rewrite app_length. simpl. replace (length p + 1 - 1)%nat with (length p) by lia.
  rewrite app_nth2 by lia. now rewrite Nat.sub_diag. Qed.
Lemma atneg_app2_1 p x y : atneg (p ++ [x; y]) 1 = y.
Proof. unfold atneg. rewrite app_length. simpl. replace (length p + 2 - 1)%nat with (S (length p)) by lia.
  rewrite app_nth2 by lia. now replace (S (length p) - length p)%nat with 1%nat by lia. Qed.
Lemma atneg_app2_2 p x y : atneg (p ++ [x; y]) 2 = x.
Proof. unfold atneg. rewrite app_length. simpl. replace (length p + 2 - 2)%nat with (length p) by lia.
  rewrite app_nth2 by lia. now rewrite Nat.sub_diag. Qed.

Lemma firstn_app_exact' {T} (p q : list T) n : n = length p -> firstn n (p ++ q) = p.
Proof. intros ->. rewrite firstn_app, Nat.sub_diag, firstn_all. simpl. now rewrite app_nil_r. Qed.
Lemma skipn_app_exact' {T} (p q : list T) n : n = length p -> skipn n (p ++ q) = q.
Proof. intros ->. rewrite skipn_app, Nat.sub_diag, skipn_all. reflexivity. Qed.
Lemma firstn_app_exact {T} (p q : list T) : firstn (length p) (p ++ q) = p.
Proof. rewrite firstn_app, Nat.sub_diag, firstn_all. simpl. now rewrite app_nil_r. Qed.
Lemma skipn_app_exact {T} (p q : list T) : skipn (length p) (p ++ q) = q.
Proof. rewrite skipn_app, Nat.sub_diag, skipn_all. reflexivity. Qed.

(* ====================================================================== *)
(*  shape_matmul = NumPy's rule, every rank >= 1                            *)
(* ====================================================================== *)

Lemma np_axes_length a : forall b r, np_axes a b = Some r -> length r = length a /\ length a = length b.
Proof.
  induction a as [|x a IH]; intros [|y b] r H; simpl in H; try discriminate.
  - injection H as <-. split; reflexivity.
  - destruct ((x =? y) || (x =? 1) || (y =? 1)); [|discriminate].
    destruct (np_axes a b) as [r'|] eqn:E; simpl in H; [|discriminate]. injection H as <-.
    destruct (IH b r' E) as [H1 H2]. simpl. split; congruence.
Qed.

Lemma np_broadcast2_length a b r : np_broadcast2 a b = Some r -> length r = Nat.max (length a) (length b).
Proof.
  unfold np_broadcast2. intros H. apply np_axes_length in H as [H _].
  rewrite H. apply pad_to_length. lia.
Qed.

Lemma np_broadcast2_nil_l b : pos b -> np_broadcast2 [] b = Some b.
Proof. intros Hb. rewrite <- broadcast_shape2_np by (assumption || constructor). apply broadcast_shape2_nil_l. Qed.
Lemma np_broadcast2_nil_r a : pos a -> np_broadcast2 a [] = Some a.
Proof. intros Ha. rewrite <- broadcast_shape2_np by (assumption || constructor). apply broadcast_shape2_nil_r. Qed.

Lemma batch_of_app2 p x y : batch_of (p ++ [x; y]) = p.
Proof.
  unfold batch_of. rewrite app_length. simpl.
  replace (length p + 2 =? 1)%nat with false by (symmetry; apply Nat.eqb_neq; lia).
  replace (length p + 2 - 2)%nat with (length p) by lia. apply firstn_app_exact.
Qed.

Theorem shape_matmul_spec a b : (1 <= length a)%nat -> (1 <= length b)%nat -> pos a -> pos b ->
  shape_matmul a b = np_matmul_shape a b.
Proof.
  intros La Lb Pa Pb.
  destruct (Nat.eq_dec (length a) 1) as [Ea|Ea]; destruct (Nat.eq_dec (length b) 1) as [Eb|Eb].
  - (* 1-d x 1-d *)
    destruct a as [|k [|? ?]]; try discriminate. destruct b as [|k' [|? ?]]; try discriminate.
    unfold shape_matmul, np_matmul_shape. cbn. destruct (k =? k'); reflexivity.
  - (* 1-d x n-d *)
    destruct a as [|k [|? ?]]; try discriminate.
    destruct (exists_last2 b) as [pb [k' [m E]]]; [lia|]. subst b.
    apply pos_app in Pb as [Ppb _].
    unfold shape_matmul, np_matmul_shape.
    rewrite batch_of_app2. change (batch_of [k]) with (@nil Z).
    rewrite broadcast_shape2_nil_l.
    rewrite atneg_app2_2. change (atneg [k] 1) with k.
    rewrite app_length. cbn [length].
    replace (length pb + 2 =? 1)%nat with false by (symmetry; apply Nat.eqb_neq; lia).
    change (1 =? 1)%nat with true. cbn [andb orb].
    replace (2 <=? length pb + 2)%nat with true by (symmetry; apply Nat.leb_le; lia).
    change (2 <=? 1)%nat with false. cbn [andb].
    change (split_last2 [1; k]) with (Some (@nil Z, 1, k)).
    rewrite split_last2_app. rewrite np_broadcast2_nil_l by assumption.
    destruct (k =? k'); [|reflexivity].
    replace (length pb + 2 - 2)%nat with (length pb) by lia.
    replace (length pb + 2 - 1)%nat with (length (pb ++ [k'])) by (rewrite app_length; simpl; lia).
    rewrite firstn_app_exact.
    replace (pb ++ [k'; m]) with ((pb ++ [k']) ++ [m]) by (now rewrite <- app_assoc).
    rewrite skipn_app_exact. reflexivity.
  - (* n-d x 1-d *)
    destruct b as [|k' [|? ?]]; try discriminate.
    destruct (exists_last2 a) as [pa [n [k E]]]; [lia|]. subst a.
    apply pos_app in Pa as [Ppa _].
    unfold shape_matmul, np_matmul_shape.
    rewrite batch_of_app2. change (batch_of [k']) with (@nil Z).
    rewrite broadcast_shape2_nil_r.
    rewrite atneg_app2_1. cbn [nth length].
    rewrite app_length. cbn [length].
    replace (length pa + 2 =? 1)%nat with false by (symmetry; apply Nat.eqb_neq; lia).
    change (1 =? 1)%nat with true.
    replace (2 <=? length pa + 2)%nat with true by (symmetry; apply Nat.leb_le; lia).
    cbn [andb].
    change (split_last2 ([k'] ++ [1])) with (Some (@nil Z, k', 1)).
    rewrite split_last2_app. rewrite np_broadcast2_nil_r by assumption.
    destruct (k =? k'); [|reflexivity].
    replace (length pa + 2 - 1)%nat with (length (pa ++ [n])) by (rewrite app_length; simpl; lia).
    replace (pa ++ [n; k]) with ((pa ++ [n]) ++ [k]) by (now rewrite <- app_assoc).
    rewrite firstn_app_exact. rewrite app_nil_r. reflexivity.
  - (* n-d x n-d *)
    destruct (exists_last2 a) as [pa [n [k E]]]; [lia|]. subst a.
    destruct (exists_last2 b) as [pb [k' [m E]]]; [lia|]. subst b.
    apply pos_app in Pa as [Ppa _]. apply pos_app in Pb as [Ppb _].
    unfold shape_matmul, np_matmul_shape.
    rewrite !batch_of_app2, atneg_app2_1, !atneg_app2_2, atneg_app2_1.
    rewrite !app_length. cbn [length].
    replace (length pa + 2 =? 1)%nat with false by (symmetry; apply Nat.eqb_neq; lia).
    replace (length pb + 2 =? 1)%nat with false by (symmetry; apply Nat.eqb_neq; lia).
    cbn [andb]. rewrite !andb_false_r. rewrite !split_last2_app.
    rewrite broadcast_shape2_np by assumption.
    destruct (np_broadcast2 pa pb) as [bs|] eqn:Ebs; [|destruct (k =? k'); reflexivity].
    destruct (k =? k'); [|reflexivity].
    apply np_broadcast2_length in Ebs.
    replace (Nat.max (length pa + 2) (length pb + 2) - 2)%nat with (length bs) by lia.
    rewrite firstn_all. reflexivity.
Qed.

(* ====================================================================== *)
(*  view::matmul element = the defining sum                                 *)
(* ====================================================================== *)

Lemma np_bto_idx_aligned_nth a : forall l, length l = length a ->
  np_bto_idx_aligned a l = map (fun j => if nth j a 0 =? 1 then 0 else nth j l 0) (seq 0 (length a)).
Proof.
  induction a as [|x a IH]; intros [|k l] Hl; simpl in *; try discriminate; [reflexivity|].
  f_equal. rewrite <- seq_shift, map_map. apply IH. lia.
Qed.

Lemma nth_skipn' {T} d : forall (l : list T) j x, nth j (skipn d l) x = nth (j + d) l x.
Proof.
  induction d as [|d IH]; intros l j x; [now rewrite Nat.add_0_r|].
  destruct l as [|h l]; [destruct j; reflexivity|]. simpl. rewrite IH. now rewrite Nat.add_succ_r.
Qed.

Lemma fill_non_matmul_spec pa n k bi r c : (length pa <= length bi)%nat ->
  fill_non_matmul (pa ++ [n; k]) (bi ++ [r; c]) (length (bi ++ [r; c])) = np_broadcast_to_idx pa bi.
Proof.
  intros Hl. unfold fill_non_matmul, np_broadcast_to_idx.
  rewrite np_bto_idx_aligned_nth by (rewrite skipn_length; lia).
  rewrite !app_length. cbn [length].
  replace (length pa + 2 - 2)%nat with (length pa) by lia.
  apply map_ext_in. intros j Hj. apply in_seq in Hj.
  rewrite app_nth1 by lia.
  replace (length bi + 2 - (length pa + 2))%nat with (length bi - length pa)%nat by lia.
  rewrite app_nth1 by lia.
  rewrite nth_skipn'. reflexivity.
Qed.

Section Laws.
Variable A : Type.
Variable zero : A.
Variables add mul : A -> A -> A.
Hypothesis add_assoc : forall x y z, add (add x y) z = add x (add y z).
Hypothesis add_0_r : forall x, add x zero = x.

Lemma fold_left_sigma t : forall x, fold_left add t x = add x (sigma A zero add t).
Proof.
  induction t as [|y t IH]; intros x; simpl; [now rewrite add_0_r|].
  rewrite IH. apply add_assoc.
Qed.

(* the code's left fold from the first term is the mathematical sum *)
Lemma fold1_sigma l : fold1 A zero add l = sigma A zero add l.
Proof. destruct l as [|x t]; [reflexivity|]. simpl. apply fold_left_sigma. Qed.

Theorem matmul_elem_spec sa sb fa fb s i :
  (2 <= length sa)%nat -> (2 <= length sb)%nat -> pos sa -> pos sb ->
  shape_matmul sa sb = Some s -> inb i s ->
  matmul_elem A zero add mul sa sb fa fb i = np_matmul_elem A zero add mul sa sb fa fb i.
Proof.
  intros La Lb Pa Pb Hs Hi.
  rewrite shape_matmul_spec in Hs by (assumption || lia).
  destruct (exists_last2 sa) as [pa [n [k E]]]; [lia|]. subst sa.
  destruct (exists_last2 sb) as [pb [k' [m E]]]; [lia|]. subst sb.
  unfold np_matmul_shape in Hs. rewrite !app_length in Hs. cbn [length] in Hs.
  replace (length pa + 2 =? 1)%nat with false in Hs by (symmetry; apply Nat.eqb_neq; lia).
  replace (length pb + 2 =? 1)%nat with false in Hs by (symmetry; apply Nat.eqb_neq; lia).
  rewrite !split_last2_app in Hs.
  destruct (k =? k'); [|discriminate].
  destruct (np_broadcast2 pa pb) as [bs|] eqn:Ebs; [|discriminate].
  injection Hs as <-.
  apply np_broadcast2_length in Ebs.
  pose proof (inb_length _ _ Hi) as Hli. rewrite !app_length in Hli. cbn [length] in Hli.
  destruct (exists_last2 i) as [bi [r [c E]]]; [lia|]. subst i.
  rewrite app_length in Hli. cbn [length] in Hli.
  unfold matmul_elem, np_matmul_elem. rewrite !split_last2_app.
  rewrite fold1_sigma. rewrite atneg_app2_1.
  f_equal. apply map_ext. intros kk.
  unfold matmul_lidx, matmul_ridx.
  rewrite !fill_non_matmul_spec by lia.
  rewrite atneg_app2_2, atneg_app2_1. reflexivity.
Qed.

End Laws.

(* ====================================================================== *)
(*  generic facts about the view combinators                                *)
(* ====================================================================== *)

Lemma horner_app a : forall s b t acc, length a = length s ->
  horner acc (a ++ b) (s ++ t) = horner (horner acc a s) b t.
Proof.
  induction a as [|x a IH]; intros [|n s] b t acc Hl; simpl in *; try discriminate; [reflexivity|].
  apply IH. lia.
Qed.

Lemma horner_zeros r : forall acc, horner acc (repeat 0 r) (ones r) = acc.
Proof. induction r as [|r IH]; intros acc; simpl; [reflexivity|]. rewrite IH. lia. Qed.

Lemma inb_zeros r : inb (repeat 0 r) (ones r).
Proof. induction r; simpl; constructor; auto; lia. Qed.

Lemma ones_length r : length (ones r) = r.
Proof. apply repeat_length. Qed.

Lemma pos_ones r : pos (ones r).
Proof. induction r; simpl; constructor; auto; lia. Qed.

Lemma prod_ones r : prod (ones r) = 1.
Proof. unfold ones. induction r; cbn [repeat prod]; lia. Qed.

(* reshape reads the element with the same row-major rank *)
Lemma reshape_idx_spec src dst i j : pos src -> pos dst -> inb i dst -> inb j src ->
  horner 0 i dst = horner 0 j src -> reshape_idx src dst i = j.
Proof.
  intros Ps Pd Hi Hj H. unfold reshape_idx.
  rewrite compute_strides_eq, compute_offset_eq.
  rewrite (horner_off _ _ Hi 0), (horner_off _ _ Hj 0) in H.
  replace (off i (strides dst)) with (off j (strides src)) by lia.
  rewrite <- compute_offset_eq, <- compute_strides_eq. now apply unrav_off.
Qed.

Lemma pos_no_neg1 dst : pos dst -> filter (fun d => d =? -1) dst = [].
Proof.
  induction 1 as [|d dst Hd _ IH]; simpl; [reflexivity|].
  replace (d =? -1) with false by (symmetry; apply Z.eqb_neq; lia). assumption.
Qed.

Lemma reshape_numel_pos dst : dst <> [] -> pos dst -> reshape_numel dst = prod dst.
Proof.
  intros Hne Hp. unfold reshape_numel. destruct dst as [|d0 dst0]; [congruence|].
  set (dst := d0 :: dst0) in *. clearbody dst. clear Hne.
  assert (G : forall acc, fold_left (fun acc d => if d =? -1 then acc else acc * d) dst acc = acc * prod dst).
  { induction Hp as [|d dst Hd _ IH]; intros acc; simpl; [lia|].
    replace (d =? -1) with false by (symmetry; apply Z.eqb_neq; lia). rewrite IH. ring. }
  rewrite G. lia.
Qed.

Lemma shape_reshape_ok src dst : dst <> [] -> pos dst -> pos src -> prod src = prod dst ->
  shape_reshape src dst = Some dst.
Proof.
  intros Hne Pd Ps Hp. unfold shape_reshape.
  rewrite pos_no_neg1 by assumption. cbn [length Nat.ltb Nat.leb Nat.eqb].
  replace (existsb (fun d => negb (d =? -1) && (d <? 1)) dst) with false.
  2:{ symmetry. apply not_true_is_false. intros H. apply existsb_exists in H as [d [Hin Hd]].
      unfold pos in Pd. rewrite Forall_forall in Pd. specialize (Pd d Hin).
      apply andb_prop in Hd as [_ Hd]. lia. }
  rewrite reshape_numel_pos by assumption. rewrite product_eq_prod.
  pose proof (prod_pos _ Pd) as H1.
  replace (prod dst =? 0) with false by (symmetry; apply Z.eqb_neq; lia).
  rewrite Hp, Z.eqb_refl. cbn [negb andb]. rewrite Z_mod_same_full. cbn [Z.eqb negb].
  f_equal. rewrite <- (map_id dst) at 2. apply map_ext_in. intros d Hin.
  unfold pos in Pd. rewrite Forall_forall in Pd. specialize (Pd d Hin).
  replace (d =? -1) with false by (symmetry; apply Z.eqb_neq; lia). reflexivity.
Qed.

(* ---------- broadcasting multiply ---------- *)
Lemma np_axes_bto_ok x : forall y z, pos x -> np_axes x y = Some z -> np_bto_ok x z = true.
Proof.
  induction x as [|a x IH]; intros [|b y] z Hp H; simpl in H; try discriminate.
  - injection H as <-. reflexivity.
  - inversion Hp as [|? ? Ha Hx]; subst.
    destruct ((a =? b) || (a =? 1) || (b =? 1)) eqn:C; [|discriminate].
    destruct (np_axes x y) as [z'|] eqn:E; simpl in H; [|discriminate]. injection H as <-.
    assert (Hc : a = Z.max a b \/ a = 1).
    { apply orb_true_iff in C as [C|C]; [apply orb_true_iff in C as [C|C]|]; apply Z.eqb_eq in C; lia. }
    cbn [np_bto_ok]. rewrite (IH _ _ Hx E). rewrite andb_true_r.
    apply orb_true_iff. destruct Hc as [Hc|Hc]; [left | right]; apply Z.eqb_eq; assumption.
Qed.

Lemma np_broadcast2_bto_ok a b s : pos a -> np_broadcast2 a b = Some s ->
  np_broadcast_to_shape a s = Some s.
Proof.
  intros Pa H. pose proof (np_broadcast2_length _ _ _ H) as Hl.
  unfold np_broadcast2 in H. set (n := Nat.max (length a) (length b)) in *.
  unfold np_broadcast_to_shape.
  replace (length a <=? length s)%nat with true by (symmetry; apply Nat.leb_le; lia).
  cbn [andb]. unfold pad_to in H at 1.
  rewrite <- (firstn_skipn (n - length a) (pad_to n b)) in H.
  rewrite np_axes_app in H.
  2:{ rewrite repeat_length, firstn_length, pad_to_length by lia. lia. }
  destruct (np_axes (repeat 1 (n - length a)) (firstn (n - length a) (pad_to n b))) as [r1|] eqn:E1; [|discriminate].
  destruct (np_axes a (skipn (n - length a) (pad_to n b))) as [r2|] eqn:E2; [|discriminate].
  injection H as <-.
  apply np_axes_length in E1 as [L1 _]. rewrite repeat_length in L1.
  replace (length (r1 ++ r2) - length a)%nat with (length r1).
  2:{ rewrite app_length in Hl |- *. apply np_axes_length in E2 as [L2 _]. lia. }
  rewrite skipn_app_exact. now rewrite (np_axes_bto_ok _ _ _ Pa E2).
Qed.

Lemma broadcast_to_view_spec a s : pos a -> np_broadcast_to_shape a s = Some s ->
  exists f, broadcast_to_view a s = Some (s, f) /\
            forall i, inb i s -> f i = np_broadcast_to_idx a i /\ inb (np_broadcast_to_idx a i) a.
Proof.
  intros Pa H. unfold broadcast_to_view.
  pose proof (shape_broadcast_to_shape a s) as G. rewrite H in G.
  destruct (shape_broadcast_to a s) as [[d free]|] eqn:E; [|discriminate].
  simpl in G. injection G as ->.
  eexists. split; [reflexivity|]. intros i Hi.
  destruct (broadcast_to_elem_spec a s s free i Pa E Hi) as (_ & G1 & G2). split; assumption.
Qed.

Section Views.
Variable A : Type.
Variable zero : A.
Variables add mul : A -> A -> A.
Hypothesis add_assoc : forall x y z, add (add x y) z = add x (add y z).
Hypothesis add_0_r : forall x, add x zero = x.

Notation view := (view A).

Lemma v_mul_spec (a b : view) s : pos (vshape a) -> pos (vshape b) ->
  np_broadcast2 (vshape a) (vshape b) = Some s ->
  exists m, v_mul A mul a b = Some m /\ vshape m = s /\
    forall i, inb i s ->
      vat m i = mul (vat a (np_broadcast_to_idx (vshape a) i)) (vat b (np_broadcast_to_idx (vshape b) i))
      /\ inb (np_broadcast_to_idx (vshape a) i) (vshape a) /\ inb (np_broadcast_to_idx (vshape b) i) (vshape b).
Proof.
  intros Pa Pb H. unfold v_mul. rewrite broadcast_shape2_np by assumption. rewrite H.
  pose proof (np_broadcast2_bto_ok _ _ _ Pa H) as Ha.
  assert (Hc : np_broadcast2 (vshape b) (vshape a) = Some s).
  { rewrite <- broadcast_shape2_np by assumption. rewrite broadcast_shape2_comm.
    now rewrite broadcast_shape2_np by assumption. }
  pose proof (np_broadcast2_bto_ok _ _ _ Pb Hc) as Hb.
  destruct (broadcast_to_view_spec _ _ Pa Ha) as [fa [Ea Fa]].
  destruct (broadcast_to_view_spec _ _ Pb Hb) as [fb [Eb Fb]].
  rewrite Ea, Eb. eexists. split; [reflexivity|]. split; [reflexivity|].
  intros i Hi. cbn [vat]. destruct (Fa i Hi) as [-> Ia]. destruct (Fb i Hi) as [-> Ib]. auto.
Qed.

Lemma lex_enum_1 K : lex_enum [K] = map (fun k => [k]) (zrange K).
Proof.
  cbn [lex_enum].
  induction (zrange K) as [|k l IH]; [reflexivity|]. simpl. now f_equal.
Qed.

(* summing the last axis: element i is the sum over k = 0..K-1 of the elements (i,k) *)
Lemma v_sum_last1_spec (v : view) p K : vshape v = p ++ [K] ->
  vshape (v_sum_last A zero add 1 v) = p /\
  forall i, vat (v_sum_last A zero add 1 v) i = sigma A zero add (map (fun k => vat v (i ++ [k])) (zrange K)).
Proof.
  intros E. unfold v_sum_last. cbn [vshape vat]. rewrite E, app_length. cbn [length].
  replace (length p + 1 - 1)%nat with (length p) by lia.
  rewrite firstn_app_exact, skipn_app_exact. split; [reflexivity|].
  intros i. rewrite (fold1_sigma A zero add add_assoc add_0_r). rewrite lex_enum_1, map_map. reflexivity.
Qed.

End Views.

(* ====================================================================== *)
(*  more index facts                                                        *)
(* ====================================================================== *)

Lemma in_zrange k K : In k (zrange K) -> 0 <= k < K.
Proof. unfold zrange. intros H. apply in_zs in H. lia. Qed.

Lemma np_axes_refl t : np_axes t t = Some t.
Proof.
  induction t as [|x t IH]; simpl; [reflexivity|]. rewrite Z.eqb_refl, IH. simpl. now rewrite Z.max_id.
Qed.

Lemma pad_to_app n a t : (length a <= n)%nat -> pad_to (n + length t) (a ++ t) = pad_to n a ++ t.
Proof.
  intros H. unfold pad_to. rewrite app_length.
  replace (n + length t - (length a + length t))%nat with (n - length a)%nat by lia.
  now rewrite app_assoc.
Qed.

(* a common trailing part survives broadcasting *)
Lemma np_broadcast2_app_common a b t bs : np_broadcast2 a b = Some bs ->
  np_broadcast2 (a ++ t) (b ++ t) = Some (bs ++ t).
Proof.
  unfold np_broadcast2. intros H. rewrite !app_length.
  replace (Nat.max (length a + length t) (length b + length t)) with (Nat.max (length a) (length b) + length t)%nat by lia.
  rewrite !pad_to_app by lia.
  rewrite np_axes_app by (rewrite !pad_to_length; lia).
  rewrite H, np_axes_refl. reflexivity.
Qed.

Lemma np_bto_idx_aligned_app x1 : forall l1 x2 l2, length x1 = length l1 ->
  np_bto_idx_aligned (x1 ++ x2) (l1 ++ l2) = np_bto_idx_aligned x1 l1 ++ np_bto_idx_aligned x2 l2.
Proof.
  induction x1 as [|x x1 IH]; intros [|k l1] x2 l2 Hl; simpl in *; try discriminate; [reflexivity|].
  f_equal. apply IH. lia.
Qed.

Lemma np_bto_idx_aligned_inb x : forall i, inb i x -> np_bto_idx_aligned x i = i.
Proof.
  induction x as [|n x IH]; intros i H; inversion H; subst; simpl; [reflexivity|].
  rewrite IH by assumption. destruct (Z.eqb_spec n 1); [f_equal; lia | reflexivity].
Qed.

(* the trailing coordinate of an operand whose last extent is the common K is passed through *)
Lemma np_broadcast_to_idx_snoc pa K i k : (length pa <= length i)%nat -> 0 <= k < K ->
  np_broadcast_to_idx (pa ++ [K]) (i ++ [k]) = np_broadcast_to_idx pa i ++ [k].
Proof.
  intros Hl Hk. unfold np_broadcast_to_idx. rewrite !app_length. cbn [length].
  replace (length i + 1 - (length pa + 1))%nat with (length i - length pa)%nat by lia.
  rewrite skipn_app. replace (length i - length pa - length i)%nat with 0%nat by lia. cbn [skipn].
  rewrite np_bto_idx_aligned_app by (rewrite skipn_length; lia).
  f_equal. cbn. destruct (Z.eqb_spec K 1); [f_equal; lia | reflexivity].
Qed.

(* an operand that provides the trailing axes of the result exactly reads its own coordinates *)
Lemma np_broadcast_to_idx_suffix a pre i : inb i a ->
  np_broadcast_to_idx a (pre ++ i) = i.
Proof.
  intros H. unfold np_broadcast_to_idx. rewrite app_length. rewrite (inb_length _ _ H).
  replace (length pre + length a - length a)%nat with (length pre) by lia.
  rewrite skipn_app_exact. now apply np_bto_idx_aligned_inb.
Qed.

Lemma removelast_snoc {T} (p : list T) x : removelast (p ++ [x]) = p.
Proof. apply removelast_last. Qed.

Lemma inb_snoc i s k K : inb i s -> 0 <= k < K -> inb (i ++ [k]) (s ++ [K]).
Proof. intros H Hk. apply inb_app; [assumption|]. constructor; [lia | constructor]. Qed.

Lemma split_last1_inv l p x : split_last1 l = Some (p, x) -> l = p ++ [x].
Proof.
  intros H. destruct (exists_last1 l) as [q [y E]]; [destruct l; [discriminate | simpl; lia]|].
  subst l. rewrite split_last1_app in H. now injection H as -> ->.
Qed.
Lemma split_last2_inv l p x y : split_last2 l = Some (p, x, y) -> l = p ++ [x; y].
Proof.
  intros H. destruct (exists_last2 l) as [q [u [v E]]].
  { destruct l as [|? [|? ?]]; try discriminate; simpl; lia. }
  subst l. rewrite split_last2_app in H. now injection H as -> -> ->.
Qed.

Lemma np_bto_idx_aligned_ones r : forall l, length l = r -> np_bto_idx_aligned (ones r) l = repeat 0 r.
Proof. induction r as [|r IH]; intros [|k l] Hl; simpl in *; try discriminate; [reflexivity|]. f_equal. apply IH. lia. Qed.

(* (pa, 1..1) against pb: the ones stretch to pb, pa is kept *)
Lemma np_broadcast2_ones_mid pa pb : pos pa -> pos pb ->
  np_broadcast2 (pa ++ ones (length pb)) pb = Some (pa ++ pb).
Proof.
  intros Pa Pb. unfold np_broadcast2. rewrite app_length, ones_length.
  replace (Nat.max (length pa + length pb) (length pb)) with (length pa + length pb)%nat by lia.
  unfold pad_to. rewrite app_length, ones_length.
  replace (length pa + length pb - (length pa + length pb))%nat with 0%nat by lia.
  replace (length pa + length pb - length pb)%nat with (length pa) by lia. cbn [repeat app].
  rewrite np_axes_app by (now rewrite repeat_length).
  rewrite np_axes_ones_r by assumption. unfold ones. rewrite np_axes_ones_l by assumption. reflexivity.
Qed.

(* ---------- diagonal index: the code's fill loop is "place the two diagonal coordinates, copy the rest" ---------- *)
Lemma diag_fill_place a1 a2 d off : a1 <> a2 -> forall axes rest,
  diag_fill axes a1 a2 rest d off = place_from axes [a1; a2] rest [d + Z.max 0 (- off); d + Z.max 0 off].
Proof.
  intros Hne. induction axes as [|t axes IH]; intros rest; [reflexivity|].
  cbn [diag_fill place_from index_of].
  destruct (Nat.eqb_spec t a2) as [E2|N2].
  - subst t. destruct (Nat.eqb_spec a2 a1) as [E|_]; [congruence|].
    cbn [option_map nth]. rewrite IH. f_equal. destruct (Z.ltb_spec 0 off); lia.
  - destruct (Nat.eqb_spec t a1) as [E1|N1].
    + cbn [nth]. rewrite IH. f_equal. destruct (Z.ltb_spec off 0); lia.
    + cbn [option_map]. destruct rest as [|x rest]; rewrite IH; reflexivity.
Qed.

Lemma remove_axes_free s a1 a2 : remove_axes s a1 a2 = extents_at s (free_axes_of (length s) [a1; a2]).
Proof.
  unfold remove_axes, extents_at, free_axes_of. f_equal. apply filter_ext. intros i.
  cbn [existsb]. now rewrite orb_false_r.
Qed.

Lemma diag_extent_np s off a1 a2 : diag_extent s off a1 a2 = np_diag_len s off a1 a2.
Proof.
  unfold diag_extent, np_diag_len. cbv zeta.
  destruct (Z.ltb_spec off 0); destruct (Z.ltb_spec 0 off); destruct (Z.leb_spec 0 off); try lia;
    match goal with |- (if ?c then _ else _) = _ => destruct c eqn:E end;
    try (apply Z.ltb_lt in E); try (apply Z.ltb_ge in E); lia.
Qed.

Lemma norm_axis_nat n a : (a < n)%nat -> norm_axis n (Z.of_nat a) = Some a.
Proof.
  intros H. unfold norm_axis.
  replace (Z.of_nat a <? - Z.of_nat n) with false by (symmetry; apply Z.ltb_ge; lia).
  replace (Z.of_nat n <=? Z.of_nat a) with false by (symmetry; apply Z.leb_gt; lia).
  replace (Z.of_nat a <? 0) with false by (symmetry; apply Z.ltb_ge; lia).
  cbn [orb]. now rewrite Nat2Z.id.
Qed.
Lemma norm_axis_neg n a : (a < n)%nat -> norm_axis n (Z.of_nat a - Z.of_nat n) = Some a.
Proof.
  intros H. unfold norm_axis.
  replace (Z.of_nat a - Z.of_nat n <? - Z.of_nat n) with false by (symmetry; apply Z.ltb_ge; lia).
  replace (Z.of_nat n <=? Z.of_nat a - Z.of_nat n) with false by (symmetry; apply Z.leb_gt; lia).
  replace (Z.of_nat a - Z.of_nat n <? 0) with true by (symmetry; apply Z.ltb_lt; lia).
  cbn [orb]. f_equal. lia.
Qed.

Lemma nth_map_zrange {T} (g : Z -> T) P p dflt : 0 <= p < P -> nth (Z.to_nat p) (map g (zrange P)) dflt = g p.
Proof.
  intros H. unfold zrange, zs. rewrite map_map.
  rewrite nth_indep with (d' := g (Z.of_nat 0)) by (rewrite map_length, seq_length; lia).
  rewrite (map_nth (fun k => g (Z.of_nat k))). rewrite seq_nth by lia. f_equal. lia.
Qed.

(* the p-th element in C order is the one at the unravelled index *)
Lemma nth_lex_enum s p : pos s -> 0 <= p < prod s -> nth (Z.to_nat p) (lex_enum s) [] = compute_indices p s.
Proof.
  intros Hp H. rewrite <- (ndindex_is_lex_enum s Hp). unfold ndindex_size. rewrite product_eq_prod.
  now rewrite nth_map_zrange.
Qed.

Lemma match_len2 {T} (sb : list Z) (x y : T) : (2 <= length sb)%nat ->
  match sb with | [_] => x | _ => y end = y.
Proof. destruct sb as [|? [|? ?]]; simpl; intros; try lia; reflexivity. Qed.

Lemma np_dot_shape_nd pa K pb K' N :
  np_dot_shape (pa ++ [K]) (pb ++ [K'; N]) = if K =? K' then Some (pa ++ pb ++ [N]) else None.
Proof.
  unfold np_dot_shape. rewrite split_last1_app.
  pose proof (split_last2_app pb K' N) as Hs.
  assert (Hl : (2 <= length (pb ++ [K'; N]))%nat) by (rewrite app_length; simpl; lia).
  destruct (pb ++ [K'; N]) as [|b0 [|b1 t]]; simpl in Hl; try lia.
  rewrite Hs. reflexivity.
Qed.

(* ---------- tile ---------- *)
Lemma tile_shape_rev_ones s : tile_shape_rev s (ones (length s)) = s.
Proof. induction s as [|x s IH]; [reflexivity|]. cbn [length ones repeat tile_shape_rev]. fold (ones (length s)). rewrite IH. f_equal. lia. Qed.

Lemma rev_ones r : rev (ones r) = ones r.
Proof. apply rev_repeat. Qed.

Lemma shape_tile_ones s : shape_tile s (ones (length s)) = s.
Proof. unfold shape_tile. rewrite rev_ones, <- (rev_length s), tile_shape_rev_ones. apply rev_involutive. Qed.

Lemma shape_tile_last pa K N : shape_tile (pa ++ [K]) (ones (length pa) ++ [N]) = pa ++ [K * N].
Proof.
  unfold shape_tile. rewrite !rev_app_distr, rev_ones. cbn [rev app tile_shape_rev].
  rewrite <- (rev_length pa), tile_shape_rev_ones. cbn [rev]. now rewrite rev_involutive.
Qed.

Lemma tile_idx_rev_inb s : forall i, inb i s -> tile_idx_rev s i = i.
Proof.
  induction s as [|n s IH]; intros i H; inversion H; subst; [reflexivity|].
  cbn [tile_idx_rev]. rewrite IH by assumption. f_equal. apply Z.mod_small; lia.
Qed.

Lemma tile_idx_inb s i : inb i s -> tile_idx s i = i.
Proof. intros H. unfold tile_idx. rewrite tile_idx_rev_inb by (now apply inb_rev). apply rev_involutive. Qed.

Lemma tile_idx_last pa K ia q : inb ia pa -> tile_idx (pa ++ [K]) (ia ++ [q]) = ia ++ [q mod K].
Proof.
  intros H. unfold tile_idx. rewrite !rev_app_distr. cbn [rev app tile_idx_rev].
  rewrite tile_idx_rev_inb by (now apply inb_rev). cbn [rev]. now rewrite rev_involutive.
Qed.

(* ---------- transpose with the last two axes exchanged ---------- *)
Lemma upd_app {T} (pre : list T) x r h : upd (pre ++ x :: r) (length pre) h = pre ++ h :: r.
Proof. induction pre as [|y pre IH]; [reflexivity|]. cbn [app length upd]. now rewrite IH. Qed.

Lemma combine_app {T U} (a1 : list T) : forall (b1 : list U) a2 b2, length a1 = length b1 ->
  combine (a1 ++ a2) (b1 ++ b2) = combine a1 b1 ++ combine a2 b2.
Proof.
  induction a1 as [|x a1 IH]; intros [|y b1] a2 b2 H; simpl in *; try discriminate; [reflexivity|].
  f_equal. apply IH. lia.
Qed.

Lemma fold_upd_prefix (l : list Z) : forall pre junk, (length l <= length junk)%nat ->
  fold_left (fun ret p => upd ret (snd p) (fst p)) (combine l (seq (length pre) (length l))) (pre ++ junk)
  = pre ++ l ++ skipn (length l) junk.
Proof.
  induction l as [|h l IH]; intros pre junk Hl; [reflexivity|].
  destruct junk as [|j junk]; [simpl in Hl; lia|].
  cbn [length seq combine fold_left fst snd]. rewrite upd_app.
  replace (pre ++ h :: junk) with ((pre ++ [h]) ++ junk) by (now rewrite <- app_assoc).
  replace (S (length pre)) with (length (pre ++ [h])) by (rewrite app_length; simpl; lia).
  rewrite IH by (simpl in Hl; lia). rewrite <- app_assoc. reflexivity.
Qed.

Lemma scatter_swap l x y : scatter (l ++ [x; y]) (swap_last2 (length l + 2)) = l ++ [y; x].
Proof.
  unfold scatter, swap_last2.
  replace (2 <=? length l + 2)%nat with true by (symmetry; apply Nat.leb_le; lia).
  replace (length l + 2 - 2)%nat with (length l) by lia.
  replace (length l + 2 - 1)%nat with (S (length l)) by lia.
  rewrite combine_app by (now rewrite seq_length). rewrite fold_left_app.
  rewrite app_length. cbn [length].
  pose proof (fold_upd_prefix l [] (repeat 0 (length l + 2))) as G. cbn [app length] in G.
  rewrite G by (rewrite repeat_length; lia). clear G.
  replace (skipn (length l) (repeat 0 (length l + 2))) with [0; 0].
  2:{ rewrite repeat_app, skipn_app, repeat_length, Nat.sub_diag, skipn_all2 by (rewrite repeat_length; lia). reflexivity. }
  cbn [combine fold_left fst snd].
  replace (l ++ [0; 0]) with ((l ++ [0]) ++ [0]) by (now rewrite <- app_assoc).
  replace (S (length l)) with (length (l ++ [0])) by (rewrite app_length; simpl; lia).
  rewrite upd_app. rewrite <- app_assoc. cbn [app]. rewrite upd_app. reflexivity.
Qed.

Lemma map_nth_seq (l r : list Z) : map (fun i => nth i (l ++ r) 0) (seq 0 (length l)) = l.
Proof.
  revert r. induction l as [|x l IH]; intros r; [reflexivity|].
  cbn [length seq map app nth]. f_equal. rewrite <- seq_shift, map_map. apply IH.
Qed.

Lemma shape_transpose_swap p x y : shape_transpose (p ++ [x; y]) (swap_last2 (length p + 2)) = p ++ [y; x].
Proof.
  unfold shape_transpose, swap_last2.
  replace (2 <=? length p + 2)%nat with true by (symmetry; apply Nat.leb_le; lia).
  replace (length p + 2 - 2)%nat with (length p) by lia.
  replace (length p + 2 - 1)%nat with (S (length p)) by lia.
  rewrite map_app, map_nth_seq. f_equal. cbn [map].
  rewrite !app_nth2 by lia. replace (S (length p) - length p)%nat with 1%nat by lia. rewrite Nat.sub_diag. reflexivity.
Qed.

(* trailing parts that are compatible axis by axis extend a broadcast *)
Lemma np_broadcast2_app_pair a b t u bs w : length t = length u ->
  np_broadcast2 a b = Some bs -> np_axes t u = Some w ->
  np_broadcast2 (a ++ t) (b ++ u) = Some (bs ++ w).
Proof.
  unfold np_broadcast2. intros Hl H Hw. rewrite !app_length.
  replace (Nat.max (length a + length t) (length b + length u)) with (Nat.max (length a) (length b) + length t)%nat by lia.
  rewrite (pad_to_app _ a t) by lia. rewrite Hl at 1. rewrite (pad_to_app _ b u) by lia.
  rewrite np_axes_app by (rewrite !pad_to_length; lia).
  rewrite H, Hw. reflexivity.
Qed.

Lemma np_broadcast_to_idx_snoc_one pb i x : (length pb <= length i)%nat ->
  np_broadcast_to_idx (pb ++ [1]) (i ++ [x]) = np_broadcast_to_idx pb i ++ [0].
Proof.
  intros Hl. unfold np_broadcast_to_idx. rewrite !app_length. cbn [length].
  replace (length i + 1 - (length pb + 1))%nat with (length i - length pb)%nat by lia.
  rewrite skipn_app. replace (length i - length pb - length i)%nat with 0%nat by lia. cbn [skipn].
  rewrite np_bto_idx_aligned_app by (rewrite skipn_length; lia). reflexivity.
Qed.

Lemma np_broadcast2_inb a b s i : pos a -> np_broadcast2 a b = Some s -> inb i s ->
  inb (np_broadcast_to_idx a i) a.
Proof.
  intros Pa H Hi. pose proof (np_broadcast2_bto_ok _ _ _ Pa H) as Hok.
  destruct (broadcast_to_view_spec _ _ Pa Hok) as [f [_ F]]. now destruct (F i Hi).
Qed.

Lemma np_broadcast2_comm a b : pos a -> pos b -> np_broadcast2 a b = np_broadcast2 b a.
Proof. intros Pa Pb. rewrite <- !broadcast_shape2_np by assumption. apply broadcast_shape2_comm. Qed.

Section Routines.
Variable A : Type.
Variable zero : A.
Variables add mul : A -> A -> A.
Hypothesis add_assoc : forall x y z, add (add x y) z = add x (add y z).
Hypothesis add_0_r : forall x, add x zero = x.

Notation view := (view A).

(* two views agree: same shape and equal elements at every in-bounds index *)
Definition agrees (m v : view) : Prop :=
  vshape m = vshape v /\ forall i, inb i (vshape v) -> vat m i = vat v i.

(* ---------- vecdot ---------- *)
Theorem vecdot_spec sa sb fa fb v : pos sa -> pos sb ->
  np_vecdot A zero add mul sa sb fa fb = Some v ->
  exists m, vecdot A zero add mul sa sb fa fb = Ok m /\ agrees m v.
Proof.
  intros Pa Pb H. unfold np_vecdot in H.
  destruct (np_vecdot_shape sa sb) as [s|] eqn:Es; [|discriminate]. injection H as <-.
  unfold np_vecdot_shape in Es.
  destruct (split_last1 sa) as [[pa K]|] eqn:Ea; [|discriminate].
  destruct (split_last1 sb) as [[pb K']|] eqn:Eb; [|discriminate].
  assert (sa = pa ++ [K]) as ->.
  { destruct (exists_last1 sa) as [p [x E]]; [destruct sa; [discriminate | simpl; lia]|].
    subst sa. rewrite split_last1_app in Ea. now injection Ea as -> ->. }
  assert (sb = pb ++ [K']) as ->.
  { destruct (exists_last1 sb) as [p [x E]]; [destruct sb; [discriminate | simpl; lia]|].
    subst sb. rewrite split_last1_app in Eb. now injection Eb as -> ->. }
  destruct (Z.eqb_spec K K') as [<-|]; [|discriminate].
  pose proof (np_broadcast2_length _ _ _ Es) as Hls.
  pose proof (np_broadcast2_app_common _ _ [K] _ Es) as Hb.
  unfold vecdot.
  destruct (v_mul_spec A mul (View (pa ++ [K]) fa) (View (pb ++ [K]) fb) _ Pa Pb Hb) as [m [Em [Sm Fm]]].
  rewrite Em. cbn [lift rbind].
  eexists. split; [reflexivity|].
  destruct (v_sum_last1_spec A zero add add_assoc add_0_r m s K Sm) as [S1 F1].
  split; [exact S1|]. cbn [vshape vat]. intros i Hi. rewrite F1.
  rewrite atneg_app1. f_equal. apply map_ext_in. intros k Hk. apply in_zrange in Hk.
  destruct (Fm (i ++ [k]) (inb_snoc _ _ _ _ Hi Hk)) as [-> _]. cbn [vshape vat].
  pose proof (inb_length _ _ Hi) as Hli.
  rewrite !np_broadcast_to_idx_snoc by lia. rewrite !removelast_snoc. reflexivity.
Qed.

(* ---------- inner ---------- *)
Theorem inner_spec sa sb fa fb v : pos sa -> pos sb ->
  np_inner A zero add mul sa sb fa fb = Some v ->
  exists m, inner A zero add mul sa sb fa fb = Ok m /\ agrees m v.
Proof.
  intros Pa Pb H. unfold np_inner in H.
  destruct (np_inner_shape sa sb) as [s|] eqn:Es; [|discriminate]. injection H as <-.
  unfold np_inner_shape in Es.
  destruct (split_last1 sa) as [[pa K]|] eqn:Ea; [|discriminate].
  destruct (split_last1 sb) as [[pb K']|] eqn:Eb; [|discriminate].
  apply split_last1_inv in Ea, Eb. subst sa sb.
  destruct (Z.eqb_spec K K') as [<-|]; [|discriminate]. injection Es as <-.
  apply pos_app in Pa as [Ppa PK]. apply pos_app in Pb as [Ppb _].
  unfold inner.
  assert (Edst : inner_lhs_reshape (pa ++ [K]) (pb ++ [K]) = pa ++ ones (length pb) ++ [K]).
  { unfold inner_lhs_reshape. rewrite !app_length. cbn [length]. rewrite atneg_app1.
    replace (length pa + 1 - 1)%nat with (length pa) by lia. rewrite firstn_app_exact.
    do 2 f_equal. f_equal. lia. }
  rewrite Edst. set (dst := pa ++ ones (length pb) ++ [K]).
  assert (Pdst : pos dst) by (unfold dst; apply pos_app; split; [assumption | apply pos_app; split; [apply pos_ones | assumption]]).
  unfold v_reshape. cbn [vshape].
  rewrite shape_reshape_ok.
  2:{ unfold dst. destruct pa; discriminate || (destruct (length pb); discriminate). }
  2: exact Pdst.
  2: apply pos_app; split; assumption.
  2:{ unfold dst. rewrite !prod_app, prod_ones. ring. }
  cbn [lift rbind].
  assert (Hb : np_broadcast2 dst (pb ++ [K]) = Some ((pa ++ pb) ++ [K])).
  { unfold dst. rewrite app_assoc. apply np_broadcast2_app_common. now apply np_broadcast2_ones_mid. }
  destruct (v_mul_spec A mul (View dst (fun i => fa (reshape_idx (pa ++ [K]) dst i))) (View (pb ++ [K]) fb) _ Pdst
              (proj2 (pos_app _ _) (conj Ppb PK)) Hb) as [m [Em [Sm Fm]]].
  cbn [vshape vat]. rewrite Em. cbn [lift rbind]. eexists. split; [reflexivity|].
  destruct (v_sum_last1_spec A zero add add_assoc add_0_r m (pa ++ pb) K Sm) as [S1 F1].
  split; [exact S1|]. cbn [vshape vat]. intros i Hi. rewrite F1.
  rewrite atneg_app1. f_equal. apply map_ext_in. intros k Hk. apply in_zrange in Hk.
  destruct (Fm (i ++ [k]) (inb_snoc _ _ _ _ Hi Hk)) as [-> _]. cbn [vshape vat].
  rewrite app_length. cbn [length]. replace (length pa + 1 - 1)%nat with (length pa) by lia.
  destruct (inb_app_inv _ _ _ Hi) as [Hia Hib].
  set (ia := firstn (length pa) i) in *. set (ib := skipn (length pa) i) in *.
  assert (Ei : i = ia ++ ib) by (symmetry; apply firstn_skipn).
  f_equal.
  - f_equal.
    assert (Eb' : np_broadcast_to_idx dst (i ++ [k]) = ia ++ repeat 0 (length pb) ++ [k]).
    { unfold np_broadcast_to_idx.
      replace (length (i ++ [k]) - length dst)%nat with 0%nat.
      2:{ unfold dst. rewrite (inb_length _ _ (inb_snoc _ _ _ _ Hi Hk)). rewrite !app_length, ones_length. cbn [length]. lia. }
      cbn [skipn]. unfold dst. rewrite Ei, <- app_assoc.
      rewrite np_bto_idx_aligned_app by (symmetry; now apply inb_length).
      rewrite np_bto_idx_aligned_app by (rewrite ones_length; symmetry; now apply inb_length).
      rewrite (np_bto_idx_aligned_inb _ _ Hia), np_bto_idx_aligned_ones by (now apply inb_length).
      cbn. destruct (Z.eqb_spec K 1); [do 3 f_equal; lia | reflexivity]. }
    rewrite Eb'. apply reshape_idx_spec.
    + apply pos_app; split; assumption.
    + exact Pdst.
    + unfold dst. apply inb_app; [assumption|]. apply inb_app; [apply inb_zeros | constructor; [lia | constructor]].
    + apply inb_snoc; assumption.
    + unfold dst. rewrite horner_app by (now apply inb_length).
      rewrite horner_app by (now rewrite ones_length, repeat_length).
      rewrite horner_zeros. rewrite horner_app by (now apply inb_length). reflexivity.
  - f_equal. rewrite Ei at 1. rewrite <- app_assoc. apply np_broadcast_to_idx_suffix.
    apply inb_snoc; assumption.
Qed.

(* ---------- diagonal / trace, any offset ---------- *)
Theorem diagonal_spec s f off ax1 ax2 a1 a2 v :
  norm_axis (length s) ax1 = Some a1 -> norm_axis (length s) ax2 = Some a2 ->
  np_diagonal A s f off a1 a2 = Some v ->
  exists m, diagonal A s f off ax1 ax2 = Ok m /\ agrees m v.
Proof.
  intros N1 N2 H. unfold np_diagonal in H.
  destruct (np_diagonal_shape s off a1 a2) as [d|] eqn:Ed; [|discriminate]. injection H as <-.
  unfold np_diagonal_shape in Ed.
  destruct ((a1 <? length s)%nat && (a2 <? length s)%nat && negb (a1 =? a2)%nat) eqn:C; [|discriminate].
  injection Ed as <-.
  apply andb_prop in C as [C C3]. apply andb_prop in C as [C1 C2].
  apply Nat.ltb_lt in C1, C2. apply negb_true_iff, Nat.eqb_neq in C3.
  unfold diagonal. rewrite N1, N2.
  replace (length s <? 2)%nat with false by (symmetry; apply Nat.ltb_ge; lia).
  replace (a1 =? a2)%nat with false by (symmetry; now apply Nat.eqb_neq).
  cbn [orb]. eexists. split; [reflexivity|]. split; cbn [vshape vat].
  - unfold shape_diagonal. rewrite remove_axes_free, diag_extent_np. reflexivity.
  - intros i _. unfold diagonal_idx, np_diagonal_idx, place. now rewrite diag_fill_place.
Qed.

Theorem trace_spec s f off ax1 ax2 a1 a2 v :
  norm_axis (length s) ax1 = Some a1 -> norm_axis (length s) ax2 = Some a2 ->
  1 <= np_diag_len s off a1 a2 ->
  np_trace A zero add s f off a1 a2 = Some v ->
  exists m, trace A zero add s f off ax1 ax2 = Ok m /\ agrees m v.
Proof.
  intros N1 N2 He H. unfold np_trace in H.
  destruct (np_diagonal_shape s off a1 a2) as [d|] eqn:Ed; [|discriminate]. injection H as <-.
  destruct (diagonal_spec s f off ax1 ax2 a1 a2 _ N1 N2 ltac:(unfold np_diagonal; rewrite Ed; reflexivity))
    as [m [Em [Sm Fm]]].
  unfold trace. rewrite Em. cbn [rbind]. cbn [vshape vat] in Sm, Fm.
  unfold np_diagonal_shape in Ed.
  destruct ((a1 <? length s)%nat && (a2 <? length s)%nat && negb (a1 =? a2)%nat) eqn:C; [|discriminate].
  injection Ed as <-. rewrite Sm, atneg_app1.
  replace (np_diag_len s off a1 a2 <=? 0) with false by (symmetry; apply Z.leb_gt; lia).
  eexists. split; [reflexivity|].
  destruct (v_sum_last1_spec A zero add add_assoc add_0_r m _ _ Sm) as [S1 F1].
  split; cbn [vshape vat].
  - rewrite S1. now rewrite removelast_snoc.
  - intros i _. rewrite F1. f_equal. apply map_ext_in. intros k Hk.
    unfold diagonal in Em. rewrite N1, N2 in Em.
    destruct ((length s <? 2)%nat || (a1 =? a2)%nat); [discriminate|].
    injection Em as <-. cbn [vat].
    apply andb_prop in C as [_ C3]. apply negb_true_iff, Nat.eqb_neq in C3.
    unfold diagonal_idx, np_diagonal_idx, place. rewrite removelast_snoc, last_last.
    now rewrite diag_fill_place.
Qed.

(* ---------- outer ---------- *)
Lemma flatten_spec s (f : list Z -> A) : pos s ->
  exists l, v_flatten A (View s f) = Some l /\ vshape l = [prod s] /\
    forall p, 0 <= p < prod s -> vat l [p] = flat_at A s f p.
Proof.
  intros Hp. unfold v_flatten, v_reshape. cbn [vshape vat]. rewrite product_eq_prod.
  pose proof (prod_pos _ Hp) as HP.
  rewrite shape_reshape_ok; [| discriminate | repeat constructor; lia | assumption | cbn [prod]; lia].
  eexists. split; [reflexivity|]. split; [reflexivity|]. intros p Hr. cbn [vat]. unfold flat_at.
  rewrite nth_lex_enum by assumption. f_equal. unfold reshape_idx. f_equal.
  rewrite compute_strides_eq, compute_offset_eq. cbn [off strides prod]. lia.
Qed.

Theorem outer_spec sa sb fa fb : pos sa -> pos sb ->
  exists m, outer A mul sa sb fa fb = Ok m /\ agrees m (np_outer A mul sa sb fa fb).
Proof.
  intros Pa Pb. unfold outer.
  destruct (flatten_spec sa fa Pa) as [l [El [Sl Fl]]]. destruct (flatten_spec sb fb Pb) as [r [Er [Sr Fr]]].
  rewrite El, Er. cbn [lift rbind].
  pose proof (prod_pos _ Pa) as HP. pose proof (prod_pos _ Pb) as HQ.
  set (P := prod sa) in *. set (Q := prod sb) in *.
  assert (E2 : shape_reshape [P] [-1; 1] = Some [P; 1]).
  { unfold shape_reshape, reshape_numel, product. cbn.
    rewrite Z.mod_1_r. cbn. rewrite Z.div_1_r. destruct P; reflexivity. }
  unfold v_reshape. rewrite Sl, E2. cbn [lift rbind].
  assert (Hb : np_broadcast2 [P; 1] [Q] = Some [P; Q]).
  { unfold np_broadcast2, pad_to. cbn. rewrite !orb_true_r. cbn.
    rewrite Z.max_l by lia. replace (Z.max 1 Q) with Q by lia. reflexivity. }
  destruct (v_mul_spec A mul (View [P; 1] (fun i => vat l (reshape_idx [P] [P; 1] i))) r [P; Q]) as [m [Em [Sm Fm]]].
  { repeat constructor; lia. } { rewrite Sr. repeat constructor; lia. } { rewrite Sr. exact Hb. }
  rewrite Em. cbn [lift]. eexists. split; [reflexivity|]. split; [exact Sm|].
  cbn [np_outer vshape vat np_outer_shape]. fold P Q. intros i Hi.
  inversion Hi as [|p ? i1 ? Hp Hi1]; subst. inversion Hi1 as [|q ? i2 ? Hq Hi2]; subst. inversion Hi2; subst.
  destruct (Fm [p; q] Hi) as [-> _]. cbn [vshape vat nth]. rewrite Sr.
  assert (B1 : np_broadcast_to_idx [P; 1] [p; q] = [p; 0]).
  { unfold np_broadcast_to_idx. cbn. destruct (Z.eqb_spec P 1); [f_equal; lia | reflexivity]. }
  assert (B2 : np_broadcast_to_idx [Q] [p; q] = [q]).
  { unfold np_broadcast_to_idx. cbn. destruct (Z.eqb_spec Q 1); [f_equal; lia | reflexivity]. }
  rewrite B1, B2.
  rewrite (reshape_idx_spec [P] [P; 1] [p; 0] [p]); try (repeat constructor; lia); [|cbn; lia].
  rewrite Fl, Fr by lia. reflexivity.
Qed.

(* ---------- dot ---------- *)
Lemma reshape_same s i : pos s -> inb i s -> reshape_idx s s i = i.
Proof. intros Hp Hi. now apply reshape_idx_spec. Qed.

(* second operand 1-d: sum over the last axis of a *)
Lemma dot_spec_1d pa K fa fb v : pos (pa ++ [K]) ->
  np_dot A zero add mul (pa ++ [K]) [K] fa fb = Some v ->
  exists m, dot A zero add mul (pa ++ [K]) [K] fa fb = Ok m /\ agrees m v.
Proof.
  intros Pa H. pose proof Pa as Pa'. apply pos_app in Pa' as [Ppa PK].
  unfold np_dot, np_dot_shape in H. rewrite split_last1_app, Z.eqb_refl in H. injection H as <-.
  unfold dot, dot_lhs_tile, dot_lhs_reshape. cbn [length Nat.ltb Nat.leb].
  rewrite !app_length. cbn [length].
  replace (Nat.max (length pa + 1 + 1 - 2) (length pa + 1) - (length pa + 1 - 1) - 1)%nat with 0%nat by lia.
  replace (length pa + 1 - 1)%nat with (length pa) by lia. rewrite firstn_app_exact.
  cbn [ones repeat app]. change (atneg [K] 1) with K.
  replace (ones (length pa + 1)) with (ones (length (pa ++ [K]))) by (now rewrite app_length).
  unfold v_tile, v_reshape. cbn [vshape vat]. rewrite shape_tile_ones.
  rewrite shape_reshape_ok; [| destruct pa; discriminate | assumption | assumption | reflexivity].
  cbn [lift rbind]. unfold v_transpose. cbn [vshape vat].
  change (swap_last2 1) with [0%nat]. change (shape_transpose [K] [0%nat]) with [K].
  assert (Hb : np_broadcast2 (pa ++ [K]) ([] ++ [K]) = Some (pa ++ [K])).
  { apply np_broadcast2_app_common. now apply np_broadcast2_nil_r. }
  cbn [app] in Hb.
  destruct (v_mul_spec A mul (View (pa ++ [K]) (fun i => fa (tile_idx (pa ++ [K]) (reshape_idx (pa ++ [K]) (pa ++ [K]) i))))
              (View [K] (fun i => fb (scatter i [0%nat]))) _ Pa PK Hb) as [m [Em [Sm Fm]]].
  rewrite Em. cbn [lift rbind]. eexists. split; [reflexivity|].
  destruct (v_sum_last1_spec A zero add add_assoc add_0_r m pa K Sm) as [S1 F1].
  split; [exact S1|]. cbn [vshape vat]. intros i Hi. rewrite F1.
  rewrite atneg_app1. f_equal. apply map_ext_in. intros k Hk. apply in_zrange in Hk.
  pose proof (inb_snoc _ _ _ _ Hi Hk) as Hik.
  destruct (Fm (i ++ [k]) Hik) as [-> _]. cbn [vshape vat].
  pose proof (np_broadcast_to_idx_suffix (pa ++ [K]) [] (i ++ [k]) Hik) as G. cbn [app] in G. rewrite G. clear G.
  rewrite (np_broadcast_to_idx_suffix [K] i [k]) by (constructor; [lia | constructor]).
  rewrite reshape_same, tile_idx_inb by assumption.
  rewrite <- (inb_length _ _ Hi), firstn_all. reflexivity.
Qed.

(* second operand at least 2-d: last axis of a with the second to last axis of b *)
Lemma dot_spec_nd pa pb K N fa fb v : pos (pa ++ [K]) -> pos (pb ++ [K; N]) ->
  np_dot A zero add mul (pa ++ [K]) (pb ++ [K; N]) fa fb = Some v ->
  exists m, dot A zero add mul (pa ++ [K]) (pb ++ [K; N]) fa fb = Ok m /\ agrees m v.
Proof.
  intros Pa Pb H. pose proof Pa as Pa'. apply pos_app in Pa' as [Ppa PK].
  pose proof Pb as Pb'. apply pos_app in Pb' as [Ppb PKN].
  assert (HK : 1 <= K) by (inversion PK; lia).
  assert (HN : 1 <= N) by (inversion PKN as [|? ? ? P2]; inversion P2; lia).
  assert (Lsb : length (pb ++ [K; N]) = (length pb + 2)%nat) by (rewrite app_length; reflexivity).
  unfold np_dot in H. rewrite np_dot_shape_nd, Z.eqb_refl in H. injection H as <-.
  unfold dot, dot_lhs_tile, dot_lhs_reshape.
  rewrite Lsb. rewrite !app_length. cbn [length].
  replace (1 <? length pb + 2)%nat with true by (symmetry; apply Nat.ltb_lt; lia).
  replace (length pa + 1 - 1)%nat with (length pa) by lia. rewrite firstn_app_exact.
  replace (Nat.max (length pa + 1 + (length pb + 2) - 2) (length pa + 1) + 1 - length pa - 2)%nat with (length pb) by lia.
  rewrite atneg_app2_1, atneg_app2_2.
  set (dst := pa ++ ones (length pb) ++ [N; K]).
  assert (Pdst : pos dst).
  { unfold dst. apply pos_app; split; [assumption|]. apply pos_app; split; [apply pos_ones|]. repeat constructor; lia. }
  unfold v_tile, v_reshape. cbn [vshape vat]. rewrite shape_tile_last.
  assert (Ptile : pos (pa ++ [K * N])) by (apply pos_app; split; [assumption | repeat constructor; nia]).
  rewrite shape_reshape_ok; [| unfold dst; destruct pa; [destruct (length pb)|]; discriminate | exact Pdst | exact Ptile |].
  2:{ unfold dst. rewrite !prod_app, prod_ones. cbn [prod]. ring. }
  cbn [lift rbind]. unfold v_transpose. cbn [vshape vat].
  rewrite shape_transpose_swap.
  assert (Hb : np_broadcast2 dst (pb ++ [N; K]) = Some ((pa ++ pb) ++ [N; K])).
  { unfold dst. rewrite app_assoc. apply np_broadcast2_app_common. now apply np_broadcast2_ones_mid. }
  assert (Ptr : pos (pb ++ [N; K])) by (apply pos_app; split; [assumption | repeat constructor; lia]).
  destruct (v_mul_spec A mul
              (View dst (fun i => fa (tile_idx (pa ++ [K]) (reshape_idx (pa ++ [K * N]) dst i))))
              (View (pb ++ [N; K]) (fun i => fb (scatter i (swap_last2 (length pb + 2))))) _ Pdst Ptr Hb) as [m [Em [Sm Fm]]].
  rewrite Em. cbn [lift rbind]. eexists. split; [reflexivity|].
  assert (Sm' : vshape m = (pa ++ pb ++ [N]) ++ [K]) by (rewrite Sm; now rewrite <- !app_assoc).
  destruct (v_sum_last1_spec A zero add add_assoc add_0_r m _ K Sm') as [S1 F1].
  split; [exact S1|]. cbn [vshape vat]. intros i Hi. rewrite F1.
  rewrite atneg_app1. f_equal. apply map_ext_in. intros k Hk. apply in_zrange in Hk.
  (* decompose the result index i = ia ++ ib ++ [n] *)
  destruct (inb_app_inv _ _ _ Hi) as [Hia Hr].
  set (ia := firstn (length pa) i) in *. set (r := skipn (length pa) i) in *.
  destruct (inb_app_inv _ _ _ Hr) as [Hib Hn].
  set (ib := firstn (length pb) r) in *.
  assert (Er : r = ib ++ skipn (length pb) r) by (symmetry; apply firstn_skipn).
  inversion Hn as [|n ? t ? Hnb Ht Et]; subst. inversion Ht; subst. rewrite <- Et in Er.
  assert (Ei : i = ia ++ ib ++ [n]) by (rewrite <- Er; symmetry; apply firstn_skipn).
  assert (Hfull : inb ((ia ++ ib ++ [n]) ++ [k]) ((pa ++ pb) ++ [N; K])).
  { rewrite <- !app_assoc. apply inb_app; [assumption|]. apply inb_app; [assumption|]. repeat constructor; lia. }
  rewrite Ei. destruct (Fm _ Hfull) as [-> _]. cbn [vshape vat].
  rewrite match_len2 by lia.
  f_equal.
  - (* first operand *)
    f_equal.
    assert (Eb' : np_broadcast_to_idx dst ((ia ++ ib ++ [n]) ++ [k]) = ia ++ repeat 0 (length pb) ++ [n; k]).
    { unfold np_broadcast_to_idx.
      replace (length ((ia ++ ib ++ [n]) ++ [k]) - length dst)%nat with 0%nat.
      2:{ rewrite (inb_length _ _ Hfull). unfold dst. rewrite !app_length, ones_length. cbn [length]. lia. }
      cbn [skipn]. unfold dst. rewrite <- !app_assoc. cbn [app].
      rewrite np_bto_idx_aligned_app by (symmetry; now apply inb_length).
      rewrite np_bto_idx_aligned_app by (rewrite ones_length; symmetry; now apply inb_length).
      rewrite (np_bto_idx_aligned_inb _ _ Hia), np_bto_idx_aligned_ones by (now apply inb_length).
      rewrite np_bto_idx_aligned_inb by (repeat constructor; lia). reflexivity. }
    rewrite Eb'.
    rewrite (reshape_idx_spec (pa ++ [K * N]) dst _ (ia ++ [n * K + k])).
    + rewrite tile_idx_last by assumption. do 2 f_equal.
      rewrite Z.add_comm, Z.mod_add by lia. apply Z.mod_small; lia.
    + exact Ptile.
    + exact Pdst.
    + unfold dst. apply inb_app; [assumption|]. apply inb_app; [apply inb_zeros | repeat constructor; lia].
    + apply inb_snoc; [assumption | nia].
    + unfold dst. rewrite horner_app by (now apply inb_length).
      rewrite horner_app by (now rewrite ones_length, repeat_length).
      rewrite horner_zeros. rewrite horner_app by (now apply inb_length). cbn [horner]. ring.
  - (* second operand *)
    f_equal.
    replace ((ia ++ ib ++ [n]) ++ [k]) with (ia ++ (ib ++ [n; k])) by (now rewrite <- !app_assoc).
    rewrite np_broadcast_to_idx_suffix by (apply inb_app; [assumption | repeat constructor; lia]).
    rewrite <- (inb_length _ _ Hib) at 1. rewrite scatter_swap.
    rewrite Er.
    rewrite app_length. cbn [length]. replace (length ib + 1 - 1)%nat with (length ib) by lia.
    rewrite firstn_app_exact, skipn_app_exact. reflexivity.
Qed.

Theorem dot_spec sa sb fa fb v : pos sa -> pos sb ->
  np_dot A zero add mul sa sb fa fb = Some v ->
  exists m, dot A zero add mul sa sb fa fb = Ok m /\ agrees m v.
Proof.
  intros Pa Pb H. pose proof H as H0. unfold np_dot in H0.
  destruct (np_dot_shape sa sb) as [s|] eqn:Es; [|discriminate]. clear H0.
  unfold np_dot_shape in Es.
  destruct (split_last1 sa) as [[pa K]|] eqn:Ea; [|discriminate].
  apply split_last1_inv in Ea. subst sa.
  destruct sb as [|k' [|b1 sb']]; [discriminate| |].
  - destruct (Z.eqb_spec K k') as [<-|]; [|discriminate]. now apply dot_spec_1d.
  - destruct (split_last2 (k' :: b1 :: sb')) as [[[pb K'] N]|] eqn:Eb; [|discriminate].
    apply split_last2_inv in Eb. rewrite Eb in *.
    destruct (Z.eqb_spec K K') as [<-|]; [|discriminate]. now apply dot_spec_nd.
Qed.

(* ---------- matmulv2 (tile / reshape / transpose / reshape / multiply / sum), operands of rank >= 2 ---------- *)
Theorem matmul_v2_spec sa sb fa fb s :
  (2 <= length sa)%nat -> (2 <= length sb)%nat -> pos sa -> pos sb ->
  np_matmul_shape sa sb = Some s ->
  exists m, matmul_v2 A zero add mul sa sb fa fb = Ok m /\ vshape m = s /\
    forall i, inb i s -> vat m i = np_matmul_elem A zero add mul sa sb fa fb i.
Proof.
  intros La Lb Pa Pb Hs.
  destruct (exists_last2 sa) as [pa [M [K E]]]; [lia|]. subst sa.
  destruct (exists_last2 sb) as [pb [K' [N E]]]; [lia|]. subst sb.
  unfold np_matmul_shape in Hs. rewrite !app_length in Hs. cbn [length] in Hs.
  replace (length pa + 2 =? 1)%nat with false in Hs by (symmetry; apply Nat.eqb_neq; lia).
  replace (length pb + 2 =? 1)%nat with false in Hs by (symmetry; apply Nat.eqb_neq; lia).
  rewrite !split_last2_app in Hs.
  destruct (Z.eqb_spec K K') as [<-|]; [|discriminate].
  destruct (np_broadcast2 pa pb) as [bs|] eqn:Ebs; [|discriminate]. injection Hs as <-.
  pose proof Pa as Pa'. apply pos_app in Pa' as [Ppa PMK]. pose proof Pb as Pb'. apply pos_app in Pb' as [Ppb PKN].
  assert (HM : 1 <= M) by (inversion PMK; lia).
  assert (HK : 1 <= K) by (inversion PMK as [|? ? ? P2]; inversion P2; lia).
  assert (HN : 1 <= N) by (inversion PKN as [|? ? ? P2]; inversion P2; lia).
  pose proof (np_broadcast2_length _ _ _ Ebs) as Lbs.
  set (pam := pa ++ [M]).
  assert (Esa : pa ++ [M; K] = pam ++ [K]) by (unfold pam; now rewrite <- app_assoc).
  assert (Ppam : pos pam) by (unfold pam; apply pos_app; split; [assumption | repeat constructor; lia]).
  assert (Lpam : length pam = (length pa + 1)%nat) by (unfold pam; rewrite app_length; reflexivity).
  unfold matmul_v2, matmul_lhs_tile, matmul_lhs_reshape.
  rewrite !app_length. cbn [length].
  replace (2 <=? length pa + 2)%nat with true by (symmetry; apply Nat.leb_le; lia).
  replace (2 <=? length pb + 2)%nat with true by (symmetry; apply Nat.leb_le; lia).
  cbn [andb]. rewrite atneg_app2_1, atneg_app2_1.
  replace (length pa + 2 - 1)%nat with (length pam) by lia.
  rewrite Esa. rewrite firstn_app_exact.
  unfold v_tile, v_reshape. cbn [vshape vat]. rewrite shape_tile_last.
  set (adst := pam ++ [N; K]).
  assert (Padst : pos adst) by (unfold adst; apply pos_app; split; [assumption | repeat constructor; lia]).
  assert (Ptile : pos (pam ++ [K * N])) by (apply pos_app; split; [assumption | repeat constructor; nia]).
  rewrite shape_reshape_ok; [| unfold adst, pam; destruct pa; discriminate | exact Padst | exact Ptile |].
  2:{ unfold adst. rewrite !prod_app. cbn [prod]. ring. }
  cbn [lift rbind]. unfold v_transpose. cbn [vshape vat].
  rewrite shape_transpose_swap.
  unfold matmul_rhs_reshape.
  replace (2 <=? length adst)%nat with true by (symmetry; apply Nat.leb_le; unfold adst; rewrite app_length; simpl; lia).
  replace (2 <=? length (pb ++ [N; K]))%nat with true by (symmetry; apply Nat.leb_le; rewrite app_length; simpl; lia).
  cbn [andb]. rewrite app_length. cbn [length]. replace (length pb + 2 - 2)%nat with (length pb) by lia.
  rewrite firstn_app_exact, skipn_app_exact. cbn [app].
  set (cdst := pb ++ 1 :: [N; K]).
  assert (Ptr : pos (pb ++ [N; K])) by (apply pos_app; split; [assumption | repeat constructor; lia]).
  assert (Pcdst : pos cdst) by (unfold cdst; apply pos_app; split; [assumption | repeat constructor; lia]).
  rewrite shape_reshape_ok; [| unfold cdst; destruct pb; discriminate | exact Pcdst | exact Ptr |].
  2:{ unfold cdst. rewrite !prod_app. cbn [prod]. ring. }
  cbn [lift rbind].
  assert (Hb : np_broadcast2 adst cdst = Some ((bs ++ [M]) ++ [N; K])).
  { unfold adst, cdst, pam. replace (pb ++ 1 :: [N; K]) with ((pb ++ [1]) ++ [N; K]) by (now rewrite <- app_assoc).
    apply np_broadcast2_app_common. apply np_broadcast2_app_pair; [reflexivity | assumption |].
    cbn. rewrite orb_true_r. cbn. now rewrite Z.max_l by lia. }
  destruct (v_mul_spec A mul
      (View adst (fun i => fa (tile_idx (pam ++ [K]) (reshape_idx (pam ++ [K * N]) adst i))))
      (View cdst (fun i => fb (scatter (reshape_idx (pb ++ [N; K]) cdst i) (swap_last2 (length pb + 2)))))
      _ Padst Pcdst Hb) as [m [Em [Sm Fm]]].
  rewrite Em. cbn [lift rbind]. eexists. split; [reflexivity|].
  assert (Sm' : vshape m = (bs ++ [M; N]) ++ [K]) by (rewrite Sm; now rewrite <- !app_assoc).
  destruct (v_sum_last1_spec A zero add add_assoc add_0_r m _ K Sm') as [S1 F1].
  split; [exact S1|]. intros i Hi. rewrite F1.
  pose proof (inb_length _ _ Hi) as Hli. rewrite app_length in Hli. cbn [length] in Hli.
  destruct (exists_last2 i) as [bi [r [c E]]]; [lia|]. subst i.
  rewrite app_length in Hli. cbn [length] in Hli.
  destruct (inb_app_inv _ _ _ Hi) as [Hbi Hrc].
  rewrite firstn_app_exact' in Hbi by lia. rewrite skipn_app_exact' in Hrc by lia.
  inversion Hrc as [|? ? ? ? Hr Hc']; subst. inversion Hc' as [|? ? ? ? Hc _]; subst.
  unfold np_matmul_elem. rewrite <- Esa. rewrite !split_last2_app.
  f_equal. apply map_ext_in. intros k Hk. apply in_zrange in Hk.
  assert (Hfull : inb ((bi ++ [r; c]) ++ [k]) ((bs ++ [M]) ++ [N; K])).
  { rewrite <- !app_assoc. apply inb_app; [assumption|]. repeat constructor; lia. }
  destruct (Fm _ Hfull) as [-> _]. cbn [vshape vat].
  pose proof (np_broadcast2_inb _ _ _ _ Ppa Ebs Hbi) as Ia.
  assert (Ebs' : np_broadcast2 pb pa = Some bs) by (rewrite np_broadcast2_comm; assumption).
  pose proof (np_broadcast2_inb _ _ _ _ Ppb Ebs' Hbi) as Ib.
  set (ja := np_broadcast_to_idx pa bi) in *. set (jb := np_broadcast_to_idx pb bi) in *.
  f_equal.
  - f_equal.
    assert (E1 : np_broadcast_to_idx adst ((bi ++ [r; c]) ++ [k]) = (ja ++ [r]) ++ [c; k]).
    { unfold adst, pam.
      replace ((pa ++ [M]) ++ [N; K]) with (((pa ++ [M]) ++ [N]) ++ [K]) by (now rewrite <- !app_assoc).
      replace (bi ++ [r; c]) with ((bi ++ [r]) ++ [c]) by (now rewrite <- !app_assoc).
      rewrite np_broadcast_to_idx_snoc by (rewrite ?app_length; cbn [length]; lia).
      rewrite np_broadcast_to_idx_snoc by (rewrite ?app_length; cbn [length]; lia).
      rewrite np_broadcast_to_idx_snoc by lia. now rewrite <- !app_assoc. }
    rewrite E1.
    rewrite (reshape_idx_spec (pam ++ [K * N]) adst _ ((ja ++ [r]) ++ [c * K + k])).
    + rewrite tile_idx_last by (unfold pam; apply inb_snoc; [assumption | lia]).
      rewrite <- app_assoc. do 2 f_equal. cbn [app]. do 2 f_equal.
      rewrite Z.add_comm, Z.mod_add by lia. apply Z.mod_small; lia.
    + exact Ptile.
    + exact Padst.
    + unfold adst, pam. apply inb_app; [apply inb_snoc; [assumption | lia] | repeat constructor; lia].
    + unfold pam. apply inb_snoc; [apply inb_snoc; [assumption | lia] | nia].
    + assert (Hlen : length (ja ++ [r]) = length pam) by (unfold pam; rewrite !app_length; cbn [length]; now rewrite (inb_length _ _ Ia)).
      unfold adst. rewrite !horner_app by exact Hlen. cbn [horner]. ring.
  - f_equal.
    assert (E2 : np_broadcast_to_idx cdst ((bi ++ [r; c]) ++ [k]) = (jb ++ [0]) ++ [c; k]).
    { unfold cdst.
      replace (pb ++ 1 :: [N; K]) with (((pb ++ [1]) ++ [N]) ++ [K]) by (now rewrite <- !app_assoc).
      replace (bi ++ [r; c]) with ((bi ++ [r]) ++ [c]) by (now rewrite <- !app_assoc).
      rewrite np_broadcast_to_idx_snoc by (rewrite ?app_length; cbn [length]; lia).
      rewrite np_broadcast_to_idx_snoc by (rewrite ?app_length; cbn [length]; lia).
      rewrite np_broadcast_to_idx_snoc_one by lia. now rewrite <- !app_assoc. }
    rewrite E2.
    rewrite (reshape_idx_spec (pb ++ [N; K]) cdst _ (jb ++ [c; k])).
    + rewrite <- (inb_length _ _ Ib). apply scatter_swap.
    + exact Ptr.
    + exact Pcdst.
    + unfold cdst. rewrite <- app_assoc. apply inb_app; [assumption | repeat constructor; lia].
    + apply inb_app; [assumption | repeat constructor; lia].
    + unfold cdst. rewrite <- app_assoc. cbn [app].
      rewrite !horner_app by (now apply inb_length). cbn [horner]. ring.
Qed.

Corollary matmul_v2_v1_spec sa sb fa fb s :
  (2 <= length sa)%nat -> (2 <= length sb)%nat -> pos sa -> pos sb ->
  np_matmul_shape sa sb = Some s ->
  exists m, matmul_v2 A zero add mul sa sb fa fb = Ok m /\ vshape m = s /\
    forall i, inb i s -> vat m i = np_matmul_elem A zero add mul sa sb fa fb i
                         /\ vat m i = matmul_elem A zero add mul sa sb fa fb i.
Proof.
  intros La Lb Pa Pb Hs.
  destruct (matmul_v2_spec sa sb fa fb s La Lb Pa Pb Hs) as [m [E [S F]]].
  exists m. split; [exact E|]. split; [exact S|]. intros i Hi. split; [exact (F i Hi)|].
  rewrite (F i Hi). symmetry.
  apply (matmul_elem_spec A zero add mul add_assoc add_0_r sa sb fa fb s i La Lb Pa Pb); [|exact Hi].
  rewrite shape_matmul_spec by (assumption || lia). exact Hs.
Qed.

End Routines.

(* ---------- kron / tensordot: what is proved is the shape of a returned view ---------- *)
Lemma shape_reshape_pos_dst src dst d : pos dst -> shape_reshape src dst = Some d -> d = dst.
Proof.
  intros Pd H. unfold shape_reshape in H.
  repeat match type of H with (if ?c then _ else _) = _ => destruct c; [discriminate|] end.
  repeat match type of H with (if ?c then _ else _) = _ => destruct c; try discriminate end.
  injection H as <-. rewrite <- (map_id dst) at 2. apply map_ext_in. intros x Hin.
  unfold pos in Pd. rewrite Forall_forall in Pd. specialize (Pd x Hin).
  replace (x =? -1) with false by (symmetry; apply Z.eqb_neq; lia). reflexivity.
Qed.

Lemma combine_ones_l l : map (fun p => fst p * snd p) (combine (repeat 1 (length l)) l) = l.
Proof. induction l as [|z l IH]; [reflexivity|]. cbn [length repeat combine map fst snd]. rewrite IH. f_equal. lia. Qed.
Lemma combine_ones_r l : map (fun p => fst p * snd p) (combine l (repeat 1 (length l))) = l.
Proof. induction l as [|z l IH]; [reflexivity|]. cbn [length repeat combine map fst snd]. rewrite IH. f_equal. lia. Qed.

Lemma tile_shape_rev_mul a : forall b,
  tile_shape_rev a b =
  map (fun p => fst p * snd p)
      (combine (a ++ repeat 1 (Nat.max (length a) (length b) - length a))
               (b ++ repeat 1 (Nat.max (length a) (length b) - length b))).
Proof.
  induction a as [|x a IH]; intros [|y b].
  - reflexivity.
  - cbn [tile_shape_rev]. change (length []) with 0%nat. rewrite Nat.max_0_l, Nat.sub_0_r, Nat.sub_diag.
    cbn [repeat app]. rewrite app_nil_r. now rewrite combine_ones_l.
  - cbn [tile_shape_rev]. change (length []) with 0%nat. rewrite Nat.max_0_r, Nat.sub_0_r, Nat.sub_diag.
    cbn [repeat app]. rewrite app_nil_r. now rewrite combine_ones_r.
  - cbn [tile_shape_rev length app combine map fst snd]. rewrite <- Nat.succ_max_distr.
    replace (S (Nat.max (length a) (length b)) - S (length a))%nat with (Nat.max (length a) (length b) - length a)%nat by lia.
    replace (S (Nat.max (length a) (length b)) - S (length b))%nat with (Nat.max (length a) (length b) - length b)%nat by lia.
    now rewrite <- IH.
Qed.

Lemma combine_rev {T U} (a : list T) : forall (b : list U), length a = length b ->
  combine (rev a) (rev b) = rev (combine a b).
Proof.
  induction a as [|x a IH]; intros [|y b] H; simpl in *; try discriminate; [reflexivity|].
  rewrite combine_app by (rewrite !rev_length; lia). rewrite IH by lia. reflexivity.
Qed.

(* kron_dst_reshape (the shape handed to the final reshape) is NumPy's kron shape *)
Lemma kron_dst_reshape_np a b : kron_dst_reshape a b = np_kron_shape a b.
Proof.
  unfold kron_dst_reshape, shape_tile, np_kron_shape. rewrite tile_shape_rev_mul. rewrite !rev_length.
  set (n := Nat.max (length a) (length b)).
  replace (rev a ++ repeat 1 (n - length a)) with (rev (pad_to n a)) by (unfold pad_to; now rewrite rev_app_distr, rev_repeat).
  replace (rev b ++ repeat 1 (n - length b)) with (rev (pad_to n b)) by (unfold pad_to; now rewrite rev_app_distr, rev_repeat).
  rewrite combine_rev by (rewrite !pad_to_length; lia). rewrite map_rev. apply rev_involutive.
Qed.

Lemma np_kron_shape_pos a b : pos a -> pos b -> pos (np_kron_shape a b).
Proof.
  intros Pa Pb. unfold np_kron_shape. set (n := Nat.max (length a) (length b)).
  assert (P1 : pos (pad_to n a)) by (unfold pad_to; apply pos_app; split; [apply pos_ones | assumption]).
  assert (P2 : pos (pad_to n b)) by (unfold pad_to; apply pos_app; split; [apply pos_ones | assumption]).
  revert P1 P2. generalize (pad_to n a) (pad_to n b). intros l1.
  induction l1 as [|x l1 IH]; intros [|y l2] H1 H2; cbn [combine map]; try constructor.
  - inversion H1; inversion H2; subst. cbn [fst snd]. nia.
  - inversion H1; inversion H2; subst. now apply IH.
Qed.

(* ---------- counting the axes that are not contracted ---------- *)
Lemma filter_lt_succ l : nodupb l = true -> forall d,
  length (filter (fun x => x <? S d)%nat l) =
  (length (filter (fun x => x <? d)%nat l) + (if existsb (Nat.eqb d) l then 1 else 0))%nat.
Proof.
  induction l as [|x t IH]; intros Hn d; [reflexivity|].
  cbn [nodupb] in Hn. apply andb_prop in Hn as [Hx Ht]. apply negb_true_iff in Hx.
  cbn [filter existsb]. specialize (IH Ht d).
  destruct (Nat.ltb_spec x (S d)); destruct (Nat.ltb_spec x d); destruct (Nat.eqb_spec d x); cbn [length orb]; try lia.
  subst x. rewrite Hx in IH. lia.
Qed.

Lemma free_axes_count l : nodupb l = true -> forall d,
  (length (free_axes_of d l) + length (filter (fun x => x <? d)%nat l) = d)%nat.
Proof.
  intros Hn. unfold free_axes_of. induction d as [|d IH].
  - cbn [seq filter length]. induction l as [|x t IHt]; [reflexivity|]. cbn [nodupb] in Hn.
    apply andb_prop in Hn as [_ Ht]. cbn [filter]. now apply IHt.
  - rewrite seq_S, filter_app, app_length. cbn [Nat.add filter]. rewrite filter_lt_succ by assumption.
    destruct (existsb (Nat.eqb d) l); cbn [negb length]; lia.
Qed.

Lemma filter_all {T} (f : T -> bool) l : forallb f l = true -> filter f l = l.
Proof.
  induction l as [|x t IH]; [reflexivity|]. cbn [forallb filter]. intros H. apply andb_prop in H as [Hx Ht].
  rewrite Hx. now rewrite IH.
Qed.

Lemma free_axes_length d l : nodupb l = true -> forallb (fun ax => ax <? d)%nat l = true ->
  length (free_axes_of d l) = (d - length l)%nat.
Proof.
  intros Hn Hr. pose proof (free_axes_count l Hn d) as H. rewrite (filter_all _ _ Hr) in H. lia.
Qed.

Lemma free_axes_in_range d l : forallb (fun ax => ax <? d)%nat (free_axes_of d l) = true.
Proof.
  apply forallb_forall. intros x Hx. unfold free_axes_of in Hx. apply filter_In in Hx as [Hx _].
  apply in_seq in Hx. apply Nat.ltb_lt. lia.
Qed.

Lemma extents_at_pos s axes : pos s -> forallb (fun ax => ax <? length s)%nat axes = true -> pos (extents_at s axes).
Proof.
  intros Hp Hr. unfold extents_at, pos. apply Forall_forall. intros x Hx. apply in_map_iff in Hx as [ax [<- Hax]].
  rewrite forallb_forall in Hr. specialize (Hr ax Hax). apply Nat.ltb_lt in Hr.
  unfold pos in Hp. rewrite Forall_forall in Hp. apply Hp. now apply nth_In.
Qed.

Lemma combine_eqb_eq x : forall y, length x = length y ->
  forallb (fun p => fst p =? snd p) (combine x y) = true -> x = y.
Proof.
  induction x as [|a x IH]; intros [|b y] Hl H; simpl in *; try discriminate; [reflexivity|].
  apply andb_prop in H as [Hab H]. apply Z.eqb_eq in Hab. subst b. f_equal. apply IH; [lia | assumption].
Qed.

Section Partial.
Variable A : Type.
Variable zero : A.
Variables add mul : A -> A -> A.

(* PARTIAL: whenever view::kron yields a view, its shape is NumPy's; that it always does, and the elements,
   are established by the correspondence only *)
Theorem kron_shape_partial sa sb fa fb m : pos sa -> pos sb ->
  kron A mul sa sb fa fb = Ok m -> vshape m = np_kron_shape sa sb.
Proof.
  intros Pa Pb H. unfold kron in H.
  destruct (v_reshape A (View sa fa) (kron_lhs_reshape sa (length sb))) as [a|]; [|discriminate].
  cbn [lift rbind] in H.
  destruct (v_mul A mul (v_tile A a sb) (View sb fb)) as [c|]; [|discriminate].
  cbn [lift rbind] in H. unfold v_reshape in H.
  destruct (shape_reshape (vshape (v_transpose A c (kron_dst_transpose (length sa) (length sb)))) (kron_dst_reshape sa sb)) as [d|] eqn:E;
    [|discriminate].
  cbn [lift] in H. injection H as <-. cbn [vshape].
  rewrite kron_dst_reshape_np in E.
  now apply (shape_reshape_pos_dst _ _ _ (np_kron_shape_pos _ _ Pa Pb) E).
Qed.

(* PARTIAL: tensordot with explicit (normalised, duplicate-free) axes whose paired extents agree yields a view whose
   shape is NumPy's: free extents of a, then free extents of b.  Elements: correspondence only. *)
Theorem tensordot_shape_partial sa sb fa fb la lb s : (1 <= length sa)%nat -> pos sa -> pos sb ->
  np_tensordot_shape sa sb la lb = Some s ->
  exists m, tensordot_gen A zero add mul sa sb fa fb
              (tdot_transpose (length sa) la) (tdot_transpose (length sb) lb) (length la) = Ok m
            /\ vshape m = s.
Proof.
  intros L1 Pa Pb H. unfold np_tensordot_shape in H.
  destruct ((length la =? length lb)%nat && nodupb la && nodupb lb
            && forallb (fun ax => (ax <? length sa)%nat) la && forallb (fun ax => (ax <? length sb)%nat) lb
            && forallb (fun p => fst p =? snd p) (combine (extents_at sa la) (extents_at sb lb))) eqn:C; [|discriminate].
  injection H as <-.
  repeat (apply andb_prop in C as [C ?]). apply Nat.eqb_eq in C.
  match goal with H : forallb _ (combine _ _) = true |- _ => rename H into Heq end.
  match goal with H : forallb _ lb = true |- _ => rename H into Rb end.
  match goal with H : forallb _ la = true |- _ => rename H into Ra end.
  match goal with H : nodupb lb = true |- _ => rename H into Nb end.
  match goal with H : nodupb la = true |- _ => rename H into Na end.
  set (FA := extents_at sa (free_axes_of (length sa) la)). set (FB := extents_at sb (free_axes_of (length sb) lb)).
  set (CA := extents_at sa la).
  assert (ECB : extents_at sb lb = CA).
  { symmetry. apply combine_eqb_eq; [unfold CA, extents_at; rewrite !map_length; exact C | exact Heq]. }
  assert (LCA : length CA = length la) by (unfold CA, extents_at; apply map_length).
  assert (LFB : length FB = (length sb - length la)%nat).
  { unfold FB, extents_at. rewrite map_length, free_axes_length by assumption. lia. }
  assert (LFA : length FA = (length sa - length la)%nat).
  { unfold FA, extents_at. rewrite map_length, free_axes_length by assumption. lia. }
  assert (Lla : (length la <= length sa)%nat).
  { pose proof (free_axes_count la Na (length sa)) as G. rewrite (filter_all _ _ Ra) in G. lia. }
  assert (PFA : pos FA) by (apply extents_at_pos; [assumption | apply free_axes_in_range]).
  assert (PFB : pos FB) by (apply extents_at_pos; [assumption | apply free_axes_in_range]).
  assert (PCA : pos CA) by (apply extents_at_pos; assumption).
  assert (Ta : shape_transpose sa (tdot_transpose (length sa) la) = FA ++ CA).
  { unfold shape_transpose, tdot_transpose. rewrite map_app. reflexivity. }
  assert (Tb : shape_transpose sb (tdot_transpose (length sb) lb) = FB ++ CA).
  { unfold shape_transpose, tdot_transpose. rewrite map_app. fold (extents_at sb lb). rewrite ECB. reflexivity. }
  unfold tensordot_gen, v_transpose, v_reshape. cbn [vshape vat]. rewrite Ta, Tb.
  assert (Edst : tdot_lhs_reshape (FA ++ CA) sb (length la) = FA ++ ones (length FB) ++ CA).
  { unfold tdot_lhs_reshape. rewrite app_length, LCA.
    replace (length FA + length la - length la)%nat with (length FA) by lia.
    rewrite firstn_app_exact, skipn_app_exact. do 2 f_equal. f_equal. lia. }
  rewrite Edst.
  assert (Pdst : pos (FA ++ ones (length FB) ++ CA)).
  { apply pos_app; split; [assumption|]. apply pos_app; split; [apply pos_ones | assumption]. }
  rewrite shape_reshape_ok; [| | exact Pdst | apply pos_app; split; assumption | rewrite !prod_app, prod_ones; ring].
  2:{ intros E. apply (f_equal (@length Z)) in E. rewrite !app_length, ones_length, LFA, LFB, LCA in E. cbn [length] in E. lia. }
  cbn [lift rbind].
  assert (Hb : np_broadcast2 (FA ++ ones (length FB) ++ CA) (FB ++ CA) = Some ((FA ++ FB) ++ CA)).
  { rewrite app_assoc. apply np_broadcast2_app_common. now apply np_broadcast2_ones_mid. }
  destruct (v_mul_spec A mul
      (View (FA ++ ones (length FB) ++ CA) (fun i => fa (scatter (reshape_idx (FA ++ CA) (FA ++ ones (length FB) ++ CA) i) (tdot_transpose (length sa) la))))
      (View (FB ++ CA) (fun i => fb (scatter i (tdot_transpose (length sb) lb)))) _ Pdst
      (proj2 (pos_app _ _) (conj PFB PCA)) Hb) as [m [Em [Sm _]]].
  rewrite Em. cbn [lift rbind]. eexists. split; [reflexivity|].
  unfold v_sum_last. cbn [vshape]. rewrite Sm, app_length, LCA.
  replace (length (FA ++ FB) + length la - length la)%nat with (length (FA ++ FB)) by lia.
  apply firstn_app_exact.
Qed.

End Partial.
