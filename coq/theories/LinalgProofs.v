(* LinalgProofs.v — lemmas about Linalg.v (C16), every rank, all positive extents. *)
From NM Require Import Base Index IndexProofs Broadcast BroadcastProofs Linalg.
Local Open Scope Z_scope.

(* ====================================================================== *)
(*  list plumbing                                                          *)
(* ====================================================================== *)

Lemma split_last2_app p : forall x y, split_last2 (p ++ [x; y]) = Some (p, x, y).
Proof.
  induction p as [|h p IH]; intros x y; [reflexivity|].
  change ((h :: p) ++ [x; y]) with (h :: (p ++ [x; y])).
  specialize (IH x y).
  destruct (p ++ [x; y]) as [|u [|v [|w t]]] eqn:E.
  - destruct p; discriminate.
  - destruct p as [|? [|? ?]]; discriminate.
  - cbn in IH. injection IH as <- <- <-. reflexivity.
  - cbn [split_last2] in *. rewrite IH. reflexivity.
Qed.

Lemma split_last1_app p : forall x, split_last1 (p ++ [x]) = Some (p, x).
Proof.
  induction p as [|h p IH]; intros x; [reflexivity|].
  change ((h :: p) ++ [x]) with (h :: (p ++ [x])).
  specialize (IH x).
  destruct (p ++ [x]) as [|u [|v t]] eqn:E.
  - destruct p; discriminate.
  - cbn in IH. injection IH as <- <-. reflexivity.
  - cbn [split_last1] in *. rewrite IH. reflexivity.
Qed.

Lemma exists_last1 (l : list Z) : (1 <= length l)%nat -> exists p x, l = p ++ [x].
Proof.
  intros H. destruct (@exists_last _ l) as [p [x E]]; [destruct l; simpl in H; [lia | discriminate]|].
  eauto.
Qed.

Lemma exists_last2 (l : list Z) : (2 <= length l)%nat -> exists p x y, l = p ++ [x; y].
Proof.
  intros H. destruct (exists_last1 l) as [q [y E]]; [lia|]. subst l.
  rewrite app_length in H. simpl in H.
  destruct (exists_last1 q) as [p [x E]]; [lia|]. subst q.
  exists p, x, y. now rewrite <- app_assoc.
Qed.

Lemma atneg_app1 p x : atneg (p ++ [x]) 1 = x.
Proof. unfold atneg. rewrite app_length. simpl. replace (length p + 1 - 1)%nat with (length p) by lia.
  rewrite app_nth2 by lia. now rewrite Nat.sub_diag. Qed.
Lemma atneg_app2_1 p x y : atneg (p ++ [x; y]) 1 = y.
Proof. unfold atneg. rewrite app_length. simpl. replace (length p + 2 - 1)%nat with (S (length p)) by lia.
  rewrite app_nth2 by lia. now replace (S (length p) - length p)%nat with 1%nat by lia. Qed.
Lemma atneg_app2_2 p x y : atneg (p ++ [x; y]) 2 = x.
Proof. unfold atneg. rewrite app_length. simpl. replace (length p + 2 - 2)%nat with (length p) by lia.
  rewrite app_nth2 by lia. now rewrite Nat.sub_diag. Qed.

Lemma firstn_app_exact' {T} (p q : list T) n : n = length p -> firstn n (p ++ q) = p.
Proof. intros ->. rewrite firstn_app, Nat.sub_diag, firstn_all. simpl. now rewrite app_nil_r. Qed.
Lemma skipn_app_exact' {T} (p q : list T) n : n = length p -> skipn n (p ++ q) = q.
Proof. intros ->. rewrite skipn_app, Nat.sub_diag, skipn_all. reflexivity. Qed.
Lemma firstn_app_exact {T} (p q : list T) : firstn (length p) (p ++ q) = p.
Proof. rewrite firstn_app, Nat.sub_diag, firstn_all. simpl. now rewrite app_nil_r. Qed.
Lemma skipn_app_exact {T} (p q : list T) : skipn (length p) (p ++ q) = q.
Proof. rewrite skipn_app, Nat.sub_diag, skipn_all. reflexivity. Qed.

(* ====================================================================== *)
(*  shape_matmul = NumPy's rule, every rank >= 1                            *)
(* ====================================================================== *)

Lemma np_axes_length a : forall b r, np_axes a b = Some r -> length r = length a /\ length a = length b.
Proof.
  induction a as [|x a IH]; intros [|y b] r H; simpl in H; try discriminate.
  - injection H as <-. split; reflexivity.
  - destruct ((x =? y) || (x =? 1) || (y =? 1)); [|discriminate].
    destruct (np_axes a b) as [r'|] eqn:E; simpl in H; [|discriminate]. injection H as <-.
    destruct (IH b r' E) as [H1 H2]. simpl. split; congruence.
Qed.

Lemma np_broadcast2_length a b r : np_broadcast2 a b = Some r -> length r = Nat.max (length a) (length b).
Proof.
  unfold np_broadcast2. intros H. apply np_axes_length in H as [H _].
  rewrite H. apply pad_to_length. lia.
Qed.

Lemma np_broadcast2_nil_l b : pos b -> np_broadcast2 [] b = Some b.
Proof. intros Hb. rewrite <- broadcast_shape2_np by (assumption || constructor). apply broadcast_shape2_nil_l. Qed.
Lemma np_broadcast2_nil_r a : pos a -> np_broadcast2 a [] = Some a.
Proof. intros Ha. rewrite <- broadcast_shape2_np by (assumption || constructor). apply broadcast_shape2_nil_r. Qed.

Lemma batch_of_app2 p x y : batch_of (p ++ [x; y]) = p.
Proof.
  unfold batch_of. rewrite app_length. simpl.
  replace (length p + 2 =? 1)%nat with false by (symmetry; apply Nat.eqb_neq; lia).
  replace (length p + 2 - 2)%nat with (length p) by lia. apply firstn_app_exact.
Qed.

Theorem shape_matmul_spec a b : (1 <= length a)%nat -> (1 <= length b)%nat -> pos a -> pos b ->
  shape_matmul a b = np_matmul_shape a b.
Proof.
  intros La Lb Pa Pb.
  destruct (Nat.eq_dec (length a) 1) as [Ea|Ea]; destruct (Nat.eq_dec (length b) 1) as [Eb|Eb].
  - (* 1-d x 1-d *)
    destruct a as [|k [|? ?]]; try discriminate. destruct b as [|k' [|? ?]]; try discriminate.
    unfold shape_matmul, np_matmul_shape. cbn. destruct (k =? k'); reflexivity.
  - (* 1-d x n-d *)
    destruct a as [|k [|? ?]]; try discriminate.
    destruct (exists_last2 b) as [pb [k' [m E]]]; [lia|]. subst b.
    apply pos_app in Pb as [Ppb _].
    unfold shape_matmul, np_matmul_shape.
    rewrite batch_of_app2. change (batch_of [k]) with (@nil Z).
    rewrite broadcast_shape2_nil_l.
    rewrite atneg_app2_2. change (atneg [k] 1) with k.
    rewrite app_length. cbn [length].
    replace (length pb + 2 =? 1)%nat with false by (symmetry; apply Nat.eqb_neq; lia).
    change (1 =? 1)%nat with true. cbn [andb orb].
    replace (2 <=? length pb + 2)%nat with true by (symmetry; apply Nat.leb_le; lia).
    change (2 <=? 1)%nat with false. cbn [andb].
    change (split_last2 [1; k]) with (Some (@nil Z, 1, k)).
    rewrite split_last2_app. rewrite np_broadcast2_nil_l by assumption.
    destruct (k =? k'); [|reflexivity].
    replace (length pb + 2 - 2)%nat with (length pb) by lia.
    replace (length pb + 2 - 1)%nat with (length (pb ++ [k'])) by (rewrite app_length; simpl; lia).
    rewrite firstn_app_exact.
    replace (pb ++ [k'; m]) with ((pb ++ [k']) ++ [m]) by (now rewrite <- app_assoc).
    rewrite skipn_app_exact. reflexivity.
  - (* n-d x 1-d *)
    destruct b as [|k' [|? ?]]; try discriminate.
    destruct (exists_last2 a) as [pa [n [k E]]]; [lia|]. subst a.
    apply pos_app in Pa as [Ppa _].
    unfold shape_matmul, np_matmul_shape.
    rewrite batch_of_app2. change (batch_of [k']) with (@nil Z).
    rewrite broadcast_shape2_nil_r.
    rewrite atneg_app2_1. cbn [nth length].
    rewrite app_length. cbn [length].
    replace (length pa + 2 =? 1)%nat with false by (symmetry; apply Nat.eqb_neq; lia).
    change (1 =? 1)%nat with true.
    replace (2 <=? length pa + 2)%nat with true by (symmetry; apply Nat.leb_le; lia).
    cbn [andb].
    change (split_last2 ([k'] ++ [1])) with (Some (@nil Z, k', 1)).
    rewrite split_last2_app. rewrite np_broadcast2_nil_r by assumption.
    destruct (k =? k'); [|reflexivity].
    replace (length pa + 2 - 1)%nat with (length (pa ++ [n])) by (rewrite app_length; simpl; lia).
    replace (pa ++ [n; k]) with ((pa ++ [n]) ++ [k]) by (now rewrite <- app_assoc).
    rewrite firstn_app_exact. rewrite app_nil_r. reflexivity.
  - (* n-d x n-d *)
    destruct (exists_last2 a) as [pa [n [k E]]]; [lia|]. subst a.
    destruct (exists_last2 b) as [pb [k' [m E]]]; [lia|]. subst b.
    apply pos_app in Pa as [Ppa _]. apply pos_app in Pb as [Ppb _].
    unfold shape_matmul, np_matmul_shape.
    rewrite !batch_of_app2, atneg_app2_1, !atneg_app2_2, atneg_app2_1.
    rewrite !app_length. cbn [length].
    replace (length pa + 2 =? 1)%nat with false by (symmetry; apply Nat.eqb_neq; lia).
    replace (length pb + 2 =? 1)%nat with false by (symmetry; apply Nat.eqb_neq; lia).
    cbn [andb]. rewrite !andb_false_r. rewrite !split_last2_app.
    rewrite broadcast_shape2_np by assumption.
    destruct (np_broadcast2 pa pb) as [bs|] eqn:Ebs; [|destruct (k =? k'); reflexivity].
    destruct (k =? k'); [|reflexivity].
    apply np_broadcast2_length in Ebs.
    replace (Nat.max (length pa + 2) (length pb + 2) - 2)%nat with (length bs) by lia.
    rewrite firstn_all. reflexivity.
Qed.

(* ====================================================================== *)
(*  view::matmul element = the defining sum                                 *)
(* ====================================================================== *)

Lemma np_bto_idx_aligned_nth a : forall l, length l = length a ->
  np_bto_idx_aligned a l = map (fun j => if nth j a 0 =? 1 then 0 else nth j l 0) (seq 0 (length a)).
Proof.
  induction a as [|x a IH]; intros [|k l] Hl; simpl in *; try discriminate; [reflexivity|].
  f_equal. rewrite <- seq_shift, map_map. apply IH. lia.
Qed.

Lemma nth_skipn' {T} d : forall (l : list T) j x, nth j (skipn d l) x = nth (j + d) l x.
Proof.
  induction d as [|d IH]; intros l j x; [now rewrite Nat.add_0_r|].
  destruct l as [|h l]; [destruct j; reflexivity|]. simpl. rewrite IH. now rewrite Nat.add_succ_r.
Qed.

Lemma fill_non_matmul_spec pa n k bi r c : (length pa <= length bi)%nat ->
  fill_non_matmul (pa ++ [n; k]) (bi ++ [r; c]) (length (bi ++ [r; c])) = np_broadcast_to_idx pa bi.
Proof.
  intros Hl. unfold fill_non_matmul, np_broadcast_to_idx.
  rewrite np_bto_idx_aligned_nth by (rewrite skipn_length; lia).
  rewrite !app_length. cbn [length].
  replace (length pa + 2 - 2)%nat with (length pa) by lia.
  apply map_ext_in. intros j Hj. apply in_seq in Hj.
  rewrite app_nth1 by lia.
  replace (length bi + 2 - (length pa + 2))%nat with (length bi - length pa)%nat by lia.
  rewrite app_nth1 by lia.
  rewrite nth_skipn'. reflexivity.
Qed.

Section Laws.
Variable A : Type.
Variable zero : A.
Variables add mul : A -> A -> A.
Hypothesis add_assoc : forall x y z, add (add x y) z = add x (add y z).
Hypothesis add_0_r : forall x, add x zero = x.

Lemma fold_left_sigma t : forall x, fold_left add t x = add x (sigma A zero add t).
Proof.
  induction t as [|y t IH]; intros x; simpl; [now rewrite add_0_r|].
  rewrite IH. apply add_assoc.
Qed.

(* the code's left fold from the first term is the mathematical sum *)
Lemma fold1_sigma l : fold1 A zero add l = sigma A zero add l.
Proof. destruct l as [|x t]; [reflexivity|]. simpl. apply fold_left_sigma. Qed.

Theorem matmul_elem_spec sa sb fa fb s i :
  (2 <= length sa)%nat -> (2 <= length sb)%nat -> pos sa -> pos sb ->
  shape_matmul sa sb = Some s -> inb i s ->
  matmul_elem A zero add mul sa sb fa fb i = np_matmul_elem A zero add mul sa sb fa fb i.
Proof.
  intros La Lb Pa Pb Hs Hi.
  rewrite shape_matmul_spec in Hs by (assumption || lia).
  destruct (exists_last2 sa) as [pa [n [k E]]]; [lia|]. subst sa.
  destruct (exists_last2 sb) as [pb [k' [m E]]]; [lia|]. subst sb.
  unfold np_matmul_shape in Hs. rewrite !app_length in Hs. cbn [length] in Hs.
  replace (length pa + 2 =? 1)%nat with false in Hs by (symmetry; apply Nat.eqb_neq; lia).
  replace (length pb + 2 =? 1)%nat with false in Hs by (symmetry; apply Nat.eqb_neq; lia).
  rewrite !split_last2_app in Hs.
  destruct (k =? k'); [|discriminate].
  destruct (np_broadcast2 pa pb) as [bs|] eqn:Ebs; [|discriminate].
  injection Hs as <-.
  apply np_broadcast2_length in Ebs.
  pose proof (inb_length _ _ Hi) as Hli. rewrite !app_length in Hli. cbn [length] in Hli.
  destruct (exists_last2 i) as [bi [r [c E]]]; [lia|]. subst i.
  rewrite app_length in Hli. cbn [length] in Hli.
  unfold matmul_elem, np_matmul_elem. rewrite !split_last2_app.
  rewrite fold1_sigma. rewrite atneg_app2_1.
  f_equal. apply map_ext. intros kk.
  unfold matmul_lidx, matmul_ridx.
  rewrite !fill_non_matmul_spec by lia.
  rewrite atneg_app2_2, atneg_app2_1. reflexivity.
Qed.

End Laws.

(* ====================================================================== *)
(*  generic facts about the view combinators                                *)
(* ====================================================================== *)

Lemma horner_app a : forall s b t acc, length a = length s ->
  horner acc (a ++ b) (s ++ t) = horner (horner acc a s) b t.
Proof.
  induction a as [|x a IH]; intros [|n s] b t acc Hl; simpl in *; try discriminate; [reflexivity|].
  apply IH. lia.
Qed.

Lemma horner_zeros r : forall acc, horner acc (repeat 0 r) (ones r) = acc.
Proof. induction r as [|r IH]; intros acc; simpl; [reflexivity|]. rewrite IH. lia. Qed.

Lemma inb_zeros r : inb (repeat 0 r) (ones r).
Proof. induction r; simpl; constructor; auto; lia. Qed.

Lemma ones_length r : length (ones r) = r.
Proof. apply repeat_length. Qed.

Lemma pos_ones r : pos (ones r).
Proof. induction r; simpl; constructor; auto; lia. Qed.

Lemma prod_ones r : prod (ones r) = 1.
Proof. unfold ones. induction r; cbn [repeat prod]; lia. Qed.

(* reshape reads the element with the same row-major rank *)
Lemma reshape_idx_spec src dst i j : pos src -> pos dst -> inb i dst -> inb j src ->
  horner 0 i dst = horner 0 j src -> reshape_idx src dst i = j.
Proof.
  intros Ps Pd Hi Hj H. unfold reshape_idx.
  rewrite compute_strides_eq, compute_offset_eq.
  rewrite (horner_off _ _ Hi 0), (horner_off _ _ Hj 0) in H.
  replace (off i (strides dst)) with (off j (strides src)) by lia.
  rewrite <- compute_offset_eq, <- compute_strides_eq. now apply unrav_off.
Qed.

Lemma pos_no_neg1 dst : pos dst -> filter (fun d => d =? -1) dst = [].
Proof.
  induction 1 as [|d dst Hd _ IH]; simpl; [reflexivity|].
  replace (d =? -1) with false by (symmetry; apply Z.eqb_neq; lia). assumption.
Qed.

Lemma reshape_numel_pos dst : dst <> [] -> pos dst -> reshape_numel dst = prod dst.
Proof.
  intros Hne Hp. unfold reshape_numel. destruct dst as [|d0 dst0]; [congruence|].
  set (dst := d0 :: dst0) in *. clearbody dst. clear Hne.
  assert (G : forall acc, fold_left (fun acc d => if d =? -1 then acc else acc * d) dst acc = acc * prod dst).
  { induction Hp as [|d dst Hd _ IH]; intros acc; simpl; [lia|].
    replace (d =? -1) with false by (symmetry; apply Z.eqb_neq; lia). rewrite IH. ring. }
  rewrite G. lia.
Qed.

Lemma shape_reshape_ok src dst : dst <> [] -> pos dst -> pos src -> prod src = prod dst ->
  shape_reshape src dst = Some dst.
Proof.
  intros Hne Pd Ps Hp. unfold shape_reshape.
  rewrite pos_no_neg1 by assumption. cbn [length Nat.ltb Nat.leb Nat.eqb].
  replace (existsb (fun d => negb (d =? -1) && (d <? 1)) dst) with false.
  2:{ symmetry. apply not_true_is_false. intros H. apply existsb_exists in H as [d [Hin Hd]].
      unfold pos in Pd. rewrite Forall_forall in Pd. specialize (Pd d Hin).
      apply andb_prop in Hd as [_ Hd]. lia. }
  rewrite reshape_numel_pos by assumption. rewrite product_eq_prod.
  pose proof (prod_pos _ Pd) as H1.
  replace (prod dst =? 0) with false by (symmetry; apply Z.eqb_neq; lia).
  rewrite Hp, Z.eqb_refl. cbn [negb andb]. rewrite Z_mod_same_full. cbn [Z.eqb negb].
  f_equal. rewrite <- (map_id dst) at 2. apply map_ext_in. intros d Hin.
  unfold pos in Pd. rewrite Forall_forall in Pd. specialize (Pd d Hin).
  replace (d =? -1) with false by (symmetry; apply Z.eqb_neq; lia). reflexivity.
Qed.

(* ---------- broadcasting multiply ---------- *)
Lemma np_axes_bto_ok x : forall y z, pos x -> np_axes x y = Some z -> np_bto_ok x z = true.
Proof.
  induction x as [|a x IH]; intros [|b y] z Hp H; simpl in H; try discriminate.
  - injection H as <-. reflexivity.
  - inversion Hp as [|? ? Ha Hx]; subst.
    destruct ((a =? b) || (a =? 1) || (b =? 1)) eqn:C; [|discriminate].
    destruct (np_axes x y) as [z'|] eqn:E; simpl in H; [|discriminate]. injection H as <-.
    assert (Hc : a = Z.max a b \/ a = 1).
    { apply orb_true_iff in C as [C|C]; [apply orb_true_iff in C as [C|C]|]; apply Z.eqb_eq in C; lia. }
    cbn [np_bto_ok]. rewrite (IH _ _ Hx E). rewrite andb_true_r.
    apply orb_true_iff. destruct Hc as [Hc|Hc]; [left | right]; apply Z.eqb_eq; assumption.
Qed.

Lemma np_broadcast2_bto_ok a b s : pos a -> np_broadcast2 a b = Some s ->
  np_broadcast_to_shape a s = Some s.
Proof.
  intros Pa H. pose proof (np_broadcast2_length _ _ _ H) as Hl.
  unfold np_broadcast2 in H. set (n := Nat.max (length a) (length b)) in *.
  unfold np_broadcast_to_shape.
  replace (length a <=? length s)%nat with true by (symmetry; apply Nat.leb_le; lia).
  cbn [andb]. unfold pad_to in H at 1.
  rewrite <- (firstn_skipn (n - length a) (pad_to n b)) in H.
  rewrite np_axes_app in H.
  2:{ rewrite repeat_length, firstn_length, pad_to_length by lia. lia. }
  destruct (np_axes (repeat 1 (n - length a)) (firstn (n - length a) (pad_to n b))) as [r1|] eqn:E1; [|discriminate].
  destruct (np_axes a (skipn (n - length a) (pad_to n b))) as [r2|] eqn:E2; [|discriminate].
  injection H as <-.
  apply np_axes_length in E1 as [L1 _]. rewrite repeat_length in L1.
  replace (length (r1 ++ r2) - length a)%nat with (length r1).
  2:{ rewrite app_length in Hl |- *. apply np_axes_length in E2 as [L2 _]. lia. }
  rewrite skipn_app_exact. now rewrite (np_axes_bto_ok _ _ _ Pa E2).
Qed.

Lemma broadcast_to_view_spec a s : pos a -> np_broadcast_to_shape a s = Some s ->
  exists f, broadcast_to_view a s = Some (s, f) /\
            forall i, inb i s -> f i = np_broadcast_to_idx a i /\ inb (np_broadcast_to_idx a i) a.
Proof.
  intros Pa H. unfold broadcast_to_view.
  pose proof (shape_broadcast_to_shape a s) as G. rewrite H in G.
  destruct (shape_broadcast_to a s) as [[d free]|] eqn:E; [|discriminate].
  simpl in G. injection G as ->.
  eexists. split; [reflexivity|]. intros i Hi.
  destruct (broadcast_to_elem_spec a s s free i Pa E Hi) as (_ & G1 & G2). split; assumption.
Qed.

Section Views.
Variable A : Type.
Variable zero : A.
Variables add mul : A -> A -> A.
Hypothesis add_assoc : forall x y z, add (add x y) z = add x (add y z).
Hypothesis add_0_r : forall x, add x zero = x.

Notation view := (view A).

Lemma v_mul_spec (a b : view) s : pos (vshape a) -> pos (vshape b) ->
  np_broadcast2 (vshape a) (vshape b) = Some s ->
  exists m, v_mul A mul a b = Some m /\ vshape m = s /\
    forall i, inb i s ->
      vat m i = mul (vat a (np_broadcast_to_idx (vshape a) i)) (vat b (np_broadcast_to_idx (vshape b) i))
      /\ inb (np_broadcast_to_idx (vshape a) i) (vshape a) /\ inb (np_broadcast_to_idx (vshape b) i) (vshape b).
Proof.
  intros Pa Pb H. unfold v_mul. rewrite broadcast_shape2_np by assumption. rewrite H.
  pose proof (np_broadcast2_bto_ok _ _ _ Pa H) as Ha.
  assert (Hc : np_broadcast2 (vshape b) (vshape a) = Some s).
  { rewrite <- broadcast_shape2_np by assumption. rewrite broadcast_shape2_comm.
    now rewrite broadcast_shape2_np by assumption. }
  pose proof (np_broadcast2_bto_ok _ _ _ Pb Hc) as Hb.
  destruct (broadcast_to_view_spec _ _ Pa Ha) as [fa [Ea Fa]].
  destruct (broadcast_to_view_spec _ _ Pb Hb) as [fb [Eb Fb]].
  rewrite Ea, Eb. eexists. split; [reflexivity|]. split; [reflexivity|].
  intros i Hi. cbn [vat]. destruct (Fa i Hi) as [-> Ia]. destruct (Fb i Hi) as [-> Ib]. auto.
Qed.

Lemma lex_enum_1 K : lex_enum [K] = map (fun k => [k]) (zrange K).
Proof.
  cbn [lex_enum].
  induction (zrange K) as [|k l IH]; [reflexivity|]. simpl. now f_equal.
Qed.

(* summing the last axis: element i is the sum over k = 0..K-1 of the elements (i,k) *)
Lemma v_sum_last1_spec (v : view) p K : vshape v = p ++ [K] ->
  vshape (v_sum_last A zero add 1 v) = p /\
  forall i, vat (v_sum_last A zero add 1 v) i = sigma A zero add (map (fun k => vat v (i ++ [k])) (zrange K)).
Proof.
  intros E. unfold v_sum_last. cbn [vshape vat]. rewrite E, app_length. cbn [length].
  replace (length p + 1 - 1)%nat with (length p) by lia.
  rewrite firstn_app_exact, skipn_app_exact. split; [reflexivity|].
  intros i. rewrite (fold1_sigma A zero add add_assoc add_0_r). rewrite lex_enum_1, map_map. reflexivity.
Qed.

End Views.

(* ====================================================================== *)
(*  more index facts                                                        *)
(* ====================================================================== *)

Lemma in_zrange k K : In k (zrange K) -> 0 <= k < K.
Proof. unfold zrange. intros H. apply in_zs in H. lia. Qed.

Lemma np_axes_refl t : np_axes t t = Some t.
Proof.
  induction t as [|x t IH]; simpl; [reflexivity|]. rewrite Z.eqb_refl, IH. simpl. now rewrite Z.max_id.
Qed.

Lemma pad_to_app n a t : (length a <= n)%nat -> pad_to (n + length t) (a ++ t) = pad_to n a ++ t.
Proof.
  intros H. unfold pad_to. rewrite app_length.
  replace (n + length t - (length a + length t))%nat with (n - length a)%nat by lia.
  now rewrite app_assoc.
Qed.

(* a common trailing part survives broadcasting *)
Lemma np_broadcast2_app_common a b t bs : np_broadcast2 a b = Some bs ->
  np_broadcast2 (a ++ t) (b ++ t) = Some (bs ++ t).
Proof.
  unfold np_broadcast2. intros H. rewrite !app_length.
  replace (Nat.max (length a + length t) (length b + length t)) with (Nat.max (length a) (length b) + length t)%nat by lia.
  rewrite !pad_to_app by lia.
  rewrite np_axes_app by (rewrite !pad_to_length; lia).
  rewrite H, np_axes_refl. reflexivity.
Qed.

Lemma np_bto_idx_aligned_app x1 : forall l1 x2 l2, length x1 = length l1 ->
  np_bto_idx_aligned (x1 ++ x2) (l1 ++ l2) = np_bto_idx_aligned x1 l1 ++ np_bto_idx_aligned x2 l2.
Proof.
  induction x1 as [|x x1 IH]; intros [|k l1] x2 l2 Hl; simpl in *; try discriminate; [reflexivity|].
  f_equal. apply IH. lia.
Qed.

Lemma np_bto_idx_aligned_inb x : forall i, inb i x -> np_bto_idx_aligned x i = i.
Proof.
  induction x as [|n x IH]; intros i H; inversion H; subst; simpl; [reflexivity|].
  rewrite IH by assumption. destruct (Z.eqb_spec n 1); [f_equal; lia | reflexivity].
Qed.

(* the trailing coordinate of an operand whose last extent is the common K is passed through *)
Lemma np_broadcast_to_idx_snoc pa K i k : (length pa <= length i)%nat -> 0 <= k < K ->
  np_broadcast_to_idx (pa ++ [K]) (i ++ [k]) = np_broadcast_to_idx pa i ++ [k].
Proof.
  intros Hl Hk. unfold np_broadcast_to_idx. rewrite !app_length. cbn [length].
  replace (length i + 1 - (length pa + 1))%nat with (length i - length pa)%nat by lia.
  rewrite skipn_app. replace (length i - length pa - length i)%nat with 0%nat by lia. cbn [skipn].
  rewrite np_bto_idx_aligned_app by (rewrite skipn_length; lia).
  f_equal. cbn. destruct (Z.eqb_spec K 1); [f_equal; lia | reflexivity].
Qed.

(* an operand that provides the trailing axes of the result exactly reads its own coordinates *)
Lemma np_broadcast_to_idx_suffix a pre i : inb i a ->
  np_broadcast_to_idx a (pre ++ i) = i.
Proof.
  intros H. unfold np_broadcast_to_idx. rewrite app_length. rewrite (inb_length _ _ H).
  replace (length pre + length a - length a)%nat with (length pre) by lia.
  rewrite skipn_app_exact. now apply np_bto_idx_aligned_inb.
Qed.

Lemma removelast_snoc {T} (p : list T) x : removelast (p ++ [x]) = p.
Proof. apply removelast_last. Qed.

Lemma inb_snoc i s k K : inb i s -> 0 <= k < K -> inb (i ++ [k]) (s ++ [K]).
Proof. intros H Hk. apply inb_app; [assumption|]. constructor; [lia | constructor]. Qed.

Lemma split_last1_inv l p x : split_last1 l = Some (p, x) -> l = p ++ [x].
Proof.
  intros H. destruct (exists_last1 l) as [q [y E]]; [destruct l; [discriminate | simpl; lia]|].
  subst l. rewrite split_last1_app in H. now injection H as -> ->.
Qed.
Lemma split_last2_inv l p x y : split_last2 l = Some (p, x, y) -> l = p ++ [x; y].
Proof.
  intros H. destruct (exists_last2 l) as [q [u [v E]]].
  { destruct l as [|? [|? ?]]; try discriminate; simpl; lia. }
  subst l. rewrite split_last2_app in H. now injection H as -> -> ->.
Qed.

Lemma np_bto_idx_aligned_ones r : forall l, length l = r -> np_bto_idx_aligned (ones r) l = repeat 0 r.
Proof. induction r as [|r IH]; intros [|k l] Hl; simpl in *; try discriminate; [reflexivity|]. f_equal. apply IH. lia. Qed.

(* (pa, 1..1) against pb: the ones stretch to pb, pa is kept *)
Lemma np_broadcast2_ones_mid pa pb : pos pa -> pos pb ->
  np_broadcast2 (pa ++ ones (length pb)) pb = Some (pa ++ pb).
Proof.
  intros Pa Pb. unfold np_broadcast2. rewrite app_length, ones_length.
  replace (Nat.max (length pa + length pb) (length pb)) with (length pa + length pb)%nat by lia.
  unfold pad_to. rewrite app_length, ones_length.
  replace (length pa + length pb - (length pa + length pb))%nat with 0%nat by lia.
  replace (length pa + length pb - length pb)%nat with (length pa) by lia. cbn [repeat app].
  rewrite np_axes_app by (now rewrite repeat_length).
  rewrite np_axes_ones_r by assumption. unfold ones. rewrite np_axes_ones_l by assumption. reflexivity.
Qed.

(* ---------- diagonal index: the code's fill loop is "place the two diagonal coordinates, copy the rest" ---------- *)
Lemma diag_fill_place a1 a2 d off : a1 <> a2 -> 0 <= off -> forall axes rest,
  diag_fill axes a1 a2 rest d off = place_from axes [a1; a2] rest [d + Z.max 0 (- off); d + Z.max 0 off].
Proof.
  intros Hne Hoff. induction axes as [|t axes IH]; intros rest; [reflexivity|].
  cbn [diag_fill place_from index_of].
  destruct (Nat.eqb_spec t a2) as [E2|N2].
  - subst t. destruct (Nat.eqb_spec a2 a1) as [E|_]; [congruence|].
    cbn [option_map nth]. rewrite IH. f_equal. lia.
  - destruct (Nat.eqb_spec t a1) as [E1|N1].
    + cbn [nth]. rewrite IH. f_equal. lia.
    + cbn [option_map]. destruct rest as [|x rest]; rewrite IH; reflexivity.
Qed.

Lemma remove_axes_free s a1 a2 : remove_axes s a1 a2 = extents_at s (free_axes_of (length s) [a1; a2]).
Proof.
  unfold remove_axes, extents_at, free_axes_of. f_equal. apply filter_ext. intros i.
  cbn [existsb]. now rewrite orb_false_r.
Qed.

Lemma diag_extent_np s off a1 a2 : 0 <= off -> 0 <= diag_extent s off a1 a2 ->
  diag_extent s off a1 a2 = np_diag_len s off a1 a2.
Proof.
  unfold diag_extent, np_diag_len. intros Hoff.
  replace (off <? 0) with false by (symmetry; apply Z.ltb_ge; lia).
  replace (0 <=? off) with true by (symmetry; apply Z.leb_le; lia).
  destruct (Z.ltb_spec 0 off); lia.
Qed.

Lemma norm_axis_nat n a : (a < n)%nat -> norm_axis n (Z.of_nat a) = Some a.
Proof.
  intros H. unfold norm_axis.
  replace (Z.of_nat a <? - Z.of_nat n) with false by (symmetry; apply Z.ltb_ge; lia).
  replace (Z.of_nat n <=? Z.of_nat a) with false by (symmetry; apply Z.leb_gt; lia).
  replace (Z.of_nat a <? 0) with false by (symmetry; apply Z.ltb_ge; lia).
  cbn [orb]. now rewrite Nat2Z.id.
Qed.
Lemma norm_axis_neg n a : (a < n)%nat -> norm_axis n (Z.of_nat a - Z.of_nat n) = Some a.
Proof.
  intros H. unfold norm_axis.
  replace (Z.of_nat a - Z.of_nat n <? - Z.of_nat n) with false by (symmetry; apply Z.ltb_ge; lia).
  replace (Z.of_nat n <=? Z.of_nat a - Z.of_nat n) with false by (symmetry; apply Z.leb_gt; lia).
  replace (Z.of_nat a - Z.of_nat n <? 0) with true by (symmetry; apply Z.ltb_lt; lia).
  cbn [orb]. f_equal. lia.
Qed.

Lemma nth_map_zrange {T} (g : Z -> T) P p dflt : 0 <= p < P -> nth (Z.to_nat p) (map g (zrange P)) dflt = g p.
Proof.
  intros H. unfold zrange, zs. rewrite map_map.
  rewrite nth_indep with (d' := g (Z.of_nat 0)) by (rewrite map_length, seq_length; lia).
  rewrite (map_nth (fun k => g (Z.of_nat k))). rewrite seq_nth by lia. f_equal. lia.
Qed.

(* the p-th element in C order is the one at the unravelled index *)
Lemma nth_lex_enum s p : pos s -> 0 <= p < prod s -> nth (Z.to_nat p) (lex_enum s) [] = compute_indices p s.
Proof.
  intros Hp H. rewrite <- (ndindex_is_lex_enum s Hp). unfold ndindex_size. rewrite product_eq_prod.
  now rewrite nth_map_zrange.
Qed.

Lemma match_len2 {T} (sb : list Z) (x y : T) : (2 <= length sb)%nat ->
  match sb with | [_] => x | _ => y end = y.
Proof. destruct sb as [|? [|? ?]]; simpl; intros; try lia; reflexivity. Qed.

Lemma np_dot_shape_nd pa K pb K' N :
  np_dot_shape (pa ++ [K]) (pb ++ [K'; N]) = if K =? K' then Some (pa ++ pb ++ [N]) else None.
Proof.
  unfold np_dot_shape. rewrite split_last1_app.
  pose proof (split_last2_app pb K' N) as Hs.
  assert (Hl : (2 <= length (pb ++ [K'; N]))%nat) by (rewrite app_length; simpl; lia).
  destruct (pb ++ [K'; N]) as [|b0 [|b1 t]]; simpl in Hl; try lia.
  rewrite Hs. reflexivity.
Qed.

(* ---------- tile ---------- *)
Lemma tile_shape_rev_ones s : tile_shape_rev s (ones (length s)) = s.
Proof. induction s as [|x s IH]; [reflexivity|]. cbn [length ones repeat tile_shape_rev]. fold (ones (length s)). rewrite IH. f_equal. lia. Qed.

Lemma rev_ones r : rev (ones r) = ones r.
Proof. apply rev_repeat. Qed.

Lemma shape_tile_ones s : shape_tile s (ones (length s)) = s.
Proof. unfold shape_tile. rewrite rev_ones, <- (rev_length s), tile_shape_rev_ones. apply rev_involutive. Qed.

Lemma shape_tile_last pa K N : shape_tile (pa ++ [K]) (ones (length pa) ++ [N]) = pa ++ [K * N].
Proof.
  unfold shape_tile. rewrite !rev_app_distr, rev_ones. cbn [rev app tile_shape_rev].
  rewrite <- (rev_length pa), tile_shape_rev_ones. cbn [rev]. now rewrite rev_involutive.
Qed.

Lemma tile_idx_rev_inb s : forall i, inb i s -> tile_idx_rev s i = i.
Proof.
  induction s as [|n s IH]; intros i H; inversion H; subst; [reflexivity|].
  cbn [tile_idx_rev]. rewrite IH by assumption. f_equal. apply Z.mod_small; lia.
Qed.

Lemma tile_idx_inb s i : inb i s -> tile_idx s i = i.
Proof. intros H. unfold tile_idx. rewrite tile_idx_rev_inb by (now apply inb_rev). apply rev_involutive. Qed.

Lemma tile_idx_last pa K ia q : inb ia pa -> tile_idx (pa ++ [K]) (ia ++ [q]) = ia ++ [q mod K].
Proof.
  intros H. unfold tile_idx. rewrite !rev_app_distr. cbn [rev app tile_idx_rev].
  rewrite tile_idx_rev_inb by (now apply inb_rev). cbn [rev]. now rewrite rev_involutive.
Qed.

(* ---------- transpose with the last two axes exchanged ---------- *)
Lemma upd_app {T} (pre : list T) x r h : upd (pre ++ x :: r) (length pre) h = pre ++ h :: r.
Proof. induction pre as [|y pre IH]; [reflexivity|]. cbn [app length upd]. now rewrite IH. Qed.

Lemma combine_app {T U} (a1 : list T) : forall (b1 : list U) a2 b2, length a1 = length b1 ->
  combine (a1 ++ a2) (b1 ++ b2) = combine a1 b1 ++ combine a2 b2.
Proof.
  induction a1 as [|x a1 IH]; intros [|y b1] a2 b2 H; simpl in *; try discriminate; [reflexivity|].
  f_equal. apply IH. lia.
Qed.

Lemma fold_upd_prefix (l : list Z) : forall pre junk, (length l <= length junk)%nat ->
  fold_left (fun ret p => upd ret (snd p) (fst p)) (combine l (seq (length pre) (length l))) (pre ++ junk)
  = pre ++ l ++ skipn (length l) junk.
Proof.
  induction l as [|h l IH]; intros pre junk Hl; [reflexivity|].
  destruct junk as [|j junk]; [simpl in Hl; lia|].
  cbn [length seq combine fold_left fst snd]. rewrite upd_app.
  replace (pre ++ h :: junk) with ((pre ++ [h]) ++ junk) by (now rewrite <- app_assoc).
  replace (S (length pre)) with (length (pre ++ [h])) by (rewrite app_length; simpl; lia).
  rewrite IH by (simpl in Hl; lia). rewrite <- app_assoc. reflexivity.
Qed.

Lemma scatter_swap l x y : scatter (l ++ [x; y]) (swap_last2 (length l + 2)) = l ++ [y; x].
Proof.
  unfold scatter, swap_last2.
  replace (2 <=? length l + 2)%nat with true by (symmetry; apply Nat.leb_le; lia).
  replace (length l + 2 - 2)%nat with (length l) by lia.
  replace (length l + 2 - 1)%nat with (S (length l)) by lia.
  rewrite combine_app by (now rewrite seq_length). rewrite fold_left_app.
  rewrite app_length. cbn [length].
  pose proof (fold_upd_prefix l [] (repeat 0 (length l + 2))) as G. cbn [app length] in G.
  rewrite G by (rewrite repeat_length; lia). clear G.
  replace (skipn (length l) (repeat 0 (length l + 2))) with [0; 0].
  2:{ rewrite repeat_app, skipn_app, repeat_length, Nat.sub_diag, skipn_all2 by (rewrite repeat_length; lia). reflexivity. }
  cbn [combine fold_left fst snd].
  replace (l ++ [0; 0]) with ((l ++ [0]) ++ [0]) by (now rewrite <- app_assoc).
  replace (S (length l)) with (length (l ++ [0])) by (rewrite app_length; simpl; lia).
  rewrite upd_app. rewrite <- app_assoc. cbn [app]. rewrite upd_app. reflexivity.
Qed.

Lemma map_nth_seq (l r : list Z) : map (fun i => nth i (l ++ r) 0) (seq 0 (length l)) = l.
Proof.
  revert r. induction l as [|x l IH]; intros r; [reflexivity|].
  cbn [length seq map app nth]. f_equal. rewrite <- seq_shift, map_map. apply IH.
Qed.

Lemma shape_transpose_swap p x y : shape_transpose (p ++ [x; y]) (swap_last2 (length p + 2)) = p ++ [y; x].
Proof.
  unfold shape_transpose, swap_last2.
  replace (2 <=? length p + 2)%nat with true by (symmetry; apply Nat.leb_le; lia).
  replace (length p + 2 - 2)%nat with (length p) by lia.
  replace (length p + 2 - 1)%nat with (S (length p)) by lia.
  rewrite map_app, map_nth_seq. f_equal. cbn [map].
  rewrite !app_nth2 by lia. replace (S (length p) - length p)%nat with 1%nat by lia. rewrite Nat.sub_diag. reflexivity.
Qed.

Section Routines.
Variable A : Type.
Variable zero : A.
Variables add mul : A -> A -> A.
Hypothesis add_assoc : forall x y z, add (add x y) z = add x (add y z).
Hypothesis add_0_r : forall x, add x zero = x.

Notation view := (view A).

(* two views agree: same shape and equal elements at every in-bounds index *)
Definition agrees (m v : view) : Prop :=
  vshape m = vshape v /\ forall i, inb i (vshape v) -> vat m i = vat v i.

(* ---------- vecdot ---------- *)
Theorem vecdot_spec sa sb fa fb v : pos sa -> pos sb ->
  np_vecdot A zero add mul sa sb fa fb = Some v ->
  exists m, vecdot A zero add mul sa sb fa fb = Ok m /\ agrees m v.
Proof.
  intros Pa Pb H. unfold np_vecdot in H.
  destruct (np_vecdot_shape sa sb) as [s|] eqn:Es; [|discriminate]. injection H as <-.
  unfold np_vecdot_shape in Es.
  destruct (split_last1 sa) as [[pa K]|] eqn:Ea; [|discriminate].
  destruct (split_last1 sb) as [[pb K']|] eqn:Eb; [|discriminate].
  assert (sa = pa ++ [K]) as ->.
  { destruct (exists_last1 sa) as [p [x E]]; [destruct sa; [discriminate | simpl; lia]|].
    subst sa. rewrite split_last1_app in Ea. now injection Ea as -> ->. }
  assert (sb = pb ++ [K']) as ->.
  { destruct (exists_last1 sb) as [p [x E]]; [destruct sb; [discriminate | simpl; lia]|].
    subst sb. rewrite split_last1_app in Eb. now injection Eb as -> ->. }
  destruct (Z.eqb_spec K K') as [<-|]; [|discriminate].
  pose proof (np_broadcast2_length _ _ _ Es) as Hls.
  pose proof (np_broadcast2_app_common _ _ [K] _ Es) as Hb.
  unfold vecdot.
  destruct (v_mul_spec A mul (View (pa ++ [K]) fa) (View (pb ++ [K]) fb) _ Pa Pb Hb) as [m [Em [Sm Fm]]].
  rewrite Em. cbn [lift rbind].
  eexists. split; [reflexivity|].
  destruct (v_sum_last1_spec A zero add add_assoc add_0_r m s K Sm) as [S1 F1].
  split; [exact S1|]. cbn [vshape vat]. intros i Hi. rewrite F1.
  rewrite atneg_app1. f_equal. apply map_ext_in. intros k Hk. apply in_zrange in Hk.
  destruct (Fm (i ++ [k]) (inb_snoc _ _ _ _ Hi Hk)) as [-> _]. cbn [vshape vat].
  pose proof (inb_length _ _ Hi) as Hli.
  rewrite !np_broadcast_to_idx_snoc by lia. rewrite !removelast_snoc. reflexivity.
Qed.

(* ---------- inner ---------- *)
Theorem inner_spec sa sb fa fb v : pos sa -> pos sb ->
  np_inner A zero add mul sa sb fa fb = Some v ->
  exists m, inner A zero add mul sa sb fa fb = Ok m /\ agrees m v.
Proof.
  intros Pa Pb H. unfold np_inner in H.
  destruct (np_inner_shape sa sb) as [s|] eqn:Es; [|discriminate]. injection H as <-.
  unfold np_inner_shape in Es.
  destruct (split_last1 sa) as [[pa K]|] eqn:Ea; [|discriminate].
  destruct (split_last1 sb) as [[pb K']|] eqn:Eb; [|discriminate].
  apply split_last1_inv in Ea, Eb. subst sa sb.
  destruct (Z.eqb_spec K K') as [<-|]; [|discriminate]. injection Es as <-.
  apply pos_app in Pa as [Ppa PK]. apply pos_app in Pb as [Ppb _].
  unfold inner.
  assert (Edst : inner_lhs_reshape (pa ++ [K]) (pb ++ [K]) = pa ++ ones (length pb) ++ [K]).
  { unfold inner_lhs_reshape. rewrite !app_length. cbn [length]. rewrite atneg_app1.
    replace (length pa + 1 - 1)%nat with (length pa) by lia. rewrite firstn_app_exact.
    do 2 f_equal. f_equal. lia. }
  rewrite Edst. set (dst := pa ++ ones (length pb) ++ [K]).
  assert (Pdst : pos dst) by (unfold dst; apply pos_app; split; [assumption | apply pos_app; split; [apply pos_ones | assumption]]).
  unfold v_reshape. cbn [vshape].
  rewrite shape_reshape_ok.
  2:{ unfold dst. destruct pa; discriminate || (destruct (length pb); discriminate). }
  2: exact Pdst.
  2: apply pos_app; split; assumption.
  2:{ unfold dst. rewrite !prod_app, prod_ones. ring. }
  cbn [lift rbind].
  assert (Hb : np_broadcast2 dst (pb ++ [K]) = Some ((pa ++ pb) ++ [K])).
  { unfold dst. rewrite app_assoc. apply np_broadcast2_app_common. now apply np_broadcast2_ones_mid. }
  destruct (v_mul_spec A mul (View dst (fun i => fa (reshape_idx (pa ++ [K]) dst i))) (View (pb ++ [K]) fb) _ Pdst
              (proj2 (pos_app _ _) (conj Ppb PK)) Hb) as [m [Em [Sm Fm]]].
  cbn [vshape vat]. rewrite Em. cbn [lift rbind]. eexists. split; [reflexivity|].
  destruct (v_sum_last1_spec A zero add add_assoc add_0_r m (pa ++ pb) K Sm) as [S1 F1].
  split; [exact S1|]. cbn [vshape vat]. intros i Hi. rewrite F1.
  rewrite atneg_app1. f_equal. apply map_ext_in. intros k Hk. apply in_zrange in Hk.
  destruct (Fm (i ++ [k]) (inb_snoc _ _ _ _ Hi Hk)) as [-> _]. cbn [vshape vat].
  rewrite app_length. cbn [length]. replace (length pa + 1 - 1)%nat with (length pa) by lia.
  destruct (inb_app_inv _ _ _ Hi) as [Hia Hib].
  set (ia := firstn (length pa) i) in *. set (ib := skipn (length pa) i) in *.
  assert (Ei : i = ia ++ ib) by (symmetry; apply firstn_skipn).
  f_equal.
  - f_equal.
    assert (Eb' : np_broadcast_to_idx dst (i ++ [k]) = ia ++ repeat 0 (length pb) ++ [k]).
    { unfold np_broadcast_to_idx.
      replace (length (i ++ [k]) - length dst)%nat with 0%nat.
      2:{ unfold dst. rewrite (inb_length _ _ (inb_snoc _ _ _ _ Hi Hk)). rewrite !app_length, ones_length. cbn [length]. lia. }
      cbn [skipn]. unfold dst. rewrite Ei, <- app_assoc.
      rewrite np_bto_idx_aligned_app by (symmetry; now apply inb_length).
      rewrite np_bto_idx_aligned_app by (rewrite ones_length; symmetry; now apply inb_length).
      rewrite (np_bto_idx_aligned_inb _ _ Hia), np_bto_idx_aligned_ones by (now apply inb_length).
      cbn. destruct (Z.eqb_spec K 1); [do 3 f_equal; lia | reflexivity]. }
    rewrite Eb'. apply reshape_idx_spec.
    + apply pos_app; split; assumption.
    + exact Pdst.
    + unfold dst. apply inb_app; [assumption|]. apply inb_app; [apply inb_zeros | constructor; [lia | constructor]].
    + apply inb_snoc; assumption.
    + unfold dst. rewrite horner_app by (now apply inb_length).
      rewrite horner_app by (now rewrite ones_length, repeat_length).
      rewrite horner_zeros. rewrite horner_app by (now apply inb_length). reflexivity.
  - f_equal. rewrite Ei at 1. rewrite <- app_assoc. apply np_broadcast_to_idx_suffix.
    apply inb_snoc; assumption.
Qed.

(* ---------- diagonal / trace (offset >= 0) ---------- *)
Theorem diagonal_spec s f off ax1 ax2 a1 a2 v :
  norm_axis (length s) ax1 = Some a1 -> norm_axis (length s) ax2 = Some a2 ->
  0 <= off -> 0 <= diag_extent s off a1 a2 ->
  np_diagonal A s f off a1 a2 = Some v ->
  exists m, diagonal A s f off ax1 ax2 = Ok m /\ agrees m v.
Proof.
  intros N1 N2 Hoff He H. unfold np_diagonal in H.
  destruct (np_diagonal_shape s off a1 a2) as [d|] eqn:Ed; [|discriminate]. injection H as <-.
  unfold np_diagonal_shape in Ed.
  destruct ((a1 <? length s)%nat && (a2 <? length s)%nat && negb (a1 =? a2)%nat) eqn:C; [|discriminate].
  injection Ed as <-.
  apply andb_prop in C as [C C3]. apply andb_prop in C as [C1 C2].
  apply Nat.ltb_lt in C1, C2. apply negb_true_iff, Nat.eqb_neq in C3.
  unfold diagonal. rewrite N1, N2.
  replace (length s <? 2)%nat with false by (symmetry; apply Nat.ltb_ge; lia).
  replace (a1 =? a2)%nat with false by (symmetry; now apply Nat.eqb_neq).
  replace (diag_extent s off a1 a2 <? 0) with false by (symmetry; apply Z.ltb_ge; lia).
  replace (off <? 0) with false by (symmetry; apply Z.ltb_ge; lia).
  cbn [orb andb]. eexists. split; [reflexivity|]. split; cbn [vshape vat].
  - unfold shape_diagonal. rewrite remove_axes_free, diag_extent_np by assumption. reflexivity.
  - intros i _. unfold diagonal_idx, np_diagonal_idx, place. now rewrite diag_fill_place.
Qed.

Theorem trace_spec s f off ax1 ax2 a1 a2 v :
  norm_axis (length s) ax1 = Some a1 -> norm_axis (length s) ax2 = Some a2 ->
  0 <= off -> 1 <= diag_extent s off a1 a2 ->
  np_trace A zero add s f off a1 a2 = Some v ->
  exists m, trace A zero add s f off ax1 ax2 = Ok m /\ agrees m v.
Proof.
  intros N1 N2 Hoff He H. unfold np_trace in H.
  destruct (np_diagonal_shape s off a1 a2) as [d|] eqn:Ed; [|discriminate]. injection H as <-.
  destruct (diagonal_spec s f off ax1 ax2 a1 a2 _ N1 N2 Hoff ltac:(lia) ltac:(unfold np_diagonal; rewrite Ed; reflexivity))
    as [m [Em [Sm Fm]]].
  unfold trace. rewrite Em. cbn [rbind]. cbn [vshape vat] in Sm, Fm.
  unfold np_diagonal_shape in Ed.
  destruct ((a1 <? length s)%nat && (a2 <? length s)%nat && negb (a1 =? a2)%nat) eqn:C; [|discriminate].
  injection Ed as <-. rewrite Sm, atneg_app1.
  rewrite <- diag_extent_np by lia.
  replace (diag_extent s off a1 a2 <=? 0) with false by (symmetry; apply Z.leb_gt; lia).
  eexists. split; [reflexivity|].
  rewrite <- diag_extent_np in Sm by lia.
  destruct (v_sum_last1_spec A zero add add_assoc add_0_r m _ _ Sm) as [S1 F1].
  split; cbn [vshape vat].
  - rewrite S1. now rewrite removelast_snoc.
  - intros i _. rewrite F1. f_equal. apply map_ext_in. intros k Hk.
    (* the diagonal view's element does not depend on bounds *)
    unfold diagonal in Em. rewrite N1, N2 in Em.
    destruct ((length s <? 2)%nat || (a1 =? a2)%nat); [discriminate|].
    destruct (diag_extent s off a1 a2 <? 0); [discriminate|].
    destruct ((off <? 0) && (0 <? diag_extent s off a1 a2)); [discriminate|].
    injection Em as <-. cbn [vat].
    apply andb_prop in C as [_ C3]. apply negb_true_iff, Nat.eqb_neq in C3.
    unfold diagonal_idx, np_diagonal_idx, place. rewrite removelast_snoc, last_last.
    now rewrite diag_fill_place.
Qed.

(* ---------- outer ---------- *)
Lemma flatten_spec s (f : list Z -> A) : pos s ->
  exists l, v_flatten A (View s f) = Some l /\ vshape l = [prod s] /\
    forall p, 0 <= p < prod s -> vat l [p] = flat_at A s f p.
Proof.
  intros Hp. unfold v_flatten, v_reshape. cbn [vshape vat]. rewrite product_eq_prod.
  pose proof (prod_pos _ Hp) as HP.
  rewrite shape_reshape_ok; [| discriminate | repeat constructor; lia | assumption | cbn [prod]; lia].
  eexists. split; [reflexivity|]. split; [reflexivity|]. intros p Hr. cbn [vat]. unfold flat_at.
  rewrite nth_lex_enum by assumption. f_equal. unfold reshape_idx. f_equal.
  rewrite compute_strides_eq, compute_offset_eq. cbn [off strides prod]. lia.
Qed.

Theorem outer_spec sa sb fa fb : pos sa -> pos sb ->
  exists m, outer A mul sa sb fa fb = Ok m /\ agrees m (np_outer A mul sa sb fa fb).
Proof.
  intros Pa Pb. unfold outer.
  destruct (flatten_spec sa fa Pa) as [l [El [Sl Fl]]]. destruct (flatten_spec sb fb Pb) as [r [Er [Sr Fr]]].
  rewrite El, Er. cbn [lift rbind].
  pose proof (prod_pos _ Pa) as HP. pose proof (prod_pos _ Pb) as HQ.
  set (P := prod sa) in *. set (Q := prod sb) in *.
  assert (E2 : shape_reshape [P] [-1; 1] = Some [P; 1]).
  { unfold shape_reshape, reshape_numel, product. cbn.
    rewrite Z.mod_1_r. cbn. rewrite Z.div_1_r. destruct P; reflexivity. }
  unfold v_reshape. rewrite Sl, E2. cbn [lift rbind].
  assert (Hb : np_broadcast2 [P; 1] [Q] = Some [P; Q]).
  { unfold np_broadcast2, pad_to. cbn. rewrite !orb_true_r. cbn.
    rewrite Z.max_l by lia. replace (Z.max 1 Q) with Q by lia. reflexivity. }
  destruct (v_mul_spec A mul (View [P; 1] (fun i => vat l (reshape_idx [P] [P; 1] i))) r [P; Q]) as [m [Em [Sm Fm]]].
  { repeat constructor; lia. } { rewrite Sr. repeat constructor; lia. } { rewrite Sr. exact Hb. }
  rewrite Em. cbn [lift]. eexists. split; [reflexivity|]. split; [exact Sm|].
  cbn [np_outer vshape vat np_outer_shape]. fold P Q. intros i Hi.
  inversion Hi as [|p ? i1 ? Hp Hi1]; subst. inversion Hi1 as [|q ? i2 ? Hq Hi2]; subst. inversion Hi2; subst.
  destruct (Fm [p; q] Hi) as [-> _]. cbn [vshape vat nth]. rewrite Sr.
  assert (B1 : np_broadcast_to_idx [P; 1] [p; q] = [p; 0]).
  { unfold np_broadcast_to_idx. cbn. destruct (Z.eqb_spec P 1); [f_equal; lia | reflexivity]. }
  assert (B2 : np_broadcast_to_idx [Q] [p; q] = [q]).
  { unfold np_broadcast_to_idx. cbn. destruct (Z.eqb_spec Q 1); [f_equal; lia | reflexivity]. }
  rewrite B1, B2.
  rewrite (reshape_idx_spec [P] [P; 1] [p; 0] [p]); try (repeat constructor; lia); [|cbn; lia].
  rewrite Fl, Fr by lia. reflexivity.
Qed.

(* ---------- dot ---------- *)
Lemma reshape_same s i : pos s -> inb i s -> reshape_idx s s i = i.
Proof. intros Hp Hi. now apply reshape_idx_spec. Qed.

(* second operand 1-d: sum over the last axis of a *)
Lemma dot_spec_1d pa K fa fb v : pos (pa ++ [K]) ->
  np_dot A zero add mul (pa ++ [K]) [K] fa fb = Some v ->
  exists m, dot A zero add mul (pa ++ [K]) [K] fa fb = Ok m /\ agrees m v.
Proof.
  intros Pa H. pose proof Pa as Pa'. apply pos_app in Pa' as [Ppa PK].
  unfold np_dot, np_dot_shape in H. rewrite split_last1_app, Z.eqb_refl in H. injection H as <-.
  unfold dot, dot_lhs_tile, dot_lhs_reshape. cbn [length Nat.ltb Nat.leb].
  rewrite !app_length. cbn [length].
  replace (Nat.max (length pa + 1 + 1 - 2) (length pa + 1) - (length pa + 1 - 1) - 1)%nat with 0%nat by lia.
  replace (length pa + 1 - 1)%nat with (length pa) by lia. rewrite firstn_app_exact.
  cbn [ones repeat app]. change (atneg [K] 1) with K.
  replace (ones (length pa + 1)) with (ones (length (pa ++ [K]))) by (now rewrite app_length).
  unfold v_tile, v_reshape. cbn [vshape vat]. rewrite shape_tile_ones.
  rewrite shape_reshape_ok; [| destruct pa; discriminate | assumption | assumption | reflexivity].
  cbn [lift rbind]. unfold v_transpose. cbn [vshape vat].
  change (swap_last2 1) with [0%nat]. change (shape_transpose [K] [0%nat]) with [K].
  assert (Hb : np_broadcast2 (pa ++ [K]) ([] ++ [K]) = Some (pa ++ [K])).
  { apply np_broadcast2_app_common. now apply np_broadcast2_nil_r. }
  cbn [app] in Hb.
  destruct (v_mul_spec A mul (View (pa ++ [K]) (fun i => fa (tile_idx (pa ++ [K]) (reshape_idx (pa ++ [K]) (pa ++ [K]) i))))
              (View [K] (fun i => fb (scatter i [0%nat]))) _ Pa PK Hb) as [m [Em [Sm Fm]]].
  rewrite Em. cbn [lift rbind]. eexists. split; [reflexivity|].
  destruct (v_sum_last1_spec A zero add add_assoc add_0_r m pa K Sm) as [S1 F1].
  split; [exact S1|]. cbn [vshape vat]. intros i Hi. rewrite F1.
  rewrite atneg_app1. f_equal. apply map_ext_in. intros k Hk. apply in_zrange in Hk.
  pose proof (inb_snoc _ _ _ _ Hi Hk) as Hik.
  destruct (Fm (i ++ [k]) Hik) as [-> _]. cbn [vshape vat].
  pose proof (np_broadcast_to_idx_suffix (pa ++ [K]) [] (i ++ [k]) Hik) as G. cbn [app] in G. rewrite G. clear G.
  rewrite (np_broadcast_to_idx_suffix [K] i [k]) by (constructor; [lia | constructor]).
  rewrite reshape_same, tile_idx_inb by assumption.
  rewrite <- (inb_length _ _ Hi), firstn_all. reflexivity.
Qed.

(* second operand at least 2-d: last axis of a with the second to last axis of b *)
Lemma dot_spec_nd pa pb K N fa fb v : pos (pa ++ [K]) -> pos (pb ++ [K; N]) ->
  np_dot A zero add mul (pa ++ [K]) (pb ++ [K; N]) fa fb = Some v ->
  exists m, dot A zero add mul (pa ++ [K]) (pb ++ [K; N]) fa fb = Ok m /\ agrees m v.
Proof.
  intros Pa Pb H. pose proof Pa as Pa'. apply pos_app in Pa' as [Ppa PK].
  pose proof Pb as Pb'. apply pos_app in Pb' as [Ppb PKN].
  assert (HK : 1 <= K) by (inversion PK; lia).
  assert (HN : 1 <= N) by (inversion PKN as [|? ? ? P2]; inversion P2; lia).
  assert (Lsb : length (pb ++ [K; N]) = (length pb + 2)%nat) by (rewrite app_length; reflexivity).
  unfold np_dot in H. rewrite np_dot_shape_nd, Z.eqb_refl in H. injection H as <-.
  unfold dot, dot_lhs_tile, dot_lhs_reshape.
  rewrite Lsb. rewrite !app_length. cbn [length].
  replace (1 <? length pb + 2)%nat with true by (symmetry; apply Nat.ltb_lt; lia).
  replace (length pa + 1 - 1)%nat with (length pa) by lia. rewrite firstn_app_exact.
  replace (Nat.max (length pa + 1 + (length pb + 2) - 2) (length pa + 1) + 1 - length pa - 2)%nat with (length pb) by lia.
  rewrite atneg_app2_1, atneg_app2_2.
  set (dst := pa ++ ones (length pb) ++ [N; K]).
  assert (Pdst : pos dst).
  { unfold dst. apply pos_app; split; [assumption|]. apply pos_app; split; [apply pos_ones|]. repeat constructor; lia. }
  unfold v_tile, v_reshape. cbn [vshape vat]. rewrite shape_tile_last.
  assert (Ptile : pos (pa ++ [K * N])) by (apply pos_app; split; [assumption | repeat constructor; nia]).
  rewrite shape_reshape_ok; [| unfold dst; destruct pa; [destruct (length pb)|]; discriminate | exact Pdst | exact Ptile |].
  2:{ unfold dst. rewrite !prod_app, prod_ones. cbn [prod]. ring. }
  cbn [lift rbind]. unfold v_transpose. cbn [vshape vat].
  rewrite shape_transpose_swap.
  assert (Hb : np_broadcast2 dst (pb ++ [N; K]) = Some ((pa ++ pb) ++ [N; K])).
  { unfold dst. rewrite app_assoc. apply np_broadcast2_app_common. now apply np_broadcast2_ones_mid. }
  assert (Ptr : pos (pb ++ [N; K])) by (apply pos_app; split; [assumption | repeat constructor; lia]).
  destruct (v_mul_spec A mul
              (View dst (fun i => fa (tile_idx (pa ++ [K]) (reshape_idx (pa ++ [K * N]) dst i))))
              (View (pb ++ [N; K]) (fun i => fb (scatter i (swap_last2 (length pb + 2))))) _ Pdst Ptr Hb) as [m [Em [Sm Fm]]].
  rewrite Em. cbn [lift rbind]. eexists. split; [reflexivity|].
  assert (Sm' : vshape m = (pa ++ pb ++ [N]) ++ [K]) by (rewrite Sm; now rewrite <- !app_assoc).
  destruct (v_sum_last1_spec A zero add add_assoc add_0_r m _ K Sm') as [S1 F1].
  split; [exact S1|]. cbn [vshape vat]. intros i Hi. rewrite F1.
  rewrite atneg_app1. f_equal. apply map_ext_in. intros k Hk. apply in_zrange in Hk.
  (* decompose the result index i = ia ++ ib ++ [n] *)
  destruct (inb_app_inv _ _ _ Hi) as [Hia Hr].
  set (ia := firstn (length pa) i) in *. set (r := skipn (length pa) i) in *.
  destruct (inb_app_inv _ _ _ Hr) as [Hib Hn].
  set (ib := firstn (length pb) r) in *.
  assert (Er : r = ib ++ skipn (length pb) r) by (symmetry; apply firstn_skipn).
  inversion Hn as [|n ? t ? Hnb Ht Et]; subst. inversion Ht; subst. rewrite <- Et in Er.
  assert (Ei : i = ia ++ ib ++ [n]) by (rewrite <- Er; symmetry; apply firstn_skipn).
  assert (Hfull : inb ((ia ++ ib ++ [n]) ++ [k]) ((pa ++ pb) ++ [N; K])).
  { rewrite <- !app_assoc. apply inb_app; [assumption|]. apply inb_app; [assumption|]. repeat constructor; lia. }
  rewrite Ei. destruct (Fm _ Hfull) as [-> _]. cbn [vshape vat].
  rewrite match_len2 by lia.
  f_equal.
  - (* first operand *)
    f_equal.
    assert (Eb' : np_broadcast_to_idx dst ((ia ++ ib ++ [n]) ++ [k]) = ia ++ repeat 0 (length pb) ++ [n; k]).
    { unfold np_broadcast_to_idx.
      replace (length ((ia ++ ib ++ [n]) ++ [k]) - length dst)%nat with 0%nat.
      2:{ rewrite (inb_length _ _ Hfull). unfold dst. rewrite !app_length, ones_length. cbn [length]. lia. }
      cbn [skipn]. unfold dst. rewrite <- !app_assoc. cbn [app].
      rewrite np_bto_idx_aligned_app by (symmetry; now apply inb_length).
      rewrite np_bto_idx_aligned_app by (rewrite ones_length; symmetry; now apply inb_length).
      rewrite (np_bto_idx_aligned_inb _ _ Hia), np_bto_idx_aligned_ones by (now apply inb_length).
      rewrite np_bto_idx_aligned_inb by (repeat constructor; lia). reflexivity. }
    rewrite Eb'.
    rewrite (reshape_idx_spec (pa ++ [K * N]) dst _ (ia ++ [n * K + k])).
    + rewrite tile_idx_last by assumption. do 2 f_equal.
      rewrite Z.add_comm, Z.mod_add by lia. apply Z.mod_small; lia.
    + exact Ptile.
    + exact Pdst.
    + unfold dst. apply inb_app; [assumption|]. apply inb_app; [apply inb_zeros | repeat constructor; lia].
    + apply inb_snoc; [assumption | nia].
    + unfold dst. rewrite horner_app by (now apply inb_length).
      rewrite horner_app by (now rewrite ones_length, repeat_length).
      rewrite horner_zeros. rewrite horner_app by (now apply inb_length). cbn [horner]. ring.
  - (* second operand *)
    f_equal.
    replace ((ia ++ ib ++ [n]) ++ [k]) with (ia ++ (ib ++ [n; k])) by (now rewrite <- !app_assoc).
    rewrite np_broadcast_to_idx_suffix by (apply inb_app; [assumption | repeat constructor; lia]).
    rewrite <- (inb_length _ _ Hib) at 1. rewrite scatter_swap.
    rewrite Er.
    rewrite app_length. cbn [length]. replace (length ib + 1 - 1)%nat with (length ib) by lia.
    rewrite firstn_app_exact, skipn_app_exact. reflexivity.
Qed.

Theorem dot_spec sa sb fa fb v : pos sa -> pos sb ->
  np_dot A zero add mul sa sb fa fb = Some v ->
  exists m, dot A zero add mul sa sb fa fb = Ok m /\ agrees m v.
Proof.
  intros Pa Pb H. pose proof H as H0. unfold np_dot in H0.
  destruct (np_dot_shape sa sb) as [s|] eqn:Es; [|discriminate]. clear H0.
  unfold np_dot_shape in Es.
  destruct (split_last1 sa) as [[pa K]|] eqn:Ea; [|discriminate].
  apply split_last1_inv in Ea. subst sa.
  destruct sb as [|k' [|b1 sb']]; [discriminate| |].
  - destruct (Z.eqb_spec K k') as [<-|]; [|discriminate]. now apply dot_spec_1d.
  - destruct (split_last2 (k' :: b1 :: sb')) as [[[pb K'] N]|] eqn:Eb; [|discriminate].
    apply split_last2_inv in Eb. rewrite Eb in *.
    destruct (Z.eqb_spec K K') as [<-|]; [|discriminate]. now apply dot_spec_nd.
Qed.

End Routines.
