From NM Require Import Base Index Broadcast BroadcastProofs Views ViewsProofs Select Linalg LinalgProofs Accept.
Local Open Scope Z_scope.

Lemma status_option_eq {A B} (o : option A) (o' : option B) :
  is_some o = is_some o' -> status_of_option o true = np_status (is_some o').
Proof. intros H. unfold status_of_option, np_status. rewrite <- H. destruct o; reflexivity. Qed.

Lemma st_broadcast_shape_iff a b : pos a -> pos b -> st_broadcast_shape a b = np_status (np_broadcast_ok a b).
Proof. intros Ha Hb. apply status_option_eq. unfold np_broadcast_ok. now rewrite (broadcast_shape2_np a b Ha Hb). Qed.

Lemma st_broadcast_to_iff a b : st_broadcast_to a b = np_status (np_broadcast_to_ok a b).
Proof.
  apply status_option_eq. unfold np_broadcast_to_ok. rewrite <- (shape_broadcast_to_shape a b).
  destruct (shape_broadcast_to a b); reflexivity.
Qed.

Lemma st_reshape_iff src dst : pos src -> prod src < 2 ^ 64 -> dst <> [] -> prod (np_known dst) < 2 ^ 64 ->
  st_reshape src dst = np_status (np_reshape_ok src dst).
Proof. intros H1 H2 H3 H4. apply status_option_eq. unfold np_reshape_ok. now rewrite (shape_reshape_np src dst H1 H2 H3 H4). Qed.

Lemma st_matmul_shape_iff a b : (1 <= length a)%nat -> (1 <= length b)%nat -> pos a -> pos b ->
  st_matmul_shape a b = np_status (np_matmul_ok a b).
Proof. intros H1 H2 H3 H4. apply status_option_eq. unfold np_matmul_ok. now rewrite (shape_matmul_spec a b H1 H2 H3 H4). Qed.

Section PipeP.
Context {V : Type}.
Implicit Types (fs : list (@stage V)).

Lemma run_none fs : run_pipeline fs None = None.
Proof. induction fs as [|f fs IH]; [reflexivity | exact IH]. Qed.

(* once a stage yields Nothing the result is Nothing and no later stage is called *)
Lemma nothing_propagates fs1 f fs2 (o : option V) :
  (forall x, run_pipeline fs1 o = Some x -> f x = None) ->
  run_pipeline (fs1 ++ f :: fs2) o = None
  /\ (length (called (fs1 ++ f :: fs2) o) <= length fs1 + 1)%nat.
Proof.
  revert o. induction fs1 as [|g fs1 IH]; intros o H.
  - cbn [app]. destruct o as [x|]; cbn.
    + unfold run_pipeline in *. cbn [fold_left lift]. rewrite (H x eq_refl). split; [apply run_none|].
      destruct fs2; cbn; lia.
    + split; [apply run_none | lia].
  - cbn [app]. destruct o as [x|].
    + change (run_pipeline ((g :: fs1) ++ f :: fs2) (Some x)) with (run_pipeline (fs1 ++ f :: fs2) (g x)).
      cbn [called]. destruct (IH (g x) H) as [E L]. split; [exact E | cbn [length]; lia].
    + split; [apply run_none | cbn; lia].
Qed.

(* every stage that is called is called on a present value that the previous stages produced:
   an empty optional is never dereferenced *)
Lemma called_on_present fs : forall (o : option V) f x, In (f, x) (called fs o) ->
  exists k, (k < length fs)%nat /\ nth_error fs k = Some f /\ run_pipeline (firstn k fs) o = Some x.
Proof.
  induction fs as [|g fs IH]; intros o f x Hin; [destruct o; contradiction|].
  destruct o as [y|]; [|contradiction]. cbn [called] in Hin. destruct Hin as [E|Hin].
  - injection E as <- <-. exists 0%nat. cbn. repeat split; lia.
  - destruct (IH (g y) f x Hin) as (k & Hk & Hn & Hr). exists (S k). cbn [length nth_error firstn].
    repeat split; [lia | exact Hn | exact Hr].
Qed.
End PipeP.
