(* Reduce.v — C08.  FAITHFUL executable model of
     include/nmtools/array/index/normalize_axis.hpp   (normalize_axis1 / normalize_axes / wrap_axis)
     include/nmtools/array/index/remove_dims.hpp      (remove_dims: result shape)
     include/nmtools/array/index/reduce.hpp           (reduction_slices: which source elements)
     include/nmtools/array/view/ufunc/reduce.hpp      (reducer_t, reduce_t::operator(), axis=None path)
     include/nmtools/array/view/ufunc/accumulate.hpp  (accumulate_t::operator())
     include/nmtools/array/view/mean.hpp              (mean_divisor)
   and, in the second half, the independent reference (Spec): NumPy's result
   shape and "left fold of exactly the source elements whose non-reduced
   coordinates match, taken in increasing index order".

   The binary operation [f] and the element type [A] are Section variables: no
   algebraic law is available, so the ORDER of the fold is part of every statement.

   [option] results: [None] stands for undefined behaviour of the C++
   (unwrap of an empty optional, a write past the resized result, a read past the
   index pack, at(array,0) of an empty range). *)
From NM Require Import Base Index Dtype.
Local Open Scope Z_scope.

(* ---------- the axis argument ---------- *)
Inductive axis_arg := AxNone | AxInt (k : Z) | AxList (l : list Z).

(* normalize_axis.hpp, the is_num arm:  -ndim <= axis < ndim ? (axis<0 ? ndim+axis : axis) : Nothing *)
Definition normalize_axis1 (ax ndim : Z) : option Z :=
  if (- ndim <=? ax) && (ax <? ndim) then Some (if ax <? 0 then ndim + ax else ax) else None.

(* the index-array arm: every entry is normalised, one invalid entry makes the result Nothing *)
Fixpoint normalize_axes (axes : list Z) (ndim : Z) : option (list Z) :=
  match axes with
  | [] => Some []
  | ax :: t =>
      match normalize_axis1 ax ndim, normalize_axes t ndim with
      | Some x, Some r => Some (x :: r)
      | _, _ => None
      end
  end.

(* index::wrap_axis (normalize_axis.hpp:18): (axis < 0) ? ndim + axis : axis — no range check, no maybe *)
Definition wrap_axis (ax ndim : Z) : Z := if ax <? 0 then ndim + ax else ax.

(* [&](){ if constexpr (is_none_v<axis_t>) return m_axis; else return unwrap(normalize_axis(m_axis,src_dim)); }
   None here = unwrap of Nothing (the C++ dereferences an empty optional) *)
Definition normalize (ax : axis_arg) (ndim : Z) : option axis_arg :=
  match ax with
  | AxNone => Some AxNone
  | AxInt k => option_map AxInt (normalize_axis1 k ndim)
  | AxList l => option_map AxList (normalize_axes l ndim)
  end.

(* the in_axis lambdas of remove_dims / reduction_slices: i==axis, or where(i==., axis) non-empty;
   remove_dims answers true for None *)
Definition in_axis (nax : axis_arg) (i : Z) : bool :=
  match nax with
  | AxNone => true
  | AxInt k => i =? k
  | AxList l => existsb (Z.eqb i) l
  end.

(* ---------- index::remove_dims (remove_dims.hpp:33) ----------
   for i < dim: if (in_axis(i) && !keepdims) continue; else res[idx++] = in_axis(i) ? 1 : shape[i] *)
Fixpoint remove_dims_loop (inax : Z -> bool) (keepdims : bool) (s : list Z) (i : Z) : list Z :=
  match s with
  | [] => []
  | n :: t =>
      if inax i && negb keepdims then remove_dims_loop inax keepdims t (i + 1)
      else (if inax i then 1 else n) :: remove_dims_loop inax keepdims t (i + 1)
  end.

(* res.resize(keepdims ? dim : dim - n) with n = len(axis) (1 for a single axis);
   for axis=None the result type is none_t (keepdims=False: the view is a number, printed with
   the empty shape) or a list resized to dim (keepdims=True).  A loop that writes
   more / fewer cells than the resized length is a write past the end / leaves garbage: UB. *)
Definition remove_dims (s : list Z) (ax : axis_arg) (keepdims : bool) : option (list Z) :=
  match normalize ax (zlen s) with
  | None => None
  | Some nax =>
      let res := remove_dims_loop (in_axis nax) keepdims s 0 in
      let new_dim :=
        if keepdims then zlen s
        else match nax with
             | AxNone => 0
             | AxInt _ => zlen s - 1
             | AxList l => zlen s - zlen l
             end in
      if zlen res =? new_dim then Some res else None
  end.

(* ---------- index::reduction_slices (reduce.hpp:14) ----------
   ii = 0; for i < dim:
     if in_axis(i): slices[i] = {0, shape[i]}; if (keepdims) ii++;
     else         : s = indices[ii++]; slices[i] = {s, s+1} *)
Fixpoint reduction_slices_loop (inax : Z -> bool) (keepdims : bool) (idx s : list Z)
         (i : Z) (ii : nat) : option (list (Z * Z)) :=
  match s with
  | [] => Some []
  | n :: t =>
      if inax i then
        option_map (cons (0, n))
                   (reduction_slices_loop inax keepdims idx t (i + 1) (if keepdims then S ii else ii))
      else
        match nth_error idx ii with
        | Some v => option_map (cons (v, v + 1)) (reduction_slices_loop inax keepdims idx t (i + 1) (S ii))
        | None => None
        end
  end.

(* ---------- apply_slice with {start,stop} pairs, then view::flatten ----------
   For 0 <= start <= stop <= extent the slice view has extent stop-start on that axis and reads
   source coordinate start+k (the general slice arithmetic is property C05's subject; only this
   in-range, step-1 case is produced by reduction_slices / accumulate).
   flatten: element j is the element at compute_indices(j, shape); size = product(shape). *)
Definition slice_shape (sl : list (Z * Z)) : list Z := map (fun p => snd p - fst p) sl.
Definition slice_index (sl : list (Z * Z)) (k : list Z) : list Z :=
  map (fun p => fst (fst p) + snd p) (combine sl k).

(* Element types.  [E] is the source element type, [R] the RESULT type in which the accumulator lives
   (reduce.hpp / accumulate.hpp: result_type = the requested dtype when one is given — the op is then
   instantiated with res_t = dtype and has result_type = res_t — else the source element type).
   [cast] is static_cast<result_type>(element); [f acc x] is `op(acc, x)` converted back to
   result_type by the assignment `initial = op(initial, at(array,i))` (a narrowing / wrapping
   conversion when op's C++ result type is wider than result_type). *)
Section Reduce.
Variables E R : Type.
Variable cast : E -> R.
Variable f : R -> E -> R.

Definition flat_slice (a : list Z -> E) (sl : list (Z * Z)) : list E :=
  let ss := slice_shape sl in
  map (fun j => a (slice_index sl (ndindex ss j))) (zrange (ndindex_size ss)).

(* reducer_t (view/ufunc/reduce.hpp:173-217), instantiated as operator()<result_type>:
     no initial: acc = static_cast<result_t>(array[0]); for i = 1..size-1: acc = op(acc, array[i])
     initial   : acc = static_cast<result_t>(init);     for i = 0..size-1: acc = op(acc, array[i])
   ([init] below is the already converted initial value) *)
Definition reducer (l : list E) (init : option R) : option R :=
  match init with
  | Some v => Some (fold_left f l v)
  | None => match l with
            | [] => None
            | x :: t => Some (fold_left f t (cast x))
            end
  end.

(* reduce_t::operator()(indices...) and, for axis=None, the specialisation that flattens the
   whole array whatever the indices are *)
Definition reduce_at (a : list Z -> E) (s : list Z) (ax : axis_arg) (keepdims : bool)
           (init : option R) (idx : list Z) : option R :=
  match ax with
  | AxNone => reducer (map (fun j => a (ndindex s j)) (zrange (ndindex_size s))) init
  | _ =>
      match normalize ax (zlen s) with
      | None => None
      | Some nax =>
          match reduction_slices_loop (in_axis nax) keepdims idx s 0 0 with
          | None => None
          | Some sl => reducer (flat_slice a sl) init
          end
      end
  end.

(* accumulate_t::operator() (accumulate.hpp:208-262):
     m_axis = index::wrap_axis(axis, dim)      -- a negative axis counts from the end; NO range check
     for i < dim: s = indices[i]; slices[i] = { i==m_axis ? 0 : s, s+1 } *)
Fixpoint accumulate_slices (axis : Z) (idx : list Z) (i : Z) : list (Z * Z) :=
  match idx with
  | [] => []
  | v :: t => ((if i =? axis then 0 else v), v + 1) :: accumulate_slices axis t (i + 1)
  end.
Definition accumulate_at (a : list Z -> E) (ndim axis : Z) (idx : list Z) : option R :=
  reducer (flat_slice a (accumulate_slices (wrap_axis axis ndim) idx 0)) None.

End Reduce.
Arguments flat_slice {E}. Arguments reducer {E R}. Arguments reduce_at {E R}. Arguments accumulate_at {E R}.

(* ---------- the result type of the concrete element types ----------
   result_type = requested dtype, else the source element type (Dtype.reduce_dtype).  Integer values are
   converted to an integer type by reduction modulo 2^bits (unsigned: [conv.integral]; signed: what gcc /
   clang do, implementation-defined before C++20); to bool by != 0; to a floating type exactly
   (valid while |z| < 2^24 resp. 2^53 — the generators stay below). *)
(* [Dtype.int_cast] *)
(* one step of reducer_t on integer-valued data: acc = (result_t) op(acc, x) *)
Definition typed_step (r : dtype) (op : Z -> Z -> Z) (acc x : Z) : Z := int_cast r (op acc x).
Definition typed_reduce_at (requested : option dtype) (e : dtype) (op : Z -> Z -> Z)
           (a : list Z -> Z) (s : list Z) (ax : axis_arg) (keepdims : bool) (init : option Z) (idx : list Z) : option Z :=
  let r := reduce_dtype requested e in
  reduce_at (int_cast r) (typed_step r op) a s ax keepdims (option_map (int_cast r) init) idx.
Definition typed_accumulate_at (requested : option dtype) (e : dtype) (op : Z -> Z -> Z)
           (a : list Z -> Z) (ndim axis : Z) (idx : list Z) : option Z :=
  let r := reduce_dtype requested e in
  accumulate_at (int_cast r) (typed_step r op) a ndim axis idx.

(* index::mean_divisor (mean.hpp:70) on the already normalised axis *)
Definition mean_divisor (s : list Z) (nax : axis_arg) : Z :=
  match nax with
  | AxNone => product s
  | AxInt k => znth s k
  | AxList l => fold_left (fun d ax => d * znth s ax) l 1
  end.

(* =====================================================================
   Spec: NumPy's definitions, written without slices, strides or division
   ===================================================================== *)

Definition np_norm (ndim ax : Z) : Z := if ax <? 0 then ax + ndim else ax.

Fixpoint nodupb (l : list Z) : bool :=
  match l with [] => true | x :: t => negb (existsb (Z.eqb x) t) && nodupb t end.

(* the arguments NumPy accepts: every axis in [-ndim, ndim), no axis named twice *)
Definition axes_ok (ndim : Z) (ax : axis_arg) : bool :=
  match ax with
  | AxNone => true
  | AxInt k => (- ndim <=? k) && (k <? ndim)
  | AxList l => forallb (fun k => (- ndim <=? k) && (k <? ndim)) l && nodupb (map (np_norm ndim) l)
  end.

(* which axes are reduced *)
Definition red_mask (ndim : nat) (ax : axis_arg) : list bool :=
  match ax with
  | AxNone => repeat true ndim
  | AxInt k => map (fun j => j =? np_norm (Z.of_nat ndim) k) (zs ndim)
  | AxList l => map (fun j => existsb (fun k => j =? np_norm (Z.of_nat ndim) k) l) (zs ndim)
  end.

(* result shape: reduced axes disappear, or stay with extent 1 under keepdims *)
Fixpoint np_reduce_shape (mask : list bool) (s : list Z) (keepdims : bool) : list Z :=
  match mask, s with
  | true :: m, _ :: t => if keepdims then 1 :: np_reduce_shape m t keepdims else np_reduce_shape m t keepdims
  | false :: m, n :: t => n :: np_reduce_shape m t keepdims
  | _, _ => []
  end.

Fixpoint reduced_extents (mask : list bool) (s : list Z) : list Z :=
  match mask, s with
  | true :: m, n :: t => n :: reduced_extents m t
  | false :: m, _ :: t => reduced_extents m t
  | _, _ => []
  end.

(* the result index without the kept size-1 axes: the non-reduced coordinates *)
Fixpoint drop_reduced (mask : list bool) (idx : list Z) : list Z :=
  match mask, idx with
  | true :: m, _ :: t => drop_reduced m t
  | false :: m, y :: t => y :: drop_reduced m t
  | _, _ => []
  end.

(* source index with non-reduced coordinates [i] and reduced coordinates [r] *)
Fixpoint merge (mask : list bool) (i r : list Z) : list Z :=
  match mask with
  | true :: m => match r with x :: rs => x :: merge m i rs | [] => [] end
  | false :: m => match i with y :: i' => y :: merge m i' r | [] => [] end
  | [] => []
  end.

Section Spec.
Variables E R : Type.
Variable cast : E -> R.
Variable f : R -> E -> R.

(* exactly the source elements whose non-reduced coordinates are [i], reduced coordinates in
   nested-loop (increasing index) order *)
Definition spec_elems (a : list Z -> E) (mask : list bool) (s i : list Z) : list E :=
  map (fun r => a (merge mask i r)) (lex_enum (reduced_extents mask s)).

(* left fold in the result type, seeded by the initial value or by the (converted) first element *)
Definition fold_spec (l : list E) (init : option R) : option R :=
  match init, l with
  | Some v, _ => Some (fold_left f l v)
  | None, x :: t => Some (fold_left f t (cast x))
  | None, [] => None
  end.

Definition reduce_spec (a : list Z -> E) (s : list Z) (ax : axis_arg) (keepdims : bool)
           (init : option R) (idx : list Z) : option R :=
  let mask := red_mask (length s) ax in
  fold_spec (spec_elems a mask s (if keepdims then drop_reduced mask idx else idx)) init.

(* accumulate: running fold along [axis]: element idx folds a[.., 0..idx_axis, ..] *)
Definition set_at (idx : list Z) (axis : nat) (k : Z) : list Z :=
  firstn axis idx ++ k :: skipn (S axis) idx.
Definition accumulate_spec (a : list Z -> E) (ndim : Z) (axis : Z) (idx : list Z) : option R :=
  let ax := Z.to_nat (np_norm ndim axis) in
  fold_spec (map (fun k => a (set_at idx ax k)) (zrange (nth ax idx 0 + 1))) None.

End Spec.
Arguments spec_elems {E}. Arguments fold_spec {E R}. Arguments reduce_spec {E R}. Arguments accumulate_spec {E R}.

(* NumPy, integer result types, ring operations (+, *, -): the exact left fold over Z of the designated
   elements (initial included), converted into the result type once at the end *)
Definition exact_fold (op : Z -> Z -> Z) (l : list Z) (init : option Z) : option Z :=
  fold_spec (fun x => x) op l init.
Definition typed_reduce_spec (requested : option dtype) (e : dtype) (op : Z -> Z -> Z)
           (a : list Z -> Z) (s : list Z) (ax : axis_arg) (keepdims : bool) (init : option Z) (idx : list Z) : option Z :=
  let mask := red_mask (length s) ax in
  option_map (int_cast (reduce_dtype requested e))
             (exact_fold op (spec_elems a mask s (if keepdims then drop_reduced mask idx else idx)) init).
Definition typed_accumulate_spec (requested : option dtype) (e : dtype) (op : Z -> Z -> Z)
           (a : list Z -> Z) (ndim axis : Z) (idx : list Z) : option Z :=
  option_map (int_cast (reduce_dtype requested e)) (accumulate_spec (fun x => x) op a ndim axis idx).

Definition reduce_shape_spec (s : list Z) (ax : axis_arg) (keepdims : bool) : list Z :=
  np_reduce_shape (red_mask (length s) ax) s keepdims.
