(* Properties_C06.v — C06: broadcasting follows NumPy's rules and is symmetric,
   associative, idempotent.  Statements only.  All hold for every rank and all
   positive extents; failure ("None") is part of every equation. *)
From Coq Require Import Permutation.
From NM Require Import Base Index Broadcast BroadcastProofs.
Local Open Scope Z_scope.

(* succeeds exactly when NumPy's rule allows it, and then yields the per-axis maximum *)
Theorem C06_binary_rule : forall a b, pos a -> pos b ->
  broadcast_shape2 a b = np_broadcast2 a b.
Proof. exact broadcast_shape2_np. Qed.
Print Assumptions C06_binary_rule.

(* symmetric, associative (failure included), idempotent, absorbing, scalars are neutral *)
Theorem C06_algebra : forall a b c, pos a -> pos b -> pos c ->
  broadcast_shape2 a b = broadcast_shape2 b a
  /\ obind (broadcast_shape2 a b) (fun ab => broadcast_shape2 ab c)
     = obind (broadcast_shape2 b c) (fun bc => broadcast_shape2 a bc)
  /\ broadcast_shape2 a a = Some a
  /\ (forall r, broadcast_shape2 a b = Some r ->
        pos r /\ broadcast_shape2 a r = Some r /\ broadcast_shape2 r b = Some r)
  /\ broadcast_shape2 [] a = Some a /\ broadcast_shape2 a [] = Some a.
Proof.
  intros a b c Ha Hb Hc.
  split; [exact (broadcast_shape2_comm a b)|].
  split; [exact (broadcast_shape2_assoc a b c Ha Hb Hc)|].
  split; [exact (broadcast_shape2_idem a)|].
  split; [intros r Hr; split; [exact (broadcast_shape2_pos a b r Ha Hb Hr) | exact (broadcast_shape2_absorb a b r Ha Hb Hr)]|].
  split; [exact (broadcast_shape2_nil_l a) | exact (broadcast_shape2_nil_r a)].
Qed.
Print Assumptions C06_algebra.

(* any number of shapes: the result does not depend on operand order or grouping *)
Theorem C06_nary_order_and_grouping : forall l l', Forall pos l ->
  (Permutation l l' -> broadcast_shapes l = broadcast_shapes l')
  /\ (forall l1 l2, l = l1 ++ l2 -> l1 <> [] -> l2 <> [] ->
        broadcast_shapes l = bop (broadcast_shapes l1) (broadcast_shapes l2)).
Proof.
  intros l l' Hl. split.
  - intros HP. exact (broadcast_shapes_perm l l' HP Hl).
  - intros l1 l2 -> N1 N2. apply Forall_app in Hl as [H1 H2].
    exact (broadcast_shapes_app l1 l2 N1 N2 H1 H2).
Qed.
Print Assumptions C06_nary_order_and_grouping.

(* broadcast_to: accepted exactly under NumPy's one-directional rule, with the target shape *)
Theorem C06_broadcast_to_shape : forall a b,
  option_map fst (shape_broadcast_to a b) = np_broadcast_to_shape a b.
Proof. exact shape_broadcast_to_shape. Qed.
Print Assumptions C06_broadcast_to_shape.

(* element i of the broadcast array is the source element at i with stretched
   axes read at 0 and prepended axes dropped; that source index is in bounds *)
Theorem C06_broadcast_to_element : forall a b d free i, pos a ->
  shape_broadcast_to a b = Some (d, free) -> inb i d ->
  d = b
  /\ broadcast_to_idx i a d (origin_axes free) = np_broadcast_to_idx a i
  /\ inb (np_broadcast_to_idx a i) a.
Proof. exact broadcast_to_elem_spec. Qed.
Print Assumptions C06_broadcast_to_element.

(* ---------- non-vacuity ---------- *)
Example C06_nonvacuous_1 : broadcast_shape2 [5;1;3] [4;1] = Some [5;4;3] /\ broadcast_shape2 [2;3] [3;2] = None.
Proof. split; reflexivity. Qed.
Example C06_nonvacuous_2 :
  exists d free, shape_broadcast_to [3;1;2] [4;3;5;2] = Some (d, free) /\ inb [3;2;4;1] d
    /\ broadcast_to_idx [3;2;4;1] [3;1;2] d (origin_axes free) = [2;0;1].
Proof. eexists. eexists. split; [reflexivity|]. split; [repeat constructor; lia | reflexivity]. Qed.
Example C06_zero_extent_breaks_assoc :
  obind (broadcast_shape2 [0] [1]) (fun ab => broadcast_shape2 ab [2]) <>
  obind (broadcast_shape2 [1] [2]) (fun bc => broadcast_shape2 [0] bc).
Proof. vm_compute. discriminate. Qed.
