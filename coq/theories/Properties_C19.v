(* Properties_C19.v — C19: the STL-free containers against their std counterparts, over ANY history.
   Statements only.  [agrees buf size m l]: the object's size is the std size, size <= buffer length, every
   cell the mask marks as written holds the std value, and where all visible cells are written the contents
   ARE the std contents.  The mask leaves out exactly the cells std value-initialises but the library does
   not (sized constructor of utl::vector, growing resize of both) — refuted below as a full statement.
   static_vector(n) with n > Capacity is refused since the fix "static_vector(n) refuses n > Capacity". *)
From NM Require Import Base Index Containers ContainersProofs.
Local Open Scope nat_scope.

Theorem C19_vector_refines_std_on_written_cells : forall ops,
  let s := vrun ops in let m := vmask_run ops in let l := std_run None ops in
  agrees (vbuf (oa s)) (vsize (oa s)) (fst m) (fst l) /\ agrees (vbuf (ob s)) (vsize (ob s)) (snd m) (snd l).
Proof. exact vector_refinement. Qed.
Print Assumptions C19_vector_refines_std_on_written_cells.

(* no access outside a block, no free of a non-live block, the two objects own distinct blocks which are
   exactly the live ones; after destroying both every block allocated has been freed exactly once *)
Theorem C19_vector_memory_and_allocation_balance : forall ops,
  let s := vrun ops in
  bad (hp s) = false /\ oob (hp s) = false /\ vblk (oa s) <> vblk (ob s) /\
  (forall id, In id (live (hp s)) <-> id = vblk (oa s) \/ id = vblk (ob s)) /\
  nalloc (hp s) = nfree (hp s) + 2 /\
  let h := vfinish s in live h = [] /\ bad h = false /\ oob h = false /\ nalloc h = nfree h.
Proof. exact vector_memory. Qed.
Print Assumptions C19_vector_memory_and_allocation_balance.

(* any history, sized constructions beyond the capacity included (refused: the object stays empty); in
   particular size() never exceeds the capacity *)
Theorem C19_static_vector_refines_bounded_std : forall Cap ops,
  let s := srun Cap ops in let m := smask_run Cap ops in let l := std_run (Some Cap) ops in
  agrees (sbuf (fst s)) (ssize (fst s)) (fst m) (fst l) /\ agrees (sbuf (snd s)) (ssize (snd s)) (snd m) (snd l) /\
  length (sbuf (fst s)) = Cap /\ length (sbuf (snd s)) = Cap /\ ssize (fst s) <= Cap /\ ssize (snd s) <= Cap.
Proof. exact static_vector_refinement. Qed.
Print Assumptions C19_static_vector_refines_bounded_std.

(* beyond the capacity the operation is refused and the object is unchanged *)
Theorem C19_static_vector_refuses_beyond_capacity : forall Cap o v n,
  (Cap < ssize o + 1 -> s_push Cap o v = o) /\ (Cap < n -> s_resize Cap o n = o).
Proof. exact static_vector_refuses. Qed.
Print Assumptions C19_static_vector_refuses_beyond_capacity.

(* self-assignment changes nothing (object, heap, counters); operations on one object never touch the other *)
Theorem C19_self_assignment_harmless : forall ops, vstep (vrun ops) SelfAssign = vrun ops.
Proof. intros ops. exact (self_assign_identity _ _ (VI_run ops)). Qed.
Print Assumptions C19_self_assignment_harmless.

Theorem C19_copies_independent : forall s o, a_only o = true -> ob (vstep s o) = ob s.
Proof. exact copies_independent. Qed.
Print Assumptions C19_copies_independent.

(* the full statement "exactly the std contents" fails: cells exposed by a growing resize (and, for
   utl::vector, by the sized constructor) are not value-initialised *)
Theorem C19_value_initialisation_refuted :
  (exists ops, vcontents (oa (vrun ops)) <> map Val (fst (std_run None ops)))
  /\ (exists ops, vcontents (oa (vrun ops)) = [Indet; Indet] /\ fst (std_run None ops) = [0%Z; 0%Z])
  /\ (exists ops, scontents (fst (srun 4 ops)) <> map Val (fst (std_run (Some 4) ops))).
Proof.
  split; [|split].
  - exists [Push 1%Z; Push 2%Z; Push 3%Z; Resize 1; Resize 3]. vm_compute. discriminate.
  - exists [Ctor 2]. vm_compute. split; reflexivity.
  - exists [Push 1%Z; Push 2%Z; Resize 1; Resize 2]. vm_compute. discriminate.
Qed.
Print Assumptions C19_value_initialisation_refuted.

(* maybe<T> / either<T,..> for a non-trivial T: assigning a value into an empty object runs T::operator= on raw
   storage, and no destructor of T ever runs *)
Theorem C19_nontrivial_maybe_refuted : forall v st,
  raw_assign (snd (n_set n_nothing st v)) = S (raw_assign st)
  /\ destroyed (n_destroy (fst (n_set n_nothing st v)) (snd (n_set n_nothing st v))) = destroyed st.
Proof. intros. split; reflexivity. Qed.
Print Assumptions C19_nontrivial_maybe_refuted.

(* ---------- non-vacuity ---------- *)
Example C19_nonvacuous_1 :
  let ops := [Push 5%Z; Push 6%Z; Push 7%Z; Push 8%Z; Push 9%Z; CopyCtor; Write 1 0%Z; Flip; Resize 2; AssignAB; SelfAssign] in
  determined (fst (vmask_run ops)) = true /\ vcontents (oa (vrun ops)) = [Val 5%Z; Val 6%Z] /\
  vcontents (ob (vrun ops)) = [Val 5%Z; Val 6%Z] /\ nalloc (hp (vrun ops)) = 5 /\ nfree (hp (vrun ops)) = 3.
Proof. vm_compute. repeat split. Qed.
Example C19_nonvacuous_2 :
  let ops := [Push 1%Z; Push 2%Z; Push 3%Z; Push 4%Z; Push 5%Z; Resize 6; CopyCtor] in
  scontents (fst (srun 4 ops)) = [Val 1%Z; Val 2%Z; Val 3%Z; Val 4%Z] /\
  fst (std_run (Some 4) ops) = [1%Z; 2%Z; 3%Z; 4%Z] /\
  ssize (fst (srun 4 [Push 7%Z; Ctor 6])) = 0 /\ fst (std_run (Some 4) [Push 7%Z; Ctor 6]) = [].
Proof. vm_compute. repeat split. Qed.
