(* Properties_C19.v — C19: the STL-free containers against their std counterparts, over ANY history.
   Statements only.  Since the fixes "static_vector(n) refuses n > Capacity" and "growing resize and the sized
   constructor value-initialise the new cells" the visible contents of utl::vector and utl::static_vector ARE the
   contents of std::vector / a capacity-bounded std::vector after every history, cell for cell. *)
From NM Require Import Base Index Containers ContainersProofs.
Local Open Scope nat_scope.

Theorem C19_vector_refines_std : forall ops,
  let s := vrun ops in let l := std_run None ops in
  (vcontents (oa s) = map Val (fst l) /\ vsize (oa s) = length (fst l) /\ vsize (oa s) <= length (vbuf (oa s))) /\
  (vcontents (ob s) = map Val (snd l) /\ vsize (ob s) = length (snd l) /\ vsize (ob s) <= length (vbuf (ob s))).
Proof. exact vector_refinement_full. Qed.
Print Assumptions C19_vector_refines_std.

(* no access outside a block, no free of a non-live block, the two objects own distinct blocks which are
   exactly the live ones; after destroying both every block allocated has been freed exactly once *)
Theorem C19_vector_memory_and_allocation_balance : forall ops,
  let s := vrun ops in
  bad (hp s) = false /\ oob (hp s) = false /\ vblk (oa s) <> vblk (ob s) /\
  (forall id, In id (live (hp s)) <-> id = vblk (oa s) \/ id = vblk (ob s)) /\
  nalloc (hp s) = nfree (hp s) + 2 /\
  let h := vfinish s in live h = [] /\ bad h = false /\ oob h = false /\ nalloc h = nfree h.
Proof. exact vector_memory. Qed.
Print Assumptions C19_vector_memory_and_allocation_balance.

(* any history, sized constructions beyond the capacity included (refused: the object stays empty); size() never
   exceeds the capacity *)
Theorem C19_static_vector_refines_bounded_std : forall Cap ops,
  let s := srun Cap ops in let l := std_run (Some Cap) ops in
  (scontents (fst s) = map Val (fst l) /\ ssize (fst s) = length (fst l) /\ ssize (fst s) <= Cap /\ length (sbuf (fst s)) = Cap) /\
  (scontents (snd s) = map Val (snd l) /\ ssize (snd s) = length (snd l) /\ ssize (snd s) <= Cap /\ length (sbuf (snd s)) = Cap).
Proof. exact static_vector_refinement_full. Qed.
Print Assumptions C19_static_vector_refines_bounded_std.

(* nmtools::small_vector<T,DIM> in its default configuration (inline utl::static_vector / heap std::vector): after ANY
   history its contents are the std::vector contents — growth across DIM by push_back or by one resize, shrink then
   grow (the spill copies the live cells only), sized construction on either side of DIM, copies *)
Theorem C19_small_vector_refines_std : forall DIM ops,
  sm_contents (fst (smrun DIM ops)) = fst (std_run None ops) /\ sm_contents (snd (smrun DIM ops)) = snd (std_run None ops) /\
  sm_size (fst (smrun DIM ops)) = length (fst (std_run None ops)) /\ sm_size (snd (smrun DIM ops)) = length (snd (std_run None ops)).
Proof. exact small_vector_refinement. Qed.
Print Assumptions C19_small_vector_refines_std.

(* beyond the capacity the operation is refused and the object is unchanged *)
Theorem C19_static_vector_refuses_beyond_capacity : forall Cap o v n,
  (Cap < ssize o + 1 -> s_push Cap o v = o) /\ (Cap < n -> s_resize Cap o n = o).
Proof. exact static_vector_refuses. Qed.
Print Assumptions C19_static_vector_refuses_beyond_capacity.

(* self-assignment changes nothing (object, heap, counters); operations on one object never touch the other *)
Theorem C19_self_assignment_harmless : forall ops, vstep (vrun ops) SelfAssign = vrun ops.
Proof. intros ops. exact (self_assign_identity _ _ (VI_run ops)). Qed.
Print Assumptions C19_self_assignment_harmless.

Theorem C19_copies_independent : forall s o, a_only o = true -> ob (vstep s o) = ob s.
Proof. exact copies_independent. Qed.
Print Assumptions C19_copies_independent.

(* maybe<T> / either<T,long> for a non-trivial T: after any history the observable state (engaged / active alternative
   and value) is that of std::optional / std::variant ... *)
Theorem C19_nontrivial_maybe_either_contents : forall mops eops,
  mobs2 (mrun mops) = mspec_run mops /\ eobs2 (enrun eops) = erun eops.
Proof. intros. split; [apply mrun_obs | apply enrun_obs]. Qed.
Print Assumptions C19_nontrivial_maybe_either_contents.

(* ... but the payload's lifetime is not respected: assigning a value into an empty maybe<T> runs T::operator= on raw
   storage; an engaged maybe<T> that is destroyed leaves its T alive (no destructor ever runs); either's copy
   constructor assigns into the raw member of the new object.  (Exact event counts of the code as it is; the
   correspondence requires the implementation to show exactly these counts.) *)
Theorem C19_nontrivial_maybe_refuted :
  (exists ops, n_asgraw (snd (mrun ops)) > 0)
  /\ (exists ops, n_live (snd (mrun ops)) > 0)
  /\ (exists ops, n_asgraw (snd (enrun ops)) > 0 /\ n_live (snd (enrun ops)) > 0).
Proof.
  split; [|split].
  - exists [MSet 5%Z]. vm_compute. repeat constructor.
  - exists [MCtorVal 5%Z]. vm_compute. repeat constructor.
  - exists [ECopyCtor]. vm_compute. split; repeat constructor.
Qed.
Print Assumptions C19_nontrivial_maybe_refuted.

(* ---------- non-vacuity ---------- *)
Example C19_nonvacuous_1 :
  let ops := [Push 5%Z; Push 6%Z; Push 7%Z; Push 8%Z; Push 9%Z; CopyCtor; Write 1 0%Z; Flip; Resize 2; AssignAB; SelfAssign] in
  vcontents (oa (vrun ops)) = [Val 5%Z; Val 6%Z] /\
  vcontents (ob (vrun ops)) = [Val 5%Z; Val 6%Z] /\ nalloc (hp (vrun ops)) = 5 /\ nfree (hp (vrun ops)) = 3.
Proof. vm_compute. repeat split. Qed.
Example C19_nonvacuous_2 :
  let ops := [Push 1%Z; Push 2%Z; Push 3%Z; Push 4%Z; Push 5%Z; Resize 6; CopyCtor] in
  scontents (fst (srun 4 ops)) = [Val 1%Z; Val 2%Z; Val 3%Z; Val 4%Z] /\
  fst (std_run (Some 4) ops) = [1%Z; 2%Z; 3%Z; 4%Z] /\
  ssize (fst (srun 4 [Push 7%Z; Ctor 6])) = 0 /\ fst (std_run (Some 4) [Push 7%Z; Ctor 6]) = [].
Proof. vm_compute. repeat split. Qed.
(* the histories that used to expose stale / indeterminate cells *)
Example C19_nonvacuous_3 :
  vcontents (oa (vrun [Push 1%Z; Push 2%Z; Push 3%Z; Resize 1; Resize 3])) = [Val 1%Z; Val 0%Z; Val 0%Z] /\
  vcontents (oa (vrun [Ctor 2])) = [Val 0%Z; Val 0%Z] /\
  vcontents (oa (vrun [Ctor 2; Resize 7])) = map Val (fst (std_run None [Ctor 2; Resize 7])) /\
  scontents (fst (srun 4 [Push 1%Z; Push 2%Z; Resize 1; Resize 2])) = [Val 1%Z; Val 0%Z].
Proof. vm_compute. repeat split. Qed.
(* shrink, then one resize across the inline capacity: the stale inline cells 22, 33 are not carried over *)
Example C19_nonvacuous_4 :
  let ops := [Push 11%Z; Push 22%Z; Push 33%Z; Resize 1; Resize 6] in
  sm_contents (fst (smrun 4 ops)) = [11%Z; 0%Z; 0%Z; 0%Z; 0%Z; 0%Z] /\ sm_is_static (fst (smrun 4 ops)) = false /\
  sm_is_static (fst (smrun 4 [Push 11%Z; Push 22%Z; Push 33%Z; Resize 1; Resize 4])) = true /\
  sm_contents (fst (smrun 4 [Ctor 4; Write 3 7%Z; Push 9%Z; CopyCtor; Flip])) = [0%Z; 0%Z; 0%Z; 7%Z; 9%Z].
Proof. vm_compute. repeat split. Qed.
(* the counts of two histories as the pinned code produces them (checked against the C++ on every run) *)
Example C19_nonvacuous_5 :
  snd (mrun [MSet 11%Z; MCopyCtor; MFlip; MAssignAB]) = mkC 2 1 2 2 /\
  snd (mrun [MCtorVal 11%Z; MCopyCtor]) = mkC 3 1 0 0 /\
  snd (enrun [ELeftSet 5%Z; ECopyCtor; EFlip; ERightSet 7%Z; EAssignBA; ESelfAssign; EAssignAB]) = mkC 4 1 5 1.
Proof. vm_compute. repeat split. Qed.
