(* Kinds.v — C11: the compile-time knowledge nmtools attaches to an array or view
   type (meta::fixed_shape / fixed_dim / fixed_size / bounded_dim / bounded_size, and
   the per-axis bounds of a clipped shape), its meaning (concretisation gamma), the
   rules by which view types derive it from their operands (as read off
   view/indexing.hpp:418-477, view/decorator.hpp:1067-1225 and observed for every
   ndarray kind), the run-time shape functions of the same views, the default result
   resolver of eval.hpp:706-880 and the acceptance test of ndarray_t::resize. *)
From NM Require Import Base.
Local Open Scope Z_scope.

Record know := {
  fshape : option (list Z);   (* fixed_shape_v<T>  : the shape, exactly *)
  fdim   : option Z;          (* fixed_dim_v<T>    : the dimension, exactly *)
  fsize  : option Z;          (* fixed_size_v<T>   : the element count, exactly *)
  bdim   : option Z;          (* bounded_dim_v<T>  : upper bound of the dimension *)
  bsize  : option Z;          (* bounded_size_v<T> : upper bound of the element count *)
  clip   : option (list Z)    (* clipped shape type: per-axis upper bounds *)
}.

Definition unknown : know :=
  {| fshape := None; fdim := None; fsize := None; bdim := None; bsize := None; clip := None |}.

Fixpoint le_all (s m : list Z) : bool :=
  match s, m with
  | [], [] => true
  | x :: s', y :: m' => (x <=? y) && le_all s' m'
  | _, _ => false
  end.

Definition list_eqbZ (a b : list Z) : bool :=
  (Nat.eqb (length a) (length b)) && forallb (fun p => fst p =? snd p) (combine a b).

Definition opt_ok {A} (o : option A) (p : A -> bool) : bool :=
  match o with Some x => p x | None => true end.

(* what a report K claims about an object whose run-time shape is s *)
Definition gammab (K : know) (s : list Z) : bool :=
  opt_ok (fshape K) (fun t => list_eqbZ s t)
  && opt_ok (fdim K) (fun d => zlen s =? d)
  && opt_ok (fsize K) (fun n => prod s =? n)
  && opt_ok (bdim K) (fun d => zlen s <=? d)
  && opt_ok (bsize K) (fun n => prod s <=? n)
  && opt_ok (clip K) (fun m => le_all s m).

Definition gamma (K : know) (s : list Z) : Prop :=
  (forall t, fshape K = Some t -> s = t)
  /\ (forall d, fdim K = Some d -> zlen s = d)
  /\ (forall n, fsize K = Some n -> prod s = n)
  /\ (forall d, bdim K = Some d -> zlen s <= d)
  /\ (forall n, bsize K = Some n -> prod s <= n)
  /\ (forall m, clip K = Some m -> le_all s m = true).

(* ---------- knowledge of the array kinds (ndarray.hpp:258-385, cast kinds) ---------- *)
Inductive skind := SConst | SFixed | SHybrid | SDynamic | SClipped.   (* shape container *)
Inductive bkind := BFixed | BHybrid | BDynamic.                        (* buffer *)
(* an array created from a source of shape s0 (= maximum for bounded kinds) *)
Definition know_of_kind (sk : skind) (bk : bkind) (s0 : list Z) : know :=
  let fz := match bk with BFixed => Some (prod s0) | _ => None end in
  let bz := match bk with BFixed | BHybrid => Some (prod s0) | BDynamic => None end in
  match sk with
  | SConst   => {| fshape := Some s0; fdim := Some (zlen s0); fsize := Some (prod s0); bdim := Some (zlen s0);
                   bsize := Some (prod s0); clip := None |}
  | SFixed   => {| fshape := None; fdim := Some (zlen s0); fsize := fz; bdim := Some (zlen s0); bsize := bz; clip := None |}
  | SHybrid  => {| fshape := None; fdim := None; fsize := fz; bdim := Some (zlen s0); bsize := bz; clip := None |}
  | SDynamic => {| fshape := None; fdim := None; fsize := fz; bdim := None; bsize := bz; clip := None |}
  | SClipped => {| fshape := None; fdim := Some (zlen s0); fsize := fz; bdim := Some (zlen s0);
                   bsize := match bz with Some n => Some n | None => None end; clip := Some s0 |}
  end.

(* ---------- run-time shape functions of the modelled views ---------- *)
Fixpoint remove_nth {A} (k : nat) (l : list A) : list A :=
  match l, k with
  | [], _ => []
  | _ :: t, O => t
  | h :: t, S k' => h :: remove_nth k' t
  end.
Fixpoint insert_nth {A} (k : nat) (x : A) (l : list A) : list A :=
  match k, l with
  | O, _ => x :: l
  | S k', h :: t => h :: insert_nth k' x t
  | S _, [] => [x]
  end.
Fixpoint scale_nth (k : nat) (r : Z) (l : list Z) : list Z :=
  match l, k with
  | [], _ => []
  | h :: t, O => (h * r) :: t
  | h :: t, S k' => h :: scale_nth k' r t
  end.
Fixpoint add_nth (k : nat) (r : Z) (l : list Z) : list Z :=
  match l, k with
  | [], _ => []
  | h :: t, O => (h + r) :: t
  | h :: t, S k' => h :: add_nth k' r t
  end.
Definition permute (p : list nat) (s : list Z) : list Z := map (fun k => nth k s 0) p.
Definition zip_with (f : Z -> Z -> Z) (a b : list Z) : list Z := map (fun p => f (fst p) (snd p)) (combine a b).

Inductive vop :=
| VTransposeDefault                      (* transpose(a) *)
| VTransposeCt (p : list nat)            (* transpose(a, compile-time axes) *)
| VReshapeCt (t : list Z)                (* reshape(a, compile-time shape) *)
| VReshapeRt (t : list Z)                (* reshape(a, fixed-length run-time shape) *)
| VSumAxis (k : nat)                     (* sum(a, run-time axis), keepdims = false *)
| VExpandDims (k : nat)                  (* expand_dims(a, run-time axis) *)
| VFlip                                  (* flip(a, run-time axis) *)
| VCumsum                                (* cumsum(a, axis) *)
| VSameShapeUfunc                        (* add(a, a) and unary ufuncs *)
| VRepeat (k : nat) (r : Z)              (* repeat(a, r, axis k) *)
| VTile (reps : list Z)                  (* tile(a, reps), len reps = dim *)
| VPad (before after : list Z)           (* pad(a, widths) *)
| VConcatSelf (k : nat).                 (* concatenate(a, a, axis k) *)

Definition shape_vop (o : vop) (s : list Z) : list Z :=
  match o with
  | VTransposeDefault => rev s
  | VTransposeCt p => permute p s
  | VReshapeCt t | VReshapeRt t => t
  | VSumAxis k => remove_nth k s
  | VExpandDims k => insert_nth k 1 s
  | VFlip | VCumsum | VSameShapeUfunc => s
  | VRepeat k r => scale_nth k r s
  | VTile reps => zip_with Z.mul s reps
  | VPad b a => zip_with Z.add (zip_with Z.add s b) a
  | VConcatSelf k => scale_nth k 2 s
  end.

(* argument validity (what the view itself requires) *)
Definition is_perm (p : list nat) (n : nat) : bool :=
  Nat.eqb (length p) n && forallb (fun k => existsb (Nat.eqb k) p) (seq 0 n).
Definition valid_vop (o : vop) (s : list Z) : bool :=
  match o with
  | VTransposeCt p => is_perm p (length s)
  | VReshapeCt t | VReshapeRt t => posb t && (prod t =? prod s)
  | VSumAxis k => Nat.ltb k (length s)
  | VExpandDims k => Nat.leb k (length s)
  | VRepeat k r => Nat.ltb k (length s) && (1 <=? r)
  | VTile reps => Nat.eqb (length reps) (length s) && posb reps
  | VPad b a => Nat.eqb (length b) (length s) && Nat.eqb (length a) (length s)
                && forallb (fun x => 0 <=? x) b && forallb (fun x => 0 <=? x) a
  | VConcatSelf k => Nat.ltb k (length s)
  | _ => true
  end.

(* ---------- the library's rules: knowledge of the view type from the operand's ---------- *)
Definition omap {A B} (f : A -> B) (o : option A) : option B := match o with Some x => Some (f x) | None => None end.
Definition oplus (a b : option Z) : option Z := match a, b with Some x, Some y => Some (x + y) | _, _ => None end.

Definition know_vop (o : vop) (K : know) : know :=
  match o with
  | VTransposeDefault =>
      {| fshape := omap (@rev Z) (fshape K); fdim := fdim K; fsize := fsize K; bdim := bdim K; bsize := bsize K; clip := None |}
  | VTransposeCt p =>
      {| fshape := omap (permute p) (fshape K); fdim := fdim K; fsize := fsize K; bdim := bdim K; bsize := bsize K; clip := None |}
  | VReshapeCt t =>
      {| fshape := Some t; fdim := Some (zlen t); fsize := Some (prod t); bdim := Some (zlen t); bsize := Some (prod t); clip := None |}
  | VReshapeRt t =>
      {| fshape := None; fdim := Some (zlen t); fsize := fsize K; bdim := Some (zlen t); bsize := bsize K; clip := None |}
  | VSumAxis _ =>
      {| fshape := None; fdim := omap (fun d => d - 1) (fdim K); fsize := None; bdim := omap (fun d => d - 1) (bdim K);
         bsize := bsize K; clip := None |}
  | VExpandDims _ =>
      {| fshape := None; fdim := omap (fun d => d + 1) (fdim K); fsize := fsize K; bdim := omap (fun d => d + 1) (bdim K);
         bsize := bsize K; clip := None |}
  | VFlip | VRepeat _ _ | VTile _ | VPad _ _ =>
      {| fshape := None; fdim := fdim K; fsize := None; bdim := bdim K; bsize := None; clip := None |}
  | VCumsum | VSameShapeUfunc =>
      {| fshape := fshape K; fdim := fdim K; fsize := fsize K; bdim := bdim K; bsize := bsize K; clip := None |}
  | VConcatSelf _ =>
      {| fshape := None; fdim := fdim K; fsize := oplus (fsize K) (fsize K); bdim := bdim K;
         bsize := oplus (bsize K) (bsize K); clip := None |}
  end.

(* ---------- the default result resolver (eval.hpp:706-880) ---------- *)
Inductive rshape := RConst (t : list Z) | RClipped (m : list Z) | RFixedDim (d : Z) | RBoundedDim (d : Z) | RDynShape.
Inductive rbuffer := RFixedBuf (n : Z) | RBoundedBuf (n : Z) | RDynBuf.

(* every one of the 15 (shape kind, buffer kind) arms of the if-constexpr chain picks the first
   available shape kind in the order constant, clipped, fixed-dim, bounded-dim, dynamic and,
   independently, the first available buffer kind in the order fixed, bounded, dynamic *)
Definition resolve (K : know) : rshape * rbuffer :=
  (match fshape K, clip K, fdim K, bdim K with
   | Some t, _, _, _ => RConst t
   | None, Some m, _, _ => RClipped m
   | None, None, Some d, _ => RFixedDim d
   | None, None, None, Some d => RBoundedDim d
   | None, None, None, None => RDynShape
   end,
   match fsize K, clip K, bsize K with
   | Some n, _, _ => RFixedBuf n
   | None, Some m, _ => RBoundedBuf (prod m)
   | None, None, Some n => RBoundedBuf n
   | None, None, None => RDynBuf
   end).

(* ndarray_t::resize on a default-constructed result object: accepted iff ... (ndarray.hpp:61-147) *)
Definition fits (r : rshape * rbuffer) (s : list Z) : bool :=
  (match fst r with
   | RConst t => list_eqbZ s t
   | RClipped m => le_all s m
   | RFixedDim d => zlen s =? d
   | RBoundedDim d => zlen s <=? d
   | RDynShape => true
   end)
  && (match snd r with
      | RFixedBuf n => prod s =? n
      | RBoundedBuf n => prod s <=? n
      | RDynBuf => true
      end).

(* ---------- one aligned axis of broadcast_shape with a clipped operand
   (broadcast_shape.hpp:378-400): the result keeps the clipped operand's bound ---------- *)
Inductive ext := Ct (n : Z) | Cl (m : Z) | Dyn.
Definition gamma_ext (e : ext) (v : Z) : Prop :=
  match e with Ct n => v = n | Cl m => 1 <= v <= m | Dyn => 1 <= v end.
Definition bc (a b : Z) : option Z := if (a =? b) || (a =? 1) || (b =? 1) then Some (Z.max a b) else None.
Definition abs_lib (ea eb : ext) : ext :=
  match ea, eb with
  | Dyn, Cl m | Cl m, Dyn => if 1 <? m then Cl m else Dyn
  | Cl m, Cl k => Cl (Z.max m k)
  | Ct n, Ct m => Ct (Z.max n m)
  | Ct n, Cl m | Cl m, Ct n => Cl (Z.max n m)
  | _, _ => Dyn
  end.
Definition abs_ok (ea eb : ext) : ext :=
  match ea, eb with
  | Ct n, Ct m => Ct (Z.max n m)
  | Cl m, Cl k => Cl (Z.max m k)
  | Ct n, Cl m | Cl m, Ct n => Cl (Z.max n m)
  | _, _ => Dyn
  end.
