(* CompareProofs.v — lemmas about Compare.v (C18). *)
From NM Require Import Base Index IndexProofs Compare.
Local Open Scope Z_scope.

(* ---------- induction principle for the nested value type ---------- *)
Section ValInd.
  Variable P : val -> Prop.
  Hypothesis hNum : forall z, P (Num z).
  Hypothesis hIdx : forall k l, P (Idx k l).
  Hypothesis hArr : forall s d, P (Arr s d).
  Hypothesis hNone : P MNone.
  Hypothesis hSome : forall v, P v -> P (MSome v).
  Hypothesis hL : forall v, P v -> P (ELeft v).
  Hypothesis hR : forall v, P v -> P (ERight v).
  Hypothesis hT : forall l, Forall P l -> P (Tuple l).
  Fixpoint val_ind' (v : val) : P v :=
    match v with
    | Num z => hNum z | Idx k l => hIdx k l | Arr s d => hArr s d | MNone => hNone
    | MSome a => hSome a (val_ind' a) | ELeft a => hL a (val_ind' a) | ERight a => hR a (val_ind' a)
    | Tuple l => hT l ((fix go (l : list val) : Forall P l :=
                          match l with [] => Forall_nil P | a :: t => Forall_cons a (val_ind' a) (go t) end) l)
    end.
End ValInd.

(* ---------- all2 ---------- *)
Lemma all2_length f a : forall b, all2 f a b = true -> length a = length b.
Proof. induction a as [|x a IH]; intros [|y b] H; simpl in *; try discriminate; auto.
  apply andb_prop in H as [_ H]. f_equal; auto. Qed.
Lemma all2_length_ne f a b : length a <> length b -> all2 f a b = false.
Proof. intros H. destruct (all2 f a b) eqn:E; [|reflexivity]. apply all2_length in E. contradiction. Qed.
Lemma all2_eqb_eq a : forall b, all2 Z.eqb a b = true -> a = b.
Proof. induction a as [|x a IH]; intros [|y b] H; simpl in *; try discriminate; auto.
  apply andb_prop in H as [H1 H2]. apply Z.eqb_eq in H1. f_equal; auto. Qed.
Lemma all2_refl f a : (forall x, f x x = true) -> all2 f a a = true.
Proof. intros Hf. induction a; simpl; [reflexivity | now rewrite Hf, IHa]. Qed.
Lemma all2_sym f a : (forall x y, f x y = f y x) -> forall b, all2 f a b = all2 f b a.
Proof. intros Hf. induction a as [|x a IH]; intros [|y b]; simpl; auto. now rewrite Hf, IH. Qed.

(* ---------- the index-array loops ---------- *)
Lemma idx_loop_dyn_spec p q t : forall u acc, length p = length q -> length t = length u ->
  idx_loop_dyn (p ++ t) (q ++ u) (length p) (length t) acc = Ret (acc && all2 Z.eqb t u).
Proof.
  revert p q. induction t as [|a t IH]; intros p q [|b u] acc Hpq Htu; simpl in *; try discriminate.
  - now rewrite andb_true_r.
  - rewrite nth_error_app2 by lia. rewrite Nat.sub_diag. simpl.
    rewrite (nth_error_app2 q) by lia. rewrite Hpq, Nat.sub_diag. simpl.
    replace (p ++ a :: t) with ((p ++ [a]) ++ t) by now rewrite <- app_assoc.
    replace (q ++ b :: u) with ((q ++ [b]) ++ u) by now rewrite <- app_assoc.
    replace (S (length q)) with (length (p ++ [a])) by (rewrite app_length; simpl; lia).
    rewrite IH by (rewrite ?app_length; simpl; lia). now rewrite andb_assoc.
Qed.
Lemma idx_loop_fix_false t u n : forall i, idx_loop_fix t u i n false = Ret false.
Proof. induction n; intros i; simpl; auto. Qed.
Lemma idx_loop_fix_spec p q t : forall u acc, length p = length q -> length t = length u ->
  idx_loop_fix (p ++ t) (q ++ u) (length p) (length t) acc = Ret (acc && all2 Z.eqb t u).
Proof.
  revert p q. induction t as [|a t IH]; intros p q [|b u] acc Hpq Htu; simpl in *; try discriminate.
  - now rewrite andb_true_r.
  - destruct acc; [|apply idx_loop_fix_false].
    rewrite nth_error_app2 by lia. rewrite Nat.sub_diag. simpl.
    rewrite (nth_error_app2 q) by lia. rewrite Hpq, Nat.sub_diag. simpl.
    replace (p ++ a :: t) with ((p ++ [a]) ++ t) by now rewrite <- app_assoc.
    replace (q ++ b :: u) with ((q ++ [b]) ++ u) by now rewrite <- app_assoc.
    replace (S (length q)) with (length (p ++ [a])) by (rewrite app_length; simpl; lia).
    rewrite IH by (rewrite ?app_length; simpl; lia). reflexivity.
Qed.

Lemma isequal_idx_spec kt t ku u : isequal_idx kt t ku u = Ret (all2 Z.eqb t u).
Proof.
  unfold isequal_idx.
  destruct (Nat.eqb_spec (length t) (length u)) as [E|E]; simpl.
  - rewrite andb_false_r.
    pose proof (idx_loop_fix_spec [] [] t u true eq_refl E) as F.
    pose proof (idx_loop_dyn_spec [] [] t u true eq_refl E) as D. simpl in F, D.
    destruct (fixedk kt); [exact F|]. destruct (fixedk ku); [rewrite <- E; exact F | exact D].
  - rewrite (all2_length_ne _ _ _ E). now destruct (fixedk kt && fixedk ku).
Qed.

(* ---------- element reads of the ndarray branch ---------- *)
Lemma arr_read_mod s d i : pos s -> zlen d = prod s -> 0 <= i ->
  arr_read s d i = nth_error d (Z.to_nat (i mod prod s)).
Proof.
  intros Hp Hl Hi. unfold arr_read, compute_indices.
  rewrite compute_strides_eq, compute_offset_eq, off_unrav_mod by assumption.
  pose proof (prod_pos _ Hp). pose proof (Z.mod_pos_bound i (prod s) ltac:(lia)).
  replace (i mod prod s <? 0) with false by lia. reflexivity.
Qed.
Lemma arr_read_in s d i : pos s -> zlen d = prod s -> 0 <= i < prod s ->
  arr_read s d i = nth_error d (Z.to_nat i).
Proof. intros Hp Hl Hi. rewrite arr_read_mod by (auto; lia). now rewrite Z.mod_small. Qed.
Lemma arr_read_some s d i : pos s -> zlen d = prod s -> 0 <= i -> exists v, arr_read s d i = Some v.
Proof.
  intros Hp Hl Hi. rewrite arr_read_mod by assumption.
  pose proof (prod_pos _ Hp). pose proof (Z.mod_pos_bound i (prod s) ltac:(lia)).
  destruct (nth_error d (Z.to_nat (i mod prod s))) eqn:E; [eauto|].
  apply nth_error_None in E. unfold zlen in Hl. lia.
Qed.

Lemma arr_loop_false cmp s d s' d' n : forall i, arr_loop cmp s d s' d' i n false = Ret false.
Proof. induction n; intros i; simpl; auto. Qed.

(* any two well-formed operands, whatever their shapes: the loop only ever reads inside both buffers *)
Lemma arr_loop_safe cmp s d s' d' : pos s -> zlen d = prod s -> pos s' -> zlen d' = prod s' ->
  forall n i acc, 0 <= i -> exists b, arr_loop cmp s d s' d' i n acc = Ret b.
Proof.
  intros Hp Hl Hp' Hl'. induction n as [|n IH]; intros i acc Hi; simpl; [eauto|].
  destruct acc; [|apply IH; lia].
  destruct (arr_read_some s d i Hp Hl Hi) as [a ->].
  destruct (arr_read_some s' d' i Hp' Hl' Hi) as [b ->]. apply IH; lia.
Qed.

Lemma skipn_nth_cons {A} (l : list A) : forall i x, nth_error l i = Some x -> skipn i l = x :: skipn (S i) l.
Proof. induction l as [|h l IH]; intros [|i] x H; simpl in *; try discriminate; [congruence | now apply IH]. Qed.

(* same shape: the loop is the element-wise comparison of the two buffers *)
Lemma arr_loop_same cmp s d d' : pos s -> zlen d = prod s -> zlen d' = prod s ->
  forall n i acc, 0 <= i -> i + Z.of_nat n = prod s ->
  arr_loop cmp s d s d' i n acc = Ret (acc && all2 cmp (skipn (Z.to_nat i) d) (skipn (Z.to_nat i) d')).
Proof.
  intros Hp Hl Hl'. unfold zlen in *. induction n as [|n IH]; intros i acc Hi Hn; simpl.
  - rewrite !skipn_all2 by lia. simpl. now rewrite andb_true_r.
  - destruct acc; [|apply arr_loop_false].
    rewrite !arr_read_in by (auto; unfold zlen; lia).
    destruct (nth_error d (Z.to_nat i)) eqn:E1; [|apply nth_error_None in E1; lia].
    destruct (nth_error d' (Z.to_nat i)) eqn:E2; [|apply nth_error_None in E2; lia].
    rewrite IH by lia. rewrite (skipn_nth_cons _ _ _ E1), (skipn_nth_cons _ _ _ E2). simpl.
    replace (Z.to_nat (i + 1)) with (S (Z.to_nat i)) by lia. reflexivity.
Qed.

Lemma isequal_arr_spec nd s d s' d' : pos s -> zlen d = prod s -> pos s' -> zlen d' = prod s' ->
  isequal_arr nd s d s' d' = Ret (all2 Z.eqb s s' && all2 Z.eqb d d').
Proof.
  intros Hp Hl Hp' Hl'. unfold isequal_arr.
  destruct (Nat.eqb_spec (length s) (length s')) as [E|E]; simpl.
  2:{ now rewrite (all2_length_ne _ _ _ E). }
  rewrite isequal_idx_spec. destruct (all2 Z.eqb s s') eqn:Es; [|reflexivity].
  apply all2_eqb_eq in Es. subst s'. rewrite Z.eqb_refl. simpl.
  rewrite product_eq_prod. pose proof (prod_pos _ Hp).
  rewrite (arr_loop_same Z.eqb s d d' Hp Hl Hl' (Z.to_nat (prod s)) 0 true) by lia. reflexivity.
Qed.

Lemma isclose_arr_same nd eps s d d' : pos s -> zlen d = prod s -> zlen d' = prod s ->
  isclose_arr nd eps s d s d' = Ret (all2 (close eps) d d').
Proof.
  intros Hp Hl Hl'. unfold isclose_arr. rewrite isequal_idx_spec, (all2_refl _ _ Z.eqb_refl).
  rewrite product_eq_prod. pose proof (prod_pos _ Hp).
  rewrite (arr_loop_same (close eps) s d d' Hp Hl Hl' (Z.to_nat (prod s)) 0 true) by lia.
  now destruct nd.
Qed.
Lemma isclose_arr_debug eps s d s' d' : pos s -> zlen d = prod s -> pos s' -> zlen d' = prod s' ->
  isclose_arr false eps s d s' d' = Ret (all2 Z.eqb s s' && all2 (close eps) d d') \/ isclose_arr false eps s d s' d' = Abort.
Proof.
  intros Hp Hl Hp' Hl'. destruct (all2 Z.eqb s s') eqn:Es.
  - apply all2_eqb_eq in Es. subst s'. left. now apply isclose_arr_same.
  - right. unfold isclose_arr. now rewrite isequal_idx_spec, Es.
Qed.
Lemma isclose_arr_ndebug_safe eps s d s' d' : pos s -> zlen d = prod s -> pos s' -> zlen d' = prod s' ->
  exists b, isclose_arr true eps s d s' d' = Ret b.
Proof. intros. unfold isclose_arr. apply arr_loop_safe; auto; lia. Qed.

(* ---------- relations between an outcome and the reference answer ---------- *)
Record okrel (R : out -> bool -> Prop) : Prop := {
  R_ret : forall b, R (Ret b) b;
  R_rej : forall b, R Reject b;
  R_and : forall a r b1 b2, R a b1 -> R r b2 -> R (and_out a r) (b1 && b2) }.

Definition Rexact (o : out) (b : bool) : Prop := o = Ret b \/ o = Reject.
Definition Rabort (o : out) (b : bool) : Prop := o = Ret b \/ o = Reject \/ o = Abort.
Definition Rsafe (o : out) (b : bool) : Prop := (exists b', o = Ret b') \/ o = Reject.

Lemma okrel_exact : okrel Rexact.
Proof. split; unfold Rexact; auto. intros a r b1 b2 [-> | ->] [-> | ->]; simpl; auto; destruct b1; simpl; auto. Qed.
Lemma okrel_abort : okrel Rabort.
Proof. split; unfold Rabort; auto. intros a r b1 b2 [->|[-> | ->]] [->|[-> | ->]]; simpl; auto; destruct b1; simpl; auto. Qed.
Lemma okrel_safe : okrel Rsafe.
Proof. split; unfold Rsafe; eauto. intros a r b1 b2 [[x ->] | ->] [[y ->] | ->]; simpl; eauto; destruct x; simpl; eauto. Qed.

(* ---------- hereditary side conditions ---------- *)
Fixpoint notup (v : val) : bool :=
  match v with
  | Idx k _ => ndk k
  | MSome a | ELeft a | ERight a => notup a
  | Tuple l => forallb notup l
  | _ => true
  end.
Definition leafy (v : val) : bool :=
  match v with Num _ | Idx _ _ | Arr _ _ | Tuple _ => true | _ => false end.

(* ---------- Spec: symmetry, reflexivity ---------- *)
Lemma lspec_sym r x y : (forall a b, r a b = r b a) -> lspec r x y = lspec r y x.
Proof.
  intros Hr. destruct x, y; simpl; auto; rewrite ?(all2_sym Z.eqb _ Z.eqb_sym), ?(all2_sym r _ Hr); auto.
  all: try (destruct (arr_of _) as [[? ?]|]; reflexivity).
Qed.

Lemma gspec_sym r : (forall a b, r a b = r b a) -> forall x y, gspec r x y = gspec r y x.
Proof.
  intros Hr. induction x as [z|k l|s d| |a IHa|a IHa|a IHa|l IHl] using val_ind';
    induction y as [z'|k' l'|s' d'| |b IHb|b IHb|b IHb|l' IHl'] using val_ind';
    try reflexivity; try (exact (lspec_sym r _ _ Hr)); try (cbn; apply IHa); try (cbn; cbn in IHb; apply IHb).
  (* Tuple / Tuple *)
  cbn. clear IHl'. revert l'. induction IHl as [|a l Ha Hl IH]; intros [|b l']; try reflexivity.
  rewrite Ha, IH. reflexivity.
Qed.

Lemma gspec_refl r : (forall a, r a a = true) -> forall x, wfb x = true -> gspec r x x = true.
Proof.
  intros Hr. induction x as [z|k l|s d| |a IHa|a IHa|a IHa|l IHl] using val_ind'; intros Hw; cbn in *; auto.
  - rewrite Z.eqb_refl, (all2_refl _ _ Hr). reflexivity.
  - rewrite (all2_refl _ _ Z.eqb_refl), (all2_refl _ _ Hr). reflexivity.
  - apply andb_prop in Hw as [Hw _]. auto.
  - apply andb_prop in Hw as [Hw _]. auto.
  - induction IHl as [|a l Ha Hl IH]; [reflexivity|]. cbn in Hw. apply andb_prop in Hw as [H1 H2].
    rewrite Ha, IH by assumption. reflexivity.
Qed.

(* an alternative whose concept differs from the other operand is different from it *)
Lemma concept_false_l r a : forall y, eitherok a = true -> leafy y = true -> notup y = true ->
  same_concept a y = false -> gspec r a y = false.
Proof.
  induction a as [z|k l|s d| |a IHa|a IHa|a IHa|l IHl] using val_ind'; intros y He Hy Hn Hc;
    cbn in He; try discriminate.
  - destruct y; cbn in *; try discriminate; reflexivity.
  - destruct y as [ |k' l'| | | | | | ]; cbn in *; try discriminate; try reflexivity.
    + rewrite He, Hn in Hc. simpl in Hc.
      destruct (fixedk k && fixedk k') eqn:F; [|discriminate].
      apply Nat.eqb_neq in Hc. unfold zlen.
      replace (Z.of_nat (length l) =? Z.of_nat (length l')) with false by lia. reflexivity.
    + congruence.
  - destruct y as [ |k' l'| | | | | | ]; cbn in *; try discriminate; try reflexivity. congruence.
  - destruct y; cbn in *; try discriminate; reflexivity.
  - destruct y; cbn in Hy; try discriminate; cbn; apply IHa; auto.
Qed.

(* ---------- the generic dispatch respects any ok relation ---------- *)
Section GenericProof.
  Variable leaf : Z -> val -> val -> out.
  Variable ee : Z -> Z.
  Variable pnum : Z -> Z -> Z -> bool.
  Variable R : out -> bool -> Prop.
  Hypothesis HR : okrel R.
  Hypothesis pnum_sym : forall e a b, pnum e a b = pnum e b a.
  Hypothesis leaf_ok : forall e x y, leafy x = true -> leafy y = true -> wfb x = true -> wfb y = true ->
    R (leaf e x y) (lspec (pnum e) x y).
  Hypothesis leaf_tuple_l : forall e l y, leaf e (Tuple l) y = Reject.
  Hypothesis leaf_tuple_r : forall e x l, leaf e x (Tuple l) = Reject.

  Definition okE (e : Z) (x y : val) : Prop :=
    (noeither x = true /\ noeither y = true) \/ (ee e = e /\ notup x = true /\ notup y = true).

  Lemma okE_sub e x y x' y' :
    (noeither x = true -> noeither x' = true) -> (noeither y = true -> noeither y' = true) ->
    (notup x = true -> notup x' = true) -> (notup y = true -> notup y' = true) ->
    okE e x y -> okE e x' y'.
  Proof. unfold okE. intuition. Qed.

  Ltac wsplit := repeat match goal with H : (_ && _) = true |- _ => apply andb_prop in H; destruct H end.

  Lemma cmp_d_R : forall x, wfb x = true -> forall y e, wfb y = true -> okE e x y ->
    R (cmp_d leaf ee x y e) (gspec (pnum e) x y).
  Proof.
    destruct HR as [Rret Rrej Rand].
    induction x as [z|k l|s d| |a IHa|a IHa|a IHa|l IHl] using val_ind'; intros Hwx;
      induction y as [z'|k' l'|s' d'| |b IHb|b IHb|b IHb|l' IHl'] using val_ind'; intros e Hwy Hok;
      try (cbn; apply Rret);
      try (cbn; apply leaf_ok; auto; fail);
      try (cbn; rewrite ?leaf_tuple_l, ?leaf_tuple_r; apply Rrej).
    (* x leaf, y = MSome / ELeft / ERight : recursion on y *)
    all: try match goal with
      | |- R (cmp_d _ _ ?X (MSome ?B) _) _ => cbn; cbn in IHb; apply IHb; [exact Hwy | revert Hok; apply okE_sub; cbn; auto]
      end.
    all: try match goal with
      | |- R (cmp_d _ _ (MSome ?A) ?Y _) _ => cbn; apply IHa; [exact Hwx | exact Hwy || (cbn in Hwy; wsplit; assumption) | revert Hok; apply okE_sub; cbn; auto]
      end.
    all: cbn in Hwx, Hwy; wsplit.
    (* one-sided either on the right: x leaf *)
    all: try match goal with
      | |- R (cmp_d _ _ ?X (ELeft ?B) _) _ => idtac
      | |- R (cmp_d _ _ ?X (ERight ?B) _) _ => idtac
      end.
    all: cbn.
    all: try (apply IHa; [assumption | assumption | revert Hok; apply okE_sub; cbn; auto]).
    (* remaining: one-sided either cases *)
    all: destruct Hok as [[N1 N2]|[Hee [T1 T2]]]; try (cbn in N1, N2; discriminate).
    all: try (cbn in T1, T2).
    all: try match goal with
      | |- R (if same_concept ?A ?Y then _ else _) _ =>
          destruct (same_concept A Y) eqn:Hc;
          [ rewrite Hee | ]
      end.
    all: try (apply IHa; [assumption | cbn; auto; fail | right; cbn; auto]).
    all: try (cbn in IHb; apply IHb; [assumption | right; cbn; auto]).
    all: try (rewrite (concept_false_l _ _ _ ltac:(eassumption) eq_refl ltac:(cbn; auto) Hc); apply Rret).
    all: try (rewrite (gspec_sym _ (pnum_sym e)); cbn;
              rewrite (concept_false_l _ _ _ ltac:(eassumption) eq_refl ltac:(cbn; auto) Hc); apply Rret).
  Qed.
End GenericProof.
