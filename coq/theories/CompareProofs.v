(* CompareProofs.v — lemmas about Compare.v (C18). *)
From NM Require Import Base Index IndexProofs Compare.
Local Open Scope Z_scope.

(* ---------- induction principle for the nested value type ---------- *)
Section ValInd.
  Variable P : val -> Prop.
  Hypothesis hNum : forall z, P (Num z).
  Hypothesis hIdx : forall k l, P (Idx k l).
  Hypothesis hArr : forall s d, P (Arr s d).
  Hypothesis hNone : P MNone.
  Hypothesis hSome : forall v, P v -> P (MSome v).
  Hypothesis hL : forall v, P v -> P (ELeft v).
  Hypothesis hR : forall v, P v -> P (ERight v).
  Hypothesis hT : forall l, Forall P l -> P (Tuple l).
  Fixpoint val_ind' (v : val) : P v :=
    match v with
    | Num z => hNum z | Idx k l => hIdx k l | Arr s d => hArr s d | MNone => hNone
    | MSome a => hSome a (val_ind' a) | ELeft a => hL a (val_ind' a) | ERight a => hR a (val_ind' a)
    | Tuple l => hT l ((fix go (l : list val) : Forall P l :=
                          match l with [] => Forall_nil P | a :: t => Forall_cons a (val_ind' a) (go t) end) l)
    end.
End ValInd.

(* ---------- all2 ---------- *)
Lemma all2_length f a : forall b, all2 f a b = true -> length a = length b.
Proof. induction a as [|x a IH]; intros [|y b] H; simpl in *; try discriminate; auto.
  apply andb_prop in H as [_ H]. f_equal; auto. Qed.
Lemma all2_length_ne f a b : length a <> length b -> all2 f a b = false.
Proof. intros H. destruct (all2 f a b) eqn:E; [|reflexivity]. apply all2_length in E. contradiction. Qed.
Lemma all2_eqb_eq a : forall b, all2 Z.eqb a b = true -> a = b.
Proof. induction a as [|x a IH]; intros [|y b] H; simpl in *; try discriminate; auto.
  apply andb_prop in H as [H1 H2]. apply Z.eqb_eq in H1. f_equal; auto. Qed.
Lemma all2_refl f a : (forall x, f x x = true) -> all2 f a a = true.
Proof. intros Hf. induction a; simpl; [reflexivity | now rewrite Hf, IHa]. Qed.
Lemma all2_sym f a : (forall x y, f x y = f y x) -> forall b, all2 f a b = all2 f b a.
Proof. intros Hf. induction a as [|x a IH]; intros [|y b]; simpl; auto. now rewrite Hf, IH. Qed.

(* ---------- the index-array loops ---------- *)
Lemma idx_loop_dyn_spec p q t : forall u acc, length p = length q -> length t = length u ->
  idx_loop_dyn (p ++ t) (q ++ u) (length p) (length t) acc = Ret (acc && all2 Z.eqb t u).
Proof.
  revert p q. induction t as [|a t IH]; intros p q [|b u] acc Hpq Htu; simpl in *; try discriminate.
  - now rewrite andb_true_r.
  - rewrite nth_error_app2 by lia. rewrite Nat.sub_diag. simpl.
    rewrite (nth_error_app2 q) by lia. rewrite Hpq, Nat.sub_diag. simpl.
    replace (p ++ a :: t) with ((p ++ [a]) ++ t) by now rewrite <- app_assoc.
    replace (q ++ b :: u) with ((q ++ [b]) ++ u) by now rewrite <- app_assoc.
    replace (S (length q)) with (length (p ++ [a])) by (rewrite app_length; simpl; lia).
    rewrite IH by (rewrite ?app_length; simpl; lia). now rewrite andb_assoc.
Qed.
Lemma idx_loop_fix_false t u n : forall i, idx_loop_fix t u i n false = Ret false.
Proof. induction n; intros i; simpl; auto. Qed.
Lemma idx_loop_fix_spec p q t : forall u acc, length p = length q -> length t = length u ->
  idx_loop_fix (p ++ t) (q ++ u) (length p) (length t) acc = Ret (acc && all2 Z.eqb t u).
Proof.
  revert p q. induction t as [|a t IH]; intros p q [|b u] acc Hpq Htu; simpl in *; try discriminate.
  - now rewrite andb_true_r.
  - destruct acc; [|apply idx_loop_fix_false].
    rewrite nth_error_app2 by lia. rewrite Nat.sub_diag. simpl.
    rewrite (nth_error_app2 q) by lia. rewrite Hpq, Nat.sub_diag. simpl.
    replace (p ++ a :: t) with ((p ++ [a]) ++ t) by now rewrite <- app_assoc.
    replace (q ++ b :: u) with ((q ++ [b]) ++ u) by now rewrite <- app_assoc.
    replace (S (length q)) with (length (p ++ [a])) by (rewrite app_length; simpl; lia).
    rewrite IH by (rewrite ?app_length; simpl; lia). reflexivity.
Qed.

Lemma isequal_idx_spec kt t ku u : isequal_idx kt t ku u = Ret (all2 Z.eqb t u).
Proof.
  unfold isequal_idx.
  destruct (Nat.eqb_spec (length t) (length u)) as [E|E]; simpl.
  - rewrite andb_false_r.
    pose proof (idx_loop_fix_spec [] [] t u true eq_refl E) as F.
    pose proof (idx_loop_dyn_spec [] [] t u true eq_refl E) as D. simpl in F, D.
    destruct (fixedk kt); [exact F|]. destruct (fixedk ku); [rewrite <- E; exact F | exact D].
  - rewrite (all2_length_ne _ _ _ E). now destruct (fixedk kt && fixedk ku).
Qed.

(* ---------- element reads of the ndarray branch ---------- *)
Lemma arr_read_mod s d i : pos s -> zlen d = prod s -> 0 <= i ->
  arr_read s d i = nth_error d (Z.to_nat (i mod prod s)).
Proof.
  intros Hp Hl Hi. unfold arr_read, compute_indices.
  rewrite compute_strides_eq, compute_offset_eq, off_unrav_mod by assumption.
  pose proof (prod_pos _ Hp). pose proof (Z.mod_pos_bound i (prod s) ltac:(lia)).
  replace (i mod prod s <? 0) with false by lia. reflexivity.
Qed.
Lemma arr_read_in s d i : pos s -> zlen d = prod s -> 0 <= i < prod s ->
  arr_read s d i = nth_error d (Z.to_nat i).
Proof. intros Hp Hl Hi. rewrite arr_read_mod by (auto; lia). now rewrite Z.mod_small. Qed.
Lemma arr_read_some s d i : pos s -> zlen d = prod s -> 0 <= i -> exists v, arr_read s d i = Some v.
Proof.
  intros Hp Hl Hi. rewrite arr_read_mod by assumption.
  pose proof (prod_pos _ Hp). pose proof (Z.mod_pos_bound i (prod s) ltac:(lia)).
  destruct (nth_error d (Z.to_nat (i mod prod s))) eqn:E; [eauto|].
  apply nth_error_None in E. unfold zlen in Hl. lia.
Qed.

Lemma arr_loop_false cmp s d s' d' n : forall i, arr_loop cmp s d s' d' i n false = Ret false.
Proof. induction n; intros i; simpl; auto. Qed.

(* any two well-formed operands, whatever their shapes: the loop only ever reads inside both buffers *)
Lemma arr_loop_safe cmp s d s' d' : pos s -> zlen d = prod s -> pos s' -> zlen d' = prod s' ->
  forall n i acc, 0 <= i -> exists b, arr_loop cmp s d s' d' i n acc = Ret b.
Proof.
  intros Hp Hl Hp' Hl'. induction n as [|n IH]; intros i acc Hi; simpl; [eauto|].
  destruct acc; [|apply IH; lia].
  destruct (arr_read_some s d i Hp Hl Hi) as [a ->].
  destruct (arr_read_some s' d' i Hp' Hl' Hi) as [b ->]. apply IH; lia.
Qed.

Lemma skipn_nth_cons {A} (l : list A) : forall i x, nth_error l i = Some x -> skipn i l = x :: skipn (S i) l.
Proof. induction l as [|h l IH]; intros [|i] x H; simpl in *; try discriminate; [congruence | now apply IH]. Qed.

(* same shape: the loop is the element-wise comparison of the two buffers *)
Lemma arr_loop_same cmp s d d' : pos s -> zlen d = prod s -> zlen d' = prod s ->
  forall n i acc, 0 <= i -> i + Z.of_nat n = prod s ->
  arr_loop cmp s d s d' i n acc = Ret (acc && all2 cmp (skipn (Z.to_nat i) d) (skipn (Z.to_nat i) d')).
Proof.
  intros Hp Hl Hl'. unfold zlen in *. induction n as [|n IH]; intros i acc Hi Hn; simpl.
  - rewrite !skipn_all2 by lia. simpl. now rewrite andb_true_r.
  - destruct acc; [|apply arr_loop_false].
    rewrite !arr_read_in by (auto; unfold zlen; lia).
    destruct (nth_error d (Z.to_nat i)) eqn:E1; [|apply nth_error_None in E1; lia].
    destruct (nth_error d' (Z.to_nat i)) eqn:E2; [|apply nth_error_None in E2; lia].
    rewrite IH by lia. rewrite (skipn_nth_cons _ _ _ E1), (skipn_nth_cons _ _ _ E2). simpl.
    replace (Z.to_nat (i + 1)) with (S (Z.to_nat i)) by lia. reflexivity.
Qed.

Lemma isequal_arr_spec nd s d s' d' : pos s -> zlen d = prod s -> pos s' -> zlen d' = prod s' ->
  isequal_arr nd s d s' d' = Ret (all2 Z.eqb s s' && all2 Z.eqb d d').
Proof.
  intros Hp Hl Hp' Hl'. unfold isequal_arr.
  destruct (Nat.eqb_spec (length s) (length s')) as [E|E]; simpl.
  2:{ now rewrite (all2_length_ne _ _ _ E). }
  rewrite isequal_idx_spec. destruct (all2 Z.eqb s s') eqn:Es; [|reflexivity].
  apply all2_eqb_eq in Es. subst s'. rewrite Z.eqb_refl. simpl.
  rewrite product_eq_prod. pose proof (prod_pos _ Hp).
  rewrite (arr_loop_same Z.eqb s d d' Hp Hl Hl' (Z.to_nat (prod s)) 0 true) by lia. reflexivity.
Qed.

Lemma isclose_arr_spec nd eps s d s' d' : pos s \/ pos s' -> zlen d = prod s -> zlen d' = prod s' ->
  isclose_arr nd eps s d s' d' = Ret (all2 Z.eqb s s' && all2 (close eps) d d').
Proof.
  intros Hp Hl Hl'. unfold isclose_arr. rewrite isequal_idx_spec. destruct (all2 Z.eqb s s') eqn:Es; [|reflexivity].
  apply all2_eqb_eq in Es. subst s'. assert (Hs : pos s) by tauto.
  rewrite product_eq_prod. pose proof (prod_pos _ Hs).
  rewrite (arr_loop_same (close eps) s d d' Hs Hl Hl' (Z.to_nat (prod s)) 0 true) by lia. reflexivity.
Qed.

(* ---------- relations between an outcome and the reference answer ---------- *)
Record okrel (R : out -> bool -> Prop) : Prop := {
  R_ret : forall b, R (Ret b) b;
  R_rej : forall b, R Reject b;
  R_and : forall a r b1 b2, R a b1 -> R r b2 -> R (and_out a r) (b1 && b2) }.

Definition Rexact (o : out) (b : bool) : Prop := o = Ret b \/ o = Reject.
Definition Rabort (o : out) (b : bool) : Prop := o = Ret b \/ o = Reject \/ o = Abort.
Definition Rsafe (o : out) (b : bool) : Prop := (exists b', o = Ret b') \/ o = Reject.

Lemma okrel_exact : okrel Rexact.
Proof. split; unfold Rexact; auto. intros a r b1 b2 [-> | ->] [-> | ->]; simpl; auto; destruct b1; simpl; auto. Qed.
Lemma okrel_abort : okrel Rabort.
Proof. split; unfold Rabort; auto. intros a r b1 b2 [->|[-> | ->]] [->|[-> | ->]]; simpl; auto; destruct b1; simpl; auto. Qed.
Lemma okrel_safe : okrel Rsafe.
Proof. split; unfold Rsafe; eauto. intros a r b1 b2 [[x ->] | ->] [[y ->] | ->]; simpl; eauto; destruct x; simpl; eauto. Qed.

(* ---------- hereditary side conditions ---------- *)
Definition leafy (v : val) : bool :=
  match v with Num _ | Idx _ _ | Arr _ _ | Tuple _ => true | _ => false end.

(* ---------- Spec: symmetry, reflexivity ---------- *)
Lemma lspec_sym r x y : (forall a b, r a b = r b a) -> lspec r x y = lspec r y x.
Proof.
  intros Hr. destruct x, y; unfold lspec, arr_of; auto;
    try (f_equal; [apply all2_sym; exact Z.eqb_sym | apply all2_sym; exact Hr]).
Qed.

Lemma gspec_sym r : (forall a b, r a b = r b a) -> forall x y, gspec r x y = gspec r y x.
Proof.
  intros Hr. induction x as [z|k l|s d| |a IHa|a IHa|a IHa|l IHl] using val_ind';
    induction y as [z'|k' l'|s' d'| |b IHb|b IHb|b IHb|l' IHl'] using val_ind';
    try reflexivity; try (exact (lspec_sym r _ _ Hr)); try (cbn; apply IHa); try (cbn; cbn in IHb; apply IHb).
  (* Tuple / Tuple *)
  cbn. clear IHl'. revert l'. induction IHl as [|a l Ha Hl IH]; intros [|b l']; try reflexivity.
  rewrite Ha, IH. reflexivity.
Qed.

Lemma gspec_refl r : (forall a, r a a = true) -> forall x, wfb x = true -> gspec r x x = true.
Proof.
  intros Hr. induction x as [z|k l|s d| |a IHa|a IHa|a IHa|l IHl] using val_ind'; intros Hw; cbn in *; auto.
  - rewrite Z.eqb_refl, (all2_refl _ _ Hr). reflexivity.
  - rewrite (all2_refl _ _ Z.eqb_refl), (all2_refl _ _ Hr). reflexivity.
  - apply andb_prop in Hw as [Hw _]. auto.
  - apply andb_prop in Hw as [Hw _]. auto.
  - induction IHl as [|a l Ha Hl IH]; [reflexivity|]. cbn in Hw. apply andb_prop in Hw as [H1 H2].
    rewrite Ha, IH by assumption. reflexivity.
Qed.

Lemma all2_refl_on (f : Z -> Z -> bool) (p : Z -> bool) a : (forall x, p x = true -> f x x = true) -> forallb p a = true -> all2 f a a = true.
Proof. intros Hf. induction a as [|x a IH]; simpl; [reflexivity|]. intros H. apply andb_prop in H as [H1 H2]. now rewrite Hf, IH. Qed.
Lemma gspec_refl_on r p : (forall a, p a = true -> r a a = true) -> forall x, wfb x = true -> allelems p x = true -> gspec r x x = true.
Proof.
  intros Hr. induction x as [z|k l|s d| |a IHa|a IHa|a IHa|l IHl] using val_ind'; intros Hw Hp; cbn in *; auto.
  - rewrite Z.eqb_refl, (all2_refl_on _ _ _ Hr Hp). reflexivity.
  - rewrite (all2_refl _ _ Z.eqb_refl), (all2_refl_on _ _ _ Hr Hp). reflexivity.
  - apply andb_prop in Hw as [Hw _]. auto.
  - apply andb_prop in Hw as [Hw _]. auto.
  - induction IHl as [|a l Ha Hl IH]; [reflexivity|]. cbn in Hw, Hp. apply andb_prop in Hw as [H1 H2]. apply andb_prop in Hp as [P1 P2].
    rewrite Ha, IH by assumption. reflexivity.
Qed.

(* an alternative whose concept differs from the other operand is different from it *)
Lemma concept_false_l r a : forall y, eitherok a = true -> leafy y = true -> notup y = true ->
  same_concept a y = false -> gspec r a y = false.
Proof.
  induction a as [z|k l|s d| |a IHa|a IHa|a IHa|l IHl] using val_ind'; intros y He Hy Hn Hc;
    cbn in He; try discriminate.
  - destruct y; cbn in *; try discriminate; reflexivity.
  - destruct y as [ |k' l'| | | | | | ]; cbn in *; try discriminate; try reflexivity.
    + rewrite He, Hn in Hc. simpl in Hc.
      destruct (fixedk k && fixedk k') eqn:F; [|discriminate].
      apply Nat.eqb_neq in Hc. unfold zlen.
      replace (Z.of_nat (length l) =? Z.of_nat (length l')) with false by lia. reflexivity.
    + congruence.
  - destruct y as [ |k' l'| | | | | | ]; cbn in *; try discriminate; try reflexivity. congruence.
  - destruct y; cbn in *; try discriminate; reflexivity.
  - destruct y; cbn in Hy; try discriminate; cbn; apply IHa; auto.
Qed.

(* ---------- the generic dispatch respects any ok relation ---------- *)
Section GenericProof.
  Variable leaf : Z -> val -> val -> out.
  Variable ee : Z -> Z.
  Variable pnum : Z -> Z -> Z -> bool.
  Variable R : out -> bool -> Prop.
  Hypothesis HR : okrel R.
  Hypothesis pnum_sym : forall e a b, pnum e a b = pnum e b a.
  Hypothesis leaf_ok : forall e x y, leafy x = true -> leafy y = true -> wfb x = true -> wfb y = true ->
    R (leaf e x y) (lspec (pnum e) x y).
  Hypothesis leaf_tuple_l : forall e l y, leaf e (Tuple l) y = Reject.
  Hypothesis leaf_tuple_r : forall e x l, leaf e x (Tuple l) = Reject.

  Definition okE (e : Z) (x y : val) : Prop :=
    (noeither x = true /\ noeither y = true) \/ (ee e = e /\ notup x = true /\ notup y = true).

  Lemma okE_sub e x y x' y' :
    (noeither x = true -> noeither x' = true) -> (noeither y = true -> noeither y' = true) ->
    (notup x = true -> notup x' = true) -> (notup y = true -> notup y' = true) ->
    okE e x y -> okE e x' y'.
  Proof. unfold okE. intuition. Qed.

  Lemma gspec_leaf_e r x b : leafy x = true ->
    gspec r x (ELeft b) = gspec r x b /\ gspec r x (ERight b) = gspec r x b.
  Proof. destruct x; intros H; try discriminate; split; reflexivity. Qed.
  Lemma gspec_e_leaf r a y : leafy y = true ->
    gspec r (ELeft a) y = gspec r a y /\ gspec r (ERight a) y = gspec r a y.
  Proof. destruct y; intros H; try discriminate; split; reflexivity. Qed.
  Lemma cmp_d_leaf_e x b e : leafy x = true ->
    cmp_d leaf ee x (ELeft b) e = (if same_concept b x then cmp_d leaf ee x b (ee e) else Ret false) /\
    cmp_d leaf ee x (ERight b) e = (if same_concept b x then cmp_d leaf ee x b (ee e) else Ret false).
  Proof. destruct x; intros H; try discriminate; split; reflexivity. Qed.
  Lemma cmp_d_e_leaf a y e : leafy y = true ->
    cmp_d leaf ee (ELeft a) y e = (if same_concept a y then cmp_d leaf ee a y (ee e) else Ret false) /\
    cmp_d leaf ee (ERight a) y e = (if same_concept a y then cmp_d leaf ee a y (ee e) else Ret false).
  Proof. destruct y; intros H; try discriminate; split; reflexivity. Qed.

  Ltac wsplit := repeat match goal with H : (_ && _) = true |- _ => apply andb_prop in H; destruct H end.

  Ltac sub_tac Hok := revert Hok; apply okE_sub; cbn; intros; try discriminate; wsplit; auto.

  Lemma cmp_d_R : forall x, wfb x = true -> forall y e, wfb y = true -> okE e x y ->
    R (cmp_d leaf ee x y e) (gspec (pnum e) x y).
  Proof.
    destruct HR as [Rret Rrej Rand].
    induction x as [z|k l|s d| |a IHa|a IHa|a IHa|l IHl] using val_ind'; intros Hwx;
      induction y as [z'|k' l'|s' d'| |b IHb|b IHb|b IHb|l' IHl'] using val_ind'; intros e Hwy Hok.
    all: try (cbn; apply Rret).
    all: try (cbn; apply leaf_ok; auto; fail).
    all: try (cbn; rewrite ?leaf_tuple_l, ?leaf_tuple_r; apply Rrej).
    all: pose proof Hwx as Hwx0; pose proof Hwy as Hwy0; cbn in Hwx, Hwy; wsplit.
    all: match goal with
      | |- R (cmp_d _ _ (MSome _) (MSome _) _) _ => cbn; apply IHa; [assumption | assumption | sub_tac Hok]
      | |- R (cmp_d _ _ (MSome _) _ _) _ => cbn; apply IHa; [assumption | exact Hwy0 | sub_tac Hok]
      | |- R (cmp_d _ _ (ELeft _) (ELeft _) _) _ => cbn; apply IHa; [assumption | assumption | sub_tac Hok]
      | |- R (cmp_d _ _ (ERight _) (ERight _) _) _ => cbn; apply IHa; [assumption | assumption | sub_tac Hok]
      | |- R (cmp_d _ _ _ (MSome _) _) _ => cbn; cbn in IHb; apply IHb; [assumption | sub_tac Hok]
      | _ => idtac
      end.
    all: destruct Hok as [[N1 N2]|[Hee [T1 T2]]]; try (cbn in N1, N2; discriminate).
    all: cbn in T1, T2.
    all: match goal with
      | |- R (cmp_d _ _ (ELeft ?A) ?Y ?E) _ =>
          rewrite (proj1 (cmp_d_e_leaf A Y E eq_refl)), (proj1 (gspec_e_leaf (pnum E) A Y eq_refl))
      | |- R (cmp_d _ _ (ERight ?A) ?Y ?E) _ =>
          rewrite (proj2 (cmp_d_e_leaf A Y E eq_refl)), (proj2 (gspec_e_leaf (pnum E) A Y eq_refl))
      | |- R (cmp_d _ _ ?X (ELeft ?B) ?E) _ =>
          rewrite (proj1 (cmp_d_leaf_e X B E eq_refl)), (proj1 (gspec_leaf_e (pnum E) X B eq_refl))
      | |- R (cmp_d _ _ ?X (ERight ?B) ?E) _ =>
          rewrite (proj2 (cmp_d_leaf_e X B E eq_refl)), (proj2 (gspec_leaf_e (pnum E) X B eq_refl))
      end.
    all: match goal with
      | |- R (if same_concept ?A ?Y then _ else _) _ => destruct (same_concept A Y) eqn:Hc; [ rewrite Hee | ]
      end.
    all: try (apply IHa; [assumption | exact Hwy0 | right; cbn; auto]; fail).
    all: try (apply IHb; [assumption | right; cbn; auto]; fail).
    all: try rewrite (gspec_sym _ (pnum_sym e) (Num _)).
    all: try rewrite (gspec_sym _ (pnum_sym e) (Idx _ _)).
    all: try rewrite (gspec_sym _ (pnum_sym e) (Arr _ _)).
    all: try rewrite (gspec_sym _ (pnum_sym e) (Tuple _)).
    all: match goal with
      | He : eitherok ?A = true, Hc : same_concept ?A ?Y = false |- R _ (gspec ?r ?A ?Y) =>
          rewrite (concept_false_l r A Y He eq_refl ltac:(cbn; auto) Hc); apply Rret
      end.
  Qed.

  Lemma okE_tuple e a l b l' : okE e (Tuple (a :: l)) (Tuple (b :: l')) -> okE e a b /\ okE e (Tuple l) (Tuple l').
  Proof. unfold okE; cbn. intros [[H1 H2]|[H0 [H1 H2]]]; wsplit; split; auto. Qed.

  Lemma cmp_t_R tm : forall x, wfb x = true -> forall y e, wfb y = true -> okE e x y ->
    R (cmp_t leaf ee pnum tm x y e) (gspec (pnum e) x y).
  Proof.
    pose proof cmp_d_R as HD. destruct HR as [Rret Rrej Rand].
    destruct tm;
    (induction x as [z|k l|s d| |a IHa|a IHa|a IHa|l IHl] using val_ind'; intros Hwx;
      induction y as [z'|k' l'|s' d'| |b IHb|b IHb|b IHb|l' IHl'] using val_ind'; intros e Hwy Hok).
    all: try (cbn; apply Rrej).
    all: try (cbn; apply Rret).
    all: try (match goal with |- R (cmp_t _ _ _ _ ?X ?Y ?E) ?S => change (R (cmp_d leaf ee X Y E) S) end;
              apply HD; assumption).
    all: match goal with
      | |- R (cmp_t _ _ _ _ (MSome _) (MSome _) _) _ => cbn; apply IHa; [exact Hwx | exact Hwy | sub_tac Hok]
      | |- R (cmp_t _ _ _ _ (MSome _) _ _) _ => cbn; apply IHa; [exact Hwx | exact Hwy | sub_tac Hok]
      | |- R (cmp_t _ _ _ _ _ (MSome _) _) _ => cbn; cbn in IHb; apply IHb; [exact Hwy | sub_tac Hok]
      | _ => idtac
      end.
    (* Idx / Idx and Tuple / Tuple, for both values of top_maybe *)
    all: match goal with
      | |- R (cmp_t _ _ _ _ (Idx ?K ?L) (Idx ?K' ?L') ?E) ?S =>
          change (R (if fixedk K && fixedk K'
                     then (if (length L =? length L')%nat then Ret (all2 (pnum E) L L') else Reject)
                     else cmp_d leaf ee (Idx K L) (Idx K' L') E) S);
          destruct (fixedk K && fixedk K'); [|apply HD; assumption];
          destruct (Nat.eqb_spec (length L) (length L')) as [El|El]; [|apply Rrej];
          cbn; unfold zlen; rewrite El, Z.eqb_refl; cbn; apply Rret
      | _ => idtac
      end.
    all: cbn; clear IHl'; cbn in Hwx, Hwy; revert l' Hwy Hok;
      induction IHl as [|a l Ha Hl IH]; intros [|b l'] Hwy Hok; try apply Rret; try apply Rrej;
      cbn in Hwx, Hwy; wsplit; apply okE_tuple in Hok as [Hok1 Hok2];
      apply Rand; [apply Ha; assumption | apply IH; assumption].
  Qed.
End GenericProof.

(* ---------- the leaves ---------- *)
Lemma all2_len_absorb f l l' : all2 f l l' = (zlen l =? zlen l') && true && all2 f l l'.
Proof.
  destruct (all2 f l l') eqn:E; [|now rewrite andb_false_r].
  apply all2_length in E. unfold zlen. rewrite E, Z.eqb_refl. reflexivity.
Qed.

Lemma isequal_arr_spec' nd s d s' d' : pos s \/ pos s' -> zlen d = prod s -> zlen d' = prod s' ->
  isequal_arr nd s d s' d' = Ret (all2 Z.eqb s s' && all2 Z.eqb d d').
Proof.
  intros Hp Hl Hl'. destruct (all2 Z.eqb s s') eqn:Es.
  - pose proof (all2_eqb_eq _ _ Es). subst s'. assert (pos s) by tauto.
    rewrite isequal_arr_spec by assumption. now rewrite Es.
  - unfold isequal_arr. destruct (Nat.eqb_spec (length s) (length s')); simpl; [|reflexivity].
    now rewrite isequal_idx_spec, Es.
Qed.

Lemma wf_idx_pos (l : list Z) : negb (length l =? 0)%nat = true -> pos [zlen l] /\ zlen l = prod [zlen l].
Proof.
  intros H. apply negb_true_iff, Nat.eqb_neq in H. unfold zlen, pos. simpl. split; [|lia].
  repeat constructor. lia.
Qed.
Lemma wf_arr (s d : list Z) : posb s && (zlen d =? prod s) = true -> pos s /\ zlen d = prod s.
Proof. intros H. apply andb_prop in H as [H1 H2]. apply posb_pos in H1. split; [assumption | lia]. Qed.

(* operands seen as arrays are well-formed arrays *)
Lemma as_arr_wf x s d : wfb x = true -> as_arr x = Some (s, d) -> pos s /\ zlen d = prod s.
Proof.
  destruct x; simpl; try discriminate.
  - destruct (ndk k); [|discriminate]. intros H E. injection E as <- <-. now apply wf_idx_pos.
  - intros H E. injection E as <- <-. now apply wf_arr.
Qed.
Lemma as_arr_arr_of x s d : as_arr x = Some (s, d) -> arr_of x = Some (s, d).
Proof. destruct x; simpl; try discriminate; auto. destruct (ndk k); [auto|discriminate]. Qed.

Lemma lspec_arr r x y s d s' d' : arr_of x = Some (s, d) -> arr_of y = Some (s', d') ->
  lspec r x y = all2 Z.eqb s s' && all2 r d d'.
Proof. destruct x, y; simpl; try discriminate; intros E E'; injection E as <- <-; injection E' as <- <-; reflexivity. Qed.

Lemma leaf_eq_ok nd e x y : leafy x = true -> leafy y = true -> wfb x = true -> wfb y = true ->
  Rexact (leaf_eq nd e x y) (lspec Z.eqb x y).
Proof.
  intros Lx Ly Wx Wy. unfold Rexact.
  destruct x as [a|k l|s d| | | | |lx]; try discriminate; destruct y as [b|k' l'|s' d'| | | | |ly]; try discriminate.
  all: try (left; reflexivity).
  all: try (right; cbn; try destruct (ndk _); reflexivity).
  - left. unfold leaf_eq. rewrite isequal_idx_spec. f_equal. cbn. apply all2_len_absorb.
  - unfold leaf_eq. destruct (as_arr (Idx k l)) as [[s d]|] eqn:E; [|now right].
    destruct (as_arr_wf _ _ _ Wx E). destruct (as_arr_wf (Arr s' d') s' d' Wy eq_refl).
    left. cbn [as_arr]. rewrite isequal_arr_spec' by tauto.
    now rewrite (lspec_arr Z.eqb (Idx k l) (Arr s' d') s d s' d' (as_arr_arr_of _ _ _ E) eq_refl).
  - unfold leaf_eq. destruct (as_arr (Idx k' l')) as [[s' d']|] eqn:E; [|now right].
    destruct (as_arr_wf _ _ _ Wy E). destruct (as_arr_wf (Arr s d) s d Wx eq_refl).
    left. cbn [as_arr]. rewrite isequal_arr_spec' by tauto.
    now rewrite (lspec_arr Z.eqb (Arr s d) (Idx k' l') s d s' d' eq_refl (as_arr_arr_of _ _ _ E)).
  - left. cbn [leaf_eq as_arr]. destruct (wf_arr _ _ Wx), (wf_arr _ _ Wy).
    now rewrite isequal_arr_spec' by tauto.
Qed.

Lemma leaf_cl_arr_cases nd e x y : leafy x = true -> leafy y = true ->
  (exists a b, x = Num a /\ y = Num b) \/
  (exists s d s' d', as_arr x = Some (s, d) /\ as_arr y = Some (s', d') /\ leaf_cl nd e x y = isclose_arr nd e s d s' d') \/
  leaf_cl nd e x y = Reject.
Proof.
  intros Lx Ly.
  destruct x as [a|k l|s d| | | | |lx]; try discriminate; destruct y as [b|k' l'|s' d'| | | | |ly]; try discriminate.
  all: try (left; eauto; fail).
  all: unfold leaf_cl.
  all: try (destruct (as_arr (Idx k l)) as [[s0 d0]|] eqn:E1; [|right; right; reflexivity]).
  all: try (destruct (as_arr (Idx k' l')) as [[s1 d1]|] eqn:E2; [|right; right; reflexivity]).
  all: try (right; right; reflexivity).
  all: right; left; cbn [as_arr]; do 4 eexists; repeat split; reflexivity.
Qed.

Lemma leaf_cl_ok nd e x y : leafy x = true -> leafy y = true -> wfb x = true -> wfb y = true ->
  Rexact (leaf_cl nd e x y) (lspec (close e) x y).
Proof.
  intros Lx Ly Wx Wy. unfold Rexact.
  destruct (leaf_cl_arr_cases nd e x y Lx Ly) as [(a & b & -> & ->)|[(s & d & s' & d' & E & E' & ->) | ->]]; auto.
  destruct (as_arr_wf _ _ _ Wx E), (as_arr_wf _ _ _ Wy E').
  rewrite (lspec_arr _ _ _ _ _ _ _ (as_arr_arr_of _ _ _ E) (as_arr_arr_of _ _ _ E')).
  left. apply isclose_arr_spec; auto.
Qed.

Lemma fclose_sym e a b : fclose e a b = fclose e b a.
Proof. destruct a, b; simpl; auto. replace (z0 - z) with (- (z - z0)) by ring. now rewrite Z.abs_opp. Qed.
Lemma close_sym e a b : close e a b = close e b a.
Proof. unfold close. apply fclose_sym. Qed.
(* closeness is reflexive exactly on finite elements: a NaN or an infinity is not close to itself *)
Lemma close_refl e a : 0 < e -> finitez a = true -> close e a a = true.
Proof. unfold close, finitez. intros H F. destruct (decode a); try discriminate. simpl. rewrite Z.sub_diag. simpl. lia. Qed.
Lemma close_nonfinite e a b : finitez a = false \/ finitez b = false -> close e a b = false.
Proof. unfold close, finitez. intros [F|F]; destruct (decode a), (decode b); try discriminate; reflexivity. Qed.

Lemma pair_dom_okE ee e x y : pair_dom x y = true -> ee e = e -> okE ee e x y.
Proof.
  unfold pair_dom, okE. intros H He. apply orb_prop in H as [H|H]; apply andb_prop in H as [H1 H2]; auto.
Qed.

(* ---------- the statements ---------- *)
Lemma leaf_eq_tl nd e l y : leaf_eq nd e (Tuple l) y = Reject.
Proof. destruct y; reflexivity. Qed.
Lemma leaf_eq_tr nd e x l : leaf_eq nd e x (Tuple l) = Reject.
Proof. destruct x; try reflexivity. cbn. now destruct (ndk k). Qed.
Lemma leaf_cl_tl nd e l y : leaf_cl nd e (Tuple l) y = Reject.
Proof. destruct y; reflexivity. Qed.
Lemma leaf_cl_tr nd e x l : leaf_cl nd e x (Tuple l) = Reject.
Proof. destruct x; try reflexivity. cbn. now destruct (ndk k). Qed.

Lemma isequal_total nd x y : wfb x = true -> wfb y = true -> pair_dom x y = true ->
  isequal nd x y = Ret (spec_equal x y) \/ isequal nd x y = Reject.
Proof.
  intros Wx Wy D.
  exact (cmp_t_R (leaf_eq nd) (fun e => e) (fun _ a b => a =? b) Rexact okrel_exact (fun _ => Z.eqb_sym)
           (leaf_eq_ok nd) (leaf_eq_tl nd) true x Wx y 0 Wy (pair_dom_okE _ 0 x y D eq_refl)).
Qed.
Lemma isequal_d_total nd x y : wfb x = true -> wfb y = true -> pair_dom x y = true ->
  isequal_d nd x y = Ret (spec_equal x y) \/ isequal_d nd x y = Reject.
Proof.
  intros Wx Wy D.
  exact (cmp_d_R (leaf_eq nd) (fun e => e) (fun _ a b => a =? b) Rexact okrel_exact (fun _ => Z.eqb_sym)
           (leaf_eq_ok nd) (leaf_eq_tl nd) x Wx y 0 Wy (pair_dom_okE _ 0 x y D eq_refl)).
Qed.

Lemma isclose_total nd eps x y : wfb x = true -> wfb y = true -> pair_dom x y = true ->
  isclose nd eps x y = Ret (spec_close eps x y) \/ isclose nd eps x y = Reject.
Proof.
  intros Wx Wy D.
  exact (cmp_t_R (leaf_cl nd) (fun e => e) close Rexact okrel_exact close_sym
           (leaf_cl_ok nd) (leaf_cl_tl nd) false x Wx y eps Wy (pair_dom_okE _ eps x y D eq_refl)).
Qed.
Lemma isclose_d_total nd eps x y : wfb x = true -> wfb y = true -> pair_dom x y = true ->
  isclose_d nd eps x y = Ret (spec_close eps x y) \/ isclose_d nd eps x y = Reject.
Proof.
  intros Wx Wy D.
  exact (cmp_d_R (leaf_cl nd) (fun e => e) close Rexact okrel_exact close_sym
           (leaf_cl_ok nd) (leaf_cl_tl nd) x Wx y eps Wy (pair_dom_okE _ eps x y D eq_refl)).
Qed.

(* ---------- derived statements ---------- *)
Lemma pair_dom_sym x y : pair_dom x y = pair_dom y x.
Proof. unfold pair_dom. now rewrite (andb_comm (noeither x)), (andb_comm (notup x)). Qed.
Lemma pair_dom_diag x : pair_dom x x = noeither x || notup x.
Proof. unfold pair_dom. now rewrite !andb_diag. Qed.

Lemma isequal_safe nd x y : wfb x = true -> wfb y = true -> pair_dom x y = true ->
  isequal nd x y <> UB /\ isequal nd x y <> Abort /\ isequal_d nd x y <> UB /\ isequal_d nd x y <> Abort.
Proof.
  intros Wx Wy D.
  destruct (isequal_total nd x y Wx Wy D) as [-> | ->], (isequal_d_total nd x y Wx Wy D) as [-> | ->];
    repeat split; discriminate.
Qed.
Lemma isequal_refl nd x : wfb x = true -> pair_dom x x = true ->
  isequal nd x x = Ret true \/ isequal nd x x = Reject.
Proof.
  intros Wx D. destruct (isequal_total nd x x Wx Wx D) as [H|H]; auto.
  left. rewrite H. f_equal. apply gspec_refl; auto. apply Z.eqb_refl.
Qed.
Lemma isequal_sym nd x y b : wfb x = true -> wfb y = true -> pair_dom x y = true ->
  isequal nd x y = Ret b -> isequal nd y x = Ret b \/ isequal nd y x = Reject.
Proof.
  intros Wx Wy D H. destruct (isequal_total nd x y Wx Wy D) as [H1|H1]; [|congruence].
  rewrite pair_dom_sym in D. destruct (isequal_total nd y x Wy Wx D) as [H2|H2]; auto.
  left. rewrite H2. rewrite H in H1. injection H1 as ->. f_equal. unfold spec_equal. apply gspec_sym, Z.eqb_sym.
Qed.
Lemma spec_equal_sym x y : spec_equal x y = spec_equal y x.
Proof. apply gspec_sym, Z.eqb_sym. Qed.
Lemma spec_close_sym e x y : spec_close e x y = spec_close e y x.
Proof. apply gspec_sym, close_sym. Qed.

Lemma isequal_shape_mismatch nd s d s' d' : wfb (Arr s d) = true -> wfb (Arr s' d') = true -> s <> s' ->
  isequal nd (Arr s d) (Arr s' d') = Ret false /\ isequal_d nd (Arr s d) (Arr s' d') = Ret false.
Proof.
  intros W W' N. destruct (wf_arr _ _ W), (wf_arr _ _ W').
  assert (E : all2 Z.eqb s s' = false).
  { destruct (all2 Z.eqb s s') eqn:E; [|reflexivity]. apply all2_eqb_eq in E. contradiction. }
  assert (isequal_arr nd s d s' d' = Ret false) by (rewrite isequal_arr_spec' by tauto; now rewrite E).
  split; assumption.
Qed.
Lemma isequal_length_mismatch nd k l k' l' : length l <> length l' ->
  isequal_d nd (Idx k l) (Idx k' l') = Ret false /\
  (isequal nd (Idx k l) (Idx k' l') = Ret false \/ isequal nd (Idx k l) (Idx k' l') = Reject).
Proof.
  intros N.
  assert (D : isequal_d nd (Idx k l) (Idx k' l') = Ret false).
  { change (isequal_idx k l k' l' = Ret false). rewrite isequal_idx_spec. f_equal. now apply all2_length_ne. }
  split; [exact D|].
  change (isequal nd (Idx k l) (Idx k' l')) with
    (if fixedk k && fixedk k' then (if (length l =? length l')%nat then Ret (all2 Z.eqb l l') else Reject)
     else isequal_d nd (Idx k l) (Idx k' l')).
  destruct (fixedk k && fixedk k'); auto. apply Nat.eqb_neq in N. rewrite N. auto.
Qed.

Lemma isclose_safe nd eps x y : wfb x = true -> wfb y = true -> pair_dom x y = true ->
  isclose nd eps x y <> UB /\ isclose nd eps x y <> Abort /\ isclose_d nd eps x y <> UB /\ isclose_d nd eps x y <> Abort.
Proof.
  intros Wx Wy D.
  destruct (isclose_total nd eps x y Wx Wy D) as [-> | ->], (isclose_d_total nd eps x y Wx Wy D) as [-> | ->];
    repeat split; discriminate.
Qed.
Lemma isclose_refl nd eps x : 0 < eps -> wfb x = true -> pair_dom x x = true -> allelems finitez x = true ->
  isclose nd eps x x = Ret true \/ isclose nd eps x x = Reject.
Proof.
  intros He Wx D F. destruct (isclose_total nd eps x x Wx Wx D) as [H|H]; auto.
  left. rewrite H. f_equal. apply (gspec_refl_on (close eps) finitez); auto. intros a. now apply close_refl.
Qed.
Lemma isclose_sym nd eps x y b : wfb x = true -> wfb y = true -> pair_dom x y = true ->
  isclose nd eps x y = Ret b -> isclose nd eps y x = Ret b \/ isclose nd eps y x = Reject.
Proof.
  intros Wx Wy D H. destruct (isclose_total nd eps x y Wx Wy D) as [H1|H1]; [|congruence].
  rewrite pair_dom_sym in D. destruct (isclose_total nd eps y x Wy Wx D) as [H2|H2]; auto.
  left. rewrite H2. rewrite H in H1. injection H1 as ->. f_equal. apply spec_close_sym.
Qed.
Lemma isclose_shape_mismatch nd eps s d s' d' : wfb (Arr s d) = true -> wfb (Arr s' d') = true -> s <> s' ->
  isclose nd eps (Arr s d) (Arr s' d') = Ret false /\ isclose_d nd eps (Arr s d) (Arr s' d') = Ret false.
Proof.
  intros W W' N. destruct (wf_arr _ _ W), (wf_arr _ _ W').
  assert (E : all2 Z.eqb s s' = false).
  { destruct (all2 Z.eqb s s') eqn:E; [|reflexivity]. apply all2_eqb_eq in E. contradiction. }
  assert (isclose_arr nd eps s d s' d' = Ret false) by (rewrite isclose_arr_spec by tauto; now rewrite E).
  split; assumption.
Qed.
Lemma isclose_same_shape nd eps s d d' : wfb (Arr s d) = true -> wfb (Arr s d') = true ->
  isclose nd eps (Arr s d) (Arr s d') = Ret (all2 (close eps) d d').
Proof.
  intros W W'. destruct (wf_arr _ _ W), (wf_arr _ _ W').
  change (isclose_arr nd eps s d s d' = Ret (all2 (close eps) d d')).
  rewrite isclose_arr_spec by tauto. now rewrite (all2_refl _ _ Z.eqb_refl).
Qed.

(* ---------- memory layouts: only the logical elements matter ---------- *)
Lemma logical_length L s buf : pos s -> zlen (logical L s buf) = prod s.
Proof.
  intros Hp. unfold logical, zlen, zrange. rewrite map_length, zs_length. pose proof (prod_pos _ Hp). lia.
Qed.
Lemma arr_readL_some L s buf k : pos s -> zlen buf = prod s -> exists v, arr_readL L s buf k = Some v.
Proof.
  intros Hp Hl. unfold arr_readL. pose proof (layout_offset_bound L s _ (unrav_inb k s Hp)) as B.
  replace (layout_offset L s (compute_indices k s) <? 0) with false by lia.
  destruct (nth_error buf (Z.to_nat (layout_offset L s (compute_indices k s)))) eqn:E; [eauto|].
  apply nth_error_None in E. unfold zlen in Hl. lia.
Qed.
Lemma nth_zs n k : (k < n)%nat -> nth_error (zs n) k = Some (Z.of_nat k).
Proof. intros H. unfold zs. rewrite nth_error_map, nth_error_nth' with (d := 0%nat) by (rewrite seq_length; lia).
  rewrite seq_nth by lia. reflexivity. Qed.
Lemma arr_read_logical L s buf k : pos s -> zlen buf = prod s -> 0 <= k < prod s ->
  arr_read s (logical L s buf) k = arr_readL L s buf k.
Proof.
  intros Hp Hl Hk. rewrite arr_read_in by (auto using logical_length).
  unfold logical, zrange. rewrite nth_error_map, nth_zs by lia. simpl. rewrite Z2Nat.id by lia.
  destruct (arr_readL_some L s buf k Hp Hl) as [v ->]. reflexivity.
Qed.
Lemma arr_loopL_logical cmp L s d L' d' : pos s -> zlen d = prod s -> zlen d' = prod s ->
  forall n i acc, 0 <= i -> i + Z.of_nat n <= prod s ->
  arr_loopL cmp L s d L' s d' i n acc = arr_loop cmp s (logical L s d) s (logical L' s d') i n acc.
Proof.
  intros Hp Hl Hl'. induction n as [|n IH]; intros i acc Hi Hn; simpl; [reflexivity|].
  destruct acc; [|apply IH; lia].
  rewrite !arr_read_logical by (auto; lia).
  destruct (arr_readL L s d i), (arr_readL L' s d' i); auto. apply IH; lia.
Qed.

Lemma isequal_arrL_logical nd L s d L' s' d' : pos s -> zlen d = prod s -> pos s' -> zlen d' = prod s' ->
  isequal_arrL nd L s d L' s' d' = isequal_arr nd s (logical L s d) s' (logical L' s' d').
Proof.
  intros Hp Hl Hp' Hl'. unfold isequal_arrL, isequal_arr.
  destruct (negb (length s =? length s')%nat); [reflexivity|]. rewrite isequal_idx_spec.
  destruct (all2 Z.eqb s s') eqn:Es; [|reflexivity]. apply all2_eqb_eq in Es. subst s'.
  destruct (negb (product s =? product s) && negb nd); [reflexivity|].
  rewrite product_eq_prod. pose proof (prod_pos _ Hp). apply arr_loopL_logical; auto; lia.
Qed.
Lemma isclose_arrL_logical nd eps L s d L' s' d' : pos s -> zlen d = prod s -> pos s' -> zlen d' = prod s' ->
  isclose_arrL nd eps L s d L' s' d' = isclose_arr nd eps s (logical L s d) s' (logical L' s' d').
Proof.
  intros Hp Hl Hp' Hl'. unfold isclose_arrL, isclose_arr. rewrite isequal_idx_spec.
  destruct (all2 Z.eqb s s') eqn:Es; [|reflexivity]. apply all2_eqb_eq in Es. subst s'.
  rewrite product_eq_prod. pose proof (prod_pos _ Hp). apply arr_loopL_logical; auto; lia.
Qed.

(* whatever the two layouts: same shape and equal LOGICAL elements *)
Lemma isequal_arrL_spec nd L s d L' s' d' : pos s -> zlen d = prod s -> pos s' -> zlen d' = prod s' ->
  isequal_arrL nd L s d L' s' d' = Ret (all2 Z.eqb s s' && all2 Z.eqb (logical L s d) (logical L' s' d')) /\
  forall eps, isclose_arrL nd eps L s d L' s' d' = Ret (all2 Z.eqb s s' && all2 (close eps) (logical L s d) (logical L' s' d')).
Proof.
  intros Hp Hl Hp' Hl'. split; [|intros eps].
  - rewrite isequal_arrL_logical by assumption. apply isequal_arr_spec; auto using logical_length.
  - rewrite isclose_arrL_logical by assumption. apply isclose_arr_spec; auto using logical_length.
Qed.

(* ---------- integer comparisons in one machine type ---------- *)
Lemma swrap_small w z : 0 < w -> - 2 ^ (w - 1) <= z < 2 ^ (w - 1) -> swrap w z = z.
Proof.
  intros Hw Hz. unfold swrap.
  assert (E : 2 ^ w = 2 * 2 ^ (w - 1)) by (replace w with (Z.succ (w - 1)) at 1 by lia; apply Z.pow_succ_r; lia).
  assert (P : 0 < 2 ^ (w - 1)) by (apply Z.pow_pos_nonneg; lia).
  destruct (Z_lt_le_dec z 0) as [Hn|Hn].
  - replace (z mod 2 ^ w) with (z + 2 ^ w).
    + replace (z + 2 ^ w <? 2 ^ (w - 1)) with false by lia. lia.
    + rewrite <- (Z_mod_plus_full z 1 (2 ^ w)). rewrite Z.mod_small; lia.
  - rewrite Z.mod_small by lia. replace (z <? 2 ^ (w - 1)) with true by lia. reflexivity.
Qed.
(* a comparison in a type in which both values are representable is the comparison of the values *)
Lemma eq_in_type_exact s w a b : 0 < w -> in_range s w a -> in_range s w b -> eq_in_type s w a b = (a =? b).
Proof.
  intros Hw Ha Hb. unfold eq_in_type, in_range in *. destruct s.
  - now rewrite !swrap_small.
  - now rewrite !wrap_small.
Qed.

(* ---------- an operand compared with itself: still a function of the values and eps ---------- *)
Lemma close_self e a : close e a a = (0 <? e) && finitez a.
Proof.
  unfold close, finitez. destruct (decode a); simpl; rewrite ?andb_false_r; auto.
  rewrite Z.sub_diag. simpl. now rewrite andb_true_r.
Qed.
Lemma all2_diag f (d : list Z) : all2 f d d = forallb (fun a => f a a) d.
Proof. induction d; simpl; congruence. Qed.
Lemma self_all_pos eps (l : list Z) : (0 <? eps) = true -> forallb (fun a => close eps a a) l = forallb finitez l.
Proof. intros E. induction l as [|a l IH]; simpl; [reflexivity|]. now rewrite close_self, E, IH. Qed.
Lemma isclose_self nd eps s d : wfb (Arr s d) = true ->
  isclose nd eps (Arr s d) (Arr s d) = Ret ((0 <? eps) && forallb finitez d).
Proof.
  intros W. rewrite isclose_same_shape by assumption. f_equal. rewrite all2_diag.
  destruct (wf_arr _ _ W) as [Hp Hl]. pose proof (prod_pos _ Hp).
  destruct (0 <? eps) eqn:E; [now apply self_all_pos|].
  destruct d as [|x d]; [unfold zlen in Hl; simpl in Hl; lia|]. simpl. now rewrite close_self, E.
Qed.
