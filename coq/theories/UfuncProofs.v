(* UfuncProofs.v — C07: the element-wise views have the broadcast shape and route operand elements
   as NumPy's broadcasting prescribes, for any scalar operation. *)
From NM Require Import Base Index IndexProofs Broadcast BroadcastProofs Ufunc.
Local Open Scope Z_scope.

(* ---------- the broadcast shape is a broadcast_to target of each operand ---------- *)

Lemma np_axes_bto x : forall y d, pos x -> pos y -> np_axes x y = Some d ->
  np_bto_ok x d = true /\ length d = length x.
Proof.
  induction x as [|a x IH]; intros [|b y] d Hx Hy H; cbn [np_axes] in H; try discriminate.
  - injection H as <-. split; reflexivity.
  - inversion Hx as [|? ? Ha Hx']; subst. inversion Hy as [|? ? Hb Hy']; subst.
    destruct ((a =? b) || (a =? 1) || (b =? 1)) eqn:E; [|discriminate].
    destruct (np_axes x y) as [d'|] eqn:E'; [|discriminate]. injection H as <-.
    destruct (IH y d' Hx' Hy' E') as [Hok Hl]. cbn [np_bto_ok length]. split; [|now rewrite Hl].
    rewrite Hok, andb_true_r.
    apply orb_prop in E as [E|E]; [apply orb_prop in E as [E|E]|].
    + apply Z.eqb_eq in E. subst b. rewrite Z.max_id, Z.eqb_refl. reflexivity.
    + rewrite E. apply orb_true_r.
    + apply Z.eqb_eq in E. subst b. replace (Z.max a 1) with a by lia. now rewrite Z.eqb_refl.
Qed.

Lemma np_bto_ok_unpad k : forall a d, np_bto_ok (repeat 1 k ++ a) d = true ->
  np_bto_ok a (skipn k d) = true.
Proof.
  induction k as [|k IH]; intros a d H; cbn [repeat app skipn] in *; [assumption|].
  destruct d as [|y d]; cbn [np_bto_ok] in H; [discriminate|].
  apply andb_prop in H as [_ H]. now apply IH.
Qed.

Lemma pos_repeat_1 k : pos (repeat 1 k).
Proof. induction k; cbn; constructor; auto; lia. Qed.

Lemma pos_pad_to n a : pos a -> pos (pad_to n a).
Proof. intros H. unfold pad_to. apply pos_app. split; [apply pos_repeat_1 | assumption]. Qed.

Lemma bshape_bto a b d : pos a -> pos b -> broadcast_shape2 a b = Some d ->
  np_broadcast_to_shape a d = Some d.
Proof.
  intros Ha Hb H. rewrite (broadcast_shape2_np a b Ha Hb) in H. unfold np_broadcast2 in H.
  set (n := Nat.max (length a) (length b)) in *.
  destruct (np_axes_bto _ _ _ (pos_pad_to n a Ha) (pos_pad_to n b Hb) H) as [Hok Hl].
  rewrite pad_to_length in Hl by lia.
  unfold np_broadcast_to_shape. rewrite Hl.
  replace (length a <=? n)%nat with true by (symmetry; apply Nat.leb_le; lia).
  unfold pad_to in Hok. rewrite (np_bto_ok_unpad _ _ _ Hok). reflexivity.
Qed.

Lemma bcast_ok {T} (x : operand T) d : np_broadcast_to_shape (fst x) d = Some d ->
  exists free, shape_broadcast_to (fst x) d = Some (d, free)
    /\ bcast x d = Some (d, fun i => snd x (broadcast_to_idx i (fst x) d (origin_axes free))).
Proof.
  intros H. pose proof (shape_broadcast_to_shape (fst x) d) as E. rewrite H in E.
  unfold bcast, broadcast_to_view.
  destruct (shape_broadcast_to (fst x) d) as [[d' free]|]; cbn in E; [|discriminate].
  injection E as ->. exists free. split; reflexivity.
Qed.

Lemma list_eqb_refl s : list_eqb s s = true.
Proof. induction s; cbn; [reflexivity | now rewrite Z.eqb_refl]. Qed.

(* the element read from one operand under the model's index map is NumPy's *)
Lemma bcast_elem {T} (x : operand T) d free i : pos (fst x) ->
  shape_broadcast_to (fst x) d = Some (d, free) -> inb i d ->
  snd x (broadcast_to_idx i (fst x) d (origin_axes free)) = snd x (np_broadcast_to_idx (fst x) i)
  /\ inb (np_broadcast_to_idx (fst x) i) (fst x).
Proof.
  intros Hp H Hi. destruct (broadcast_to_elem_spec _ _ _ _ _ Hp H Hi) as (_ & E & Hb).
  now rewrite E.
Qed.

Section Proofs.
Variables A B C R : Type.

(* ---------- unary ---------- *)
Lemma ufunc1_spec (f : A -> R) (a : operand A) :
  ufunc1 f a = (fst a, fun i => f (snd a i)).
Proof. reflexivity. Qed.

(* ---------- binary ---------- *)
Theorem ufunc2_correct (f : A -> B -> R) (a : operand A) (b : operand B) :
  pos (fst a) -> pos (fst b) ->
  match ufunc2 f a b, ufunc2_spec f a b with
  | Some (d, e), Some (d', e') =>
      d = d' /\ forall i, inb i d ->
        e i = e' i /\ inb (np_broadcast_to_idx (fst a) i) (fst a) /\ inb (np_broadcast_to_idx (fst b) i) (fst b)
  | None, None => True
  | _, _ => False
  end.
Proof.
  intros Ha Hb. unfold ufunc2, ufunc2_spec. cbn [broadcast_shapes broadcast_shape_n].
  rewrite <- (broadcast_shape2_np _ _ Ha Hb).
  destruct (broadcast_shape2 (fst a) (fst b)) as [d|] eqn:E; cbn [obind]; [|exact I].
  pose proof (bshape_bto _ _ _ Ha Hb E) as Ba.
  rewrite broadcast_shape2_comm in E. pose proof (bshape_bto _ _ _ Hb Ha E) as Bb.
  destruct (bcast_ok a d Ba) as [fa [Sa ->]]. destruct (bcast_ok b d Bb) as [fb [Sb ->]].
  unfold shape_ufunc. cbn [forallb]. rewrite list_eqb_refl. cbn [andb].
  split; [reflexivity|]. intros i Hi.
  destruct (bcast_elem a d fa i Ha Sa Hi) as [Ea Ia]. destruct (bcast_elem b d fb i Hb Sb Hi) as [Eb Ib].
  rewrite Ea, Eb. repeat split; assumption.
Qed.

(* ---------- ternary ---------- *)
Lemma bshape_self_bto a d : pos a -> pos d -> broadcast_shape2 a d = Some d ->
  np_broadcast_to_shape a d = Some d.
Proof. intros Ha Hd H. exact (bshape_bto a d d Ha Hd H). Qed.

Theorem ufunc3_correct (f : A -> B -> C -> R) (a : operand A) (b : operand B) (c : operand C) :
  pos (fst a) -> pos (fst b) -> pos (fst c) ->
  match ufunc3 f a b c, ufunc3_spec f a b c with
  | Some (d, e), Some (d', e') =>
      d = d' /\ forall i, inb i d ->
        e i = e' i /\ inb (np_broadcast_to_idx (fst a) i) (fst a) /\ inb (np_broadcast_to_idx (fst b) i) (fst b)
        /\ inb (np_broadcast_to_idx (fst c) i) (fst c)
  | None, None => True
  | _, _ => False
  end.
Proof.
  intros Ha Hb Hc. unfold ufunc3, ufunc3_spec, np_broadcast3. cbn [broadcast_shapes broadcast_shape_n].
  rewrite <- (broadcast_shape2_np _ _ Ha Hb).
  destruct (broadcast_shape2 (fst a) (fst b)) as [r|] eqn:Er; cbn [obind]; [|exact I].
  pose proof (broadcast_shape2_pos _ _ _ Ha Hb Er) as Hr.
  rewrite <- (broadcast_shape2_np _ _ Hr Hc).
  destruct (broadcast_shape2 r (fst c)) as [d|] eqn:Ed; cbn [obind]; [|exact I].
  pose proof (broadcast_shape2_pos _ _ _ Hr Hc Ed) as Hd.
  destruct (broadcast_shape2_absorb _ _ _ Ha Hb Er) as [Aar Arb].
  (* a and b broadcast to d through r, by associativity *)
  assert (Ba : np_broadcast_to_shape (fst a) d = Some d).
  { apply bshape_self_bto; auto.
    pose proof (broadcast_shape2_assoc (fst a) r (fst c) Ha Hr Hc) as G.
    rewrite Aar, Ed in G. cbn [obind] in G. rewrite Ed in G. now symmetry. }
  assert (Bb : np_broadcast_to_shape (fst b) d = Some d).
  { apply bshape_self_bto; auto.
    pose proof (broadcast_shape2_assoc (fst b) r (fst c) Hb Hr Hc) as G.
    rewrite (broadcast_shape2_comm (fst b) r), Arb, Ed in G. cbn [obind] in G. rewrite Ed in G. now symmetry. }
  assert (Bc : np_broadcast_to_shape (fst c) d = Some d).
  { rewrite broadcast_shape2_comm in Ed. exact (bshape_bto _ _ _ Hc Hr Ed). }
  destruct (bcast_ok a d Ba) as [fa [Sa ->]]. destruct (bcast_ok b d Bb) as [fb [Sb ->]].
  destruct (bcast_ok c d Bc) as [fc [Sc ->]].
  unfold shape_ufunc. cbn [forallb]. rewrite list_eqb_refl. cbn [andb].
  split; [reflexivity|]. intros i Hi.
  destruct (bcast_elem a d fa i Ha Sa Hi) as [Ea Ia]. destruct (bcast_elem b d fb i Hb Sb Hi) as [Eb Ib].
  destruct (bcast_elem c d fc i Hc Sc Hi) as [Ec Ic].
  rewrite Ea, Eb, Ec. repeat split; assumption.
Qed.

(* ---------- outer ---------- *)
Lemma map_nth_firstn (l : list Z) : forall n, (n <= length l)%nat ->
  map (fun k => nth k l 0) (seq 0 n) = firstn n l.
Proof.
  induction l as [|x l IH]; intros n Hn; cbn [length] in Hn.
  - replace n with 0%nat by lia. reflexivity.
  - destruct n as [|n]; [reflexivity|]. cbn [seq map firstn nth]. f_equal.
    rewrite <- seq_shift, map_map. cbn [nth]. apply IH. lia.
Qed.

Lemma map_nth_skipn (l : list Z) : forall n m, (n + m <= length l)%nat ->
  map (fun k => nth (k + n) l 0) (seq 0 m) = firstn m (skipn n l).
Proof.
  induction l as [|x l IH]; intros n m H; cbn [length] in H.
  - replace m with 0%nat by lia. now destruct n.
  - destruct n as [|n].
    + cbn [skipn]. rewrite <- map_nth_firstn by (cbn [length]; lia).
      apply map_ext. intros k. now rewrite Nat.add_0_r.
    + cbn [skipn]. rewrite <- IH by lia. apply map_ext. intros k.
      replace (k + S n)%nat with (S (k + n)) by lia. reflexivity.
Qed.

Lemma shape_outer_app (sa sb : list Z) : shape_outer sa sb = sa ++ sb.
Proof.
  unfold shape_outer. rewrite seq_app, map_app. f_equal.
  - transitivity (firstn (length sa) sa); [|apply firstn_all]. rewrite <- map_nth_firstn by lia.
    apply map_ext_in. intros k Hk. apply in_seq in Hk.
    replace (k <? length sa)%nat with true by (symmetry; apply Nat.ltb_lt; lia). reflexivity.
  - cbn [Nat.add]. transitivity (firstn (length sb) sb); [|apply firstn_all]. rewrite <- map_nth_firstn by lia.
    rewrite (seq_add_map (length sa)), map_map. apply map_ext. intros k.
    replace (length sa + k <? length sa)%nat with false by (symmetry; apply Nat.ltb_ge; lia).
    f_equal. lia.
Qed.

Theorem outer_correct (f : A -> B -> R) (a : operand A) (b : operand B) :
  fst (outer f a b) = fst (outer_spec f a b)
  /\ (forall i, length i = (length (fst a) + length (fst b))%nat ->
        snd (outer f a b) i = snd (outer_spec f a b) i)
  /\ (forall i, inb i (fst a ++ fst b) ->
        inb (firstn (length (fst a)) i) (fst a) /\ inb (skipn (length (fst a)) i) (fst b)).
Proof.
  split; [apply shape_outer_app|]. split.
  - intros i Hl. cbn [outer outer_spec snd outer_idx fst].
    rewrite map_nth_firstn by lia. rewrite map_nth_skipn by lia.
    rewrite (firstn_all2 (n := length (fst b))) by (rewrite skipn_length; lia). reflexivity.
  - intros i Hi. now apply inb_app_inv.
Qed.

End Proofs.

(* shape alone, as an equation of options (failure included) *)
Lemma ufunc2_shape {A B R} (f : A -> B -> R) (a : operand A) (b : operand B) :
  pos (fst a) -> pos (fst b) ->
  option_map fst (ufunc2 f a b) = np_broadcast2 (fst a) (fst b).
Proof.
  intros Ha Hb. pose proof (ufunc2_correct A B R f a b Ha Hb) as H.
  unfold ufunc2_spec in H.
  destruct (ufunc2 f a b) as [[d e]|]; destruct (np_broadcast2 (fst a) (fst b)) as [d'|]; cbn in *;
    try contradiction; [|reflexivity].
  destruct H as [-> _]. reflexivity.
Qed.

Lemma ufunc3_shape {A B C R} (f : A -> B -> C -> R) (a : operand A) (b : operand B) (c : operand C) :
  pos (fst a) -> pos (fst b) -> pos (fst c) ->
  option_map fst (ufunc3 f a b c) = np_broadcast3 (fst a) (fst b) (fst c).
Proof.
  intros Ha Hb Hc. pose proof (ufunc3_correct A B C R f a b c Ha Hb Hc) as H.
  unfold ufunc3_spec in H.
  destruct (ufunc3 f a b c) as [[d e]|]; destruct (np_broadcast3 (fst a) (fst b) (fst c)) as [d'|]; cbn in *;
    try contradiction; [|reflexivity].
  destruct H as [-> _]. reflexivity.
Qed.
