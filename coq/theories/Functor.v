(* Functor.v — C14: functors, currying, composition, extraction of function / operands / compute
   graph from a view, as an executable model, plus the property's reference (Spec).

   C++ anchors
     functor_t::operator() / apply_function_t<functor_t>        functional/functor.hpp:288-448
     functor_composition_t, operator*                           functor.hpp:112-366
     apply_function_t<functor_composition_t>                    functor.hpp:450-528
     functional::apply (feeds the operands ONE AT A TIME)       functor.hpp:806-835
     get_function_composition                                   function_composition.hpp:14-128
     get_function_operands                                      functor.hpp:758-804
     get_compute_graph                                          compute_graph.hpp:14-275
     combinators swap/dup/dig/bury                              combinator.hpp
     generate_alias (node ids)                                  index/alias.hpp:72-92, view/decorator.hpp:129-155

   A value [val] is whatever flows between functors (arrays); the array semantics of the individual
   functions are parameters (a functor is ANY function on operand lists).  Attributes ([] in C++)
   are part of the functor: fn::transpose[axes] is one [functor]. *)
From NM Require Import Base.
Local Open Scope Z_scope.

Section Functor.
Variable val : Type.

(* [arity] operands in, a list of results out (one for views, several for the combinators) *)
Record functor := { arity : nat; fmap : list val -> list val }.

(* ---------- Model: the operand STACK machine ---------- *)

(* A composition is kept in APPLICATION order: the C++ tuple (f0,...,fk) is [fk; ...; f0] here, so
   "take the last functor" (at(functors,-1)) is the head.  The functor applied next takes the FIRST
   [arity] operands; its results are pushed in front of the remaining ones; with too few operands
   the machine stops and keeps (remaining functors, operands) — the curried composition.
   A lone functor is the composition [f] (same code path: apply / curry / result-and-rest). *)
Fixpoint run (fs : list functor) (stack : list val) : list functor * list val :=
  match fs with
  | [] => ([], stack)
  | f :: fs' =>
      if (length stack <? arity f)%nat then (fs, stack)
      else run fs' (fmap f (firstn (arity f) stack) ++ skipn (arity f) stack)
  end.

(* calling a (curried) functor / composition with further operands: operator()(new_operands...) *)
Definition call (st : list functor * list val) (ops : list val) : list functor * list val :=
  run (fst st) (snd st ++ ops).

(* operands supplied in several calls f(c1)(c2)...; functional::apply is the split into singletons *)
Definition feed (fs : list functor) (chunks : list (list val)) : list functor * list val :=
  fold_left call chunks (fs, []).

(* operator* : c1 * c2 applies c2 first *)
Definition compose (c1 c2 : list functor) : list functor := c2 ++ c1.

(* combinators (combinator.hpp): permutations / duplications of the front of the stack *)
Definition swap_f : functor :=
  {| arity := 2; fmap := fun l => match l with [a; b] => [b; a] | _ => l end |}.
Definition dup_f (n : nat) : functor :=
  {| arity := 1; fmap := fun l => match l with [a] => repeat a n | _ => l end |}.
Definition dig_f (n : nat) : functor :=          (* operand n comes to the front *)
  {| arity := S n; fmap := fun l => match nth_error l n with
                                    | Some x => x :: firstn n l ++ skipn (S n) l | None => l end |}.
Definition bury_f (n : nat) : functor :=         (* the front operand goes to position n *)
  {| arity := S n; fmap := fun l => match l with
                                    | x :: t => firstn n t ++ x :: skipn n t | [] => l end |}.

(* ---------- Spec of composition: what "f * g" denotes ---------- *)

(* the way a chain was written: how it is parenthesised *)
Inductive ctree := CF (f : functor) | CC (a b : ctree).          (* CC a b  is  a * b *)

Fixpoint flatten (t : ctree) : list functor :=
  match t with CF f => [f] | CC a b => compose (flatten a) (flatten b) end.

(* (a * b) ops = a (b ops_b ++ remaining operands);  None = not enough operands *)
Fixpoint denote (t : ctree) (ops : list val) : option (list val) :=
  match t with
  | CF f => if (length ops <? arity f)%nat then None
            else Some (fmap f (firstn (arity f) ops) ++ skipn (arity f) ops)
  | CC a b => match denote b ops with Some st => denote a st | None => None end
  end.

(* ---------- views as expression trees; extraction ---------- *)

(* the function of a view node: one result *)
Record vfun := { varity : nat; vapp : list val -> val }.
Definition lift (f : vfun) : functor := {| arity := varity f; fmap := fun l => [vapp f l] |}.

Inductive expr := Leaf (v : val) | Node (f : vfun) (args : list expr).

(* Spec: what the view IS (host evaluation) *)
Fixpoint eval (e : expr) : val :=
  match e with Leaf v => v | Node f args => vapp f (map eval args) end.

(* get_function_composition: init = f; for I = 0..N-1: init = init * comp(operand[N-1-I]), i.e. the
   tuple (f, comp(x_{N-1}), ..., comp(x_0)); in application order comp(x_0) ++ ... ++ comp(x_{N-1}) ++ [f].
   (broadcast_to wrappers of ufunc operands are skipped by the C++ and are not nodes here.) *)
Fixpoint comp (e : expr) : list functor :=
  match e with Leaf _ => [] | Node f args => flat_map comp args ++ [lift f] end.

(* get_function_operands: the leaves, operand by operand, left to right *)
Fixpoint operands (e : expr) : list val :=
  match e with Leaf v => [v] | Node f args => flat_map operands args end.

(* what the library computes from the two extractions *)
Definition extracted (e : expr) : list functor * list val := run (comp e) (operands e).

(* Spec of the operands: in-order leaves, written as a right-to-left accumulation *)
Fixpoint leaves_acc (e : expr) (acc : list val) : list val :=
  match e with Leaf v => v :: acc | Node f args => fold_right leaves_acc acc args end.

(* the class of trees the walk gets right: non-leaf children only at operand position 0 *)
Definition is_leaf (e : expr) : bool := match e with Leaf _ => true | Node _ _ => false end.
Fixpoint wf (e : expr) : Prop :=
  match e with
  | Leaf _ => True
  | Node f args => varity f = length args /\
      match args with [] => True | a0 :: rest => wf a0 /\ forallb is_leaf rest = true end
  end.
Fixpoint wfb (e : expr) : bool :=
  match e with
  | Leaf _ => true
  | Node f args => (varity f =? length args)%nat &&
      match args with [] => true | a0 :: rest => wfb a0 && forallb is_leaf rest end
  end.

(* ---------- compute graph ---------- *)

(* one node per leaf OCCURRENCE and per operation, numbered in post-order from [next] (the C++ ids
   are hashes, see generate_alias below; only the structure is fixed by the property);
   edges from the root of every argument to the operation.
   result: (root id, next free id, nodes, edges) *)
Definition gres := (nat * nat * list nat * list (nat * nat))%type.
Definition gargs (g : expr -> nat -> gres) :=
  fix go (l : list expr) (nx : nat) : list nat * nat * list nat * list (nat * nat) :=
    match l with
    | [] => ([], nx, [], [])
    | a :: t => match g a nx with (r, nx1, ns1, es1) =>
                match go t nx1 with (rs, nx2, ns2, es2) => (r :: rs, nx2, ns1 ++ ns2, es1 ++ es2) end end
    end.
Fixpoint graph_from (e : expr) (next : nat) : gres :=
  match e with
  | Leaf _ => (next, S next, [next], [])
  | Node f args =>
      match gargs graph_from args next with
      | (roots, nx, ns, es) => (nx, S nx, ns ++ [nx], es ++ map (fun r => (r, nx)) roots)
      end
  end.
Definition graph (e : expr) : list nat * list (nat * nat) :=
  match graph_from e 0 with (_, _, ns, es) => (ns, es) end.

Fixpoint n_leaves (e : expr) : nat :=
  match e with Leaf _ => 1 | Node _ args => fold_right (fun a s => n_leaves a + s) 0 args end%nat.
Fixpoint n_ops (e : expr) : nat :=
  match e with Leaf _ => 0 | Node _ args => S (fold_right (fun a s => n_ops a + s) 0 args) end%nat.
Fixpoint n_args (e : expr) : nat :=
  match e with Leaf _ => 0 | Node _ args => length args + fold_right (fun a s => n_args a + s) 0 args end%nat.

End Functor.

(* ---------- node ids ---------- *)

(* index::generate_alias: polynomial rolling hash, base 512, prime 1033 — over the characters of the
   type name (type id), then over (operand ids..., type id) (view id) *)
Definition generate_alias (l : list Z) : Z := fold_left (fun r c => (r * 512 + c) mod 1033) l 0.
Definition view_id (operand_ids : list Z) (type_name : list Z) : Z :=
  generate_alias (operand_ids ++ [generate_alias type_name]).

(* ---------- how get_compute_graph actually names the nodes (generic decorator_t path) ----------
   compute_graph.hpp:66-127: every view starts from an EMPTY graph; an operand that is a plain array
   gets the id "number of nodes of MY graph so far" (graph.size()); an operand that is a view has its
   own graph built the same way (numbering again from 0) and merged key by key (a key that exists is
   not added again); the view's node id is a hash of (operand ids, type name).  Here the hash is
   IDEAL — [OpId] is injective by construction — so whatever collides below collides for every hash. *)
Inductive nid := LeafId (n : nat) | OpId (name : nat) (ops : list nid).
Inductive gtree := GLeaf | GNode (name : nat) (args : list gtree).

Fixpoint nid_eqb (x y : nid) : bool :=
  match x, y with
  | LeafId a, LeafId b => Nat.eqb a b
  | OpId n l, OpId m k =>
      Nat.eqb n m && (fix go (l k : list nid) : bool :=
                        match l, k with
                        | [], [] => true
                        | a :: l', b :: k' => nid_eqb a b && go l' k'
                        | _, _ => false
                        end) l k
  | _, _ => false
  end.
Definition add_key (g : list nid) (k : nid) : list nid := if existsb (nid_eqb k) g then g else g ++ [k].

(* (node id of the view, keys of its graph) *)
Fixpoint cxx_graph_keys (t : gtree) : nid * list nid :=
  match t with
  | GLeaf => (LeafId 0, [LeafId 0])
  | GNode name args =>
      let r := fold_left (fun (acc : list nid * list nid) a =>
                 match a with
                 | GLeaf => let k := LeafId (length (snd acc)) in (fst acc ++ [k], add_key (snd acc) k)
                 | GNode _ _ => let s := cxx_graph_keys a in (fst acc ++ [fst s], fold_left add_key (snd s) (snd acc))
                 end) args ([], []) in
      let me := OpId name (fst r) in (me, add_key (snd r) me)
  end.
Fixpoint g_nodes (t : gtree) : nat :=
  match t with GLeaf => 1 | GNode _ args => S (fold_right (fun a s => g_nodes a + s) 0 args) end%nat.

(* ---------- compute graph of a view DAG (shared sub-expressions, named leaves) ----------
   With leaves named by view::alias(a, id) and sub-views held in variables that are used several
   times, the views form a DAG.  A node is identified by WHAT it computes: [nid] = the term itself
   (leaf id / operation name + operand nodes), i.e. an ideal, injective id.  The property's graph:
   one node per distinct leaf and per distinct operation, one edge per (distinct operand node,
   operation) pair — no edge twice, however many paths reach a shared node. *)
Fixpoint subterms (t : nid) : list nid :=
  match t with LeafId _ => [t] | OpId _ args => flat_map subterms args ++ [t] end.
Fixpoint all_edges (t : nid) : list (nid * nid) :=
  match t with LeafId _ => [] | OpId _ args => flat_map all_edges args ++ map (fun a => (a, t)) args end.

Fixpoint dedup {A} (eqb : A -> A -> bool) (l : list A) : list A :=      (* keeps first occurrences *)
  match l with [] => [] | x :: t => let r := dedup eqb t in
    x :: filter (fun y => negb (eqb x y)) r end.
Definition edge_eqb (e f : nid * nid) : bool := nid_eqb (fst e) (fst f) && nid_eqb (snd e) (snd f).

(* get_compute_graph on a DAG: sub-graphs are merged key by key (ct_map::insert keeps an existing key)
   and edge by edge (ct_digraph::add_edge skips an edge that is already there) *)
Definition dag_nodes (t : nid) : list nid := dedup nid_eqb (subterms t).
Definition dag_edges (t : nid) : list (nid * nid) := dedup edge_eqb (all_edges t).
Definition operands_of (t : nid) : list nid := match t with LeafId _ => [] | OpId _ args => args end.
Definition in_edges (p : nid) (es : list (nid * nid)) : list nid :=
  map fst (filter (fun e => nid_eqb (snd e) p) es).
