(* Properties_C03.v — stub, being filled *)
From NM Require Import Base Index IndexProofs Views ViewsProofs.
Local Open Scope Z_scope.
Theorem C03_reverse : forall l, reverse l = rev l.
Proof. exact reverse_eq_rev. Qed.
Print Assumptions C03_reverse.
