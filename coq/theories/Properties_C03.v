(* Properties_C03.v — C03: rearranging views (reshape, flatten, transpose, moveaxis, swapaxes,
   expand_dims, squeeze, atleast_nd, flip) equal NumPy's result.  Statements only.
   Every statement holds for EVERY dimension and EVERY positive extents (element counts below
   2^64 where the C++ multiplies in size_t); `inb i d` says that i is an index of the shape d. *)
From Coq Require Import Permutation Sorted.
From NM Require Import Base Index IndexProofs Views ViewsProofs.
Local Open Scope Z_scope.

(* reshape: accepted exactly when NumPy accepts the target (at most one -1, which is inferred;
   every other extent >= 1; element counts agree / divide), with NumPy's shape; and what is
   accepted has positive extents and the source's element count *)
Theorem C03_reshape_shape : forall src dst, pos src -> prod src < 2 ^ 64 -> dst <> [] ->
  prod (np_known dst) < 2 ^ 64 ->
  shape_reshape src dst = np_reshape_shape src dst
  /\ (forall d, np_reshape_shape src dst = Some d -> pos d /\ prod d = prod src /\ length d = length dst).
Proof.
  intros src dst Hs Hb Hne Hk. split; [exact (shape_reshape_np src dst Hs Hb Hne Hk)|].
  intros d Hd. exact (np_reshape_shape_sound src dst d Hs Hd).
Qed.
Print Assumptions C03_reshape_shape.

(* reshape keeps C order: element i of the result is the source element with the same row-major
   rank (Horner), read at an in-bounds source index; read in C order the result enumerates the
   source in C order (so it is a permutation of the source elements — the identity one) *)
Theorem C03_reshape_C_order : forall src d i, pos src -> pos d -> prod d = prod src -> inb i d ->
  inb (reshape_index src d i) src
  /\ compute_offset (reshape_index src d i) (compute_strides src) = np_reshape_rank d i
  /\ map (reshape_index src d) (lex_enum d) = lex_enum src.
Proof.
  intros src d i Hs Hd Hp Hi. destruct (reshape_index_spec src d i Hs Hd Hp Hi) as [H1 [H2 H3]].
  split; [exact H1|]. split; [now rewrite H2 | exact (reshape_enumerates src d Hs Hd Hp)].
Qed.
Print Assumptions C03_reshape_C_order.

Theorem C03_flatten : forall src, pos src -> prod src < 2 ^ 64 -> flatten_accept src = Some [prod src].
Proof. exact flatten_accept_eq. Qed.
Print Assumptions C03_flatten.

(* transpose: NumPy's shape (result.shape[k] = a.shape[axes[k]], negative axes counted from the
   end; reversed shape by default) *)
Theorem C03_transpose_shape : forall s axes,
  (match axes with Some p => length p = length s | None => True end) ->
  shape_transpose s axes = np_transpose_shape s axes.
Proof. exact shape_transpose_np. Qed.
Print Assumptions C03_transpose_shape.

(* transpose: at every index the element NumPy reads (j[axes[k]] = i[k]), inside the source *)
Theorem C03_transpose_element : forall s axes i, np_transpose_ok (length s) axes = true ->
  inb i (shape_transpose s axes) ->
  transpose_index axes i = np_transpose_index axes i /\ inb (transpose_index axes i) s.
Proof.
  intros s axes i Hok Hi. split; [|exact (transpose_inb axes s i Hok Hi)].
  apply transpose_index_np. apply inb_length in Hi.
  destruct axes as [p|]; [|reflexivity]. simpl in Hi. rewrite map_length, seq_length in Hi. now rewrite Hi.
Qed.
Print Assumptions C03_transpose_element.

(* transpose is a bijection between the index sets; reading the result in C order visits every
   source index exactly once *)
Theorem C03_transpose_bijection : forall s p, pos s -> np_transpose_ok (length s) (Some p) = true ->
  let d := shape_transpose s (Some p) in
  (forall i i', inb i d -> inb i' d -> transpose_index (Some p) i = transpose_index (Some p) i' -> i = i')
  /\ (forall j, inb j s -> exists i, inb i d /\ transpose_index (Some p) i = j)
  /\ Permutation (map (transpose_index (Some p)) (lex_enum d)) (lex_enum s).
Proof.
  intros s p Hs Hok d. pose proof (np_axes_ok_perm _ _ Hok) as Hp.
  destruct (transpose_bijection_axes s p Hp) as [B1 B2]. split; [|split].
  - intros i i' Hi Hi' E. apply inb_length in Hi, Hi'. unfold d in Hi, Hi'. simpl in Hi, Hi'.
    rewrite map_length, seq_length in Hi, Hi'. exact (B1 i i' Hi Hi' E).
  - exact B2.
  - exact (transpose_permutes s (Some p) Hs Hok).
Qed.
Print Assumptions C03_transpose_bijection.

(* transposing with a permutation and then with its inverse restores shape and every element *)
Theorem C03_transpose_inverse : forall s p i, np_transpose_ok (length s) (Some p) = true -> length i = length s ->
  let q := map (norm_ax (zlen s)) p in
  shape_transpose (shape_transpose s (Some p)) (Some (inv_perm q)) = s
  /\ transpose_index (Some p) (transpose_index (Some (inv_perm q)) i) = i.
Proof. intros s p i Hok Hi. exact (transpose_inverse s p i (np_axes_ok_perm _ _ Hok) Hi). Qed.
Print Assumptions C03_transpose_inverse.

Theorem C03_transpose_default_involutive : forall s i,
  shape_transpose (shape_transpose s None) None = s /\ transpose_index None (transpose_index None i) = i.
Proof. exact transpose_default_involutive. Qed.
Print Assumptions C03_transpose_default_involutive.

(* swapaxes (any two valid, possibly negative axes): NumPy's shape and element; it is the
   transpose by a permutation, so the bijection facts above apply to it *)
Theorem C03_swapaxes : forall a1 a2 s i, np_swapaxes_ok (length s) a1 a2 = true -> length i = length s ->
  swapaxes_accept a1 a2 s = Some (np_swap s a1 a2)
  /\ swapaxes_index a1 a2 s i = np_swap i a1 a2
  /\ swapaxes_defined a1 a2 s = true
  /\ axes_perm (length s) (swapaxes_to_transpose (zlen s) a1 a2).
Proof. exact swapaxes_np. Qed.
Print Assumptions C03_swapaxes.

(* moveaxis (single axes or lists, negative spellings included), every source of dimension <= 5
   with any extents: the axis order it builds is NumPy's, it is a permutation, shape and element
   are NumPy's and the index stays inside the source.
   PARTIAL: dimension > 5 is not proved (the order depends on the dimension and the axis lists
   only; the finite argument space of dimension 0..5 is swept by kernel computation, lemma
   moveaxis_sweep); larger dimensions are covered by the correspondence only. *)
Theorem C03_moveaxis_upto_dim5_partial : forall sa da s i, (length s <= 5)%nat ->
  np_moveaxis_ok (length s) sa da = true ->
  let order := np_moveaxis_order (length s) sa da in
  moveaxis_to_transpose (zlen s) sa da = Some order /\ is_permb (length s) order = true
  /\ (inb i (np_transpose_shape s (Some order)) ->
       moveaxis_accept sa da s = Some (np_transpose_shape s (Some order))
       /\ moveaxis_index sa da s i = np_transpose_index (Some order) i
       /\ inb (moveaxis_index sa da s i) s).
Proof.
  intros sa da s i Hn Hok order. destruct (moveaxis_upto5 (length s) sa da Hn Hok) as [E P].
  split; [exact E|]. split; [exact P|]. intros Hi. exact (moveaxis_np_upto5 sa da s i Hn Hok Hi).
Qed.
Print Assumptions C03_moveaxis_upto_dim5_partial.

(* moveaxis with ONE source and ONE destination axis (the form moveaxis(a, s, d), or one-element
   axis lists; negative spellings included), sources of EVERY dimension and any extents: the axis
   order the library builds is NumPy's, it is a permutation, shape and element are NumPy's and the
   index stays inside the source.  Direct proof (no sweep): the library shifts s into
   rest ++ [0]  at position d. *)
Theorem C03_moveaxis_single_axis : forall sa da s i, length (axes_of sa) = 1%nat ->
  np_moveaxis_ok (length s) sa da = true ->
  let order := np_moveaxis_order (length s) sa da in
  moveaxis_to_transpose (zlen s) sa da = Some order /\ is_permb (length s) order = true
  /\ (inb i (np_transpose_shape s (Some order)) ->
       moveaxis_accept sa da s = Some (np_transpose_shape s (Some order))
       /\ moveaxis_index sa da s i = np_transpose_index (Some order) i
       /\ inb (moveaxis_index sa da s i) s).
Proof.
  intros sa da s i H1 Hok order. destruct (moveaxis_single (length s) sa da H1 Hok) as [E P].
  split; [exact E|]. split; [exact P|]. intros Hi. exact (moveaxis_np_of_order sa da s i E P Hi).
Qed.
Print Assumptions C03_moveaxis_single_axis.

(* the hypothesis is satisfiable beyond the swept dimensions: a 7-d source, axis -6 moved to 5 *)
Example C03_moveaxis_single_axis_nonvacuous :
  np_moveaxis_ok 7 (AxOne (-6)) (AxOne 5) = true
  /\ np_moveaxis_order 7 (AxOne (-6)) (AxOne 5) = [0; 2; 3; 4; 5; 1; 6].
Proof. vm_compute. split; reflexivity. Qed.

(* index::argsort (used by moveaxis to order the destinations), EVERY list of keys: the result is a
   permutation of the positions 0..len-1 and the keys ascend along it.  (The order of equal keys is
   not part of C03 - moveaxis sorts distinct destinations - and is neither proved nor judged.) *)
Theorem C03_argsort : forall a : list Z,
  Permutation (argsort a) (seq 0 (length a))
  /\ StronglySorted (fun i j => nth i a 0 <= nth j a 0) (argsort a).
Proof. exact argsort_sorts. Qed.
Print Assumptions C03_argsort.

(* expand_dims (one axis or a list, negative allowed, no repetition): NumPy's shape; the view is
   the reshape to it, so C03_reshape_C_order gives the elements (ravel order unchanged) *)
Theorem C03_expand_dims : forall ax s, pos s -> prod s < 2 ^ 64 -> np_expand_dims_ok (length s) ax = true ->
  shape_expand_dims s ax = np_expand_dims_shape s ax
  /\ expand_dims_defined ax s = true
  /\ expand_dims_accept ax s = Some (np_expand_dims_shape s ax)
  /\ pos (np_expand_dims_shape s ax) /\ prod (np_expand_dims_shape s ax) = prod s.
Proof.
  intros ax s Hs Hb Hok. destruct (shape_expand_dims_np s ax Hok) as [E D].
  destruct (expand_dims_consumes s ax Hok) as [P1 [P2 _]]. rewrite E in P1, P2.
  split; [exact E|]. split; [exact D|]. split; [exact (expand_dims_accept_np ax s Hs Hb Hok)|].
  split; [exact (P2 Hs) | exact P1].
Qed.
Print Assumptions C03_expand_dims.

(* squeeze (result not 0-d): NumPy's shape, a reshape to it *)
Theorem C03_squeeze : forall s, pos s -> prod s < 2 ^ 64 -> np_squeeze_shape s <> [] ->
  squeeze_accept s = Some (np_squeeze_shape s) /\ remove_single_dims s = np_squeeze_shape s
  /\ squeeze_defined s = true
  /\ pos (np_squeeze_shape s) /\ prod (np_squeeze_shape s) = prod s.
Proof.
  intros s Hs Hb Hne. destruct (squeeze_accept_np s Hs Hb Hne) as [A [R D]]. destruct (squeeze_prod s) as [P1 P2].
  split; [exact A|]. split; [exact R|]. split; [exact D|]. split; [exact (P2 Hs) | exact P1].
Qed.
Print Assumptions C03_squeeze.

(* atleast_nd / atleast_1d / atleast_2d: ones are prepended up to nd dimensions (numpy.array(a, ndmin=nd)) *)
Theorem C03_atleast_nd : forall nd s, pos s -> prod s < 2 ^ 64 -> np_atleast_shape s nd <> [] ->
  shape_atleast_nd s nd = np_atleast_shape s nd
  /\ atleast_nd_accept nd s = Some (np_atleast_shape s nd)
  /\ pos (np_atleast_shape s nd) /\ prod (np_atleast_shape s nd) = prod s.
Proof.
  intros nd s Hs Hb Hne. split; [exact (shape_atleast_nd_np s nd)|].
  split; [exact (atleast_nd_accept_np nd s Hs Hb Hne)|].
  destruct (prod_repeat1 (Z.to_nat nd - length s) s) as [P1 P2]. split; [exact (P2 Hs) | exact P1].
Qed.
Print Assumptions C03_atleast_nd.

(* flip (None, one axis, a list of axes; negative axes count from the end as in NumPy): NumPy's
   element i_k -> n_k-1-i_k on the flipped axes, inside the source, shape unchanged.  Holds for every
   axis argument; np_flip_ok (what NumPy accepts) is met e.g. by Example C03_nonvacuous_flip *)
Theorem C03_flip : forall ax s i, inb i s ->
  flip_accept ax s = Some s /\ flip_index ax s i = np_flip_index ax s i /\ inb (flip_index ax s i) s.
Proof.
  intros ax s i Hi. split; [reflexivity|].
  split; [exact (flip_index_np ax s i (inb_length _ _ Hi)) | exact (flip_inb ax s i Hi)].
Qed.
Print Assumptions C03_flip.

Theorem C03_flip_flip : forall ax s i, length i = length s -> flip_index ax s (flip_index ax s i) = i.
Proof. exact flip_flip. Qed.
Print Assumptions C03_flip_flip.

(* squeeze after expand_dims restores a source without unit extents: same shape, same index *)
Theorem C03_squeeze_expand_dims : forall ax s i, pos s -> prod s < 2 ^ 64 ->
  np_expand_dims_ok (length s) ax = true -> shape_squeeze s = s -> s <> [] -> inb i s ->
  let d1 := np_expand_dims_shape s ax in
  expand_dims_accept ax s = Some d1 /\ squeeze_accept d1 = Some s
  /\ reshape_index s d1 (reshape_index d1 s i) = i.
Proof. exact squeeze_expand_dims. Qed.
Print Assumptions C03_squeeze_expand_dims.

(* 0-d results are refused where NumPy returns the 0-d array *)
Theorem C03_zero_dim_result_refuted :
  exists s, pos s /\ np_squeeze_shape s = [] /\ np_reshape_shape s [] = Some [] /\ squeeze_accept s = None /\ reshape_accept [] s = None.
Proof. exact zero_dim_result_refuted. Qed.
Print Assumptions C03_zero_dim_result_refuted.

(* every index map stays inside the source (the X_inb lemmas C02 cites) *)
Theorem C03_index_maps_in_bounds : forall src i, pos src ->
  (forall d, inb (reshape_index src d i) src)
  /\ (forall axes, np_transpose_ok (length src) axes = true -> inb i (shape_transpose src axes) -> inb (transpose_index axes i) src)
  /\ (forall a1 a2, np_swapaxes_ok (length src) a1 a2 = true ->
        inb i (shape_transpose src (Some (swapaxes_to_transpose (zlen src) a1 a2))) -> inb (swapaxes_index a1 a2 src i) src)
  /\ (forall ax, inb i src -> inb (flip_index ax src i) src).
Proof.
  intros src i Hs. split; [intros d; exact (reshape_index_inb src d i Hs)|].
  split; [intros axes Hok Hi; exact (transpose_inb axes src i Hok Hi)|].
  split; [intros a1 a2 Hok Hi; exact (swapaxes_inb a1 a2 src i Hok Hs Hi)|].
  intros ax Hi. exact (flip_inb ax src i Hi).
Qed.
Print Assumptions C03_index_maps_in_bounds.

(* ---------- non-vacuity ---------- *)
Example C03_nonvacuous_reshape :
  pos [2;3;4] /\ shape_reshape [2;3;4] [4;-1;2] = Some [4;3;2] /\ np_reshape_shape [2;3;4] [4;-1;2] = Some [4;3;2]
  /\ inb [3;2;1] [4;3;2] /\ reshape_index [2;3;4] [4;3;2] [3;2;1] = [1;2;3]
  /\ shape_reshape [2;3;4] [5;-1] = None /\ np_reshape_shape [2;3;4] [5;-1] = None.
Proof. repeat split; try reflexivity; repeat constructor; lia. Qed.
Example C03_nonvacuous_transpose :
  np_transpose_ok 3 (Some [-1;0;1]) = true /\ shape_transpose [2;3;4] (Some [-1;0;1]) = [4;2;3]
  /\ inb [3;1;2] [4;2;3] /\ transpose_index (Some [-1;0;1]) [3;1;2] = [1;2;3]
  /\ inv_perm [2;0;1] = [1;2;0].
Proof. repeat split; try reflexivity; repeat constructor; lia. Qed.
Example C03_nonvacuous_swap_expand_squeeze_atleast :
  np_swapaxes_ok 3 0 (-1) = true /\ swapaxes_accept 0 (-1) [2;3;4] = Some [4;3;2]
  /\ np_expand_dims_ok 2 (AxList [0;-1]) = true /\ shape_expand_dims [2;3] (AxList [0;-1]) = [1;2;3;1]
  /\ squeeze_accept [1;3;1;2] = Some [3;2] /\ atleast_nd_accept 4 [2;3] = Some [1;1;2;3].
Proof. repeat split; reflexivity. Qed.
Example C03_nonvacuous_moveaxis :
  np_moveaxis_ok 4 (AxList [0;-1]) (AxList [2;1]) = true
  /\ moveaxis_to_transpose 4 (AxList [0;-1]) (AxList [2;1]) = Some [1;3;0;2]
  /\ np_moveaxis_order 4 (AxList [0;-1]) (AxList [2;1]) = [1;3;0;2]
  /\ moveaxis_accept (AxOne 0) (AxOne (-1)) [2;3;4] = Some [3;4;2].
Proof. repeat split; reflexivity. Qed.
Example C03_nonvacuous_flip :
  np_flip_ok 3 (AxList [0;-1]) = true
  /\ flip_index (AxList [0;-1]) [2;3;4] [0;1;1] = [1;1;2] /\ np_flip_index (AxList [0;-1]) [2;3;4] [0;1;1] = [1;1;2]
  /\ flip_slices 3 (AxOne (-2)) = [1;-1;1].
Proof. repeat split; reflexivity. Qed.
(* regression for the repaired defect (fix: flip normalises a negative axis): before the repair
   flip(a,-1) left the array unflipped, i.e. read [0;0] here *)
Example C03_flip_negative_axis_regression :
  np_flip_ok 2 (AxOne (-1)) = true /\ inb [0;0] [2;3]
  /\ flip_index (AxOne (-1)) [2;3] [0;0] = [0;2] /\ np_flip_index (AxOne (-1)) [2;3] [0;0] = [0;2].
Proof. repeat split; try reflexivity; repeat constructor; lia. Qed.
