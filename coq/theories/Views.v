(* Views.v — FAITHFUL executable model of the rearranging views
     include/nmtools/array/index/{reshape,transpose,scatter,reverse,moveaxis,argsort,
       expand_dims,squeeze,remove_single_dims,atleast_nd,flip,normalize_axis}.hpp
     include/nmtools/array/view/{reshape,flatten,transpose,moveaxis,swapaxes,
       expand_dims,squeeze,atleast_nd,flip}.hpp
   (each function follows the run-time arm of the header, branch for branch) and the
   independent NumPy reference definitions (Spec, prefix np_) they are compared with.

   Conventions.  A view of a source of shape [src] is described by
     X_accept  : arguments -> src -> option dst     None  = the C++ returns Nothing
     X_defined : arguments -> src -> bool           false = the C++ reads/writes out of range or
                                                            dereferences an empty maybe (UB / exception)
     X_index   : arguments -> src -> dst index -> src index
   Functions are total; where the C++ is undefined the value is arbitrary and X_defined is false.
   C15 reuses X_accept / X_defined. *)
From NM Require Import Base Index.
Local Open Scope Z_scope.

(* ---------- nmtools::at(a,i) with a signed run-time index (utility/at.hpp:196-212):
              i < 0 -> a[len + i] ---------- *)
Definition at_pos (len i : Z) : Z := if i <? 0 then len + i else i.
Definition at_ok (len i : Z) : bool := (0 <=? at_pos len i) && (at_pos len i <? len).
Definition at_neg (l : list Z) (i : Z) : Z := znth l (at_pos (zlen l) i).

(* axis argument: None | one index | index array *)
Inductive axarg := AxNone | AxOne (a : Z) | AxList (l : list Z).

(* ---------- index::normalize_axis (normalize_axis.hpp:14), signed arms ---------- *)
(* scalar arm :93-103 *)
Definition normalize_axis (axis ndim : Z) : option Z :=
  if (- ndim <=? axis) && (axis <? ndim)
  then Some (if axis <? 0 then ndim + axis else axis) else None.
(* array arm :44-84: every element is visited, one failing element makes the result Nothing;
   no test for repeated axes *)
Fixpoint normalize_axes (axes : list Z) (ndim : Z) : option (list Z) :=
  match axes with
  | [] => Some []
  | a :: t => match normalize_axis a ndim, normalize_axes t ndim with
              | Some x, Some r => Some (x :: r)
              | _, _ => None
              end
  end.

(* =====================================================================================
   reshape / flatten
   ===================================================================================== *)

(* count_negative_reshape (reshape.hpp:16-33): dst_numel starts at 0, is set to 1 when the
   loop is entered, and is multiplied in size_t (64 bit) by every extent that is not -1 *)
Definition count_negative_reshape (dst : list Z) : Z * Z :=
  fold_left (fun (st : Z * Z) d =>
               if d =? -1 then (fst st + 1, snd st) else (fst st, wrap 64 (snd st * wrap 64 d)))
            dst (0, match dst with [] => 0 | _ => 1 end).

(* shape_reshape, run-time arm (reshape.hpp:103-157) as it reads after commit 56dc0a3 *)
Definition shape_reshape (src dst : list Z) : option (list Z) :=
  let minus_1_count := fst (count_negative_reshape dst) in
  let dst_numel := snd (count_negative_reshape dst) in
  if 1 <? minus_1_count then None
  else if existsb (fun d => negb (d =? -1) && (d <? 1)) dst then None
  else if dst_numel =? 0 then None
  else
    let src_numel := product_w 64 src in
    if (minus_1_count =? 0) && negb (src_numel =? dst_numel) then None
    else if negb (src_numel mod dst_numel =? 0) then None
    else Some (map (fun d => if d =? -1 then src_numel / dst_numel else d) dst).

(* reshape_t::indices (view/reshape.hpp:63-73) *)
Definition reshape_index (src dshape i : list Z) : list Z :=
  compute_indices (compute_offset i (compute_strides dshape)) src.

Definition reshape_accept (dst src : list Z) : option (list Z) := shape_reshape src dst.

(* flatten (view/flatten.hpp): reshape to (size) *)
Definition flatten_accept (src : list Z) : option (list Z) := shape_reshape src [product_w 64 src].

(* ---- Spec: numpy.reshape for a source without zero extents ---- *)
Definition np_known (dst : list Z) : list Z := filter (fun d => negb (d =? -1)) dst.
Definition np_reshape_shape (src dst : list Z) : option (list Z) :=
  if forallb (fun d => 1 <=? d) (np_known dst) then
    match (length dst - length (np_known dst))%nat with
    | O => if prod dst =? prod src then Some dst else None
    | S O => if prod src mod prod (np_known dst) =? 0
             then Some (map (fun d => if d =? -1 then prod src / prod (np_known dst) else d) dst)
             else None
    | _ => None
    end
  else None.
(* elements: result.ravel() == a.ravel(): the element at index i of the result is the
   element of the source with the same row-major rank *)
Definition np_reshape_rank (dshape i : list Z) : Z := horner 0 i dshape.

(* =====================================================================================
   transpose (default and explicit axes), scatter, reverse
   ===================================================================================== *)

(* index::reverse (reverse.hpp:36-37): ret[i] = indices[n-1-i] *)
Definition reverse (l : list Z) : list Z :=
  map (fun i => nth (length l - 1 - i) l 0) (seq 0 (length l)).

(* index::scatter (scatter.hpp:49-65): ret = zeros(len vec); for i < len(indices): ret[at indices[i]] = vec[i] *)
Definition scatter (v p : list Z) : list Z :=
  fold_left (fun ret k => upd ret (Z.to_nat (at_pos (zlen ret) (nth k p 0))) (nth k v 0))
            (seq 0 (length p)) (repeat 0 (length v)).

(* index::shape_transpose (transpose.hpp:44-70): N = len(shape);
     axes None: res[i] = shape[N-1-i]; else res[i] = at(shape, at(axes,i)) *)
Definition shape_transpose (s : list Z) (axes : option (list Z)) : list Z :=
  match axes with
  | None => reverse s
  | Some p => map (fun i => at_neg s (nth i p 0)) (seq 0 (length s))
  end.

(* transpose never returns Nothing and validates nothing; it is defined (no out-of-range
   access) iff the axes have the length of the shape and every axis is in [-N,N) *)
Definition transpose_accept (axes : option (list Z)) (src : list Z) : option (list Z) :=
  Some (shape_transpose src axes).
Definition transpose_defined (axes : option (list Z)) (src : list Z) : bool :=
  match axes with
  | None => true
  | Some p => (length p =? length src)%nat && forallb (at_ok (zlen src)) p
  end.
(* transpose_t::indices (view/transpose.hpp:50-59) *)
Definition transpose_index (axes : option (list Z)) (i : list Z) : list Z :=
  match axes with None => reverse i | Some p => scatter i p end.

(* ---- Spec: numpy.transpose ---- *)
Definition norm_ax (n a : Z) : Z := if a <? 0 then a + n else a.
Fixpoint nodupb (l : list Z) : bool :=
  match l with [] => true | x :: t => negb (existsb (Z.eqb x) t) && nodupb t end.
Definition is_permb (n : nat) (q : list Z) : bool :=
  (length q =? n)%nat && forallb (fun a => (0 <=? a) && (a <? Z.of_nat n)) q && nodupb q.
Definition np_axes_ok (n : nat) (p : list Z) : bool :=
  forallb (fun a => (- Z.of_nat n <=? a) && (a <? Z.of_nat n)) p && is_permb n (map (norm_ax (Z.of_nat n)) p).
Definition np_transpose_ok (n : nat) (axes : option (list Z)) : bool :=
  match axes with None => true | Some p => np_axes_ok n p end.
(* result.shape[k] = a.shape[axes[k]] *)
Definition np_transpose_shape (s : list Z) (axes : option (list Z)) : list Z :=
  match axes with None => rev s | Some p => map (fun a => znth s (norm_ax (zlen s) a)) p end.
(* result[i] = a[j] with j[axes[k]] = i[k]:  j[m] = i[position of m in axes] *)
Fixpoint find_pos (m : Z) (q : list Z) : nat :=
  match q with [] => O | x :: t => if x =? m then O else S (find_pos m t) end.
Definition np_transpose_index (axes : option (list Z)) (i : list Z) : list Z :=
  match axes with
  | None => rev i
  | Some p => let q := map (norm_ax (zlen i)) p in map (fun m => nth (find_pos m q) i 0) (zs (length i))
  end.
(* the inverse permutation *)
Definition inv_perm (q : list Z) : list Z := map (fun m => Z.of_nat (find_pos m q)) (zs (length q)).

(* =====================================================================================
   moveaxis, swapaxes  (both build a transpose)
   ===================================================================================== *)

(* index::argsort (argsort.hpp:38-48): insertion sort of positions, moves left while the
   predecessor's key is strictly greater (stable); [rl] is the sorted prefix reversed *)
Fixpoint ins_rev (key : nat -> Z) (x : nat) (rl : list nat) : list nat :=
  match rl with
  | [] => [x]
  | y :: t => if key x <? key y then y :: ins_rev key x t else x :: y :: t
  end.
Definition argsort (a : list Z) : list nat :=
  rev (fold_left (fun rl x => ins_rev (fun k => nth k a 0) x rl) (seq 0 (length a)) []).

Definition argsort_z (a : list Z) : list Z := map Z.of_nat (argsort a).
(* Spec: numpy.argsort(a, kind='stable') by rank: position i goes to slot
   #{j : a[j] < a[i]} + #{j < i : a[j] = a[i]} *)
Definition np_argsort (a : list Z) : list Z :=
  let n := length a in
  let rank := fun i => length (filter (fun j => (nth j a 0 <? nth i a 0) || ((nth j a 0 =? nth i a 0) && (j <? i)%nat)) (seq 0 n)) in
  map (fun r => Z.of_nat (hd 0%nat (filter (fun i => (rank i =? r)%nat) (seq 0 n)))) (seq 0 n).

(* the "insert" lambda (moveaxis.hpp:130-136): shift right everything from pos on (the last
   cell is dropped), then write val at pos; pos < len *)
Definition insert_shift (pos : nat) (val : Z) (l : list Z) : list Z :=
  firstn pos l ++ val :: firstn (length l - pos - 1) (skipn pos l).

Definition axes_of (a : axarg) : list Z :=
  match a with AxNone => [] | AxOne x => [x] | AxList l => l end.

(* index::moveaxis_to_transpose (moveaxis.hpp:28-158), run-time arm.  [dim] = len(shape).
   Nothing iff an axis is outside [-dim,dim) or the two lists differ in length;
   repeated axes are not detected *)
Definition moveaxis_to_transpose (dim : Z) (source destination : axarg) : option (list Z) :=
  match normalize_axes (axes_of source) dim, normalize_axes (axes_of destination) dim with
  | Some src, Some dst =>
      if negb (length src =? length dst)%nat then None
      else
        let rest := filter (fun i => negb (existsb (Z.eqb i) src)) (zrange dim) in
        let order0 := rest ++ repeat 0 (Z.to_nat dim - length rest) in
        Some (fold_left (fun order i => insert_shift (Z.to_nat (nth i dst 0)) (nth i src 0) order)
                        (argsort dst) order0)
  | _, _ => None
  end.
Definition moveaxis_accept (source destination : axarg) (src : list Z) : option (list Z) :=
  match moveaxis_to_transpose (zlen src) source destination with
  | Some order => Some (shape_transpose src (Some order))
  | None => None
  end.
Definition moveaxis_index (source destination : axarg) (src i : list Z) : list Z :=
  match moveaxis_to_transpose (zlen src) source destination with
  | Some order => scatter i order
  | None => []
  end.

(* index::swapaxes_to_transpose (view/swapaxes.hpp:14-40): result = 0..dim-1 with the two
   normalised positions exchanged; the normalisation is unwrapped without a test *)
Definition swapaxes_to_transpose (dim a1 a2 : Z) : list Z :=
  let r := zrange dim in
  match normalize_axis a1 dim, normalize_axis a2 dim with
  | Some m1, Some m2 =>
      let tmp := znth r m1 in
      let r1 := upd r (Z.to_nat m1) (znth r m2) in
      upd r1 (Z.to_nat m2) tmp
  | _, _ => r
  end.
Definition swapaxes_defined (a1 a2 : Z) (src : list Z) : bool :=
  match normalize_axis a1 (zlen src), normalize_axis a2 (zlen src) with
  | Some _, Some _ => true | _, _ => false end.
Definition swapaxes_accept (a1 a2 : Z) (src : list Z) : option (list Z) :=
  Some (shape_transpose src (Some (swapaxes_to_transpose (zlen src) a1 a2))).
Definition swapaxes_index (a1 a2 : Z) (src i : list Z) : list Z :=
  scatter i (swapaxes_to_transpose (zlen src) a1 a2).

(* ---- Spec: numpy.moveaxis / numpy.swapaxes ---- *)
(* moveaxis: axis source[k] of the input becomes axis destination[k] of the result, "other
   axes remain in their original order" *)
Fixpoint find_opt (m : Z) (q : list Z) (k : nat) : option nat :=
  match q with [] => None | x :: t => if x =? m then Some k else find_opt m t (S k) end.
Fixpoint np_moveaxis_walk (fuel : nat) (p : Z) (src dst rest : list Z) : list Z :=
  match fuel with
  | O => []
  | S f => match find_opt p dst O with
           | Some k => nth k src 0 :: np_moveaxis_walk f (p + 1) src dst rest
           | None => match rest with
                     | r :: rest' => r :: np_moveaxis_walk f (p + 1) src dst rest'
                     | [] => []
                     end
           end
  end.
Definition np_moveaxis_ok (n : nat) (source destination : axarg) : bool :=
  let N := Z.of_nat n in
  let inr := fun a => (- N <=? a) && (a <? N) in
  forallb inr (axes_of source) && forallb inr (axes_of destination)
  && (length (axes_of source) =? length (axes_of destination))%nat
  && nodupb (map (norm_ax N) (axes_of source)) && nodupb (map (norm_ax N) (axes_of destination)).
Definition np_moveaxis_order (n : nat) (source destination : axarg) : list Z :=
  let N := Z.of_nat n in
  let src := map (norm_ax N) (axes_of source) in
  let dst := map (norm_ax N) (axes_of destination) in
  np_moveaxis_walk n 0 src dst (filter (fun i => negb (existsb (Z.eqb i) src)) (zs n)).
(* swapaxes: exchange the two axes *)
Definition swap_pos (m1 m2 k : nat) : nat := if (k =? m1)%nat then m2 else if (k =? m2)%nat then m1 else k.
Definition np_swapaxes_ok (n : nat) (a1 a2 : Z) : bool :=
  let N := Z.of_nat n in (- N <=? a1) && (a1 <? N) && (- N <=? a2) && (a2 <? N).
Definition np_swap (l : list Z) (a1 a2 : Z) : list Z :=
  let N := zlen l in
  map (fun k => nth (swap_pos (Z.to_nat (norm_ax N a1)) (Z.to_nat (norm_ax N a2)) k) l 0) (seq 0 (length l)).

(* =====================================================================================
   expand_dims, squeeze, atleast_nd  (all three are reshapes to a computed shape)
   ===================================================================================== *)

(* shape_expand_dims (expand_dims.hpp:36-76): n = dim + n_axes; axes normalised against n
   (unwrapped without a test); for i < n: new_shape[i] = in_axis(i) ? 1 : shape[idx++] *)
Fixpoint expand_walk (fuel : nat) (i : Z) (axes shape : list Z) : list Z :=
  match fuel with
  | O => []
  | S f => if existsb (Z.eqb i) axes then 1 :: expand_walk f (i + 1) axes shape
           else match shape with
                | h :: t => h :: expand_walk f (i + 1) axes t
                | [] => 0 :: expand_walk f (i + 1) axes []       (* out-of-range read *)
                end
  end.
Definition shape_expand_dims (shape : list Z) (ax : axarg) : list Z :=
  let n := zlen shape + zlen (axes_of ax) in
  match normalize_axes (axes_of ax) n with
  | Some na => expand_walk (Z.to_nat n) 0 na shape
  | None => []
  end.
Definition expand_dims_defined (ax : axarg) (src : list Z) : bool :=
  match normalize_axes (axes_of ax) (zlen src + zlen (axes_of ax)) with
  | Some na => nodupb na          (* a repeated axis makes the loop read shape[dim] *)
  | None => false                 (* unwrap of Nothing *)
  end.
Definition expand_dims_accept (ax : axarg) (src : list Z) : option (list Z) :=
  shape_reshape src (shape_expand_dims src ax).

(* shape_squeeze (squeeze.hpp:14-58), resizable arm: the result is sized by the number of
   extents > 1 and filled with the extents != 1 *)
Definition shape_squeeze (s : list Z) : list Z := filter (fun x => negb (x =? 1)) s.
Definition squeeze_defined (src : list Z) : bool :=
  Nat.eqb (length (filter (fun x => 1 <? x) src)) (length (shape_squeeze src)).
Definition squeeze_accept (src : list Z) : option (list Z) := shape_reshape src (shape_squeeze src).
(* remove_single_dims (remove_single_dims.hpp:24-49): filter(a > 1) *)
Definition remove_single_dims (s : list Z) : list Z := filter (fun a => 1 <? a) s.

(* shape_atleast_nd (atleast_nd.hpp:16-80): max_dim = dim > nd ? dim : nd; diff ones, then the shape *)
Definition shape_atleast_nd (s : list Z) (nd : Z) : list Z :=
  let dim := zlen s in
  let max_dim := if nd <? dim then dim else nd in
  repeat 1 (Z.to_nat (max_dim - dim)) ++ s.
Definition atleast_nd_accept (nd : Z) (src : list Z) : option (list Z) :=
  shape_reshape src (shape_atleast_nd src nd).

(* ---- Spec: numpy.expand_dims / squeeze / array(ndmin=nd) (= atleast_1d, atleast_2d) ---- *)
Definition count_lt (l : list Z) (p : Z) : Z := zlen (filter (fun a => a <? p) l).
Definition np_expand_dims_ok (n : nat) (ax : axarg) : bool :=
  let N := Z.of_nat n + zlen (axes_of ax) in
  forallb (fun a => (- N <=? a) && (a <? N)) (axes_of ax) && nodupb (map (norm_ax N) (axes_of ax))
  && negb (length (axes_of ax) =? 0)%nat.
(* out.shape[p] = 1 if p is one of the (normalised) axes, else the next source extent:
   shape[p - #{axes below p}] *)
Definition np_expand_dims_shape (s : list Z) (ax : axarg) : list Z :=
  let N := zlen s + zlen (axes_of ax) in
  let na := map (norm_ax N) (axes_of ax) in
  map (fun p => if existsb (Z.eqb p) na then 1 else znth s (p - count_lt na p)) (zrange N).
Definition np_squeeze_shape (s : list Z) : list Z := filter (fun x => negb (x =? 1)) s.
Definition np_atleast_shape (s : list Z) (nd : Z) : list Z := repeat 1 (Z.to_nat nd - length s) ++ s.

(* =====================================================================================
   flip  (index::flip_slices builds one (None,None,±1) slice per axis; view::flip = apply_slice)
   ===================================================================================== *)

(* flip_slices (flip.hpp:14-48): for i < dim: step = in_axis(i) ? -1 : 1, where an axis a is
   first normalised the way numpy.flip does (the `normalize` lambda: a < 0 -> a + dim; no range test) *)
Definition flip_norm (dim a : Z) : Z := if a <? 0 then a + dim else a.
Definition in_axis (dim : Z) (ax : axarg) (i : Z) : bool :=
  match ax with
  | AxNone => true
  | AxOne a => flip_norm dim a =? i
  | AxList l => existsb (fun a => flip_norm dim a =? i) l
  end.
Fixpoint flip_steps_from (dim : Z) (ax : axarg) (i : Z) (fuel : nat) : list Z :=
  match fuel with O => [] | S d => (if in_axis dim ax i then -1 else 1) :: flip_steps_from dim ax (i + 1) d end.
Definition flip_slices (dim : Z) (ax : axarg) : list Z := flip_steps_from dim ax 0 (Z.to_nat dim).
(* the slice (None,None,step) on an axis of extent n keeps the extent; index x reads
   n-1-x for step -1 and x for step 1 *)
Fixpoint slice_steps_index (steps s i : list Z) : list Z :=
  match steps, s, i with
  | st :: steps', n :: s', x :: i' => (if st =? -1 then n - 1 - x else x) :: slice_steps_index steps' s' i'
  | _, _, _ => []
  end.
Definition flip_accept (ax : axarg) (src : list Z) : option (list Z) := Some src.
Definition flip_index (ax : axarg) (src i : list Z) : list Z :=
  slice_steps_index (flip_slices (zlen src) ax) src i.

(* ---- Spec: numpy.flip: i_k -> n_k - 1 - i_k on the flipped axes (negative axes count from the end) ---- *)
Definition np_flip_ok (n : nat) (ax : axarg) : bool :=
  let N := Z.of_nat n in
  forallb (fun a => (- N <=? a) && (a <? N)) (axes_of ax) && nodupb (map (norm_ax N) (axes_of ax)).
Definition np_flipped (N : Z) (ax : axarg) (k : Z) : bool :=
  match ax with AxNone => true | _ => existsb (fun a => norm_ax N a =? k) (axes_of ax) end.
Definition np_flip_index (ax : axarg) (s i : list Z) : list Z :=
  map (fun k => if np_flipped (zlen s) ax (Z.of_nat k) then nth k s 0 - 1 - nth k i 0 else nth k i 0)
      (seq 0 (length i)).

(* =====================================================================================
   views as (accept, index) pairs, for the runner and for C02/C15
   ===================================================================================== *)
Definition view := option (list Z * (list Z -> list Z)).
Definition reshape_based (src : list Z) (r : option (list Z)) : view :=
  match r with Some d => Some (d, reshape_index src d) | None => None end.
Definition reshape_view (dst src : list Z) : view := reshape_based src (reshape_accept dst src).
Definition flatten_view (src : list Z) : view := reshape_based src (flatten_accept src).
Definition transpose_view (axes : option (list Z)) (src : list Z) : view :=
  Some (shape_transpose src axes, transpose_index axes).
Definition moveaxis_view (s d : axarg) (src : list Z) : view :=
  match moveaxis_accept s d src with Some dshape => Some (dshape, moveaxis_index s d src) | None => None end.
Definition swapaxes_view (a1 a2 : Z) (src : list Z) : view :=
  Some (shape_transpose src (Some (swapaxes_to_transpose (zlen src) a1 a2)), swapaxes_index a1 a2 src).
Definition expand_dims_view (ax : axarg) (src : list Z) : view := reshape_based src (expand_dims_accept ax src).
Definition squeeze_view (src : list Z) : view := reshape_based src (squeeze_accept src).
Definition atleast_nd_view (nd : Z) (src : list Z) : view := reshape_based src (atleast_nd_accept nd src).
Definition flip_view (ax : axarg) (src : list Z) : view := Some (src, flip_index ax src).
