(* Properties_C12.v — C12: SIMD evaluation equals scalar evaluation.  Statements only.
   N = lanes per pack (any N >= 1), A = element type, f = the scalar operation; the lane operation
   of a context is taken to be the N-lane map of f (modelled, not verified: see notes/C12.md). *)
From Coq Require Import List Arith Lia Bool.
From NM Require Import Simd SimdProofs.
Import ListNotations.

(* packed loop + scalar tail = map f, for every lane count and every size (tail included);
   "Some" = no packed load/store leaves its buffer *)
Theorem C12_unary_eq_map : forall (A : Type) (N : nat) (f : A -> A) (d : A) (inp out0 : list A),
  0 < N -> length out0 = length inp ->
  eval_unary N f inp out0 = Some (spec_unary f inp).
Proof. intros A N f d inp out0 HN. exact (eval_unary_eq_map A N HN f d inp out0). Qed.
Print Assumptions C12_unary_eq_map.

Theorem C12_binary_same_eq : forall (A : Type) (N : nat) (f : A -> A -> A) (d : A) (lhs rhs out0 : list A),
  0 < N -> length lhs = length rhs -> length out0 = length lhs ->
  eval_binary_same N f (length lhs) lhs rhs out0 = Some (spec_binary_same f lhs rhs).
Proof. intros A N f d lhs rhs out0 HN. exact (eval_binary_same_eq A N HN f d lhs rhs out0). Qed.
Print Assumptions C12_binary_same_eq.

(* ---------- non-vacuity ---------- *)
Example C12_nonvacuous_unary : eval_unary 4 S [1;2;3;4;5;6;7;8;9] (repeat 0 9) = Some [2;3;4;5;6;7;8;9;10].
Proof. reflexivity. Qed.
Example C12_nonvacuous_binary : eval_binary_same 4 Nat.add 5 [1;2;3;4;5] [10;20;30;40;50] (repeat 0 5) = Some [11;22;33;44;55].
Proof. reflexivity. Qed.
