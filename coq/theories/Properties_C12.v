(* Properties_C12.v — C12: SIMD evaluation equals scalar evaluation.  Statements only.
   N = lanes per pack (ANY N >= 1), A = element type, f = the scalar operation.  The lane operation
   of a context is taken to be the N-lane map of f (modelled, not verified: notes/C12.md).
   [Some _] = no packed or scalar access left its buffer; [None] / [Undefined] = out-of-bounds access. *)
From Coq Require Import List Arith Lia Bool.
From NM Require Import Simd SimdProofs.
Import ListNotations.

(* ---------- element-wise: packed loop + scalar tail = map, every lane count, every size *)
Theorem C12_unary_eq_map : forall (A : Type) (N : nat) (f : A -> A) (d : A) (inp out0 : list A),
  0 < N -> length out0 = length inp ->
  eval_unary N f inp out0 = Some (spec_unary f inp).
Proof. intros A N f d inp out0 HN. exact (eval_unary_eq_map A N HN f d inp out0). Qed.
Print Assumptions C12_unary_eq_map.

Theorem C12_binary_same_eq : forall (A : Type) (N : nat) (f : A -> A -> A) (d : A) (lhs rhs out0 : list A),
  0 < N -> length lhs = length rhs -> length out0 = length lhs ->
  eval_binary_same N f (length lhs) lhs rhs out0 = Some (spec_binary_same f lhs rhs).
Proof. intros A N f d lhs rhs out0 HN. exact (eval_binary_same_eq A N HN f d lhs rhs out0). Qed.
Print Assumptions C12_binary_same_eq.

(* ---------- 2-d broadcast: the enumerator's (tag, offsets) sequence, read the way eval_binary reads
   it, is EXACTLY the row-major list of (output cell, designated lhs cell, designated rhs cell): every
   cell once, in order, for every valid 2-d broadcast pattern ((1,1) operands included since fix
   "binary_2d_simd reads a (1,1) operand at offset 0"). *)
Theorem C12_binary_2d_covers_once : forall N R C l r, 0 < N -> 0 < R -> 0 < C ->
  valid_operand R C l -> valid_operand R C r -> R = Nat.max (fst l) (fst r) ->
  flat_map (cells_of N) (b2d_entries N (R, C) l r)
  = map (fun c => (c, bc2_cell C l c, bc2_cell C r c)) (seq 0 (R * C)).
Proof. exact b2d_covers_once. Qed.
Print Assumptions C12_binary_2d_covers_once.

(* ... hence the BROADCASTED_2D arm equals the broadcast spec and stays inside all three buffers *)
Theorem C12_binary_2d_eq_on_domain : forall (A : Type) (N : nat) (f : A -> A -> A) (d : A) R C l r (lhs rhs out0 : list A),
  0 < N -> 0 < R -> 0 < C -> valid_operand R C l -> valid_operand R C r -> R = Nat.max (fst l) (fst r) ->
  length lhs = fst l * snd l -> length rhs = fst r * snd r -> length out0 = R * C ->
  eval_binary_2d N f (R, C) l r lhs rhs out0
  = Some (map (fun c => f (nth (bc2_cell C l c) lhs d) (nth (bc2_cell C r c) rhs d)) (seq 0 (R * C))).
Proof. exact eval_binary_2d_eq. Qed.
Print Assumptions C12_binary_2d_eq_on_domain.

(* every packed access in bounds: the three element-wise evaluators return [Some _] on their domains *)
Theorem C12_no_UB : forall (A : Type) (N : nat) (d : A), 0 < N ->
  (forall (f : A -> A) inp out0, length out0 = length inp -> eval_unary N f inp out0 <> None) /\
  (forall (f : A -> A -> A) lhs rhs out0, length lhs = length rhs -> length out0 = length lhs ->
     eval_binary_same N f (length lhs) lhs rhs out0 <> None) /\
  (forall (f : A -> A -> A) R C l r lhs rhs out0, 0 < R -> 0 < C -> valid_operand R C l -> valid_operand R C r ->
     R = Nat.max (fst l) (fst r) -> length lhs = fst l * snd l -> length rhs = fst r * snd r -> length out0 = R * C ->
     eval_binary_2d N f (R, C) l r lhs rhs out0 <> None).
Proof.
  intros A N d HN. split; [|split].
  - intros f inp out0 H. rewrite (eval_unary_eq_map A N HN f d inp out0 H). discriminate.
  - intros f lhs rhs out0 H1 H2. rewrite (eval_binary_same_eq A N HN f d lhs rhs out0 H1 H2). discriminate.
  - intros f R C l r lhs rhs out0 HR HC Hl Hr Hm H1 H2 H3.
    rewrite (eval_binary_2d_eq A N f d R C l r lhs rhs out0 HN HR HC Hl Hr Hm H1 H2 H3). discriminate.
Qed.
Print Assumptions C12_no_UB.

(* ---------- reductions: "equal up to re-association" = equal for every associative-commutative f
   with identity e (the accumulator starts from the op's identity since fix "SIMD full reduction starts
   from the op's identity").  [msum l] = fold_left f l e; for a non-empty l it is the scalar evaluator's left
   fold seeded by the first element. *)
Theorem C12_reduce_full_on_domain : forall (A : Type) (f : A -> A -> A) (e z d : A) (N : nat) (init : option A) (inp : list A),
  (forall a b c, f (f a b) c = f a (f b c)) -> (forall a b, f a b = f b a) -> (forall a, f e a = a) -> 0 < N ->
  let seed := match init with Some i => i | None => e end in
  option_map (apply_initial f init) (eval_reduce_full N f z e (length inp) inp) = Some (fold_left f inp seed) /\
  (init <> None \/ inp <> [] -> fold_left f inp seed = spec_reduce_full f d init inp).
Proof.
  intros A f e z d N init inp Ha Hc Hi HN. split.
  - exact (eval_reduce_full_init_eq A f e Ha Hc Hi N HN d z init inp).
  - intros H. destruct init as [i|]; [reflexivity|].
    destruct H as [H|H]; [congruence|]. symmetry. exact (fold1_msum A f e Ha Hc Hi d inp H).
Qed.
Print Assumptions C12_reduce_full_on_domain.

(* 2-d horizontal core (reduce along the contiguous axis of an (R,C) input, identity padding of the
   last pack, lane-wise accumulation then fold of the lanes): row sums, for every N, R, C *)
Theorem C12_reduce_horizontal_core : forall (A : Type) (f : A -> A -> A) (e z d : A) (N R C : nat) (init : option A)
    (inp out0 : list A) (out2 : nat * nat),
  (forall a b c, f (f a b) c = f a (f b c)) -> (forall a b, f a b = f b a) -> (forall a, f e a = a) ->
  0 < N -> 0 < C -> length inp = R * C -> length out0 = R ->
  option_map (map (apply_initial f init))
    (option_map fst (run_hsteps N f z e inp (red_entries N HORIZONTAL out2 (R, C)) (out0, set1 N e)))
  = Some (map (fun r => fold_left f (firstn C (skipn (r * C) inp)) (match init with Some i => i | None => e end)) (seq 0 R)).
Proof.
  intros A f e z d N R C init inp out0 out2 Ha Hc Hi HN HC Hl Ho.
  exact (hreduce_init_eq A f e Ha Hc Hi N HN z inp R C HC Hl out2 d init out0 Ho).
Qed.
Print Assumptions C12_reduce_horizontal_core.

(* 2-d vertical core (input (outer*K, C) reduced over K, output (outer, C)): the enumerator's packed and
   scalar accumulate steps amount to "input row i is accumulated element-wise into output row i / K",
   rows taken in order, every access in bounds — the same left fold as the scalar evaluator, seeded with
   the identity the output was filled with.  No algebraic law is needed. *)
Theorem C12_reduce_vertical_core : forall (A : Type) (f : A -> A -> A) (d : A) (N outer K C : nat) (inp out0 : list A),
  0 < N -> 0 < K -> 0 < C -> 0 < outer -> length inp = outer * K * C -> length out0 = outer * C ->
  run_steps (vstep N f inp) (red_entries N VERTICAL (outer, C) (outer * K, C)) out0
  = Some (fold_left (fun out i =>
            firstn (i / K * C) out ++ map2 f (firstn C (skipn (i / K * C) out)) (firstn C (skipn (i * C) inp))
            ++ skipn (i / K * C + C) out) (seq 0 (outer * K)) out0).
Proof.
  intros A f d N outer K C inp out0 HN HK HC Ho Hi Hl.
  exact (vreduce_eq A f N HN d inp outer K C HK HC Ho Hi out0 Hl).
Qed.
Print Assumptions C12_reduce_vertical_core.

(* ---------- further refutations (faithful model vs spec), each a known-finding class *)
(* an output or operand that is not row-major (column_major_ndarray_t): every eval_* arm refuses at its
   layout guard and operator()() evaluates the view with the default evaluator — the result IS the
   scalar evaluator's *)
Theorem C12_not_row_major_falls_back : forall (A : Type) (N : nat) (scalar : list A),
  (forall (f : A -> A) inp out0, eval_unary_top N false f inp out0 scalar = Done scalar) /\
  (forall (f : A -> A -> A) o ls rs lhs rhs out0, eval_binary_top N f false o ls rs lhs rhs out0 scalar = Done scalar) /\
  (forall (f : A -> A -> A) ls rs lhs rhs out0, eval_outer_top N f false ls rs lhs rhs out0 scalar = Done scalar) /\
  (forall (f : A -> A -> A) z e s sk ax init inp, eval_reduction_top N f z e false s sk ax init inp scalar = Done scalar).
Proof. intros A N scalar. repeat split; intros; reflexivity. Qed.
Print Assumptions C12_not_row_major_falls_back.

(* operands of different rank (or an n-d broadcast): the simd path refuses and operator()() evaluates
   the view with the default evaluator — the result IS the scalar evaluator's, whatever it is *)
Theorem C12_binary_refused_falls_back : forall (A : Type) (N : nat) (f : A -> A -> A) (o ls rs : list nat) (lhs rhs out0 scalar : list A),
  list_eqb ls rs = false -> (length ls =? length rs) && (length rs =? 2) = false ->
  eval_binary N f o ls rs lhs rhs out0 = Refused /\
  eval_binary_top N f true o ls rs lhs rhs out0 scalar = Done scalar.
Proof.
  intros A N f o ls rs lhs rhs out0 scalar H1 H2. unfold eval_binary_top, eval_binary. rewrite H1, H2. split; reflexivity.
Qed.
Print Assumptions C12_binary_refused_falls_back.

(* ---------- the lane function: packed lanes apply the context's g, the tail applies the functor f *)
(* wherever g agrees with f on the elements actually present, the result is map f (premise of every
   element-wise theorem above, made local to the input) *)
Theorem C12_unary_lane_eq_map : forall (A : Type) (N : nat) (g f : A -> A) (d : A) (inp out0 : list A),
  0 < N -> length out0 = length inp -> (forall x, In x inp -> g x = f x) ->
  eval_unary_lane N g f inp out0 = Some (spec_unary f inp).
Proof.
  intros A N g f d inp out0 HN Hl Hg.
  rewrite (eval_unary_lane_eq A N f g inp out0 Hg). exact (eval_unary_eq_map A N HN f d inp out0 Hl).
Qed.
Print Assumptions C12_unary_lane_eq_map.

(* relu vectorised as MAXPS(a, 0) IS the scalar functor (x > 0 ? x : 0) for every a, -0.0 and NaN included,
   because max returns its SECOND operand unless a > 0.  (max(0, a) is not: Example C12_lane_table.) *)
Theorem C12_relu_x86_lane_is_scalar : forall (A : Type) (gtb : A -> A -> bool) (zero a : A),
  relu_x86 gtb zero a = relu_scalar gtb zero a.
Proof. reflexivity. Qed.
Print Assumptions C12_relu_x86_lane_is_scalar.

(* the special-value table the correspondence holds every context to (TNeg 0 = -0.0, TPos 0 = +0.0):
     x86 / SIMDe (max_sd(a,b) = a > b ? a : b):  relu(-0.0) = +0.0, relu(NaN) = +0.0   (= scalar)
                                                  relu6(-0.0) = +0.0, relu6(NaN) = 6    (scalar: -0.0, NaN)
     vector extensions (fmax/fmin):               relu(-0.0) = -0.0 or +0.0 (zero tie), relu(NaN) = +0.0
                                                  relu6(-0.0) = -0.0 or +0.0,           relu6(NaN) = 6
   and what swapping max's operands would do *)
Example C12_lane_table :
  let z := TPos 0 in let six := TPos 6 in
  (relu_scalar tf_gtb z (TNeg 0), relu_scalar tf_gtb z TNaN, relu6_scalar tf_gtb z six (TNeg 0), relu6_scalar tf_gtb z six TNaN)
    = (TPos 0, TPos 0, TNeg 0, TNaN)
  /\ (relu_x86 tf_gtb z (TNeg 0), relu_x86 tf_gtb z TNaN, relu6_x86 tf_gtb z six (TNeg 0), relu6_x86 tf_gtb z six TNaN)
    = (TPos 0, TPos 0, TPos 0, TPos 6)
  /\ (relu_vext tf_gtb tf_nanb true z (TNeg 0), relu_vext tf_gtb tf_nanb false z (TNeg 0), relu_vext tf_gtb tf_nanb true z TNaN)
    = (TNeg 0, TPos 0, TPos 0)
  /\ (relu6_vext tf_gtb tf_nanb true z six (TNeg 0), relu6_vext tf_gtb tf_nanb false z six (TNeg 0), relu6_vext tf_gtb tf_nanb true z six TNaN)
    = (TNeg 0, TPos 0, TPos 6)
  /\ (max_x86 tf_gtb z (TNeg 0), max_x86 tf_gtb z TNaN) = (TNeg 0, TNaN)        (* max(zero, a): NOT relu *)
  /\ (relu_x86 tf_gtb z (TPos 3), relu_x86 tf_gtb z (TNeg 3), relu6_x86 tf_gtb z six (TPos 9), relu6_vext tf_gtb tf_nanb true z six (TPos 4))
    = (TPos 3, TPos 0, TPos 6, TPos 4).
Proof. repeat split; reflexivity. Qed.

(* ---------- non-vacuity ---------- *)
Example C12_nonvacuous_unary : eval_unary 4 S [1;2;3;4;5;6;7;8;9] (repeat 0 9) = Some [2;3;4;5;6;7;8;9;10].
Proof. reflexivity. Qed.
Example C12_nonvacuous_binary : eval_binary_same 4 Nat.add 5 [1;2;3;4;5] [10;20;30;40;50] (repeat 0 5) = Some [11;22;33;44;55].
Proof. reflexivity. Qed.
Example C12_nonvacuous_2d : valid_operand 3 5 (3, 1) /\ valid_operand 3 5 (1, 5) /\
  eval_binary_2d 4 Nat.add (3, 5) (3, 1) (1, 5) [100; 200; 300] [1; 2; 3; 4; 5] (repeat 0 15)
  = Some [101;102;103;104;105;201;202;203;204;205;301;302;303;304;305].
Proof. repeat split; simpl; auto. Qed.
Example C12_nonvacuous_reduce : eval_reduce_full 4 Nat.add 0 0 9 [1;2;3;4;5;6;7;8;9] = Some 45
  /\ eval_reduce_axis 4 Nat.add 0 0 [2; 5] [2; 1] (false, 1) [1;2;3;4;5;6;7;8;9;10] 2 = Some [15; 40]
  /\ eval_reduce_axis 4 Nat.add 0 0 [2; 5] [1; 5] (false, 0) [1;2;3;4;5;6;7;8;9;10] 5 = Some [7;9;11;13;15].
Proof. repeat split; reflexivity. Qed.
(* the three inputs that were refutations before the fix: commits (1) identity start, (6) negative axis, (2) (1,1) operand *)
Example C12_repaired_full_multiply : eval_reduce_full 4 Nat.mul 0 1 6 [1;2;3;4;5;6] = Some 720.
Proof. reflexivity. Qed.
Example C12_repaired_negative_axis :
  eval_reduction 4 Nat.add 0 0 [2; 3; 2] [2; 1; 2] (Some (true, 2)) None [1;2;3;4;5;6;1;2;3;4;5;6] = Done [9; 12; 9; 12].
Proof. reflexivity. Qed.
Example C12_repaired_1x1_operand : valid_operand 2 1 (2, 1) /\ valid_operand 2 1 (1, 1) /\
  eval_binary_2d 4 Nat.add (2, 1) (2, 1) (1, 1) [1; 2] [10] [0; 0] = Some [11; 12].
Proof. repeat split; simpl; auto. Qed.
(* the inputs of the two later repairs: (4) refused operands fall back, (5) initial is folded in *)
Example C12_repaired_refused :
  eval_binary_top 4 Nat.add true [1; 5] [5] [1; 5] [1;2;3;4;5] [1;2;3;4;5] [0;0;0;0;0]
    (spec_binary_bc Nat.add 0 [1; 5] [1; 5] [1; 5] [1;2;3;4;5] [1;2;3;4;5]) = Done [2; 4; 6; 8; 10].
Proof. reflexivity. Qed.
Example C12_repaired_initial :
  eval_reduction 4 Nat.add 0 0 [2; 3] [1; 1] None (Some 100) [1;2;3;4;5;6] = Done [121]
  /\ spec_reduce_full Nat.add 0 (Some 100) [1;2;3;4;5;6] = 121
  /\ eval_reduction 4 Nat.add 0 0 [2; 3] [2; 1] (Some (false, 1)) (Some 100) [1;2;3;4;5;6] = Done [106; 115]
  /\ spec_reduce_axis Nat.add 0 (Some 100) 2 3 1 [1;2;3;4;5;6] = [106; 115].
Proof. repeat split; reflexivity. Qed.
(* (3) why the layout guard is needed: the packed loop on a column-major buffer walks storage order
   (the refutation before the repair); with the guard the call falls back *)
Example C12_layout_guard_needed :
  eval_unary_gen 2 S (colmajor2 0 2 2 [1; 2; 3; 4]) [1; 2; 3; 4] [0; 0; 0; 0] = Some [2; 4; 3; 5]
  /\ spec_unary S [1; 2; 3; 4] = [2; 3; 4; 5]
  /\ eval_unary_top 2 false S (colmajor2 0 2 2 [1; 2; 3; 4]) [0; 0; 0; 0] (spec_unary S [1; 2; 3; 4]) = Done [2; 3; 4; 5]
  /\ eval_unary_top 2 true S [1; 2; 3; 4] [0; 0; 0; 0] [] = Done [2; 3; 4; 5].
Proof. repeat split; reflexivity. Qed.
