(* Properties_C13.v — C13: the per-thread device kernel body reproduces host evaluation for any
   launch geometry.  Statements only.  [r] is the flattened result of functional::apply(f, operands)
   (a pure function of the operands, identical for every thread); that it equals the host evaluation
   of the view is C14's extraction theorem (Properties_C14.v: C14_extraction_correct on the class wf,
   C14_extraction_refuted outside — the kernels inherit that finding).
   Not modelled (partial): real device memory models, warp scheduling, the vendor runtimes. *)
From Coq Require Import Permutation.
From NM Require Import Base Index Kernel KernelProofs Functor FunctorProofs.
Local Open Scope Z_scope.

(* ANY schedule that covers [0,size): any order, duplicated threads, extra (over-provisioned)
   threads, any block size, any initial buffer contents — leaves the output equal to the result *)
Theorem C13_kernel_schedule_independent : forall (A : Type) (r : list A) bsz sched (out : list A),
  length r = length out -> covers bsz sched (length out) -> launch A r bsz sched out = Some r.
Proof. exact kernel_schedule_independent. Qed.
Print Assumptions C13_kernel_schedule_independent.

(* every cell is final once a thread owning it has run and untouched otherwise (incomplete
   schedules leave exactly the uncovered cells alone); the undefined read is never reached *)
Theorem C13_cell_final_or_untouched : forall (A : Type) (r : list A) bsz sched (out : list A),
  (length out <= length r)%nat ->
  exists out', launch A r bsz sched out = Some out' /\ map Some out' = cells_spec A r bsz sched out.
Proof. exact launch_eq_cells_spec. Qed.
Print Assumptions C13_cell_final_or_untouched.

(* threads whose global id is not below the output size write nothing *)
Theorem C13_out_of_range_threads_write_nothing : forall (A : Type) (r : list A) bsz (out : list A) t,
  zlen out <= thread_offset (fst t) (snd t) bsz -> assign_result A r bsz out t = Some out.
Proof. exact out_of_range_thread_writes_nothing. Qed.
Print Assumptions C13_out_of_range_threads_write_nothing.

(* a 1-d launch of grid blocks of bsz threads with grid*bsz >= size, its threads executed in any
   order, each at least once (extra executions allowed) *)
Theorem C13_grid_launch_any_order : forall (A : Type) (r : list A) grid bsz sched (out : list A),
  length r = length out -> 1 <= bsz -> 0 <= grid -> Z.of_nat (length out) <= grid * bsz ->
  incl (grid_schedule grid bsz) sched ->
  launch A r bsz sched out = Some r.
Proof.
  intros A r grid bsz sched out Hl Hb Hg Hn Hi. apply kernel_schedule_independent; [exact Hl|].
  exact (covers_incl bsz _ sched _ Hi (grid_schedule_covers grid bsz (length out) Hb Hg Hn)).
Qed.
Print Assumptions C13_grid_launch_any_order.

(* the launch sizes the contexts compute (exact arithmetic: n < 2^24 for the float division) cover
   the output: CUDA/HIP thread_size blocks of w threads, SYCL/OpenCL thread_size work items *)
Theorem C13_geometry_covers : forall n w, 1 <= w -> 0 <= n ->
  n <= fst (cuda_grid n w) * snd (cuda_grid n w) /\ n <= fst (sycl_grid n w) * snd (sycl_grid n w)
  /\ fst (sycl_grid n w) * snd (sycl_grid n w) < n + w.
Proof. exact geometry_covers. Qed.
Print Assumptions C13_geometry_covers.

(* create_array(data, shape, dim) over a raw triple is the original array: same shape, element at
   every multi-index (row-major enumeration) is the source element, no read outside the buffer *)
Theorem C13_rebuild_roundtrip : forall (A : Type) (data : list A) shape_ptr dim,
  let shape := firstn (Z.to_nat dim) shape_ptr in
  pos shape -> zlen data = prod shape ->
  create_array_elems A data shape_ptr dim = (shape, map Some data).
Proof. intros A. exact (@rebuild_roundtrip A). Qed.
Print Assumptions C13_rebuild_roundtrip.

(* "equal to host evaluation" fails for some views: the result every thread computes is the
   extracted composition applied to the extracted operands, which is not the view when a non-leaf
   operand sits at position >= 1 (C14_extraction_refuted); a complete launch then faithfully stores
   the wrong result.  Finding extraction-nonleaf-operand-at-position>=1, inherited from C14. *)
Theorem C13_host_equivalence_refuted :
  exists (e : expr Z) (r : list Z), arity_ok e = true /\ extracted Z e = ([], r)
    /\ launch Z r 1 [(0, 0)] [0] = Some r /\ r <> [eval Z e].
Proof. exists refute_e, [-8]. repeat split; try reflexivity. vm_compute. discriminate. Qed.
Print Assumptions C13_host_equivalence_refuted.

(* ---------- non-vacuity ---------- *)
(* descending order, duplicates, 2 extra threads, block size 3 *)
Example C13_nonvacuous_1 :
  let sched := [(1,1);(2,1);(0,1);(2,0);(1,0);(0,0);(1,0);(1,2)] in
  covers 3 sched 5 /\ launch Z [10;11;12;13;14] 3 sched [0;0;0;0;0] = Some [10;11;12;13;14].
Proof. split; [apply coversb_covers; reflexivity | reflexivity]. Qed.
(* an incomplete schedule leaves exactly the uncovered cell *)
Example C13_nonvacuous_2 : launch Z [10;11;12] 2 [(0,1);(0,0);(1,1)] [7;7;7] = Some [10;7;12].
Proof. reflexivity. Qed.
Example C13_nonvacuous_3 : incl (grid_schedule 2 3) (rev (grid_schedule 2 3) ++ [(0,5)]) /\ 5 <= 2 * 3.
Proof. split; [|lia]. intros x Hx. apply in_or_app. left. now apply -> in_rev. Qed.
Example C13_nonvacuous_4 : cuda_grid 33 32 = (64, 32) /\ sycl_grid 33 32 = (2, 32).
Proof. split; reflexivity. Qed.
Example C13_nonvacuous_5 :
  create_array_elems Z [0;1;2;3;4;5] [2;3;9;9] 2 = ([2;3], map Some [0;1;2;3;4;5]).
Proof. reflexivity. Qed.
(* the result smaller than the output is the undefined read, not a silent default *)
Example C13_ub_explicit : launch Z [10] 1 [(0,1)] [0;0] = None.
Proof. reflexivity. Qed.
