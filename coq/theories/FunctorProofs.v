(* FunctorProofs.v — lemmas for C14 (the extraction part lifts DESIGN Appendix E.4 to n-ary nodes). *)
From NM Require Import Base Functor.
Local Open Scope Z_scope.

Section FunctorProofs.
Variable val : Type.
Notation functor := (functor val).
Notation expr := (expr val).
Implicit Types (fs : list functor) (st ops : list val).

(* ---------- currying: operands may arrive in any split ---------- *)

(* operands appended at the END of the stack never change what already fired *)
Lemma run_app_stack fs : forall st extra,
  run val fs (st ++ extra) = call val (run val fs st) extra.
Proof.
  induction fs as [|f fs IH]; intros st extra; cbn [run].
  - reflexivity.
  - destruct (Nat.ltb_spec (length st) (arity val f)) as [Hlt|Hge].
    + unfold call. cbn [fst snd]. reflexivity.
    + destruct (Nat.ltb_spec (length (st ++ extra)) (arity val f)) as [Hlt'|_].
      * rewrite app_length in Hlt'. lia.
      * rewrite firstn_app, skipn_app.
        replace (arity val f - length st)%nat with 0%nat by lia.
        cbn [firstn skipn]. rewrite app_nil_r, app_assoc. apply IH.
Qed.

Lemma fold_call_run chunks : forall fs st,
  fold_left (call val) chunks (run val fs st) = run val fs (st ++ concat chunks).
Proof.
  induction chunks as [|c cs IH]; intros fs st; cbn [fold_left concat].
  - now rewrite app_nil_r.
  - rewrite <- run_app_stack, IH, app_assoc. reflexivity.
Qed.

Lemma feed_concat fs chunks : chunks <> [] -> feed val fs chunks = run val fs (concat chunks).
Proof.
  destruct chunks as [|c cs]; [congruence|]. intros _. unfold feed. cbn [fold_left concat].
  unfold call at 2. cbn [fst snd app]. apply fold_call_run.
Qed.

Lemma curry_any_split fs chunks1 chunks2 :
  chunks1 <> [] -> chunks2 <> [] -> concat chunks1 = concat chunks2 ->
  feed val fs chunks1 = feed val fs chunks2.
Proof. intros H1 H2 E. rewrite !feed_concat by assumption. now rewrite E. Qed.

(* ---------- composition ---------- *)

Lemma compose_assoc (a b c : list functor) :
  compose val (compose val a b) c = compose val a (compose val b c).
Proof. unfold compose. apply app_assoc. Qed.

Lemma run_app_fs c2 : forall c1 st,
  run val (c2 ++ c1) st =
  match run val c2 st with
  | ([], st') => run val c1 st'
  | (rem, st') => (rem ++ c1, st')
  end.
Proof.
  induction c2 as [|g c2 IH]; intros c1 st; cbn [run app].
  - reflexivity.
  - destruct (length st <? arity val g)%nat; [reflexivity|]. apply IH.
Qed.

Lemma compose_apply f g ops : (arity val g <= length ops)%nat ->
  run val (compose val [f] [g]) ops =
  run val [f] (fmap val g (firstn (arity val g) ops) ++ skipn (arity val g) ops).
Proof.
  intros H. unfold compose. change ([g] ++ [f]) with (g :: [f]).
  remember (run val [f]) as rf. cbn [run]. subst rf.
  destruct (Nat.ltb_spec (length ops) (arity val g)); [lia|reflexivity].
Qed.

Lemma denote_run t : forall ops st, denote val t ops = Some st -> run val (flatten val t) ops = ([], st).
Proof.
  induction t as [f|a IHa b IHb]; intros ops st; cbn [denote flatten].
  - cbn [run]. destruct (length ops <? arity val f)%nat; [discriminate|]. intros [= <-]. reflexivity.
  - destruct (denote val b ops) as [st1|] eqn:Eb; [|discriminate]. intros Ha.
    unfold compose. rewrite run_app_fs, (IHb _ _ Eb). apply IHa. exact Ha.
Qed.

Lemma flatten_assoc (a b c : ctree val) :
  flatten val (CC val (CC val a b) c) = flatten val (CC val a (CC val b c)).
Proof. cbn [flatten]. apply compose_assoc. Qed.

Lemma denote_assoc (a b c : ctree val) ops :
  denote val (CC val (CC val a b) c) ops = denote val (CC val a (CC val b c)) ops.
Proof. cbn [denote]. destruct (denote val c ops); [|reflexivity]. reflexivity. Qed.

(* combinators are the stack permutations their names say *)
Lemma combinators_spec (a b c : val) rest :
  run val [swap_f val] (a :: b :: rest) = ([], b :: a :: rest)
  /\ run val [dup_f val 2] (a :: rest) = ([], a :: a :: rest)
  /\ run val [dig_f val 2] (a :: b :: c :: rest) = ([], c :: a :: b :: rest)
  /\ run val [bury_f val 2] (a :: b :: c :: rest) = ([], b :: c :: a :: rest)
  /\ run val [dig_f val 1] (a :: b :: rest) = run val [swap_f val] (a :: b :: rest)
  /\ run val [bury_f val 1] (a :: b :: rest) = run val [swap_f val] (a :: b :: rest).
Proof. repeat split; reflexivity. Qed.

(* ---------- extraction ---------- *)

Lemma expr_ind' (P : expr -> Prop) :
  (forall v, P (Leaf val v)) ->
  (forall f args, Forall P args -> P (Node val f args)) ->
  forall e, P e.
Proof.
  intros HL HN. fix IH 1. intros [v|f args]; [apply HL|]. apply HN.
  induction args as [|a t IHt]; constructor; [apply IH | exact IHt].
Qed.

Lemma leaves_flat (rest : list expr) : forallb (is_leaf val) rest = true ->
  flat_map (comp val) rest = [] /\ flat_map (operands val) rest = map (eval val) rest.
Proof.
  induction rest as [|a t IH]; cbn [forallb flat_map map]; [split; reflexivity|].
  intros H. apply andb_prop in H as [Ha Ht]. destruct (IH Ht) as [E1 E2].
  destruct a as [v|]; [|discriminate]. cbn [comp operands eval app]. rewrite E1, E2. split; reflexivity.
Qed.

(* the compile-to-stack-machine theorem, generalised over the continuation and the rest of the stack *)
Lemma extraction_correct_gen e : wf val e -> forall fs rest,
  run val (comp val e ++ fs) (operands val e ++ rest) = run val fs (eval val e :: rest).
Proof.
  induction e as [v|f args IH] using expr_ind'; intros H fs rest.
  - reflexivity.
  - cbn [wf] in H. destruct H as [Ha H]. cbn [comp operands eval].
    destruct args as [|a0 tl].
    + cbn [flat_map app map]. cbn [run]. cbn [length] in Ha. cbn [lift arity]. rewrite Ha.
      cbn [Nat.ltb Nat.leb firstn skipn lift fmap app]. destruct rest; reflexivity.
    + destruct H as [H0 Hl]. inversion IH as [|? ? IH0 _]; subst.
      destruct (leaves_flat tl Hl) as [E1 E2].
      cbn [flat_map map]. rewrite E1, E2, app_nil_r, <- !app_assoc.
      rewrite IH0 by exact H0. cbn [app run].
      cbn [length] in Ha. cbn [lift arity fmap]. rewrite Ha.
      destruct (Nat.ltb_spec (length (eval val a0 :: map (eval val) tl ++ rest)) (S (length tl))) as [Hlt|_].
      * cbn [length] in Hlt. rewrite app_length, map_length in Hlt. lia.
      * cbn [firstn skipn].
        rewrite firstn_app, skipn_app, map_length, Nat.sub_diag. cbn [firstn skipn].
        rewrite firstn_all2 by (rewrite map_length; lia).
        rewrite skipn_all2 by (rewrite map_length; lia).
        rewrite app_nil_r. cbn [app]. reflexivity.
Qed.

Lemma extraction_correct e : wf val e -> extracted val e = ([], [eval val e]).
Proof.
  intros H. unfold extracted. pose proof (extraction_correct_gen e H [] []) as G.
  rewrite !app_nil_r in G. exact G.
Qed.

Lemma wfb_wf e : wfb val e = true <-> wf val e.
Proof.
  induction e as [v|f args IH] using expr_ind'; cbn [wfb wf]; [tauto|].
  rewrite andb_true_iff, Nat.eqb_eq. destruct args as [|a0 tl]; [tauto|].
  inversion IH as [|? ? IH0 _]; subst. rewrite andb_true_iff, IH0. tauto.
Qed.

(* the extracted operands are the leaves, in order *)
Lemma operands_are_leaves_gen e : forall acc, leaves_acc val e acc = operands val e ++ acc.
Proof.
  induction e as [v|f args IH] using expr_ind'; intros acc; cbn [leaves_acc operands]; [reflexivity|].
  induction IH as [|a t Ha _ IHt]; cbn [fold_right flat_map]; [reflexivity|].
  rewrite Ha, IHt, app_assoc. reflexivity.
Qed.

Lemma operands_are_leaves e : operands val e = leaves_acc val e [].
Proof. rewrite operands_are_leaves_gen. now rewrite app_nil_r. Qed.

Lemma operands_count e : length (operands val e) = n_leaves val e.
Proof.
  induction e as [v|f args IH] using expr_ind'; cbn [operands n_leaves]; [reflexivity|].
  induction IH as [|a t Ha _ IHt]; cbn [fold_right flat_map]; [reflexivity|].
  rewrite app_length, Ha, IHt. reflexivity.
Qed.

(* ---------- compute graph ---------- *)

(* nodes are numbered consecutively: one per leaf occurrence and per operation; edges: one per
   argument, from a node of the sub-graph to the (later) operation node *)
Definition gok (next : nat) (r : gres) (nl no na : nat) : Prop :=
  match r with (root, nx, ns, es) =>
    nx = (next + nl + no)%nat /\ ns = seq next (nl + no) /\ length es = na /\
    (next <= root < nx)%nat /\ Forall (fun e => next <= fst e < snd e /\ snd e < nx)%nat es
  end.

Lemma seq_glue a n a' m k : a' = (a + n)%nat -> k = (n + m)%nat -> seq a n ++ seq a' m = seq a k.
Proof. intros -> ->. symmetry. apply seq_app. Qed.

Lemma Forall_edges_weaken (es : list (nat * nat)) a b a' b' : (a' <= a)%nat -> (b <= b')%nat ->
  Forall (fun e => a <= fst e < snd e /\ snd e < b)%nat es ->
  Forall (fun e => a' <= fst e < snd e /\ snd e < b')%nat es.
Proof. intros Ha Hb. apply Forall_impl. intros e. lia. Qed.

Lemma graph_from_ok e : forall next,
  gok next (graph_from val e next) (n_leaves val e) (n_ops val e) (n_args val e).
Proof.
  induction e as [v|f args IH] using expr_ind'; intros next.
  - cbn. repeat split; try lia. constructor.
  - cbn [graph_from n_leaves n_ops n_args].
    (* the arguments, left to right *)
    assert (G : forall nx0, match gargs val (graph_from val) args nx0 with (roots, nx, ns, es) =>
              let nl := fold_right (fun a s => n_leaves val a + s)%nat 0%nat args in
              let no := fold_right (fun a s => n_ops val a + s)%nat 0%nat args in
              let na := fold_right (fun a s => n_args val a + s)%nat 0%nat args in
              nx = (nx0 + nl + no)%nat /\ ns = seq nx0 (nl + no) /\ length es = na /\ length roots = length args /\
              Forall (fun r => nx0 <= r < nx)%nat roots /\
              Forall (fun e => nx0 <= fst e < snd e /\ snd e < nx)%nat es end).
    { induction IH as [|a t Ha _ IHt]; intros nx0; cbn [gargs fold_right length].
      - repeat split; try lia; constructor.
      - specialize (Ha nx0). destruct (graph_from val a nx0) as [[[r nx1] ns1] es1].
        cbn [gok] in Ha. destruct Ha as [E1 [E2 [E3 [E4 E5]]]].
        specialize (IHt nx1). cbn [gargs] in IHt.
        destruct (gargs val (graph_from val) t nx1) as [[[rs nx2] ns2] es2].
        cbn zeta in IHt. destruct IHt as [F1 [F2 [F3 [F4 [F5 F6]]]]]. cbn zeta.
        split; [lia|]. split.
        { rewrite E2, F2. apply seq_glue; lia. }
        split; [rewrite app_length; lia|]. split; [cbn [length]; lia|]. split.
        { constructor; [lia|]. eapply Forall_impl; [|exact F5]. intros x. cbn beta. lia. }
        { apply Forall_app. split.
          - eapply Forall_edges_weaken; [| |exact E5]; lia.
          - eapply Forall_edges_weaken; [| |exact F6]; lia. } }
    specialize (G next). destruct (gargs val (graph_from val) args next) as [[[roots nx] ns] es].
    cbn zeta in G. destruct G as [G1 [G2 [G3 [G4 [G5 G6]]]]]. cbn [gok].
    split; [lia|]. split.
    { rewrite G2. apply (seq_glue next _ nx 1); lia. }
    split; [rewrite app_length, map_length; lia|]. split; [lia|].
    apply Forall_app. split.
    + eapply Forall_edges_weaken; [| |exact G6]; lia.
    + apply Forall_map. eapply Forall_impl; [|exact G5]. intros r. cbn [fst snd]. lia.
Qed.

Lemma graph_nodes_edges e :
  match graph val e with (ns, es) =>
    ns = seq 0 (n_leaves val e + n_ops val e) /\ NoDup ns /\ length es = n_args val e /\
    Forall (fun ed => In (fst ed) ns /\ In (snd ed) ns /\ fst ed <> snd ed) es
  end.
Proof.
  unfold graph. pose proof (graph_from_ok e 0) as H.
  destruct (graph_from val e 0) as [[[root nx] ns] es]. cbn [gok] in H.
  destruct H as [E1 [E2 [E3 [E4 E5]]]]. split; [exact E2|]. split; [rewrite E2; apply seq_NoDup|].
  split; [exact E3|]. eapply Forall_impl; [|exact E5]. intros ed H. cbn beta in H. rewrite E2, !in_seq. lia.
Qed.

(* ids: any naming of the nodes that is injective ON THE NODES OF THIS GRAPH keeps them distinct *)
Lemma ids_unique_partial {B} (h : nat -> B) (ns : list nat) :
  NoDup ns -> (forall x y, In x ns -> In y ns -> h x = h y -> x = y) -> NoDup (map h ns).
Proof.
  induction 1 as [|a l Hn Hd IH]; intros Hinj; cbn [map]; constructor.
  - intros Hin. apply in_map_iff in Hin as [y [Ey Hy]].
    assert (y = a) by (apply Hinj; [right; exact Hy | left; reflexivity | exact Ey]). subst. contradiction.
  - apply IH. intros x y Hx Hy. apply Hinj; right; assumption.
Qed.

End FunctorProofs.

(* ---------- the id hash ---------- *)

Lemma generate_alias_range l : 0 <= generate_alias l < 1033.
Proof.
  unfold generate_alias. assert (G : forall r, 0 <= r < 1033 -> 0 <= fold_left (fun r c => (r * 512 + c) mod 1033) l r < 1033).
  { induction l as [|c l IH]; intros r Hr; cbn [fold_left]; [exact Hr|]. apply IH. apply Z.mod_pos_bound. lia. }
  apply G. lia.
Qed.

(* only 1033 ids exist: no naming by this hash keeps more than 1033 nodes apart *)
Lemma ids_pigeonhole (ids : list Z) :
  Forall (fun i => 0 <= i < 1033) ids -> (1033 < length ids)%nat -> ~ NoDup ids.
Proof.
  intros Hr Hl Hnd.
  assert (Hincl : incl ids (zs 1033)).
  { intros x Hx. rewrite Forall_forall in Hr. apply in_zs. specialize (Hr x Hx). lia. }
  pose proof (NoDup_incl_length Hnd Hincl) as H. rewrite zs_length in H. lia.
Qed.

(* ---------- outside wf the extraction is wrong: a non-leaf operand at position 1 ---------- *)

(* every node has as many arguments as its function takes: a legal view *)
Fixpoint arity_ok {val} (e : expr val) : bool :=
  match e with
  | Leaf _ _ => true
  | Node _ f args => (varity val f =? length args)%nat && forallb arity_ok args
  end.

Definition sub_v : vfun Z := {| varity := 2; vapp := fun l => match l with [a; b] => a - b | _ => 0 end |}.
Definition dbl_v : vfun Z := {| varity := 1; vapp := fun l => match l with [a] => 2 * a | _ => 0 end |}.
(* subtract(a, double(b)) with a = 1, b = 10: the view is 1 - 20 = -19, the extraction computes 2*1 - 10 = -8 *)
Definition refute_e : expr Z := Node Z sub_v [Leaf Z 1; Node Z dbl_v [Leaf Z 10]].

Lemma extraction_refuted_witness :
  arity_ok refute_e = true /\ eval Z refute_e = -19 /\ extracted Z refute_e = ([], [-8]).
Proof. repeat split; reflexivity. Qed.

Lemma extraction_refuted :
  exists e : expr Z, arity_ok e = true /\ extracted Z e <> ([], [eval Z e]).
Proof. exists refute_e. split; [reflexivity|]. vm_compute. intros H. inversion H. Qed.

(* ---------- ids are NOT unique, even with an ideal hash: leaves of different sub-views collide ---------- *)
(* matmul(a, transpose(b)): 4 nodes (a, b, transpose, matmul) but 3 keys: a and b are both "0" *)
Definition collide_t : gtree := GNode 1 [GLeaf; GNode 2 [GLeaf]].
Lemma ids_unique_refuted :
  exists t : gtree, (length (snd (cxx_graph_keys t)) < g_nodes t)%nat.
Proof. exists collide_t. vm_compute. lia. Qed.
Lemma ids_collide_values :
  snd (cxx_graph_keys collide_t) = [LeafId 0; OpId 2 [LeafId 0]; OpId 1 [LeafId 0; OpId 2 [LeafId 0]]].
Proof. reflexivity. Qed.

(* ---------- compute graph of a view DAG ---------- *)

Lemma nid_ind' (P : nid -> Prop) :
  (forall n, P (LeafId n)) -> (forall n args, Forall P args -> P (OpId n args)) -> forall t, P t.
Proof.
  intros HL HN. fix IH 1. intros [n|n args]; [apply HL|]. apply HN.
  induction args as [|a l IHl]; constructor; [apply IH | exact IHl].
Qed.

Fixpoint list_eqb {A} (eqb : A -> A -> bool) (l k : list A) : bool :=
  match l, k with [], [] => true | a :: l', b :: k' => eqb a b && list_eqb eqb l' k' | _, _ => false end.

Lemma nid_eqb_op n l m k : nid_eqb (OpId n l) (OpId m k) = Nat.eqb n m && list_eqb nid_eqb l k.
Proof.
  cbn [nid_eqb]. f_equal. revert k. induction l as [|a l IH]; intros [|b k]; cbn [list_eqb]; try reflexivity.
  f_equal. apply IH.
Qed.

Lemma nid_eqb_eq x : forall y, nid_eqb x y = true <-> x = y.
Proof.
  induction x as [n|n args IH] using nid_ind'; intros [m|m k].
  - cbn [nid_eqb]. rewrite Nat.eqb_eq. split; [intros ->; reflexivity | intros [= ->]; reflexivity].
  - cbn [nid_eqb]. split; discriminate.
  - cbn [nid_eqb]. split; discriminate.
  - rewrite nid_eqb_op, andb_true_iff, Nat.eqb_eq.
    assert (L : list_eqb nid_eqb args k = true <-> args = k).
    { revert k. induction IH as [|a l Ha _ IHl]; intros [|b k]; cbn [list_eqb]; try (split; [discriminate|discriminate]); [tauto|].
      rewrite andb_true_iff, Ha, IHl. split; [intros [-> ->]; reflexivity | intros [= -> ->]; auto]. }
    rewrite L. split; [intros [-> ->]; reflexivity | intros [= -> ->]; auto].
Qed.

Lemma edge_eqb_eq e f : edge_eqb e f = true <-> e = f.
Proof.
  unfold edge_eqb. rewrite andb_true_iff, !nid_eqb_eq. destruct e, f; cbn [fst snd].
  split; [intros [-> ->]; reflexivity | intros [= -> ->]; auto].
Qed.

Section Dedup.
Context {A : Type} (eqb : A -> A -> bool) (Heq : forall x y, eqb x y = true <-> x = y).
Lemma In_dedup l : forall z, In z (dedup eqb l) <-> In z l.
Proof.
  induction l as [|x t IH]; intros z; cbn [dedup In]; [tauto|].
  rewrite filter_In, IH, negb_true_iff. split.
  - intros [H|[H _]]; auto.
  - intros [H|H]; [left; exact H|]. destruct (eqb x z) eqn:E; [left; now apply Heq | right; auto].
Qed.
Lemma NoDup_dedup l : NoDup (dedup eqb l).
Proof.
  induction l as [|x t IH]; cbn [dedup]; constructor.
  - rewrite filter_In. intros [_ H]. rewrite (proj2 (Heq x x) eq_refl) in H. discriminate.
  - now apply NoDup_filter.
Qed.
End Dedup.

Lemma NoDup_map_inj_on {A B} (h : A -> B) (l : list A) :
  NoDup l -> (forall x y, In x l -> In y l -> h x = h y -> x = y) -> NoDup (map h l).
Proof.
  induction 1 as [|a l Hn Hd IH]; intros Hinj; cbn [map]; constructor.
  - intros Hin. apply in_map_iff in Hin as [y [Ey Hy]].
    assert (y = a) by (apply Hinj; [right; exact Hy | left; reflexivity | exact Ey]). subst. contradiction.
  - apply IH. intros x y Hx Hy. apply Hinj; right; assumption.
Qed.

Lemma subterms_self t : In t (subterms t).
Proof. destruct t; cbn [subterms]; [left; reflexivity | apply in_or_app; right; left; reflexivity]. Qed.

Lemma subterms_trans t : forall p q, In p (subterms t) -> In q (subterms p) -> In q (subterms t).
Proof.
  induction t as [n|n args IH] using nid_ind'; intros p q Hp Hq.
  - cbn [subterms] in Hp. destruct Hp as [<-|[]]. exact Hq.
  - cbn [subterms] in Hp |- *. apply in_app_or in Hp as [Hp|[<-|[]]].
    + apply in_or_app. left. apply in_flat_map in Hp as [a [Ha Hpa]]. apply in_flat_map. exists a. split; [exact Ha|].
      rewrite Forall_forall in IH. exact (IH a Ha p q Hpa Hq).
    + exact Hq.
Qed.

Lemma subterms_operand t p a : In p (subterms t) -> In a (operands_of p) -> In a (subterms t).
Proof.
  intros Hp Ha. apply (subterms_trans t p a Hp). destruct p as [|n args]; [destruct Ha|].
  cbn [operands_of] in Ha. cbn [subterms]. apply in_or_app. left. apply in_flat_map. exists a. split; [exact Ha | apply subterms_self].
Qed.

Lemma all_edges_char t : forall a p,
  In (a, p) (all_edges t) <-> In p (subterms t) /\ In a (operands_of p).
Proof.
  induction t as [n|n args IH] using nid_ind'; intros a p.
  - cbn [all_edges subterms In]. split; [tauto|]. intros [[<-|[]] H]. exact H.
  - cbn [all_edges subterms]. rewrite Forall_forall in IH. rewrite !in_app_iff, !in_flat_map. split.
    + intros [[x [Hx H]]|H].
      * apply IH in H as [H1 H2]; [|exact Hx]. split; [left; exists x; auto | exact H2].
      * apply in_map_iff in H as [y [E Hy]]. inversion E; subst. split; [right; left; reflexivity | exact Hy].
    + intros [[[x [Hx H]]|[<-|[]]] Ha].
      * left. exists x. split; [exact Hx|]. apply IH; auto.
      * right. apply in_map_iff. exists a. split; [reflexivity | exact Ha].
Qed.

(* the DAG graph: distinct nodes, no edge twice, edges exactly (operand node, operation) *)
Lemma dag_graph_spec t :
  NoDup (dag_nodes t) /\ NoDup (dag_edges t)
  /\ (forall p, In p (dag_nodes t) <-> In p (subterms t))
  /\ (forall a p, In (a, p) (dag_edges t) <-> In p (dag_nodes t) /\ In a (operands_of p))
  /\ (forall a p, In (a, p) (dag_edges t) -> In a (dag_nodes t)).
Proof.
  unfold dag_nodes, dag_edges.
  split; [apply NoDup_dedup, (fun x y => nid_eqb_eq x y)|].
  split; [apply NoDup_dedup, edge_eqb_eq|].
  split; [intros p; apply In_dedup, (fun x y => nid_eqb_eq x y)|].
  split.
  - intros a p. rewrite (In_dedup edge_eqb edge_eqb_eq), (In_dedup nid_eqb (fun x y => nid_eqb_eq x y)). apply all_edges_char.
  - intros a p H. rewrite (In_dedup edge_eqb edge_eqb_eq) in H. rewrite (In_dedup nid_eqb (fun x y => nid_eqb_eq x y)).
    apply all_edges_char in H as [H1 H2]. exact (subterms_operand t p a H1 H2).
Qed.

(* every operation node has exactly its distinct operand nodes as in-edges, each once: in-degree = arity
   whenever the operands are different nodes *)
Lemma dag_in_edges t p : In p (dag_nodes t) ->
  NoDup (in_edges p (dag_edges t)) /\ (forall a, In a (in_edges p (dag_edges t)) <-> In a (operands_of p)).
Proof.
  intros Hp. destruct (dag_graph_spec t) as [_ [Hnd [_ [He _]]]]. unfold in_edges. split.
  - apply NoDup_map_inj_on; [now apply NoDup_filter|].
    intros [a1 p1] [a2 p2] H1 H2 E. apply filter_In in H1 as [_ H1]. apply filter_In in H2 as [_ H2].
    cbn [fst snd] in *. apply nid_eqb_eq in H1, H2. subst. reflexivity.
  - intros a. rewrite in_map_iff. split.
    + intros [[a' p'] [E H]]. cbn [fst] in E. subst a'. apply filter_In in H as [H Hs]. cbn [snd] in Hs.
      apply nid_eqb_eq in Hs. subst p'. apply He in H. tauto.
    + intros Ha. exists (a, p). split; [reflexivity|]. apply filter_In. split; [apply He; auto|].
      cbn [snd]. now apply nid_eqb_eq.
Qed.
