(* Properties_C08.v — C08: reductions and accumulations fold exactly the addressed elements, in order.
   Statements only.  Every statement holds for EVERY rank, all positive extents, EVERY source element
   type [E], EVERY result type [R] (the type the accumulator lives in: the requested dtype, else the
   source element type), EVERY conversion [cast : E -> R] and EVERY step [f : R -> E -> R]
   (op followed by the conversion back to R).  No commutativity / associativity is assumed anywhere,
   so the ORDER of the fold and the TYPE in which it is carried out are part of each equation.
   Model  = Reduce.remove_dims / reduce_at / accumulate_at  (the C++ loops, branch for branch)
   Spec   = Reduce.reduce_shape_spec / reduce_spec / accumulate_spec (NumPy: mask of reduced axes,
            left fold over [a (merge mask i r) | r <- lex_enum (reduced extents)]). *)
From Coq Require Import Permutation.
From NM Require Import Base Index IndexProofs Dtype Reduce ReduceProofs.
Local Open Scope Z_scope.

(* result shape: for an axis argument NumPy accepts (None, an axis in [-ndim,ndim), or a list of such
   axes without repetition after normalisation, in any order) remove_dims gives NumPy's shape:
   reduced axes removed, or kept with extent 1 under keepdims *)
Theorem C08_reduce_shape : forall s ax keepdims,
  axes_ok (zlen s) ax = true ->
  remove_dims s ax keepdims = Some (reduce_shape_spec s ax keepdims).
Proof. exact remove_dims_spec. Qed.
Print Assumptions C08_reduce_shape.

(* element: at every index of the result, the view returns the LEFT fold — seeded by [initial] or,
   without it, by the first element — of exactly the source elements whose non-reduced coordinates
   are those of the index, the reduced coordinates running in nested-loop (increasing) order;
   that list is never empty and every source index in it lies inside the source shape *)
Theorem C08_reduce_elem : forall (E R : Type) (cast : E -> R) (f : R -> E -> R) (a : list Z -> E) s ax keepdims init idx,
  pos s -> axes_ok (zlen s) ax = true -> inb idx (reduce_shape_spec s ax keepdims) ->
  let mask := red_mask (length s) ax in
  let i := if keepdims then drop_reduced mask idx else idx in
  reduce_at cast f a s ax keepdims init idx = reduce_spec cast f a s ax keepdims init idx
  /\ reduce_spec cast f a s ax keepdims init idx = fold_spec cast f (spec_elems a mask s i) init
  /\ spec_elems a mask s i <> []
  /\ (forall r, In r (lex_enum (reduced_extents mask s)) -> inb (merge mask i r) s).
Proof.
  intros E R cast f a s ax kd init idx Hp Hok Hi mask i.
  split; [exact (reduce_at_spec E R cast f a s ax kd init idx Hp Hok (inb_length _ _ Hi))|].
  split; [reflexivity|].
  split; [exact (spec_elems_nonempty E a mask s i Hp)|].
  intros r Hr. pose proof (red_mask_length (length s) ax) as Hl.
  apply (in_lex_enum _ (reduced_extents_pos mask s Hp)) in Hr.
  apply merge_inb; [exact Hl | | exact Hr].
  subst i. destruct kd; [apply drop_reduced_inb; [exact Hl | exact Hi] | exact Hi].
Qed.
Print Assumptions C08_reduce_elem.

(* the order and the signs in which the axes are written do not matter: two accepted axis arguments
   naming the same set of axes give the same shape and the same elements; in particular any
   permutation of the normalised axes *)
Theorem C08_axes_order_and_sign : forall (E R : Type) (cast : E -> R) (f : R -> E -> R) (a : list Z -> E) s ax ax' keepdims init idx,
  pos s -> axes_ok (zlen s) ax = true -> axes_ok (zlen s) ax' = true ->
  red_mask (length s) ax = red_mask (length s) ax' ->
  inb idx (reduce_shape_spec s ax keepdims) ->
  remove_dims s ax keepdims = remove_dims s ax' keepdims
  /\ reduce_at cast f a s ax keepdims init idx = reduce_at cast f a s ax' keepdims init idx.
Proof.
  intros E R cast f a s ax ax' kd init idx Hp H1 H2 Hm Hi.
  exact (reduce_depends_on_mask E R cast f a s ax ax' kd init idx Hp H1 H2 Hm (inb_length _ _ Hi)).
Qed.
Print Assumptions C08_axes_order_and_sign.

Theorem C08_axes_permutation_same_mask : forall n l l',
  Permutation (map (np_norm (Z.of_nat n)) l) (map (np_norm (Z.of_nat n)) l') ->
  red_mask n (AxList l) = red_mask n (AxList l').
Proof. exact red_mask_perm. Qed.
Print Assumptions C08_axes_permutation_same_mask.

(* reducing over all axes (a duplicate-free list of ndim axes) equals axis = None,
   which folds the whole array in row-major order *)
Theorem C08_reduce_all_axes_eq_none : forall (E R : Type) (cast : E -> R) (f : R -> E -> R) (a : list Z -> E) s l keepdims init idx,
  pos s -> axes_ok (zlen s) (AxList l) = true -> length l = length s ->
  inb idx (reduce_shape_spec s (AxList l) keepdims) ->
  remove_dims s (AxList l) keepdims = remove_dims s AxNone keepdims
  /\ reduce_at cast f a s (AxList l) keepdims init idx = reduce_at cast f a s AxNone keepdims init idx
  /\ reduce_at cast f a s AxNone keepdims init idx = fold_spec cast f (map a (lex_enum s)) init.
Proof.
  intros E R cast f a s l kd init idx Hp Hok Hl Hi.
  pose proof (all_axes_mask (length s) l Hok Hl) as Hm.
  destruct (reduce_depends_on_mask E R cast f a s (AxList l) AxNone kd init idx Hp Hok eq_refl Hm (inb_length _ _ Hi)) as [E1 E2].
  split; [exact E1|]. split; [exact E2|].
  rewrite (reduce_at_spec E R cast f a s AxNone kd init idx Hp eq_refl).
  - unfold reduce_spec. cbn [red_mask]. now rewrite spec_elems_all.
  - unfold reduce_shape_spec in *. rewrite <- Hm. exact (inb_length _ _ Hi).
Qed.
Print Assumptions C08_reduce_all_axes_eq_none.

(* accumulate along any valid axis, written with either sign (the view wraps a negative axis with
   index::wrap_axis): source shape, element idx = running left fold of a[.., 0..idx_axis, ..]
   (seeded by the first element) *)
Theorem C08_accumulate : forall (E R : Type) (cast : E -> R) (f : R -> E -> R) (a : list Z -> E) s axis idx,
  - zlen s <= axis < zlen s -> inb idx s ->
  accumulate_at cast f a (zlen s) axis idx = accumulate_spec cast f a (zlen s) axis idx.
Proof. exact accumulate_at_spec. Qed.
Print Assumptions C08_accumulate.

(* sum / prod / amax / amin are the instances f = +, *, max, min *)
Theorem C08_sum_prod_amax_amin : forall (a : list Z -> Z) s ax keepdims init idx,
  pos s -> axes_ok (zlen s) ax = true -> inb idx (reduce_shape_spec s ax keepdims) ->
  reduce_at (fun x => x) Z.add a s ax keepdims init idx = reduce_spec (fun x => x) Z.add a s ax keepdims init idx
  /\ reduce_at (fun x => x) Z.mul a s ax keepdims init idx = reduce_spec (fun x => x) Z.mul a s ax keepdims init idx
  /\ reduce_at (fun x => x) Z.max a s ax keepdims init idx = reduce_spec (fun x => x) Z.max a s ax keepdims init idx
  /\ reduce_at (fun x => x) Z.min a s ax keepdims init idx = reduce_spec (fun x => x) Z.min a s ax keepdims init idx.
Proof.
  intros a s ax kd init idx Hp Hok Hi. pose proof (inb_length _ _ Hi) as Hl.
  repeat split; apply reduce_at_spec; assumption.
Qed.
Print Assumptions C08_sum_prod_amax_amin.

(* the accumulator lives in the RESULT type (requested dtype, else the source element type): with
   integer-valued data, result type r and a ring operation (+, *, -), converting into r after every
   step — what reducer_t<result_type> does — equals NumPy's answer: the exact fold over Z of the
   designated elements (initial included) converted into r once; for reduce and for accumulate *)
Theorem C08_fold_in_result_type : forall requested e op (a : list Z -> Z) s ax keepdims init idx axis jdx,
  reduce_dtype requested e <> Bool -> ring_op op -> pos s ->
  (axes_ok (zlen s) ax = true -> inb idx (reduce_shape_spec s ax keepdims) ->
     typed_reduce_at requested e op a s ax keepdims init idx = typed_reduce_spec requested e op a s ax keepdims init idx)
  /\ (- zlen s <= axis < zlen s -> inb jdx s ->
     typed_accumulate_at requested e op a (zlen s) axis jdx = typed_accumulate_spec requested e op a (zlen s) axis jdx)
  /\ ring_op Z.add /\ ring_op Z.mul /\ ring_op Z.sub.
Proof.
  intros requested e op a s ax kd init idx axis jdx Hb Hop Hp.
  split; [intros Hok Hi; exact (typed_reduce_at_spec requested e op a s ax kd init idx Hb Hop Hp Hok (inb_length _ _ Hi))|].
  split; [intros Ha Hj; exact (typed_accumulate_at_spec requested e op a s axis jdx Hb Hop Ha Hj)|].
  split; [exact ring_add | split; [exact ring_mul | exact ring_sub]].
Qed.
Print Assumptions C08_fold_in_result_type.

(* mean / var: the divisor computed by index::mean_divisor on the normalised axis equals the number
   of elements each fold visits *)
Theorem C08_mean_divisor_counts_folded_elements : forall (E : Type) (a : list Z -> E) s ax nax i,
  pos s -> axes_ok (zlen s) ax = true -> normalize ax (zlen s) = Some nax ->
  mean_divisor s nax = Z.of_nat (length (spec_elems a (red_mask (length s) ax) s i)).
Proof.
  intros E a s ax nax i Hp Hok Hn.
  rewrite (spec_elems_count a _ s i Hp). exact (mean_divisor_spec s ax nax Hok Hn).
Qed.
Print Assumptions C08_mean_divisor_counts_folded_elements.

(* ---------- non-vacuity ---------- *)
(* subtract over axes (-1, 0) of a (2,3,2) array with initial 100, keepdims: order is visible *)
Definition iota (s : list Z) (i : list Z) : Z := horner 0 i s.
Example C08_nonvacuous_reduce :
  axes_ok 3 (AxList [-1; 0]) = true /\ inb [0; 2; 0] (reduce_shape_spec [2; 3; 2] (AxList [-1; 0]) true)
  /\ remove_dims [2; 3; 2] (AxList [-1; 0]) true = Some [1; 3; 1]
  /\ reduce_at (fun x => x) Z.sub (iota [2; 3; 2]) [2; 3; 2] (AxList [-1; 0]) true (Some 100) [0; 2; 0] = Some (100 - 4 - 5 - 10 - 11)
  /\ reduce_at (fun x => x) Z.sub (iota [2; 3; 2]) [2; 3; 2] (AxInt 1) false None [1; 1] = Some (7 - 9 - 11).
Proof. repeat split; try reflexivity. repeat constructor; lia. Qed.
Example C08_nonvacuous_accumulate :
  accumulate_at (fun x => x) Z.sub (iota [2; 3]) 2 1 [1; 2] = Some (3 - 4 - 5)
  /\ accumulate_at (fun x => x) Z.sub (iota [2; 3]) 2 (-1) [1; 2] = Some (3 - 4 - 5)
  /\ accumulate_spec (fun x => x) Z.sub (iota [2; 3]) 2 (-1) [1; 2] = Some (3 - 4 - 5)
  /\ accumulate_at (fun x => x) Z.sub (iota [2; 3]) 2 (-2) [1; 2] = Some (2 - 5).
Proof. repeat split; reflexivity. Qed.
(* uint8 [200,100,50]: cumsum in int32 is [200,300,350]; without dtype the accumulator is uint8: [200,44,94] *)
Example C08_nonvacuous_typed :
  map (fun j => typed_accumulate_at (Some I32) U8 Z.add (fun i => nth (Z.to_nat (hd 0 i)) [200; 100; 50] 0) 1 0 [j]) [0; 1; 2]
    = [Some 200; Some 300; Some 350]
  /\ map (fun j => typed_accumulate_at None U8 Z.add (fun i => nth (Z.to_nat (hd 0 i)) [200; 100; 50] 0) 1 0 [j]) [0; 1; 2]
    = [Some 200; Some 44; Some 94]
  /\ typed_reduce_at (Some I8) I32 Z.add (fun i => nth (Z.to_nat (hd 0 i)) [100; 100; 100] 0) [3] AxNone false None [] = Some 44
  /\ reduce_dtype (Some I32) U8 <> Bool.
Proof. repeat split; try reflexivity. discriminate. Qed.
Example C08_nonvacuous_all_axes :
  axes_ok 2 (AxList [1; -2]) = true /\ red_mask 2 (AxList [1; -2]) = red_mask 2 AxNone
  /\ mean_divisor [2; 3] (AxList [1; 0]) = 6.
Proof. repeat split; reflexivity. Qed.
