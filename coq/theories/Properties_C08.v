(* Properties_C08.v — C08: reductions and accumulations fold exactly the addressed elements, in order.
   Statements only.  Every statement holds for EVERY rank, all positive extents, EVERY binary
   operation [f] on EVERY element type [A] (no commutativity / associativity is assumed anywhere,
   so the ORDER of the fold is part of each equation).
   Model  = Reduce.remove_dims / reduce_at / accumulate_at  (the C++ loops, branch for branch)
   Spec   = Reduce.reduce_shape_spec / reduce_spec / accumulate_spec (NumPy: mask of reduced axes,
            left fold over [a (merge mask i r) | r <- lex_enum (reduced extents)]). *)
From Coq Require Import Permutation.
From NM Require Import Base Index IndexProofs Reduce ReduceProofs.
Local Open Scope Z_scope.

(* result shape: for an axis argument NumPy accepts (None, an axis in [-ndim,ndim), or a list of such
   axes without repetition after normalisation, in any order) remove_dims gives NumPy's shape:
   reduced axes removed, or kept with extent 1 under keepdims *)
Theorem C08_reduce_shape : forall s ax keepdims,
  axes_ok (zlen s) ax = true ->
  remove_dims s ax keepdims = Some (reduce_shape_spec s ax keepdims).
Proof. exact remove_dims_spec. Qed.
Print Assumptions C08_reduce_shape.

(* element: at every index of the result, the view returns the LEFT fold — seeded by [initial] or,
   without it, by the first element — of exactly the source elements whose non-reduced coordinates
   are those of the index, the reduced coordinates running in nested-loop (increasing) order;
   that list is never empty and every source index in it lies inside the source shape *)
Theorem C08_reduce_elem : forall (A : Type) (f : A -> A -> A) (a : list Z -> A) s ax keepdims init idx,
  pos s -> axes_ok (zlen s) ax = true -> inb idx (reduce_shape_spec s ax keepdims) ->
  let mask := red_mask (length s) ax in
  let i := if keepdims then drop_reduced mask idx else idx in
  reduce_at f a s ax keepdims init idx = reduce_spec f a s ax keepdims init idx
  /\ reduce_spec f a s ax keepdims init idx = fold_spec f (spec_elems a mask s i) init
  /\ spec_elems a mask s i <> []
  /\ (forall r, In r (lex_enum (reduced_extents mask s)) -> inb (merge mask i r) s).
Proof.
  intros A f a s ax kd init idx Hp Hok Hi mask i.
  split; [exact (reduce_at_spec A f a s ax kd init idx Hp Hok (inb_length _ _ Hi))|].
  split; [reflexivity|].
  split; [exact (spec_elems_nonempty A a mask s i Hp)|].
  intros r Hr. pose proof (red_mask_length (length s) ax) as Hl.
  apply (in_lex_enum _ (reduced_extents_pos mask s Hp)) in Hr.
  apply merge_inb; [exact Hl | | exact Hr].
  subst i. destruct kd; [apply drop_reduced_inb; [exact Hl | exact Hi] | exact Hi].
Qed.
Print Assumptions C08_reduce_elem.

(* the order and the signs in which the axes are written do not matter: two accepted axis arguments
   naming the same set of axes give the same shape and the same elements; in particular any
   permutation of the normalised axes *)
Theorem C08_axes_order_and_sign : forall (A : Type) (f : A -> A -> A) (a : list Z -> A) s ax ax' keepdims init idx,
  pos s -> axes_ok (zlen s) ax = true -> axes_ok (zlen s) ax' = true ->
  red_mask (length s) ax = red_mask (length s) ax' ->
  inb idx (reduce_shape_spec s ax keepdims) ->
  remove_dims s ax keepdims = remove_dims s ax' keepdims
  /\ reduce_at f a s ax keepdims init idx = reduce_at f a s ax' keepdims init idx.
Proof.
  intros A f a s ax ax' kd init idx Hp H1 H2 Hm Hi.
  exact (reduce_depends_on_mask A f a s ax ax' kd init idx Hp H1 H2 Hm (inb_length _ _ Hi)).
Qed.
Print Assumptions C08_axes_order_and_sign.

Theorem C08_axes_permutation_same_mask : forall n l l',
  Permutation (map (np_norm (Z.of_nat n)) l) (map (np_norm (Z.of_nat n)) l') ->
  red_mask n (AxList l) = red_mask n (AxList l').
Proof. exact red_mask_perm. Qed.
Print Assumptions C08_axes_permutation_same_mask.

(* reducing over all axes (a duplicate-free list of ndim axes) equals axis = None,
   which folds the whole array in row-major order *)
Theorem C08_reduce_all_axes_eq_none : forall (A : Type) (f : A -> A -> A) (a : list Z -> A) s l keepdims init idx,
  pos s -> axes_ok (zlen s) (AxList l) = true -> length l = length s ->
  inb idx (reduce_shape_spec s (AxList l) keepdims) ->
  remove_dims s (AxList l) keepdims = remove_dims s AxNone keepdims
  /\ reduce_at f a s (AxList l) keepdims init idx = reduce_at f a s AxNone keepdims init idx
  /\ reduce_at f a s AxNone keepdims init idx = fold_spec f (map a (lex_enum s)) init.
Proof.
  intros A f a s l kd init idx Hp Hok Hl Hi.
  pose proof (all_axes_mask (length s) l Hok Hl) as Hm.
  destruct (reduce_depends_on_mask A f a s (AxList l) AxNone kd init idx Hp Hok eq_refl Hm (inb_length _ _ Hi)) as [E1 E2].
  split; [exact E1|]. split; [exact E2|].
  rewrite (reduce_at_spec A f a s AxNone kd init idx Hp eq_refl).
  - unfold reduce_spec. cbn [red_mask]. now rewrite spec_elems_all.
  - unfold reduce_shape_spec in *. rewrite <- Hm. exact (inb_length _ _ Hi).
Qed.
Print Assumptions C08_reduce_all_axes_eq_none.

(* accumulate along any valid axis, written with either sign (the view wraps a negative axis with
   index::wrap_axis): source shape, element idx = running left fold of a[.., 0..idx_axis, ..]
   (seeded by the first element) *)
Theorem C08_accumulate : forall (A : Type) (f : A -> A -> A) (a : list Z -> A) s axis idx,
  - zlen s <= axis < zlen s -> inb idx s ->
  accumulate_at f a (zlen s) axis idx = accumulate_spec f a (zlen s) axis idx.
Proof. exact accumulate_at_spec. Qed.
Print Assumptions C08_accumulate.

(* sum / prod / amax / amin are the instances f = +, *, max, min *)
Theorem C08_sum_prod_amax_amin : forall (a : list Z -> Z) s ax keepdims init idx,
  pos s -> axes_ok (zlen s) ax = true -> inb idx (reduce_shape_spec s ax keepdims) ->
  reduce_at Z.add a s ax keepdims init idx = reduce_spec Z.add a s ax keepdims init idx
  /\ reduce_at Z.mul a s ax keepdims init idx = reduce_spec Z.mul a s ax keepdims init idx
  /\ reduce_at Z.max a s ax keepdims init idx = reduce_spec Z.max a s ax keepdims init idx
  /\ reduce_at Z.min a s ax keepdims init idx = reduce_spec Z.min a s ax keepdims init idx.
Proof.
  intros a s ax kd init idx Hp Hok Hi. pose proof (inb_length _ _ Hi) as Hl.
  repeat split; apply reduce_at_spec; assumption.
Qed.
Print Assumptions C08_sum_prod_amax_amin.

(* mean / var: the divisor computed by index::mean_divisor on the normalised axis equals the number
   of elements each fold visits *)
Theorem C08_mean_divisor_counts_folded_elements : forall (A : Type) (a : list Z -> A) s ax nax i,
  pos s -> axes_ok (zlen s) ax = true -> normalize ax (zlen s) = Some nax ->
  mean_divisor s nax = Z.of_nat (length (spec_elems a (red_mask (length s) ax) s i)).
Proof.
  intros A a s ax nax i Hp Hok Hn.
  rewrite (spec_elems_count a _ s i Hp). exact (mean_divisor_spec s ax nax Hok Hn).
Qed.
Print Assumptions C08_mean_divisor_counts_folded_elements.

(* ---------- non-vacuity ---------- *)
(* subtract over axes (-1, 0) of a (2,3,2) array with initial 100, keepdims: order is visible *)
Definition iota (s : list Z) (i : list Z) : Z := horner 0 i s.
Example C08_nonvacuous_reduce :
  axes_ok 3 (AxList [-1; 0]) = true /\ inb [0; 2; 0] (reduce_shape_spec [2; 3; 2] (AxList [-1; 0]) true)
  /\ remove_dims [2; 3; 2] (AxList [-1; 0]) true = Some [1; 3; 1]
  /\ reduce_at Z.sub (iota [2; 3; 2]) [2; 3; 2] (AxList [-1; 0]) true (Some 100) [0; 2; 0] = Some (100 - 4 - 5 - 10 - 11)
  /\ reduce_at Z.sub (iota [2; 3; 2]) [2; 3; 2] (AxInt 1) false None [1; 1] = Some (7 - 9 - 11).
Proof. repeat split; try reflexivity. repeat constructor; lia. Qed.
Example C08_nonvacuous_accumulate :
  accumulate_at Z.sub (iota [2; 3]) 2 1 [1; 2] = Some (3 - 4 - 5)
  /\ accumulate_at Z.sub (iota [2; 3]) 2 (-1) [1; 2] = Some (3 - 4 - 5)
  /\ accumulate_spec Z.sub (iota [2; 3]) 2 (-1) [1; 2] = Some (3 - 4 - 5)
  /\ accumulate_at Z.sub (iota [2; 3]) 2 (-2) [1; 2] = Some (2 - 5).
Proof. repeat split; reflexivity. Qed.
Example C08_nonvacuous_all_axes :
  axes_ok 2 (AxList [1; -2]) = true /\ red_mask 2 (AxList [1; -2]) = red_mask 2 AxNone
  /\ mean_divisor [2; 3] (AxList [1; 0]) = 6.
Proof. repeat split; reflexivity. Qed.
