(* Properties_C08.v — placeholder while the pipeline is brought up; replaced by the real statements *)
From NM Require Import Base Index Reduce.
Local Open Scope Z_scope.
Theorem C08_placeholder : True. Proof. exact I. Qed.
