(* Properties_C02.v — C02: element access through arrays and views never leaves the
   operands' storage.  Statements only: the in-bounds halves of the index-map theorems of
   C01 / C03 / C04 / C06, closure under composition, the evaluator's accesses, and the room
   of inferred result containers (C11).  Every statement is for EVERY dimension and extent. *)
From NM Require Import Base Index IndexProofs Broadcast BroadcastProofs Views ViewsProofs Select SelectProofs
                       Eval EvalProofs Kinds KindsProofs.
Local Open Scope Z_scope.

(* an in-bounds multi-index addresses a buffer position below the buffer length, for either layout *)
Theorem C02_offsets_inside_buffer : forall (A : Type) L s (buf : list A) i,
  Z.of_nat (length buf) = prod s -> inb i s ->
  0 <= layout_offset L s i < Z.of_nat (length buf) /\ exists v, ndarray_get L s buf i = Some v.
Proof.
  intros A L s buf i Hl Hi. rewrite Hl. split; [exact (layout_offset_bound L s i Hi) | exact (ndarray_get_defined L s buf i Hl Hi)].
Qed.
Print Assumptions C02_offsets_inside_buffer.

(* rearranging views: every source index produced for an index of the reported shape is inside the source *)
Theorem C02_rearranging_views_in_bounds : forall src i, pos src ->
  (forall d, inb (reshape_index src d i) src)
  /\ (forall axes, np_transpose_ok (length src) axes = true -> inb i (shape_transpose src axes) -> inb (transpose_index axes i) src)
  /\ (forall a1 a2, np_swapaxes_ok (length src) a1 a2 = true ->
        inb i (shape_transpose src (Some (swapaxes_to_transpose (zlen src) a1 a2))) -> inb (swapaxes_index a1 a2 src i) src)
  /\ (forall ax, inb i src -> inb (flip_index ax src i) src).
Proof.
  intros src i Hs. split; [intros d; exact (reshape_index_inb src d i Hs)|].
  split; [intros axes Hok Hi; exact (transpose_inb axes src i Hok Hi)|].
  split; [intros a1 a2 Hok Hi; exact (swapaxes_inb a1 a2 src i Hok Hs Hi)|].
  intros ax Hi. exact (flip_inb ax src i Hi).
Qed.
Print Assumptions C02_rearranging_views_in_bounds.

Theorem C02_tile_in_bounds : forall s r i, pos s -> inb i (shape_tile s r) -> inb (tile_index s i) s.
Proof. exact tile_inb. Qed.
Print Assumptions C02_tile_in_bounds.

Theorem C02_repeat_in_bounds_on_domain : forall s r a i d, pos s -> 1 <= r -> 0 <= a < zlen s ->
  shape_repeat_axis s r a = Val d -> inb i d -> inb (repeat_axis_index i r a) s.
Proof.
  intros s r a i d Hp Hr Ha Hd Hi. destruct (repeat_axis_shape_spec s r a Ha) as [H1 _].
  rewrite H1 in Hd. injection Hd as <-. exact (proj2 (repeat_axis_elem_spec s r a i Hp Hr Ha Hi)).
Qed.
Print Assumptions C02_repeat_in_bounds_on_domain.

(* roll: any shift sign and magnitude, any valid axis sign (after the fix: reduced modulo the extent) *)
Theorem C02_roll_in_bounds : forall s i shift a, pos s -> - zlen s <= a < zlen s -> inb i s ->
  inb (roll_axis_index s i shift a) s.
Proof. intros s i shift a Hp Ha Hi. exact (proj2 (proj2 (roll_axis_spec s i shift a Hp Ha Hi))). Qed.
Print Assumptions C02_roll_in_bounds.

(* pad: an output index either is a fill position or designates an in-bounds source index *)
Theorem C02_pad_in_bounds : forall s i w j, (length s <= length w)%nat -> length i = length s ->
  pad_index i s w = Some j -> inb j s.
Proof. intros s i w j Hw Hl Hj. exact (pad_inb s i w j Hj Hl Hw). Qed.
Print Assumptions C02_pad_in_bounds.

Theorem C02_take_in_bounds_on_domain : forall s ind a i, 0 <= a < zlen s ->
  Forall (fun x => 0 <= x < nth (Z.to_nat a) s 0) ind -> nth (Z.to_nat a) s 0 <= 2 ^ 64 ->
  inb i (shape_take_axis s ind a) -> inb (take_axis_index s ind i a) s.
Proof.
  intros s ind a i Ha HF Hw Hi. rewrite (proj1 (take_axis_shape_spec s ind a Ha)) in Hi.
  exact (proj2 (take_axis_elem_spec s ind a i Ha HF Hw Hi)).
Qed.
Print Assumptions C02_take_in_bounds_on_domain.

Theorem C02_resize_in_bounds : forall s d i, length s = length d -> pos s -> inb i d -> inb (resize_index i s d) s.
Proof. intros s d i Hl Hp Hi. exact (proj2 (resize_elem_spec s d i Hl Hp Hi)). Qed.
Print Assumptions C02_resize_in_bounds.

(* concatenate: every output index designates an in-bounds index of exactly one operand *)
Theorem C02_concatenate_in_bounds_on_domain : forall a b axis d i, 0 <= axis < zlen a ->
  np_concat_axis_shape a b axis = Some d -> inb i d ->
  match concat_axis_index a b i axis with OpLeft j => inb j a | OpRight j => inb j b | OpNeither => False end.
Proof. intros a b axis d i Ha H Hi. exact (proj2 (concat_axis_elem_spec a b axis d i Ha H Hi)). Qed.
Print Assumptions C02_concatenate_in_bounds_on_domain.

(* broadcast_to (every ufunc operand goes through it) *)
Theorem C02_broadcast_to_in_bounds : forall a b d free i, pos a ->
  shape_broadcast_to a b = Some (d, free) -> inb i d -> inb (broadcast_to_idx i a d (origin_axes free)) a.
Proof.
  intros a b d free i Hp H Hi. destruct (broadcast_to_elem_spec a b d free i Hp H Hi) as (_ & E & Hin).
  rewrite E. exact Hin.
Qed.
Print Assumptions C02_broadcast_to_in_bounds.

(* in-bounds is closed under view composition, to any depth: a chain of index maps each of
   which sends indices of its reported shape into its source's shape *)
Fixpoint chain_ok (maps : list ((list Z -> list Z) * list Z)) (dst : list Z) : Prop :=
  match maps with
  | [] => True
  | (g, src) :: rest => (forall i, inb i dst -> inb (g i) src) /\ chain_ok rest src
  end.
Definition chain_apply (maps : list ((list Z -> list Z) * list Z)) (i : list Z) : list Z :=
  fold_left (fun j m => fst m j) maps i.
Definition chain_src (maps : list ((list Z -> list Z) * list Z)) (dst : list Z) : list Z :=
  fold_left (fun _ m => snd m) maps dst.
Theorem C02_composition_in_bounds : forall maps dst i, chain_ok maps dst -> inb i dst ->
  inb (chain_apply maps i) (chain_src maps dst).
Proof.
  induction maps as [|[g src] rest IH]; intros dst i Hc Hi; [exact Hi|].
  destruct Hc as [Hg Hr]. unfold chain_apply, chain_src. cbn [fold_left fst snd].
  exact (IH src (g i) Hr (Hg i Hi)).
Qed.
Print Assumptions C02_composition_in_bounds.

(* the evaluator: every step reads the view at an index of its shape and writes the output at a
   position below the buffer length; the buffer is never resized by the loop *)
Theorem C02_eval_accesses_inside : forall (A : Type) (v : view A) L (buf : list A) k,
  pos (vshape v) -> Z.of_nat (length buf) = prod (vshape v) ->
  inb (ndindex (vshape v) k) (vshape v)
  /\ 0 <= layout_offset L (vshape v) (ndindex (vshape v) k) < Z.of_nat (length buf)
  /\ length (eval_loop v L (vshape v) buf) = length buf.
Proof.
  intros A v L buf k Hp Hl. pose proof (unrav_inb k (vshape v) Hp) as Hi.
  split; [exact Hi|]. split; [rewrite Hl; exact (layout_offset_bound L _ _ Hi) | exact (eval_loop_length v L _ buf eq_refl)].
Qed.
Print Assumptions C02_eval_accesses_inside.

(* bounded-capacity result containers chosen from sound static knowledge are never asked to hold more
   than their capacity (C11) *)
Theorem C02_bounded_results_have_room : forall sk bk s0 s os,
  admits sk bk s0 s -> pos s -> valid_chain os s = true ->
  fits (resolve (know_chain os (know_of_kind sk bk s0))) (shape_chain os s) = true.
Proof. exact evaluated_composition_has_room. Qed.
Print Assumptions C02_bounded_results_have_room.

(* after the fix: commit "negative axis in repeat / take / compress / concatenate": every valid axis keeps the index inside *)
Theorem C02_repeat_in_bounds : forall s r a i d, pos s -> 1 <= r -> - zlen s <= a < zlen s ->
  shape_repeat_axis s r a = Val d -> inb i d -> inb (repeat_axis_index i r a) s.
Proof.
  intros s r a i d Hp Hr Ha Hd Hi. destruct (repeat_axis_full s r a i Hp Hr Ha) as [k [_ [H1 [_ H]]]].
  rewrite H1 in Hd. injection Hd as <-. exact (proj2 (H Hi)).
Qed.
Print Assumptions C02_repeat_in_bounds.

Example C02_nonvacuous :
  inb [1;5] (shape_tile [2;3] [1;2]) /\ tile_index [2;3] [1;5] = [1;2]
  /\ roll_axis_index [2;3] [1;0] 7 1 = [1;2] /\ roll_axis_index [2;3] [1;0] (-7) (-1) = [1;1].
Proof. split; [apply inbb_inb; reflexivity|]. repeat split. Qed.
