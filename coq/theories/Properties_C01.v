(* Properties_C01.v — C01: multi-index <-> flat offset addressing is an
   order-preserving bijection.  Statements only; every proof is [exact lemma].
   All statements hold for EVERY dimension and EVERY positive extents. *)
From NM Require Import Base Index IndexProofs.
Local Open Scope Z_scope.

(* strides are the products of the trailing extents *)
Theorem C01_strides_are_suffix_products : forall s,
  compute_strides s = strides s /\ product s = prod s.
Proof. intros s. split; [exact (compute_strides_eq s) | exact (product_eq_prod s)]. Qed.
Print Assumptions C01_strides_are_suffix_products.

(* every multi-index produced lies inside the shape (for any flat position) *)
Theorem C01_indices_in_bounds : forall s k, pos s -> inb (compute_indices k s) s.
Proof. intros s k H. exact (unrav_inb k s H). Qed.
Print Assumptions C01_indices_in_bounds.

(* flat -> multi -> flat is the identity *)
Theorem C01_offset_of_indices : forall s k, pos s -> 0 <= k < prod s ->
  compute_offset (compute_indices k s) (compute_strides s) = k.
Proof. exact off_unrav. Qed.
Print Assumptions C01_offset_of_indices.

(* multi -> flat -> multi is the identity, and the flat position is in range *)
Theorem C01_indices_of_offset : forall s i, pos s -> inb i s ->
  compute_indices (compute_offset i (compute_strides s)) s = i
  /\ 0 <= compute_offset i (compute_strides s) < prod s.
Proof.
  intros s i Hp Hi. split; [exact (unrav_off i s Hp Hi)|].
  rewrite compute_offset_eq, compute_strides_eq. exact (off_bound i s Hi).
Qed.
Print Assumptions C01_indices_of_offset.

(* enumerating all positions visits every multi-index exactly once, in
   row-major (nested loop) order *)
Theorem C01_enumeration_is_row_major : forall s, pos s ->
  map (ndindex s) (zrange (ndindex_size s)) = lex_enum s
  /\ NoDup (lex_enum s)
  /\ (forall i, In i (lex_enum s) <-> inb i s).
Proof.
  intros s Hp. split; [exact (ndindex_is_lex_enum s Hp)|].
  split; [exact (NoDup_lex_enum s) | exact (in_lex_enum s Hp)].
Qed.
Print Assumptions C01_enumeration_is_row_major.

(* the map is order preserving: lexicographic order of multi-indices = order of offsets *)
Theorem C01_order_preserving : forall s a b, inb a s -> inb b s ->
  (lex_lt a b <-> compute_offset a (compute_strides s) < compute_offset b (compute_strides s)).
Proof.
  intros s a b Ha Hb. rewrite !compute_offset_eq, compute_strides_eq.
  exact (off_strict_mono a s Ha b Hb).
Qed.
Print Assumptions C01_order_preserving.

(* both buffer layouts: the offset of an in-bounds index is inside the buffer,
   distinct indices address distinct cells, and reading after writing returns
   the written value at that index and the old value everywhere else *)
Theorem C01_layout_independent : forall (A : Type) L s (buf : list A) i j x,
  Z.of_nat (length buf) = prod s -> inb i s -> inb j s ->
  0 <= layout_offset L s i < prod s
  /\ (layout_offset L s i = layout_offset L s j -> i = j)
  /\ (exists v, ndarray_get L s buf i = Some v)
  /\ ndarray_get L s (ndarray_set L s buf i x) j =
       (if list_eq_dec Z.eq_dec j i then Some x else ndarray_get L s buf j).
Proof.
  intros A L s buf i j x Hl Hi Hj.
  split; [exact (layout_offset_bound L s i Hi)|].
  split; [exact (layout_offset_inj L s i j Hi Hj)|].
  split; [exact (ndarray_get_defined L s buf i Hl Hi)|].
  exact (ndarray_get_set L s buf i j x Hl Hi Hj).
Qed.
Print Assumptions C01_layout_independent.

(* machine arithmetic: as long as the element count fits the index type the
   w-bit computations coincide with the ideal ones (covers extents near 2^31 /
   2^40 with w = 64, and says exactly where 32-bit index types stop) *)
Theorem C01_no_wrap : forall w s i, pos s -> prod s < 2 ^ w -> inb i s ->
  product_w w s = prod s
  /\ compute_strides_w w s = compute_strides s
  /\ compute_offset_w w i (compute_strides s) = compute_offset i (compute_strides s).
Proof.
  intros w s i Hp Hb Hi.
  split; [exact (product_w_no_wrap w s Hp Hb)|].
  split; [exact (compute_strides_w_no_wrap w s Hp Hb)|].
  exact (compute_offset_w_no_wrap w i s Hp Hi Hb).
Qed.
Print Assumptions C01_no_wrap.

(* ---------- non-vacuity: the hypotheses are met by non-trivial inputs ---------- *)
Example C01_nonvacuous_1 : pos [2;3;4] /\ inb [1;2;3] [2;3;4] /\ prod [2;3;4] = 24
  /\ compute_indices 23 [2;3;4] = [1;2;3] /\ compute_offset [1;2;3] (compute_strides [2;3;4]) = 23.
Proof. repeat split; try (repeat constructor; lia). Qed.
Example C01_nonvacuous_2 : pos [65536;65536;256] /\ prod [65536;65536;256] < 2 ^ 64
  /\ inb [65535;65535;255] [65536;65536;256]
  /\ compute_offset_w 64 [65535;65535;255] (compute_strides [65536;65536;256]) = 2 ^ 40 - 1.
Proof. repeat split; try (repeat constructor; lia). Qed.
Example C01_wrap_matters : product_w 32 [65536;65536] = 0.
Proof. reflexivity. Qed.
