(* KindsProofs.v — soundness of the static knowledge (abstract interpretation):
   every rule of Kinds.know_vop is sound for EVERY run-time shape the operand type
   admits, closed under composition; the default resolver always has room. *)
From Coq Require Import Permutation.
From NM Require Import Base Kinds.
Local Open Scope Z_scope.

Lemma list_eqbZ_eq a : forall b, list_eqbZ a b = true <-> a = b.
Proof.
  unfold list_eqbZ. induction a as [|x a IH]; intros [|y b]; simpl; split; intros H; try reflexivity; try discriminate.
  - apply andb_prop in H as [H1 H2]. simpl in H2. apply andb_prop in H2 as [H2 H3].
    apply Z.eqb_eq in H2. subst y. f_equal. apply IH. now rewrite H1, H3.
  - injection H as -> ->. pose proof (proj2 (IH b) eq_refl) as H. apply andb_prop in H as [H1 H2].
    simpl. now rewrite H1, Z.eqb_refl, H2.
Qed.

Lemma gammab_spec K s : gammab K s = true <-> gamma K s.
Proof.
  unfold gammab, gamma, opt_ok. split.
  - intros H. repeat (apply andb_prop in H as [H ?]).
    repeat split; intros x E; rewrite E in *;
      try (apply list_eqbZ_eq; assumption); try lia; assumption.
  - intros (H1 & H2 & H3 & H4 & H5 & H6).
    assert (A1 : opt_ok (fshape K) (fun t => list_eqbZ s t) = true)
      by (destruct (fshape K); cbn; [apply list_eqbZ_eq; auto | reflexivity]).
    assert (A2 : opt_ok (fdim K) (fun d => zlen s =? d) = true)
      by (destruct (fdim K); cbn; [specialize (H2 _ eq_refl); lia | reflexivity]).
    assert (A3 : opt_ok (fsize K) (fun n => prod s =? n) = true)
      by (destruct (fsize K); cbn; [specialize (H3 _ eq_refl); lia | reflexivity]).
    assert (A4 : opt_ok (bdim K) (fun d => zlen s <=? d) = true)
      by (destruct (bdim K); cbn; [specialize (H4 _ eq_refl); lia | reflexivity]).
    assert (A5 : opt_ok (bsize K) (fun n => prod s <=? n) = true)
      by (destruct (bsize K); cbn; [specialize (H5 _ eq_refl); lia | reflexivity]).
    assert (A6 : opt_ok (clip K) (fun m => le_all s m) = true)
      by (destruct (clip K); cbn; [auto | reflexivity]).
    unfold opt_ok in *. rewrite A1, A2, A3, A4, A5, A6. reflexivity.
Qed.

(* ---------- list facts ---------- *)
Lemma zlen_cons {A} (x : A) l : zlen (x :: l) = zlen l + 1.
Proof. unfold zlen. simpl length. lia. Qed.
Lemma zlen_nonneg {A} (l : list A) : 0 <= zlen l.
Proof. unfold zlen. lia. Qed.
Lemma zlen_rev {A} (l : list A) : zlen (rev l) = zlen l.
Proof. unfold zlen. now rewrite rev_length. Qed.

Lemma prod_rev' s : prod (rev s) = prod s.
Proof. induction s; simpl; [reflexivity|]. rewrite prod_app. simpl. rewrite IHs. ring. Qed.

Lemma prod_perm a b : Permutation a b -> prod a = prod b.
Proof. induction 1; simpl; try congruence; ring. Qed.

Lemma is_perm_Permutation p n : is_perm p n = true -> Permutation (seq 0 n) p.
Proof.
  unfold is_perm. intros H. apply andb_prop in H as [Hl Hc]. apply Nat.eqb_eq in Hl.
  apply NoDup_Permutation_bis; [apply seq_NoDup | rewrite seq_length; lia |].
  intros k Hk. rewrite forallb_forall in Hc. specialize (Hc k Hk).
  apply existsb_exists in Hc as [x [Hx E]]. apply Nat.eqb_eq in E. now subst.
Qed.

Lemma map_nth_seq (s : list Z) : map (fun k => nth k s 0) (seq 0 (length s)) = s.
Proof.
  induction s as [|x s IH]; [reflexivity|]. cbn [length seq map nth]. f_equal.
  rewrite <- seq_shift, map_map. exact IH.
Qed.

Lemma permute_facts p s : is_perm p (length s) = true ->
  length (permute p s) = length s /\ prod (permute p s) = prod s.
Proof.
  intros H. pose proof (is_perm_Permutation _ _ H) as P. unfold permute. split.
  - rewrite map_length. apply Permutation_length in P. rewrite seq_length in P. lia.
  - rewrite <- (prod_perm _ _ (Permutation_map (fun k => nth k s 0) P)). now rewrite map_nth_seq.
Qed.

Lemma remove_nth_facts k : forall s, pos s -> (k < length s)%nat ->
  zlen (remove_nth k s) = zlen s - 1 /\ 1 <= prod (remove_nth k s) <= prod s /\ pos (remove_nth k s).
Proof.
  induction k as [|k IH]; intros [|x s] Hp Hk; simpl in Hk; try lia; inversion Hp; subst.
  - cbn [remove_nth]. rewrite zlen_cons. pose proof (prod_pos s H2). simpl. repeat split; try lia; [nia | assumption].
  - cbn [remove_nth]. destruct (IH s H2 ltac:(lia)) as (L & P & Q). rewrite !zlen_cons. simpl.
    repeat split; try lia; try nia. constructor; assumption.
Qed.

Lemma insert_nth_facts k : forall s, pos s -> (k <= length s)%nat ->
  zlen (insert_nth k 1 s) = zlen s + 1 /\ prod (insert_nth k 1 s) = prod s /\ pos (insert_nth k 1 s).
Proof.
  induction k as [|k IH]; intros s Hp Hk.
  - cbn [insert_nth]. rewrite zlen_cons. cbn [prod]. repeat split; try lia. constructor; [lia | assumption].
  - destruct s as [|x s]; simpl in Hk; [lia|]. inversion Hp; subst. cbn [insert_nth].
    destruct (IH s H2 ltac:(lia)) as (L & P & Q). rewrite !zlen_cons. simpl. rewrite P.
    repeat split; try lia. constructor; assumption.
Qed.

Lemma scale_nth_facts k r : forall s, pos s -> 1 <= r -> (k < length s)%nat ->
  zlen (scale_nth k r s) = zlen s /\ prod (scale_nth k r s) = r * prod s /\ pos (scale_nth k r s).
Proof.
  induction k as [|k IH]; intros [|x s] Hp Hr Hk; simpl in Hk; try lia; inversion Hp; subst; cbn [scale_nth].
  - rewrite !zlen_cons. simpl. repeat split; try lia; try ring. constructor; [nia | assumption].
  - destruct (IH s H2 Hr ltac:(lia)) as (L & P & Q). rewrite !zlen_cons. simpl. rewrite P.
    repeat split; try lia; try ring. constructor; assumption.
Qed.

Lemma zip_with_length f a b : length a = length b -> length (zip_with f a b) = length a.
Proof. intros H. unfold zip_with. rewrite map_length, combine_length. lia. Qed.

Lemma zip_mul_pos a : forall b, length a = length b -> pos a -> pos b -> pos (zip_with Z.mul a b).
Proof.
  induction a as [|x a IH]; intros [|y b] Hl Ha Hb; simpl in *; try discriminate; [constructor|].
  inversion Ha; inversion Hb; subst. constructor; [simpl; nia | apply IH; auto].
Qed.
Lemma zip_add_pos a : forall b, length a = length b -> pos a -> Forall (fun x => 0 <= x) b -> pos (zip_with Z.add a b).
Proof.
  induction a as [|x a IH]; intros [|y b] Hl Ha Hb; simpl in *; try discriminate; [constructor|].
  inversion Ha; inversion Hb; subst. constructor; [simpl; lia | apply IH; auto].
Qed.
Lemma forallb_nonneg l : forallb (fun x => 0 <=? x) l = true -> Forall (fun x => 0 <= x) l.
Proof. rewrite forallb_forall, Forall_forall. intros H x Hx. specialize (H x Hx). lia. Qed.

Lemma zlen_eq_length {A B} (a : list A) (b : list B) : length a = length b -> zlen a = zlen b.
Proof. unfold zlen. lia. Qed.

(* ---------- every rule is sound, for every admitted run-time shape ---------- *)
Lemma sound_vop o K s : gamma K s -> pos s -> valid_vop o s = true ->
  gamma (know_vop o K) (shape_vop o s) /\ pos (shape_vop o s).
Proof.
  intros (G1 & G2 & G3 & G4 & G5 & G6) Hp Hv.
  destruct o as [ | p | t | t | k | k | | | | k r | reps | b a | k ]; cbn [know_vop shape_vop valid_vop] in *.
  - (* transpose default *)
    split; [|apply Forall_rev; exact Hp].
    unfold gamma; cbn. rewrite zlen_rev, prod_rev'.
    repeat split; auto; try discriminate.
    intros t E. destruct (fshape K) as [t0|]; [|discriminate]. injection E as <-. now rewrite (G1 _ eq_refl).
  - (* transpose with compile-time axes *)
    destruct (permute_facts p s Hv) as [PL PP].
    split.
    + unfold gamma; cbn. rewrite PP, (zlen_eq_length _ _ PL).
      repeat split; auto; try discriminate.
      intros t E. destruct (fshape K) as [t0|]; [|discriminate]. injection E as <-. now rewrite (G1 _ eq_refl).
    + unfold permute. unfold pos. rewrite Forall_forall. intros x Hx. apply in_map_iff in Hx as [j [<- Hj]].
      pose proof (Permutation_in _ (Permutation_sym (is_perm_Permutation _ _ Hv)) Hj) as Hs. apply in_seq in Hs.
      unfold pos in Hp. rewrite Forall_forall in Hp. apply Hp. apply nth_In. lia.
  - (* reshape, compile-time target *)
    apply andb_prop in Hv as [Hv1 Hv2]. apply posb_pos in Hv1. split; [|exact Hv1].
    unfold gamma; cbn. repeat split; intros x E; try discriminate; injection E as <-; try reflexivity; lia.
  - (* reshape, run-time target of fixed length *)
    apply andb_prop in Hv as [Hv1 Hv2]. apply posb_pos in Hv1. apply Z.eqb_eq in Hv2. split; [|exact Hv1].
    unfold gamma; cbn. rewrite Hv2. repeat split; auto; intros x E; try discriminate; injection E as <-; lia.
  - (* sum over a run-time axis *)
    apply Nat.ltb_lt in Hv. destruct (remove_nth_facts k s Hp Hv) as (L & P & Q). split; [|exact Q].
    unfold gamma; cbn. rewrite L. repeat split; try discriminate.
    + intros d E. destruct (fdim K) as [d0|]; [|discriminate]. injection E as <-. rewrite (G2 _ eq_refl). reflexivity.
    + intros d E. destruct (bdim K) as [d0|]; [|discriminate]. injection E as <-. specialize (G4 _ eq_refl). lia.
    + intros n E. specialize (G5 _ E). lia.
  - (* expand_dims *)
    apply Nat.leb_le in Hv. destruct (insert_nth_facts k s Hp Hv) as (L & P & Q). split; [|exact Q].
    unfold gamma; cbn. rewrite L, P. repeat split; auto; try discriminate.
    + intros d E. destruct (fdim K) as [d0|]; [|discriminate]. injection E as <-. rewrite (G2 _ eq_refl). reflexivity.
    + intros d E. destruct (bdim K) as [d0|]; [|discriminate]. injection E as <-. specialize (G4 _ eq_refl). lia.
  - (* flip *) split; [|exact Hp]. unfold gamma; cbn. repeat split; auto; discriminate.
  - (* cumsum *) split; [|exact Hp]. unfold gamma; cbn. repeat split; auto; discriminate.
  - (* same-shape ufunc *) split; [|exact Hp]. unfold gamma; cbn. repeat split; auto; discriminate.
  - (* repeat *)
    apply andb_prop in Hv as [Hk Hr]. apply Nat.ltb_lt in Hk.
    destruct (scale_nth_facts k r s Hp ltac:(lia) Hk) as (L & P & Q). split; [|exact Q].
    unfold gamma; cbn. rewrite L. repeat split; auto; discriminate.
  - (* tile *)
    apply andb_prop in Hv as [Hl Hr]. apply Nat.eqb_eq in Hl. apply posb_pos in Hr.
    split; [|apply zip_mul_pos; auto].
    unfold gamma; cbn. rewrite (zlen_eq_length _ s (zip_with_length _ _ _ (eq_sym Hl))).
    repeat split; auto; discriminate.
  - (* pad *)
    repeat (apply andb_prop in Hv as [Hv ?]). apply Nat.eqb_eq in Hv.
    match goal with H : Nat.eqb (length a) _ = true |- _ => apply Nat.eqb_eq in H; rename H into Ha end.
    assert (L1 : length (zip_with Z.add s b) = length s) by (apply zip_with_length; lia).
    split.
    + unfold gamma; cbn. rewrite (zlen_eq_length _ s) by (rewrite zip_with_length; lia).
      repeat split; auto; discriminate.
    + apply zip_add_pos; [lia | apply zip_add_pos; [lia | exact Hp | now apply forallb_nonneg] | now apply forallb_nonneg].
  - (* concatenate with itself *)
    apply Nat.ltb_lt in Hv. destruct (scale_nth_facts k 2 s Hp ltac:(lia) Hv) as (L & P & Q). split; [|exact Q].
    unfold gamma; cbn. rewrite L, P. repeat split; auto; try discriminate.
    + intros n E. destruct (fsize K) as [n0|]; [|discriminate]. injection E as <-. rewrite (G3 _ eq_refl). ring.
    + intros n E. destruct (bsize K) as [n0|]; [|discriminate]. injection E as <-. specialize (G5 _ eq_refl). lia.
Qed.

(* closed under composition: any chain of views *)
Fixpoint shape_chain (os : list vop) (s : list Z) : list Z :=
  match os with [] => s | o :: t => shape_chain t (shape_vop o s) end.
Fixpoint know_chain (os : list vop) (K : know) : know :=
  match os with [] => K | o :: t => know_chain t (know_vop o K) end.
Fixpoint valid_chain (os : list vop) (s : list Z) : bool :=
  match os with [] => true | o :: t => valid_vop o s && valid_chain t (shape_vop o s) end.

Lemma sound_chain os : forall K s, gamma K s -> pos s -> valid_chain os s = true ->
  gamma (know_chain os K) (shape_chain os s).
Proof.
  induction os as [|o os IH]; intros K s G Hp Hv; [exact G|].
  cbn [valid_chain] in Hv. apply andb_prop in Hv as [H1 H2].
  destruct (sound_vop o K s G Hp H1) as [G' Hp']. cbn [know_chain shape_chain]. now apply IH.
Qed.

(* ---------- the array kinds ---------- *)
Definition admits (sk : skind) (bk : bkind) (s0 s : list Z) : Prop :=
  (match sk with
   | SConst => s = s0
   | SFixed => zlen s = zlen s0
   | SHybrid => zlen s <= zlen s0
   | SDynamic => True
   | SClipped => le_all s s0 = true
   end)
  /\ (match bk with BFixed => prod s = prod s0 | BHybrid => prod s <= prod s0 | BDynamic => True end).

Lemma le_all_length s : forall m, le_all s m = true -> length s = length m.
Proof. induction s as [|x s IH]; intros [|y m] H; simpl in *; try discriminate; [reflexivity|].
  apply andb_prop in H as [_ H]. f_equal. now apply IH. Qed.

Lemma kind_sound sk bk s0 s : admits sk bk s0 s -> gamma (know_of_kind sk bk s0) s.
Proof.
  intros [Hs Hb]. destruct sk, bk; unfold gamma; cbn; repeat split; intros x E; try discriminate;
    try (injection E as <-); subst; auto; try lia;
    try (rewrite (zlen_eq_length s s0 (le_all_length _ _ Hs)); reflexivity);
    try (rewrite (zlen_eq_length s s0 (le_all_length _ _ Hs)); lia).
Qed.

(* ---------- the default resolver always has room ---------- *)
Lemma le_all_prod s : forall m, pos s -> le_all s m = true -> prod s <= prod m.
Proof.
  induction s as [|x s IH]; intros [|y m] Hp H; cbn [le_all prod] in *; try discriminate; try lia.
  apply andb_prop in H as [H1 H2]. inversion Hp; subst. specialize (IH m H4 H2).
  pose proof (prod_pos s H4). nia.
Qed.

Lemma resolver_has_room K s : gamma K s -> pos s -> fits (resolve K) s = true.
Proof.
  intros (G1 & G2 & G3 & G4 & G5 & G6) Hp. unfold fits, resolve. cbn [fst snd].
  apply andb_true_intro. split.
  - destruct (fshape K) as [t|]; [apply list_eqbZ_eq; now apply G1|].
    destruct (clip K) as [m|]; [now apply G6|].
    destruct (fdim K) as [d|]; [specialize (G2 _ eq_refl); lia|].
    destruct (bdim K) as [d|]; [specialize (G4 _ eq_refl); lia | reflexivity].
  - destruct (fsize K) as [n|]; [specialize (G3 _ eq_refl); lia|].
    destruct (clip K) as [m|]; [pose proof (le_all_prod s m Hp (G6 _ eq_refl)); lia|].
    destruct (bsize K) as [n|]; [specialize (G5 _ eq_refl); lia | reflexivity].
Qed.

Lemma gamma_unknown s : gamma unknown s.
Proof. unfold gamma, unknown; cbn. repeat split; intros x E; discriminate E. Qed.

Lemma pos_chain os : forall s, pos s -> valid_chain os s = true -> pos (shape_chain os s).
Proof.
  induction os as [|o os IH]; intros s Hp Hv; [exact Hp|].
  cbn [valid_chain] in Hv. apply andb_prop in Hv as [H1 H2]. cbn [shape_chain].
  apply IH; [|exact H2]. exact (proj2 (sound_vop o unknown s (gamma_unknown s) Hp H1)).
Qed.

Lemma evaluated_composition_has_room sk bk s0 s os :
  admits sk bk s0 s -> pos s -> valid_chain os s = true ->
  fits (resolve (know_chain os (know_of_kind sk bk s0))) (shape_chain os s) = true.
Proof.
  intros Ha Hp Hv. apply resolver_has_room; [|now apply pos_chain].
  exact (sound_chain os _ s (kind_sound sk bk s0 s Ha) Hp Hv).
Qed.

(* ---------- broadcasting one axis against a clipped extent ---------- *)
Lemma abs_ok_sound ea eb a b r :
  gamma_ext ea a -> gamma_ext eb b -> bc a b = Some r -> gamma_ext (abs_ok ea eb) r.
Proof.
  unfold bc. intros Ha Hb H.
  destruct ((a =? b) || (a =? 1) || (b =? 1)); [|discriminate]. injection H as <-.
  destruct ea, eb; cbn in *; lia.
Qed.

Lemma abs_lib_refuted :
  exists a b r, gamma_ext Dyn a /\ gamma_ext (Cl 2) b /\ bc a b = Some r /\ ~ gamma_ext (abs_lib Dyn (Cl 2)) r.
Proof. exists 5, 1, 5. split; [cbn; lia|]. split; [cbn; lia|]. split; [reflexivity|]. cbn. lia. Qed.
