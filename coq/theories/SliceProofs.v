(* SliceProofs.v — C05 lemmas.
   Stage 1: the machine-typed model equals a wrap-free description (range_z / start_z)
            followed by ONE cast, for all int bounds and extents below 2^31.
   Stage 2: on slice_core the wrap-free description equals Python's slice.indices,
            for every extent (no box), with the casts and the binary32 step harmless below 2^24.
   Stage 3: several axes.
   Stdlib only, no axioms. *)
From Coq Require Import Znumtheory.
From NM Require Import Base Slice.
Local Open Scope Z_scope.

(* ---------- comparisons ---------- *)
Ltac zb1 :=
  match goal with
  | |- context [?a <? ?b] => destruct (Z.ltb_spec a b)
  | |- context [?a <=? ?b] => destruct (Z.leb_spec a b)
  | |- context [?a =? ?b] => destruct (Z.eqb_spec a b)
  end; try (exfalso; lia).
Ltac zb := repeat (zb1; cbn [andb orb negb]).
Ltac zbh H :=
  repeat (match type of H with
          | context [?a <? ?b] => destruct (Z.ltb_spec a b)
          | context [?a <=? ?b] => destruct (Z.leb_spec a b)
          | context [?a =? ?b] => destruct (Z.eqb_spec a b)
          end; cbn [andb orb negb] in H; try discriminate H).

(* ---------- machine arithmetic ---------- *)
Definition int_ok (v : Z) : Prop := - 2 ^ 31 < v < 2 ^ 31.
Definition oint_ok (o : option Z) : Prop := match o with None => True | Some v => int_ok v end.

Lemma p24 : 2 ^ 24 = 16777216. Proof. reflexivity. Qed.
Lemma p31 : 2 ^ 31 = 2147483648. Proof. reflexivity. Qed.
Lemma p32 : 2 ^ 32 = 4294967296. Proof. reflexivity. Qed.
Lemma p63 : 2 ^ 63 = 9223372036854775808. Proof. reflexivity. Qed.
Lemma p64 : 2 ^ 64 = 18446744073709551616. Proof. reflexivity. Qed.

Lemma u64_small z : 0 <= z < 2 ^ 64 -> u64 z = z.
Proof. intros. unfold u64. now apply wrap_small. Qed.

Lemma u64_mod z : u64 z = z mod 2 ^ 64. Proof. reflexivity. Qed.

Lemma u64_idem z : u64 (u64 z) = u64 z.
Proof. unfold u64, wrap. now rewrite Z.mod_mod. Qed.

Lemma u64_add_l x y : u64 (u64 x + y) = u64 (x + y).
Proof. unfold u64, wrap. now rewrite Zplus_mod_idemp_l. Qed.
Lemma u64_add_r x y : u64 (x + u64 y) = u64 (x + y).
Proof. unfold u64, wrap. now rewrite Zplus_mod_idemp_r. Qed.
Lemma u64_sub_l x y : u64 (u64 x - y) = u64 (x - y).
Proof. unfold u64, wrap. now rewrite Zminus_mod_idemp_l. Qed.
Lemma u64_sub_r x y : u64 (x - u64 y) = u64 (x - y).
Proof. unfold u64, wrap. now rewrite Zminus_mod_idemp_r. Qed.
Lemma u64_mul_r x y : u64 (x * u64 y) = u64 (x * y).
Proof. unfold u64, wrap. now rewrite Zmult_mod_idemp_r. Qed.

Lemma i32_small z : - 2 ^ 31 <= z < 2 ^ 31 -> i32 z = z.
Proof.
  intros H. unfold i32, swrap. change (32 - 1) with 31. rewrite p31, p32 in *.
  destruct (Z_lt_le_dec z 0) as [Hn|Hp].
  - replace (z mod 4294967296) with (z + 4294967296)
      by (apply Z.mod_unique with (-1); lia).
    destruct (Z.ltb_spec (z + 4294967296) 2147483648); lia.
  - rewrite Z.mod_small by lia. destruct (Z.ltb_spec z 2147483648); lia.
Qed.

Lemma i32_u64 z : i32 (u64 z) = i32 z.
Proof.
  unfold i32, swrap, u64, wrap.
  replace ((z mod 2 ^ 64) mod 2 ^ 32) with (z mod 2 ^ 32); [reflexivity|].
  apply Zmod_div_mod; [rewrite p32; lia | rewrite p64; lia |].
  exists (2 ^ 32). reflexivity.
Qed.

Lemma u32_small z : 0 <= z < 2 ^ 32 -> u32 z = z.
Proof. intros. unfold u32. now apply wrap_small. Qed.

(* ---------- Stage 1: wrap-free description of the model ---------- *)

(* the range before the final cast *)
Definition range_z (n : Z) (start stop step : option Z) : Z :=
  match start, stop with
  | None, None => n
  | Some a, None =>
      match step with
      | Some s => if (s <? 0) && (0 <=? a) then a + 1 else n - a
      | None => n - a
      end
  | None, Some b => if b <? 0 then n + b else Z.min b n
  | Some a, Some b =>
      let st := Z.min b n in
      if (st <? 0) && (a <? 0) then st - a
      else if st <? 0 then n + st - a
      else if a <? 0 then st - (n + a)
      else if a <? st then st - a else a - st
  end.

Definition range_cast (start stop : option Z) (z : Z) : Z :=
  match start, stop with
  | None, None => z
  | Some _, Some _ => i32 z
  | _, _ => u64 z
  end.

Lemma clip_stop_eq n b : 0 <= n < 2 ^ 31 -> int_ok b -> clip_stop n b = Z.min b n.
Proof.
  intros Hn Hb. unfold clip_stop, int_ok in *. rewrite !i32_small by lia.
  destruct (Z.ltb_spec b n); lia.
Qed.

Lemma abs_i_neg v : int_ok v -> v < 0 -> abs_i v = - v.
Proof. intros Hv Hl. unfold abs_i, int_ok in *. destruct (Z.ltb_spec v 0); [|lia]. apply i32_small. lia. Qed.

Lemma compute_range_eq n a b c :
  0 <= n < 2 ^ 31 -> oint_ok a -> oint_ok b ->
  compute_range n a b c = range_cast a b (range_z n a b c).
Proof.
  intros Hn Ha Hb. destruct a as [a|], b as [b|]; cbn [compute_range range_z range_cast oint_ok] in *.
  - (* both *)
    rewrite clip_stop_eq by assumption.
    set (st := Z.min b n). assert (Hst : int_ok st) by (unfold int_ok, st in *; lia).
    destruct (Z.ltb_spec st 0) as [Hs|Hs]; destruct (Z.ltb_spec a 0) as [Hl|Hl]; cbn [andb].
    + rewrite !abs_i_neg by assumption. rewrite u64_sub_l, u64_sub_r, i32_u64. f_equal. lia.
    + rewrite !abs_i_neg by assumption. rewrite u64_sub_l, i32_u64. f_equal. lia.
    + rewrite !abs_i_neg by assumption. rewrite u64_sub_r, i32_u64. f_equal. lia.
    + destruct (Z.ltb_spec a st); reflexivity.
  - destruct c as [s|]; [destruct ((s <? 0) && (0 <=? a))|]; reflexivity.
  - destruct (Z.ltb_spec b 0); [reflexivity|]. now rewrite clip_stop_eq.
  - reflexivity.
Qed.

(* start of compute_index before the final cast; the step is py_step *)
Definition cstop (n b : Z) : Z := Z.max (Z.min b n) (- n).
Definition start_z (n : Z) (start stop step : option Z) : Z :=
  match start, stop, step with
  | None, None, None => 0
  | Some a, None, None => if 0 <=? a then a else n - a
  | Some a, Some b, None =>
      let sv := cstop n b in
      if (0 <=? a) && (0 <? sv) then a
      else if (a <? 0) && (0 <? sv) then sv + a
      else if (0 <=? a) && (sv <? 0) then a
      else n + a
  | Some a, Some b, Some c =>
      let sv := cstop n b in
      if (0 <=? a) && (0 <=? sv) && (c <? 0) then (if 0 <? sv then sv - 1 else a)
      else if (a <? 0) && (0 <? sv) && (c <? 0) then sv + a
      else if (0 <=? a) && (sv <? 0) && (c <? 0) then a
      else if (a <? 0) && (sv <? 0) && (c <? 0) then n + a - 1
      else if (0 <=? a) && (0 <? sv) && (0 <? c) then a
      else if (a <? 0) && (0 <? sv) && (0 <? c) then sv + a
      else if (0 <=? a) && (sv <? 0) && (0 <? c) then a
      else n + a
  | None, Some b, None => 0
  | None, Some b, Some c =>
      let sv := cstop n b in
      if (0 <? sv) && (0 <? c) then 0 else if (0 <? sv) && (c <? 0) then n else 0
  | None, None, Some c => if c <? 0 then n - 1 else 0
  | Some a, None, Some c =>
      if (0 <=? a) && (0 <? c) then a
      else if (0 <=? a) && (c <? 0) then a
      else if (a <? 0) && (0 <? c) then n + a
      else a
  end.

Lemma clip_stop2_eq n b : 0 <= n < 2 ^ 31 -> int_ok b -> clip_stop2 n b = cstop n b.
Proof.
  intros Hn Hb. unfold clip_stop2, cstop. rewrite clip_stop_eq by assumption.
  rewrite i32_u64, i32_small by (unfold int_ok in *; lia).
  destruct (Z.ltb_spec (- n) (Z.min b n)); lia.
Qed.

Lemma u64_lin x k c : u64 (u64 x + u64 (k * u64 c)) = u64 (x + k * c).
Proof. now rewrite u64_mul_r, u64_add_l, u64_add_r. Qed.
Lemma u64_lin0 k c : u64 (0 + u64 (k * u64 c)) = u64 (0 + k * c).
Proof. now rewrite u64_mul_r, u64_add_r. Qed.

Lemma compute_index_eq k n a b c :
  0 <= n < 2 ^ 31 -> oint_ok a -> oint_ok b ->
  compute_index k n a b c = u64 (start_z n a b c + k * py_step c).
Proof.
  intros Hn Ha Hb.
  assert (Hcs : forall b, int_ok b -> int_ok (cstop n b)) by (intros; unfold cstop, int_ok in *; lia).
  destruct a as [a|], b as [b|], c as [c|]; cbn [compute_index start_z py_step oint_ok] in *;
    rewrite ?clip_stop2_eq by assumption.
  - (* a b c *)
    specialize (Hcs b Hb). set (sv := cstop n b) in *. unfold int_ok in *.
    destruct (0 <=? a) eqn:E1; destruct (0 <=? sv) eqn:E2; destruct (c <? 0) eqn:E3;
      destruct (0 <? sv) eqn:E4; destruct (a <? 0) eqn:E5; destruct (sv <? 0) eqn:E6; destruct (0 <? c) eqn:E7;
      cbn [andb]; try (exfalso; lia);
      rewrite ?(i32_small (sv - 1)), ?(i32_small (sv + a)) by lia; apply u64_lin.
  - specialize (Hcs b Hb). set (sv := cstop n b) in *. unfold int_ok in *.
    destruct (0 <=? a) eqn:E1; destruct (0 <? sv) eqn:E4; destruct (a <? 0) eqn:E5; destruct (sv <? 0) eqn:E6;
      cbn [andb]; try (exfalso; lia);
      rewrite ?(i32_small (sv + a)) by lia; rewrite u64_add_l, Z.mul_1_r; reflexivity.
  - destruct ((0 <=? a) && (0 <? c)); [apply u64_lin|].
    destruct ((0 <=? a) && (c <? 0)); [apply u64_lin|].
    destruct ((a <? 0) && (0 <? c)); apply u64_lin.
  - destruct (0 <=? a); rewrite u64_add_l, Z.mul_1_r; reflexivity.
  - destruct ((0 <? cstop n b) && (0 <? c)); [apply u64_lin0|].
    destruct ((0 <? cstop n b) && (c <? 0)); [apply u64_lin|apply u64_lin0].
  - now rewrite Z.mul_1_r.
  - reflexivity.
  - now rewrite Z.mul_1_r.
Qed.

(* ---------- Stage 2a: facts about the Spec alone ---------- *)

Lemma ceil_div_pos s t : 0 < t -> 0 < s -> ceil_div s t = (s - 1) / t + 1.
Proof.
  intros Ht Hs. unfold ceil_div.
  pose proof (Z.div_mod (- s) t ltac:(lia)) as D1. pose proof (Z.mod_pos_bound (- s) t Ht) as B1.
  pose proof (Z.div_mod (s - 1) t ltac:(lia)) as D2. pose proof (Z.mod_pos_bound (s - 1) t Ht) as B2.
  nia.
Qed.

Lemma ceil_div_zero s t : 0 < t -> - t < s <= 0 -> ceil_div s t = 0.
Proof.
  intros Ht Hs. unfold ceil_div. rewrite Z.div_small by lia. reflexivity.
Qed.

Lemma ceil_div_bound s t : 0 < t -> 0 <= s -> 0 <= ceil_div s t <= s.
Proof.
  intros Ht Hs. destruct (Z.eq_dec s 0) as [->|Hz].
  - rewrite ceil_div_zero by lia. lia.
  - rewrite ceil_div_pos by lia.
    pose proof (Z.div_mod (s - 1) t ltac:(lia)) as D2. pose proof (Z.mod_pos_bound (s - 1) t Ht) as B2.
    nia.
Qed.

(* the (len-1)-th element stays strictly before the stop: for s > 0, t > 0, k < (s-1)/t+1 -> k*t < s *)
Lemma last_in s t k : 0 < t -> 0 < s -> 0 <= k < (s - 1) / t + 1 -> 0 <= k * t < s.
Proof.
  intros Ht Hs Hk.
  pose proof (Z.div_mod (s - 1) t ltac:(lia)) as D2. pose proof (Z.mod_pos_bound (s - 1) t Ht) as B2.
  nia.
Qed.

Lemma py_bounds_pos n a b c : 0 <= n -> 0 < py_step c ->
  0 <= py_start n a c <= n /\ 0 <= py_stop n b c <= n.
Proof.
  intros Hn Hc. unfold py_start, py_stop, py_clamp. destruct a as [a|], b as [b|]; split; zb; lia.
Qed.

Lemma py_bounds_neg n a b c : 0 <= n -> py_step c < 0 ->
  -1 <= py_start n a c <= n - 1 /\ -1 <= py_stop n b c <= n - 1.
Proof.
  intros Hn Hc. unfold py_start, py_stop, py_clamp. destruct a as [a|], b as [b|]; split; zb; lia.
Qed.

(* Python never produces an out-of-range source index *)
Lemma py_index_inb n a b c k : 0 <= n -> py_step c <> 0 ->
  0 <= k < py_len n a b c -> 0 <= py_index k n a b c < n.
Proof.
  intros Hn Hc Hk. unfold py_len, py_index in *.
  set (st := py_step c) in *. set (s0 := py_start n a c) in *. set (s1 := py_stop n b c) in *.
  destruct (Z.ltb_spec st 0) as [Hneg|Hpos].
  - destruct (py_bounds_neg n a b c Hn Hneg) as [B0 B1]. fold s0 s1 in B0, B1.
    destruct (Z.ltb_spec s1 s0); [|lia].
    pose proof (last_in (s0 - s1) (- st) k ltac:(lia) ltac:(lia) Hk). nia.
  - assert (Hp : 0 < st) by lia.
    destruct (py_bounds_pos n a b c Hn Hp) as [B0 B1]. fold s0 s1 in B0, B1.
    destruct (Z.ltb_spec s0 s1); [|lia].
    pose proof (last_in (s1 - s0) st k Hp ltac:(lia) Hk). nia.
Qed.

Lemma py_len_bounds n a b c : 0 <= n -> py_step c <> 0 -> 0 <= py_len n a b c <= n.
Proof.
  intros Hn Hc. unfold py_len.
  set (st := py_step c) in *. set (s0 := py_start n a c). set (s1 := py_stop n b c).
  destruct (Z.ltb_spec st 0) as [Hneg|Hpos].
  - destruct (py_bounds_neg n a b c Hn Hneg) as [B0 B1]. fold s0 s1 in B0, B1.
    destruct (Z.ltb_spec s1 s0); [|lia].
    pose proof (ceil_div_bound (s0 - s1) (- st) ltac:(lia) ltac:(lia)).
    rewrite ceil_div_pos in H0 by lia. lia.
  - assert (Hp : 0 < st) by lia.
    destruct (py_bounds_pos n a b c Hn Hp) as [B0 B1]. fold s0 s1 in B0, B1.
    destruct (Z.ltb_spec s0 s1); [|lia].
    pose proof (ceil_div_bound (s1 - s0) st ltac:(lia) ltac:(lia)).
    rewrite ceil_div_pos in H0 by lia. lia.
Qed.
