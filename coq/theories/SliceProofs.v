(* SliceProofs.v — C05 lemmas (repaired arithmetic).
   Stage 1: for int bounds and extents below 2^62 no int64_t operation of the model wraps, and
            normalize_slice IS Python's PySlice_AdjustIndices (py_start, py_stop, py_step).
   Stage 2: length and source index equal Python's for every such input (no input class, no box).
   Stage 3: several axes.
   Stdlib only, no axioms. *)
From NM Require Import Base Slice.
Local Open Scope Z_scope.

(* ---------- comparisons ---------- *)
Ltac zb1 :=
  match goal with
  | |- context [?a <? ?b] => destruct (Z.ltb_spec a b)
  | |- context [?a <=? ?b] => destruct (Z.leb_spec a b)
  | |- context [?a =? ?b] => destruct (Z.eqb_spec a b)
  end; try (exfalso; lia).
Ltac zb := repeat (zb1; cbn [andb orb negb]).
Ltac zbh H :=
  repeat (match type of H with
          | context [?a <? ?b] => destruct (Z.ltb_spec a b)
          | context [?a <=? ?b] => destruct (Z.leb_spec a b)
          | context [?a =? ?b] => destruct (Z.eqb_spec a b)
          end; cbn [andb orb negb] in H; try discriminate H).

Ltac bprop :=
  repeat match goal with
  | H : _ && _ = true |- _ => apply andb_true_iff in H; destruct H
  | H : _ || _ = true |- _ => apply orb_true_iff in H; destruct H
  | H : (_ <? _) = true |- _ => apply Z.ltb_lt in H
  | H : (_ <=? _) = true |- _ => apply Z.leb_le in H
  | H : (_ =? _) = true |- _ => apply Z.eqb_eq in H
  | H : negb _ = true |- _ => apply negb_true_iff in H
  | H : (_ =? _) = false |- _ => apply Z.eqb_neq in H
  end.


(* ---------- machine arithmetic ---------- *)
Definition int_ok (v : Z) : Prop := - 2 ^ 62 <= v < 2 ^ 62.
Definition oint_ok (o : option Z) : Prop := match o with None => True | Some v => int_ok v end.

Lemma p31 : 2 ^ 31 = 2147483648. Proof. reflexivity. Qed.
Lemma p32 : 2 ^ 32 = 4294967296. Proof. reflexivity. Qed.
Lemma p62 : 2 ^ 62 = 4611686018427387904. Proof. reflexivity. Qed.
Lemma p63 : 2 ^ 63 = 9223372036854775808. Proof. reflexivity. Qed.
Lemma p64 : 2 ^ 64 = 18446744073709551616. Proof. reflexivity. Qed.

Lemma u64_small z : 0 <= z < 2 ^ 64 -> u64 z = z.
Proof. intros. unfold u64. now apply wrap_small. Qed.

Lemma i64_small z : - 2 ^ 63 <= z < 2 ^ 63 -> i64 z = z.
Proof.
  intros H. unfold i64, swrap. change (64 - 1) with 63. rewrite p63, p64 in *.
  destruct (Z_lt_le_dec z 0) as [Hn|Hp].
  - replace (z mod 18446744073709551616) with (z + 18446744073709551616)
      by (apply Z.mod_unique with (-1); lia).
    destruct (Z.ltb_spec (z + 18446744073709551616) 9223372036854775808); lia.
  - rewrite Z.mod_small by lia. destruct (Z.ltb_spec z 9223372036854775808); lia.
Qed.

Lemma i32_small z : - 2 ^ 31 <= z < 2 ^ 31 -> swrap 32 z = z.
Proof.
  intros H. unfold swrap. change (32 - 1) with 31. rewrite p31, p32 in *.
  destruct (Z_lt_le_dec z 0) as [Hn|Hp].
  - replace (z mod 4294967296) with (z + 4294967296)
      by (apply Z.mod_unique with (-1); lia).
    destruct (Z.ltb_spec (z + 4294967296) 2147483648); lia.
  - rewrite Z.mod_small by lia. destruct (Z.ltb_spec z 2147483648); lia.
Qed.

Definition ceil_div (s t : Z) : Z := - ((- s) / t).

(* ---------- Stage 2a: facts about the Spec alone ---------- *)
Lemma ceil_div_pos s t : 0 < t -> 0 < s -> ceil_div s t = (s - 1) / t + 1.
Proof.
  intros Ht Hs. unfold ceil_div.
  pose proof (Z.div_mod (- s) t ltac:(lia)) as D1. pose proof (Z.mod_pos_bound (- s) t Ht) as B1.
  pose proof (Z.div_mod (s - 1) t ltac:(lia)) as D2. pose proof (Z.mod_pos_bound (s - 1) t Ht) as B2.
  nia.
Qed.

Lemma ceil_div_zero s t : 0 < t -> - t < s <= 0 -> ceil_div s t = 0.
Proof.
  intros Ht Hs. unfold ceil_div. rewrite Z.div_small by lia. reflexivity.
Qed.

Lemma ceil_div_bound s t : 0 < t -> 0 <= s -> 0 <= ceil_div s t <= s.
Proof.
  intros Ht Hs. destruct (Z.eq_dec s 0) as [->|Hz].
  - rewrite ceil_div_zero by lia. lia.
  - rewrite ceil_div_pos by lia.
    pose proof (Z.div_mod (s - 1) t ltac:(lia)) as D2. pose proof (Z.mod_pos_bound (s - 1) t Ht) as B2.
    nia.
Qed.

(* the (len-1)-th element stays strictly before the stop: for s > 0, t > 0, k < (s-1)/t+1 -> k*t < s *)
Lemma last_in s t k : 0 < t -> 0 < s -> 0 <= k < (s - 1) / t + 1 -> 0 <= k * t < s.
Proof.
  intros Ht Hs Hk.
  pose proof (Z.div_mod (s - 1) t ltac:(lia)) as D2. pose proof (Z.mod_pos_bound (s - 1) t Ht) as B2.
  nia.
Qed.

Lemma py_bounds_pos n a b c : 0 <= n -> 0 < py_step c ->
  0 <= py_start n a c <= n /\ 0 <= py_stop n b c <= n.
Proof.
  intros Hn Hc. unfold py_start, py_stop, py_clamp. destruct a as [a|], b as [b|]; split; zb; lia.
Qed.

Lemma py_bounds_neg n a b c : 0 <= n -> py_step c < 0 ->
  -1 <= py_start n a c <= n - 1 /\ -1 <= py_stop n b c <= n - 1.
Proof.
  intros Hn Hc. unfold py_start, py_stop, py_clamp. destruct a as [a|], b as [b|]; split; zb; lia.
Qed.

(* Python never produces an out-of-range source index *)
Lemma py_index_inb n a b c k : 0 <= n -> py_step c <> 0 ->
  0 <= k < py_len n a b c -> 0 <= py_index k n a b c < n.
Proof.
  intros Hn Hc Hk. unfold py_len, py_index in *.
  set (st := py_step c) in *. set (s0 := py_start n a c) in *. set (s1 := py_stop n b c) in *.
  destruct (Z.ltb_spec st 0) as [Hneg|Hpos].
  - destruct (py_bounds_neg n a b c Hn Hneg) as [B0 B1]. fold s0 s1 in B0, B1.
    destruct (Z.ltb_spec s1 s0); [|lia].
    pose proof (last_in (s0 - s1) (- st) k ltac:(lia) ltac:(lia) Hk). nia.
  - assert (Hp : 0 < st) by lia.
    destruct (py_bounds_pos n a b c Hn Hp) as [B0 B1]. fold s0 s1 in B0, B1.
    destruct (Z.ltb_spec s0 s1); [|lia].
    pose proof (last_in (s1 - s0) st k Hp ltac:(lia) Hk). nia.
Qed.

Lemma py_len_bounds n a b c : 0 <= n -> py_step c <> 0 -> 0 <= py_len n a b c <= n.
Proof.
  intros Hn Hc. unfold py_len.
  set (st := py_step c) in *. set (s0 := py_start n a c). set (s1 := py_stop n b c).
  destruct (Z.ltb_spec st 0) as [Hneg|Hpos].
  - destruct (py_bounds_neg n a b c Hn Hneg) as [B0 B1]. fold s0 s1 in B0, B1.
    destruct (Z.ltb_spec s1 s0); [|lia].
    pose proof (ceil_div_bound (s0 - s1) (- st) ltac:(lia) ltac:(lia)).
    rewrite ceil_div_pos in H0 by lia. lia.
  - assert (Hp : 0 < st) by lia.
    destruct (py_bounds_pos n a b c Hn Hp) as [B0 B1]. fold s0 s1 in B0, B1.
    destruct (Z.ltb_spec s0 s1); [|lia].
    pose proof (ceil_div_bound (s1 - s0) st ltac:(lia) ltac:(lia)).
    rewrite ceil_div_pos in H0 by lia. lia.
Qed.


(* ---------- Stage 1: the model's normalisation is Python's, no operation wraps ---------- *)

Lemma clamp64_eq n st v : 0 <= n < 2 ^ 62 -> int_ok v ->
  clamp64 n (if st <? 0 then -1 else 0) (if st <? 0 then n - 1 else n) v = py_clamp n st v.
Proof.
  intros Hn Hv. unfold clamp64, py_clamp, int_ok in *. rewrite p62 in *.
  destruct (Z.ltb_spec v 0).
  - rewrite i64_small by (rewrite p63; lia). zb; lia.
  - zb; lia.
Qed.

Lemma normalize_slice_eq n a b c :
  0 <= n < 2 ^ 62 -> oint_ok a -> oint_ok b -> oint_ok c ->
  normalize_slice n a b c = (py_start n a c, py_stop n b c, py_step c).
Proof.
  intros Hn Ha Hb Hc. unfold normalize_slice, py_start, py_stop.
  assert (Hst : match c with None => 1 | Some s => i64 s end = py_step c).
  { destruct c as [s|]; cbn in *; [|reflexivity]. unfold int_ok in Hc. rewrite p62 in Hc.
    apply i64_small. rewrite p63. lia. }
  rewrite Hst. set (st := py_step c).
  rewrite (i64_small n) by (rewrite p62, p63 in *; lia).
  rewrite (i64_small (n - 1)) by (rewrite p62, p63 in *; lia).
  assert (Hi : forall v, int_ok v -> i64 v = v)
    by (intros v Hv; unfold int_ok in Hv; rewrite p62 in Hv; apply i64_small; rewrite p63; lia).
  apply f_equal2; [apply f_equal2|reflexivity].
  - destruct a as [a|]; cbn in Ha.
    + rewrite (Hi a Ha). now apply clamp64_eq.
    + destruct (st <? 0); reflexivity.
  - destruct b as [b|]; cbn in Hb.
    + rewrite (Hi b Hb). now apply clamp64_eq.
    + destruct (st <? 0); reflexivity.
Qed.

Lemma compute_step_eq c : oint_ok c -> compute_step c = Z.abs (py_step c).
Proof.
  destruct c as [c|]; cbn [compute_step py_step oint_ok]; [|reflexivity].
  unfold int_ok. intros H. rewrite p62 in H.
  rewrite (i64_small c) by (rewrite p63; lia).
  destruct (Z.ltb_spec c 0).
  - rewrite i64_small by (rewrite p63; lia). rewrite u64_small by (rewrite p64; lia). lia.
  - rewrite u64_small by (rewrite p64; lia). lia.
Qed.

(* (r + t - 1) / t is the integer ceiling *)
Lemma ceil_by_add r t : 0 < t -> 0 <= r -> (r + t - 1) / t = ceil_div r t.
Proof.
  intros Ht Hr. destruct (Z.eq_dec r 0) as [->|Hz].
  - rewrite ceil_div_zero by lia. apply Z.div_small. lia.
  - rewrite ceil_div_pos by lia. replace (r + t - 1) with ((r - 1) + 1 * t) by lia.
    rewrite Z.div_add by lia. reflexivity.
Qed.

(* ---------- Stage 2: one axis equals Python, for every input of the argument types ---------- *)
Lemma slice_python n a b c :
  0 <= n < 2 ^ 62 -> oint_ok a -> oint_ok b -> oint_ok c -> py_step c <> 0 ->
  slice_len n a b c = Len (py_len n a b c)
  /\ forall k, 0 <= k < py_len n a b c -> compute_index k n a b c = py_index k n a b c.
Proof.
  intros Hn Ha Hb Hc Hst.
  pose proof (py_len_bounds n a b c ltac:(lia) Hst) as HL.
  assert (Hstep : int_ok (py_step c)) by (destruct c; cbn in *; [assumption|unfold int_ok; rewrite p62; lia]).
  unfold int_ok in Hstep. rewrite p62 in Hstep.
  split.
  - unfold slice_len, compute_range. rewrite normalize_slice_eq, compute_step_eq by assumption.
    set (st := py_step c) in *. set (s0 := py_start n a c). set (s1 := py_stop n b c).
    assert (Ht : 0 < Z.abs st <= 2 ^ 62) by (rewrite p62; lia).
    replace (Z.abs st =? 0) with false by (symmetry; apply Z.eqb_neq; lia).
    unfold py_len. fold st s0 s1. rewrite p62 in Hn.
    destruct (Z.ltb_spec st 0) as [Hneg|Hpos].
    + destruct (py_bounds_neg n a b c ltac:(lia) Hneg) as [B0 B1]. fold s0 s1 in B0, B1.
      rewrite (i64_small (s0 - s1)) by (rewrite p63; lia).
      replace (Z.abs st) with (- st) in * by lia.
      destruct (Z.ltb_spec s1 s0) as [L|L].
      * replace (0 <? s0 - s1) with true by (symmetry; apply Z.ltb_lt; lia).
        rewrite (u64_small (s0 - s1)) by (rewrite p64; lia).
        rewrite (u64_small (s0 - s1 + - st)) by (rewrite p64; lia).
        rewrite (u64_small (s0 - s1 + - st - 1)) by (rewrite p64; lia).
        f_equal. rewrite ceil_by_add by lia. apply ceil_div_pos; lia.
      * replace (0 <? s0 - s1) with false by (symmetry; apply Z.ltb_ge; lia).
        rewrite (u64_small 0) by (rewrite p64; lia).
        rewrite (u64_small (0 + - st)) by (rewrite p64; lia).
        rewrite (u64_small (0 + - st - 1)) by (rewrite p64; lia).
        f_equal. apply Z.div_small. lia.
    + assert (Hp : 0 < st) by lia.
      destruct (py_bounds_pos n a b c ltac:(lia) Hp) as [B0 B1]. fold s0 s1 in B0, B1.
      rewrite (i64_small (s1 - s0)) by (rewrite p63; lia).
      replace (Z.abs st) with st in * by lia.
      destruct (Z.ltb_spec s0 s1) as [L|L].
      * replace (0 <? s1 - s0) with true by (symmetry; apply Z.ltb_lt; lia).
        rewrite (u64_small (s1 - s0)) by (rewrite p64; lia).
        rewrite (u64_small (s1 - s0 + st)) by (rewrite p64; lia).
        rewrite (u64_small (s1 - s0 + st - 1)) by (rewrite p64; lia).
        f_equal. rewrite ceil_by_add by lia. apply ceil_div_pos; lia.
      * replace (0 <? s1 - s0) with false by (symmetry; apply Z.ltb_ge; lia).
        rewrite (u64_small 0) by (rewrite p64; lia).
        rewrite (u64_small (0 + st)) by (rewrite p64; lia).
        rewrite (u64_small (0 + st - 1)) by (rewrite p64; lia).
        f_equal. apply Z.div_small. lia.
  - intros k Hk. unfold compute_index. rewrite normalize_slice_eq by assumption.
    pose proof (py_index_inb n a b c k ltac:(lia) Hst Hk) as Hin.
    unfold py_index in *. set (st := py_step c) in *. set (s0 := py_start n a c) in *.
    rewrite p62 in Hn.
    assert (Hs0 : -1 <= s0 <= n).
    { destruct (Z.ltb_spec st 0) as [Hneg|Hpos].
      - destruct (py_bounds_neg n a b c ltac:(lia) Hneg) as [B0 _]. fold s0 in B0. lia.
      - destruct (py_bounds_pos n a b c ltac:(lia) ltac:(fold st; lia)) as [B0 _]. fold s0 in B0. lia. }
    rewrite (i64_small k) by (rewrite p63; lia).
    rewrite (i64_small (k * st)) by (rewrite p63; lia).
    rewrite i64_small by (rewrite p63; lia).
    apply u64_small. rewrite p64. lia.
Qed.

(* boolean form of the hypotheses *)
Lemma intb_ok v : intb v = true -> int_ok v.
Proof. unfold intb, int_ok. intros H. bprop. lia. Qed.
Lemma ointb_ok o : ointb o = true -> oint_ok o.
Proof. destruct o; cbn; [apply intb_ok|trivial]. Qed.

Lemma axis_dom_python n a b c :
  axis_dom n a b c = true ->
  slice_len n a b c = Len (py_len n a b c)
  /\ forall k, 0 <= k < py_len n a b c -> compute_index k n a b c = py_index k n a b c.
Proof.
  unfold axis_dom, ext_ok. intros H.
  apply andb_true_iff in H as [H Hnz]. apply andb_true_iff in H as [H Hc].
  apply andb_true_iff in H as [H Hb]. apply andb_true_iff in H as [Hn Ha].
  bprop. apply slice_python; auto using ointb_ok.
  destruct c as [s|]; cbn in *; [|lia]. apply negb_true_iff in Hnz. now apply Z.eqb_neq in Hnz.
Qed.

(* ---------- Stage 3: several axes ---------- *)

Lemma py_len_full n : 0 <= n -> py_len n None None None = n.
Proof.
  intros Hn. unfold py_len. cbn [py_step py_start py_stop]. cbn.
  destruct (Z.ltb_spec 0 n); [|lia]. rewrite Z.div_1_r. lia.
Qed.

Lemma py_shape_axes_full nf : forall shape rest,
  (nf <= length shape)%nat -> forallb ext_ok (firstn nf shape) = true ->
  py_shape_axes shape (repeat full nf ++ rest) = firstn nf shape ++ py_shape_axes (skipn nf shape) rest.
Proof.
  induction nf as [|nf IH]; intros shape rest Hl Hf; [reflexivity|].
  destruct shape as [|n shape]; [cbn in Hl; lia|].
  cbn [repeat app firstn skipn py_shape_axes full] in *. cbn [forallb] in Hf.
  apply andb_true_iff in Hf as [Hn Hf]. unfold ext_ok in Hn. apply andb_true_iff in Hn as [Hn _]. apply Z.leb_le in Hn.
  rewrite py_len_full by assumption. rewrite (IH shape rest) by (cbn in Hl; auto; lia). reflexivity.
Qed.

Lemma inb_app_inv i s1 : forall s2, inb i (s1 ++ s2) ->
  inb (firstn (length s1) i) s1 /\ inb (skipn (length s1) i) s2 /\ (length s1 <= length i)%nat.
Proof.
  revert i. induction s1 as [|n s1 IH]; intros i s2 H; cbn [app length firstn skipn] in *.
  - split; [constructor|]. split; [assumption|lia].
  - inversion H as [|x n' i' s' Hx Hi]; subst. destruct (IH i' s2 Hi) as (A & B & C).
    cbn [firstn skipn length]. split; [constructor; assumption|]. split; [assumption|lia].
Qed.

Lemma py_index_axes_full nf : forall idx shape rest,
  (nf <= length shape)%nat -> (nf <= length idx)%nat ->
  py_index_axes idx shape (repeat full nf ++ rest)
  = firstn nf idx ++ py_index_axes (skipn nf idx) (skipn nf shape) rest.
Proof.
  induction nf as [|nf IH]; intros idx shape rest Hs Hi; [reflexivity|].
  destruct shape as [|n shape]; [cbn in Hs; lia|]. destruct idx as [|k idx]; [cbn in Hi; lia|].
  cbn [repeat app firstn skipn py_index_axes full hd tl] in *.
  rewrite (IH idx shape rest) by (cbn in *; lia).
  unfold py_index. cbn [py_start py_step]. cbn. f_equal. lia.
Qed.

Lemma map_u64_inb i : forall s, forallb ext_ok s = true -> inb i s -> map u64 i = i.
Proof.
  induction i as [|x i IH]; intros s Hs H; [reflexivity|].
  inversion H as [|x' n i' s' Hx Hi]; subst. cbn [forallb] in Hs. apply andb_true_iff in Hs as [Hn Hs].
  unfold ext_ok in Hn. bprop. cbn [map]. rewrite (IH s') by assumption.
  rewrite u64_small by (rewrite p62, p64 in *; lia). reflexivity.
Qed.

Lemma abs_i_neg v : - 2 ^ 31 < v -> v < 0 -> abs_i v = - v.
Proof. intros Hv Hl. unfold abs_i. destruct (Z.ltb_spec v 0); [|lia]. apply i32_small. rewrite p31 in *. lia. Qed.

Lemma int_index_eq n i : ext_ok n = true -> - 2 ^ 31 < i -> - n <= i < n -> int_index n i = if i <? 0 then i + n else i.
Proof.
  unfold ext_ok. intros Hn Hi0 Hi. bprop. unfold int_index. rewrite p62 in *.
  destruct (Z.ltb_spec i 0).
  - rewrite abs_i_neg by lia. rewrite u64_small by (rewrite p64; lia). lia.
  - apply u64_small. rewrite p64. lia.
Qed.

Lemma multi_axis_go nf : forall sls shape,
  axes_dom nf shape sls = true ->
  shape_slice_go nf shape sls = map Len (py_shape_axes shape (py_expand nf sls))
  /\ forall idx, inb idx (py_shape_axes shape (py_expand nf sls)) ->
       slice_go nf idx shape sls = py_index_axes idx shape (py_expand nf sls).
Proof.
  induction sls as [|s r IH]; intros shape H.
  - destruct shape; [|discriminate]. split; [reflexivity|]. intros idx _. reflexivity.
  - destruct s as [i| |a b c]; cbn [axes_dom] in H.
    + (* integer *)
      destruct shape as [|n shape]; [discriminate|].
      apply andb_true_iff in H as [H Hr]. apply andb_true_iff in H as [H Hi2]. apply andb_true_iff in H as [H Hi1].
      apply andb_true_iff in H as [H Hi4]. apply andb_true_iff in H as [Hn Hi3].
      apply Z.leb_le in Hi1. apply Z.ltb_lt in Hi2. apply Z.ltb_lt in Hi3.
      destruct (IH shape Hr) as [IHs IHi].
      cbn [shape_slice_go slice_go py_expand py_shape_axes py_index_axes tl hd].
      split; [exact IHs|]. intros idx Hin. rewrite (IHi idx Hin). rewrite int_index_eq by (auto; lia). reflexivity.
    + (* ellipsis *)
      apply andb_true_iff in H as [H Hr]. apply andb_true_iff in H as [Hl Hf]. apply Nat.leb_le in Hl.
      destruct (IH (skipn nf shape) Hr) as [IHs IHi].
      cbn [shape_slice_go slice_go py_expand].
      rewrite py_shape_axes_full by assumption.
      split; [rewrite map_app, IHs; reflexivity|].
      intros idx Hin.
      pose proof (inb_app_inv idx (firstn nf shape) _ Hin) as (A & B & C).
      rewrite firstn_length_le in A, B, C by assumption.
      rewrite py_index_axes_full by assumption.
      rewrite (IHi _ B). rewrite (map_u64_inb _ _ Hf A). reflexivity.
    + (* range *)
      destruct shape as [|n shape]; [discriminate|].
      apply andb_true_iff in H as [Hd Hr].
      destruct (axis_dom_python n a b c Hd) as [Hlen Hidx].
      destruct (IH shape Hr) as [IHs IHi].
      cbn [shape_slice_go slice_go py_expand py_shape_axes py_index_axes tl hd map].
      split; [rewrite Hlen, IHs; reflexivity|].
      intros idx Hin. inversion Hin as [|k l idx' s' Hk Hin']; subst.
      cbn [hd tl]. rewrite (Hidx k Hk), (IHi idx' Hin'). reflexivity.
Qed.

Lemma py_expand_noell nf sls : filter is_ell sls = [] -> py_expand nf sls = sls.
Proof.
  induction sls as [|s r IH]; [reflexivity|]. destruct s; cbn [filter is_ell py_expand]; intros H;
    try discriminate; now rewrite IH.
Qed.

Lemma filter_negb_length {A} (f : A -> bool) l :
  (length (filter f l) + length (filter (fun x => negb (f x)) l) = length l)%nat.
Proof. induction l as [|x l IH]; [reflexivity|]. cbn. destruct (f x); cbn; lia. Qed.

Lemma multi_axis shape sls :
  multi_dom shape sls = true ->
  shape_slice shape sls = map Len (py_shape shape sls)
  /\ forall idx, inb idx (py_shape shape sls) -> slice_index idx shape sls = py_src_index idx shape sls.
Proof.
  unfold multi_dom, shape_slice, slice_index, py_shape, py_src_index. intros H.
  apply andb_true_iff in H as [Hwf Hc]. unfold wf_slices in Hwf.
  apply andb_true_iff in Hwf as [Hne Hlen]. apply Nat.leb_le in Hne.
  pose proof (filter_negb_length is_ell sls) as Hsum.
  set (nl := length (filter (fun s => negb (is_ell s)) sls)) in *.
  destruct (length (filter is_ell sls)) as [|[|m]] eqn:E; [| |lia].
  - (* no ellipsis: nf is irrelevant on the Python side *)
    assert (Hnil : filter is_ell sls = []) by (destruct (filter is_ell sls); [reflexivity|discriminate]).
    rewrite (py_expand_noell (length shape - nl) sls Hnil).
    pose proof (multi_axis_go (nfill shape sls) sls shape Hc) as G.
    rewrite (py_expand_noell (nfill shape sls) sls Hnil) in G. exact G.
  - (* one ellipsis: dim - (n_slices - 1) = dim - number of other parts *)
    replace (length shape - nl)%nat with (nfill shape sls) by (unfold nfill; lia).
    exact (multi_axis_go (nfill shape sls) sls shape Hc).
Qed.

(* ---------- finite sweeps over the property's box (statement carries the bound) ---------- *)
Definition obounds (n : Z) : list (option Z) := None :: map (fun i => Some (i - (n + 2))) (zrange (2 * n + 5)).
Definition osteps : list (option Z) := None :: map Some [-3; -2; -1; 1; 2; 3].
Definition box_axis (N : Z) : list (Z * (option Z * option Z * option Z)) :=
  flat_map (fun n0 => let n := n0 + 1 in
    flat_map (fun a => flat_map (fun b => map (fun c => (n, (a, b, c))) osteps) (obounds n)) (obounds n))
    (zrange N).
Definition on_axis {T} (f : Z -> option Z -> option Z -> option Z -> T) (x : Z * (option Z * option Z * option Z)) : T :=
  let '(n, (a, b, c)) := x in f n a b c.
Definition count {A} (f : A -> bool) (l : list A) : Z := Z.of_nat (length (filter f l)).

