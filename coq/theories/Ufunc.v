(* Ufunc.v — C07.  Model of the element-wise function views
     include/nmtools/array/view/ufunc.hpp          (ufunc / broadcast_binary_ufunc: broadcast_arrays, then ufunc_t)
     include/nmtools/array/view/ufunc/ufunc.hpp    (ufunc_t::operator(): op(apply_at(operand_k, indices)...))
     include/nmtools/array/view/broadcast_arrays.hpp (broadcast_shape of all operands, broadcast_to each)
     include/nmtools/array/index/ufunc.hpp         (shape_ufunc)
     include/nmtools/array/view/ufunc/outer.hpp, index/outer.hpp (outer_t, index::outer, shape_outer)
   and the NumPy reference.  Element types A B C R and the scalar operation f are
   Section variables: the theorems say WHICH operand element feeds which output
   element for ANY f.  An operand is (shape, element function of the multi-index);
   a scalar operand has shape [] and is read at the empty index. *)
From NM Require Import Base Index Broadcast.
Local Open Scope Z_scope.

Definition operand (T : Type) : Type := (list Z * (list Z -> T))%type.

(* view::broadcast_to(array, bcast_shape): None = unwrap of Nothing *)
Definition bcast {T} (x : operand T) (d : list Z) : option (operand T) :=
  match broadcast_to_view (fst x) d with
  | Some (d', ix) => Some (d', fun i => snd x (ix i))
  | None => None
  end.

Fixpoint list_eqb (a b : list Z) : bool :=
  match a, b with
  | [], [] => true
  | x :: a', y :: b' => (x =? y) && list_eqb a' b'
  | _, _ => false
  end.

(* index::shape_ufunc: the first shape when all operand shapes are equal; otherwise the C++ returns a
   *valid* maybe holding a default-constructed (empty) shape — unreachable after broadcast_arrays *)
Definition shape_ufunc (s : list Z) (rest : list (list Z)) : list Z :=
  if forallb (list_eqb s) rest then s else [].

Section Ufunc.
Variables A B C R : Type.

(* unary: no broadcasting *)
Definition ufunc1 (f : A -> R) (a : operand A) : operand R :=
  (shape_ufunc (fst a) [], fun i => f (snd a i)).

(* binary: broadcast_arrays(lhs, rhs) then ufunc_t{op, lhs', rhs'} *)
Definition ufunc2 (f : A -> B -> R) (a : operand A) (b : operand B) : option (operand R) :=
  match broadcast_shapes [fst a; fst b] with
  | None => None
  | Some d =>
      match bcast a d, bcast b d with
      | Some (da, ea), Some (db, eb) => Some (shape_ufunc da [db], fun i => f (ea i) (eb i))
      | _, _ => None
      end
  end.

(* ternary (where, clip): ufunc(op, a, b, c) broadcasts all three *)
Definition ufunc3 (f : A -> B -> C -> R) (a : operand A) (b : operand B) (c : operand C) : option (operand R) :=
  match broadcast_shapes [fst a; fst b; fst c] with
  | None => None
  | Some d =>
      match bcast a d, bcast b d, bcast c d with
      | Some (da, ea), Some (db, eb), Some (dc, ec) =>
          Some (shape_ufunc da [db; dc], fun i => f (ea i) (eb i) (ec i))
      | _, _, _ => None
      end
  end.

(* index::shape_outer: res[i] = i < adim ? ashape[i] : bshape[i-adim]
   index::outer: aidx[i] = indices[i] (i < adim), bidx[i] = indices[i+adim] (i < bdim) *)
Definition shape_outer (sa sb : list Z) : list Z :=
  map (fun i => if (i <? length sa)%nat then nth i sa 0 else nth (i - length sa) sb 0)
      (seq 0 (length sa + length sb)).
Definition outer_idx (i : list Z) (adim bdim : nat) : list Z * list Z :=
  (map (fun k => nth k i 0) (seq 0 adim), map (fun k => nth (k + adim) i 0) (seq 0 bdim)).
Definition outer (f : A -> B -> R) (a : operand A) (b : operand B) : operand R :=
  (shape_outer (fst a) (fst b),
   fun i => let p := outer_idx i (length (fst a)) (length (fst b)) in f (snd a (fst p)) (snd b (snd p))).

(* ---------- Spec (NumPy) ---------- *)
Definition ufunc2_spec (f : A -> B -> R) (a : operand A) (b : operand B) : option (operand R) :=
  match np_broadcast2 (fst a) (fst b) with
  | None => None
  | Some d => Some (d, fun i => f (snd a (np_broadcast_to_idx (fst a) i)) (snd b (np_broadcast_to_idx (fst b) i)))
  end.
(* three operands: NumPy's rule applied pairwise (by C06 the result does not depend on the grouping) *)
Definition np_broadcast3 (a b c : list Z) : option (list Z) :=
  obind (np_broadcast2 a b) (fun r => np_broadcast2 r c).
Definition ufunc3_spec (f : A -> B -> C -> R) (a : operand A) (b : operand B) (c : operand C) : option (operand R) :=
  match np_broadcast3 (fst a) (fst b) (fst c) with
  | None => None
  | Some d => Some (d, fun i => f (snd a (np_broadcast_to_idx (fst a) i)) (snd b (np_broadcast_to_idx (fst b) i))
                                 (snd c (np_broadcast_to_idx (fst c) i)))
  end.
(* outer: shape(a) ++ shape(b), element (i ++ j) = f a[i] b[j] *)
Definition outer_spec (f : A -> B -> R) (a : operand A) (b : operand B) : operand R :=
  (fst a ++ fst b, fun i => f (snd a (firstn (length (fst a)) i)) (snd b (skipn (length (fst a)) i))).

End Ufunc.
Arguments ufunc1 {A R}. Arguments ufunc2 {A B R}. Arguments ufunc3 {A B C R}. Arguments outer {A B R}.
Arguments ufunc2_spec {A B R}. Arguments ufunc3_spec {A B C R}. Arguments outer_spec {A B R}.
