(* Properties_C18.v — C18: utils::isequal / utils::isclose as comparison oracles.  Statements only.
   isequal (after the fix "different length / dimension / shape -> false") IS structural equality, for every
   shape and every nesting of optionals / eithers / tuples, in both builds, and never aborts or reads outside
   an operand.  isclose (after the fixes "false for different dimension or shape", "either arms honour eps",
   "scalar difference in the common type") IS structural closeness in the same sense. *)
From NM Require Import Base Index Compare CompareProofs.
Local Open Scope Z_scope.

(* public entry and the library-internal entry: the answer is the structural one, or the pairing does not compile *)
Theorem C18_isequal_is_structural_equality : forall nd x y,
  wfb x = true -> wfb y = true -> pair_dom x y = true ->
  (isequal nd x y = Ret (spec_equal x y) \/ isequal nd x y = Reject) /\
  (isequal_d nd x y = Ret (spec_equal x y) \/ isequal_d nd x y = Reject).
Proof. intros nd x y Wx Wy D. split; [exact (isequal_total nd x y Wx Wy D) | exact (isequal_d_total nd x y Wx Wy D)]. Qed.
Print Assumptions C18_isequal_is_structural_equality.

(* no assert fires and no read leaves an operand, whatever the shapes, with or without NDEBUG *)
Theorem C18_isequal_never_aborts_or_reads_outside : forall nd x y,
  wfb x = true -> wfb y = true -> pair_dom x y = true ->
  isequal nd x y <> UB /\ isequal nd x y <> Abort /\ isequal_d nd x y <> UB /\ isequal_d nd x y <> Abort.
Proof. exact isequal_safe. Qed.
Print Assumptions C18_isequal_never_aborts_or_reads_outside.

Theorem C18_isequal_reflexive : forall nd x, wfb x = true -> pair_dom x x = true ->
  isequal nd x x = Ret true \/ isequal nd x x = Reject.
Proof. exact isequal_refl. Qed.
Print Assumptions C18_isequal_reflexive.

Theorem C18_isequal_symmetric : forall nd x y b, wfb x = true -> wfb y = true -> pair_dom x y = true ->
  isequal nd x y = Ret b -> isequal nd y x = Ret b \/ isequal nd y x = Reject.
Proof. exact isequal_sym. Qed.
Print Assumptions C18_isequal_symmetric.

(* different dimension or shape, or different length: false (both builds) *)
Theorem C18_isequal_different_shape_is_false : forall nd s d s' d',
  wfb (Arr s d) = true -> wfb (Arr s' d') = true -> s <> s' ->
  isequal nd (Arr s d) (Arr s' d') = Ret false /\ isequal_d nd (Arr s d) (Arr s' d') = Ret false.
Proof. exact isequal_shape_mismatch. Qed.
Print Assumptions C18_isequal_different_shape_is_false.

Theorem C18_isequal_different_length_is_false : forall nd k l k' l', length l <> length l' ->
  isequal_d nd (Idx k l) (Idx k' l') = Ret false /\
  (isequal nd (Idx k l) (Idx k' l') = Ret false \/ isequal nd (Idx k l) (Idx k' l') = Reject).
Proof. exact isequal_length_mismatch. Qed.
Print Assumptions C18_isequal_different_length_is_false.

(* optionals: empty = empty, empty <> present, present compares as its content; eithers and tuples
   alternative by alternative / component by component *)
Theorem C18_isequal_maybe_either_tuple : forall nd a b xs ys,
  isequal nd MNone MNone = Ret true
  /\ isequal nd MNone (MSome b) = Ret false /\ isequal nd (MSome a) MNone = Ret false
  /\ isequal nd (MSome a) (MSome b) = isequal nd a b
  /\ isequal nd (ELeft a) (ELeft b) = isequal_d nd a b /\ isequal nd (ERight a) (ERight b) = isequal_d nd a b
  /\ isequal nd (ELeft a) (ERight b) = Ret false /\ isequal nd (ERight a) (ELeft b) = Ret false
  /\ isequal nd (Tuple (a :: xs)) (Tuple (b :: ys)) = and_out (isequal nd a b) (isequal nd (Tuple xs) (Tuple ys))
  /\ isequal nd (Tuple []) (Tuple []) = Ret true.
Proof. intros. repeat split. Qed.
Print Assumptions C18_isequal_maybe_either_tuple.

(* isclose: the answer is "same structure, same shapes, all |a-b| < eps", or the pairing does not compile *)
Theorem C18_isclose_is_structural_closeness : forall nd eps x y,
  wfb x = true -> wfb y = true -> pair_dom x y = true ->
  (isclose nd eps x y = Ret (spec_close eps x y) \/ isclose nd eps x y = Reject) /\
  (isclose_d nd eps x y = Ret (spec_close eps x y) \/ isclose_d nd eps x y = Reject).
Proof. intros nd eps x y Wx Wy D. split; [exact (isclose_total nd eps x y Wx Wy D) | exact (isclose_d_total nd eps x y Wx Wy D)]. Qed.
Print Assumptions C18_isclose_is_structural_closeness.

Theorem C18_isclose_never_aborts_or_reads_outside : forall nd eps x y,
  wfb x = true -> wfb y = true -> pair_dom x y = true ->
  isclose nd eps x y <> UB /\ isclose nd eps x y <> Abort /\ isclose_d nd eps x y <> UB /\ isclose_d nd eps x y <> Abort.
Proof. exact isclose_safe. Qed.
Print Assumptions C18_isclose_never_aborts_or_reads_outside.

Theorem C18_isclose_reflexive_symmetric : forall nd eps x y b, wfb x = true -> wfb y = true -> pair_dom x y = true ->
  (0 < eps -> pair_dom x x = true -> allelems finitez x = true -> isclose nd eps x x = Ret true \/ isclose nd eps x x = Reject) /\
  (isclose nd eps x y = Ret b -> isclose nd eps y x = Ret b \/ isclose nd eps y x = Reject).
Proof.
  intros nd eps x y b Wx Wy D. split.
  - intros He Dx F. exact (isclose_refl nd eps x He Wx Dx F).
  - exact (isclose_sym nd eps x y b Wx Wy D).
Qed.
Print Assumptions C18_isclose_reflexive_symmetric.

Theorem C18_isclose_different_shape_is_false : forall nd eps s d s' d',
  wfb (Arr s d) = true -> wfb (Arr s' d') = true -> s <> s' ->
  isclose nd eps (Arr s d) (Arr s' d') = Ret false /\ isclose_d nd eps (Arr s d) (Arr s' d') = Ret false.
Proof. exact isclose_shape_mismatch. Qed.
Print Assumptions C18_isclose_different_shape_is_false.

Theorem C18_isclose_same_shape : forall nd eps s d d', wfb (Arr s d) = true -> wfb (Arr s d') = true ->
  isclose nd eps (Arr s d) (Arr s d') = Ret (all2 (close eps) d d').
Proof. exact isclose_same_shape. Qed.
Print Assumptions C18_isclose_same_shape.

Theorem C18_reference_symmetric : forall e x y,
  spec_equal x y = spec_equal y x /\ spec_close e x y = spec_close e y x.
Proof. intros. split; [apply spec_equal_sym | apply spec_close_sym]. Qed.
Print Assumptions C18_reference_symmetric.

(* the comparison is of LOGICAL elements: two array objects (layout, shape, physical buffer) with possibly different
   memory layouts compare through apply_at, i.e. equal shape and equal / close elements at every multi-index
   (logical L s buf = the elements in ndindex order), whatever the two layouts *)
Theorem C18_layout_independent : forall nd L s d L' s' d',
  pos s -> zlen d = prod s -> pos s' -> zlen d' = prod s' ->
  isequal_arrL nd L s d L' s' d' = Ret (all2 Z.eqb s s' && all2 Z.eqb (logical L s d) (logical L' s' d')) /\
  forall eps, isclose_arrL nd eps L s d L' s' d' = Ret (all2 Z.eqb s s' && all2 (close eps) (logical L s d) (logical L' s' d')).
Proof. exact isequal_arrL_spec. Qed.
Print Assumptions C18_layout_independent.

(* floating elements: closeness is |a - b| < eps in IEEE arithmetic — a NaN (either operand NaN, or the difference of two
   equal infinities) is NOT below eps, an infinite difference neither: an element pair with a non-finite member is never
   close (the documented default: NMTOOLS_ISCLOSE_NAN_HANDLING = NMTOOLS_ISCLOSE_INF_HANDLING = 0), for every eps; on
   finite elements it is the comparison of the exact difference; symmetric always, reflexive on finite elements only *)
Theorem C18_isclose_nonfinite_elements : forall eps a b,
  (finitez a = false \/ finitez b = false -> close eps a b = false) /\
  close eps a b = close eps b a /\
  (0 < eps -> finitez a = true -> close eps a a = true) /\
  close eps c_nan c_nan = false /\ close eps c_pinf c_pinf = false /\ close eps c_ninf c_pinf = false.
Proof.
  intros. split; [apply close_nonfinite|]. split; [apply close_sym|]. split; [apply close_refl|]. repeat split.
Qed.
Print Assumptions C18_isclose_nonfinite_elements.

(* aliasing is not an input: the answer is a function of (shape, values, eps).  In particular an array compared with ITSELF
   is close exactly when eps > 0 and all its elements are finite — not when it holds a NaN or an infinity, not for eps <= 0 *)
Theorem C18_isclose_self_comparison : forall nd eps s d, wfb (Arr s d) = true ->
  isclose nd eps (Arr s d) (Arr s d) = Ret ((0 <? eps) && forallb finitez d).
Proof. exact isclose_self. Qed.
Print Assumptions C18_isclose_self_comparison.

(* integer element types.  Every integer comparison is carried out in meta::common_type_t of the two element types
   (the wider width, signed when either is signed).  A comparison in a type in which both values are representable is
   the comparison of the values — the model's mathematical integers ... *)
Theorem C18_integer_comparison_exact_when_representable : forall s w a b,
  0 < w -> in_range s w a -> in_range s w b -> eq_in_type s w a b = (a =? b).
Proof. exact eq_in_type_exact. Qed.
Print Assumptions C18_integer_comparison_exact_when_representable.

(* ... which fails, in the code as it is, exactly for mixed signedness: the common type of an unsigned and a signed
   operand is signed and no wider than the unsigned one, so uint8 200 equals int8 -56 and uint16 65535 equals int8 -1
   (the analogue of size_t(-1) == -1).  Known finding isequal-mixed-signedness-common-type. *)
Theorem C18_isequal_mixed_signedness_refuted :
  (eq_common false 8 true 8 200 (-56) = true /\ in_range false 8 200 /\ in_range true 8 (-56) /\ (200 =? -56) = false) /\
  (eq_common false 16 true 8 65535 (-1) = true /\ (65535 =? -1) = false).
Proof. vm_compute. repeat split; discriminate. Qed.
Print Assumptions C18_isequal_mixed_signedness_refuted.

(* apply_isequal / apply_isclose: their maybe/maybe arm is the public entry's maybe arm (two empty optionals equal
   without being dereferenced, empty vs present different, present vs present by content) *)
Theorem C18_apply_maybe_arm : forall nd x y,
  apply_mm (isequal nd) x y = isequal nd (Maybe x) (Maybe y).
Proof. intros nd [a|] [b|]; reflexivity. Qed.
Print Assumptions C18_apply_maybe_arm.

(* ---------- non-vacuity ---------- *)
Example C18_nonvacuous_1 :
  let x := Tuple [MSome (Arr [2;3] [0;1;2;3;4;5]); ELeft (Arr [3] [7;8;9]); Num 4] in
  let y := Tuple [Arr [2;3] [0;1;2;3;4;5]; ELeft (Arr [3] [7;8;9]); MSome (Num 4)] in
  wfb x = true /\ wfb y = true /\ pair_dom x y = true /\ isequal true x y = Ret true /\ isequal false y x = Ret true.
Proof. vm_compute. repeat split. Qed.
Example C18_nonvacuous_2 :
  isequal true (Arr [2;3] [0;1;2;3;4;5]) (Arr [3;2] [0;1;2;3;4;5]) = Ret false
  /\ isequal false (Arr [2;3] [0;1;2;3;4;5]) (Arr [6] [0;1;2;3;4;5]) = Ret false
  /\ isequal_d false (Idx KVec [2;3]) (Idx KArr [2;3;4]) = Ret false
  /\ isequal true (Idx KTup [2;3]) (Idx KArr [2;3;4]) = Reject.
Proof. vm_compute. repeat split. Qed.
Example C18_nonvacuous_3 :
  isclose false 2 (MSome (Arr [2;2] [0;4;8;12])) (Arr [2;2] [1;4;8;11]) = Ret true
  /\ isclose true 1 (MSome (Arr [2;2] [0;4;8;12])) (Arr [2;2] [1;4;8;11]) = Ret false
  /\ isclose true 1 (Arr [2;3] [0;1;2;3;4;5]) (Arr [3;2] [0;1;2;3;4;5]) = Ret false
  /\ isclose false 1 (Arr [2;2] [0;1;2;3]) (Arr [2;3] [0;1;2;3;4;5]) = Ret false
  /\ isclose true 8 (ELeft (Arr [1] [0])) (Arr [1] [4]) = Ret true.
Proof. vm_compute. repeat split. Qed.
Example C18_nonvacuous_4 :
  (* row-major [[0,1,2],[3,4,5]] against the column-major object holding the same matrix (buffer 0,3,1,4,2,5): equal;
     against the column-major object whose BUFFER is identical (matrix [[0,2,4],[1,3,5]]): different *)
  isequal_arrL true RowMajor [2;3] [0;1;2;3;4;5] ColMajor [2;3] [0;3;1;4;2;5] = Ret true
  /\ isequal_arrL true RowMajor [2;3] [0;1;2;3;4;5] ColMajor [2;3] [0;1;2;3;4;5] = Ret false
  /\ logical ColMajor [2;3] [0;1;2;3;4;5] = [0;2;4;1;3;5].
Proof. vm_compute. repeat split. Qed.
(* regression examples for repaired behaviours (each was a known finding with a refutation before its fix:
   isequal of integer elements of different WIDTH narrowed to the left type; apply_isequal dereferenced two empty
   optionals; isclose subtracted unsigned scalars in their own type) *)
Example C18_regression_integer_widths :
  eq_common true 8 true 32 1 257 = false /\ eq_common true 32 true 8 257 1 = false
  /\ eq_common true 16 true 64 5 65541 = false /\ eq_common true 32 true 64 7 4294967303 = false
  /\ eq_common false 8 true 32 200 (-56) = false /\ eq_common true 8 true 32 (-56) (-56) = true.
Proof. vm_compute. repeat split. Qed.
Example C18_regression_apply_empty : forall cmp, apply_mm cmp None None = Ret true /\ apply_mm cmp None (Some (Num 1)) = Ret false.
Proof. intros. split; reflexivity. Qed.
Example C18_regression_isclose_integer_order : close 5 24 28 = true /\ close 5 28 24 = true /\ close 5 24 29 = false.
Proof. vm_compute. repeat split. Qed.
(* non-finite and extreme elements through the whole dispatch *)
Example C18_nonvacuous_5 :
  isclose true 2 (Arr [3] [4; c_nan; 12]) (Arr [3] [4; 8; 12]) = Ret false
  /\ isclose true 2 (Arr [3] [4; c_nan; 12]) (Arr [3] [4; c_nan; 12]) = Ret false
  /\ isclose false 2 (MSome (Arr [2] [c_pinf; 4])) (Arr [2] [c_pinf; 4]) = Ret false
  /\ isclose true 2 (ELeft (Arr [2] [c_max; c_nzero])) (ELeft (Arr [2] [c_max; c_denorm])) = Ret true
  /\ isclose true 2 (Num c_max) (Num c_nmax) = Ret false
  /\ isclose true 2 (Tuple [Num c_ninf; Arr [1] [4]]) (Tuple [Num c_ninf; Arr [1] [4]]) = Ret false.
Proof. vm_compute. repeat split. Qed.
