(* Slice.v — C05.  FAITHFUL executable model of the slice arithmetic of
     include/nmtools/array/index/slice.hpp   (after the repair "fix: slice arithmetic follows python's slice.indices")
       normalize_slice, compute_range, compute_step, compute_slice_size, compute_index,
       shape_slice / slice                  [variadic, typed parts]
       shape_dynamic_slice / dynamic_slice  [run-time list of either]
   and the SPEC: CPython's PySlice_AdjustIndices / PySlice_GetIndicesEx ("slice.indices" + length formula),
   written independently.

   The C++ does all per-axis arithmetic in int64_t and converts to size_t at the end; the model keeps every
   conversion and every operation that could leave the type as an explicit wrap (i64 / u64), so that "no overflow"
   is something the theorems prove from the ranges of the inputs, not something the model assumes.
   Values of C++ integer objects are represented by the mathematical integer they denote.
   (The arithmetic of the pinned tree before the repair — size_t/int/binary32 typed, wrong on two thirds of the
   per-axis box — is archived with its theorems in /verif/fixes/C05_pre_repair.)
   Stdlib only, no axioms. *)
From NM Require Import Base.
Local Open Scope Z_scope.

Definition u64 (z : Z) : Z := wrap 64 z.
Definition i64 (z : Z) : Z := swrap 64 z.

(* ------------------------------------------------------------------ *)
(* Model                                                               *)
(* ------------------------------------------------------------------ *)

(* normalize_slice: {start, stop, step} in int64_t.  si : size_t -> int64_t; bounds / step: int (or any index type) -> int64_t *)
Definition clamp64 (n lower upper v : Z) : Z :=
  let v' := if v <? 0 then i64 (v + n) else v in
  if v' <? lower then lower else if upper <? v' then upper else v'.
Definition normalize_slice (si : Z) (start stop step : option Z) : Z * Z * Z :=
  let n := i64 si in
  let st := match step with None => 1 | Some s => i64 s end in
  let lower := if st <? 0 then -1 else 0 in
  let upper := if st <? 0 then i64 (n - 1) else n in
  let s0 := match start with None => (if st <? 0 then upper else lower) | Some a => clamp64 n lower upper (i64 a) end in
  let s1 := match stop with None => (if st <? 0 then lower else upper) | Some b => clamp64 n lower upper (i64 b) end in
  (s0, s1, st).

(* compute_range: distance from start to stop in the direction of the step, 0 when empty; size_t *)
Definition compute_range (si : Z) (start stop step : option Z) : Z :=
  let '(s0, s1, st) := normalize_slice si start stop step in
  let r := if st <? 0 then i64 (s0 - s1) else i64 (s1 - s0) in
  u64 (if 0 <? r then r else 0).

(* compute_step: |step| as size_t; None -> 1 *)
Definition compute_step (step : option Z) : Z :=
  match step with None => 1 | Some s => let s' := i64 s in u64 (if s' <? 0 then i64 (- s') else s') end.

(* outcome of compute_slice_size: (range + |step| - 1) / |step| in size_t *)
Inductive lenres :=
| Len (z : Z)        (* the size_t stored in the result shape, in [0,2^64) *)
| LenUB.             (* step = 0: integer division by zero, undefined behaviour *)

Definition slice_len (si : Z) (start stop step : option Z) : lenres :=
  let r := compute_range si start stop step in
  let t := compute_step step in
  if t =? 0 then LenUB else Len (u64 (u64 (r + t) - 1) / t).

(* compute_index: (result_t)(start + (int64_t)indices[i] * step), index_t = size_t *)
Definition compute_index (k si : Z) (start stop step : option Z) : Z :=
  let '(s0, _, st) := normalize_slice si start stop step in
  u64 (i64 (s0 + i64 (i64 k * st))).

(* ---------- several axes ---------- *)
Inductive sl :=
| SInt (i : Z)                       (* an integer: drops its axis *)
| SEll                               (* the ellipsis *)
| SRange (a b c : option Z).         (* start:stop:step *)

Definition is_ell (s : sl) : bool := match s with SEll => true | _ => false end.
Definition is_int (s : sl) : bool := match s with SInt _ => true | _ => false end.

(* number of axes an ellipsis fills: dim - (n_slices - 1) *)
Definition nfill (shape : list Z) (sls : list sl) : nat := length shape - (length sls - 1).

(* the model covers well-formed calls only (the header has "TODO error handling"):
   at most one ellipsis, and the parts account for every axis *)
Definition wf_slices (shape : list Z) (sls : list sl) : bool :=
  let ne := length (filter is_ell sls) in
  (Nat.leb ne 1) &&
  (if Nat.eqb ne 0 then Nat.eqb (length sls) (length shape)
   else Nat.leb (length sls - 1) (length shape)).

(* shape_slice / shape_dynamic_slice: walk the parts, s_i advances over the source axes *)
Fixpoint shape_slice_go (nf : nat) (shape : list Z) (sls : list sl) : list lenres :=
  match sls with
  | [] => []
  | SInt _ :: r => shape_slice_go nf (tl shape) r
  | SEll :: r => map Len (firstn nf shape) ++ shape_slice_go nf (skipn nf shape) r
  | SRange a b c :: r => slice_len (hd 0 shape) a b c :: shape_slice_go nf (tl shape) r
  end.
Definition shape_slice (shape : list Z) (sls : list sl) : list lenres :=
  shape_slice_go (nfill shape sls) shape sls.

(* slice / dynamic_slice: source multi-index of result index idx.
   integer part: slice < 0 ? si - abs_(slice) : slice  (size_t - int, unchanged by the repair) *)
Definition abs_i (v : Z) : Z := if v <? 0 then swrap 32 (- v) else v.
Definition int_index (si i : Z) : Z := if i <? 0 then u64 (si - abs_i i) else u64 i.
Fixpoint slice_go (nf : nat) (idx shape : list Z) (sls : list sl) : list Z :=
  match sls with
  | [] => []
  | SInt i :: r => int_index (hd 0 shape) i :: slice_go nf idx (tl shape) r
  | SEll :: r => map u64 (firstn nf idx) ++ slice_go nf (skipn nf idx) (skipn nf shape) r
  | SRange a b c :: r => compute_index (hd 0 idx) (hd 0 shape) a b c :: slice_go nf (tl idx) (tl shape) r
  end.
Definition slice_index (idx shape : list Z) (sls : list sl) : list Z :=
  slice_go (nfill shape sls) idx shape sls.

(* ------------------------------------------------------------------ *)
(* Spec: Python                                                         *)
(* ------------------------------------------------------------------ *)

(* PySlice_AdjustIndices after PySlice_Unpack (Objects/sliceobject.c) *)
Definition py_step (step : option Z) : Z := match step with None => 1 | Some s => s end.
Definition py_clamp (n st v : Z) : Z :=
  if v <? 0 then (let v' := v + n in if v' <? 0 then (if st <? 0 then -1 else 0) else v')
  else if n <=? v then (if st <? 0 then n - 1 else n) else v.
Definition py_start (n : Z) (start step : option Z) : Z :=
  let st := py_step step in
  match start with
  | None => if st <? 0 then n - 1 else 0
  | Some a => py_clamp n st a
  end.
Definition py_stop (n : Z) (stop step : option Z) : Z :=
  let st := py_step step in
  match stop with
  | None => if st <? 0 then -1 else n
  | Some b => py_clamp n st b
  end.
Definition py_len (n : Z) (start stop step : option Z) : Z :=
  let st := py_step step in
  let a := py_start n start step in
  let b := py_stop n stop step in
  if st <? 0 then (if b <? a then (a - b - 1) / (- st) + 1 else 0)
  else (if a <? b then (b - a - 1) / st + 1 else 0).
(* element k of the slice is source element start' + k*step *)
Definition py_index (k n : Z) (start stop step : option Z) : Z :=
  py_start n start step + k * py_step step.

(* several axes: expand the ellipsis to full slices first, then axis by axis *)
Definition full : sl := SRange None None None.
Fixpoint py_expand (nf : nat) (sls : list sl) : list sl :=
  match sls with
  | [] => []
  | SEll :: r => repeat full nf ++ py_expand nf r
  | s :: r => s :: py_expand nf r
  end.
Fixpoint py_shape_axes (shape : list Z) (sls : list sl) : list Z :=
  match shape, sls with
  | n :: shape', SInt _ :: r => py_shape_axes shape' r
  | n :: shape', SRange a b c :: r => py_len n a b c :: py_shape_axes shape' r
  | _, _ => []
  end.
Definition py_shape (shape : list Z) (sls : list sl) : list Z :=
  py_shape_axes shape (py_expand (length shape - length (filter (fun s => negb (is_ell s)) sls)) sls).
Fixpoint py_index_axes (idx shape : list Z) (sls : list sl) : list Z :=
  match shape, sls with
  | n :: shape', SInt i :: r => (if i <? 0 then i + n else i) :: py_index_axes idx shape' r
  | n :: shape', SRange a b c :: r => py_index (hd 0 idx) n a b c :: py_index_axes (tl idx) shape' r
  | _, _ => []
  end.
Definition py_src_index (idx shape : list Z) (sls : list sl) : list Z :=
  py_index_axes idx shape (py_expand (length shape - length (filter (fun s => negb (is_ell s)) sls)) sls).

(* ------------------------------------------------------------------ *)
(* boolean hypotheses of the theorems: the TYPES of the arguments        *)
(* ------------------------------------------------------------------ *)
(* a bound / step is a value of ANY integer argument type (int, int64_t, size_t, ...) of magnitude below 2^62; an extent is
   a size_t below 2^62 (so that n + |bound| and k*step stay inside int64_t) *)
Definition intb (v : Z) : bool := (- 2 ^ 62 <=? v) && (v <? 2 ^ 62).
Definition ointb (o : option Z) : bool := match o with None => true | Some v => intb v end.
Definition ext_ok (n : Z) : bool := (0 <=? n) && (n <? 2 ^ 62).
Definition step_nz (c : option Z) : bool := match c with Some s => negb (s =? 0) | None => true end.
Definition axis_dom (n : Z) (a b c : option Z) : bool :=
  ext_ok n && ointb a && ointb b && ointb c && step_nz c.

(* several axes: every range part in axis_dom, every integer inside [-n,n), the parts account for
   exactly the axes of the shape (nf = number of axes the ellipsis stands for) *)
Fixpoint axes_dom (nf : nat) (shape : list Z) (sls : list sl) : bool :=
  match sls with
  | [] => match shape with [] => true | _ => false end
  | SInt i :: r =>
      match shape with
      | n :: s' => ext_ok n && (- 2 ^ 31 <? i) && (i <? 2 ^ 31) && (- n <=? i) && (i <? n) && axes_dom nf s' r   (* -INT_MIN is undefined *)
      | [] => false
      end
  | SEll :: r =>
      Nat.leb nf (length shape) && forallb ext_ok (firstn nf shape) && axes_dom nf (skipn nf shape) r
  | SRange a b c :: r =>
      match shape with
      | n :: s' => axis_dom n a b c && axes_dom nf s' r
      | [] => false
      end
  end.
Definition multi_dom (shape : list Z) (sls : list sl) : bool :=
  wf_slices shape sls && axes_dom (nfill shape sls) shape sls.

(* one axis, for finite sweeps *)
Definition model_axis_ok (n : Z) (start stop step : option Z) : bool :=
  match slice_len n start stop step with
  | Len l =>
      (l =? py_len n start stop step)
      && forallb (fun k => compute_index k n start stop step =? py_index k n start stop step)
                 (zrange (py_len n start stop step))
  | _ => false
  end.
